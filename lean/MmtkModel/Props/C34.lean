import MmtkModel.Model.ImmixLines
/-!
# C34 — Immix never hands out a line that holds a live object

Statement (properties.jsonl): across any history of nursery, full-heap and defragmenting Immix
collections (including more than 127 GCs, where the line mark state wraps), hole search only returns
lines not marked live in the current or the last full collection, every line spanned by a live
object is marked, and block states round-trip through their byte encoding.

The transition system `Step` below runs the transcribed functions of `Model/ImmixLines.lean` on one
`ImmixSpace` and carries three ghost sets of (block, line) pairs:

* `mk`    — lines marked (`mark_lines`, eager marking) since the last major `prepare`;
* `old`   — during a major GC: the `mk` of the previous cycle (objects that were live when the GC
            started and may or may not have been re-marked yet);
* `fresh` — lines handed to an allocator since the last `release`.

A line "holds a live object" iff it is in one of the three sets: an object is only ever marked where
it was allocated (`Step.markObject` demands that the object's lines are protected), and every line
an allocator may bump into is recorded in `fresh`.  All theorems are for every reachable state,
i.e. histories of any length (the induction is `Reachable.inv`), in particular across the wrap
of the mark state.
-/
namespace Mmtk.Immix
open Consts

/-! ## Block state round trip -/

/-- States `Block::sweep` / `init` can store: a reusable block has 1 ≤ n ≤ 253 unavailable lines. -/
def BlockState.WF : BlockState → Prop
  | .reusable n => 1 ≤ n ∧ n ≤ 253
  | _ => True

/-- byte → state → byte is the identity on every byte (indeed on every `Nat`). -/
theorem ofByte_toByte (b : Nat) : (BlockState.ofByte b).toByte = b := by
  unfold BlockState.ofByte
  split
  · next h => simp [BlockState.toByte, h]
  · split
    · next h => simp [BlockState.toByte, h]
    · split
      · next h => simp [BlockState.toByte, h]
      · simp [BlockState.toByte]

/-- state → byte → state is the identity on every well-formed state. -/
theorem toByte_ofByte (st : BlockState) (h : st.WF) : BlockState.ofByte st.toByte = st := by
  cases st with
  | unallocated => decide
  | unmarked => decide
  | marked => decide
  | reusable n =>
    obtain ⟨h1, h2⟩ := h
    have a : n ≠ markUnallocated := by simp [markUnallocated]; omega
    have b : n ≠ markUnmarked := by simp [markUnmarked]; omega
    have c : n ≠ markMarked := by simp [markMarked]; omega
    simp [BlockState.toByte, BlockState.ofByte, a, b, c]

/-- The three reserved bytes are what makes 0, 254, 255 unusable as line counts: those states do
not round-trip (witness of the hypothesis `WF` being needed). -/
example : BlockState.ofByte (BlockState.reusable 0).toByte ≠ .reusable 0 := by decide
example : BlockState.ofByte (BlockState.reusable 255).toByte ≠ .reusable 255 := by decide
example : (BlockState.reusable 127).WF := by simp [BlockState.WF]

theorem blockState_roundtrip :
    (∀ b : Nat, (BlockState.ofByte b).toByte = b) ∧
    (∀ st : BlockState, st.WF → BlockState.ofByte st.toByte = st) ∧
    (∀ b : Nat, b < 256 → (BlockState.ofByte b).WF ∨ b = markUnallocated ∨ b = markUnmarked ∨ b = markMarked) := by
  refine ⟨ofByte_toByte, toByte_ofByte, ?_⟩
  intro b hb
  unfold BlockState.ofByte
  split
  · simp_all
  · split
    · simp_all
    · split
      · simp_all
      · left
        rename_i h1 h2 h3
        simp [markUnallocated, markUnmarked, markMarked] at h1 h2 h3
        simp [BlockState.WF]; omega

/-! ## List lemmas -/

theorem getD_drop (ms : List Nat) (n j : Nat) : (ms.drop n).getD j 0 = ms.getD (n + j) 0 := by
  simp [List.getD_eq_getElem?_getD, List.getElem?_drop]

theorem markLinesFrom_length (v s e : Nat) (ms : List Nat) (i : Nat) :
    (markLinesFrom v s e i ms).length = ms.length := by
  induction ms generalizing i with
  | nil => simp [markLinesFrom]
  | cons m ms ih => simp [markLinesFrom, ih]

theorem markLinesFrom_getD (v s e : Nat) (ms : List Nat) (i j : Nat) (hj : j < ms.length) :
    (markLinesFrom v s e i ms).getD j 0 = if s ≤ i + j ∧ i + j < e then v else ms.getD j 0 := by
  induction ms generalizing i j with
  | nil => simp at hj
  | cons m ms ih =>
    cases j with
    | zero => simp [markLinesFrom]
    | succ j =>
      simp only [markLinesFrom, List.getD_cons_succ]
      rw [ih (i + 1) j (by simpa using hj)]
      have : i + 1 + j = i + (j + 1) := by omega
      rw [this]

theorem markLines_length (v s e : Nat) (ms : List Nat) : (markLines v s e ms).length = ms.length :=
  markLinesFrom_length v s e ms 0

theorem markLines_getD (v s e : Nat) (ms : List Nat) (j : Nat) (hj : j < ms.length) :
    (markLines v s e ms).getD j 0 = if s ≤ j ∧ j < e then v else ms.getD j 0 := by
  have := markLinesFrom_getD v s e ms 0 j hj
  simpa [markLines] using this

theorem replicate_getD (n j : Nat) : (List.replicate n 0).getD j 0 = 0 := by
  simp [List.getD_eq_getElem?_getD, List.getElem?_replicate]
  split <;> simp

/-- What `Block::sweep` does to one line mark. -/
def sweepMark (c m : Nat) : Nat := if m = c then m else if c > maxMarkState - 2 then 0 else m

theorem sweepLines_length (c : Nat) (ms : List Nat) (p : Bool) : (sweepLines c ms p).1.length = ms.length := by
  induction ms generalizing p with
  | nil => simp [sweepLines]
  | cons m ms ih =>
    unfold sweepLines
    split <;> simp [ih]

theorem sweepLines_getD (c : Nat) (ms : List Nat) (p : Bool) (j : Nat) (hj : j < ms.length) :
    (sweepLines c ms p).1.getD j 0 = sweepMark c (ms.getD j 0) := by
  induction ms generalizing p j with
  | nil => simp at hj
  | cons m ms ih =>
    unfold sweepLines
    cases j with
    | zero => split <;> simp_all [sweepMark]
    | succ j =>
      have hj' : j < ms.length := by simpa using hj
      split <;> (simp only [List.getD_cons_succ]; exact ih _ j hj')

/-- `marked_lines` counts exactly the lines carrying the current state: it is 0 only if none does. -/
theorem sweepLines_marked_zero (c : Nat) (ms : List Nat) (p : Bool) (h : (sweepLines c ms p).2.1 = 0) :
    ∀ j, j < ms.length → ms.getD j 0 ≠ c := by
  induction ms generalizing p with
  | nil => intro j hj; simp at hj
  | cons m ms ih =>
    unfold sweepLines at h
    split at h
    · simp at h
    · next hm =>
      intro j hj
      cases j with
      | zero => simpa using hm
      | succ j => simpa using ih _ h j (by simpa using hj)

theorem sweepLines_marked_le (c : Nat) (ms : List Nat) (p : Bool) : (sweepLines c ms p).2.1 ≤ ms.length := by
  induction ms generalizing p with
  | nil => simp [sweepLines]
  | cons m ms ih =>
    unfold sweepLines
    split
    · have := ih true; simp; omega
    · have := ih false; simp; omega

theorem skipUnavail_spec (u c : Nat) (ms : List Nat) :
    skipUnavail u c ms ≤ ms.length ∧
    (∀ j, j < skipUnavail u c ms → ms.getD j 0 = u ∨ ms.getD j 0 = c) ∧
    (skipUnavail u c ms < ms.length → ms.getD (skipUnavail u c ms) 0 ≠ u ∧ ms.getD (skipUnavail u c ms) 0 ≠ c) := by
  induction ms with
  | nil => simp [skipUnavail]
  | cons m ms ih =>
    obtain ⟨h1, h2, h3⟩ := ih
    unfold skipUnavail
    split
    · next h => simp [h]
    · next h =>
      refine ⟨by simp; omega, ?_, ?_⟩
      · intro j hj
        cases j with
        | zero => simp; omega
        | succ j => simp only [List.getD_cons_succ]; exact h2 j (by omega)
      · intro hlt
        have : 1 + skipUnavail u c ms = skipUnavail u c ms + 1 := by omega
        rw [this]
        simp only [List.getD_cons_succ]
        exact h3 (by simp at hlt; omega)

theorem skipAvail_spec (u c : Nat) (ms : List Nat) :
    skipAvail u c ms ≤ ms.length ∧
    (∀ j, j < skipAvail u c ms → ms.getD j 0 ≠ u ∧ ms.getD j 0 ≠ c) ∧
    (skipAvail u c ms < ms.length → ms.getD (skipAvail u c ms) 0 = u ∨ ms.getD (skipAvail u c ms) 0 = c) := by
  induction ms with
  | nil => simp [skipAvail]
  | cons m ms ih =>
    obtain ⟨h1, h2, h3⟩ := ih
    unfold skipAvail
    split
    · next h => simp [h]
    · next h =>
      refine ⟨by simp; omega, ?_, ?_⟩
      · intro j hj
        cases j with
        | zero => simp; omega
        | succ j => simp only [List.getD_cons_succ]; exact h2 j (by omega)
      · intro hlt
        have : 1 + skipAvail u c ms = skipAvail u c ms + 1 := by omega
        rw [this]
        simp only [List.getD_cons_succ]
        exact h3 (by simp at hlt; omega)

/-- `get_next_available_lines` returns a non-empty range inside the block, at or after the search
start, none of whose lines carries the unavailable or the current state; every line skipped before
it does, and the range is maximal. -/
theorem holeSearch_some (ms : List Nat) (u c start s e : Nat) (hstart : start ≤ ms.length)
    (h : holeSearch ms u c start = some (s, e)) :
    start ≤ s ∧ s < e ∧ e ≤ ms.length ∧
    (∀ j, s ≤ j → j < e → ms.getD j 0 ≠ u ∧ ms.getD j 0 ≠ c) ∧
    (∀ j, start ≤ j → j < s → ms.getD j 0 = u ∨ ms.getD j 0 = c) ∧
    (e < ms.length → ms.getD e 0 = u ∨ ms.getD e 0 = c) := by
  unfold holeSearch at h
  simp only at h
  split at h
  · simp at h
  · next hne =>
    simp only [Option.some.injEq, Prod.mk.injEq] at h
    obtain ⟨hs, he⟩ := h
    obtain ⟨a1, a2, a3⟩ := skipUnavail_spec u c (ms.drop start)
    obtain ⟨b1, b2, b3⟩ := skipAvail_spec u c (ms.drop s)
    rw [hs] at he hne
    simp only [List.length_drop] at a1 a3 b1 b3
    have hslt : s < ms.length := by omega
    have hk : skipUnavail u c (ms.drop start) = s - start := by omega
    have hse : skipAvail u c (ms.drop s) = e - s := by omega
    -- the line at `s` is available, so the second loop advances at least once
    have hs_av := a3 (by omega)
    rw [hk, getD_drop] at hs_av
    have hss : start + (s - start) = s := by omega
    rw [hss] at hs_av
    have hpos : 0 < skipAvail u c (ms.drop s) := by
      rcases Nat.eq_zero_or_pos (skipAvail u c (ms.drop s)) with h0 | h0
      · have h3 := b3 (by rw [h0]; omega)
        rw [h0, getD_drop, Nat.add_zero] at h3
        rcases h3 with h3 | h3
        · exact absurd h3 hs_av.1
        · exact absurd h3 hs_av.2
      · exact h0
    refine ⟨by omega, by omega, by omega, ?_, ?_, ?_⟩
    · intro j hj1 hj2
      have := b2 (j - s) (by omega)
      rw [getD_drop] at this
      have e1 : s + (j - s) = j := by omega
      rwa [e1] at this
    · intro j hj1 hj2
      have := a2 (j - start) (by omega)
      rw [getD_drop] at this
      have e1 : start + (j - start) = j := by omega
      rwa [e1] at this
    · intro hlt
      have := b3 (by omega)
      rw [hse, getD_drop] at this
      have e1 : s + (e - s) = e := by omega
      rwa [e1] at this

/-- `None` is returned only if every line from the search start on is unavailable. -/
theorem holeSearch_none (ms : List Nat) (u c start : Nat) (_hstart : start ≤ ms.length)
    (h : holeSearch ms u c start = none) :
    ∀ j, start ≤ j → j < ms.length → ms.getD j 0 = u ∨ ms.getD j 0 = c := by
  unfold holeSearch at h
  simp only at h
  split at h
  · next heq =>
    obtain ⟨a1, a2, a3⟩ := skipUnavail_spec u c (ms.drop start)
    simp only [List.length_drop] at a1
    intro j hj1 hj2
    have := a2 (j - start) (by omega)
    rw [getD_drop] at this
    have e1 : start + (j - start) = j := by omega
    rwa [e1] at this
  · simp at h

/-! ## The mark-state cycle -/

theorem maxMark_facts : resetMarkState = 1 ∧ 3 ≤ maxMarkState ∧ maxMarkState ≤ 253 := by decide

theorem LINES_facts : 2 ≤ LINES ∧ LINES ≤ 253 := by decide

theorem nextMarkState_range (c : Nat) (h1 : 1 ≤ c) (h2 : c ≤ maxMarkState) :
    1 ≤ nextMarkState c ∧ nextMarkState c ≤ maxMarkState ∧ nextMarkState c ≠ c ∧
    (c < maxMarkState → nextMarkState c = c + 1) ∧ (c = maxMarkState → nextMarkState c = 1) := by
  obtain ⟨r, m3, m253⟩ := maxMark_facts
  unfold nextMarkState
  simp only [r]
  have : (c + 1) % 256 = c + 1 := Nat.mod_eq_of_lt (by omega)
  rw [this]
  split <;> omega

/-- Values a line mark may have in an allocated block right after the sweep of a GC whose state
was `c`: zero, `c` itself, or — while `c ≤ MAX-2`, i.e. since the last two clearing sweeps — `MAX`
or a state used since the wrap. -/
def staleIdle (c m : Nat) : Prop :=
  m = 0 ∨ m = c ∨ (c + 2 ≤ maxMarkState ∧ (m = maxMarkState ∨ (1 ≤ m ∧ m < c)))

/-- **Stale marks are cleared in time**: a mark value left over from an earlier GC can never be
equal to the state the next major GC is going to use. -/
theorem stale_ne_next (u m : Nat) (h1 : 1 ≤ u) (h2 : u ≤ maxMarkState) (h : staleIdle u m) :
    m ≠ nextMarkState u := by
  obtain ⟨a, b, hne, d, e⟩ := nextMarkState_range u h1 h2
  obtain ⟨r, m3, m253⟩ := maxMark_facts
  rcases h with h | h | ⟨h, h' | h'⟩
  · omega
  · omega
  · have := d (by omega); omega
  · have := d (by omega); omega

/-- The sweep of a GC with state `c` (a major one: `c = next u`; a nursery one: `c = u`) re-establishes
`staleIdle c` from `mark = c ∨ staleIdle u mark`. -/
theorem stale_sweep (u c m : Nat) (h1 : 1 ≤ u) (h2 : u ≤ maxMarkState)
    (hc : c = u ∨ c = nextMarkState u) (h : m = c ∨ staleIdle u m) : staleIdle c (sweepMark c m) := by
  obtain ⟨a, b, hne, d, e⟩ := nextMarkState_range u h1 h2
  obtain ⟨r, m3, m253⟩ := maxMark_facts
  unfold sweepMark
  split
  · next hm => right; left; exact hm
  · next hm =>
    split
    · left; rfl
    · next hth =>
      rcases h with h | h
      · exact absurd h hm
      · rcases hc with hc | hc
        · subst hc; exact h
        · unfold staleIdle at *
          by_cases hu : u = maxMarkState
          · have := e hu
            rcases h with h | h | ⟨h, _⟩
            · left; exact h
            · right; right; exact ⟨by omega, Or.inl (by omega)⟩
            · omega
          · have := d (by omega)
            rcases h with h | h | ⟨h, h' | h'⟩
            · left; exact h
            · right; right; exact ⟨by omega, Or.inr (by omega)⟩
            · right; right; exact ⟨by omega, Or.inl h'⟩
            · right; right; exact ⟨by omega, Or.inr (by omega)⟩

/-! ## The ghost transition system -/

structure G where
  s : Space
  /-- between `prepare(true)` and `release(true)` -/
  inMajor : Bool
  marked : Nat → Nat → Prop
  old : Nat → Nat → Prop
  fresh : Nat → Nat → Prop

def allocd (s : Space) (b : Nat) : Prop := (s.blk b).state ≠ .unallocated
def markOf (s : Space) (b l : Nat) : Nat := (s.blk b).marks.getD l 0

/-- "(block `b`, line `l`) may hold a live object". -/
def G.protected (g : G) (b l : Nat) : Prop := g.marked b l ∨ g.old b l ∨ g.fresh b l

def G.init : G := { s := {}, inMajor := false, marked := fun _ _ => False, old := fun _ _ => False, fresh := fun _ _ => False }

inductive Step : G → G → Prop
  /-- `ImmixSpace::prepare(true, ..)` of a full-heap / defrag / concurrent-initial-mark GC -/
  | prepareMajor (g : G) (sel : Nat → Bool) (h : g.inMajor = false) :
      Step g { g with s := g.s.prepare true sel, inMajor := true, marked := fun _ _ => False, old := g.marked }
  /-- marking the lines `[lo, hi)` of block `b` for a live object, which can only reside in lines
  that are protected -/
  | markObject (g : G) (b lo hi : Nat) (hlt : lo < hi) (hhi : hi ≤ LINES)
      (hres : ∀ l, lo ≤ l → l < hi → g.protected b l) :
      Step g { g with s := g.s.markObject b lo hi, marked := fun b' l => g.marked b' l ∨ (b' = b ∧ lo ≤ l ∧ l < hi) }
  /-- `ImmixSpace::release(major, ..)` + sweep; `major` must match the `prepare` -/
  | release (g : G) (major : Bool) (h : g.inMajor = major) :
      Step g { g with s := g.s.release major, inMajor := false, old := fun _ _ => False, fresh := fun _ _ => False }
  /-- an allocator pops block `b` from the reusable list -/
  | pop (g : G) (b : Nat) (copy : Bool) (s' : Space) (hr : g.s.reusable b = true)
      (h : g.s.popReusable b copy = some s') : Step g { g with s := s' }
  /-- the allocator owning block `b` (cursor `l`) searches for its next hole; the hole (if any) is
  handed to its bump pointer -/
  | hole (g : G) (b l : Nat) (hc : g.s.cursor b = some l) :
      Step g { g with
        s := (g.s.holeStep b l).1
        fresh := fun b' l' => g.fresh b' l' ∨ (b' = b ∧ ∃ st en, (g.s.holeStep b l).2 = some (st, en) ∧ st ≤ l' ∧ l' < en)
        marked := fun b' l' => g.marked b' l' ∨ (g.s.asLive = true ∧ b' = b ∧ ∃ st en, (g.s.holeStep b l).2 = some (st, en) ∧ st ≤ l' ∧ l' < en) }
  /-- the page resource grants the unallocated block `b` as a clean block -/
  | clean (g : G) (b : Nat) (copy : Bool) (hu : ¬ allocd g.s b) :
      Step g { g with
        s := g.s.acquireClean b copy
        fresh := fun b' l' => g.fresh b' l' ∨ (b' = b ∧ l' < LINES)
        marked := fun b' l' => g.marked b' l' ∨ (g.s.asLive = true ∧ b' = b ∧ l' < LINES) }
  /-- concurrent marking switches allocate-as-live on or off -/
  | setAsLive (g : G) (v : Bool) : Step g { g with s := { g.s with asLive := v } }
  /-- an allocator is reset (`ImmixAllocator::reset`) and forgets its cursor -/
  | dropCursor (g : G) (b : Nat) : Step g { g with s := { g.s with cursor := upd g.s.cursor b none } }

inductive Reachable : G → Prop
  | init : Reachable G.init
  | step {g g' : G} : Reachable g → Step g g' → Reachable g'

structure Inv (g : G) : Prop where
  cur1 : 1 ≤ g.s.cur
  curM : g.s.cur ≤ maxMarkState
  un1 : 1 ≤ g.s.unavail
  unM : g.s.unavail ≤ maxMarkState
  idle : g.inMajor = false → g.s.cur = g.s.unavail ∧ ∀ b l, ¬ g.old b l
  major : g.inMajor = true → g.s.cur = nextMarkState g.s.unavail
  len : ∀ b, allocd g.s b → (g.s.blk b).marks.length = LINES
  mkI : ∀ b l, g.marked b l → allocd g.s b ∧ l < LINES ∧ markOf g.s b l = g.s.cur
  oldI : ∀ b l, g.old b l → allocd g.s b ∧ l < LINES ∧ (markOf g.s b l = g.s.unavail ∨ markOf g.s b l = g.s.cur)
  freshI : ∀ b l, g.fresh b l → allocd g.s b ∧ g.s.reusable b = false ∧ l < LINES ∧ ∀ c, g.s.cursor b = some c → l < c
  reuI : ∀ b, g.s.reusable b = true → allocd g.s b ∧ g.s.cursor b = none
  unI : ∀ b, ¬ allocd g.s b → g.s.cursor b = none ∧ g.s.reusable b = false
  curI : ∀ b c, g.s.cursor b = some c → allocd g.s b ∧ c < LINES ∧ g.s.reusable b = false
  stale : ∀ b l, allocd g.s b → l < LINES → markOf g.s b l = g.s.cur ∨ staleIdle g.s.unavail (markOf g.s b l)
  exact : ∀ b l, allocd g.s b → l < LINES → markOf g.s b l = g.s.cur → g.marked b l

theorem inv_init : Inv G.init := by
  obtain ⟨r, m3, m253⟩ := maxMark_facts
  constructor <;> simp [G.init, allocd, r] <;> omega

/-! ### per-step facts about the transcribed functions -/

theorem upd_same {α} (f : Nat → α) (i : Nat) (v : α) : upd f i v i = v := by simp [upd]
theorem upd_other {α} (f : Nat → α) (i j : Nat) (v : α) (h : j ≠ i) : upd f i v j = f j := by simp [upd, h]

theorem prepare_state (b : Block) (d : Bool) : (b.prepare d).state = .unallocated ↔ b.state = .unallocated := by
  unfold Block.prepare
  split <;> simp_all

theorem prepare_marks (b : Block) (d : Bool) : (b.prepare d).marks = b.marks := by
  unfold Block.prepare
  split <;> simp

theorem sweepBlock_marks (c : Nat) (b : Block) : (sweepBlock c b).1.marks = (sweepLines c b.marks true).1 := by
  unfold sweepBlock
  simp only
  split
  · rfl
  · split <;> rfl

/-- A block that has a line carrying the current state survives the sweep. -/
theorem sweepBlock_keeps (c : Nat) (b : Block) (j : Nat) (hj : j < b.marks.length) (hm : b.marks.getD j 0 = c) :
    (sweepBlock c b).1.state ≠ .unallocated := by
  unfold sweepBlock
  simp only
  split
  · next h0 => exact absurd hm (sweepLines_marked_zero c b.marks true h0 j hj)
  · split <;> simp

/-- The state `Block::sweep` stores is well formed (so it survives the byte encoding) and a block is
pushed to the reusable list exactly when it is stored as `Reusable`. -/
theorem sweepBlock_state (c : Nat) (b : Block) (hlen : b.marks.length = LINES) :
    (sweepBlock c b).1.state.WF ∧
    ((sweepBlock c b).2 = .reused ↔ (sweepBlock c b).1.state.isReusable = true) ∧
    ((sweepBlock c b).2 = .swept ↔ (sweepBlock c b).1.state = .unallocated) := by
  have hle := sweepLines_marked_le c b.marks true
  obtain ⟨l2, l253⟩ := LINES_facts
  unfold sweepBlock
  simp only
  split
  · simp [BlockState.WF, BlockState.isReusable]
  · split
    · next h0 h1 =>
      have : (sweepLines c b.marks true).2.1 % 256 = (sweepLines c b.marks true).2.1 := Nat.mod_eq_of_lt (by omega)
      simp only [BlockState.WF, BlockState.isReusable, this]
      refine ⟨by omega, by simp, by simp⟩
    · simp [BlockState.WF, BlockState.isReusable]

theorem prepare_cur (s : Space) (sel : Nat → Bool) : (s.prepare true sel).cur = nextMarkState s.cur := rfl
theorem prepare_unavail (s : Space) (sel : Nat → Bool) : (s.prepare true sel).unavail = s.unavail := rfl
theorem prepare_cursor (s : Space) (sel : Nat → Bool) : (s.prepare true sel).cursor = s.cursor := rfl
theorem prepare_reusable (s : Space) (sel : Nat → Bool) : (s.prepare true sel).reusable = s.reusable := rfl
theorem prepare_blk (s : Space) (sel : Nat → Bool) (i : Nat) : (s.prepare true sel).blk i = (s.blk i).prepare (sel i) := rfl

/-! ### the invariant is inductive -/

theorem inv_step {g g' : G} (hi : Inv g) (hs : Step g g') : Inv g' := by
  obtain ⟨r, m3, m253⟩ := maxMark_facts
  cases hs with
  | prepareMajor sel h =>
    obtain ⟨hcu, hno⟩ := hi.idle h
    obtain ⟨n1, n2, n3, _, _⟩ := nextMarkState_range g.s.cur hi.cur1 hi.curM
    have hal : ∀ b, allocd (g.s.prepare true sel) b ↔ allocd g.s b := by
      intro b; simp only [allocd, prepare_blk, ne_eq, prepare_state]
    have hmk : ∀ b l, markOf (g.s.prepare true sel) b l = markOf g.s b l := by
      intro b l; simp only [markOf, prepare_blk, prepare_marks]
    -- no allocated line carries the new state
    have hfresh : ∀ b l, allocd g.s b → l < LINES → markOf g.s b l ≠ nextMarkState g.s.cur := by
      intro b l ha hl
      have := hi.stale b l ha hl
      rw [← hcu] at this
      have hst : staleIdle g.s.cur (markOf g.s b l) := by
        rcases this with h | h
        · right; left; exact h
        · exact h
      exact stale_ne_next _ _ hi.cur1 hi.curM hst
    constructor
    · show 1 ≤ (g.s.prepare true sel).cur
      rw [prepare_cur]; exact n1
    · show (g.s.prepare true sel).cur ≤ _
      rw [prepare_cur]; exact n2
    · exact hi.un1
    · exact hi.unM
    · intro h'; simp at h'
    · intro _
      show (g.s.prepare true sel).cur = nextMarkState (g.s.prepare true sel).unavail
      rw [prepare_cur, prepare_unavail, hcu]
    · intro b hb
      have := hi.len b ((hal b).1 hb)
      show ((g.s.prepare true sel).blk b).marks.length = LINES
      rw [prepare_blk, prepare_marks]; exact this
    · intro b l h'; exact absurd h' (by simp)
    · intro b l h'
      obtain ⟨a1, a2, a3⟩ := hi.mkI b l h'
      refine ⟨(hal b).2 a1, a2, ?_⟩
      show markOf (g.s.prepare true sel) b l = (g.s.prepare true sel).unavail ∨ _
      rw [hmk, prepare_unavail]; left
      rw [← hcu]; exact a3
    · intro b l h'
      obtain ⟨a1, a2, a3, a4⟩ := hi.freshI b l h'
      exact ⟨(hal b).2 a1, a2, a3, a4⟩
    · intro b h'
      obtain ⟨a1, a2⟩ := hi.reuI b h'
      exact ⟨(hal b).2 a1, a2⟩
    · intro b h'
      exact hi.unI b (fun h'' => h' ((hal b).2 h''))
    · intro b c h'
      obtain ⟨a1, a2, a3⟩ := hi.curI b c h'
      exact ⟨(hal b).2 a1, a2, a3⟩
    · intro b l ha hl
      show markOf (g.s.prepare true sel) b l = _ ∨ staleIdle (g.s.prepare true sel).unavail (markOf (g.s.prepare true sel) b l)
      rw [hmk, prepare_unavail]
      right
      have := hi.stale b l ((hal b).1 ha) hl
      rcases this with h' | h'
      · right; left; rw [h', hcu]
      · exact h'
    · intro b l ha hl hm
      change markOf (g.s.prepare true sel) b l = (g.s.prepare true sel).cur at hm
      rw [hmk, prepare_cur] at hm
      exact absurd hm (hfresh b l ((hal b).1 ha) hl)
  | markObject b lo hi' hlt hhi hres =>
    -- the block is allocated because the object's lines are protected
    have hab : allocd g.s b := by
      rcases hres lo (Nat.le_refl _) hlt with h | h | h
      · exact (hi.mkI b lo h).1
      · exact (hi.oldI b lo h).1
      · exact (hi.freshI b lo h).1
    have hal : ∀ b', allocd (g.s.markObject b lo hi') b' ↔ allocd g.s b' := by
      intro b'
      simp only [allocd, Space.markObject, upd]
      split
      · next h => subst h; simp
      · simp
    have hmk : ∀ b' l, l < LINES → markOf (g.s.markObject b lo hi') b' l =
        if b' = b ∧ lo ≤ l ∧ l < hi' then g.s.cur else markOf g.s b' l := by
      intro b' l hl
      simp only [markOf, Space.markObject, upd]
      by_cases hb : b' = b
      · subst hb
        simp only [if_true, true_and]
        rw [markLines_getD _ _ _ _ _ (by rw [hi.len b' hab]; exact hl)]
      · simp [hb]
    constructor
    · exact hi.cur1
    · exact hi.curM
    · exact hi.un1
    · exact hi.unM
    · exact hi.idle
    · exact hi.major
    · intro b' hb'
      have := hi.len b' ((hal b').1 hb')
      simp only [Space.markObject, upd]
      split
      · next h => subst h; simp [markLines_length, this]
      · exact this
    · intro b' l h'
      rcases h' with h' | ⟨h1, h2, h3⟩
      · obtain ⟨a1, a2, a3⟩ := hi.mkI b' l h'
        refine ⟨(hal b').2 a1, a2, ?_⟩
        rw [hmk b' l a2]
        split
        · rfl
        · exact a3
      · subst h1
        refine ⟨(hal b').2 hab, by omega, ?_⟩
        rw [hmk b' l (by omega)]
        simp [h2, h3]; rfl
    · intro b' l h'
      obtain ⟨a1, a2, a3⟩ := hi.oldI b' l h'
      refine ⟨(hal b').2 a1, a2, ?_⟩
      rw [hmk b' l a2]
      split
      · right; rfl
      · exact a3
    · intro b' l h'
      obtain ⟨a1, a2, a3, a4⟩ := hi.freshI b' l h'
      exact ⟨(hal b').2 a1, a2, a3, a4⟩
    · intro b' h'
      obtain ⟨a1, a2⟩ := hi.reuI b' h'
      exact ⟨(hal b').2 a1, a2⟩
    · intro b' h'
      exact hi.unI b' (fun h'' => h' ((hal b').2 h''))
    · intro b' c h'
      obtain ⟨a1, a2, a3⟩ := hi.curI b' c h'
      exact ⟨(hal b').2 a1, a2, a3⟩
    · intro b' l ha hl
      rw [hmk b' l hl]
      split
      · left; rfl
      · exact hi.stale b' l ((hal b').1 ha) hl
    · intro b' l ha hl hm
      rw [hmk b' l hl] at hm
      by_cases hc : b' = b ∧ lo ≤ l ∧ l < hi'
      · right; exact hc
      · rw [if_neg hc] at hm
        left; exact hi.exact b' l ((hal b').1 ha) hl hm
  | release major h =>
    have hcu : g.s.cur = g.s.unavail ∨ g.s.cur = nextMarkState g.s.unavail := by
      cases hm : g.inMajor
      · left; exact (hi.idle hm).1
      · right; exact hi.major hm
    have hnu : (if major = true then g.s.cur else g.s.unavail) = g.s.cur := by
      cases major
      · simp; exact ((hi.idle h).1).symm
      · simp
    -- allocation and marks after the sweep
    have hal : ∀ b, allocd (g.s.release major) b → allocd g.s b := by
      intro b hb
      simp only [allocd, Space.release] at hb ⊢
      split at hb
      · exact absurd ‹_› hb
      · assumption
    have hmk : ∀ b l, allocd g.s b → l < LINES →
        markOf (g.s.release major) b l = sweepMark g.s.cur (markOf g.s b l) := by
      intro b l ha hl
      simp only [markOf, Space.release]
      rw [if_neg ha, sweepBlock_marks, sweepLines_getD _ _ _ _ (by rw [hi.len b ha]; exact hl)]
    have hkeep : ∀ b l, allocd g.s b → l < LINES → markOf g.s b l = g.s.cur → allocd (g.s.release major) b := by
      intro b l ha hl hm
      simp only [allocd, Space.release]
      rw [if_neg ha]
      exact sweepBlock_keeps _ _ l (by rw [hi.len b ha]; exact hl) hm
    constructor
    · exact hi.cur1
    · exact hi.curM
    · simp only [Space.release]; rw [hnu]; exact hi.cur1
    · simp only [Space.release]; rw [hnu]; exact hi.curM
    · intro _; simp only [Space.release]; rw [hnu]; exact ⟨rfl, fun _ _ h' => h'⟩
    · intro h'; simp at h'
    · intro b hb
      have ha := hal b hb
      simp only [Space.release]
      rw [if_neg ha, sweepBlock_marks, sweepLines_length]
      exact hi.len b ha
    · intro b l h'
      obtain ⟨a1, a2, a3⟩ := hi.mkI b l h'
      refine ⟨hkeep b l a1 a2 a3, a2, ?_⟩
      rw [hmk b l a1 a2, a3]
      simp [sweepMark, Space.release]
    · intro b l h'; exact absurd h' (by simp)
    · intro b l h'; exact absurd h' (by simp)
    · intro b h'
      simp only [Space.release, Bool.and_eq_true, decide_eq_true_eq] at h'
      obtain ⟨ha, hr⟩ := h'
      refine ⟨?_, rfl⟩
      simp only [allocd, Space.release]
      rw [if_neg ha]
      have := (sweepBlock_state g.s.cur (g.s.blk b) (hi.len b ha)).2.2
      intro hsw
      have := this.2 hsw
      rw [hr] at this
      exact absurd this (by decide)
    · intro b hb
      refine ⟨rfl, ?_⟩
      simp only [Space.release, Bool.and_eq_false_iff, decide_eq_false_iff_not]
      by_cases ha : allocd g.s b
      · right
        simp only [allocd, Space.release] at hb
        rw [if_neg ha] at hb
        have hsw : (sweepBlock g.s.cur (g.s.blk b)).1.state = .unallocated := by
          simpa using hb
        have := (sweepBlock_state g.s.cur (g.s.blk b) (hi.len b ha)).2.2.2 hsw
        rw [this]; decide
      · left; exact ha
    · intro b c h'; simp [Space.release] at h'
    · intro b l hb hl
      have ha := hal b hb
      rw [hmk b l ha hl]
      right
      simp only [Space.release]; rw [hnu]
      have hst := hi.stale b l ha hl
      exact stale_sweep g.s.unavail g.s.cur _ hi.un1 hi.unM hcu hst
    · intro b l hb hl hm
      have ha := hal b hb
      rw [hmk b l ha hl] at hm
      simp only [Space.release] at hm
      apply hi.exact b l ha hl
      unfold sweepMark at hm
      split at hm
      · assumption
      · split at hm
        · have := hi.cur1; omega
        · exact absurd hm ‹_›
  | pop b copy s' hr h =>
    obtain ⟨hab, hcb⟩ := hi.reuI b hr
    obtain ⟨l2, _⟩ := LINES_facts
    unfold Space.popReusable at h
    split at h
    · -- dropped defrag source
      simp only [Option.some.injEq] at h
      subst h
      constructor
      · exact hi.cur1
      · exact hi.curM
      · exact hi.un1
      · exact hi.unM
      · exact hi.idle
      · exact hi.major
      · exact hi.len
      · exact hi.mkI
      · exact hi.oldI
      · intro b' l h'
        obtain ⟨a1, a2, a3, a4⟩ := hi.freshI b' l h'
        refine ⟨a1, ?_, a3, a4⟩
        simp only [Space.popDrop, upd]; split <;> simp_all
      · intro b' h'
        simp only [Space.popDrop, upd] at h'
        split at h'
        · simp at h'
        · exact hi.reuI b' h'
      · intro b' h'
        obtain ⟨a1, a2⟩ := hi.unI b' h'
        refine ⟨a1, ?_⟩
        simp only [Space.popDrop, upd]; split <;> simp_all
      · intro b' c h'
        obtain ⟨a1, a2, a3⟩ := hi.curI b' c h'
        refine ⟨a1, a2, ?_⟩
        simp only [Space.popDrop, upd]; split <;> simp_all
      · exact hi.stale
      · exact hi.exact
    · have key : s' = g.s.popInit b copy := by
        split at h
        · simpa using h.symm
        · simpa using h.symm
        · simp at h
      subst key
      have hal : ∀ b', allocd (g.s.popInit b copy) b' ↔ allocd g.s b' := by
        intro b'
        simp only [allocd, Space.popInit, upd]
        split
        · next hb =>
          subst hb; simp only [Block.init]
          constructor
          · intro _; exact hab
          · intro _; cases copy <;> simp
        · simp
      have hmk : ∀ b' l, markOf (g.s.popInit b copy) b' l = markOf g.s b' l := by
        intro b' l
        simp only [markOf, Space.popInit, upd]
        split
        · next hb => subst hb; simp [Block.init]
        · rfl
      have hcur : ∀ b', b' ≠ b → (g.s.popInit b copy).cursor b' = g.s.cursor b' := by
        intro b' hne; simp only [Space.popInit, upd, if_neg hne]
      have hreu : ∀ b', b' ≠ b → (g.s.popInit b copy).reusable b' = g.s.reusable b' := by
        intro b' hne; simp only [Space.popInit, upd, if_neg hne]
      have hreub : (g.s.popInit b copy).reusable b = false := by simp [Space.popInit, upd]
      have hcurb : (g.s.popInit b copy).cursor b = some 0 := by simp [Space.popInit, upd]
      constructor
      · exact hi.cur1
      · exact hi.curM
      · exact hi.un1
      · exact hi.unM
      · exact hi.idle
      · exact hi.major
      · intro b' hb'
        have := hi.len b' ((hal b').1 hb')
        simp only [Space.popInit, upd]
        split
        · next hb => subst hb; simpa [Block.init] using this
        · exact this
      · intro b' l h'
        obtain ⟨a1, a2, a3⟩ := hi.mkI b' l h'
        exact ⟨(hal b').2 a1, a2, by rw [hmk]; exact a3⟩
      · intro b' l h'
        obtain ⟨a1, a2, a3⟩ := hi.oldI b' l h'
        exact ⟨(hal b').2 a1, a2, by rw [hmk]; exact a3⟩
      · intro b' l h'
        obtain ⟨a1, a2, a3, a4⟩ := hi.freshI b' l h'
        have hne : b' ≠ b := by intro hb; subst hb; simp [hr] at a2
        refine ⟨(hal b').2 a1, ?_, a3, ?_⟩
        · show (g.s.popInit b copy).reusable b' = false
          rw [hreu b' hne]; exact a2
        · show ∀ c, (g.s.popInit b copy).cursor b' = some c → l < c
          rw [hcur b' hne]; exact a4
      · intro b' h'
        change (g.s.popInit b copy).reusable b' = true at h'
        by_cases hne : b' = b
        · subst hne; rw [hreub] at h'; simp at h'
        · rw [hreu b' hne] at h'
          obtain ⟨a1, a2⟩ := hi.reuI b' h'
          exact ⟨(hal b').2 a1, by show (g.s.popInit b copy).cursor b' = none; rw [hcur b' hne]; exact a2⟩
      · intro b' h'
        have hna : ¬ allocd g.s b' := fun h'' => h' ((hal b').2 h'')
        have hne : b' ≠ b := by intro hb; subst hb; exact hna hab
        obtain ⟨a1, a2⟩ := hi.unI b' hna
        exact ⟨by show (g.s.popInit b copy).cursor b' = none; rw [hcur b' hne]; exact a1,
               by show (g.s.popInit b copy).reusable b' = false; rw [hreu b' hne]; exact a2⟩
      · intro b' c h'
        change (g.s.popInit b copy).cursor b' = some c at h'
        by_cases hne : b' = b
        · subst hne
          rw [hcurb] at h'
          simp only [Option.some.injEq] at h'
          subst h'
          exact ⟨(hal b').2 hab, by omega, hreub⟩
        · rw [hcur b' hne] at h'
          obtain ⟨a1, a2, a3⟩ := hi.curI b' c h'
          exact ⟨(hal b').2 a1, a2, by show (g.s.popInit b copy).reusable b' = false; rw [hreu b' hne]; exact a3⟩
      · intro b' l ha hl
        show markOf (g.s.popInit b copy) b' l = _ ∨ staleIdle _ (markOf (g.s.popInit b copy) b' l)
        rw [hmk]; exact hi.stale b' l ((hal b').1 ha) hl
      · intro b' l ha hl hm
        change markOf (g.s.popInit b copy) b' l = _ at hm
        rw [hmk] at hm; exact hi.exact b' l ((hal b').1 ha) hl hm
  | hole b l hc =>
    obtain ⟨hab, hlL, hnr⟩ := hi.curI b l hc
    have hlen := hi.len b hab
    cases hh : holeSearch (g.s.blk b).marks g.s.unavail g.s.cur l with
    | none =>
      have e1 : (g.s.holeStep b l).1 = g.s.noHole b := by simp [Space.holeStep, hh]
      have e2 : (g.s.holeStep b l).2 = none := by simp [Space.holeStep, hh]
      simp only [e1, e2]
      constructor
      · exact hi.cur1
      · exact hi.curM
      · exact hi.un1
      · exact hi.unM
      · exact hi.idle
      · exact hi.major
      · exact hi.len
      · intro b' l' h'
        rcases h' with h' | ⟨_, _, st, en, h', _⟩
        · exact hi.mkI b' l' h'
        · simp at h'
      · exact hi.oldI
      · intro b' l' h'
        rcases h' with h' | ⟨_, st, en, h', _⟩
        · obtain ⟨a1, a2, a3, a4⟩ := hi.freshI b' l' h'
          refine ⟨a1, a2, a3, ?_⟩
          intro c hc'
          simp only [Space.noHole, upd] at hc'
          split at hc'
          · simp at hc'
          · exact a4 c hc'
        · simp at h'
      · intro b' h'
        obtain ⟨a1, a2⟩ := hi.reuI b' h'
        refine ⟨a1, ?_⟩
        simp only [Space.noHole, upd]; split <;> simp_all
      · intro b' h'
        obtain ⟨a1, a2⟩ := hi.unI b' h'
        refine ⟨?_, a2⟩
        simp only [Space.noHole, upd]; split <;> simp_all
      · intro b' c h'
        simp only [Space.noHole, upd] at h'
        split at h'
        · simp at h'
        · exact hi.curI b' c h'
      · exact hi.stale
      · intro b' l' ha hl' hm
        exact Or.inl (hi.exact b' l' ha hl' hm)
    | some p =>
      obtain ⟨st, en⟩ := p
      have e1 : (g.s.holeStep b l).1 = g.s.takeHole b st en := by simp [Space.holeStep, hh]
      have e2 : (g.s.holeStep b l).2 = some (st, en) := by simp [Space.holeStep, hh]
      simp only [e1, e2]
      obtain ⟨s1, s2, s3, s4, s5, s6⟩ := holeSearch_some _ _ _ _ _ _ (by omega) hh
      rw [hlen] at s3
      -- the resulting space
      have hal : ∀ b', allocd (g.s.takeHole b st en) b' ↔ allocd g.s b' := by
        intro b'
        simp only [allocd, Space.takeHole, upd]
        split
        · next hb => subst hb; simp
        · simp
      have hmk : ∀ b' l', l' < LINES → markOf (g.s.takeHole b st en) b' l' =
          if g.s.asLive = true ∧ b' = b ∧ st ≤ l' ∧ l' < en then g.s.cur else markOf g.s b' l' := by
        intro b' l' hl'
        simp only [markOf, Space.takeHole, upd]
        by_cases hb : b' = b
        · subst hb
          simp only [if_true]
          cases hlive : g.s.asLive
          · simp
          · simp only [if_true, true_and]
            rw [markLines_getD _ _ _ _ _ (by rw [hlen]; exact hl')]
        · simp [hb]
      have hcur : ∀ b', b' ≠ b → (g.s.takeHole b st en).cursor b' = g.s.cursor b' := by
        intro b' hne; simp only [Space.takeHole, upd, if_neg hne]
      have hcurb : (g.s.takeHole b st en).cursor b = if en = LINES then none else some en := by
        simp [Space.takeHole, upd]
      have hreu : (g.s.takeHole b st en).reusable = g.s.reusable := rfl
      have hcu : (g.s.takeHole b st en).cur = g.s.cur := rfl
      have hun : (g.s.takeHole b st en).unavail = g.s.unavail := rfl
      constructor
      · exact hi.cur1
      · exact hi.curM
      · exact hi.un1
      · exact hi.unM
      · exact hi.idle
      · exact hi.major
      · intro b' hb'
        have := hi.len b' ((hal b').1 hb')
        simp only [Space.takeHole, upd]
        split
        · next hb => subst hb; simp only; split <;> simp [markLines_length, this]
        · exact this
      · intro b' l' h'
        rcases h' with h' | ⟨hlive, hb, st', en', h', h1, h2⟩
        · obtain ⟨a1, a2, a3⟩ := hi.mkI b' l' h'
          refine ⟨(hal b').2 a1, a2, ?_⟩
          rw [hmk b' l' a2, hcu]
          split
          · rfl
          · exact a3
        · simp only [Option.some.injEq, Prod.mk.injEq] at h'
          obtain ⟨e1, e2⟩ := h'
          subst e1 e2 hb
          refine ⟨(hal b').2 hab, by omega, ?_⟩
          rw [hmk b' l' (by omega), hcu]
          simp [hlive, h1, h2]
      · intro b' l' h'
        obtain ⟨a1, a2, a3⟩ := hi.oldI b' l' h'
        refine ⟨(hal b').2 a1, a2, ?_⟩
        rw [hmk b' l' a2, hcu, hun]
        split
        · right; rfl
        · exact a3
      · intro b' l' h'
        rcases h' with h' | ⟨hb, st', en', h', h1, h2⟩
        · obtain ⟨a1, a2, a3, a4⟩ := hi.freshI b' l' h'
          refine ⟨(hal b').2 a1, a2, a3, ?_⟩
          intro c hc'
          by_cases hne : b' = b
          · subst hne
            rw [hcurb] at hc'
            have := a4 l hc
            split at hc'
            · simp at hc'
            · simp only [Option.some.injEq] at hc'; omega
          · rw [hcur b' hne] at hc'
            exact a4 c hc'
        · simp only [Option.some.injEq, Prod.mk.injEq] at h'
          obtain ⟨e1, e2⟩ := h'
          subst e1 e2 hb
          refine ⟨(hal b').2 hab, hnr, by omega, ?_⟩
          intro c hc'
          rw [hcurb] at hc'
          split at hc'
          · simp at hc'
          · simp only [Option.some.injEq] at hc'; omega
      · intro b' h'
        obtain ⟨a1, a2⟩ := hi.reuI b' h'
        have hne : b' ≠ b := by intro hb; subst hb; rw [hreu, hnr] at h'; simp at h'
        exact ⟨(hal b').2 a1, by rw [hcur b' hne]; exact a2⟩
      · intro b' h'
        have hna : ¬ allocd g.s b' := fun h'' => h' ((hal b').2 h'')
        have hne : b' ≠ b := by intro hb; subst hb; exact hna hab
        obtain ⟨a1, a2⟩ := hi.unI b' hna
        exact ⟨by rw [hcur b' hne]; exact a1, a2⟩
      · intro b' c h'
        by_cases hne : b' = b
        · subst hne
          rw [hcurb] at h'
          split at h'
          · simp at h'
          · simp only [Option.some.injEq] at h'
            subst h'
            exact ⟨(hal b').2 hab, by omega, hnr⟩
        · rw [hcur b' hne] at h'
          obtain ⟨a1, a2, a3⟩ := hi.curI b' c h'
          exact ⟨(hal b').2 a1, a2, a3⟩
      · intro b' l' ha hl'
        rw [hmk b' l' hl', hcu, hun]
        split
        · left; rfl
        · exact hi.stale b' l' ((hal b').1 ha) hl'
      · intro b' l' ha hl' hm
        rw [hmk b' l' hl', hcu] at hm
        by_cases hcnd : g.s.asLive = true ∧ b' = b ∧ st ≤ l' ∧ l' < en
        · right
          exact ⟨hcnd.1, hcnd.2.1, st, en, rfl, hcnd.2.2.1, hcnd.2.2.2⟩
        · rw [if_neg hcnd] at hm
          left; exact hi.exact b' l' ((hal b').1 ha) hl' hm
  | clean b copy hu =>
    obtain ⟨hcb, hrb⟩ := hi.unI b hu
    have hal : ∀ b', allocd (g.s.acquireClean b copy) b' ↔ (b' = b ∨ allocd g.s b') := by
      intro b'
      simp only [allocd, Space.acquireClean, upd]
      split
      · next hb => subst hb; simp [Block.init]; cases copy <;> simp
      · next hb => simp [hb]
    have hmk : ∀ b' l', l' < LINES → markOf (g.s.acquireClean b copy) b' l' =
        if b' = b then (if g.s.asLive = true then g.s.cur else 0) else markOf g.s b' l' := by
      intro b' l' hl'
      simp only [markOf, Space.acquireClean, upd]
      by_cases hb : b' = b
      · subst hb
        simp only [if_true]
        cases hlive : g.s.asLive
        · simp only [Bool.false_eq_true, ↓reduceIte]; exact replicate_getD _ _
        · simp only [if_true]
          rw [markLines_getD _ _ _ _ _ (by simp; exact hl')]
          simp [hl']
      · simp [hb]
    have hnb : ∀ b', allocd g.s b' → b' ≠ b := fun b' h hb => hu (hb ▸ h)
    constructor
    · exact hi.cur1
    · exact hi.curM
    · exact hi.un1
    · exact hi.unM
    · exact hi.idle
    · exact hi.major
    · intro b' hb'
      simp only [Space.acquireClean, upd]
      split
      · simp only; split <;> simp [markLines_length]
      · next hne =>
        rcases (hal b').1 hb' with h | h
        · exact absurd h hne
        · exact hi.len b' h
    · intro b' l' h'
      rcases h' with h' | ⟨hlive, hb, hl'⟩
      · obtain ⟨a1, a2, a3⟩ := hi.mkI b' l' h'
        refine ⟨(hal b').2 (Or.inr a1), a2, ?_⟩
        rw [hmk b' l' a2, if_neg (hnb b' a1)]; exact a3
      · subst hb
        refine ⟨(hal b').2 (Or.inl rfl), hl', ?_⟩
        rw [hmk b' l' hl']; simp [hlive]; rfl
    · intro b' l' h'
      obtain ⟨a1, a2, a3⟩ := hi.oldI b' l' h'
      refine ⟨(hal b').2 (Or.inr a1), a2, ?_⟩
      rw [hmk b' l' a2, if_neg (hnb b' a1)]; exact a3
    · intro b' l' h'
      rcases h' with h' | ⟨hb, hl'⟩
      · obtain ⟨a1, a2, a3, a4⟩ := hi.freshI b' l' h'
        exact ⟨(hal b').2 (Or.inr a1), a2, a3, a4⟩
      · subst hb
        refine ⟨(hal b').2 (Or.inl rfl), hrb, hl', ?_⟩
        intro c hc'
        have : (g.s.acquireClean b' copy).cursor = g.s.cursor := rfl
        rw [this, hcb] at hc'
        simp at hc'
    · intro b' h'
      obtain ⟨a1, a2⟩ := hi.reuI b' h'
      exact ⟨(hal b').2 (Or.inr a1), a2⟩
    · intro b' h'
      have hna : ¬ allocd g.s b' := fun h'' => h' ((hal b').2 (Or.inr h''))
      exact hi.unI b' hna
    · intro b' c h'
      obtain ⟨a1, a2, a3⟩ := hi.curI b' c h'
      exact ⟨(hal b').2 (Or.inr a1), a2, a3⟩
    · intro b' l' ha hl'
      rw [hmk b' l' hl']
      split
      · split
        · left; rfl
        · right; left; rfl
      · next hne =>
        rcases (hal b').1 ha with h | h
        · exact absurd h hne
        · exact hi.stale b' l' h hl'
    · intro b' l' ha hl' hm
      rw [hmk b' l' hl'] at hm
      by_cases hb : b' = b
      · rw [if_pos hb] at hm
        right
        refine ⟨?_, hb, hl'⟩
        cases hlive : g.s.asLive
        · rw [hlive] at hm
          simp at hm
          have := hi.cur1
          change 0 = g.s.cur at hm
          omega
        · rfl
      · rw [if_neg hb] at hm
        rcases (hal b').1 ha with h | h
        · exact absurd h hb
        · left; exact hi.exact b' l' h hl' hm
  | setAsLive v =>
    exact ⟨hi.cur1, hi.curM, hi.un1, hi.unM, hi.idle, hi.major, hi.len, hi.mkI, hi.oldI, hi.freshI,
      hi.reuI, hi.unI, hi.curI, hi.stale, hi.exact⟩
  | dropCursor b =>
    constructor
    · exact hi.cur1
    · exact hi.curM
    · exact hi.un1
    · exact hi.unM
    · exact hi.idle
    · exact hi.major
    · exact hi.len
    · exact hi.mkI
    · exact hi.oldI
    · intro b' l h'
      obtain ⟨a1, a2, a3, a4⟩ := hi.freshI b' l h'
      refine ⟨a1, a2, a3, ?_⟩
      intro c hc
      simp only [upd] at hc
      split at hc
      · simp at hc
      · exact a4 c hc
    · intro b' h'
      obtain ⟨a1, a2⟩ := hi.reuI b' h'
      refine ⟨a1, ?_⟩
      simp only [upd]; split <;> simp_all
    · intro b' h'
      obtain ⟨a1, a2⟩ := hi.unI b' h'
      refine ⟨?_, a2⟩
      simp only [upd]; split <;> simp_all
    · intro b' c h'
      simp only [upd] at h'
      split at h'
      · simp at h'
      · exact hi.curI b' c h'
    · exact hi.stale
    · exact hi.exact

theorem Reachable.inv {g : G} (h : Reachable g) : Inv g := by
  induction h with
  | init => exact inv_init
  | step _ hs ih => exact inv_step ih hs

/-! ## The property -/

/-- **Every line spanned by a live object is marked** — for every reachable state, i.e. after any
history of GCs and allocations of any length: a line marked for an object since the last major
`prepare` (in particular: every line of every object marked in the GC that just finished) belongs
to an allocated block and carries the current mark state; during a major GC the lines of the objects
that were live when it started carry the unavailable or the current state. -/
theorem live_lines_marked {g : G} (h : Reachable g) (b l : Nat) :
    (g.marked b l → allocd g.s b ∧ l < LINES ∧ markOf g.s b l = g.s.cur) ∧
    (g.old b l → allocd g.s b ∧ l < LINES ∧ (markOf g.s b l = g.s.unavail ∨ markOf g.s b l = g.s.cur)) :=
  ⟨h.inv.mkI b l, h.inv.oldI b l⟩

/-- **Hole search never returns a line that may hold a live object**: in any reachable state, the
range an allocator gets from `get_next_available_lines` on the block it owns is non-empty, inside the
block, carries neither the unavailable nor the current mark state, and is disjoint from the lines of
objects marked in this cycle, of objects live at the last full collection, and from every line
already handed to an allocator since the last GC. -/
theorem hole_avoids_live {g : G} (h : Reachable g) (b l st en : Nat) (hc : g.s.cursor b = some l)
    (hh : (g.s.holeStep b l).2 = some (st, en)) :
    l ≤ st ∧ st < en ∧ en ≤ LINES ∧
    ∀ j, st ≤ j → j < en →
      markOf g.s b j ≠ g.s.unavail ∧ markOf g.s b j ≠ g.s.cur ∧ ¬ g.protected b j := by
  have hi := h.inv
  obtain ⟨hab, hlL, hnr⟩ := hi.curI b l hc
  have hlen := hi.len b hab
  cases hs : holeSearch (g.s.blk b).marks g.s.unavail g.s.cur l with
  | none => simp [Space.holeStep, hs] at hh
  | some p =>
    obtain ⟨st', en'⟩ := p
    simp only [Space.holeStep, hs, Option.some.injEq, Prod.mk.injEq] at hh
    obtain ⟨rfl, rfl⟩ := hh
    obtain ⟨s1, s2, s3, s4, _, _⟩ := holeSearch_some _ _ _ _ _ _ (by omega) hs
    rw [hlen] at s3
    refine ⟨s1, s2, s3, ?_⟩
    intro j hj1 hj2
    obtain ⟨m1, m2⟩ := s4 j hj1 hj2
    refine ⟨m1, m2, ?_⟩
    intro hp
    rcases hp with hp | hp | hp
    · exact m2 (hi.mkI b j hp).2.2
    · rcases (hi.oldI b j hp).2.2 with h' | h'
      · exact m1 h'
      · exact m2 h'
    · have := (hi.freshI b j hp).2.2.2 l hc
      omega

/-- A clean block granted by the page resource holds no live object (no line of an unallocated block
is protected), so bump allocation into it is safe. -/
theorem clean_block_avoids_live {g : G} (h : Reachable g) (b : Nat) (hu : ¬ allocd g.s b) (l : Nat) :
    ¬ g.protected b l := by
  intro hp
  rcases hp with hp | hp | hp
  · exact hu (h.inv.mkI b l hp).1
  · exact hu (h.inv.oldI b l hp).1
  · exact hu (h.inv.freshI b l hp).1

/-- **Stale marks are cleared before the state wraps**: in every reachable state — after any number of
collections, in particular more than 127 — a line of an allocated block carries the current mark
state **iff** it was marked since the last major `prepare`. A mark left over from 127 collections ago
is never mistaken for a current one (the sweeps at states `MAX-1` and `MAX` zero every unmarked line). -/
theorem stale_cleared {g : G} (h : Reachable g) (b l : Nat) (ha : allocd g.s b) (hl : l < LINES) :
    markOf g.s b l = g.s.cur ↔ g.marked b l :=
  ⟨h.inv.exact b l ha hl, fun hm => (h.inv.mkI b l hm).2.2⟩

/-- The mark state stays in `1 ..= MAX_MARK_STATE` forever, and outside a major GC the unavailable
state equals the current state. -/
theorem mark_state_range {g : G} (h : Reachable g) :
    1 ≤ g.s.cur ∧ g.s.cur ≤ maxMarkState ∧ 1 ≤ g.s.unavail ∧ g.s.unavail ≤ maxMarkState ∧
    (g.inMajor = false → g.s.cur = g.s.unavail) :=
  ⟨h.inv.cur1, h.inv.curM, h.inv.un1, h.inv.unM, fun hm => (h.inv.idle hm).1⟩

/-- After 127 major collections the state is back where it started (the wrap is really reached). -/
example : nextMarkState 1 = 2 ∧ nextMarkState 126 = 127 ∧ nextMarkState 127 = 1 := by decide


/-! ## Genuine defect of mmtk-core found by the GC runs (ConcurrentImmix, NonMoving allocator)

`Step.release` clears every allocator cursor and `fresh`: this transcribes `Mutator::release` →
`immix_mutator_release` / `common_release_func` (`ImmixAllocator::reset`) and `CopyContext::release`.
`concurrent_immix_mutator_release` / `concurent_immix_mutator_prepare`
(src/plan/concurrent/immix/mutator.rs:25, :53) reset only the `Default` allocator and never call
`common_release_func` / `common_prepare_func`, so the ImmixAllocator of the `NonMoving` semantics keeps
its bump pointer, large bump pointer and hole cursor across collections. The full statement

  *for every ImmixSpace of every plan: no allocator is ever handed / bumps into a line that may hold a
   live object, and every line of a reachable object lies in an allocated block and is marked*

was therefore FALSE on the pinned code for the `nonmoving` space of ConcurrentImmix — repaired since by the
`fix:` commit "ConcurrentImmix resets the non-moving space's allocator at prepare/release" (0ea5616), so that on
this tree EVERY allocator of every ImmixSpace is reset at release and `hole_avoids_live` (= `Step.release` is the only
release there is) is the full statement — (hx_gc program on the pinned code:
`cfg plan ConcurrentImmix; init; bind 0; alloc 0 1 0 64 8 0 NonMoving 63; root 0 63 null; gc 0 1;
alloc 0 2 0 64 8 0 NonMoving 0; gc 0 1; immix; snap` — object 2 is bump-allocated at 0x80000400060 in
the block the first GC released; it is reachable, its block is Unallocated and the space accounts 0
pages). What is proved (`hole_avoids_live_partial`) is the statement for every space whose allocators are
reset at release (`Step.release`), which is what every other plan and ConcurrentImmix's own `Default`
allocator do. `conc_nonmoving_allocator_not_reset_witness` replays the failing history in the model with a
release that keeps the allocator's bump region. -/

/-- `ImmixSpace::release` + sweep WITHOUT the allocator reset (what ConcurrentImmix does for its
NonMoving allocator): the allocator keeps its bump region, i.e. `fresh` and the cursors survive. -/
def G.releaseKeepingAllocators (g : G) (major : Bool) : G :=
  { g with s := { g.s.release major with cursor := g.s.cursor }, inMajor := false, old := fun _ _ => False }

/-- the failing history: block 0 is granted as a clean block (the allocator's bump region is the whole
block), the only object in it dies, a major GC runs. -/
def witnessBefore : G :=
  { G.init with s := G.init.s.acquireClean 0 false, fresh := fun b l => b = 0 ∧ l < LINES }

def witnessAfter : G :=
  ({ witnessBefore with s := witnessBefore.s.prepare true (fun _ => false), inMajor := true,
                         marked := fun _ _ => False, old := witnessBefore.marked }).releaseKeepingAllocators true

/-- After the collection line 0 of block 0 is still part of an allocator's bump region although the
block has been released (`¬ allocd`): the next object allocated there is live in an unallocated block,
and the page resource may grant the same block to another allocator (`Step.clean` is enabled). With
`Step.release` this state is unreachable (`Inv.freshI`). -/
theorem conc_nonmoving_allocator_not_reset_witness :
    witnessAfter.fresh 0 0 ∧ ¬ allocd witnessAfter.s 0 ∧ ¬ Inv witnessAfter := by
  have h1 : witnessAfter.fresh 0 0 := ⟨rfl, by decide⟩
  have h2 : ¬ allocd witnessAfter.s 0 := by
    simp only [allocd, witnessAfter, witnessBefore, G.releaseKeepingAllocators]
    decide
  exact ⟨h1, h2, fun hi => h2 (hi.freshI 0 0 h1).1⟩

/-- On the pinned tree this was the proved *part* of the property (spaces whose allocators are reset at release);
on this tree every space is such a space, so this is the full statement, kept under its old name (the check lists it)
beside `hole_avoids_live`. -/
theorem hole_avoids_live_partial {g : G} (h : Reachable g) (b l st en : Nat) (hc : g.s.cursor b = some l)
    (hh : (g.s.holeStep b l).2 = some (st, en)) :
    l ≤ st ∧ st < en ∧ en ≤ LINES ∧
    ∀ j, st ≤ j → j < en →
      markOf g.s b j ≠ g.s.unavail ∧ markOf g.s b j ≠ g.s.cur ∧ ¬ g.protected b j :=
  hole_avoids_live h b l st en hc hh

/-! ### the hypotheses are satisfiable: a concrete non-trivial history -/

example : holeSearch [1, 1, 0, 0, 2, 0, 7, 1] 1 2 0 = some (2, 4) := by decide
example : holeSearch [1, 1, 0, 0, 2, 0, 7, 1] 1 2 4 = some (5, 7) := by decide
example : holeSearch [1, 1, 0, 0, 2, 0, 7, 1] 1 2 7 = none := by decide
example : (sweepLines 127 [127, 5, 126, 127] true).1 = [127, 0, 0, 127] := by decide
example : (sweepLines 5 [127, 5, 4, 5] true) = ([127, 5, 4, 5], 2, 2) := by decide
example : objLines 0x20000400f8 16 = (0x20000400, 0x20000402) := by decide

end Mmtk.Immix
