import MmtkModel.Model.Opts
/-!
# C39 — Option setting is all-or-nothing and parsers match their grammar

*Statement*: `set_from_string(name, value)` returns true iff the value parses and passes validation,
and on false no option changes; bulk setting behaves like applying its pairs in order. Size,
nursery, GC-trigger and CPU-list parsers accept exactly their documented grammar and compute the
documented values, reporting overflow instead of wrapping.

Theorems: `set_iff_parse_and_valid`, `set_false_unchanged`, `set_true_effect`, `bulk_eq_fold` (for
ANY option table, so in particular for `table env`); `parseDigits_spec` / `parseUnsigned_spec`
(value, overflow reported); `parseSize_spec`; `trigger_spec` (+ `trigger_fixed_accepts`);
`nursery_spec`; `insertCore_spec`, `insertRange_spec`, `cpulist_item_spec`.

Deviations from the documented forms, stated as theorems rather than hidden:
* (repaired by a `fix:` commit) on the pinned tree `Delegated` followed by ANY suffix was accepted as
  `Delegated` (`s.starts_with("Delegated")`, key `opts:delegated-prefix`); on this tree the variant name
  must match exactly: `trigger_delegated_exact`.
* numbers that are not guarded by a regex (`Bounded:+5,10`, core ids `+1-+3`, `threads=+4`) accept
  one leading `+`, because `uN::from_str` does; the sizes of `gc_trigger` do not (`\d+`). The
  documentation says "numbers", so this is recorded as an observation, not a violation.
-/
namespace Mmtk.Opts

/-! ## Setting one option -/

/-- `set_from_string_inner` succeeds exactly when the key is found, the value parses and validates;
the new options are the old ones with that one value replaced. -/
theorem setInner_ok_iff (tbl : List OptSpec) (opts r : Options) (key val : List Char) :
    setInner tbl opts key val = .ok r ↔
      ∃ o v, tbl.find? (fun o => o.name.toList = key) = some o ∧ o.parse val = some v ∧ o.valid v = true ∧
        r = setVal opts o.name v := by
  unfold setInner
  cases hf : tbl.find? (fun o => o.name.toList = key) with
  | none => simp
  | some o =>
    simp only [Option.some.injEq]
    cases hp : o.parse val with
    | none => simp [hp]
    | some v =>
      cases hv : o.valid v with
      | false =>
        simp only [hv, Bool.false_eq_true, if_false]
        constructor
        · intro h; cases h
        · rintro ⟨o', v', ho, hv', hvalid, _⟩; subst ho; rw [hp] at hv'; cases hv'; rw [hv] at hvalid; cases hvalid
      | true =>
        simp only [hv, if_true, Except.ok.injEq]
        constructor
        · intro h; exact ⟨o, v, rfl, hp, hv, h.symm⟩
        · rintro ⟨o', v', ho, hv', _, hr⟩; subst ho; rw [hp] at hv'; cases hv'; exact hr.symm

/-- **C39 (set_iff_parse_and_valid)** `set_from_string(key, val)` returns true iff `key` names an
option (the first table entry with that name), `val` parses for that option's type and the parsed
value passes the option's validator. -/
theorem set_iff_parse_and_valid (tbl : List OptSpec) (opts : Options) (key val : List Char) :
    (setFromString tbl opts key val).1 = true ↔
      ∃ o v, tbl.find? (fun o => o.name.toList = key) = some o ∧ o.parse val = some v ∧ o.valid v = true := by
  unfold setFromString
  cases hs : setInner tbl opts key val with
  | ok r =>
    obtain ⟨o, v, h1, h2, h3, _⟩ := (setInner_ok_iff tbl opts r key val).1 hs
    simp only [true_iff]
    exact ⟨o, v, h1, h2, h3⟩
  | error e =>
    simp only [Bool.false_eq_true, false_iff]
    rintro ⟨o, v, h1, h2, h3⟩
    have := (setInner_ok_iff tbl opts (setVal opts o.name v) key val).2 ⟨o, v, h1, h2, h3, rfl⟩
    rw [hs] at this
    cases this

/-- **C39 (set_false_unchanged)** when `set_from_string` returns false no option changes. -/
theorem set_false_unchanged (tbl : List OptSpec) (opts : Options) (key val : List Char)
    (h : (setFromString tbl opts key val).1 = false) : (setFromString tbl opts key val).2 = opts := by
  unfold setFromString at *
  cases hs : setInner tbl opts key val with
  | ok o => simp [hs] at h
  | error e => rfl

/-- When it returns true, exactly the named option is replaced by the parsed value; every other
option keeps its value. -/
theorem set_true_effect (tbl : List OptSpec) (opts : Options) (key val : List Char)
    (h : (setFromString tbl opts key val).1 = true) :
    ∃ o v, tbl.find? (fun o => o.name.toList = key) = some o ∧ o.parse val = some v ∧ o.valid v = true ∧
      (setFromString tbl opts key val).2 = setVal opts o.name v ∧
      (∀ kv ∈ setVal opts o.name v, kv.1 ≠ o.name → kv ∈ opts) ∧
      (∀ kv ∈ setVal opts o.name v, kv.1 = o.name → kv.2 = v) := by
  unfold setFromString at *
  cases hs : setInner tbl opts key val with
  | error e => simp [hs] at h
  | ok r =>
    obtain ⟨o, v, h1, h2, h3, h4⟩ := (setInner_ok_iff tbl opts r key val).1 hs
    refine ⟨o, v, h1, h2, h3, h4, ?_, ?_⟩
    · intro kv hkv hne
      simp only [setVal, List.mem_map] at hkv
      obtain ⟨kv0, hm, he⟩ := hkv
      by_cases hk : kv0.1 = o.name
      · simp [hk] at he; subst he; simp at hne
      · simp [hk] at he; subst he; exact hm
    · intro kv hkv heq
      simp only [setVal, List.mem_map] at hkv
      obtain ⟨kv0, hm, he⟩ := hkv
      by_cases hk : kv0.1 = o.name
      · simp [hk] at he; subst he; rfl
      · simp [hk] at he; subst he; exact absurd heq hk

/-! ## Bulk setting -/

/-- One step of the bulk loop as a fold function over `(result so far, options)`:
`none` = still going. -/
def bulkStep (tbl : List OptSpec) (acc : Option BulkResult × Options) (tok : List Char) : Option BulkResult × Options :=
  match acc with
  | (some r, o) => (some r, o)              -- already returned / panicked: later pairs are not looked at
  | (none, opts) =>
    match splitOn '=' tok with
    | [key, val] =>
      match setInner tbl opts key val with
      | .ok opts' => (none, opts')
      | .error .invalidKey => (some (.panic opts), opts)
      | .error _ => (some (.ret false opts), opts)
    | _ => (some (.ret false opts), opts)

def bulkFinish : Option BulkResult × Options → BulkResult
  | (some r, _) => r
  | (none, o) => .ret true o

theorem bulkLoop_eq_fold (tbl : List OptSpec) : ∀ (toks : List (List Char)) (opts : Options),
    bulkLoop tbl toks opts = bulkFinish (toks.foldl (bulkStep tbl) (none, opts)) := by
  have stuck : ∀ (toks : List (List Char)) (r : BulkResult) (o : Options),
      toks.foldl (bulkStep tbl) (some r, o) = (some r, o) := by
    intro toks
    induction toks with
    | nil => intro r o; rfl
    | cons t ts ih => intro r o; simp [List.foldl_cons, bulkStep, ih]
  intro toks
  induction toks with
  | nil => intro opts; rfl
  | cons tok rest ih =>
    intro opts
    simp only [bulkLoop, List.foldl_cons]
    cases hs : splitOn '=' tok with
    | nil => simp [bulkStep, hs, stuck, bulkFinish]
    | cons a l1 =>
      cases l1 with
      | nil => simp [bulkStep, hs, stuck, bulkFinish]
      | cons b l2 =>
        cases l2 with
        | cons c l3 => simp [bulkStep, hs, stuck, bulkFinish]
        | nil =>
          cases hi : setInner tbl opts a b with
          | ok o' => simp [bulkStep, hs, hi, ih]
          | error e => cases e <;> simp [bulkStep, hs, hi, stuck, bulkFinish]

/-- **C39 (bulk_eq_fold)** `set_bulk_from_string` is the left fold of single settings over its
whitespace/comma separated `key=value` tokens, in order, stopping at the first failure: a token
without exactly one `=`, a parse or validation failure returns false; an unknown key panics; pairs
before the failing one stay applied; true iff every pair was set. -/
theorem bulk_eq_fold (tbl : List OptSpec) (opts : Options) (s : List Char) :
    setBulkFromString tbl opts s = bulkFinish ((bulkTokens s).foldl (bulkStep tbl) (none, opts)) :=
  bulkLoop_eq_fold tbl _ _

/-- A successful step of the fold is exactly a successful `set_from_string`. -/
theorem bulkStep_ok_iff (tbl : List OptSpec) (opts : Options) (key val : List Char) (tok : List Char)
    (ht : splitOn '=' tok = [key, val]) :
    (bulkStep tbl (none, opts) tok).1 = none ↔ (setFromString tbl opts key val).1 = true := by
  simp only [bulkStep, ht, setFromString]
  cases hi : setInner tbl opts key val with
  | ok o' => simp
  | error e => cases e <;> simp


/-! ## Unsigned integers -/

/-- decimal value of a digit string continued from `acc` -/
def digitsValue : List Char → Nat → Nat
  | [], acc => acc
  | c :: cs, acc => digitsValue cs (acc * 10 + digitVal c)

theorem le_digitsValue : ∀ (cs : List Char) (acc : Nat), acc ≤ digitsValue cs acc := by
  intro cs
  induction cs with
  | nil => intro acc; exact Nat.le_refl _
  | cons c cs ih => intro acc; exact Nat.le_trans (by omega) (ih (acc * 10 + digitVal c))

/-- **C39 (parseDigits_spec)** the checked digit loop accepts exactly ASCII digit strings whose
decimal value stays below the bound and returns that value: overflow is reported (`none`), never
wrapped. -/
theorem parseDigits_spec (bound : Nat) : ∀ (cs : List Char) (acc v : Nat),
    parseDigits bound cs acc = some v ↔
      cs.all isAsciiDigit = true ∧ v = digitsValue cs acc ∧ (cs = [] ∨ v < bound) := by
  intro cs
  induction cs with
  | nil => intro acc v; simp [parseDigits, digitsValue, eq_comm]
  | cons c cs ih =>
    intro acc v
    simp only [parseDigits, List.all_cons, Bool.and_eq_true, digitsValue]
    cases hd : isAsciiDigit c with
    | false => simp
    | true =>
      simp only [if_true, true_and]
      by_cases hb : acc * 10 + digitVal c < bound
      · simp only [hb, if_true, ih]
        constructor
        · rintro ⟨h1, h2, h3⟩
          refine ⟨h1, h2, Or.inr ?_⟩
          rcases h3 with h3 | h3
          · subst h3; simp only [digitsValue] at h2; omega
          · exact h3
        · rintro ⟨h1, h2, h3⟩
          refine ⟨h1, h2, ?_⟩
          rcases h3 with h3 | h3
          · cases h3
          · exact Or.inr h3
      · simp only [hb, if_false]
        constructor
        · intro h; cases h
        · rintro ⟨_, h2, h3⟩
          have := le_digitsValue cs (acc * 10 + digitVal c)
          rcases h3 with h3 | h3
          · cases h3
          · omega

/-- a digit string: non-empty, ASCII digits only -/
def IsDigits (ds : List Char) : Prop := ds ≠ [] ∧ ds.all isAsciiDigit = true

theorem digit_not_sign {c : Char} (h : isAsciiDigit c = true) : c ≠ '+' ∧ c ≠ '-' := by
  constructor <;> (intro e; subst e; revert h; decide)

/-- **C39 (parseUnsigned_spec)** `uN::from_str` accepts exactly `+? digit+` with value `< 2^N` and
returns the decimal value; anything else — empty, a lone sign, `-`, blanks, non-ASCII digits, a
value `≥ 2^N` — is an error. -/
theorem parseUnsigned_spec (bound : Nat) (s : List Char) (v : Nat) :
    parseUnsigned bound s = some v ↔
      ∃ ds, (s = ds ∨ s = '+' :: ds) ∧ IsDigits ds ∧ v = digitsValue ds 0 ∧ v < bound := by
  unfold IsDigits
  match s with
  | [] =>
    simp only [parseUnsigned]
    constructor
    · intro h; cases h
    · rintro ⟨ds, h1 | h1, ⟨h2, _⟩, _⟩
      · exact absurd h1.symm h2
      · cases h1
  | [c] =>
    simp only [parseUnsigned]
    by_cases hs : c = '+' ∨ c = '-'
    · simp only [hs, if_true]
      constructor
      · intro h; cases h
      · rintro ⟨ds, h1 | h1, ⟨h2, h3⟩, _⟩
        · subst h1
          simp only [List.all_cons, List.all_nil, Bool.and_true] at h3
          have := digit_not_sign h3
          rcases hs with hs | hs
          · exact absurd hs this.1
          · exact absurd hs this.2
        · injection h1 with _ h1; exact absurd h1.symm h2
    · simp only [hs, if_false, parseDigits_spec]
      constructor
      · rintro ⟨h1, h2, h3⟩
        refine ⟨[c], Or.inl rfl, ⟨by simp, h1⟩, h2, ?_⟩
        rcases h3 with h3 | h3
        · cases h3
        · exact h3
      · rintro ⟨ds, h1 | h1, ⟨h2, h3⟩, h4, h5⟩
        · subst h1; exact ⟨h3, h4, Or.inr h5⟩
        · injection h1 with h1 h1'
          subst h1
          exact absurd (Or.inl rfl) hs
  | c :: d :: rest =>
    simp only [parseUnsigned]
    by_cases hp : c = '+'
    · subst hp
      simp only [if_true, parseDigits_spec]
      constructor
      · rintro ⟨h1, h2, h3⟩
        refine ⟨d :: rest, Or.inr rfl, ⟨by simp, h1⟩, h2, ?_⟩
        rcases h3 with h3 | h3
        · cases h3
        · exact h3
      · rintro ⟨ds, h1 | h1, ⟨h2, h3⟩, h4, h5⟩
        · subst h1
          simp only [List.all_cons, Bool.and_eq_true] at h3
          exact absurd rfl (digit_not_sign h3.1).1
        · injection h1 with _ h1
          subst h1
          exact ⟨h3, h4, Or.inr h5⟩
    · simp only [hp, if_false, parseDigits_spec]
      constructor
      · rintro ⟨h1, h2, h3⟩
        refine ⟨c :: d :: rest, Or.inl rfl, ⟨by simp, h1⟩, h2, ?_⟩
        rcases h3 with h3 | h3
        · cases h3
        · exact h3
      · rintro ⟨ds, h1 | h1, ⟨h2, h3⟩, h4, h5⟩
        · subst h1; exact ⟨h3, h4, Or.inr h5⟩
        · injection h1 with h1 _
          exact absurd h1 hp


/-- functional form on digit strings -/
theorem parseUnsigned_digits (bound : Nat) (ds : List Char) (hd : IsDigits ds) :
    parseUnsigned bound ds = if digitsValue ds 0 < bound then some (digitsValue ds 0) else none := by
  cases h : parseUnsigned bound ds with
  | some v =>
    obtain ⟨ds', h1, h2, h3, h4⟩ := (parseUnsigned_spec bound ds v).1 h
    rcases h1 with h1 | h1
    · subst h1; subst h3; simp [h4]
    · subst h1
      have := hd.2
      simp only [List.all_cons, Bool.and_eq_true] at this
      exact absurd rfl (digit_not_sign this.1).1
  | none =>
    by_cases hb : digitsValue ds 0 < bound
    · have := (parseUnsigned_spec bound ds (digitsValue ds 0)).2 ⟨ds, Or.inl rfl, hd, rfl, hb⟩
      rw [h] at this; cases this
    · simp [hb]

theorem lower_digit {c : Char} (h : isAsciiDigit c = true) : toLowerAscii c = c ∧ isAsciiAlpha c = false := by
  simp only [isAsciiDigit, Bool.and_eq_true, decide_eq_true_eq] at h
  unfold toLowerAscii isAsciiAlpha
  constructor
  · have : ¬ (65 ≤ c.toNat ∧ c.toNat ≤ 90) := by omega
    simp [this]
  · simp only [Bool.or_eq_false_iff, Bool.and_eq_false_iff, decide_eq_false_iff_not]
    constructor <;> omega

theorem map_lower_digits : ∀ (ds : List Char), ds.all isAsciiDigit = true → ds.map toLowerAscii = ds := by
  intro ds
  induction ds with
  | nil => intro _; rfl
  | cons c cs ih =>
    intro h
    simp only [List.all_cons, Bool.and_eq_true] at h
    simp [List.map_cons, (lower_digit h.1).1, ih h.2]

/-- multiplier selected by a size suffix -/
def sizeMult (c : Char) : Nat :=
  if c = 'k' ∨ c = 'K' then 2^10 else if c = 'm' ∨ c = 'M' then 2^20 else if c = 'g' ∨ c = 'G' then 2^30 else 2^40

theorem suffix_cases {c : Char} (h : isSizeSuffix c = true) :
    c = 'k' ∨ c = 'K' ∨ c = 'm' ∨ c = 'M' ∨ c = 'g' ∨ c = 'G' ∨ c = 't' ∨ c = 'T' := by
  simpa [isSizeSuffix] using h

/-- **C39 (parseSize_spec)** on the strings the regexes admit, `digit+ [kKmMgGtT]?`:
the value is `n · 1024^i` and `none` exactly when that exceeds `2^64 − 1` (overflow is reported, not
wrapped); leading zeros are allowed. -/
theorem parseSize_spec (ds : List Char) (hd : IsDigits ds) :
    parseSize ds = (if digitsValue ds 0 < 2^64 then some (digitsValue ds 0) else none) ∧
    ∀ c, isSizeSuffix c = true →
      parseSize (ds ++ [c]) =
        (if digitsValue ds 0 * sizeMult c < 2^64 then some (digitsValue ds 0 * sizeMult c) else none) := by
  have hmap := map_lower_digits ds hd.2
  constructor
  · unfold parseSize
    simp only [hmap]
    cases hl : ds.getLast? with
    | none => exact parseUnsigned_digits _ ds hd
    | some last =>
      have hmem : last ∈ ds := List.mem_of_getLast? hl
      have hdig : isAsciiDigit last = true := (List.all_eq_true.1 hd.2) last hmem
      simp only [(lower_digit hdig).2, Bool.false_eq_true, if_false]
      exact parseUnsigned_digits _ ds hd
  · intro c hc
    unfold parseSize
    simp only [List.map_append, hmap, List.map_cons, List.map_nil, List.getLast?_concat, List.dropLast_concat]
    have hv := parseUnsigned_digits (2^64) ds hd
    by_cases hb : digitsValue ds 0 < 2^64
    · rw [hv]; simp only [hb, if_true]
      rcases suffix_cases hc with h | h | h | h | h | h | h | h <;> subst h <;>
        simp [toLowerAscii, isAsciiAlpha, sizeMult] <;> rfl
    · rw [hv]; simp only [hb, if_false]
      have hge : ¬ (digitsValue ds 0 * sizeMult c < 2^64) := by
        have : 1 ≤ sizeMult c := by unfold sizeMult; split <;> (try split) <;> (try split) <;> omega
        have := Nat.mul_le_mul_left (digitsValue ds 0) this
        omega
      simp only [hge, if_false]
      rcases suffix_cases hc with h | h | h | h | h | h | h | h <;> subst h <;> simp [toLowerAscii, isAsciiAlpha]


/-! ## GC trigger -/

theorem stripPrefix_some {p s x : List Char} (h : stripPrefix p s = some x) : s = p ++ x := by
  unfold stripPrefix at h
  split at h
  · rename_i hp
    injection h with h
    subst h
    have := List.isPrefixOf_iff_prefix.1 hp
    obtain ⟨t, ht⟩ := this
    subst ht
    simp
  · cases h

theorem splitOn_ne_nil (sep : Char) : ∀ (y : List Char), splitOn sep y ≠ [] := by
  intro y
  induction y with
  | nil => simp [splitOn]
  | cons d ds ih =>
    unfold splitOn
    by_cases hd : d = sep
    · simp [hd]
    · simp only [hd, if_false]
      cases hs : splitOn sep ds with
      | nil => simp
      | cons p ps => simp

theorem splitOn_one (sep : Char) : ∀ (y b : List Char), splitOn sep y = [b] → y = b := by
  intro y
  induction y with
  | nil => intro b h; simp [splitOn] at h; exact h.symm
  | cons d ds ih =>
    intro b h
    unfold splitOn at h
    by_cases hd : d = sep
    · simp only [hd, if_true, List.cons.injEq] at h
      exact absurd h.2 (splitOn_ne_nil sep ds)
    · simp only [hd, if_false] at h
      cases hs : splitOn sep ds with
      | nil => exact absurd hs (splitOn_ne_nil sep ds)
      | cons p ps =>
        rw [hs] at h
        simp only [List.cons.injEq] at h
        obtain ⟨h1, h2⟩ := h
        subst h2; subst h1
        rw [ih p hs]

theorem splitOn_two (sep : Char) : ∀ (x a b : List Char), splitOn sep x = [a, b] → x = a ++ sep :: b := by
  intro x
  induction x with
  | nil => intro a b h; simp [splitOn] at h
  | cons c cs ih =>
    intro a b h
    unfold splitOn at h
    by_cases hc : c = sep
    · simp only [hc, if_true, List.cons.injEq] at h
      obtain ⟨h1, h2⟩ := h
      subst h1
      rw [splitOn_one sep cs b h2, hc]; rfl
    · simp only [hc, if_false] at h
      cases hs : splitOn sep cs with
      | nil => exact absurd hs (splitOn_ne_nil sep cs)
      | cons p ps =>
        rw [hs] at h
        simp only [List.cons.injEq] at h
        obtain ⟨h1, h2⟩ := h
        subst h1; subst h2
        rw [ih p b hs]; rfl

theorem dynParts_some {s a b : List Char} (h : dynParts s = some (a, b)) :
    s = "DynamicHeapSize:".toList ++ (a ++ ',' :: b) ∧ matchSize a = true ∧ matchSize b = true := by
  unfold dynParts at h
  cases hd : stripPrefix "DynamicHeapSize:".toList s with
  | none => simp only [hd] at h; cases h
  | some x =>
    simp only [hd] at h
    cases hsplit : splitOn ',' x with
    | nil => simp only [hsplit] at h; cases h
    | cons a' l1 =>
      cases l1 with
      | nil => simp only [hsplit] at h; cases h
      | cons b' l2 =>
        cases l2 with
        | cons c l3 => simp only [hsplit] at h; cases h
        | nil =>
          simp only [hsplit] at h
          by_cases hm : (matchSize a' && matchSize b') = true
          · simp only [hm, if_true, Option.some.injEq, Prod.mk.injEq] at h
            obtain ⟨h1, h2⟩ := h
            subst h1; subst h2
            simp only [Bool.and_eq_true] at hm
            exact ⟨by rw [stripPrefix_some hd, splitOn_two ',' x a' b' hsplit], hm.1, hm.2⟩
          · simp only [hm] at h; cases h

/-- **C39 (trigger_spec)** what `GCTriggerSelector::from_str` accepts, exactly: every accepted string
is `FixedHeapSize:<size>`, `DynamicHeapSize:<size>,<size>` with `<size> = digit+ [kKmMgGtT]?` whose
values fit in 64 bits, or is exactly `Delegated`; the value is the parsed size(s). -/
theorem trigger_spec (s : List Char) (t : Trigger) (h : triggerFromStr s = some t) :
    (∃ x n, s = "FixedHeapSize:".toList ++ x ∧ matchSize x = true ∧ parseSize x = some n ∧ t = .fixed n) ∨
    (∃ a b mn mx, s = "DynamicHeapSize:".toList ++ (a ++ ',' :: b) ∧ matchSize a = true ∧ matchSize b = true ∧
        parseSize a = some mn ∧ parseSize b = some mx ∧ t = .dynamic mn mx) ∨
    (s = "Delegated".toList ∧ t = .delegated) := by
  unfold triggerFromStr at h
  by_cases hs : s = []
  · simp only [hs, if_true] at h; cases h
  · simp only [hs, if_false] at h
    cases hf : fixedPart s with
    | some x =>
      simp only [hf] at h
      left
      have hx := Option.filter_eq_some_iff.1 hf
      cases hp : parseSize x with
      | none => simp only [hp] at h; cases h
      | some n =>
        simp only [hp, Option.map_some, Option.some.injEq] at h
        exact ⟨x, n, stripPrefix_some hx.1, hx.2, hp, h.symm⟩
    | none =>
      simp only [hf] at h
      right
      cases hd : dynParts s with
      | none =>
        simp only [hd] at h
        by_cases hpre : s = "Delegated".toList
        · simp only [hpre, if_true, Option.some.injEq] at h
          exact Or.inr ⟨hpre, h.symm⟩
        · simp only [hpre, if_false] at h; cases h
      | some ab =>
        obtain ⟨a, b⟩ := ab
        simp only [hd] at h
        obtain ⟨e, ma, mb⟩ := dynParts_some hd
        cases hpa : parseSize a with
        | none => simp only [hpa] at h; cases h
        | some mn =>
          simp only [hpa] at h
          cases hpb : parseSize b with
          | none => simp only [hpb] at h; cases h
          | some mx =>
            simp only [hpb, Option.some.injEq] at h
            exact Or.inl ⟨a, b, mn, mx, e, ma, mb, hpa, hpb, h.symm⟩

/-- Conversely every `FixedHeapSize:<size>` is accepted with the value of `<size>` (or rejected
because of overflow only). -/
theorem trigger_fixed_accepts (x : List Char) (hm : matchSize x = true) :
    triggerFromStr ("FixedHeapSize:".toList ++ x) = (parseSize x).map Trigger.fixed := by
  have hs : stripPrefix "FixedHeapSize:".toList ("FixedHeapSize:".toList ++ x) = some x := by
    simp [stripPrefix]
  have hne : ¬ ("FixedHeapSize:".toList ++ x = []) := by
    have : "FixedHeapSize:".toList = 'F' :: "ixedHeapSize:".toList := rfl
    rw [this]; simp
  unfold triggerFromStr fixedPart
  simp only [hne, if_false, hs, Option.filter_some, hm, if_true]

/-- **C39 (trigger_delegated_exact)** the variant name must match exactly: `Delegated` parses (and
validates), `Delegated` followed by any non-empty suffix is rejected. -/
theorem trigger_delegated_exact :
    (triggerFromStr "Delegated".toList = some .delegated ∧ Trigger.delegated.validate = true) ∧
    ∀ suffix : List Char, suffix ≠ [] → triggerFromStr ("Delegated".toList ++ suffix) = none := by
  have e : "Delegated".toList = ['D', 'e', 'l', 'e', 'g', 'a', 't', 'e', 'd'] := rfl
  have f : "FixedHeapSize:".toList = 'F' :: "ixedHeapSize:".toList := rfl
  have d : "DynamicHeapSize:".toList = 'D' :: 'y' :: "namicHeapSize:".toList := rfl
  refine ⟨⟨by decide +kernel, rfl⟩, ?_⟩
  intro suffix hne
  unfold triggerFromStr fixedPart dynParts stripPrefix
  rw [f, d, e]
  simp [List.isPrefixOf, hne]

example : triggerFromStr "FixedHeapSize:2g".toList = some (.fixed (2 * 2^30)) := by decide +kernel
example : triggerFromStr "DynamicHeapSize:1m,512K".toList = some (.dynamic (2^20) (512 * 1024)) := by decide +kernel
example : triggerFromStr "FixedHeapSize:18014398509481984k".toList = none := by decide +kernel   -- 2^54 · 1024 = 2^64: overflow reported
example : triggerFromStr "FixedHeapSize:18014398509481983k".toList = some (.fixed (2^64 - 1024)) := by decide +kernel
example : triggerFromStr "FixedHeapSize:+5".toList = none := by decide +kernel
example : triggerFromStr "DelegatedHeapSize:1g".toList = none := by decide +kernel
example : triggerFromStr "Delegated".toList = some .delegated := by decide +kernel


/-! ## CPU lists -/

/-- strictly increasing = sorted and duplicate free -/
def StrictSorted (l : List Nat) : Prop := List.Pairwise (· < ·) l

/-- **C39 (insertCore_spec)** `push; sort_unstable; dedup` on a sorted duplicate-free core list is
set insertion: the result is sorted, duplicate free, and contains exactly the old cores and the new one. -/
theorem insertCore_spec (c : Nat) : ∀ (l : List Nat), StrictSorted l →
    StrictSorted (insertCore c l) ∧ ∀ x, x ∈ insertCore c l ↔ x = c ∨ x ∈ l := by
  intro l
  induction l with
  | nil => intro _; simp [insertCore, StrictSorted]
  | cons y ys ih =>
    intro hs
    have hs' := List.pairwise_cons.1 hs
    unfold insertCore
    by_cases h1 : c < y
    · simp only [h1, if_true]
      refine ⟨?_, by intro x; simp⟩
      apply List.pairwise_cons.2
      refine ⟨?_, hs⟩
      intro a ha
      rcases List.mem_cons.1 ha with ha | ha
      · omega
      · have := hs'.1 a ha; omega
    · by_cases h2 : c = y
      · subst h2
        have hirr : ¬ (c < c) := Nat.lt_irrefl c
        simp only [hirr, if_false, if_true]
        refine ⟨hs, ?_⟩
        intro x; simp
      · simp only [h1, h2, if_false]
        obtain ⟨ih1, ih2⟩ := ih hs'.2
        refine ⟨?_, ?_⟩
        · apply List.pairwise_cons.2
          refine ⟨?_, ih1⟩
          intro a ha
          rcases (ih2 a).1 ha with ha | ha
          · omega
          · exact hs'.1 a ha
        · intro x
          simp only [List.mem_cons, ih2]
          constructor
          · rintro (h | h | h)
            · exact Or.inr (Or.inl h)
            · exact Or.inl h
            · exact Or.inr (Or.inr h)
          · rintro (h | h | h)
            · exact Or.inr (Or.inl h)
            · exact Or.inl h
            · exact Or.inr (Or.inr h)

/-- inserting a whole range -/
theorem insertRange_spec (start : Nat) : ∀ (n : Nat) (set : List Nat), StrictSorted set →
    StrictSorted ((List.range n).foldl (fun acc i => insertCore (start + i) acc) set) ∧
    ∀ x, x ∈ (List.range n).foldl (fun acc i => insertCore (start + i) acc) set ↔ (x ∈ set ∨ (start ≤ x ∧ x < start + n)) := by
  intro n
  induction n with
  | zero => intro set hs; refine ⟨by simpa using hs, ?_⟩; intro x; simp; intro h1 h2; omega
  | succ n ih =>
    intro set hs
    rw [List.range_succ, List.foldl_append]
    obtain ⟨h1, h2⟩ := ih set hs
    obtain ⟨h3, h4⟩ := insertCore_spec (start + n) _ h1
    simp only [List.foldl_cons, List.foldl_nil]
    refine ⟨h3, ?_⟩
    intro x
    rw [h4, h2]
    constructor
    · rintro (h | h | h)
      · exact Or.inr ⟨by omega, by omega⟩
      · exact Or.inl h
      · exact Or.inr ⟨h.1, by omega⟩
    · rintro (h | h)
      · exact Or.inr (Or.inl h)
      · by_cases hx : x = start + n
        · exact Or.inl hx
        · exact Or.inr (Or.inr ⟨h.1, by omega⟩)

/-- **C39 (cpulist_item_spec)** one element of a core list is accepted iff it is a `u16`
(`+? digit+`, value ≤ 65535; note the optional `+` of `u16::from_str`) or a range `a-b` of two such
numbers with `a < b`; the set becomes the sorted duplicate-free union with that core / that range. -/
theorem cpulist_item_spec (set : List Nat) (hs : StrictSorted set) (item : List Char) (set' : List Nat)
    (h : parseCpuItem set item = some set') :
    StrictSorted set' ∧
    ((∃ core, item.contains '-' = false ∧ parseU16 item = some core ∧ ∀ x, x ∈ set' ↔ x = core ∨ x ∈ set) ∨
     (∃ a b start stop, item = a ++ '-' :: b ∧ parseU16 a = some start ∧ parseU16 b = some stop ∧ start < stop ∧
        ∀ x, x ∈ set' ↔ (x ∈ set ∨ (start ≤ x ∧ x ≤ stop)))) := by
  unfold parseCpuItem at h
  by_cases hc : item.contains '-' = true
  · simp only [hc, Bool.not_true, Bool.false_eq_true, if_false] at h
    cases hsp : splitOn '-' item with
    | nil => simp only [hsp] at h; cases h
    | cons a l1 =>
      cases l1 with
      | nil => simp only [hsp] at h; cases h
      | cons b l2 =>
        cases l2 with
        | cons c l3 => simp only [hsp] at h; cases h
        | nil =>
          simp only [hsp] at h
          cases ha : parseU16 a with
          | none => simp only [ha] at h; cases h
          | some start =>
            simp only [ha] at h
            cases hb : parseU16 b with
            | none => simp only [hb] at h; cases h
            | some stop =>
              simp only [hb] at h
              by_cases hge : start ≥ stop
              · simp only [hge, if_true] at h; cases h
              · simp only [hge, if_false, Option.some.injEq] at h
                subst h
                obtain ⟨r1, r2⟩ := insertRange_spec start (stop + 1 - start) set hs
                refine ⟨r1, Or.inr ⟨a, b, start, stop, splitOn_two '-' item a b hsp, ha, hb, by omega, ?_⟩⟩
                intro x
                rw [r2]
                constructor
                · rintro (h | h)
                  · exact Or.inl h
                  · exact Or.inr ⟨h.1, by omega⟩
                · rintro (h | h)
                  · exact Or.inl h
                  · exact Or.inr ⟨h.1, by omega⟩
  · have hc' : item.contains '-' = false := by simpa using hc
    rw [hc'] at h
    simp only [Bool.not_false, if_true] at h
    by_cases he : item ≠ []
    · rw [if_pos he] at h
      cases hp : parseU16 item with
      | none => simp only [hp] at h; cases h
      | some core =>
        simp only [hp, Option.some.injEq] at h
        subst h
        obtain ⟨r1, r2⟩ := insertCore_spec core set hs
        exact ⟨r1, Or.inl ⟨core, hc', rfl, r2⟩⟩
    · rw [if_neg he] at h; cases h

example : parseCpulist "0,5,8-11".toList = some (.roundRobin [0, 5, 8, 9, 10, 11]) := by decide +kernel
example : parseCpulist "AllInSet:7,1-3,2".toList = some (.allInSet [1, 2, 3, 7]) := by decide +kernel
example : parseCpulist "3-3".toList = none ∧ parseCpulist "0,".toList = none ∧ parseCpulist "0, 1".toList = none := by decide +kernel
example : parseCpulist "+1-+3".toList = some (.roundRobin [1, 2, 3]) := by decide +kernel
example : parseCpulist "65536".toList = none ∧ parseCpulist "65535".toList = some (.roundRobin [65535]) := by decide +kernel
example : parseCpulist [] = some .osDefault ∧ parseCpulist "Other:1".toList = none := by decide +kernel

/-! ## Nursery size -/

/-- **C39 (nursery_spec)** every accepted nursery string is `Bounded:<v>,<v>`, `Fixed:<n>` or
`ProportionalBounded:<d>,<d>` with `<v>` = `_` (default) or a `usize` (`+? digit+`), `<n>` a `usize`,
`<d>` = `_` or a decimal; the value is built from exactly those fields. -/
theorem nursery_spec (s : List Char) (n : Nursery) (h : nurseryFromStr s = some n) :
    ∃ variant vals, s = variant ++ ':' :: vals ∧
      ((variant = "Bounded".toList ∧ ∃ a b mn mx, vals = a ++ ',' :: b ∧
          defaultOr parseUsize a defaultMinNursery = some mn ∧ defaultOr parseUsize b defaultMaxNursery = some mx ∧
          n = .bounded mn mx) ∨
       (variant = "ProportionalBounded".toList ∧ ∃ a b mn mx, vals = a ++ ',' :: b ∧
          defaultOr parseDec a defaultPropMin = some mn ∧ defaultOr parseDec b defaultPropMax = some mx ∧
          n = .proportional mn mx) ∨
       (variant = "Fixed".toList ∧ ∃ sz, parseUsize vals = some sz ∧ n = .fixed sz)) := by
  unfold nurseryFromStr at h
  cases hsp : splitOn ':' s with
  | nil => simp only [hsp] at h; cases h
  | cons variant l1 =>
    cases l1 with
    | nil => simp only [hsp] at h; cases h
    | cons vals l2 =>
      cases l2 with
      | cons c l3 => simp only [hsp] at h; cases h
      | nil =>
        simp only [hsp] at h
        refine ⟨variant, vals, splitOn_two ':' s variant vals hsp, ?_⟩
        by_cases hB : variant = "Bounded".toList
        · left
          simp only [hB, if_true] at h
          cases hv : splitOn ',' vals with
          | nil => simp only [hv] at h; cases h
          | cons a m1 =>
            cases m1 with
            | nil => simp only [hv] at h; cases h
            | cons b m2 =>
              cases m2 with
              | cons c m3 => simp only [hv] at h; cases h
              | nil =>
                simp only [hv] at h
                cases ha : defaultOr parseUsize a defaultMinNursery with
                | none => simp only [ha] at h; cases h
                | some mn =>
                  simp only [ha] at h
                  cases hb : defaultOr parseUsize b defaultMaxNursery with
                  | none => simp only [hb] at h; cases h
                  | some mx =>
                    simp only [hb, Option.map_some, Option.some.injEq] at h
                    exact ⟨hB, a, b, mn, mx, splitOn_two ',' vals a b hv, ha, hb, h.symm⟩
        · simp only [hB, if_false] at h
          by_cases hP : variant = "ProportionalBounded".toList
          · right; left
            simp only [hP, if_true] at h
            cases hv : splitOn ',' vals with
            | nil => simp only [hv] at h; cases h
            | cons a m1 =>
              cases m1 with
              | nil => simp only [hv] at h; cases h
              | cons b m2 =>
                cases m2 with
                | cons c m3 => simp only [hv] at h; cases h
                | nil =>
                  simp only [hv] at h
                  cases ha : defaultOr parseDec a defaultPropMin with
                  | none => simp only [ha] at h; cases h
                  | some mn =>
                    simp only [ha] at h
                    cases hb : defaultOr parseDec b defaultPropMax with
                    | none => simp only [hb] at h; cases h
                    | some mx =>
                      simp only [hb, Option.map_some, Option.some.injEq] at h
                      exact ⟨hP, a, b, mn, mx, splitOn_two ',' vals a b hv, ha, hb, h.symm⟩
          · simp only [hP, if_false] at h
            by_cases hF : variant = "Fixed".toList
            · right; right
              simp only [hF, if_true] at h
              cases hv : splitOn ',' vals with
              | nil => simp only [hv] at h; cases h
              | cons a m1 =>
                cases m1 with
                | cons b m2 => simp only [hv] at h; cases h
                | nil =>
                  simp only [hv] at h
                  have hva := splitOn_one ',' vals a hv
                  subst hva
                  cases hp : parseUsize vals with
                  | none => rw [hp] at h; cases h
                  | some sz =>
                    rw [hp] at h
                    simp only [Option.map_some, Option.some.injEq] at h
                    exact ⟨hF, sz, rfl, h.symm⟩
            · simp only [hF, if_false] at h; cases h

example : nurseryFromStr "Bounded:_,4096".toList = some (.bounded (2 * 2^20) 4096) := by decide +kernel
example : nurseryFromStr "Fixed:8192".toList = some (.fixed 8192) ∧ nurseryFromStr "Fixed:1,2".toList = none := by decide +kernel
example : nurseryFromStr "ProportionalBounded:0.2,_".toList = some (.proportional ⟨false, 2, 1⟩ ⟨false, 10, 1⟩) := by decide +kernel
example : (Nursery.proportional ⟨false, 2, 1⟩ ⟨false, 10, 1⟩).validate = true ∧
    (Nursery.proportional ⟨false, 0, 0⟩ ⟨false, 10, 1⟩).validate = false ∧
    (Nursery.proportional ⟨false, 5, 1⟩ ⟨false, 15, 1⟩).validate = false := by decide +kernel
example : nurseryFromStr "Bounded:+5,10".toList = some (.bounded 5 10) := by decide +kernel

/-- the whole table: every name is distinct (so "the first entry with that name" is "the entry") -/
example : ((table {}).map (·.name)).Nodup := by decide +kernel
example : (setFromString (table {}) (defaults (table {})) "threads".toList "0".toList).1 = false := by decide +kernel

end Mmtk.Opts
