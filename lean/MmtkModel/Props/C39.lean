import MmtkModel.Model.Opts
/-!
# C39 — Option setting is all-or-nothing and parsers match their grammar
-/
namespace Mmtk.Opts

/-! ## Setting one option -/

/-- `set_from_string_inner` succeeds exactly when the key is found, the value parses and validates;
the new options are the old ones with that one value replaced. -/
theorem setInner_ok_iff (tbl : List OptSpec) (opts r : Options) (key val : List Char) :
    setInner tbl opts key val = .ok r ↔
      ∃ o v, tbl.find? (fun o => o.name.toList = key) = some o ∧ o.parse val = some v ∧ o.valid v = true ∧
        r = setVal opts o.name v := by
  unfold setInner
  cases hf : tbl.find? (fun o => o.name.toList = key) with
  | none => simp
  | some o =>
    simp only [Option.some.injEq]
    cases hp : o.parse val with
    | none => simp [hp]
    | some v =>
      cases hv : o.valid v with
      | false =>
        simp only [hv, Bool.false_eq_true, if_false]
        constructor
        · intro h; cases h
        · rintro ⟨o', v', ho, hv', hvalid, _⟩; subst ho; rw [hp] at hv'; cases hv'; rw [hv] at hvalid; cases hvalid
      | true =>
        simp only [hv, if_true, Except.ok.injEq]
        constructor
        · intro h; exact ⟨o, v, rfl, hp, hv, h.symm⟩
        · rintro ⟨o', v', ho, hv', _, hr⟩; subst ho; rw [hp] at hv'; cases hv'; exact hr.symm

/-- **C39 (set_iff_parse_and_valid)** `set_from_string(key, val)` returns true iff `key` names an
option (the first table entry with that name), `val` parses for that option's type and the parsed
value passes the option's validator. -/
theorem set_iff_parse_and_valid (tbl : List OptSpec) (opts : Options) (key val : List Char) :
    (setFromString tbl opts key val).1 = true ↔
      ∃ o v, tbl.find? (fun o => o.name.toList = key) = some o ∧ o.parse val = some v ∧ o.valid v = true := by
  unfold setFromString
  cases hs : setInner tbl opts key val with
  | ok r =>
    obtain ⟨o, v, h1, h2, h3, _⟩ := (setInner_ok_iff tbl opts r key val).1 hs
    simp only [true_iff]
    exact ⟨o, v, h1, h2, h3⟩
  | error e =>
    simp only [Bool.false_eq_true, false_iff]
    rintro ⟨o, v, h1, h2, h3⟩
    have := (setInner_ok_iff tbl opts (setVal opts o.name v) key val).2 ⟨o, v, h1, h2, h3, rfl⟩
    rw [hs] at this
    cases this

/-- **C39 (set_false_unchanged)** when `set_from_string` returns false no option changes. -/
theorem set_false_unchanged (tbl : List OptSpec) (opts : Options) (key val : List Char)
    (h : (setFromString tbl opts key val).1 = false) : (setFromString tbl opts key val).2 = opts := by
  unfold setFromString at *
  cases hs : setInner tbl opts key val with
  | ok o => simp [hs] at h
  | error e => rfl

/-- When it returns true, exactly the named option is replaced by the parsed value; every other
option keeps its value. -/
theorem set_true_effect (tbl : List OptSpec) (opts : Options) (key val : List Char)
    (h : (setFromString tbl opts key val).1 = true) :
    ∃ o v, tbl.find? (fun o => o.name.toList = key) = some o ∧ o.parse val = some v ∧ o.valid v = true ∧
      (setFromString tbl opts key val).2 = setVal opts o.name v ∧
      (∀ kv ∈ setVal opts o.name v, kv.1 ≠ o.name → kv ∈ opts) ∧
      (∀ kv ∈ setVal opts o.name v, kv.1 = o.name → kv.2 = v) := by
  unfold setFromString at *
  cases hs : setInner tbl opts key val with
  | error e => simp [hs] at h
  | ok r =>
    obtain ⟨o, v, h1, h2, h3, h4⟩ := (setInner_ok_iff tbl opts r key val).1 hs
    refine ⟨o, v, h1, h2, h3, h4, ?_, ?_⟩
    · intro kv hkv hne
      simp only [setVal, List.mem_map] at hkv
      obtain ⟨kv0, hm, he⟩ := hkv
      by_cases hk : kv0.1 = o.name
      · simp [hk] at he; subst he; simp at hne
      · simp [hk] at he; subst he; exact hm
    · intro kv hkv heq
      simp only [setVal, List.mem_map] at hkv
      obtain ⟨kv0, hm, he⟩ := hkv
      by_cases hk : kv0.1 = o.name
      · simp [hk] at he; subst he; rfl
      · simp [hk] at he; subst he; exact absurd heq hk

/-! ## Bulk setting -/

/-- One step of the bulk loop as a fold function over `(result so far, options)`:
`none` = still going. -/
def bulkStep (tbl : List OptSpec) (acc : Option BulkResult × Options) (tok : List Char) : Option BulkResult × Options :=
  match acc with
  | (some r, o) => (some r, o)              -- already returned / panicked: later pairs are not looked at
  | (none, opts) =>
    match splitOn '=' tok with
    | [key, val] =>
      match setInner tbl opts key val with
      | .ok opts' => (none, opts')
      | .error .invalidKey => (some (.panic opts), opts)
      | .error _ => (some (.ret false opts), opts)
    | _ => (some (.ret false opts), opts)

def bulkFinish : Option BulkResult × Options → BulkResult
  | (some r, _) => r
  | (none, o) => .ret true o

theorem bulkLoop_eq_fold (tbl : List OptSpec) : ∀ (toks : List (List Char)) (opts : Options),
    bulkLoop tbl toks opts = bulkFinish (toks.foldl (bulkStep tbl) (none, opts)) := by
  have stuck : ∀ (toks : List (List Char)) (r : BulkResult) (o : Options),
      toks.foldl (bulkStep tbl) (some r, o) = (some r, o) := by
    intro toks
    induction toks with
    | nil => intro r o; rfl
    | cons t ts ih => intro r o; simp [List.foldl_cons, bulkStep, ih]
  intro toks
  induction toks with
  | nil => intro opts; rfl
  | cons tok rest ih =>
    intro opts
    simp only [bulkLoop, List.foldl_cons]
    cases hs : splitOn '=' tok with
    | nil => simp [bulkStep, hs, stuck, bulkFinish]
    | cons a l1 =>
      cases l1 with
      | nil => simp [bulkStep, hs, stuck, bulkFinish]
      | cons b l2 =>
        cases l2 with
        | cons c l3 => simp [bulkStep, hs, stuck, bulkFinish]
        | nil =>
          cases hi : setInner tbl opts a b with
          | ok o' => simp [bulkStep, hs, hi, ih]
          | error e => cases e <;> simp [bulkStep, hs, hi, stuck, bulkFinish]

/-- **C39 (bulk_eq_fold)** `set_bulk_from_string` is the left fold of single settings over its
whitespace/comma separated `key=value` tokens, in order, stopping at the first failure: a token
without exactly one `=`, a parse or validation failure returns false; an unknown key panics; pairs
before the failing one stay applied; true iff every pair was set. -/
theorem bulk_eq_fold (tbl : List OptSpec) (opts : Options) (s : List Char) :
    setBulkFromString tbl opts s = bulkFinish ((bulkTokens s).foldl (bulkStep tbl) (none, opts)) :=
  bulkLoop_eq_fold tbl _ _

/-- A successful step of the fold is exactly a successful `set_from_string`. -/
theorem bulkStep_ok_iff (tbl : List OptSpec) (opts : Options) (key val : List Char) (tok : List Char)
    (ht : splitOn '=' tok = [key, val]) :
    (bulkStep tbl (none, opts) tok).1 = none ↔ (setFromString tbl opts key val).1 = true := by
  simp only [bulkStep, ht, setFromString]
  cases hi : setInner tbl opts key val with
  | ok o' => simp
  | error e => cases e <;> simp

end Mmtk.Opts
