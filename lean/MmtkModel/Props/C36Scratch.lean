import MmtkModel.Props.C36
import MmtkModel.Model.LOS

/-! # Part 2 — the REAL `LargeObjectSpace` protocol on top of the treadmill

The theorems above assume the LOS protocol at the level of treadmill calls (`copy(o, flag)` with
the right flag, at most once per object and GC).  This part *derives* that discipline from the
code of `LargeObjectSpace` itself (`Mmtk.LOS`, Model/LOS.lean: `initialize_object_metadata`,
`prepare`, `trace_object` with `is_in_nursery` / `test_and_mark`'s masks, `release`): histories are
now sequences of `alloc` / `set_allocate_as_live` / `prepare f` / `trace o` (any live object, any
number of times, any order) / `release f`.
-/
namespace Mmtk.LOS
open Mmtk.Treadmill

/-! ## the mark / nursery bit arithmetic of `is_in_nursery` and `test_and_mark` -/

theorem ms_cases {ms : Nat} (h : ms ≤ 1) : ms = 0 ∨ ms = 1 := by omega

/-- an object of the collection nursery (bits `v | NURSERY`, `v` the mark value it was allocated /
last marked with): `is_in_nursery`, and `test_and_mark` marks it in either kind of GC unless
(full GC only) its mark bit already has the new value. -/
theorem bits_young (ms : Nat) (h : ms ≤ 1) :
    ((ms ||| 2) &&& 2 == 2) = true ∧ ((ms ||| 2) &&& 3 == ms) = false ∧
    (((1 - ms) ||| 2) &&& 2 == 2) = true ∧ (((1 - ms) ||| 2) &&& 1 == ms) = false ∧
    ((ms ||| 2) &&& 252) ||| ms = ms ∧ (((1 - ms) ||| 2) &&& 252) ||| ms = ms ∧
    ((ms ||| 2) &&& 1 == ms) = true := by
  rcases ms_cases h with rfl | rfl <;> decide

/-- a mature object (bits = a bare mark value). -/
theorem bits_old (ms : Nat) (h : ms ≤ 1) :
    (ms &&& 2 == 2) = false ∧ ((1 - ms) &&& 2 == 2) = false ∧ (ms &&& 1 == ms) = true ∧
    (ms &&& 3 == ms) = true ∧ ((1 - ms) &&& 1 == ms) = false ∧ ((1 - ms) &&& 252) ||| ms = ms ∧
    1 - ms ≤ 1 ∧ 1 - (1 - ms) = ms := by
  rcases ms_cases h with rfl | rfl <;> decide

/-! ## the invariant of protocol-respecting histories -/

/-- Mark value carried by the not-yet-traced objects of the collection nursery. -/
def youngMark (ph : Phase) (ms : Nat) : Nat :=
  match ph with
  | .gc true => 1 - ms
  | _ => ms

structure Inv (r : Run) : Prop where
  disj : Disj r.sys.los.tm
  alive : ∀ o, o ∈ allObjs r.sys.los.tm ↔ o ∈ r.alive
  aliveNodup : r.alive.Nodup
  ms : r.sys.los.markState ≤ 1
  bA : ∀ o, o ∈ r.sys.los.tm.allocNursery → r.sys.los.bits o = r.sys.los.markState ||| 2
  bT : ∀ o, o ∈ r.sys.los.tm.toSpace → r.sys.los.bits o = r.sys.los.markState
  bC : ∀ o, o ∈ r.sys.los.tm.collectNursery →
    r.sys.los.bits o = youngMark r.sys.ph r.sys.los.markState ||| 2
  bF : ∀ o, o ∈ r.sys.los.tm.fromSpace → r.sys.los.bits o = 1 - r.sys.los.markState
  mutC : r.sys.ph = .mutator → r.sys.los.tm.collectNursery = []
  mutF : r.sys.ph = .mutator → r.sys.los.tm.fromSpace = []
  gcA : ∀ f, r.sys.ph = .gc f → r.sys.los.tm.allocNursery = []
  gcF : r.sys.ph = .gc false → r.sys.los.tm.fromSpace = []
  gcNg : ∀ f, r.sys.ph = .gc f → r.sys.los.inNurseryGc = !f
  gC : ∀ f, r.sys.ph = .gc f → ∀ o, o ∈ r.sys.los.tm.collectNursery ↔ o ∈ r.a0 ∧ o ∉ r.traced
  gF : ∀ f, r.sys.ph = .gc f → ∀ o, o ∈ r.sys.los.tm.fromSpace ↔ f = true ∧ o ∈ r.t0 ∧ o ∉ r.traced
  gT : ∀ f, r.sys.ph = .gc f → ∀ o, o ∈ r.sys.los.tm.toSpace ↔
    (o ∈ r.t0 ∧ (f = false ∨ o ∈ r.traced)) ∨ (o ∈ r.a0 ∧ o ∈ r.traced) ∨ o ∈ r.born
  gEn : ∀ f, r.sys.ph = .gc f → r.enq.Nodup
  gE : ∀ f, r.sys.ph = .gc f → ∀ o, o ∈ r.enq ↔ o ∈ r.traced ∧ (o ∈ r.a0 ∨ (f = true ∧ o ∈ r.t0))
  cnt : ∀ o, r.allocAll.count o = r.sweptAll.count o + (if o ∈ r.alive then 1 else 0)

theorem inv_init : Inv {} := by
  refine ⟨⟨?_, ?_, ?_, ?_, ?_, ?_, ?_, ?_, ?_, ?_⟩, ?_, ?_, ?_, ?_, ?_, ?_, ?_, ?_, ?_, ?_, ?_, ?_, ?_,
    ?_, ?_, ?_, ?_, ?_⟩ <;> simp [allObjs]

/-! ### the treadmill operations keep the four sets duplicate-free and disjoint -/

theorem disj_add {t : TM} (h : Disj t) {o : Obj} (ho : o ∉ allObjs t) (n : Bool) :
    Disj (addToTreadmill t o n) := by
  obtain ⟨nf, nt, nc, na, ft, fc, fa, tc, ta, ca⟩ := h
  simp only [mem_allObjs, not_or] at ho
  obtain ⟨h1, h2, h3, h4⟩ := ho
  cases n
  · refine ⟨nf, nodup_sinsert o nt, nc, na, ?_, fc, fa, ?_, ?_, ca⟩ <;>
      simp only [addToTreadmill, Bool.false_eq_true, if_false, mem_sinsert] <;> grind
  · refine ⟨nf, nt, nc, nodup_sinsert o na, ft, fc, ?_, tc, ?_, ?_⟩ <;>
      simp only [addToTreadmill, if_true, mem_sinsert] <;> grind

theorem disj_flip {t : TM} (h : Disj t) (full : Bool) : Disj (Treadmill.flip t full) := by
  obtain ⟨nf, nt, nc, na, ft, fc, fa, tc, ta, ca⟩ := h
  cases full
  · refine ⟨nf, nt, na, nc, ft, fa, fc, ta, tc, ?_⟩ <;> simp only [Treadmill.flip, Bool.false_eq_true, if_false]
    grind
  · refine ⟨nt, nf, na, nc, ?_, ta, tc, fa, fc, ?_⟩ <;> simp only [Treadmill.flip, if_true] <;> grind

theorem disj_copyC {t : TM} (h : Disj t) {o : Obj} (ho : o ∈ t.collectNursery) :
    Disj { t with collectNursery := sremove t.collectNursery o, toSpace := sinsert t.toSpace o } := by
  obtain ⟨nf, nt, nc, na, ft, fc, fa, tc, ta, ca⟩ := h
  refine ⟨nf, nodup_sinsert o nt, nodup_sremove o nc, na, ?_, ?_, fa, ?_, ?_, ?_⟩ <;>
    simp only [mem_sinsert, mem_sremove] <;> grind

theorem disj_copyF {t : TM} (h : Disj t) {o : Obj} (ho : o ∈ t.fromSpace) :
    Disj { t with fromSpace := sremove t.fromSpace o, toSpace := sinsert t.toSpace o } := by
  obtain ⟨nf, nt, nc, na, ft, fc, fa, tc, ta, ca⟩ := h
  refine ⟨nodup_sremove o nf, nodup_sinsert o nt, nc, na, ?_, ?_, ?_, ?_, ?_, ca⟩ <;>
    simp only [mem_sinsert, mem_sremove] <;> grind

/-! ### what `trace_object` does to an object of each set (this is where the masks matter) -/

/-- An untraced object of the collection nursery: marked, nursery bit cleared, moved to the
to-space by `copy(object, true)`, enqueued. -/
theorem trace_young {r : Run} (hi : Inv r) {f : Bool} (hp : r.sys.ph = .gc f) {o : Obj}
    (ho : o ∈ r.sys.los.tm.collectNursery) :
    traceObject true r.sys.los o = some (true,
      { r.sys.los with
        bits := setBits r.sys.los.bits o r.sys.los.markState,
        tm := { r.sys.los.tm with collectNursery := sremove r.sys.los.tm.collectNursery o,
                                   toSpace := sinsert r.sys.los.tm.toSpace o } }) := by
  have hb := hi.bC o ho
  have hng := hi.gcNg f hp
  have hc : r.sys.los.tm.collectNursery.contains o = true := by simpa using ho
  cases f <;> simp only [youngMark, hp] at hb <;> rcases ms_cases hi.ms with h0 | h0 <;>
    simp [traceObject, isInNursery, testAndMark, hb, hng, h0, NURSERY_BIT, LOS_BIT_MASK, MARK_BIT,
      NOT_LOS_BIT_MASK, copy, ho]

/-- An untraced object of the from-space (full GC): marked, moved by `copy(object, false)`,
enqueued. -/
theorem trace_old {r : Run} (hi : Inv r) (hp : r.sys.ph = .gc true) {o : Obj}
    (ho : o ∈ r.sys.los.tm.fromSpace) :
    traceObject true r.sys.los o = some (true,
      { r.sys.los with
        bits := setBits r.sys.los.bits o r.sys.los.markState,
        tm := { r.sys.los.tm with fromSpace := sremove r.sys.los.tm.fromSpace o,
                                   toSpace := sinsert r.sys.los.tm.toSpace o } }) := by
  have hb := hi.bF o ho
  have hng := hi.gcNg true hp
  have hc : r.sys.los.tm.fromSpace.contains o = true := by simpa using ho
  rcases ms_cases hi.ms with h0 | h0 <;>
    simp [traceObject, isInNursery, testAndMark, hb, hng, h0, NURSERY_BIT, LOS_BIT_MASK, MARK_BIT,
      NOT_LOS_BIT_MASK, copy, ho]

/-- An object of the to-space (mature in a nursery GC, already traced, or allocated as live):
nothing happens, nothing is enqueued. -/
theorem trace_kept {r : Run} (hi : Inv r) {f : Bool} (hp : r.sys.ph = .gc f) {o : Obj}
    (ho : o ∈ r.sys.los.tm.toSpace) :
    traceObject true r.sys.los o = some (false, r.sys.los) := by
  have hb := hi.bT o ho
  have hng := hi.gcNg f hp
  cases f <;> rcases ms_cases hi.ms with h0 | h0 <;>
    simp [traceObject, isInNursery, testAndMark, hb, hng, h0, NURSERY_BIT, LOS_BIT_MASK, MARK_BIT]

end Mmtk.LOS
