import MmtkModel.Model.RefProc
import Mathlib.Data.List.Nodup
/-!
# C06 — Soft/weak/phantom references and finalizers follow their semantics

For **all histories** of registrations, collections (with arbitrary liveness outcomes) and pops.
-/
namespace Mmtk.RefProc

/-! ## weak-reference tables -/

/-- the fold step of `scanRefs`, named for the proofs -/
def scanStep (live : Nat → Bool) (acc : RefState) (r : Nat) : RefState :=
  if !live r then
    { acc with referent := fun x => if x = r then none else acc.referent x }
  else
    match acc.referent r with
    | none => acc
    | some o =>
      if live o then { acc with table := acc.table ++ [r] }
      else { acc with referent := fun x => if x = r then none else acc.referent x,
                      enqueued := acc.enqueued ++ [r] }

theorem scanRefs_eq (live : Nat → Bool) (s : RefState) :
    scanRefs live s = s.table.foldl (scanStep live) { s with table := [] } := rfl

/-- keep the reference in the table: live reference object with a live, uncleared referent -/
def keep (live : Nat → Bool) (ref0 : Nat → Option Nat) (r : Nat) : Bool :=
  live r && (match ref0 r with | some o => live o | none => false)
/-- clear and enqueue: live reference object whose uncleared referent is dead -/
def enq (live : Nat → Bool) (ref0 : Nat → Option Nat) (r : Nat) : Bool :=
  live r && (match ref0 r with | some o => !live o | none => false)

theorem scanStep_spec (live : Nat → Bool) (acc : RefState) (r : Nat) :
    (scanStep live acc r).table = (if keep live acc.referent r then acc.table ++ [r] else acc.table) ∧
    (scanStep live acc r).enqueued = (if enq live acc.referent r then acc.enqueued ++ [r] else acc.enqueued) ∧
    (∀ x, (scanStep live acc r).referent x =
        if x = r ∧ keep live acc.referent r = false then none else acc.referent x) := by
  by_cases hl : live r = true
  · cases hr : acc.referent r with
    | none =>
      refine ⟨by simp [scanStep, keep, hl, hr], by simp [scanStep, enq, hl, hr], fun x => ?_⟩
      by_cases e : x = r <;> simp [scanStep, keep, hl, hr, e]
    | some o =>
      by_cases ho : live o = true
      · refine ⟨by simp [scanStep, keep, hl, hr, ho], by simp [scanStep, enq, hl, hr, ho], fun x => ?_⟩
        simp [scanStep, keep, hl, hr, ho]
      · refine ⟨by simp [scanStep, keep, hl, hr, ho], by simp [scanStep, enq, hl, hr, ho], fun x => ?_⟩
        by_cases e : x = r <;> simp [scanStep, keep, hl, hr, ho, e]
  · refine ⟨by simp [scanStep, keep, hl], by simp [scanStep, enq, hl], fun x => ?_⟩
    by_cases e : x = r <;> simp [scanStep, keep, hl, e]

/-- The whole scan of a duplicate-free table, in closed form (`ref0` = the referent fields before the scan). -/
theorem scan_fold (live : Nat → Bool) (ref0 : Nat → Option Nat) (l : List Nat) (hnd : l.Nodup)
    (acc : RefState) (h0 : ∀ r, r ∈ l → acc.referent r = ref0 r) :
    (l.foldl (scanStep live) acc).table = acc.table ++ l.filter (keep live ref0) ∧
    (l.foldl (scanStep live) acc).enqueued = acc.enqueued ++ l.filter (enq live ref0) ∧
    (∀ x, (l.foldl (scanStep live) acc).referent x =
        if x ∈ l ∧ keep live ref0 x = false then none else acc.referent x) := by
  induction l generalizing acc with
  | nil => simp
  | cons r rest ih =>
    obtain ⟨hr, hnd'⟩ := List.nodup_cons.1 hnd
    obtain ⟨s1, s2, s3⟩ := scanStep_spec live acc r
    have hk : keep live acc.referent r = keep live ref0 r := by
      simp only [keep, h0 r (List.mem_cons_self ..)]
    have he : enq live acc.referent r = enq live ref0 r := by
      simp only [enq, h0 r (List.mem_cons_self ..)]
    have h0' : ∀ r', r' ∈ rest → (scanStep live acc r).referent r' = ref0 r' := by
      intro r' hr'
      have hne : r' ≠ r := fun e => hr (e ▸ hr')
      rw [s3 r']; simp only [hne, false_and, if_false]
      exact h0 r' (List.mem_cons_of_mem _ hr')
    obtain ⟨i1, i2, i3⟩ := ih hnd' (scanStep live acc r) h0'
    simp only [List.foldl_cons]
    refine ⟨?_, ?_, ?_⟩
    · rw [i1, s1, hk, List.filter_cons]
      cases keep live ref0 r <;> simp
    · rw [i2, s2, he, List.filter_cons]
      cases enq live ref0 r <;> simp
    · intro x
      rw [i3 x, s3 x, hk]
      by_cases e : x = r
      · subst e
        simp only [List.mem_cons, true_or, true_and, hr, false_and, if_false]
      · simp [e]

/-- closed form of `scan` -/
theorem scanRefs_closed (live : Nat → Bool) (s : RefState) (hnd : s.table.Nodup) :
    (scanRefs live s).table = s.table.filter (keep live s.referent) ∧
    (scanRefs live s).enqueued = s.enqueued ++ s.table.filter (enq live s.referent) ∧
    (∀ x, (scanRefs live s).referent x =
        if x ∈ s.table ∧ keep live s.referent x = false then none else s.referent x) := by
  have := scan_fold live s.referent s.table hnd { s with table := [] } (fun _ _ => rfl)
  rw [scanRefs_eq]
  simpa using this

/-- **C06 (weak 1)** A registered reference object that is live and whose referent was not cleared
by the application: it is cleared and handed to `enqueue_references` iff its referent is not live
when its stage runs; otherwise it stays registered with its referent intact. -/
theorem weak_cleared_iff (live : Nat → Bool) (s : RefState) (hnd : s.table.Nodup) (r o : Nat)
    (hr : r ∈ s.table) (hl : live r = true) (ho : s.referent r = some o) :
    (live o = false → (scanRefs live s).referent r = none ∧ r ∈ (scanRefs live s).enqueued ∧
        r ∉ (scanRefs live s).table) ∧
    (live o = true → (scanRefs live s).referent r = some o ∧ r ∈ (scanRefs live s).table ∧
        ((scanRefs live s).enqueued.count r = s.enqueued.count r)) := by
  obtain ⟨c1, c2, c3⟩ := scanRefs_closed live s hnd
  constructor
  · intro hd
    have hk : keep live s.referent r = false := by simp [keep, hl, ho, hd]
    have he : enq live s.referent r = true := by simp [enq, hl, ho, hd]
    refine ⟨by rw [c3 r]; simp [hr, hk], by rw [c2]; simp [hr, he], by rw [c1]; simp [hk]⟩
  · intro hd
    have hk : keep live s.referent r = true := by simp [keep, hl, ho, hd]
    have he : enq live s.referent r = false := by simp [enq, hl, ho, hd]
    refine ⟨by rw [c3 r]; simp [hk, ho], by rw [c1]; simp [hr, hk], ?_⟩
    rw [c2, List.count_append]
    have : (s.table.filter (enq live s.referent)).count r = 0 := by
      rw [List.count_eq_zero]; intro hm; simp [he] at hm
    omega

/-- **C06 (weak 2)** exactly once: a scan enqueues each reference at most once, and an enqueued
reference leaves the table, so no later collection can enqueue it again (unless the binding
registers it again). -/
theorem enqueued_once (live : Nat → Bool) (s : RefState) (hnd : s.table.Nodup) (r : Nat) :
    (scanRefs live s).enqueued.count r ≤ s.enqueued.count r + 1 ∧
    (s.enqueued.count r < (scanRefs live s).enqueued.count r → r ∉ (scanRefs live s).table) ∧
    (scanRefs live s).table.Nodup := by
  obtain ⟨c1, c2, _⟩ := scanRefs_closed live s hnd
  have hsub : (s.table.filter (enq live s.referent)).count r ≤ 1 :=
    List.nodup_iff_count_le_one.1 (hnd.filter _) r
  refine ⟨by rw [c2, List.count_append]; omega, ?_, by rw [c1]; exact hnd.filter _⟩
  intro hlt
  rw [c2, List.count_append] at hlt
  have hpos : 0 < (s.table.filter (enq live s.referent)).count r := by omega
  have hm : r ∈ s.table.filter (enq live s.referent) := List.count_pos_iff.1 hpos
  rw [c1]
  intro hk
  simp only [List.mem_filter] at hm hk
  have h1 := hm.2; have h2 := hk.2
  simp only [enq, keep] at h1 h2
  cases hrr : s.referent r with
  | none => simp [hrr] at h1
  | some o => cases hlo : live o <;> simp [hrr, hlo] at h1 h2

/-- **C06 (weak 3)** nothing else is touched: reference objects outside the table keep their
referent; a dead reference object is simply dropped (not enqueued). -/
theorem scan_frame (live : Nat → Bool) (s : RefState) (hnd : s.table.Nodup) (x : Nat) (hx : x ∉ s.table) :
    (scanRefs live s).referent x = s.referent x := by
  rw [(scanRefs_closed live s hnd).2.2 x]; simp [hx]

theorem dead_reference_dropped (live : Nat → Bool) (s : RefState) (hnd : s.table.Nodup) (r : Nat)
    (hl : live r = false) : r ∉ (scanRefs live s).table ∧
    (scanRefs live s).enqueued.count r = s.enqueued.count r := by
  obtain ⟨c1, c2, _⟩ := scanRefs_closed live s hnd
  refine ⟨by rw [c1]; simp [keep, hl], ?_⟩
  rw [c2, List.count_append]
  have : (s.table.filter (enq live s.referent)).count r = 0 := by
    rw [List.count_eq_zero]; intro hm; simp [enq, hl] at hm
  omega

/-- **C06 (soft)** outside an emergency collection the referents of live soft references are
retained (traced) before the scan, so the scan finds them live and keeps the references. -/
theorem soft_retained (live : Nat → Bool) (s : RefState) (r o : Nat) (hr : r ∈ s.table)
    (hl : live r = true) (ho : s.referent r = some o) : o ∈ retainSet live s := by
  simp only [retainSet, List.mem_filterMap]
  exact ⟨r, hr, by simp [hl, ho]⟩

/-! ## finalizers -/

/-- all registrations the processor is responsible for, wherever they currently are -/
def FinState.all (s : FinState) : List (Nat × Nat) := s.candidates ++ s.ready ++ s.popped

theorem filter_partition_count {α : Type} [BEq α] (l : List α) (p : α → Bool) (a : α) :
    (l.filter p).count a + (l.filter (fun x => !p x)).count a = l.count a := by
  induction l with
  | nil => simp
  | cons b rest ih =>
    simp only [List.filter_cons]
    cases hp : p b <;> simp [List.count_cons] <;> omega

/-- **C06 (final 1)** conservation: every operation keeps the multiset of registrations, except `add`
which adds exactly the new one.  So a registration is in exactly one of candidates / ready /
popped at any time: it is returned by `get_finalized_object` at most once. -/
theorem fin_conservation (s : FinState) (op : FinOp) (f : Nat × Nat) :
    (s.apply op).all.count f = s.all.count f +
      (match op with | .add o => if f = (s.nextReg, o) then 1 else 0 | _ => 0) := by
  cases op with
  | add o =>
    simp only [FinState.apply, FinState.add, FinState.all, List.count_append, List.count_cons, List.count_nil]
    by_cases e : f = (s.nextReg, o)
    · subst e; simp; omega
    · have : ((s.nextReg, o) == f) = false := by simp; exact fun h => e h.symm
      simp [this, e]
  | gc live =>
    simp only [FinState.apply, FinState.scan, FinState.all, List.count_append]
    have := filter_partition_count (s.candidates ++ s.ready) (fun f => live f.2) f
    rw [List.count_append] at this
    omega
  | pop =>
    simp only [FinState.apply, FinState.pop]
    cases hrev : s.ready.reverse with
    | nil => simp
    | cons g rest =>
      simp only [FinState.all, List.count_append]
      have hready : s.ready = rest.reverse ++ [g] := by
        have := congrArg List.reverse hrev
        simpa using this
      rw [hready]
      simp only [List.count_append, List.count_cons, List.count_nil]
      omega

/-- registration numbers are unique, so "at most once" is literally per registration -/
structure FinWF (s : FinState) : Prop where
  nodup : s.all.Nodup
  fresh : ∀ f, f ∈ s.all → f.1 < s.nextReg

theorem fin_wf_apply (s : FinState) (op : FinOp) (h : FinWF s) : FinWF (s.apply op) := by
  obtain ⟨hn, hf⟩ := h
  have hcount : ∀ f, (s.apply op).all.count f ≤ 1 := by
    intro f
    rw [fin_conservation]
    have h1 : s.all.count f ≤ 1 := List.nodup_iff_count_le_one.1 hn f
    cases op with
    | add o =>
      simp only
      split
      · rename_i e
        have : s.all.count f = 0 := by
          rw [List.count_eq_zero]; intro hm
          have := hf f hm; rw [e] at this; simp at this
        omega
      · omega
    | gc live => simpa using h1
    | pop => simpa using h1
  refine ⟨List.nodup_iff_count_le_one.2 hcount, ?_⟩
  intro f hm
  have hpos : 0 < (s.apply op).all.count f := List.count_pos_iff.2 hm
  rw [fin_conservation] at hpos
  cases op with
  | add o =>
    simp only at hpos
    by_cases e : f = (s.nextReg, o)
    · rw [e]; simp [FinState.apply, FinState.add]
    · simp only [e, if_false, Nat.add_zero] at hpos
      have := hf f (List.count_pos_iff.1 hpos)
      simp only [FinState.apply, FinState.add]; omega
  | gc live =>
    simp only [Nat.add_zero] at hpos
    exact hf f (List.count_pos_iff.1 hpos)
  | pop =>
    simp only [Nat.add_zero] at hpos
    have := hf f (List.count_pos_iff.1 hpos)
    simp only [FinState.apply, FinState.pop]
    cases s.ready.reverse <;> exact this

/-- **C06 (final 2)** a reachable finalizable object is never made ready, an unreachable one always
is (and every ready one is handed to the closure: kept alive until popped — the retained set of
the GC is `live ∪ closure(ready objects)`). -/
theorem fin_scan_spec (live : Nat → Bool) (s : FinState) (f : Nat × Nat) (hf : f ∈ s.candidates ++ s.ready) :
    (live f.2 = true → f ∈ (s.scan live).candidates ∧ f ∉ (s.scan live).ready) ∧
    (live f.2 = false → f ∈ (s.scan live).ready ∧ f ∉ (s.scan live).candidates) := by
  simp only [FinState.scan, List.mem_filter]
  constructor
  · intro h; exact ⟨⟨hf, h⟩, fun c => by simp [h] at c⟩
  · intro h; exact ⟨⟨hf, by simp [h]⟩, fun c => by simp [h] at c⟩

/-- **C06 (final 3)** `get_finalized_object` returns only registrations that a collection found
unreachable, each at most once (it moves to `popped`, which is never re-examined). -/
theorem pop_spec (s : FinState) (f : Nat × Nat) (h : s.pop.2 = some f) :
    f ∈ s.ready ∧ s.pop.1.popped = s.popped ++ [f] ∧ s.pop.1.ready.length + 1 = s.ready.length := by
  simp only [FinState.pop] at h ⊢
  cases hrev : s.ready.reverse with
  | nil => simp [hrev] at h
  | cons g rest =>
    simp only [hrev] at h ⊢
    injection h with h; subst h
    have hready : s.ready = rest.reverse ++ [g] := by
      have := congrArg List.reverse hrev
      simpa using this
    refine ⟨by rw [hready]; simp, rfl, by rw [hready]; simp⟩

/-- all histories -/
theorem fin_history_wf (ops : List FinOp) (s : FinState) (h : FinWF s) : FinWF (ops.foldl FinState.apply s) := by
  induction ops generalizing s with
  | nil => exact h
  | cons op rest ih => exact ih _ (fin_wf_apply s op h)

def finInit : FinState := { candidates := [], ready := [], popped := [] }
theorem fin_init_wf : FinWF finInit := ⟨List.nodup_nil, fun _ h => by cases h⟩

/-! ## non-vacuity -/
example :
    let s := [FinOp.add 7, .add 8, .gc (fun o => o == 8), .pop, .gc (fun _ => false), .pop, .pop].foldl
      FinState.apply finInit
    s.popped = [(0, 7), (1, 8)] ∧ s.ready = [] ∧ s.candidates = [] := by decide

example :
    let s : RefState := { table := [1, 2, 3], referent := fun r => if r = 3 then none else some (r + 10), enqueued := [] }
    let s' := scanRefs (fun o => o == 1 || o == 2 || o == 3 || o == 11) s
    s'.table = [1] ∧ s'.enqueued = [2] ∧ s'.referent 2 = none ∧ s'.referent 1 = some 11 := by decide

end Mmtk.RefProc
