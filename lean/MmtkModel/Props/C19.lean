import MmtkModel.Model.BlockPool
import MmtkModel.Model.BlockPoolTie
/-!
# C19 — the block pool never loses or duplicates a block

For **any number of workers `n`, poppers `m`, any queue capacity `cap ≥ 1`** and **every interleaving**
of the atomic steps of `Model/BlockPool.lean`: every block pushed is — counted as a multiset — either
popped, or held in exactly one queue, or in the hands of exactly one thread (`conservation`); no block
is popped that was not pushed, and none more often than it was pushed (`pop_only_pushed`,
`popped_le_pushed`, `popped_nodup`); `count` equals the number of blocks held plus those in flight, so
at quiescence `len()` is exact (`len_exact`); every queue in `global` is non-empty, so the `unwrap` in
`pop` cannot panic (`global_nonempty`, `pop_never_panics`); the head queue is only ever replaced when
it is empty (`install_over_empty_head`); and after `flush_all` with nobody pushing, `len()` successive
`pop`s return blocks — all the held ones (`flush_makes_poppable`).
-/
namespace Mmtk.BlockPool

/-! ### weighted sums: `wt = indicator of b` counts occurrences of `b`, `wt = 1` measures length -/

def wsum (wt : Nat → Nat) : List Nat → Nat
  | [] => 0
  | x :: xs => wt x + wsum wt xs

def wsumL (wt : Nat → Nat) : List (List Nat) → Nat
  | [] => 0
  | q :: qs => wsum wt q + wsumL wt qs

def sumTo : Nat → (Nat → Nat) → Nat
  | 0, _ => 0
  | n + 1, h => sumTo n h + h n

theorem sumTo_upd {α : Type} (n : Nat) (f : Nat → α) (g : α → Nat) (i : Nat) (v : α) (hi : i < n) :
    sumTo n (fun x => g (if x = i then v else f x)) + g (f i) = sumTo n (fun x => g (f x)) + g v := by
  induction n with
  | zero => omega
  | succ n ih =>
    simp only [sumTo]
    by_cases h : i = n
    · subst h
      have : sumTo i (fun x => g (if x = i then v else f x)) = sumTo i (fun x => g (f x)) := by
        clear ih hi
        have : ∀ k, k ≤ i → sumTo k (fun x => g (if x = i then v else f x)) = sumTo k (fun x => g (f x)) := by
          intro k
          induction k with
          | zero => intro _; rfl
          | succ k ihk =>
            intro hk
            simp only [sumTo]
            rw [ihk (by omega)]
            have : ¬ k = i := by omega
            simp [this]
        exact this i (Nat.le_refl i)
      rw [this]; simp; omega
    · have := ih (by omega)
      have hn : ¬ n = i := fun e => h e.symm
      simp only [hn, if_false]
      omega

theorem sumTo_ge (n : Nat) (h : Nat → Nat) (i : Nat) (hi : i < n) : h i ≤ sumTo n h := by
  induction n with
  | zero => omega
  | succ n ih =>
    simp only [sumTo]
    by_cases e : i = n
    · subst e; omega
    · have := ih (by omega); omega

theorem sumTo_zero (n : Nat) (h : Nat → Nat) (hz : ∀ i, i < n → h i = 0) : sumTo n h = 0 := by
  induction n with
  | zero => rfl
  | succ n ih =>
    simp only [sumTo]
    rw [ih (fun i hi => hz i (by omega)), hz n (by omega)]

/-! ### the ledger: what is held in queues plus what is in threads' hands -/

def wW (wt : Nat → Nat) : WPC → Nat
  | .idle => 0
  | .counted b => wt b
  | .pushGlobal old => wsum wt old

/-- `cnt = true`: only blocks still counted in `count` (a popper past its `fetch_sub` no longer is). -/
def wP (cnt : Bool) (wt : Nat → Nat) : PPC → Nat
  | .gotHead1 b | .decr2 b => wt b
  | .rel1 b | .rel2 b => if cnt then 0 else wt b
  | .install b rest => wt b + wsum wt rest
  | _ => 0

def wF (wt : Nat → Nat) : FPC → Nat
  | .pushG _ q => wsum wt q
  | _ => 0

@[simp] theorem wsum_nil (wt : Nat → Nat) : wsum wt [] = 0 := rfl
@[simp] theorem wsum_cons (wt : Nat → Nat) (x : Nat) (xs : List Nat) : wsum wt (x :: xs) = wt x + wsum wt xs := rfl
@[simp] theorem wsumL_nil (wt : Nat → Nat) : wsumL wt [] = 0 := rfl
@[simp] theorem wsumL_cons (wt : Nat → Nat) (q : List Nat) (qs : List (List Nat)) :
    wsumL wt (q :: qs) = wsum wt q + wsumL wt qs := rfl
@[simp] theorem wW_idle (wt : Nat → Nat) : wW wt .idle = 0 := rfl
@[simp] theorem wW_counted (wt : Nat → Nat) (b : Nat) : wW wt (.counted b) = wt b := rfl
@[simp] theorem wW_pushGlobal (wt : Nat → Nat) (q : List Nat) : wW wt (.pushGlobal q) = wsum wt q := rfl
@[simp] theorem wP_idle (c : Bool) (wt : Nat → Nat) : wP c wt .idle = 0 := rfl
@[simp] theorem wP_checked (c : Bool) (wt : Nat → Nat) : wP c wt .checked = 0 := rfl
@[simp] theorem wP_tryHead1 (c : Bool) (wt : Nat → Nat) : wP c wt .tryHead1 = 0 := rfl
@[simp] theorem wP_wantGlobal (c : Bool) (wt : Nat → Nat) : wP c wt .wantGlobal = 0 := rfl
@[simp] theorem wP_tryHead2 (c : Bool) (wt : Nat → Nat) : wP c wt .tryHead2 = 0 := rfl
@[simp] theorem wP_popGlobal (c : Bool) (wt : Nat → Nat) : wP c wt .popGlobal = 0 := rfl
@[simp] theorem wP_gotHead1 (c : Bool) (wt : Nat → Nat) (b : Nat) : wP c wt (.gotHead1 b) = wt b := rfl
@[simp] theorem wP_decr2 (c : Bool) (wt : Nat → Nat) (b : Nat) : wP c wt (.decr2 b) = wt b := rfl
@[simp] theorem wP_rel1 (c : Bool) (wt : Nat → Nat) (b : Nat) : wP c wt (.rel1 b) = if c then 0 else wt b := rfl
@[simp] theorem wP_rel2 (c : Bool) (wt : Nat → Nat) (b : Nat) : wP c wt (.rel2 b) = if c then 0 else wt b := rfl
@[simp] theorem wP_install (c : Bool) (wt : Nat → Nat) (b : Nat) (r : List Nat) :
    wP c wt (.install b r) = wt b + wsum wt r := rfl
@[simp] theorem wF_idle (wt : Nat → Nat) : wF wt .idle = 0 := rfl
@[simp] theorem wF_at (wt : Nat → Nat) (i : Nat) : wF wt (.at i) = 0 := rfl
@[simp] theorem wF_pushG (wt : Nat → Nat) (i : Nat) (q : List Nat) : wF wt (.pushG i q) = wsum wt q := rfl

def headW (wt : Nat → Nat) (s : State) : Nat :=
  match s.head with
  | some q => wsum wt q
  | none => 0

def held (n : Nat) (wt : Nat → Nat) (s : State) : Nat :=
  headW wt s + wsumL wt s.global + sumTo n (fun i => wsum wt (s.locals i))

def inflight (n m : Nat) (cnt : Bool) (wt : Nat → Nat) (s : State) : Nat :=
  sumTo n (fun i => wW wt (s.pcW i)) + sumTo m (fun j => wP cnt wt (s.pcP j)) + wF wt s.pcF

def ledger (n m : Nat) (cnt : Bool) (wt : Nat → Nat) (s : State) : Nat :=
  held n wt s + inflight n m cnt wt s

/-- what an action adds to the pool … -/
def gain (wt : Nat → Nat) (n : Nat) (s : State) : Act → Nat
  | .push w b => if w < n ∧ s.pcW w = .idle ∧ s.pcF = .idle then wt b else 0
  | _ => 0

/-- … and what it takes out (`cnt = true`: out of `count`; `cnt = false`: out of the pool, i.e. returned) -/
def loss (cnt : Bool) (wt : Nat → Nat) (m : Nat) (s : State) : Act → Nat
  | .pop p =>
    if p < m then
      match s.pcP p with
      | .gotHead1 b | .decr2 b => if cnt then wt b else 0
      | .rel1 b | .rel2 b => if cnt then 0 else wt b
      | _ => 0
    else 0
  | _ => 0

/-! ### structural invariant: non-empty queues, the head lock -/

def holdsHead : PPC → Bool
  | .idle | .checked => false
  | _ => true

def headEmpty' (head : Option (List Nat)) : Prop := head = none ∨ head = some []

/-- the upgradeable read lock on `head`: held exactly by the one popper between acquiring and
releasing it; a popper about to take a queue from `global` / install it saw the head empty -/
structure K (m : Nat) (pcP : Nat → PPC) (hl : Option Nat) (head : Option (List Nat)) : Prop where
  lockHolder : ∀ p, hl = some p → p < m ∧ holdsHead (pcP p) = true
  holderLock : ∀ p, p < m → holdsHead (pcP p) = true → hl = some p
  emptyHead : ∀ p, p < m → (pcP p = .popGlobal ∨ ∃ b r, pcP p = .install b r) → headEmpty' head

/-- every queue that is in `global`, or on its way there, is non-empty -/
structure Q (n : Nat) (s : State) : Prop where
  gne : ∀ q, q ∈ s.global → q ≠ []
  wne : ∀ w old, w < n → s.pcW w = .pushGlobal old → old ≠ []
  fne : ∀ i q, s.pcF = .pushG i q → q ≠ []

structure Str (n m : Nat) (s : State) : Prop where
  q : Q n s
  k : K m s.pcP s.headLock s.head

theorem K_keep {m : Nat} {pcP : Nat → PPC} {hl : Option Nat} {head : Option (List Nat)} (hK : K m pcP hl head)
    (p : Nat) (hp : p < m) (v : PPC) (head' : Option (List Nat))
    (hv : holdsHead v = holdsHead (pcP p))
    (hpe : (v = .popGlobal ∨ ∃ b r, v = .install b r) → headEmpty' head')
    (hother : holdsHead (pcP p) = false → head' = head) :
    K m (fun x => if x = p then v else pcP x) hl head' := by
  refine ⟨?_, ?_, ?_⟩
  · intro q hq
    have := hK.lockHolder q hq
    refine ⟨this.1, ?_⟩
    by_cases e : q = p
    · subst e; simp only [if_true]; rw [hv]; exact this.2
    · simp only [e, if_false]; exact this.2
  · intro q hq hh
    by_cases e : q = p
    · subst e; simp only [if_true] at hh; rw [hv] at hh; exact hK.holderLock q hq hh
    · simp only [e, if_false] at hh; exact hK.holderLock q hq hh
  · intro q hq hh
    by_cases e : q = p
    · subst e; simp only [if_true] at hh; exact hpe hh
    · simp only [e, if_false] at hh
      have hqh : holdsHead (pcP q) = true := by
        rcases hh with h | ⟨b, r, h⟩ <;> rw [h] <;> rfl
      have hlq := hK.holderLock q hq hqh
      cases hph : holdsHead (pcP p) with
      | true =>
        have hlp := hK.holderLock p hp hph
        rw [hlq] at hlp; injection hlp with e'; exact absurd e' e
      | false => rw [hother hph]; exact hK.emptyHead q hq hh

theorem K_acquire {m : Nat} {pcP : Nat → PPC} {hl : Option Nat} {head : Option (List Nat)} (hK : K m pcP hl head)
    (p : Nat) (hp : p < m) (hfree : hl = none) :
    K m (fun x => if x = p then .tryHead1 else pcP x) (some p) head := by
  have nobody : ∀ q, q < m → holdsHead (pcP q) = true → False := by
    intro q hq hh; have := hK.holderLock q hq hh; rw [hfree] at this; cases this
  refine ⟨?_, ?_, ?_⟩
  · intro q hq; injection hq with e; subst e; exact ⟨hp, by simp [holdsHead]⟩
  · intro q hq hh
    by_cases e : q = p
    · rw [e]
    · simp only [e, if_false] at hh; exact absurd hh (fun h => nobody q hq h)
  · intro q hq hh
    by_cases e : q = p
    · subst e; simp at hh
    · simp only [e, if_false] at hh
      exfalso; apply nobody q hq
      rcases hh with h | ⟨b, r, h⟩ <;> rw [h] <;> rfl

theorem K_release {m : Nat} {pcP : Nat → PPC} {hl : Option Nat} {head : Option (List Nat)} (hK : K m pcP hl head)
    (p : Nat) (hp : p < m) (hh : holdsHead (pcP p) = true) :
    K m (fun x => if x = p then .idle else pcP x) none head := by
  have hlp := hK.holderLock p hp hh
  have others : ∀ q, q < m → q ≠ p → holdsHead (pcP q) = true → False := by
    intro q hq e hq'; have := hK.holderLock q hq hq'; rw [hlp] at this; injection this with e'; exact e e'.symm
  refine ⟨?_, ?_, ?_⟩
  · intro q hq; cases hq
  · intro q hq hqh
    by_cases e : q = p
    · subst e; simp [holdsHead] at hqh
    · simp only [e, if_false] at hqh; exact absurd hqh (fun h => others q hq e h)
  · intro q hq hqh
    by_cases e : q = p
    · subst e; simp at hqh
    · simp only [e, if_false] at hqh
      exfalso; apply others q hq e
      rcases hqh with h | ⟨b, r, h⟩ <;> rw [h] <;> rfl

theorem headW_empty {wt : Nat → Nat} {s : State} (h : headEmpty' s.head) : headW wt s = 0 := by
  rcases h with h | h <;> simp [headW, h, wsum]

set_option maxHeartbeats 1000000 in
theorem ledger_step (n m cap : Nat) (cnt : Bool) (wt : Nat → Nat) (s : State) (hs : Str n m s) (a : Act) :
    ledger n m cnt wt (step n m cap s a) + loss cnt wt m s a = ledger n m cnt wt s + gain wt n s a := by
  cases a with
  | push w b =>
    simp only [step, gain, loss]
    split
    · rename_i h
      have h2 := sumTo_upd n s.pcW (wW wt) w (.counted b) h.1
      simp only [h.2.1, wW_idle, wW_counted] at h2
      simp only [ledger, held, inflight, headW, setW] at h2 ⊢
      omega
    · omega
  | w w =>
    simp only [step, gain, loss]
    split
    · rename_i hw
      unfold stepW
      split
      · omega
      · rename_i b hpc
        split
        · have h1 := sumTo_upd n s.locals (wsum wt) w (b :: s.locals w) hw
          have h2 := sumTo_upd n s.pcW (wW wt) w .idle hw
          simp only [hpc, wW_idle, wW_counted, wW_pushGlobal, wsum_cons, wsum_nil] at h1 h2
          simp only [ledger, held, inflight, headW, setW, setL] at h1 h2 ⊢
          omega
        · have h1 := sumTo_upd n s.locals (wsum wt) w [b] hw
          have h2 := sumTo_upd n s.pcW (wW wt) w (.pushGlobal (s.locals w)) hw
          simp only [hpc, wW_idle, wW_counted, wW_pushGlobal, wsum_cons, wsum_nil] at h1 h2
          simp only [ledger, held, inflight, headW, setW, setL] at h1 h2 ⊢
          omega
      · rename_i old hpc
        split
        · have h2 := sumTo_upd n s.pcW (wW wt) w .idle hw
          simp only [hpc, wW_idle, wW_counted, wW_pushGlobal] at h2
          simp only [ledger, held, inflight, headW, setW, wsumL_cons] at h2 ⊢
          omega
        · omega
    · omega
  | pop p =>
    by_cases hp : p < m
    · simp only [step, gain, loss, hp, if_true]
      unfold stepP
      cases hpc : s.pcP p with
      | idle =>
        simp only []
        split
        · simp only [ledger, held, inflight, headW]
        · have h3 := sumTo_upd m s.pcP (wP cnt wt) p .checked hp
          simp only [hpc, wP_idle, wP_checked] at h3
          simp only [ledger, held, inflight, headW, setP] at h3 ⊢
          omega
      | checked =>
        simp only []
        split
        · have h3 := sumTo_upd m s.pcP (wP cnt wt) p .tryHead1 hp
          simp only [hpc, wP_tryHead1, wP_checked] at h3
          simp only [ledger, held, inflight, headW, setP] at h3 ⊢
          omega
        · omega
      | tryHead1 =>
        simp only []
        split
        · rename_i b rest heq
          have h3 := sumTo_upd m s.pcP (wP cnt wt) p (.gotHead1 b) hp
          simp only [hpc, wP_tryHead1, wP_gotHead1] at h3
          simp only [ledger, held, inflight, headW, setP, heq, wsum_cons] at h3 ⊢
          omega
        · have h3 := sumTo_upd m s.pcP (wP cnt wt) p .wantGlobal hp
          simp only [hpc, wP_tryHead1, wP_wantGlobal] at h3
          simp only [ledger, held, inflight, headW, setP] at h3 ⊢
          omega
      | gotHead1 b =>
        have h3 := sumTo_upd m s.pcP (wP cnt wt) p (.rel1 b) hp
        simp only [hpc, wP_rel1, wP_gotHead1] at h3
        cases cnt <;> simp only [ledger, held, inflight, headW, setP, Bool.false_eq_true, if_false, if_true] at h3 ⊢ <;> omega
      | rel1 b =>
        have h3 := sumTo_upd m s.pcP (wP cnt wt) p .idle hp
        simp only [hpc, wP_rel1, wP_idle] at h3
        cases cnt <;> simp only [ledger, held, inflight, headW, setP, Bool.false_eq_true, if_false, if_true] at h3 ⊢ <;> omega
      | wantGlobal =>
        simp only []
        split
        · have h3 := sumTo_upd m s.pcP (wP cnt wt) p .tryHead2 hp
          simp only [hpc, wP_tryHead2, wP_wantGlobal] at h3
          simp only [ledger, held, inflight, headW, setP] at h3 ⊢
          omega
        · omega
      | tryHead2 =>
        simp only []
        split
        · rename_i b rest heq
          have h3 := sumTo_upd m s.pcP (wP cnt wt) p (.decr2 b) hp
          simp only [hpc, wP_tryHead2, wP_decr2] at h3
          simp only [ledger, held, inflight, headW, setP, heq, wsum_cons] at h3 ⊢
          omega
        · have h3 := sumTo_upd m s.pcP (wP cnt wt) p .popGlobal hp
          simp only [hpc, wP_tryHead2, wP_popGlobal] at h3
          simp only [ledger, held, inflight, headW, setP] at h3 ⊢
          omega
      | popGlobal =>
        simp only []
        split
        · have h3 := sumTo_upd m s.pcP (wP cnt wt) p .idle hp
          simp only [hpc, wP_idle, wP_popGlobal] at h3
          simp only [ledger, held, inflight, headW, setP] at h3 ⊢
          omega
        · omega
        · rename_i b rest gs heq
          have h3 := sumTo_upd m s.pcP (wP cnt wt) p (.install b rest) hp
          simp only [hpc, wP_install, wP_popGlobal] at h3
          simp only [ledger, held, inflight, headW, setP, heq, wsumL_cons, wsum_cons] at h3 ⊢
          omega
      | install b rest =>
        have he := headW_empty (wt := wt) (hs.k.emptyHead p hp (Or.inr ⟨b, rest, hpc⟩))
        have h3 := sumTo_upd m s.pcP (wP cnt wt) p (.decr2 b) hp
        simp only [hpc, wP_install, wP_decr2] at h3
        by_cases hr : rest = []
        · subst hr
          simp only [ledger, held, inflight, headW, setP, if_true, wsum_nil] at h3 he ⊢
          omega
        · simp only [ledger, held, inflight, headW, setP, hr, if_false] at h3 he ⊢
          omega
      | decr2 b =>
        have h3 := sumTo_upd m s.pcP (wP cnt wt) p (.rel2 b) hp
        simp only [hpc, wP_rel2, wP_decr2] at h3
        cases cnt <;> simp only [ledger, held, inflight, headW, setP, Bool.false_eq_true, if_false, if_true] at h3 ⊢ <;> omega
      | rel2 b =>
        have h3 := sumTo_upd m s.pcP (wP cnt wt) p .idle hp
        simp only [hpc, wP_rel2, wP_idle] at h3
        cases cnt <;> simp only [ledger, held, inflight, headW, setP, Bool.false_eq_true, if_false, if_true] at h3 ⊢ <;> omega
    · simp only [step, gain, loss, hp, if_false]
  | flush =>
    simp only [step, gain, loss]
    unfold stepF
    cases hpc : s.pcF with
    | idle =>
      simp only []
      split
      · simp only [ledger, held, inflight, headW, hpc, wF_idle, wF_at]
      · omega
    | «at» i =>
      simp only []
      split
      · rename_i hi
        split
        · simp only [ledger, held, inflight, headW, hpc, wF_at]
        · have h1 := sumTo_upd n s.locals (wsum wt) i [] hi
          simp only [wsum_nil] at h1
          simp only [ledger, held, inflight, headW, hpc, wF_at, wF_pushG, setL] at h1 ⊢
          omega
      · simp only [ledger, held, inflight, headW, hpc, wF_at, wF_idle]
    | pushG i q =>
      simp only []
      split
      · simp only [ledger, held, inflight, headW, hpc, wF_at, wF_pushG, wsumL_cons]
        omega
      · omega


theorem Q_setW_not_pushGlobal {n : Nat} {s : State} (hq : Q n s) (w : Nat) (v : WPC) (hv : ∀ old, v ≠ .pushGlobal old) :
    ∀ w' old, w' < n → setW s w v w' = .pushGlobal old → old ≠ [] := by
  intro w' old hw' h
  unfold setW at h
  by_cases e : w' = w
  · simp only [e, if_true] at h; exact absurd h (hv old)
  · simp only [e, if_false] at h; exact hq.wne w' old hw' h

theorem str_step (n m cap : Nat) (hcap : 0 < cap) (s : State) (hs : Str n m s) (a : Act) :
    Str n m (step n m cap s a) := by
  have hq := hs.q
  have hk := hs.k
  cases a with
  | push w b =>
    simp only [step]
    split
    · exact ⟨⟨hq.gne, Q_setW_not_pushGlobal hq w _ (fun _ h => by cases h), hq.fne⟩, hk⟩
    · exact hs
  | w w =>
    simp only [step]
    split
    · rename_i hw
      unfold stepW
      split
      · exact hs
      · rename_i b hpc
        split
        · exact ⟨⟨hq.gne, Q_setW_not_pushGlobal hq w _ (fun _ h => by cases h), hq.fne⟩, hk⟩
        · rename_i hfull
          refine ⟨⟨hq.gne, ?_, hq.fne⟩, hk⟩
          intro w' old hw' h
          simp only [setW] at h
          by_cases e : w' = w
          · simp only [e, if_true] at h
            injection h with h
            rw [← h]
            intro hnil
            rw [hnil] at hfull
            simp at hfull
            omega
          · simp only [e, if_false] at h; exact hq.wne w' old hw' h
      · rename_i old hpc
        split
        · refine ⟨⟨?_, Q_setW_not_pushGlobal hq w _ (fun _ h => by cases h), hq.fne⟩, hk⟩
          intro q hqm
          simp only [List.mem_cons] at hqm
          rcases hqm with e | hqm
          · rw [e]; exact hq.wne w old hw hpc
          · exact hq.gne q hqm
        · exact hs
    · exact hs
  | pop p =>
    simp only [step]
    split
    · rename_i hp
      unfold stepP
      cases hpc : s.pcP p with
      | idle =>
        simp only []
        split
        · exact ⟨⟨hq.gne, hq.wne, hq.fne⟩, hk⟩
        · exact ⟨⟨hq.gne, hq.wne, hq.fne⟩, K_keep hk p hp .checked s.head (by rw [hpc]; rfl)
            (by intro h; rcases h with h | ⟨_, _, h⟩ <;> cases h) (fun _ => rfl)⟩
      | checked =>
        simp only []
        split
        · rename_i hfree
          exact ⟨⟨hq.gne, hq.wne, hq.fne⟩, K_acquire hk p hp hfree⟩
        · exact hs
      | tryHead1 =>
        simp only []
        split
        · rename_i b rest heq
          exact ⟨⟨hq.gne, hq.wne, hq.fne⟩, K_keep hk p hp (.gotHead1 b) (some rest) (by rw [hpc]; rfl)
            (by intro h; rcases h with h | ⟨_, _, h⟩ <;> cases h) (by rw [hpc]; intro h; cases h)⟩
        · exact ⟨⟨hq.gne, hq.wne, hq.fne⟩, K_keep hk p hp .wantGlobal s.head (by rw [hpc]; rfl)
            (by intro h; rcases h with h | ⟨_, _, h⟩ <;> cases h) (fun _ => rfl)⟩
      | gotHead1 b =>
        exact ⟨⟨hq.gne, hq.wne, hq.fne⟩, K_keep hk p hp (.rel1 b) s.head (by rw [hpc]; rfl)
            (by intro h; rcases h with h | ⟨_, _, h⟩ <;> cases h) (fun _ => rfl)⟩
      | rel1 b =>
        exact ⟨⟨hq.gne, hq.wne, hq.fne⟩, K_release hk p hp (by rw [hpc]; rfl)⟩
      | wantGlobal =>
        simp only []
        split
        · exact ⟨⟨hq.gne, hq.wne, hq.fne⟩, K_keep hk p hp .tryHead2 s.head (by rw [hpc]; rfl)
            (by intro h; rcases h with h | ⟨_, _, h⟩ <;> cases h) (fun _ => rfl)⟩
        · exact hs
      | tryHead2 =>
        simp only []
        split
        · rename_i b rest heq
          exact ⟨⟨hq.gne, hq.wne, hq.fne⟩, K_keep hk p hp (.decr2 b) (some rest) (by rw [hpc]; rfl)
            (by intro h; rcases h with h | ⟨_, _, h⟩ <;> cases h) (by rw [hpc]; intro h; cases h)⟩
        · rename_i hne
          refine ⟨⟨hq.gne, hq.wne, hq.fne⟩, K_keep hk p hp .popGlobal s.head (by rw [hpc]; rfl) ?_ (fun _ => rfl)⟩
          intro _
          cases hh : s.head with
          | none => exact Or.inl rfl
          | some l =>
            cases l with
            | nil => exact Or.inr rfl
            | cons b rest => exact absurd hh (hne b rest)
      | popGlobal =>
        simp only []
        split
        · exact ⟨⟨hq.gne, hq.wne, hq.fne⟩, K_release hk p hp (by rw [hpc]; rfl)⟩
        · exact hs
        · rename_i b rest gs heq
          refine ⟨⟨?_, hq.wne, hq.fne⟩, K_keep hk p hp (.install b rest) s.head (by rw [hpc]; rfl) ?_ (fun _ => rfl)⟩
          · intro q hqm; exact hq.gne q (by rw [heq]; exact List.mem_cons_of_mem _ hqm)
          · intro _; exact hk.emptyHead p hp (Or.inl hpc)
      | install b rest =>
        exact ⟨⟨hq.gne, hq.wne, hq.fne⟩, K_keep hk p hp (.decr2 b) _ (by rw [hpc]; rfl)
            (by intro h; rcases h with h | ⟨_, _, h⟩ <;> cases h) (by rw [hpc]; intro h; cases h)⟩
      | decr2 b =>
        exact ⟨⟨hq.gne, hq.wne, hq.fne⟩, K_keep hk p hp (.rel2 b) s.head (by rw [hpc]; rfl)
            (by intro h; rcases h with h | ⟨_, _, h⟩ <;> cases h) (fun _ => rfl)⟩
      | rel2 b =>
        exact ⟨⟨hq.gne, hq.wne, hq.fne⟩, K_release hk p hp (by rw [hpc]; rfl)⟩
    · exact hs
  | flush =>
    simp only [step]
    unfold stepF
    cases hpc : s.pcF with
    | idle =>
      simp only []
      split
      · exact ⟨⟨hq.gne, hq.wne, fun i q h => by cases h⟩, hk⟩
      · exact hs
    | «at» i =>
      simp only []
      split
      · split
        · exact ⟨⟨hq.gne, hq.wne, fun i q h => by cases h⟩, hk⟩
        · rename_i hne
          refine ⟨⟨hq.gne, hq.wne, ?_⟩, hk⟩
          intro i' q h
          injection h with _ h2
          rw [← h2]; exact hne
      · exact ⟨⟨hq.gne, hq.wne, fun i q h => by cases h⟩, hk⟩
    | pushG i q =>
      simp only []
      split
      · refine ⟨⟨?_, hq.wne, fun i q h => by cases h⟩, hk⟩
        intro q' hqm
        simp only [List.mem_cons] at hqm
        rcases hqm with e | hqm
        · rw [e]; exact hq.fne i q hpc
        · exact hq.gne q' hqm
      · exact hs


/-! ### the inductive invariant -/

def one : Nat → Nat := fun _ => 1

structure Inv (n m : Nat) (s : State) : Prop where
  str : Str n m s
  cons : ∀ wt, wsum wt s.pushed = wsum wt s.popped + ledger n m false wt s
  len : s.count = ledger n m true one s

theorem stepW_ghost (cap : Nat) (s : State) (w : Nat) :
    (stepW cap s w).pushed = s.pushed ∧ (stepW cap s w).popped = s.popped ∧ (stepW cap s w).count = s.count := by
  unfold stepW
  split
  · exact ⟨rfl, rfl, rfl⟩
  · split <;> exact ⟨rfl, rfl, rfl⟩
  · split <;> exact ⟨rfl, rfl, rfl⟩

theorem stepF_ghost (n : Nat) (s : State) :
    (stepF n s).pushed = s.pushed ∧ (stepF n s).popped = s.popped ∧ (stepF n s).count = s.count := by
  unfold stepF
  split
  · split <;> exact ⟨rfl, rfl, rfl⟩
  · split
    · split <;> exact ⟨rfl, rfl, rfl⟩
    · exact ⟨rfl, rfl, rfl⟩
  · split <;> exact ⟨rfl, rfl, rfl⟩

theorem pushed_step (n m cap : Nat) (wt : Nat → Nat) (s : State) (a : Act) :
    wsum wt (step n m cap s a).pushed = wsum wt s.pushed + gain wt n s a := by
  cases a with
  | push w b => simp only [step, gain]; split <;> simp [wsum_cons]; omega
  | w w => simp only [step, gain]; split <;> simp [(stepW_ghost cap s w).1]
  | pop p =>
    simp only [step, gain]
    split
    · unfold stepP
      split <;> (try split) <;> simp
    · simp
  | flush => simp only [step, gain]; simp [(stepF_ghost n s).1]

theorem popped_step (n m cap : Nat) (wt : Nat → Nat) (s : State) (a : Act) :
    wsum wt (step n m cap s a).popped = wsum wt s.popped + loss false wt m s a := by
  cases a with
  | push w b => simp only [step, loss]; split <;> simp
  | w w => simp only [step, loss]; split <;> simp [(stepW_ghost cap s w).2.1]
  | pop p =>
    by_cases hp : p < m
    · simp only [step, loss, hp, if_true]
      unfold stepP
      cases hpc : s.pcP p <;> (try simp only [Bool.false_eq_true, if_false]) <;> (try split) <;> simp [wsum_cons] <;> omega
    · simp only [step, loss, hp, if_false]; simp
  | flush => simp only [step, loss]; simp [(stepF_ghost n s).2.1]

theorem count_step (n m cap : Nat) (s : State) (hlen : s.count = ledger n m true one s) (a : Act) :
    (step n m cap s a).count + loss true one m s a = s.count + gain one n s a := by
  cases a with
  | push w b => simp only [step, loss, gain]; split <;> simp [one]
  | w w => simp only [step, loss, gain]; split <;> simp [(stepW_ghost cap s w).2.2]
  | pop p =>
    by_cases hp : p < m
    · have hge := sumTo_ge m (fun j => wP true one (s.pcP j)) p hp
      have hle : sumTo m (fun j => wP true one (s.pcP j)) ≤ s.count := by
        rw [hlen]; simp only [ledger, inflight]; omega
      simp only [step, loss, gain, hp, if_true]
      unfold stepP
      cases hpc : s.pcP p <;> simp only [hpc, wP_gotHead1, wP_decr2, one] at hge <;> simp only [] <;>
        (try split) <;> simp [one] <;> omega
    · simp only [step, loss, gain, hp, if_false]
  | flush => simp only [step, loss, gain]; simp [(stepF_ghost n s).2.2]

theorem init_inv (n m : Nat) : Inv n m init := by
  have z1 : ∀ wt, sumTo n (fun i => wsum wt (init.locals i)) = 0 := fun wt => sumTo_zero _ _ (fun _ _ => rfl)
  have z2 : ∀ wt, sumTo n (fun i => wW wt (init.pcW i)) = 0 := fun wt => sumTo_zero _ _ (fun _ _ => rfl)
  have z3 : ∀ c wt, sumTo m (fun j => wP c wt (init.pcP j)) = 0 := fun c wt => sumTo_zero _ _ (fun _ _ => rfl)
  refine ⟨⟨⟨?_, ?_, ?_⟩, ⟨?_, ?_, ?_⟩⟩, ?_, ?_⟩
  · intro q h; simp [init] at h
  · intro w old _ h; simp [init] at h
  · intro i q h; simp [init] at h
  · intro p h; simp [init] at h
  · intro p _ h; simp [init, holdsHead] at h
  · intro p _ h; simp [init] at h
  · intro wt
    simp only [ledger, held, inflight, z1, z2, z3]
    simp [init, headW, wF]
  · simp only [ledger, held, inflight, z1, z2, z3]
    simp [init, headW, wF]

theorem step_inv (n m cap : Nat) (hcap : 0 < cap) (s : State) (h : Inv n m s) (a : Act) :
    Inv n m (step n m cap s a) := by
  refine ⟨str_step n m cap hcap s h.str a, ?_, ?_⟩
  · intro wt
    have h1 := ledger_step n m cap false wt s h.str a
    have h2 := pushed_step n m cap wt s a
    have h3 := popped_step n m cap wt s a
    have h4 := h.cons wt
    omega
  · have h1 := ledger_step n m cap true one s h.str a
    have h2 := count_step n m cap s h.len a
    have h4 := h.len
    omega

theorem exec_inv (n m cap : Nat) (hcap : 0 < cap) (s : State) (run : List Act) (h : Inv n m s) :
    Inv n m (exec n m cap s run) := by
  induction run generalizing s with
  | nil => exact h
  | cons a rest ih => exact ih _ (step_inv n m cap hcap s h a)

theorem reachable_inv {n m cap : Nat} (hcap : 0 < cap) {s : State} (h : Reachable n m cap s) : Inv n m s := by
  obtain ⟨run, rfl⟩ := h
  exact exec_inv n m cap hcap _ run (init_inv n m)


/-! ### from weighted sums to lists -/

def ind (b : Nat) : Nat → Nat := fun x => if x = b then 1 else 0

theorem wsum_ind (b : Nat) (xs : List Nat) : wsum (ind b) xs = xs.count b := by
  induction xs with
  | nil => rfl
  | cons x xs ih =>
    simp only [wsum_cons, ih, List.count_cons, ind]
    by_cases e : x = b <;> simp [e] <;> omega

theorem wsum_one (xs : List Nat) : wsum one xs = xs.length := by
  induction xs with
  | nil => rfl
  | cons x xs ih => simp only [wsum_cons, ih, one, List.length_cons]; omega

theorem wsum_append (wt : Nat → Nat) (xs ys : List Nat) : wsum wt (xs ++ ys) = wsum wt xs + wsum wt ys := by
  induction xs with
  | nil => simp
  | cons x xs ih => simp only [List.cons_append, wsum_cons, ih]; omega

theorem wsum_flatten (wt : Nat → Nat) (qs : List (List Nat)) : wsum wt qs.flatten = wsumL wt qs := by
  induction qs with
  | nil => rfl
  | cons q qs ih => simp only [List.flatten_cons, wsum_append, ih, wsumL_cons]

theorem wsum_flatMap_range (wt : Nat → Nat) (f : Nat → List Nat) (n : Nat) :
    wsum wt ((List.range n).flatMap f) = sumTo n (fun i => wsum wt (f i)) := by
  induction n with
  | zero => rfl
  | succ n ih => simp only [List.range_succ, List.flatMap_append, wsum_append, ih, sumTo]; simp [wsum_append]

/-- the blocks a thread has in its hands -/
def wList : WPC → List Nat
  | .idle => []
  | .counted b => [b]
  | .pushGlobal old => old
def pList : PPC → List Nat
  | .gotHead1 b | .rel1 b | .decr2 b | .rel2 b => [b]
  | .install b rest => b :: rest
  | _ => []
def fList : FPC → List Nat
  | .pushG _ q => q
  | _ => []

/-- all blocks held in the pool's queues: head, global queues, the `n` worker-local queues -/
def heldList (n : Nat) (s : State) : List Nat :=
  s.head.getD [] ++ s.global.flatten ++ (List.range n).flatMap s.locals

/-- all blocks in flight: taken out of / not yet put into a queue by a thread inside `push`, `pop`, `flush_all` -/
def inflightList (n m : Nat) (s : State) : List Nat :=
  (List.range n).flatMap (fun i => wList (s.pcW i)) ++ (List.range m).flatMap (fun j => pList (s.pcP j)) ++ fList s.pcF

theorem wsum_wList (wt : Nat → Nat) (pc : WPC) : wsum wt (wList pc) = wW wt pc := by
  cases pc <;> simp [wList]
theorem wsum_pList (wt : Nat → Nat) (pc : PPC) : wsum wt (pList pc) = wP false wt pc := by
  cases pc <;> simp [pList]
theorem wsum_fList (wt : Nat → Nat) (pc : FPC) : wsum wt (fList pc) = wF wt pc := by
  cases pc <;> simp [fList]

theorem wsum_heldList (wt : Nat → Nat) (n : Nat) (s : State) : wsum wt (heldList n s) = held n wt s := by
  simp only [heldList, wsum_append, wsum_flatten, wsum_flatMap_range, held, headW]
  cases s.head <;> simp

theorem wsum_inflightList (wt : Nat → Nat) (n m : Nat) (s : State) :
    wsum wt (inflightList n m s) = inflight n m false wt s := by
  simp only [inflightList, wsum_append, wsum_flatMap_range, inflight, wsum_wList, wsum_pList, wsum_fList]

/-! ## The property theorems — all `n`, `m`, `cap ≥ 1`, all interleavings -/

variable {n m cap : Nat} {s : State}

/-- **C19 (1) conservation.** As multisets: the blocks pushed so far are exactly the blocks popped so
far, plus the blocks held in the queues, plus the blocks in some thread's hands.  Nothing is lost,
nothing duplicated, nothing invented. -/
theorem conservation (hcap : 0 < cap) (h : Reachable n m cap s) :
    s.pushed.Perm (s.popped ++ heldList n s ++ inflightList n m s) := by
  have inv := reachable_inv hcap h
  rw [List.perm_iff_count]
  intro b
  have := inv.cons (ind b)
  simp only [List.count_append, ← wsum_ind, wsum_heldList, wsum_inflightList]
  simp only [ledger] at this
  omega

/-- the same, counted per block -/
theorem conservation_count (hcap : 0 < cap) (h : Reachable n m cap s) (b : Nat) :
    s.pushed.count b = s.popped.count b + (heldList n s).count b + (inflightList n m s).count b := by
  have := (conservation hcap h).count_eq b
  simp only [List.count_append] at this
  exact this

/-- **C19 (2)** no block is popped that was not pushed … -/
theorem pop_only_pushed (hcap : 0 < cap) (h : Reachable n m cap s) (b : Nat) (hb : b ∈ s.popped) : b ∈ s.pushed :=
  (conservation hcap h).mem_iff.mpr (by simp [hb])

/-- … and none more often than it was pushed: every block pushed is popped at most once. -/
theorem popped_le_pushed (hcap : 0 < cap) (h : Reachable n m cap s) (b : Nat) : s.popped.count b ≤ s.pushed.count b := by
  have := conservation_count hcap h b; omega

/-- If no block is pushed twice (without having been popped in between this is the callers'
protocol: a block is released once), then nothing is ever in two places: the popped blocks, the held
blocks and the in-flight blocks are pairwise disjoint and duplicate-free. -/
theorem no_duplication (hcap : 0 < cap) (h : Reachable n m cap s) (hnd : s.pushed.Nodup) :
    (s.popped ++ heldList n s ++ inflightList n m s).Nodup :=
  (conservation hcap h).nodup_iff.mp hnd

theorem popped_nodup (hcap : 0 < cap) (h : Reachable n m cap s) (hnd : s.pushed.Nodup) : s.popped.Nodup := by
  have := no_duplication hcap h hnd
  rw [List.append_assoc] at this
  exact (List.nodup_append.mp this).1

/-- **C19 (3)** `count` is exact: it equals the number of blocks held plus the number in flight that
are still (or already) accounted for … -/
theorem len_counts (hcap : 0 < cap) (h : Reachable n m cap s) :
    s.count = (heldList n s).length + inflight n m true one s := by
  have inv := reachable_inv hcap h
  rw [inv.len, ledger, ← wsum_one, wsum_heldList]

/-- … so `len()` never under-reports the queues, … -/
theorem len_ge_held (hcap : 0 < cap) (h : Reachable n m cap s) : (heldList n s).length ≤ s.count := by
  have := len_counts hcap h; omega

/-- … and at quiescence `len()` is exactly the number of blocks held. -/
theorem len_exact (hcap : 0 < cap) (h : Reachable n m cap s) (hq : Quiescent n m s) :
    s.count = (heldList n s).length := by
  have := len_counts hcap h
  have z1 : sumTo n (fun i => wW one (s.pcW i)) = 0 := sumTo_zero _ _ (fun i hi => by rw [hq.1 i hi]; rfl)
  have z2 : sumTo m (fun j => wP true one (s.pcP j)) = 0 := sumTo_zero _ _ (fun i hi => by rw [hq.2.1 i hi]; rfl)
  simp only [inflight, z1, z2, hq.2.2, wF_idle] at this
  omega

/-- at quiescence nothing is in flight: pushed = popped ⊎ held -/
theorem conservation_quiescent (hcap : 0 < cap) (h : Reachable n m cap s) (hq : Quiescent n m s) :
    s.pushed.Perm (s.popped ++ heldList n s) := by
  have hc := conservation hcap h
  have e : inflightList n m s = [] := by
    have z : ∀ wt, wsum wt (inflightList n m s) = 0 := by
      intro wt
      rw [wsum_inflightList]
      have z1 : sumTo n (fun i => wW wt (s.pcW i)) = 0 := sumTo_zero _ _ (fun i hi => by rw [hq.1 i hi]; rfl)
      have z2 : sumTo m (fun j => wP false wt (s.pcP j)) = 0 := sumTo_zero _ _ (fun i hi => by rw [hq.2.1 i hi]; rfl)
      simp only [inflight, z1, z2, hq.2.2, wF_idle]
    have := z one
    rw [wsum_one] at this
    exact List.eq_nil_of_length_eq_zero this
  rw [e, List.append_nil] at hc
  exact hc

/-- **C19 (4)** every queue in `global` is non-empty … -/
theorem global_nonempty (hcap : 0 < cap) (h : Reachable n m cap s) (q : List Nat) (hq : q ∈ s.global) : q ≠ [] :=
  (reachable_inv hcap h).str.q.gne q hq

/-- … hence the `blocks.pop().unwrap()` in `pop` cannot panic. -/
theorem pop_never_panics (hcap : 0 < cap) (h : Reachable n m cap s) (gs : List (List Nat)) : s.global ≠ [] :: gs := by
  intro e
  exact global_nonempty hcap h [] (by rw [e]; exact List.mem_cons_self) rfl

/-- the head queue is only replaced when it is absent or empty (the `debug_assert!` in `pop`) -/
theorem install_over_empty_head (hcap : 0 < cap) (h : Reachable n m cap s) (p b : Nat) (r : List Nat) (hp : p < m)
    (hpc : s.pcP p = .install b r) : s.head = none ∨ s.head = some [] :=
  (reachable_inv hcap h).str.k.emptyHead p hp (Or.inr ⟨b, r, hpc⟩)

/-- the upgradeable read lock serialises the poppers -/
theorem head_lock_exclusive (hcap : 0 < cap) (h : Reachable n m cap s) (p q : Nat) (hp : p < m) (hq : q < m)
    (h1 : holdsHead (s.pcP p) = true) (h2 : holdsHead (s.pcP q) = true) : p = q := by
  have k := (reachable_inv hcap h).str.k
  have e1 := k.holderLock p hp h1
  have e2 := k.holderLock q hq h2
  rw [e1] at e2; injection e2


/-! ### the tie: the executable verdict on real-thread histories follows from the theorems -/

theorem count_range (N b : Nat) : (List.range N).count b = if b < N then 1 else 0 := by
  rw [List.nodup_range.count]; simp [List.mem_range]

/-- **C19 (tie)** at quiescence, if the blocks pushed were `0 … N-1` (each once, in any order by any
workers), the popped and the held blocks partition them and `len()` is the number held. -/
theorem race_outcome_sound (hcap : 0 < cap) (h : Reachable n m cap s) (hq : Quiescent n m s) (N : Nat)
    (hp : s.pushed.Perm (List.range N)) :
    partitionOk N s.popped (heldList n s) = true ∧ s.count = (heldList n s).length := by
  refine ⟨?_, len_exact hcap h hq⟩
  have perm := (conservation_quiescent hcap h hq).symm.trans hp
  unfold partitionOk
  simp only [Bool.and_eq_true, beq_iff_eq, List.all_eq_true, List.mem_range]
  refine ⟨by rw [perm.length_eq, List.length_range], ?_⟩
  intro b hb
  rw [perm.count_eq b, count_range]; simp [hb]

/-! ### the global write lock is free at quiescence -/

def holdsGlobal : PPC → Bool
  | .tryHead2 | .popGlobal | .install _ _ | .decr2 _ | .rel2 _ => true
  | _ => false

def GL (m : Nat) (s : State) : Prop := ∀ p, s.globalLock = some p → p < m ∧ holdsGlobal (s.pcP p) = true

theorem stepW_locks (cap : Nat) (s : State) (w : Nat) :
    (stepW cap s w).pcP = s.pcP ∧ (stepW cap s w).globalLock = s.globalLock ∧ (stepW cap s w).headLock = s.headLock := by
  unfold stepW
  split
  · exact ⟨rfl, rfl, rfl⟩
  · split <;> exact ⟨rfl, rfl, rfl⟩
  · split <;> exact ⟨rfl, rfl, rfl⟩

theorem stepF_locks (n : Nat) (s : State) :
    (stepF n s).pcP = s.pcP ∧ (stepF n s).globalLock = s.globalLock ∧ (stepF n s).headLock = s.headLock := by
  unfold stepF
  split
  · split <;> exact ⟨rfl, rfl, rfl⟩
  · split
    · split <;> exact ⟨rfl, rfl, rfl⟩
    · exact ⟨rfl, rfl, rfl⟩
  · split <;> exact ⟨rfl, rfl, rfl⟩

theorem GL_upd {m : Nat} {s : State} (hg : GL m s) (p : Nat) (v : PPC) (hv : holdsGlobal (s.pcP p) = true → holdsGlobal v = true) :
    ∀ q, s.globalLock = some q → q < m ∧ holdsGlobal (setP s p v q) = true := by
  intro q hq
  have := hg q hq
  refine ⟨this.1, ?_⟩
  unfold setP
  by_cases e : q = p
  · subst e; simp only [if_true]; exact hv this.2
  · simp only [e, if_false]; exact this.2

theorem gl_step (n m cap : Nat) (s : State) (hg : GL m s) (a : Act) : GL m (step n m cap s a) := by
  cases a with
  | push w b => simp only [step]; split <;> exact hg
  | w w =>
    simp only [step]
    split
    · have := stepW_locks cap s w
      intro p hp; rw [this.2.1] at hp; rw [this.1]; exact hg p hp
    · exact hg
  | flush =>
    simp only [step]
    have := stepF_locks n s
    intro p hp; rw [this.2.1] at hp; rw [this.1]; exact hg p hp
  | pop p =>
    simp only [step]
    split
    · rename_i hp
      unfold stepP
      cases hpc : s.pcP p with
      | idle => simp only []; split; exact hg; exact GL_upd hg p _ (by rw [hpc]; intro h; cases h)
      | checked => simp only []; split; exact GL_upd hg p _ (by rw [hpc]; intro h; cases h); exact hg
      | tryHead1 => simp only []; split <;> exact GL_upd hg p _ (by rw [hpc]; intro h; cases h)
      | gotHead1 b => exact GL_upd hg p _ (by rw [hpc]; intro h; cases h)
      | rel1 b => exact GL_upd hg p _ (by rw [hpc]; intro h; cases h)
      | wantGlobal =>
        simp only []
        split
        · intro q hq
          injection hq with e
          subst e
          exact ⟨hp, by simp [setP, holdsGlobal]⟩
        · exact hg
      | tryHead2 => simp only []; split <;> exact GL_upd hg p _ (fun _ => rfl)
      | popGlobal =>
        simp only []
        split
        · intro q hq; cases hq
        · exact hg
        · exact GL_upd hg p _ (fun _ => rfl)
      | install b r => exact GL_upd hg p _ (fun _ => rfl)
      | decr2 b => exact GL_upd hg p _ (fun _ => rfl)
      | rel2 b => intro q hq; cases hq
    · exact hg

theorem reachable_gl {n m cap : Nat} {s : State} (h : Reachable n m cap s) : GL m s := by
  obtain ⟨run, rfl⟩ := h
  have : ∀ (t : State), GL m t → GL m (exec n m cap t run) := by
    induction run with
    | nil => intro t ht; exact ht
    | cons a rest ih => intro t ht; exact ih _ (gl_step n m cap t ht a)
  exact this init (by intro p hp; cases hp)

/-- at quiescence both locks are free -/
theorem locks_free (hcap : 0 < cap) (h : Reachable n m cap s) (hq : Quiescent n m s) :
    s.headLock = none ∧ s.globalLock = none := by
  constructor
  · cases hl : s.headLock with
    | none => rfl
    | some p =>
      have := (reachable_inv hcap h).str.k.lockHolder p hl
      rw [hq.2.1 p this.1] at this; simp [holdsHead] at this
  · cases hl : s.globalLock with
    | none => rfl
    | some p =>
      have := reachable_gl h p hl
      rw [hq.2.1 p this.1] at this; simp [holdsGlobal] at this

theorem reachable_step {n m cap : Nat} {s : State} (h : Reachable n m cap s) (a : Act) : Reachable n m cap (step n m cap s a) := by
  obtain ⟨run, rfl⟩ := h
  refine ⟨run ++ [a], ?_⟩
  have : ∀ (t : State), exec n m cap t (run ++ [a]) = step n m cap (exec n m cap t run) a := by
    induction run with
    | nil => intro t; rfl
    | cons x rest ih => intro t; exact ih _
  exact (this init).symm

theorem reachable_runP {n m cap : Nat} (p k : Nat) : ∀ {s : State}, Reachable n m cap s → Reachable n m cap (runP n m cap p k s) := by
  induction k with
  | zero => intro s h; exact h
  | succ k ih =>
    intro s h
    simp only [runP]
    split
    · exact h
    · exact ih (reachable_step h _)

theorem reachable_runF {n m cap : Nat} (k : Nat) : ∀ {s : State}, Reachable n m cap s → Reachable n m cap (runF n m cap k s) := by
  induction k with
  | zero => intro s h; exact h
  | succ k ih =>
    intro s h
    simp only [runF]
    split
    · exact h
    · exact ih (reachable_step h _)

theorem reachable_popSeq {n m cap : Nat} {s : State} (h : Reachable n m cap s) (p : Nat) : Reachable n m cap (popSeq n m cap s p) :=
  reachable_runP p 12 (reachable_step h _)

theorem reachable_flushSeq {n m cap : Nat} {s : State} (h : Reachable n m cap s) : Reachable n m cap (flushSeq n m cap s) :=
  reachable_runF _ (reachable_step h _)


/-! ### a `pop` at quiescence, run to completion -/

/-- what one successful sequential `pop` does -/
structure PopDone (m : Nat) (s s' : State) (b : Nat) : Prop where
  rets : s'.rets = some b :: s.rets
  popped : s'.popped = b :: s.popped
  pushed : s'.pushed = s.pushed
  count : s'.count = s.count - 1
  idle : ∀ q, q < m → s'.pcP q = .idle
  locals : s'.locals = s.locals
  pcW : s'.pcW = s.pcW
  pcF : s'.pcF = s.pcF

theorem pop_from_head (n cap : Nat) (p : Nat) (hp : p < m) (hidle : ∀ q, q < m → s.pcP q = .idle)
    (hl : s.headLock = none) (hc : s.count ≠ 0) (b : Nat) (rest : List Nat) (hh : s.head = some (b :: rest)) :
    PopDone m s (popSeq n m cap s p) b := by
  have hi := hidle p hp
  refine ⟨?_, ?_, ?_, ?_, ?_, ?_, ?_, ?_⟩ <;>
    simp [popSeq, runP, step, stepP, setP, hp, hi, hc, hl, hh]
  intro q hq hne
  simp [hne, hidle q hq]

theorem pop_from_global (n cap : Nat) (p : Nat) (hp : p < m) (hidle : ∀ q, q < m → s.pcP q = .idle)
    (hl : s.headLock = none) (hgl : s.globalLock = none) (hc : s.count ≠ 0) (hh : headEmpty' s.head)
    (b : Nat) (rest : List Nat) (gs : List (List Nat)) (hg : s.global = (b :: rest) :: gs) :
    PopDone m s (popSeq n m cap s p) b := by
  have hi := hidle p hp
  rcases hh with hh | hh <;>
  · refine ⟨?_, ?_, ?_, ?_, ?_, ?_, ?_, ?_⟩ <;>
      simp [popSeq, runP, step, stepP, setP, hp, hi, hc, hl, hgl, hh, hg]
    intro q hq hne
    simp [hne, hidle q hq]


theorem flatMap_range_nil (n : Nat) (f : Nat → List Nat) (h : ∀ i, i < n → f i = []) : (List.range n).flatMap f = [] := by
  induction n with
  | zero => rfl
  | succ n ih =>
    rw [List.range_succ, List.flatMap_append, ih (fun i hi => h i (by omega))]
    simp [h n (by omega)]

/-- At quiescence, with the worker-local queues empty (e.g. after `flush_all`) and `len() > 0`,
a `pop` returns a block. -/
theorem pop_succeeds (hcap : 0 < cap) (h : Reachable n m cap s) (hq : Quiescent n m s)
    (hloc : ∀ i, i < n → s.locals i = []) (hc : s.count ≠ 0) (p : Nat) (hp : p < m) :
    ∃ b, PopDone m s (popSeq n m cap s p) b := by
  have hlocks := locks_free hcap h hq
  have hlen := len_exact hcap h hq
  simp only [heldList, flatMap_range_nil n s.locals hloc, List.append_nil, List.length_append] at hlen
  cases hh : s.head with
  | some l =>
    cases l with
    | cons b rest => exact ⟨b, pop_from_head n cap p hp hq.2.1 hlocks.1 hc b rest hh⟩
    | nil =>
      cases hg : s.global with
      | nil => rw [hh, hg] at hlen; simp at hlen; exact absurd hlen hc
      | cons q gs =>
        cases q with
        | nil => exact absurd hg (pop_never_panics hcap h gs)
        | cons b rest => exact ⟨b, pop_from_global n cap p hp hq.2.1 hlocks.1 hlocks.2 hc (Or.inr hh) b rest gs hg⟩
  | none =>
    cases hg : s.global with
    | nil => rw [hh, hg] at hlen; simp at hlen; exact absurd hlen hc
    | cons q gs =>
      cases q with
      | nil => exact absurd hg (pop_never_panics hcap h gs)
      | cons b rest => exact ⟨b, pop_from_global n cap p hp hq.2.1 hlocks.1 hlocks.2 hc (Or.inl hh) b rest gs hg⟩

/-- `k` successive `pop`s by popper `p` -/
def popAll (n m cap p : Nat) : Nat → State → State
  | 0, s => s
  | k + 1, s => popAll n m cap p k (popSeq n m cap s p)

/-- With the local queues empty, `len()` successive pops all return a block and empty the pool. -/
theorem drain (hcap : 0 < cap) (p : Nat) (hp : p < m) : ∀ (k : Nat) (t : State), Reachable n m cap t → Quiescent n m t →
    (∀ i, i < n → t.locals i = []) → t.count = k →
    Reachable n m cap (popAll n m cap p k t) ∧ Quiescent n m (popAll n m cap p k t) ∧
    (popAll n m cap p k t).count = 0 ∧ (popAll n m cap p k t).popped.length = t.popped.length + k ∧
    (popAll n m cap p k t).pushed = t.pushed := by
  intro k
  induction k with
  | zero => intro t h hq _ hc; exact ⟨h, hq, hc, rfl, rfl⟩
  | succ k ih =>
    intro t h hq hloc hc
    obtain ⟨b, d⟩ := pop_succeeds hcap h hq hloc (by omega) p hp
    have hq' : Quiescent n m (popSeq n m cap t p) := ⟨by rw [d.pcW]; exact hq.1, d.idle, by rw [d.pcF]; exact hq.2.2⟩
    have := ih (popSeq n m cap t p) (reachable_popSeq h p) hq' (by rw [d.locals]; exact hloc) (by rw [d.count]; omega)
    simp only [popAll]
    refine ⟨this.1, this.2.1, this.2.2.1, ?_, ?_⟩
    · rw [this.2.2.2.1, d.popped]; simp; omega
    · rw [this.2.2.2.2, d.pushed]


/-! ### `flush_all` at quiescence, run to completion -/

theorem runF_idle (n m cap : Nat) (k : Nat) (t : State) (h : t.pcF = .idle) : runF n m cap k t = t := by
  cases k with
  | zero => rfl
  | succ k => simp [runF, h]

structure FlushDone (n : Nat) (t t' : State) : Prop where
  idle : t'.pcF = .idle
  locals : ∀ j, j < n → t'.locals j = []
  pcW : t'.pcW = t.pcW
  pcP : t'.pcP = t.pcP
  count : t'.count = t.count
  pushed : t'.pushed = t.pushed
  popped : t'.popped = t.popped

theorem flush_loop (n m cap : Nat) : ∀ (d i : Nat) (t : State), i + d = n → t.pcF = .at i → t.globalLock = none →
    (∀ j, j < i → t.locals j = []) → ∀ k, 2 * d + 1 ≤ k → FlushDone n t (runF n m cap k t) := by
  intro d
  induction d with
  | zero =>
    intro i t hi hpc _ hloc k hk
    have hin : i = n := by omega
    subst hin
    obtain ⟨k', rfl⟩ : ∃ k', k = k' + 1 := ⟨k - 1, by omega⟩
    have e : step i m cap t .flush = { t with pcF := .idle } := by simp [step, stepF, hpc]
    simp only [runF, hpc]
    rw [if_neg (by simp), e, runF_idle _ _ _ _ _ rfl]
    exact ⟨rfl, hloc, rfl, rfl, rfl, rfl, rfl⟩
  | succ d ih =>
    intro i t hi hpc hgl hloc k hk
    have hin : i < n := by omega
    obtain ⟨k', rfl⟩ : ∃ k', k = k' + 1 := ⟨k - 1, by omega⟩
    simp only [runF, hpc]
    rw [if_neg (by simp)]
    by_cases hl : t.locals i = []
    · have e : step n m cap t .flush = { t with pcF := .at (i + 1) } := by simp [step, stepF, hpc, hin, hl]
      rw [e]
      have := ih (i + 1) { t with pcF := .at (i + 1) } (by omega) rfl hgl
        (by intro j hj; by_cases e : j = i; rw [e]; exact hl; exact hloc j (by omega)) k' (by omega)
      exact ⟨this.idle, this.locals, this.pcW, this.pcP, this.count, this.pushed, this.popped⟩
    · have e : step n m cap t .flush = { t with locals := setL t i [], pcF := .pushG i (t.locals i) } := by
        simp [step, stepF, hpc, hin, hl]
      rw [e]
      obtain ⟨k'', rfl⟩ : ∃ k'', k' = k'' + 1 := ⟨k' - 1, by omega⟩
      simp only [runF]
      rw [if_neg (by simp)]
      have e2 : step n m cap { t with locals := setL t i [], pcF := .pushG i (t.locals i) } .flush =
          { t with locals := setL t i [], global := t.locals i :: t.global, pcF := .at (i + 1) } := by
        simp [step, stepF, hgl]
      rw [e2]
      have := ih (i + 1) { t with locals := setL t i [], global := t.locals i :: t.global, pcF := .at (i + 1) }
        (by omega) rfl hgl
        (by intro j hj; simp only [setL]; by_cases e : j = i; simp [e]; simp only [e, if_false]; exact hloc j (by omega))
        k'' (by omega)
      exact ⟨this.idle, this.locals, this.pcW, this.pcP, this.count, this.pushed, this.popped⟩

/-- `flush_all` at quiescence: returns, leaves every worker-local queue empty (if `len() > 0`;
otherwise it returns at once — then nothing is held at all), and changes neither `len()` nor the ghosts. -/
theorem flush_done (hcap : 0 < cap) (h : Reachable n m cap s) (hq : Quiescent n m s) :
    let s' := flushSeq n m cap s
    Quiescent n m s' ∧ s'.count = s.count ∧ s'.pushed = s.pushed ∧ s'.popped = s.popped ∧
    (s.count ≠ 0 → ∀ j, j < n → s'.locals j = []) := by
  have hlocks := locks_free hcap h hq
  have hwi : workersIdle n s = true := by
    simp only [workersIdle, List.all_eq_true, List.mem_range]
    intro i hi; rw [hq.1 i hi]; rfl
  by_cases hc : s.count = 0
  · have e : step n m cap s .flush = s := by simp [step, stepF, hq.2.2, hc]
    simp only [flushSeq, e, runF_idle n m cap _ s hq.2.2]
    exact ⟨hq, trivial, trivial, trivial, fun h => absurd hc h⟩
  · have e : step n m cap s .flush = { s with pcF := .at 0 } := by simp [step, stepF, hq.2.2, hc, hwi]
    simp only [flushSeq, e]
    have := flush_loop n m cap n 0 { s with pcF := .at 0 } (by omega) rfl hlocks.2 (by intro j hj; omega) (2 * n + 2) (by omega)
    refine ⟨⟨?_, ?_, this.idle⟩, this.count, this.pushed, this.popped, fun _ => this.locals⟩
    · rw [this.pcW]; exact hq.1
    · rw [this.pcP]; exact hq.2.1

/-- **C19 (5) `flush_makes_poppable`.** From any quiescent reachable state (nobody pushing): after
`flush_all`, `len()` is unchanged and `len()` successive `pop`s each return a block; afterwards the
pool is empty and, as multisets, the popped blocks are exactly the blocks popped before plus all the
blocks that were held — every held block was poppable. -/
theorem flush_makes_poppable (hcap : 0 < cap) (h : Reachable n m cap s) (hq : Quiescent n m s) (p : Nat) (hp : p < m) :
    let s1 := flushSeq n m cap s
    let s2 := popAll n m cap p s1.count s1
    s1.count = s.count ∧ s2.popped.length = s.popped.length + s.count ∧ s2.count = 0 ∧ heldList n s2 = [] ∧
    s2.popped.Perm (s.popped ++ heldList n s) := by
  have fd := flush_done hcap h hq
  simp only at fd
  obtain ⟨hq1, hc1, hpu1, hpo1, hloc1⟩ := fd
  have hr1 := reachable_flushSeq (n := n) (m := m) (cap := cap) h
  have hloc : ∀ i, i < n → (flushSeq n m cap s).locals i = [] ∨ (flushSeq n m cap s).count = 0 := by
    intro i hi
    by_cases hc : s.count = 0
    · right; rw [hc1]; exact hc
    · left; exact hloc1 hc i hi
  have dr : Reachable n m cap (popAll n m cap p (flushSeq n m cap s).count (flushSeq n m cap s)) ∧
      Quiescent n m (popAll n m cap p (flushSeq n m cap s).count (flushSeq n m cap s)) ∧
      (popAll n m cap p (flushSeq n m cap s).count (flushSeq n m cap s)).count = 0 ∧
      (popAll n m cap p (flushSeq n m cap s).count (flushSeq n m cap s)).popped.length =
        (flushSeq n m cap s).popped.length + (flushSeq n m cap s).count ∧
      (popAll n m cap p (flushSeq n m cap s).count (flushSeq n m cap s)).pushed = (flushSeq n m cap s).pushed := by
    by_cases hc : (flushSeq n m cap s).count = 0
    · rw [hc]; exact ⟨hr1, hq1, hc, rfl, rfl⟩
    · exact drain hcap p hp _ _ hr1 hq1 (fun i hi => (hloc i hi).resolve_right hc) rfl
  obtain ⟨hr2, hq2, hc2, hl2, hpu2⟩ := dr
  have hheld : heldList n (popAll n m cap p (flushSeq n m cap s).count (flushSeq n m cap s)) = [] := by
    have := len_exact hcap hr2 hq2
    rw [hc2] at this
    exact List.eq_nil_of_length_eq_zero this.symm
  refine ⟨hc1, by rw [hl2, hpo1, hc1], hc2, hheld, ?_⟩
  have c2 := conservation_quiescent hcap hr2 hq2
  rw [hheld, List.append_nil, hpu2, hpu1] at c2
  exact c2.symm.trans (conservation_quiescent hcap h hq)

/-! ## non-vacuity: concrete schedules (capacity 2 so that overflow is reached) -/

/-- Two workers push 0,1,2 and 10 concurrently with a popper; worker 0 overflows its queue of
capacity 2 (the full queue goes to `global`), the popper takes a queue from `global`, installs the
rest as head; the flusher then flushes; all hypotheses of the theorems hold (reachable by definition). -/
example :
    let s := exec 2 1 2 init
      [.push 0 0, .w 0, .push 1 10, .push 0 1, .w 0, .w 1, .push 0 2, .w 0, .w 0,
       .pop 0, .pop 0, .pop 0, .pop 0, .pop 0, .pop 0, .pop 0, .pop 0, .pop 0,
       .flush, .flush, .flush, .flush, .flush, .flush]
    s.count = 3 ∧ s.head = some [0] ∧ s.global = [[10], [2]] ∧ s.popped = [1] ∧ s.pcF = .idle ∧
    s.locals 0 = [] ∧ s.locals 1 = [] := by
  decide

/-- a state in flight: worker 0 holds its full old queue, the popper holds a block and the head lock -/
example :
    let s := exec 1 2 1 init [.push 0 5, .w 0, .push 0 6, .w 0, .w 0, .push 0 7, .w 0, .pop 0, .pop 0, .pop 0, .pop 0, .pop 0, .pop 0]
    s.pcW 0 = .pushGlobal [6] ∧ s.pcP 0 = .install 5 [] ∧ s.headLock = some 0 ∧ s.count = 3 ∧
    inflightList 1 2 s = [6, 5] ∧ heldList 1 s = [7] := by
  decide

end Mmtk.BlockPool
