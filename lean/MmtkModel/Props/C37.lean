import MmtkModel.Model.Compressor
/-!
# C37 — Compressor forwarding addresses pack live objects in order

*Statement*: for any set of non-overlapping live objects of at least two words in a Compressor
region, the computed forwarding address of each object equals the region start plus the total size
of the live objects before it; so forwarded objects are order-preserving, non-overlapping and never
above their original address.

Proof idea: `S p` = transducer state after scanning all mark bits below `p` from the region start.
(1) the state handed to block `k` by `calculate_offset_vector` is `S (R + 512 k)` (range split);
(2) `decode (encode x pos) pos` is the *re-based* state `norm x pos`, which behaves exactly like `x`
on every later bit (the parity trick needs `to` and positions even); (3) at an object start all
earlier objects are complete, so `S` holds `R + Σ sizes` (induction over the object list).
-/
namespace Mmtk.Compressor

/-! ## Layouts -/

/-- `objs` are word-aligned objects of at least two words, in address order, pairwise
non-overlapping, all inside `[lo, hi)`. (Any layout: objects may span several 512-byte blocks and
may end exactly at block edges.) -/
def WF : Nat → List (Nat × Nat) → Nat → Prop
  | lo, [], hi => lo ≤ hi
  | lo, (s, n) :: rest, hi => lo ≤ s ∧ 8 ∣ s ∧ 8 ∣ n ∧ 16 ≤ n ∧ WF (s + n) rest hi

def totalSize (objs : List (Nat × Nat)) : Nat := (objs.map Prod.snd).sum

theorem WF.le : ∀ {objs : List (Nat × Nat)} {lo hi : Nat}, WF lo objs hi → lo + totalSize objs ≤ hi := by
  intro objs
  induction objs with
  | nil => intro lo hi h; simpa [WF, totalSize] using h
  | cons o rest ih =>
    intro lo hi h
    obtain ⟨s, n⟩ := o
    obtain ⟨h1, _, _, _, h5⟩ := h
    have := ih h5
    simp only [totalSize, List.map_cons, List.sum_cons] at *
    omega

theorem WF.append : ∀ {pre : List (Nat × Nat)} {o : Nat × Nat} {post : List (Nat × Nat)} {lo hi : Nat},
    WF lo (pre ++ o :: post) hi → WF lo pre o.1 ∧ WF o.1 (o :: post) hi := by
  intro pre
  induction pre with
  | nil =>
    intro o post lo hi h
    obtain ⟨s, n⟩ := o
    exact ⟨h.1, Nat.le_refl _, h.2⟩
  | cons p pre ih =>
    intro o post lo hi h
    obtain ⟨s, n⟩ := p
    obtain ⟨h1, h2, h3, h4, h5⟩ := h
    have := ih h5
    exact ⟨⟨h1, h2, h3, h4, this.1⟩, this.2⟩

/-- no mark bit of a well-formed layout lies below its lower bound -/
theorem bitOf_below : ∀ {objs : List (Nat × Nat)} {lo hi a : Nat}, WF lo objs hi → a < lo → bitOf objs a = false := by
  intro objs
  induction objs with
  | nil => intro lo hi a _ _; rfl
  | cons o rest ih =>
    intro lo hi a h ha
    obtain ⟨s, n⟩ := o
    obtain ⟨h1, _, _, h4, h5⟩ := h
    have hr : bitOf rest a = false := ih h5 (by omega)
    simp only [bitOf, List.any_cons, Bool.or_eq_false_iff] at *
    refine ⟨⟨?_, ?_⟩, hr⟩ <;> simp <;> omega

/-! ## Word ranges -/

theorem mem_wordsIn {lo hi a : Nat} : a ∈ wordsIn lo hi → lo ≤ a ∧ a + 8 ≤ hi ∧ 8 ∣ (a - lo) := by
  intro h
  simp only [wordsIn, List.mem_map, List.mem_range] at h
  obtain ⟨i, hi', rfl⟩ := h
  refine ⟨by omega, ?_, ⟨i, by omega⟩⟩
  have := Nat.div_mul_le_self (hi - lo) 8
  omega

theorem wordsIn_split {lo mid hi : Nat} (h1 : lo ≤ mid) (h2 : mid ≤ hi) (hd : 8 ∣ (mid - lo)) :
    wordsIn lo hi = wordsIn lo mid ++ wordsIn mid hi := by
  obtain ⟨k, hk⟩ := hd
  have e1 : (mid - lo) / 8 = k := by omega
  have e2 : (hi - lo) / 8 = k + (hi - mid) / 8 := by omega
  simp only [wordsIn, e1, e2, List.range_add, List.map_append, List.map_map]
  congr 1
  apply List.map_congr_left
  intro i _
  simp only [Function.comp]
  omega

theorem wordsIn_self (lo : Nat) : wordsIn lo lo = [] := by simp [wordsIn]

theorem wordsIn_cons {lo hi : Nat} (h : lo + 8 ≤ hi) : wordsIn lo hi = lo :: wordsIn (lo + 8) hi := by
  have e : (hi - lo) / 8 = 1 + (hi - (lo + 8)) / 8 := by omega
  simp only [wordsIn, e, List.range_add, List.map_append, List.map_map]
  simp only [List.range_one, List.map_cons, List.map_nil, Nat.mul_zero, Nat.add_zero, List.singleton_append]
  congr 1
  apply List.map_congr_left
  intro i _
  simp only [Function.comp]
  omega

theorem scanFrom_split (bit : Nat → Bool) (x : Xd) {lo mid hi : Nat} (h1 : lo ≤ mid) (h2 : mid ≤ hi)
    (hd : 8 ∣ (mid - lo)) : scanFrom bit x lo hi = scanFrom bit (scanFrom bit x lo mid) mid hi := by
  simp only [scanFrom, wordsIn_split h1 h2 hd, List.filter_append, List.foldl_append]

theorem scanFrom_congr {bit bit' : Nat → Bool} (x : Xd) {lo hi : Nat}
    (h : ∀ a, lo ≤ a → a < hi → bit a = bit' a) : scanFrom bit x lo hi = scanFrom bit' x lo hi := by
  simp only [scanFrom]
  congr 1
  apply List.filter_congr
  intro a ha
  have := mem_wordsIn ha
  exact h a this.1 (by omega)

theorem scanFrom_none {bit : Nat → Bool} (x : Xd) {lo hi : Nat}
    (h : ∀ a, lo ≤ a → a < hi → bit a = false) : scanFrom bit x lo hi = x := by
  have : (wordsIn lo hi).filter bit = [] := by
    rw [List.filter_eq_nil_iff]
    intro a ha
    have := mem_wordsIn ha
    simp [h a this.1 (by omega)]
  simp [scanFrom, this]


/-! ## (3) scanning complete objects adds their sizes -/

/-- Scanning a range that contains exactly the well-formed objects `objs`, starting outside any
object, leaves the transducer outside any object with `to` advanced by their total size. -/
theorem scan_objects : ∀ (objs : List (Nat × Nat)) (lo hi : Nat) (x : Xd), WF lo objs hi → 8 ∣ lo → 8 ∣ hi →
    x.inObj = false → ∃ l, scanFrom (bitOf objs) x lo hi = { to := x.to + totalSize objs, last := l, inObj := false } := by
  intro objs
  induction objs with
  | nil =>
    intro lo hi x _ _ _ hx
    refine ⟨x.last, ?_⟩
    rw [scanFrom_none x (by intro a _ _; rfl)]
    cases x; simp_all [totalSize]
  | cons o rest ih =>
    intro lo hi x h hlo hhi hx
    obtain ⟨s, n⟩ := o
    obtain ⟨h1, h2, h3, h4, h5⟩ := h
    have hle := WF.le h5
    obtain ⟨ks, rfl⟩ := h2
    obtain ⟨kn, rfl⟩ := h3
    obtain ⟨klo, rfl⟩ := hlo
    obtain ⟨khi, rfl⟩ := hhi
    -- bits of `rest` vanish below `s + n`
    have hrest : ∀ a, a < 8 * ks + 8 * kn → bitOf rest a = false := fun a ha => bitOf_below h5 ha
    have hbit : ∀ a, bitOf ((8 * ks, 8 * kn) :: rest) a = ((a == 8 * ks || a == 8 * ks + 8 * kn - 8) || bitOf rest a) := by
      intro a; simp [bitOf]
    -- split [lo, hi) = [lo, s) ++ [s] ++ [s+8, last) ++ [last] ++ [s+n, hi)
    have e1 := scanFrom_split (bitOf ((8 * ks, 8 * kn) :: rest)) x (lo := 8 * klo) (mid := 8 * ks) (hi := 8 * khi)
      h1 (by omega) ⟨ks - klo, by omega⟩
    rw [e1]
    have z1 : scanFrom (bitOf ((8 * ks, 8 * kn) :: rest)) x (8 * klo) (8 * ks) = x := by
      apply scanFrom_none
      intro a _ ha
      rw [hbit, hrest a (by omega)]
      simp; omega
    rw [z1]
    -- the first word
    have e2 : scanFrom (bitOf ((8 * ks, 8 * kn) :: rest)) x (8 * ks) (8 * khi) =
        scanFrom (bitOf ((8 * ks, 8 * kn) :: rest)) (visit x (8 * ks)) (8 * ks + 8) (8 * khi) := by
      simp only [scanFrom]
      rw [wordsIn_cons (by omega)]
      have : bitOf ((8 * ks, 8 * kn) :: rest) (8 * ks) = true := by rw [hbit]; simp
      simp [this]
    rw [e2]
    have hv1 : visit x (8 * ks) = { to := x.to, last := 8 * ks, inObj := true } := by simp [visit, hx]
    rw [hv1]
    -- interior words
    have e3 := scanFrom_split (bitOf ((8 * ks, 8 * kn) :: rest)) { to := x.to, last := 8 * ks, inObj := true }
      (lo := 8 * ks + 8) (mid := 8 * ks + 8 * kn - 8) (hi := 8 * khi) (by omega) (by omega) ⟨kn - 2, by omega⟩
    rw [e3]
    have z2 : scanFrom (bitOf ((8 * ks, 8 * kn) :: rest)) { to := x.to, last := 8 * ks, inObj := true }
        (8 * ks + 8) (8 * ks + 8 * kn - 8) = { to := x.to, last := 8 * ks, inObj := true } := by
      apply scanFrom_none
      intro a h1' h2'
      rw [hbit, hrest a (by omega)]
      simp; omega
    rw [z2]
    -- the last word
    have e4 : scanFrom (bitOf ((8 * ks, 8 * kn) :: rest)) { to := x.to, last := 8 * ks, inObj := true }
        (8 * ks + 8 * kn - 8) (8 * khi) =
        scanFrom (bitOf ((8 * ks, 8 * kn) :: rest))
          (visit { to := x.to, last := 8 * ks, inObj := true } (8 * ks + 8 * kn - 8)) (8 * ks + 8 * kn) (8 * khi) := by
      simp only [scanFrom]
      rw [wordsIn_cons (by omega)]
      have : bitOf ((8 * ks, 8 * kn) :: rest) (8 * ks + 8 * kn - 8) = true := by rw [hbit]; simp
      have e : 8 * ks + 8 * kn - 8 + 8 = 8 * ks + 8 * kn := by omega
      simp [this, e]
    rw [e4]
    have hv2 : visit { to := x.to, last := 8 * ks, inObj := true } (8 * ks + 8 * kn - 8) =
        { to := x.to + 8 * kn, last := 8 * ks + 8 * kn - 8, inObj := false } := by
      simp only [visit, if_true]
      congr 1
      omega
    rw [hv2]
    -- the rest: bits of the first object vanish above it
    have e5 : scanFrom (bitOf ((8 * ks, 8 * kn) :: rest)) { to := x.to + 8 * kn, last := 8 * ks + 8 * kn - 8, inObj := false }
        (8 * ks + 8 * kn) (8 * khi) =
        scanFrom (bitOf rest) { to := x.to + 8 * kn, last := 8 * ks + 8 * kn - 8, inObj := false } (8 * ks + 8 * kn) (8 * khi) := by
      apply scanFrom_congr
      intro a ha _
      rw [hbit]
      have : (a == 8 * ks || a == 8 * ks + 8 * kn - 8) = false := by simp; omega
      rw [this]; simp
    rw [e5]
    obtain ⟨l, hl⟩ := ih (8 * ks + 8 * kn) (8 * khi) { to := x.to + 8 * kn, last := 8 * ks + 8 * kn - 8, inObj := false }
      h5 ⟨ks + kn, by omega⟩ ⟨khi, rfl⟩ rfl
    refine ⟨l, ?_⟩
    rw [hl]
    simp only [totalSize, List.map_cons, List.sum_cons]
    congr 1
    omega


/-! ## (2) encode / decode -/

/-- The state `x` re-based at `pos`: what `decode (encode x pos) pos` yields. -/
def norm (x : Xd) (pos : Nat) : Xd :=
  { to := if x.inObj then x.to + (pos - x.last) else x.to, last := pos, inObj := x.inObj }

/-- **C37 (encode_decode)** the parity trick: `to` and the distance to the last visited bit are
even (word aligned), so the low bit is free to carry `in_object`. -/
theorem encode_decode (x : Xd) (pos : Nat) (hto : 2 ∣ x.to) (hd : 2 ∣ (pos - x.last)) :
    decode (encode x pos) pos = norm x pos := by
  obtain ⟨a, ha⟩ := hto
  obtain ⟨b, hb⟩ := hd
  cases hio : x.inObj with
  | false => simp [decode, encode, norm, hio, ha]
  | true =>
    simp only [decode, encode, norm, hio, if_true]
    have h1 : (x.to + (pos - x.last) + 1) % 2 = 1 := by omega
    have h2 : x.to + (pos - x.last) + 1 - (x.to + (pos - x.last) + 1) % 2 = x.to + (pos - x.last) := by omega
    simp [h1]

/-- The re-based state is indistinguishable from the original on every later bit. -/
theorem visit_norm (x : Xd) (pos a : Nat) (h1 : x.last ≤ pos) (h2 : pos ≤ a) :
    visit (norm x pos) a = visit x a := by
  cases hio : x.inObj with
  | false => simp [visit, norm, hio]
  | true =>
    simp only [visit, norm, hio, if_true]
    congr 1
    omega

theorem foldl_norm (x : Xd) (pos : Nat) (l : List Nat) (h1 : x.last ≤ pos) (h2 : ∀ a ∈ l, pos ≤ a) :
    (l = [] ∧ l.foldl visit (norm x pos) = norm x pos) ∨ l.foldl visit (norm x pos) = l.foldl visit x := by
  cases l with
  | nil => left; exact ⟨rfl, rfl⟩
  | cons a l =>
    right
    simp only [List.foldl_cons]
    rw [visit_norm x pos a h1 (h2 a (by simp))]

/-! ## alignment invariant of the scanned state -/

def Aligned (x : Xd) (p : Nat) : Prop := 8 ∣ x.to ∧ 8 ∣ x.last ∧ x.last ≤ p

theorem foldl_aligned : ∀ (l : List Nat) (x : Xd) (p : Nat), Aligned x p → (∀ a ∈ l, 8 ∣ a ∧ x.last ≤ a ∧ a ≤ p) →
    List.Pairwise (· ≤ ·) l → Aligned (l.foldl visit x) p := by
  intro l
  induction l with
  | nil => intro x p h _ _; exact h
  | cons a l ih =>
    intro x p h hl hs
    simp only [List.foldl_cons]
    have ha := hl a (by simp)
    obtain ⟨⟨k1, e1⟩, ⟨k2, e2⟩, _⟩ := h
    obtain ⟨⟨k3, e3⟩, h4, h5⟩ := ha
    have hv : Aligned (visit x a) p ∧ (visit x a).last = a := by
      unfold visit
      split
      · exact ⟨⟨⟨k1 + (k3 - k2) + 1, by simp only; omega⟩, ⟨k3, e3⟩, h5⟩, rfl⟩
      · exact ⟨⟨⟨k1, e1⟩, ⟨k3, e3⟩, h5⟩, rfl⟩
    apply ih _ p hv.1
    · intro b hb
      have := hl b (by simp [hb])
      rw [hv.2]
      have hab : a ≤ b := (List.pairwise_cons.1 hs).1 b hb
      exact ⟨this.1, hab, this.2.2⟩
    · exact (List.pairwise_cons.1 hs).2

theorem wordsIn_pairwise (lo hi : Nat) : List.Pairwise (· ≤ ·) (wordsIn lo hi) := by
  simp only [wordsIn]
  rw [List.pairwise_map]
  have := List.pairwise_lt_range (n := (hi - lo) / 8)
  exact this.imp (by intro a b h; omega)

theorem scanFrom_aligned (bit : Nat → Bool) (x : Xd) (lo hi : Nat) (hx : Aligned x lo) (hlo : 8 ∣ lo) (h : lo ≤ hi) :
    Aligned (scanFrom bit x lo hi) hi := by
  have hx' : Aligned x hi := ⟨hx.1, hx.2.1, by have := hx.2.2; omega⟩
  apply foldl_aligned _ x hi hx'
  · intro a ha
    have hm := mem_wordsIn (List.mem_filter.1 ha).1
    obtain ⟨k, hk⟩ := hlo
    obtain ⟨j, hj⟩ := hm.2.2
    exact ⟨⟨k + j, by omega⟩, by have := hx.2.2; omega, by omega⟩
  · exact (wordsIn_pairwise lo hi).sublist List.filter_sublist


/-! ## (1) the state cached for block `k` -/

theorem calcBlocks_getD (bit : Nat → Bool) : ∀ (n b : Nat) (st : Xd) (k : Nat), k < n →
    (calcBlocks bit n b st).getD k 0 = encode (scanFrom bit st b (b + 512 * k)) (b + 512 * k) := by
  intro n
  induction n with
  | zero => intro b st k h; omega
  | succ n ih =>
    intro b st k h
    cases k with
    | zero => simp [calcBlocks, scanFrom, wordsIn_self]
    | succ k =>
      simp only [calcBlocks, List.getD_cons_succ]
      rw [ih (b + 512) _ k (by omega)]
      have e : b + 512 + 512 * k = b + 512 * (k + 1) := by omega
      rw [e, ← scanFrom_split bit st (by omega) (by omega) ⟨64, by omega⟩]

theorem bitOf_append (l1 l2 : List (Nat × Nat)) (a : Nat) : bitOf (l1 ++ l2) a = (bitOf l1 a || bitOf l2 a) := by
  simp [bitOf, List.any_append]

/-- **C37 (forward_eq_prefix_sum)** for ANY layout `pre ++ o :: post` of word-aligned,
non-overlapping objects of at least two words inside `[R, cursor)` (block-aligned region start and
cursor), with mark bits on first and last words: `forward(start of o)` is the region start plus the
total size of the objects before `o`. -/
theorem forward_eq_prefix_sum (R cursor : Nat) (pre post : List (Nat × Nat)) (o : Nat × Nat)
    (hR : 512 ∣ R) (hc : 512 ∣ cursor) (hwf : WF R (pre ++ o :: post) cursor) :
    forward (calculateOffsetVector (bitOf (pre ++ o :: post)) R cursor) (bitOf (pre ++ o :: post)) R o.1
      = R + totalSize pre := by
  obtain ⟨s, n⟩ := o
  obtain ⟨hpre, hpost⟩ := WF.append hwf
  have hpost' := hpost
  obtain ⟨_, hs8, hn8, hn16, hrest⟩ := hpost
  have hle := WF.le hrest
  have hple := WF.le hpre
  simp only at hpre hple hpost' ⊢
  obtain ⟨r, rfl⟩ := hR
  obtain ⟨c, rfl⟩ := hc
  -- the block of `s`
  have hb1 : 512 * r ≤ s - s % 512 := by omega
  obtain ⟨k, hk⟩ : ∃ k, s - s % 512 = 512 * r + 512 * k := ⟨(s - s % 512 - 512 * r) / 512, by omega⟩
  have hkn : k < (512 * c - 512 * r) / 512 := by omega
  have hidx : (s - s % 512 - 512 * r) / 512 = k := by omega
  -- S p := state after scanning [R, p)
  let bit := bitOf (pre ++ (s, n) :: post)
  let S := fun p => scanFrom bit (Xd.new (512 * r)) (512 * r) p
  have hSa : ∃ l, S s = { to := 512 * r + totalSize pre, last := l, inObj := false } := by
    have : S s = scanFrom (bitOf pre) (Xd.new (512 * r)) (512 * r) s := by
      apply scanFrom_congr
      intro a _ ha
      show bitOf (pre ++ (s, n) :: post) a = bitOf pre a
      rw [bitOf_append, bitOf_below hpost' ha]; simp
    rw [this]
    exact scan_objects pre (512 * r) s (Xd.new (512 * r)) hpre ⟨64 * r, by omega⟩ hs8 rfl
  have hnew : Aligned (Xd.new (512 * r)) (512 * r) :=
    ⟨⟨64 * r, by show 512 * r = 8 * (64 * r); omega⟩, ⟨0, rfl⟩, Nat.zero_le _⟩
  have hSb_al : Aligned (S (s - s % 512)) (s - s % 512) :=
    scanFrom_aligned bit _ _ _ hnew ⟨64 * r, by omega⟩ hb1
  have hsplit : S s = scanFrom bit (S (s - s % 512)) (s - s % 512) s :=
    scanFrom_split bit _ hb1 (by omega) ⟨64 * k, by omega⟩
  -- unfold forward
  unfold forward calculateOffsetVector
  simp only [hidx]
  rw [calcBlocks_getD bit _ _ _ k hkn, ← hk]
  obtain ⟨⟨t1, ht1⟩, ⟨t2, ht2⟩, hlast⟩ := hSb_al
  obtain ⟨q, hq⟩ : 8 ∣ (s - s % 512) := by
    obtain ⟨j, hj⟩ := hs8
    exact ⟨j - (s % 512) / 8, by omega⟩
  rw [encode_decode (S (s - s % 512)) (s - s % 512) ⟨4 * t1, by omega⟩ ⟨4 * (q - t2), by omega⟩]
  obtain ⟨l, hl⟩ := hSa
  have hfold := foldl_norm (S (s - s % 512)) (s - s % 512) ((wordsIn (s - s % 512) s).filter bit) hlast
    (by intro a ha; exact (mem_wordsIn (List.mem_filter.1 ha).1).1)
  rcases hfold with ⟨hnil, hres⟩ | hres
  · -- no bit between the block start and `s`
    have hSs : S s = S (s - s % 512) := by rw [hsplit]; simp [scanFrom, hnil]
    show (List.foldl visit (norm (S (s - s % 512)) (s - s % 512)) ((wordsIn (s - s % 512) s).filter bit)).to = _
    rw [hres, ← hSs, hl]
    simp [norm]
  · show (List.foldl visit (norm (S (s - s % 512)) (s - s % 512)) ((wordsIn (s - s % 512) s).filter bit)).to = _
    rw [hres]
    have : List.foldl visit (S (s - s % 512)) ((wordsIn (s - s % 512) s).filter bit) = S s := hsplit.symm
    rw [this, hl]


/-! ## Corollaries -/

/-- `forward` of the object start as computed by the real pipeline on a layout. -/
def fwd (R cursor : Nat) (objs : List (Nat × Nat)) (a : Nat) : Nat :=
  forward (calculateOffsetVector (bitOf objs) R cursor) (bitOf objs) R a

/-- **C37 (forward_le_self, in region)** a forwarded object stays inside the region and never moves
above its original address. -/
theorem forward_le_self (R cursor : Nat) (pre post : List (Nat × Nat)) (o : Nat × Nat)
    (hR : 512 ∣ R) (hc : 512 ∣ cursor) (hwf : WF R (pre ++ o :: post) cursor) :
    R ≤ fwd R cursor (pre ++ o :: post) o.1 ∧ fwd R cursor (pre ++ o :: post) o.1 ≤ o.1 := by
  unfold fwd
  rw [forward_eq_prefix_sum R cursor pre post o hR hc hwf]
  have := WF.le (WF.append hwf).1
  omega

theorem totalSize_append (l1 l2 : List (Nat × Nat)) : totalSize (l1 ++ l2) = totalSize l1 + totalSize l2 := by
  simp [totalSize, List.map_append, List.sum_append]

/-- **C37 (forward_monotone / forward_nonoverlapping)** forwarding preserves address order and the
forwarded copies do not overlap: the copy of an earlier object ends at or before the copy of any
later object begins — exactly at it when no object lies in between. -/
theorem forward_nonoverlapping (R cursor : Nat) (pre mid post : List (Nat × Nat)) (o o' : Nat × Nat)
    (hR : 512 ∣ R) (hc : 512 ∣ cursor) (hwf : WF R (pre ++ o :: (mid ++ o' :: post)) cursor) :
    fwd R cursor (pre ++ o :: (mid ++ o' :: post)) o.1 + o.2 + totalSize mid
      = fwd R cursor (pre ++ o :: (mid ++ o' :: post)) o'.1 := by
  unfold fwd
  rw [forward_eq_prefix_sum R cursor pre (mid ++ o' :: post) o hR hc hwf]
  have e : pre ++ o :: (mid ++ o' :: post) = (pre ++ o :: mid) ++ o' :: post := by simp
  rw [e] at hwf ⊢
  rw [forward_eq_prefix_sum R cursor (pre ++ o :: mid) post o' hR hc hwf]
  have : totalSize (pre ++ o :: mid) = totalSize pre + o.2 + totalSize mid := by
    rw [totalSize_append]; simp [totalSize]; omega
  omega

theorem forward_monotone (R cursor : Nat) (pre mid post : List (Nat × Nat)) (o o' : Nat × Nat)
    (hR : 512 ∣ R) (hc : 512 ∣ cursor) (hwf : WF R (pre ++ o :: (mid ++ o' :: post)) cursor) :
    fwd R cursor (pre ++ o :: (mid ++ o' :: post)) o.1 + o.2
      ≤ fwd R cursor (pre ++ o :: (mid ++ o' :: post)) o'.1 := by
  have := forward_nonoverlapping R cursor pre mid post o o' hR hc hwf
  omega

/-! ## Hypotheses are satisfiable; boundary examples -/

/-- a layout with an object spanning three blocks, one ending exactly at a block edge, one starting
at a block edge, and a two-word object -/
def exLayout : List (Nat × Nat) := [(1048576 + 16, 32), (1048576 + 496, 1040), (1048576 + 1536, 16), (1048576 + 2040, 8 * 3)]

example : WF 1048576 exLayout (1048576 + 4 * 512 + 512) := by
  refine ⟨by omega, ⟨131074, by omega⟩, ⟨4, by omega⟩, by omega,
    by omega, ⟨131134, by omega⟩, ⟨130, by omega⟩, by omega,
    by omega, ⟨131264, by omega⟩, ⟨2, by omega⟩, by omega,
    by omega, ⟨131327, by omega⟩, ⟨3, by omega⟩, by omega,
    by show 1048576 + 2040 + 8 * 3 ≤ 1048576 + 4 * 512 + 512; omega⟩

example : exLayout.map (fun o => fwd 1048576 (1048576 + 5 * 512) exLayout o.1 - 1048576) = [0, 32, 1072, 1088] := by
  decide +kernel
example : (calculateOffsetVector (bitOf exLayout) 1048576 (1048576 + 5 * 512)).map (· - 1048576)
    = [0, 32 + 16 + 1, 32 + 528 + 1, 32 + 1040, 32 + 1040 + 16 + 8 + 1] := by decide +kernel

end Mmtk.Compressor
