import MmtkModel.Model.Heap
import MmtkModel.Model.Snap
/-!
# C04 — Non-moving, immortal and pinned objects never move; immortal ones never die

The monitor's snapshot clause `firstMoved` answers `none` exactly when every `fixed` object whose reference
was seen before still has it (`firstMoved_none_iff`). `fixed` is computed from the shadow heap (semantics ≠
Default, or pinned, or the plan never moves): no mutator op changes the semantics of an allocated object,
and only `pin`/`unpin` of that very id changes its pinned flag (`applyOp_sem_stable`,
`applyOp_pinned_stable`) — so the monitor's notion of "must not move" is the program's.
"Immortal ones never die" is observed by `ismo` probes (`gc:immortal-died`), not proved.
Level: proof of the verdict function; partial w.r.t. the code.
-/
namespace Mmtk.Heap

theorem firstMoved_none_iff (fixed : Id → Bool) (last : Array Nat) : ∀ (l : List SObj),
    firstMoved fixed last l = none ↔
      ∀ o ∈ l, fixed o.id = true → last.getD o.id 0 ≠ 0 → last.getD o.id 0 = o.ref
  | [] => by simp [firstMoved]
  | o :: rest => by
    unfold firstMoved
    by_cases hc : (fixed o.id && last.getD o.id 0 != 0 && last.getD o.id 0 != o.ref) = true
    · rw [if_pos hc]
      simp only [Bool.and_eq_true, bne_iff_ne, ne_eq] at hc
      constructor
      · intro h; cases h
      · intro h; exact absurd (h o List.mem_cons_self hc.1.1 hc.1.2) hc.2
    · rw [if_neg hc, firstMoved_none_iff fixed last rest]
      simp only [Bool.and_eq_true, bne_iff_ne, ne_eq, not_and, Decidable.not_not] at hc
      constructor
      · intro h p hp
        rcases List.mem_cons.1 hp with rfl | hp
        · intro h1 h2; exact hc ⟨h1, h2⟩
        · exact h p hp
      · intro h p hp; exact h p (List.mem_cons_of_mem _ hp)

/-- no mutator op changes the allocation semantics of an already allocated object -/
theorem applyOp_sem_stable {h h' : Heap} (op : Op) (hop : applyOp h op = some h') (k : Nat) (hk : k < h.objs.size) :
    ∃ hk' : k < h'.objs.size, h'.objs[k].sem = h.objs[k].sem := by
  cases op <;> simp only [applyOp] at hop
  case alloc key id nf size sem =>
    split at hop <;> cases hop
    exact ⟨by simp; omega, by simp [Array.getElem_push, hk]⟩
  case allocFail id =>
    split at hop <;> cases hop
    exact ⟨by simp; omega, by simp [Array.getElem_push, hk]⟩
  case root key v =>
    split at hop <;> cases hop
    exact ⟨hk, rfl⟩
  case write src f v =>
    split at hop
    · split at hop <;> cases hop
      refine ⟨by simpa [Heap.modifyObj] using hk, ?_⟩
      simp only [Heap.modifyObj, Array.getElem_modify]; split <;> rfl
    · cases hop
  case copyrange src sf dst df n =>
    split at hop
    · split at hop <;> cases hop
      refine ⟨by simpa [Heap.modifyObj] using hk, ?_⟩
      simp only [Heap.modifyObj, Array.getElem_modify]; split <;> rfl
    all_goals cases hop
  case destroy m => cases hop; exact ⟨hk, rfl⟩
  case mkref id =>
    split at hop
    · split at hop <;> cases hop
      refine ⟨by simpa [Heap.modifyObj] using hk, ?_⟩
      simp only [Heap.modifyObj, Array.getElem_modify]; split <;> rfl
    · cases hop
  case pin id on =>
    split at hop <;> cases hop
    refine ⟨by simpa [Heap.modifyObj] using hk, ?_⟩
    simp only [Heap.modifyObj, Array.getElem_modify]; split <;> rfl

/-- only `pin`/`unpin` of the object itself changes its pinned flag -/
theorem applyOp_pinned_stable {h h' : Heap} (op : Op) (hop : applyOp h op = some h') (k : Nat) (hk : k < h.objs.size)
    (hne : ∀ on, op ≠ .pin k on) : ∃ hk' : k < h'.objs.size, h'.objs[k].pinned = h.objs[k].pinned := by
  cases op <;> simp only [applyOp] at hop
  case alloc key id nf size sem =>
    split at hop <;> cases hop
    exact ⟨by simp; omega, by simp [Array.getElem_push, hk]⟩
  case allocFail id =>
    split at hop <;> cases hop
    exact ⟨by simp; omega, by simp [Array.getElem_push, hk]⟩
  case root key v =>
    split at hop <;> cases hop
    exact ⟨hk, rfl⟩
  case write src f v =>
    split at hop
    · split at hop <;> cases hop
      refine ⟨by simpa [Heap.modifyObj] using hk, ?_⟩
      simp only [Heap.modifyObj, Array.getElem_modify]; split <;> rfl
    · cases hop
  case copyrange src sf dst df n =>
    split at hop
    · split at hop <;> cases hop
      refine ⟨by simpa [Heap.modifyObj] using hk, ?_⟩
      simp only [Heap.modifyObj, Array.getElem_modify]; split <;> rfl
    all_goals cases hop
  case destroy m => cases hop; exact ⟨hk, rfl⟩
  case mkref id =>
    split at hop
    · split at hop <;> cases hop
      refine ⟨by simpa [Heap.modifyObj] using hk, ?_⟩
      simp only [Heap.modifyObj, Array.getElem_modify]; split <;> rfl
    · cases hop
  case pin id on =>
    split at hop <;> cases hop
    refine ⟨by simpa [Heap.modifyObj] using hk, ?_⟩
    simp only [Heap.modifyObj, Array.getElem_modify]
    split
    · rename_i hik; exact absurd (hik ▸ rfl) (hne on)
    · rfl

example : (firstMoved (fun _ => true) #[0x1000, 0x2000]
    [⟨0, 0x1000, 40, 'I', true, []⟩, ⟨1, 0x2008, 40, 'L', true, []⟩]).map (·.id) = some 1 := by decide
example : (firstMoved (fun _ => true) #[0x1000, 0x2000]
    [⟨0, 0x1000, 40, 'I', true, []⟩, ⟨1, 0x2000, 40, 'L', true, []⟩]).map (·.id) = none := by decide

end Mmtk.Heap
