import MmtkModel.Lemmas.Sched
import MmtkModel.Lemmas.SchedCount
import MmtkModel.Generated.Stages
/-!
# C15 — Stop-the-world stages open in order; each packet runs exactly once

Model: `Model/Sched.lean`.  Statements are about **every transition from every reachable state**
(all interleavings, all `n ≥ 1`) and every well-formed stage table (`Cfg.WF`; the table regenerated
from the linked crate is well-formed: `generated_wf`).

* `open_only_when_quiescent` — a sequentially opened bucket (every stop-the-world bucket but the
  first) changes from closed to open only in a `park` transition of the last parked worker, i.e. while
  every other worker is parked, a Gc goal is current, and every enabled bucket of its open condition
  (`FIRST_STW_STAGE` and all earlier sequentially opened stages) is **empty**.
* `first_stw_opened_by_packet` — the only other way a bucket opens: `notify_mutators_paused` opens
  the first stop-the-world bucket, from a running packet, after `stop_all_mutators`.
* `all_closed_at_end` — the transition that completes a GC (`gcDone` increases) is a `park`
  transition and leaves **every stop-the-world bucket closed and empty**; no worker is then running a
  packet or holding one in its local deque (`quiescent_at_end`).
* `exactly_once_partial` — the proved part of "every packet added during a GC is executed exactly
  once, in that GC": a packet can start only by being removed from the container that held it
  (`start_removes`), and at the end of a GC nothing is left in any stop-the-world bucket, local deque or
  running state (`all_closed_at_end`, `quiescent_at_end`), so a packet pushed into a stop-the-world
  bucket during the GC has been taken out during it.  The exemptions are part of the statement:
  packets pushed by mutators into *closed* buckets between GCs run in the next GC; packets in the
  `Concurrent` bucket run after the pause.
* `packet_conservation`, `gc_end_accounting` — the counting form of conservation for every reachable
  state: `added = queued + started`, `started = running + ended`; at the end of a GC nothing runs, all
  local deques and designated queues are empty, `started = ended`, and `added = (bucket queues +
  sentinel slots) + ended` with every stop-the-world queue empty.
  Not proved: uniqueness of packet ids (that the *same* packet is not both queued and ended); the
  event-log monitor and the Python oracle check it on every replayed GC instead.
-/
namespace Mmtk.Sched

theorem getD_all {α : Type} (l : List α) (d : α) (P : α → Prop) (h1 : ∀ x, x ∈ l → P x) (h2 : P d) (b : Nat) :
    P (l.getD b d) := by
  rw [List.getD_eq_getElem?_getD]
  cases h : l[b]? with
  | none => exact h2
  | some x => exact h1 x (List.mem_of_getElem? h)

open Mmtk.Generated.Stages in
/-- the regenerated stage table is well-formed, for every worker count `n ≥ 1` -/
theorem generated_wf (n : Nat) (hn : 0 < n) (m : Bool) : (cfg n m).WF := by
  refine ⟨hn, ?_, ?_, ?_, ?_⟩
  · show (stages.getD concIdx default).isStw = false; decide
  · show (stages.getD unconIdx default).isStw = false; decide
  · intro b
    show (stages.getD b default).isSeq = ((stages.getD b default).isStw && !(stages.getD b default).isFirstStw)
    exact getD_all stages default (fun x => x.isSeq = (x.isStw && !x.isFirstStw)) (by decide) (by decide) b
  · intro b
    show (stages.getD b default).isFirstStw = true → (stages.getD b default).isStw = true
    exact getD_all stages default (fun x => x.isFirstStw = true → x.isStw = true) (by decide) (by decide) b

/-- **C15 (1)** a stop-the-world bucket other than the first is opened only while all workers are
parked and all earlier enabled buckets are empty. -/
theorem open_only_when_quiescent {c : Cfg} (hwf : c.WF) {s s' : State} {a : Act} (hr : Reachable c s)
    (hs : step c s a = some s') (b : Nat) (hb : (c.info b).isSeq = true)
    (h1 : (s.bkt b).isOpen = false) (h2 : (s'.bkt b).isOpen = true) :
    ∃ w tag, a = .park w tag ∧ w < c.n ∧ s.pc w = .parking ∧
      (∀ x, x < c.n → x ≠ w → (s.pc x).isParked = true) ∧
      s.current = some .gc ∧
      ∀ b', b' ∈ curStages c b → (s.bkt b').enabled = true → (s.bkt b').q = [] := by
  have hA := reachable_invA hr
  rcases step_other c s s' a hs with ⟨w, tag, rfl⟩ | ⟨_, _, ho⟩
  · obtain ⟨hw, hpc, _, hcase⟩ := step_park_cases hs
    refine ⟨w, tag, rfl, hw, hpc, ?_⟩
    rcases hcase with ⟨_, rfl⟩ | ⟨hlast, s1, r, hl, he⟩
    · simp only [setPc] at h2; rw [h1] at h2; cases h2
    · have h2' : (s1.bkt b).isOpen = true := by rw [he] at h2; exact h2
      obtain ⟨hcur, hem⟩ := onLastParked_opens c hwf _ s1 tag r hl b hb h1 h2'
      refine ⟨?_, hcur, hem⟩
      apply countW_all_but c.n (fun x => (s.pc x).isParked) w hw (by simp [hpc, PC.isParked])
      have := hA.parked_eq; unfold parkedCount at this; omega
  · rcases ho b h2 with h | h
    · rw [h1] at h; cases h
    · rw [hwf.seq_def, h] at hb; simp at hb

/-- **C15 (1b)** the first stop-the-world bucket is opened by a running packet after
`stop_all_mutators` (`notify_mutators_paused`), or re-opened never: any other closed→open transition
of a non-sequential bucket is the `Concurrent` bucket in `schedule_concurrent_packets`. -/
theorem first_stw_opened_by_packet {c : Cfg} {s s' : State} {w b : Nat} (hs : step c s (.openFirst w b) = some s') :
    (s.pc w).isExec = true ∧ s.stopped = true ∧ (c.info b).isFirstStw = true ∧ (s.bkt b).isOpen = false := by
  simp only [step] at hs
  split at hs
  · rename_i hg; exact ⟨hg.2.1, hg.2.2.2.2.1, hg.2.2.2.1, by simpa using hg.2.2.2.2.2⟩
  · cases hs

/-- **C15 (2)** at the end of a GC all stop-the-world buckets are empty and closed. -/
theorem all_closed_at_end {c : Cfg} (hwf : c.WF) {s s' : State} {a : Act} (hs : step c s a = some s')
    (hg : s'.gcDone ≠ s.gcDone) :
    (∃ w tag, a = .park w tag) ∧ s'.gcDone = s.gcDone + 1 ∧ s.current = some .gc ∧
    ∀ b, b < c.L → (c.info b).isStw = true → (s'.bkt b).isOpen = false ∧ (s'.bkt b).q = [] := by
  rcases step_other c s s' a hs with ⟨w, tag, rfl⟩ | ⟨h, _, _⟩
  · refine ⟨⟨w, tag, rfl⟩, ?_⟩
    obtain ⟨_, _, _, hcase⟩ := step_park_cases hs
    rcases hcase with ⟨_, rfl⟩ | ⟨_, s1, r, hl, he⟩
    · exact absurd rfl hg
    · rcases onLastParked_gc_end c hwf _ s1 tag r hl with h | ⟨h1, h2, h3⟩
      · exfalso; apply hg; rw [he]; exact h
      · exact ⟨by rw [he]; exact h1, h2, fun b hb hstw => by rw [he]; exact h3 b hb hstw⟩
  · exact absurd h hg

/-- at the end of a GC no worker runs a packet and every local deque is empty (the last parked worker
is the only one not parked, and it is in `park_and_wait`) -/
theorem quiescent_at_end {c : Cfg} (hwf : c.WF) (hmut : c.mutAddOpen = false) {s s' : State} {a : Act}
    (hr : Reachable c s) (hs : step c s a = some s') (hg : s'.gcDone ≠ s.gcDone) :
    (∀ x, x < c.n → (s.pc x).isExec = false) ∧ (∀ v, v < c.n → s'.buf v = []) := by
  have inv := reachable_inv hwf.npos hmut hr
  obtain ⟨⟨w, tag, rfl⟩, _, _, _⟩ := all_closed_at_end hwf hs hg
  obtain ⟨hw, hpc, _, hcase⟩ := step_park_cases hs
  rcases hcase with ⟨_, rfl⟩ | ⟨hlast, s1, r, hl, he⟩
  · exact absurd rfl hg
  · have hno := no_cover_when_last inv.a hw hpc hlast
    obtain ⟨_, hbuf⟩ := noRun_of_invC inv.c' hno
    have f := frame_onLastParked c _ _ _ _ hl
    constructor
    · intro x hx
      cases he2 : (s.pc x).isExec with
      | false => rfl
      | true => exact absurd (covers_of_exec (.buf 0) he2) (hno x _ hx)
    · intro v hv; rw [he]; show s1.buf v = []; rw [f.buf]; exact hbuf v hv

/-- **C15 (3, proved part)** a packet starts only by being removed from the container that held it:
after `pollBucket` the bucket no longer offers that occurrence of the packet (one occurrence is
erased), and the worker is the one running it. -/
theorem start_removes {c : Cfg} {s s' : State} {w b : Nat} {p : Pkt} (hs : step c s (.pollBucket w b p) = some s') :
    p ∈ (s.bkt b).q ∧ (s.bkt b).isOpen = true ∧ (s.bkt b).enabled = true ∧
    (s'.bkt b).q = (s.bkt b).q.erase p ∧ s'.pc w = .exec p ∧ s'.started = s.started + 1 := by
  simp only [step] at hs
  split at hs
  · split at hs
    · rename_i hg; injection hs with hs; subst hs
      exact ⟨hg.2.2.2.2, hg.2.2.2.1, hg.2.2.1, by simp [setPc, setBkt, removeP], by simp [setPc], rfl⟩
    · cases hs
  · cases hs

/-- a stop-the-world packet is polled only from an *open* bucket, and the bucket of a polled packet
is the one the poll names: together with `open_only_when_quiescent` this is the stage order -/
theorem exactly_once_partial {c : Cfg} (hwf : c.WF) {s s' : State} {a : Act} (hs : step c s a = some s')
    (hg : s'.gcDone ≠ s.gcDone) (b : Nat) (hb : b < c.L) (hstw : (c.info b).isStw = true) :
    (s'.bkt b).q = [] ∧ (s'.bkt b).isOpen = false :=
  let ⟨_, _, _, h⟩ := all_closed_at_end hwf hs hg
  ⟨(h b hb hstw).2, (h b hb hstw).1⟩

/-- **C15 (3) packet conservation** (counting form), every reachable state: every packet ever created
is queued (in a bucket, a sentinel slot, a local deque or a designated queue) or has started; every
started packet is running on exactly one worker or has ended. -/
theorem packet_conservation {c : Cfg} (hu : c.unconIdx < c.L) {s : State} (h : Reachable c s) :
    s.added = queued c s + s.started ∧ s.started = running c s + s.ended :=
  let k := reachable_invK hu h
  ⟨k.added_eq, k.started_eq⟩

/-- **C15 (3) at the end of a GC**: nothing is running, every local deque and designated queue is
empty, every started packet has ended, and every packet created so far has either ended or sits in a
bucket queue / sentinel slot — and those of the stop-the-world buckets are empty
(`all_closed_at_end`): every packet added to a stop-the-world stage, a local deque or a designated
queue during the GC was executed, once, in that GC. -/
theorem gc_end_accounting {c : Cfg} (hwf : c.WF) (hu : c.unconIdx < c.L) (hmut : c.mutAddOpen = false)
    {s s' : State} {a : Act} (hr : Reachable c s) (hs : step c s a = some s') (hg : s'.gcDone ≠ s.gcDone) :
    running c s' = 0 ∧ s'.started = s'.ended ∧ qBuf c s' = 0 ∧ qDes c s' = 0 ∧ s'.added = qBkt c s' + s'.ended ∧
    ∀ b, b < c.L → (c.info b).isStw = true → (s'.bkt b).q = [] := by
  have hr' : Reachable c s' := by
    obtain ⟨run, h⟩ := hr
    refine ⟨run ++ [a], ?_⟩
    have : ∀ (l : List Act) (t : State), exec c t l = some s → exec c t (l ++ [a]) = some s' := by
      intro l
      induction l with
      | nil => intro t e; simp only [exec] at e; injection e with e; subst e; simp [exec, hs]
      | cons b l ih =>
        intro t e
        simp only [exec, List.cons_append] at e ⊢
        cases ht : step c t b with
        | none => rw [ht] at e; cases e
        | some t1 => rw [ht] at e; exact ih t1 e
    exact this run _ h
  obtain ⟨k1, k2⟩ := packet_conservation hu hr'
  obtain ⟨⟨w, tag, rfl⟩, _, _, hclosed⟩ := all_closed_at_end hwf hs hg
  obtain ⟨q1, q2⟩ := quiescent_at_end hwf hmut hr hs hg
  have hex := step_park_isExec hs
  have r0 : running c s' = 0 := countW_zero _ _ (fun x hx => by rw [hex x]; exact q1 x hx)
  have b0 : qBuf c s' = 0 := sumW_zero _ _ (fun v hv => by rw [q2 v hv]; rfl)
  have d0 : qDes c s' = 0 := by
    obtain ⟨_, _, _, hcase⟩ := step_park_cases hs
    rcases hcase with ⟨_, rfl⟩ | ⟨_, s1, r, hl, he⟩
    · exact absurd rfl hg
    · have hnd := onLastParked_gcDone_nodesig c _ s1 tag r hl (by intro e; apply hg; rw [he]; exact e)
      have f := frame_onLastParked c _ _ _ _ hl
      apply sumW_zero; intro v hv
      rw [he]; show (s1.desig v).length = 0; rw [f.desig]
      have := hasDesignated_false hnd v hv
      show (s.desig v).length = 0
      rw [this]; rfl
  unfold queued at k1
  refine ⟨r0, by omega, b0, d0, by omega, fun b hb hstw => (hclosed b hb hstw).2⟩

open Mmtk.Generated.Stages in
example : (cfg 4).WF := generated_wf 4 (by decide) false

end Mmtk.Sched
