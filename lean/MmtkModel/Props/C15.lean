import MmtkModel.Lemmas.Sched
import MmtkModel.Lemmas.SchedCount
import MmtkModel.Lemmas.SchedIds
import MmtkModel.Generated.Stages
/-!
# C15 — Stop-the-world stages open in order; each packet runs exactly once

Model: `Model/Sched.lean`.  Statements are about **every transition from every reachable state**
(all interleavings, all `n ≥ 1`) and every well-formed stage table (`Cfg.WF`; the table regenerated
from the linked crate is well-formed: `generated_wf`).

* `open_only_when_quiescent` — a sequentially opened bucket (every stop-the-world bucket but the
  first) changes from closed to open only in a `park` transition of the last parked worker, i.e. while
  every other worker is parked, a Gc goal is current, and every enabled bucket of its open condition
  (`FIRST_STW_STAGE` and all earlier sequentially opened stages) is **empty**.
* `first_stw_opened_by_packet` — the only other way a bucket opens: `notify_mutators_paused` opens
  the first stop-the-world bucket, from a running packet, after `stop_all_mutators`.
* `all_closed_at_end` — the transition that completes a GC (`gcDone` increases) is a `park`
  transition and leaves **every stop-the-world bucket closed and empty**; no worker is then running a
  packet or holding one in its local deque (`quiescent_at_end`).
* `exactly_once_partial` — the proved part of "every packet added during a GC is executed exactly
  once, in that GC": a packet can start only by being removed from the container that held it
  (`start_removes`), and at the end of a GC nothing is left in any stop-the-world bucket, local deque or
  running state (`all_closed_at_end`, `quiescent_at_end`), so a packet pushed into a stop-the-world
  bucket during the GC has been taken out during it.  The exemptions are part of the statement:
  packets pushed by mutators into *closed* buckets between GCs run in the next GC; packets in the
  `Concurrent` bucket run after the pause.
* `packet_conservation`, `gc_end_accounting` — the counting form of conservation for every reachable
  state: `added = queued + started`, `started = running + ended`; at the end of a GC nothing runs, all
  local deques and designated queues are empty, `started = ended`, and `added = (bucket queues +
  sentinel slots) + ended` with every stop-the-world queue empty.
  Not proved: uniqueness of packet ids (that the *same* packet is not both queued and ended); the
  event-log monitor and the Python oracle check it on every replayed GC instead.
-/
namespace Mmtk.Sched

theorem getD_all {α : Type} (l : List α) (d : α) (P : α → Prop) (h1 : ∀ x, x ∈ l → P x) (h2 : P d) (b : Nat) :
    P (l.getD b d) := by
  rw [List.getD_eq_getElem?_getD]
  cases h : l[b]? with
  | none => exact h2
  | some x => exact h1 x (List.mem_of_getElem? h)

open Mmtk.Generated.Stages in
/-- the regenerated stage table is well-formed, for every worker count `n ≥ 1` -/
theorem generated_wf (n : Nat) (hn : 0 < n) (m : Bool) : (cfg n m).WF := by
  refine ⟨hn, ?_, ?_, ?_, ?_⟩
  · show (stages.getD concIdx default).isStw = false; decide
  · show (stages.getD unconIdx default).isStw = false; decide
  · intro b
    show (stages.getD b default).isSeq = ((stages.getD b default).isStw && !(stages.getD b default).isFirstStw)
    exact getD_all stages default (fun x => x.isSeq = (x.isStw && !x.isFirstStw)) (by decide) (by decide) b
  · intro b
    show (stages.getD b default).isFirstStw = true → (stages.getD b default).isStw = true
    exact getD_all stages default (fun x => x.isFirstStw = true → x.isStw = true) (by decide) (by decide) b

/-- **C15 (1)** a stop-the-world bucket other than the first is opened only while all workers are
parked and all earlier enabled buckets are empty. -/
theorem open_only_when_quiescent {c : Cfg} (hwf : c.WF) {s s' : State} {a : Act} (hr : Reachable c s)
    (hs : step c s a = some s') (b : Nat) (hb : (c.info b).isSeq = true)
    (h1 : (s.bkt b).isOpen = false) (h2 : (s'.bkt b).isOpen = true) :
    ∃ w tag, a = .park w tag ∧ w < c.n ∧ s.pc w = .parking ∧
      (∀ x, x < c.n → x ≠ w → (s.pc x).isParked = true) ∧
      s.current = some .gc ∧
      ∀ b', b' ∈ curStages c b → (s.bkt b').enabled = true → (s.bkt b').q = [] := by
  have hA := reachable_invA hr
  rcases step_other c s s' a hs with ⟨w, tag, rfl⟩ | ⟨_, _, ho⟩
  · obtain ⟨hw, hpc, _, hcase⟩ := step_park_cases hs
    refine ⟨w, tag, rfl, hw, hpc, ?_⟩
    rcases hcase with ⟨_, rfl⟩ | ⟨hlast, s1, r, hl, he⟩
    · simp only [setPc] at h2; rw [h1] at h2; cases h2
    · have h2' : (s1.bkt b).isOpen = true := by rw [he] at h2; exact h2
      obtain ⟨hcur, hem⟩ := onLastParked_opens c hwf _ s1 tag r hl b hb h1 h2'
      refine ⟨?_, hcur, hem⟩
      apply countW_all_but c.n (fun x => (s.pc x).isParked) w hw (by simp [hpc, PC.isParked])
      have := hA.parked_eq; unfold parkedCount at this; omega
  · rcases ho b h2 with h | h
    · rw [h1] at h; cases h
    · rw [hwf.seq_def, h] at hb; simp at hb

/-- **C15 (1b)** the first stop-the-world bucket is opened by a running packet after
`stop_all_mutators` (`notify_mutators_paused`), or re-opened never: any other closed→open transition
of a non-sequential bucket is the `Concurrent` bucket in `schedule_concurrent_packets`. -/
theorem first_stw_opened_by_packet {c : Cfg} {s s' : State} {w b : Nat} (hs : step c s (.openFirst w b) = some s') :
    (s.pc w).isExec = true ∧ s.stopped = true ∧ (c.info b).isFirstStw = true ∧ (s.bkt b).isOpen = false := by
  simp only [step] at hs
  split at hs
  · rename_i hg; exact ⟨hg.2.1, hg.2.2.2.2.1, hg.2.2.2.1, by simpa using hg.2.2.2.2.2⟩
  · cases hs

/-- **C15 (2)** at the end of a GC all stop-the-world buckets are empty and closed. -/
theorem all_closed_at_end {c : Cfg} (hwf : c.WF) {s s' : State} {a : Act} (hs : step c s a = some s')
    (hg : s'.gcDone ≠ s.gcDone) :
    (∃ w tag, a = .park w tag) ∧ s'.gcDone = s.gcDone + 1 ∧ s.current = some .gc ∧
    ∀ b, b < c.L → (c.info b).isStw = true → (s'.bkt b).isOpen = false ∧ (s'.bkt b).q = [] := by
  rcases step_other c s s' a hs with ⟨w, tag, rfl⟩ | ⟨h, _, _⟩
  · refine ⟨⟨w, tag, rfl⟩, ?_⟩
    obtain ⟨_, _, _, hcase⟩ := step_park_cases hs
    rcases hcase with ⟨_, rfl⟩ | ⟨_, s1, r, hl, he⟩
    · exact absurd rfl hg
    · rcases onLastParked_gc_end c hwf _ s1 tag r hl with h | ⟨h1, h2, h3⟩
      · exfalso; apply hg; rw [he]; exact h
      · exact ⟨by rw [he]; exact h1, h2, fun b hb hstw => by rw [he]; exact h3 b hb hstw⟩
  · exact absurd h hg

/-- at the end of a GC no worker runs a packet and every local deque is empty (the last parked worker
is the only one not parked, and it is in `park_and_wait`) -/
theorem quiescent_at_end {c : Cfg} (hwf : c.WF) (hmut : c.mutAddOpen = false) {s s' : State} {a : Act}
    (hr : Reachable c s) (hs : step c s a = some s') (hg : s'.gcDone ≠ s.gcDone) :
    (∀ x, x < c.n → (s.pc x).isExec = false) ∧ (∀ v, v < c.n → s'.buf v = []) := by
  have inv := reachable_inv hwf.npos hmut hr
  obtain ⟨⟨w, tag, rfl⟩, _, _, _⟩ := all_closed_at_end hwf hs hg
  obtain ⟨hw, hpc, _, hcase⟩ := step_park_cases hs
  rcases hcase with ⟨_, rfl⟩ | ⟨hlast, s1, r, hl, he⟩
  · exact absurd rfl hg
  · have hno := no_cover_when_last inv.a hw hpc hlast
    obtain ⟨_, hbuf⟩ := noRun_of_invC inv.c' hno
    have f := frame_onLastParked c _ _ _ _ hl
    constructor
    · intro x hx
      cases he2 : (s.pc x).isExec with
      | false => rfl
      | true => exact absurd (covers_of_exec (.buf 0) he2) (hno x _ hx)
    · intro v hv; rw [he]; show s1.buf v = []; rw [f.buf]; exact hbuf v hv

/-- **C15 (3, proved part)** a packet starts only by being removed from the container that held it:
after `pollBucket` the bucket no longer offers that occurrence of the packet (one occurrence is
erased), and the worker is the one running it. -/
theorem start_removes {c : Cfg} {s s' : State} {w b : Nat} {p : Pkt} (hs : step c s (.pollBucket w b p) = some s') :
    p ∈ (s.bkt b).q ∧ (s.bkt b).isOpen = true ∧ (s.bkt b).enabled = true ∧
    (s'.bkt b).q = (s.bkt b).q.erase p ∧ s'.pc w = .exec p ∧ s'.started = s.started + 1 := by
  simp only [step] at hs
  split at hs
  · split at hs
    · rename_i hg; injection hs with hs; subst hs
      exact ⟨hg.2.2.2.2, hg.2.2.2.1, hg.2.2.1, by simp [setPc, setBkt, removeP], by simp [setPc], rfl⟩
    · cases hs
  · cases hs

/-- a stop-the-world packet is polled only from an *open* bucket, and the bucket of a polled packet
is the one the poll names: together with `open_only_when_quiescent` this is the stage order -/
theorem exactly_once_partial {c : Cfg} (hwf : c.WF) {s s' : State} {a : Act} (hs : step c s a = some s')
    (hg : s'.gcDone ≠ s.gcDone) (b : Nat) (hb : b < c.L) (hstw : (c.info b).isStw = true) :
    (s'.bkt b).q = [] ∧ (s'.bkt b).isOpen = false :=
  let ⟨_, _, _, h⟩ := all_closed_at_end hwf hs hg
  ⟨(h b hb hstw).2, (h b hb hstw).1⟩

/-- **C15 (3) packet conservation** (counting form), every reachable state: every packet ever created
is queued (in a bucket, a sentinel slot, a local deque or a designated queue) or has started; every
started packet is running on exactly one worker or has ended. -/
theorem packet_conservation {c : Cfg} (hu : c.unconIdx < c.L) {s : State} (h : Reachable c s) :
    s.added = queued c s + s.started ∧ s.started = running c s + s.ended :=
  let k := reachable_invK hu h
  ⟨k.added_eq, k.started_eq⟩

/-- `Reachable` is closed under `step` -/
theorem reachable_step {c : Cfg} {s s' : State} {a : Act} (hr : Reachable c s) (hs : step c s a = some s') :
    Reachable c s' := by
  obtain ⟨run, h⟩ := hr
  refine ⟨run ++ [a], ?_⟩
  have : ∀ (l : List Act) (t : State), exec c t l = some s → exec c t (l ++ [a]) = some s' := by
    intro l
    induction l with
    | nil => intro t e; simp only [exec] at e; injection e with e; subst e; simp [exec, hs]
    | cons b l ih =>
      intro t e
      simp only [exec, List.cons_append] at e ⊢
      cases ht : step c t b with
      | none => rw [ht] at e; cases e
      | some t1 => rw [ht] at e; exact ih t1 e
  exact this run _ h

/-- **C15 (3) at the end of a GC**: nothing is running, every local deque and designated queue is
empty, every started packet has ended, and every packet created so far has either ended or sits in a
bucket queue / sentinel slot — and those of the stop-the-world buckets are empty
(`all_closed_at_end`): every packet added to a stop-the-world stage, a local deque or a designated
queue during the GC was executed, once, in that GC. -/
theorem gc_end_accounting {c : Cfg} (hwf : c.WF) (hu : c.unconIdx < c.L) (hmut : c.mutAddOpen = false)
    {s s' : State} {a : Act} (hr : Reachable c s) (hs : step c s a = some s') (hg : s'.gcDone ≠ s.gcDone) :
    running c s' = 0 ∧ s'.started = s'.ended ∧ qBuf c s' = 0 ∧ qDes c s' = 0 ∧ s'.added = qBkt c s' + s'.ended ∧
    ∀ b, b < c.L → (c.info b).isStw = true → (s'.bkt b).q = [] := by
  have hr' : Reachable c s' := reachable_step hr hs
  obtain ⟨k1, k2⟩ := packet_conservation hu hr'
  obtain ⟨⟨w, tag, rfl⟩, _, _, hclosed⟩ := all_closed_at_end hwf hs hg
  obtain ⟨q1, q2⟩ := quiescent_at_end hwf hmut hr hs hg
  have hex := step_park_isExec hs
  have r0 : running c s' = 0 := countW_zero _ _ (fun x hx => by rw [hex x]; exact q1 x hx)
  have b0 : qBuf c s' = 0 := sumW_zero _ _ (fun v hv => by rw [q2 v hv]; rfl)
  have d0 : qDes c s' = 0 := by
    obtain ⟨_, _, _, hcase⟩ := step_park_cases hs
    rcases hcase with ⟨_, rfl⟩ | ⟨_, s1, r, hl, he⟩
    · exact absurd rfl hg
    · have hnd := onLastParked_gcDone_nodesig c _ s1 tag r hl (by intro e; apply hg; rw [he]; exact e)
      have f := frame_onLastParked c _ _ _ _ hl
      apply sumW_zero; intro v hv
      rw [he]; show (s1.desig v).length = 0; rw [f.desig]
      have := hasDesignated_false hnd v hv
      show (s.desig v).length = 0
      rw [this]; rfl
  unfold queued at k1
  refine ⟨r0, by omega, b0, d0, by omega, fun b hb hstw => (hclosed b hb hstw).2⟩

open Mmtk.Generated.Stages in
example : (cfg 4).WF := generated_wf 4 (by decide) false

/-! ## uniqueness of packet ids: every packet is queued, running or ended — exactly one of them, once

Ids are generated by the model (`newPkt` takes the ghost counter `nextId`, `bump` increments it), so
freshness is derived, not assumed: `reachable_invU` (`Lemmas/SchedIds.lean`). -/

/-- `Reachable` is closed under `exec` -/
theorem reachable_exec {c : Cfg} (run : List Act) : ∀ {s s' : State}, Reachable c s → exec c s run = some s' →
    Reachable c s' := by
  induction run with
  | nil => intro s s' hr e; simp only [exec] at e; injection e with e; subst e; exact hr
  | cons a l ih =>
    intro s s' hr e
    simp only [exec] at e
    cases ht : step c s a with
    | none => rw [ht] at e; cases e
    | some t => rw [ht] at e; exact ih (reachable_step hr ht) e

/-- **C15 (3) ids partition**: in every reachable state the ids of the queued packets (bucket queues,
sentinel slots, local deques, designated queues), of the running packets and of the ended packets are,
together, a permutation of `0, …, nextId − 1` — every id ever created is in exactly one place, once —
and `added` counts them. -/
theorem ids_partition {c : Cfg} (hu : c.unconIdx < c.L) {s : State} (h : Reachable c s) :
    (allIds c s).Perm (List.range s.nextId) ∧ s.added = s.nextId := by
  have k := reachable_invU hu h
  refine ⟨List.perm_iff_count.mpr (fun i => ?_), k.1⟩
  rw [count_allIds, k.2 i, List.count_range]

/-- no id occurs twice among queued ++ running ++ ended -/
theorem ids_nodup {c : Cfg} (hu : c.unconIdx < c.L) {s : State} (h : Reachable c s) : (allIds c s).Nodup :=
  (ids_partition hu h).1.nodup_iff.mpr List.nodup_range

/-- no id is twice in one class (in particular no packet ends twice: `s.endedIds.Nodup`), and no id is
in two of the classes queued / running / ended -/
theorem ids_classes_disjoint {c : Cfg} (hu : c.unconIdx < c.L) {s : State} (h : Reachable c s) :
    (queuedIds c s).Nodup ∧ (runningIds c s).Nodup ∧ s.endedIds.Nodup ∧
    (∀ i, i ∈ queuedIds c s → i ∉ runningIds c s) ∧ (∀ i, i ∈ queuedIds c s → i ∉ s.endedIds) ∧
    (∀ i, i ∈ runningIds c s → i ∉ s.endedIds) := by
  have nd := ids_nodup hu h
  unfold allIds at nd
  rw [List.nodup_append] at nd
  obtain ⟨nqr, ne, d1⟩ := nd
  rw [List.nodup_append] at nqr
  obtain ⟨nq, nr, d2⟩ := nqr
  exact ⟨nq, nr, ne, fun i hq hr => d2 i hq i hr rfl, fun i hq he => d1 i (List.mem_append_left _ hq) i he rfl,
    fun i hr he => d1 i (List.mem_append_right _ hr) i he rfl⟩

/-- every created id is somewhere, nothing else is -/
theorem ids_complete {c : Cfg} (hu : c.unconIdx < c.L) {s : State} (h : Reachable c s) :
    ∀ i, i < s.nextId ↔ i ∈ allIds c s := fun i => by
  rw [(ids_partition hu h).1.mem_iff, List.mem_range]

/-- `endedIds` only grows (it changes only in `execEnd`, by consing: `step_endedIds`) -/
theorem ended_stable {c : Cfg} {s s' : State} {a : Act} (hs : step c s a = some s') :
    ∀ i, i ∈ s.endedIds → i ∈ s'.endedIds := by
  intro i hi
  rcases step_endedIds c s s' a hs with e | ⟨w, p, _, _, e⟩
  · rw [e]; exact hi
  · rw [e]; exact List.mem_cons_of_mem _ hi

theorem ended_stable_exec {c : Cfg} (run : List Act) : ∀ {s s' : State}, exec c s run = some s' →
    ∀ i, i ∈ s.endedIds → i ∈ s'.endedIds := by
  induction run with
  | nil => intro s s' e i hi; simp only [exec] at e; injection e with e; subst e; exact hi
  | cons a l ih =>
    intro s s' e i hi
    simp only [exec] at e
    cases ht : step c s a with
    | none => rw [ht] at e; cases e
    | some t => rw [ht] at e; exact ih e i (ended_stable ht i hi)

/-- an ended packet is never queued or run again (one step) -/
theorem runs_at_most_once {c : Cfg} (hu : c.unconIdx < c.L) {s s' : State} {a : Act} (hr : Reachable c s)
    (hs : step c s a = some s') (i : Nat) (hi : i ∈ s.endedIds) :
    s'.endedIds.count i = 1 ∧ i ∉ queuedIds c s' ∧ i ∉ runningIds c s' := by
  have hr' := reachable_step hr hs
  have hi' := ended_stable hs i hi
  obtain ⟨_, _, ne, _, d2, d3⟩ := ids_classes_disjoint hu hr'
  exact ⟨by rw [ne.count, if_pos hi'], fun hq => d2 i hq hi', fun hr => d3 i hr hi'⟩

/-- an ended packet is never queued or run again (any number of steps) -/
theorem never_runs_again {c : Cfg} (hu : c.unconIdx < c.L) {s s' : State} {run : List Act} (hr : Reachable c s)
    (he : exec c s run = some s') (i : Nat) (hi : i ∈ s.endedIds) :
    s'.endedIds.count i = 1 ∧ i ∉ queuedIds c s' ∧ i ∉ runningIds c s' := by
  have hr' := reachable_exec run hr he
  have hi' := ended_stable_exec run he i hi
  obtain ⟨_, _, ne, _, d2, d3⟩ := ids_classes_disjoint hu hr'
  exact ⟨by rw [ne.count, if_pos hi'], fun hq => d2 i hq hi', fun hr => d3 i hr hi'⟩

/-- a GC is completed only when every designated queue is empty -/
theorem desig_empty_at_end {c : Cfg} (hwf : c.WF) {s s' : State} {a : Act} (hs : step c s a = some s')
    (hg : s'.gcDone ≠ s.gcDone) : ∀ v, v < c.n → s'.desig v = [] := by
  obtain ⟨⟨w, tag, rfl⟩, _, _, _⟩ := all_closed_at_end hwf hs hg
  obtain ⟨_, _, _, hcase⟩ := step_park_cases hs
  rcases hcase with ⟨_, rfl⟩ | ⟨_, s1, r, hl, he⟩
  · exact absurd rfl hg
  · have hnd := onLastParked_gcDone_nodesig c _ s1 tag r hl (by intro e; apply hg; rw [he]; exact e)
    have f := frame_onLastParked c _ _ _ _ hl
    intro v hv
    rw [he]; show s1.desig v = []; rw [f.desig]
    exact hasDesignated_false hnd v hv

/-- **C15 (3) exactly once.**  After the transition that completes a GC: the ids queued ++ running ++
ended are a permutation of all ids ever created; nothing runs; every local deque, designated queue and
stop-the-world bucket queue is empty; and every id ever created has **ended exactly once** and is not
queued — except those that still sit, exactly once, in exactly one bucket, and that bucket is not
stop-the-world (Unconstrained / Concurrent: mutator pushes between GCs, concurrent work) unless the
packet is in the bucket's sentinel slot. -/
theorem exactly_once {c : Cfg} (hwf : c.WF) (hu : c.unconIdx < c.L) (hmut : c.mutAddOpen = false)
    {s s' : State} {a : Act} (hr : Reachable c s) (hs : step c s a = some s') (hg : s'.gcDone ≠ s.gcDone) :
    (allIds c s').Perm (List.range s'.nextId) ∧ runningIds c s' = [] ∧
    (∀ w, w < c.n → s'.buf w = [] ∧ s'.desig w = []) ∧
    (∀ b, b < c.L → (c.info b).isStw = true → (s'.bkt b).q = []) ∧
    ∀ i, i < s'.nextId →
      (s'.endedIds.count i = 1 ∧ i ∉ queuedIds c s') ∨
      (i ∉ s'.endedIds ∧ ∃ b, b < c.L ∧ (bktIds (s'.bkt b)).count i = 1 ∧
        (∀ b', b' < c.L → b' ≠ b → i ∉ bktIds (s'.bkt b')) ∧
        ((c.info b).isStw = true → ∃ p, (s'.bkt b).sentinel = some p ∧ p.id = i)) := by
  have hr' := reachable_step hr hs
  have k := reachable_invU hu hr'
  have q3 := desig_empty_at_end hwf hs hg
  obtain ⟨q1, q2⟩ := quiescent_at_end hwf hmut hr hs hg
  obtain ⟨⟨w, tag, rfl⟩, _, _, hclosed⟩ := all_closed_at_end hwf hs hg
  have hpcs := step_park_pcIds hs
  have hpc0 : ∀ x, x < c.n → pcIds (s'.pc x) = [] := fun x hx => by
    rw [hpcs x]; exact pcIds_of_not_exec (q1 x hx)
  have hrun : runningIds c s' = [] := by
    unfold runningIds; rw [List.flatMap_eq_nil_iff]; intro x hx; exact hpc0 x (List.mem_range.mp hx)
  refine ⟨(ids_partition hu hr').1, hrun, fun w hw => ⟨q2 w hw, q3 w hw⟩,
    fun b hb hstw => (hclosed b hb hstw).2, fun i hi => ?_⟩
  have ho := k.2 i
  rw [if_pos hi] at ho
  unfold occ at ho
  have r0 : runI i c s' = 0 := sumW_zero _ _ (fun x hx => by rw [hpc0 x hx]; rfl)
  have b0 : qBufI i c s' = 0 := sumW_zero _ _ (fun v hv => by rw [q2 v hv]; rfl)
  have d0 : qDesI i c s' = 0 := sumW_zero _ _ (fun v hv => by rw [q3 v hv]; rfl)
  by_cases he : s'.endedIds.count i = 0
  · right
    have hb1 : qBktI i c s' = 1 := by omega
    obtain ⟨b, hb, hb1', hbo⟩ := sumW_eq_one c.L (fun b => bktCntI i (s'.bkt b)) hb1
    refine ⟨List.count_eq_zero.mp he, b, hb, hb1', fun b' hb' hne => List.count_eq_zero.mp (hbo b' hb' hne),
      fun hstw => ?_⟩
    have hq := (hclosed b hb hstw).2
    simp only [bktCntI, bktIds, hq, List.map_nil, List.nil_append] at hb1'
    cases hsn : (s'.bkt b).sentinel with
    | none => rw [hsn] at hb1'; simp at hb1'
    | some p =>
      rw [hsn] at hb1'
      refine ⟨p, rfl, ?_⟩
      by_cases e : p.id = i
      · exact e
      · simp [e] at hb1'
  · left
    have hb0 : qBktI i c s' = 0 := by omega
    refine ⟨by omega, ?_⟩
    rw [← List.count_eq_zero, count_queuedIds]; omega

/-! ### the hypotheses are satisfiable, the statements are not vacuous -/

open Mmtk.Generated.Stages in
example : (cfg 4).unconIdx < (cfg 4).L := by decide

open Mmtk.Generated.Stages in
/-- 2 workers; a GC is requested, worker 0 (last parked) starts the Gc goal (creates packet 0,
`ScheduleCollection`), polls and runs it, pushes packet 1 into `Prepare`, and ends -/
def idsDemoRun : List Act :=
  (allConts (cfg 2)).map (Act.observeEmpty 1) ++ [.pollMiss 1, .park 1 0, .requestFlag, .makeRequest .gc (some 1)] ++
  (allConts (cfg 2)).map (Act.observeEmpty 0) ++ [.pollMiss 0, .wake 1] ++
  (allConts (cfg 2)).map (Act.observeEmpty 1) ++ [.pollMiss 1, .park 1 0, .park 0 7,
    .pollBucket 0 0 ⟨0, 0, 7⟩, .push 0 2 9]

open Mmtk.Generated.Stages in
/-- packet 1 is queued, packet 0 is running, nothing has ended; after `execEnd` packet 0 has ended -/
example : (exec (cfg 2) (init (cfg 2)) idsDemoRun).map
    (fun s => (queuedIds (cfg 2) s, runningIds (cfg 2) s, s.endedIds, allIds (cfg 2) s, s.nextId)) =
    some ([1], [0], [], [1, 0], 2) := by decide +kernel

open Mmtk.Generated.Stages in
example : (exec (cfg 2) (init (cfg 2)) (idsDemoRun ++ [.execEnd 0])).map
    (fun s => (queuedIds (cfg 2) s, runningIds (cfg 2) s, s.endedIds, allIds (cfg 2) s, s.nextId)) =
    some ([1], [], [0], [1, 0], 2) := by decide +kernel

open Mmtk.Generated.Stages in
/-- 1 worker; a whole GC: `ScheduleCollection` (id 0) leaves packet 1 in the Concurrent bucket and ends;
the next `park` of the (last parked) worker completes the GC -/
def gcEndRun : List Act :=
  [.requestFlag, .makeRequest .gc none] ++
  (allConts (cfg 1)).map (Act.observeEmpty 0) ++ [.pollMiss 0, .park 0 7, .pollBucket 0 0 ⟨0, 0, 7⟩,
    .push 0 1 8, .execEnd 0] ++
  (allConts (cfg 1)).map (Act.observeEmpty 0) ++ [.pollMiss 0]

open Mmtk.Generated.Stages in
/-- the hypotheses of `exactly_once` hold for the last step of this run (`gcDone` goes from 0 to 1), and
both disjuncts of its conclusion occur: id 0 has ended once, id 1 sits once in the (non-stop-the-world)
Concurrent bucket -/
example : (exec (cfg 1) (init (cfg 1)) gcEndRun).map (fun s => s.gcDone) = some 0 ∧
    (exec (cfg 1) (init (cfg 1)) (gcEndRun ++ [.park 0 0])).map
      (fun s' => (s'.gcDone, s'.endedIds, queuedIds (cfg 1) s', runningIds (cfg 1) s', s'.nextId)) =
    some (1, [0], [1], [], 2) ∧
    (exec (cfg 1) (init (cfg 1)) (gcEndRun ++ [.park 0 0])).map
      (fun s' => (bktIds (s'.bkt 1), ((cfg 1).info 1).isStw)) = some ([1], false) := by decide +kernel

end Mmtk.Sched
