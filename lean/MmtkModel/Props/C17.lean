import MmtkModel.Model.Fwd
import MmtkModel.Model.FwdTie
import Mathlib.Tactic.SplitIfs
/-!
# C17 — Concurrent forwarding copies an object once and all tracers agree

For **any number of threads** and **every interleaving** of the atomic steps of the forwarding
protocol (CopySpace and Immix variants, one-store and two-store layouts), in every reachable state:
at most one thread is between a successful CAS and its final store/clear; at most one copy is ever
made; all finished tracers returned the same value (the unique copy, or the unmoved object if no copy
was made); a thread only reads the forwarding pointer after the winner wrote it; the object is pushed
to the scan queue at most once, and exactly once when the protocol has quiesced.
-/
namespace Mmtk.Fwd

def inCrit : PC → Bool
  | .won | .decide | .copied _ | .ptrWritten _ | .markPending | .clearAfterMark | .clearSeenMarked => true
  | _ => false

/-- Facts about the shared memory alone. -/
structure G (immix m0 : Bool) (sh : Shared) : Prop where
  bits_vals : sh.bits = 0 ∨ sh.bits = 2 ∨ sh.bits = 3
  copies_le : sh.copies = [] ∨ ∃ c, sh.copies = [c]
  forwarded : sh.bits = 3 → ∃ c, sh.copies = [c] ∧ sh.ptr = c ∧ sh.queue = [c]
  idle_nocopy : sh.bits = 0 → sh.copies = []
  marked_nocopy : sh.marked = true → sh.copies = []
  marked_mono : m0 = true → sh.marked = true
  copyspace_unmarked : immix = false → sh.marked = false
  queue_cases : (sh.queue = [] ∧ sh.bits ≠ 3) ∨ (∃ c, sh.queue = [c] ∧ sh.copies = [c] ∧ sh.bits = 3) ∨
    (sh.queue = [orig] ∧ sh.marked = true ∧ m0 = false ∧ sh.copies = [])
  mark_window : sh.marked = true → m0 = false → sh.queue = [] → sh.bits = 2
  released : sh.triggered = true → sh.bits = 0 → sh.marked = true ∧ immix = true
  untriggered : sh.triggered = false → sh.bits = 0

/-- What a thread at program point `p` knows about the shared memory. -/
def L (immix m0 : Bool) (sh : Shared) : PC → Prop
  | .start | .cas => True
  | .spin => sh.triggered = true
  | .readPtr => sh.bits = 3
  | .won => sh.bits = 2 ∧ sh.copies = [] ∧ (sh.marked = true → m0 = true ∨ sh.queue ≠ [])
  | .decide => sh.bits = 2 ∧ sh.copies = [] ∧ sh.marked = false ∧ immix = true
  | .copied c => sh.bits = 2 ∧ sh.copies = [c] ∧ sh.marked = false
  | .ptrWritten c => sh.bits = 2 ∧ sh.copies = [c] ∧ sh.marked = false ∧ sh.ptr = c
  | .markPending => sh.bits = 2 ∧ sh.copies = [] ∧ sh.marked = false ∧ immix = true ∧ m0 = false ∧ sh.queue = []
  | .clearAfterMark => sh.bits = 2 ∧ sh.copies = [] ∧ sh.marked = true ∧ immix = true ∧ m0 = false ∧ sh.queue = []
  | .clearSeenMarked => sh.bits = 2 ∧ sh.copies = [] ∧ sh.marked = true ∧ immix = true ∧ (m0 = true ∨ sh.queue ≠ [])
  | .done r => (r = orig ∧ sh.marked = true ∧ immix = true) ∨ sh.copies = [r]

/-- The inductive invariant. -/
structure Inv (immix m0 : Bool) (s : State) : Prop where
  g : G immix m0 s.sh
  l : ∀ x, L immix m0 s.sh (s.pc x)
  unique : ∀ x y, inCrit (s.pc x) = true → inCrit (s.pc y) = true → x = y
  owner : s.sh.bits = 2 → ∃ x, inCrit (s.pc x) = true

theorem crit_bits {immix m0 : Bool} {sh : Shared} {p : PC} (h : L immix m0 sh p) (hc : inCrit p = true) :
    sh.bits = 2 := by
  cases p <;> simp_all [inCrit, L]

/-! ### local obligations -/

theorem b3 {n : Nat} (h : n = 0 ∨ n = 2 ∨ n = 3) (h0 : ¬ n = 0) (h2 : ¬ n = 2) : n = 3 := by omega
theorem b0 {n : Nat} (h : n = 0 ∨ n = 2 ∨ n = 3) (h2 : ¬ n = 2) (h3 : ¬ n = 3) : n = 0 := by omega

theorem local_G (immix oneStep m0 : Bool) (t : Nat) (d : Bool) (sh : Shared) (p : PC)
    (hcs : immix = false → m0 = false)
    (hg : G immix m0 sh) (hl : L immix m0 sh p) :
    G immix m0 (localStep immix oneStep t d sh p).1 ∧ L immix m0 (localStep immix oneStep t d sh p).1
      (localStep immix oneStep t d sh p).2 := by
  have hg' := hg
  obtain ⟨g1, g2, g3, g4, g5, g6, g7, g8, g9, g10, g11⟩ := hg'
  cases p with
  | start =>
    by_cases h0 : sh.bits = 0
    · simp [localStep, NOT_TRIGGERED, h0]; exact ⟨hg, trivial⟩
    · by_cases h2 : sh.bits = 2
      · simp [localStep, NOT_TRIGGERED, BEING_FORWARDED, h2]
        refine ⟨hg, ?_⟩
        show sh.triggered = true
        cases ht : sh.triggered
        · have := g11 ht; omega
        · rfl
      · simp [localStep, NOT_TRIGGERED, BEING_FORWARDED, h0, h2]
        refine ⟨hg, ?_⟩
        exact b3 g1 h0 h2
  | cas =>
    by_cases h0 : sh.bits = 0
    · simp only [localStep, NOT_TRIGGERED, BEING_FORWARDED, h0, if_true]
      have hc := g4 h0
      refine ⟨⟨by simp, by simp [hc], by simp, by simp, by simpa using g5, g6, g7, ?_, by simp, by simp, by simp⟩, ?_⟩
      · rcases g8 with h | h | h
        · exact Or.inl ⟨h.1, by simp⟩
        · obtain ⟨c, -, -, hb3⟩ := h; omega
        · exact Or.inr (Or.inr h)
      · show (2 : Nat) = 2 ∧ sh.copies = [] ∧ (sh.marked = true → m0 = true ∨ sh.queue ≠ [])
        refine ⟨rfl, hc, ?_⟩
        intro hm
        cases hm0 : m0 with
        | true => exact Or.inl rfl
        | false =>
          right; intro hq
          have := g9 hm hm0 hq; omega
    · simp [localStep, NOT_TRIGGERED, h0]; exact ⟨hg, trivial⟩
  | spin =>
    have hl' : sh.triggered = true := hl
    by_cases h2 : sh.bits = 2
    · simp [localStep, BEING_FORWARDED, h2]; exact ⟨hg, hl'⟩
    · by_cases h3 : sh.bits = 3
      · simp [localStep, BEING_FORWARDED, FORWARDED, h3]; exact ⟨hg, h3⟩
      · simp [localStep, BEING_FORWARDED, FORWARDED, h2, h3]
        have h0 : sh.bits = 0 := b0 g1 h2 h3
        have := g10 hl' h0
        exact ⟨hg, Or.inl ⟨rfl, this.1, this.2⟩⟩
  | readPtr =>
    have hl' : sh.bits = 3 := hl
    obtain ⟨c, hc, hp, _⟩ := g3 hl'
    simp only [localStep]
    exact ⟨hg, Or.inr (by rw [hp]; exact hc)⟩
  | won =>
    obtain ⟨hb, hc, hw⟩ : sh.bits = 2 ∧ sh.copies = [] ∧ (sh.marked = true → m0 = true ∨ sh.queue ≠ []) := hl
    cases immix with
    | true =>
      cases hm : sh.marked with
      | true =>
        simp only [localStep, hm, if_true]
        exact ⟨hg, hb, hc, hm, rfl, hw hm⟩
      | false =>
        simp only [localStep, hm, if_true, Bool.false_eq_true, if_false]
        exact ⟨hg, hb, hc, hm, rfl⟩
    | false =>
      simp only [localStep, Bool.false_eq_true, if_false]
      have hm := g7 rfl
      have hm0 := hcs rfl
      refine ⟨⟨by simp [g1], by simp [hc], by simp; omega, by simp; omega, by simp [hm], by simp [hm0], by simp [hm], ?_,
        by simp [hm], by simp; omega, by simpa using g11⟩, ?_⟩
      · rcases g8 with h | h | h
        · exact Or.inl ⟨h.1, by simp; omega⟩
        · obtain ⟨c, -, -, hb3⟩ := h; omega
        · simp [hm] at h
      · exact ⟨hb, by simp [hc], hm⟩
  | decide =>
    obtain ⟨hb, hc, hm, hi⟩ : sh.bits = 2 ∧ sh.copies = [] ∧ sh.marked = false ∧ immix = true := hl
    cases d with
    | true =>
      simp only [localStep, if_true]
      refine ⟨hg, hb, hc, hm, hi, ?_, ?_⟩
      · cases hm0 : m0 with
        | false => rfl
        | true => have := g6 hm0; simp [hm] at this
      · rcases g8 with h | h | h
        · exact h.1
        · obtain ⟨c, -, -, hb3⟩ := h; omega
        · simp [hm] at h
    | false =>
      simp only [localStep, Bool.false_eq_true, if_false]
      refine ⟨⟨by simp [g1], by simp [hc], by simp; omega, by simp; omega, by simp [hm], by simpa [hm] using g6, by simpa using g7, ?_,
        by simp [hm], by simp; omega, by simpa using g11⟩, ?_⟩
      · rcases g8 with h | h | h
        · exact Or.inl ⟨h.1, by simp; omega⟩
        · obtain ⟨c, -, -, hb3⟩ := h; omega
        · simp [hm] at h
      · exact ⟨hb, by simp [hc], hm⟩
  | copied c =>
    obtain ⟨hb, hc, hm⟩ : sh.bits = 2 ∧ sh.copies = [c] ∧ sh.marked = false := hl
    have hq : sh.queue = [] := by
      rcases g8 with h | h | h
      · exact h.1
      · obtain ⟨c, -, -, hb3⟩ := h; omega
      · simp [hm] at h
    cases oneStep with
    | true =>
      simp only [localStep, if_true, FORWARDED]
      refine ⟨⟨by simp, by simp [hc], by simp [hc, hq], by simp, by simp [hm], by simpa [hm] using g6, by simpa using g7, ?_,
        by simp [hm], by simp, by intro ht; have := g11 ht; omega⟩, Or.inr hc⟩
      exact Or.inr (Or.inl ⟨c, by simp [hq], hc, rfl⟩)
    | false =>
      simp only [localStep, Bool.false_eq_true, if_false]
      refine ⟨⟨g1, g2, by simp; omega, g4, g5, g6, g7, g8, g9, g10, g11⟩, hb, hc, hm, rfl⟩
  | ptrWritten c =>
    obtain ⟨hb, hc, hm, hp⟩ : sh.bits = 2 ∧ sh.copies = [c] ∧ sh.marked = false ∧ sh.ptr = c := hl
    have hq : sh.queue = [] := by
      rcases g8 with h | h | h
      · exact h.1
      · obtain ⟨c, -, -, hb3⟩ := h; omega
      · simp [hm] at h
    simp only [localStep, FORWARDED]
    refine ⟨⟨by simp, by simp [hc], by simp [hc, hq, hp], by simp, by simp [hm], by simpa [hm] using g6, by simpa using g7, ?_,
      by simp [hm], by simp, by intro ht; have := g11 ht; omega⟩, Or.inr hc⟩
    exact Or.inr (Or.inl ⟨c, by simp [hq], hc, rfl⟩)
  | markPending =>
    obtain ⟨hb, hc, hm, hi, hm0, hq⟩ : sh.bits = 2 ∧ sh.copies = [] ∧ sh.marked = false ∧ immix = true ∧ m0 = false ∧ sh.queue = [] := hl
    simp only [localStep]
    refine ⟨⟨g1, g2, g3, g4, by simp [hc], by simp, by simp [hi], ?_, by simp [hb], by simp [hi], g11⟩, hb, hc, rfl, hi, hm0, hq⟩
    exact Or.inl ⟨hq, by show sh.bits ≠ 3; omega⟩
  | clearAfterMark =>
    obtain ⟨hb, hc, hm, hi, hm0, hq⟩ : sh.bits = 2 ∧ sh.copies = [] ∧ sh.marked = true ∧ immix = true ∧ m0 = false ∧ sh.queue = [] := hl
    simp only [localStep, NOT_TRIGGERED]
    refine ⟨⟨by simp, by simp [hc], by simp, by simp [hc], by simp [hc], by simp [hm], by simp [hi], ?_, by simp, by simp [hm, hi], by simp⟩,
      Or.inl ⟨rfl, hm, hi⟩⟩
    exact Or.inr (Or.inr ⟨by simp [hq], hm, hm0, hc⟩)
  | clearSeenMarked =>
    obtain ⟨hb, hc, hm, hi, hw⟩ : sh.bits = 2 ∧ sh.copies = [] ∧ sh.marked = true ∧ immix = true ∧ (m0 = true ∨ sh.queue ≠ []) := hl
    simp only [localStep, NOT_TRIGGERED]
    refine ⟨⟨by simp, by simp [hc], by simp, by simp [hc], by simp [hc], by simp [hm], by simp [hi], ?_, ?_, by simp [hm, hi], by simp⟩,
      Or.inl ⟨rfl, hm, hi⟩⟩
    · rcases g8 with h | h | h
      · exact Or.inl ⟨h.1, by simp⟩
      · obtain ⟨c, -, -, hb3⟩ := h; omega
      · exact Or.inr (Or.inr h)
    · intro _ hm0 hq
      rcases hw with h | h
      · simp [hm0] at h
      · exact absurd hq h
  | done r =>
    simp only [localStep]
    exact ⟨hg, hl⟩

set_option maxHeartbeats 2000000 in
/-- What another thread (at `q`) knows stays true when a thread at `p` takes a step, provided they
are not both inside the critical section. -/
theorem stable (immix oneStep m0 : Bool) (t : Nat) (d : Bool) (sh : Shared) (p q : PC)
    (hl : L immix m0 sh p) (hq : L immix m0 sh q)
    (hx : inCrit p = true → inCrit q = true → False) :
    L immix m0 (localStep immix oneStep t d sh p).1 q := by
  cases p <;> cases q <;>
    simp only [L, localStep, inCrit, NOT_TRIGGERED, BEING_FORWARDED, FORWARDED, orig] at hl hq hx ⊢ <;>
    (try split_ifs) <;> (try simp_all) <;> (try split_ifs) <;> (try simp_all)

/-- A thread enters the critical section only through a CAS on idle bits. -/
theorem crit_enter (immix oneStep : Bool) (t : Nat) (d : Bool) (sh : Shared) (p : PC)
    (h : inCrit (localStep immix oneStep t d sh p).2 = true) : inCrit p = true ∨ sh.bits = 0 := by
  cases p <;> simp only [localStep, inCrit, NOT_TRIGGERED, BEING_FORWARDED, FORWARDED] at h ⊢ <;>
    (try split_ifs at h) <;> (try simp_all [inCrit]) <;> (try split_ifs at h) <;> (try simp_all [inCrit])

/-- If the bits read `10` after a step, the stepping thread is in the critical section, or the bits
were `10` before and the stepping thread was not the owner. -/
theorem being_after (immix oneStep m0 : Bool) (t : Nat) (d : Bool) (sh : Shared) (p : PC)
    (hl : L immix m0 sh p)
    (h : (localStep immix oneStep t d sh p).1.bits = 2) :
    inCrit (localStep immix oneStep t d sh p).2 = true ∨ (sh.bits = 2 ∧ inCrit p = false) := by
  cases p <;> simp only [L, localStep, inCrit, NOT_TRIGGERED, BEING_FORWARDED, FORWARDED] at hl h ⊢ <;>
    (try split_ifs at h ⊢) <;> (try simp_all [inCrit]) <;> (try split_ifs at h ⊢) <;> (try simp_all [inCrit])

/-! ### the invariant is inductive -/

theorem init_inv (immix m0 : Bool) (hcs : immix = false → m0 = false) : Inv immix m0 (init m0) := by
  refine ⟨⟨Or.inl rfl, Or.inl rfl, by simp [init, NOT_TRIGGERED], fun _ => rfl, fun _ => rfl, fun h => h, ?_,
    Or.inl ⟨rfl, by simp [init, NOT_TRIGGERED]⟩, ?_, by simp [init], fun _ => rfl⟩, fun _ => trivial, ?_, ?_⟩
  · intro hi; exact hcs hi
  · intro hm hm0 _
    simp [init] at hm; simp [hm] at hm0
  · intro x y hx; simp [init, inCrit] at hx
  · intro h; simp [init, NOT_TRIGGERED] at h

theorem step_inv (immix oneStep m0 : Bool) (hcs : immix = false → m0 = false)
    (s : State) (t : Nat) (d : Bool) (h : Inv immix m0 s) :
    Inv immix m0 (step immix oneStep s t d) := by
  obtain ⟨hg, hl, hu, ho⟩ := h
  have loc := local_G immix oneStep m0 t d s.sh (s.pc t) hcs hg (hl t)
  refine ⟨loc.1, ?_, ?_, ?_⟩
  · intro x
    simp only [step]
    by_cases hx : x = t
    · simp only [hx, if_true]; exact loc.2
    · simp only [hx, if_false]
      exact stable immix oneStep m0 t d s.sh (s.pc t) (s.pc x) (hl t) (hl x)
        (fun h1 h2 => hx (hu x t h2 h1))
  · intro x y hx hy
    simp only [step] at hx hy
    by_cases hxt : x = t <;> by_cases hyt : y = t
    · rw [hxt, hyt]
    · simp only [hxt, if_true] at hx
      simp only [hyt, if_false] at hy
      rcases crit_enter immix oneStep t d s.sh (s.pc t) hx with h1 | h1
      · exact absurd (hu y t hy h1) hyt
      · have := crit_bits (hl y) hy; omega
    · simp only [hyt, if_true] at hy
      simp only [hxt, if_false] at hx
      rcases crit_enter immix oneStep t d s.sh (s.pc t) hy with h1 | h1
      · exact absurd (hu x t hx h1) hxt
      · have := crit_bits (hl x) hx; omega
    · simp only [hxt, hyt, if_false] at hx hy
      exact hu x y hx hy
  · intro hb
    simp only [step] at hb ⊢
    rcases being_after immix oneStep m0 t d s.sh (s.pc t) (hl t) hb with h1 | ⟨h1, h2⟩
    · exact ⟨t, by simp only [if_true]; exact h1⟩
    · obtain ⟨x, hx⟩ := ho h1
      have hxt : x ≠ t := by intro e; rw [e, h2] at hx; exact Bool.false_ne_true hx
      exact ⟨x, by simp only [hxt, if_false]; exact hx⟩

theorem exec_inv (immix oneStep m0 : Bool) (hcs : immix = false → m0 = false)
    (s : State) (run : List (Nat × Bool)) (h : Inv immix m0 s) :
    Inv immix m0 (exec immix oneStep s run) := by
  induction run generalizing s with
  | nil => exact h
  | cons a rest ih =>
    obtain ⟨t, d⟩ := a
    exact ih _ (step_inv immix oneStep m0 hcs s t d h)

/-- Every state reachable from the initial state by any schedule of any threads. -/
def Reachable (immix oneStep m0 : Bool) (s : State) : Prop :=
  ∃ run : List (Nat × Bool), s = exec immix oneStep (init m0) run

theorem reachable_inv {immix oneStep m0 : Bool} (hcs : immix = false → m0 = false) {s : State}
    (h : Reachable immix oneStep m0 s) : Inv immix m0 s := by
  obtain ⟨run, rfl⟩ := h
  exact exec_inv immix oneStep m0 hcs _ run (init_inv immix m0 hcs)

/-! ## The property theorems (all thread counts, all interleavings) -/

variable {immix oneStep m0 : Bool} {s : State}

/-- **C17 (1)** at most one thread is between a successful CAS and its final store / clear. -/
theorem one_winner_at_a_time (hcs : immix = false → m0 = false) (h : Reachable immix oneStep m0 s) (x y : Nat)
    (hx : inCrit (s.pc x) = true) (hy : inCrit (s.pc y) = true) : x = y :=
  (reachable_inv hcs h).unique x y hx hy

/-- **C17 (2)** the object is copied at most once. -/
theorem copy_at_most_once (hcs : immix = false → m0 = false) (h : Reachable immix oneStep m0 s) : s.sh.copies.length ≤ 1 := by
  rcases (reachable_inv hcs h).g.copies_le with e | ⟨c, e⟩ <;> simp [e]

/-- **C17 (3)** all finished tracers agree: they all returned the same reference — the unique copy,
or the unmoved object if no copy was made. -/
theorem agreement (hcs : immix = false → m0 = false) (h : Reachable immix oneStep m0 s) (x y r r' : Nat)
    (hx : s.pc x = .done r) (hy : s.pc y = .done r') :
    r = r' ∧ ((r = orig ∧ s.sh.copies = []) ∨ s.sh.copies = [r]) := by
  have inv := reachable_inv hcs h
  have lx := inv.l x; have ly := inv.l y
  rw [hx] at lx; rw [hy] at ly
  simp only [L] at lx ly
  rcases lx with ⟨e1, m1, _⟩ | c1 <;> rcases ly with ⟨e2, m2, _⟩ | c2
  · exact ⟨by rw [e1, e2], Or.inl ⟨e1, inv.g.marked_nocopy m1⟩⟩
  · have := inv.g.marked_nocopy m1; rw [this] at c2; cases c2
  · have := inv.g.marked_nocopy m2; rw [this] at c1; cases c1
  · rw [c1] at c2; exact ⟨by injection c2, Or.inr c1⟩

/-- **C17 (4)** a thread that is about to read the forwarding pointer reads the copy the winner
wrote (never the word's previous content), and that is what it returns. -/
theorem ptr_read_only_after_write (hcs : immix = false → m0 = false) (h : Reachable immix oneStep m0 s) (x : Nat) (d : Bool)
    (hx : s.pc x = .readPtr) :
    ∃ c, s.sh.copies = [c] ∧ s.sh.ptr = c ∧ (step immix oneStep s x d).pc x = .done c := by
  have inv := reachable_inv hcs h
  have lx := inv.l x
  rw [hx] at lx
  obtain ⟨c, hc, hp, _⟩ := inv.g.forwarded lx
  exact ⟨c, hc, hp, by simp [step, hx, localStep, hp]⟩

/-- **C17 (5)** in a copying space (CopySpace) every tracer that finishes returns the one copy:
exactly one copy is made as soon as anybody finishes. -/
theorem copy_exactly_once_copyspace (h : Reachable false oneStep false s) (x r : Nat)
    (hx : s.pc x = .done r) : s.sh.copies = [r] := by
  have inv := reachable_inv (immix := false) (m0 := false) (fun _ => rfl) h
  have lx := inv.l x
  rw [hx] at lx
  simp only [L] at lx
  rcases lx with ⟨_, _, hi⟩ | c
  · cases hi
  · exact c

/-- **C17 (6)** the object (the copy, or the unmoved object) is pushed to the scan queue at most
once … -/
theorem enqueued_at_most_once (hcs : immix = false → m0 = false) (h : Reachable immix oneStep m0 s) : s.sh.queue.length ≤ 1 := by
  rcases (reachable_inv hcs h).g.queue_cases with ⟨e, _⟩ | ⟨c, e, _⟩ | ⟨e, _⟩ <;> simp [e]

/-- … and exactly once — namely the reference all tracers returned — when nobody is in the critical
section any more and the object had not already been marked before these tracers arrived. -/
theorem enqueued_exactly_once (hcs : immix = false → m0 = false) (h : Reachable immix oneStep m0 s) (hm0 : m0 = false)
    (hq : ∀ x, inCrit (s.pc x) = false) (y r : Nat) (hy : s.pc y = .done r) :
    s.sh.queue = [r] := by
  have inv := reachable_inv hcs h
  have hb2 : s.sh.bits ≠ 2 := by
    intro e; obtain ⟨x, hx⟩ := inv.owner e; rw [hq x] at hx; exact Bool.false_ne_true hx
  have ly := inv.l y
  rw [hy] at ly
  simp only [L] at ly
  rcases ly with ⟨e, hm, _⟩ | c
  · rcases inv.g.queue_cases with ⟨q, _⟩ | ⟨c, _, hc, _⟩ | ⟨q, _⟩
    · exact absurd (inv.g.mark_window hm hm0 q) hb2
    · have := inv.g.marked_nocopy hm; rw [this] at hc; cases hc
    · rw [q, e]
  · have h0 : s.sh.bits ≠ 0 := by
      intro e; have := inv.g.idle_nocopy e; rw [this] at c; cases c
    have h3 : s.sh.bits = 3 := b3 inv.g.bits_vals h0 hb2
    obtain ⟨c', hc', _, hq'⟩ := inv.g.forwarded h3
    rw [c] at hc'; injection hc' with e _
    rw [hq', ← e]

/-- An object that was already marked when the tracers arrived is never copied nor re-queued. -/
theorem already_marked_untouched (hi : immix = true) (h : Reachable immix oneStep true s) :
    s.sh.copies = [] ∧ s.sh.queue = [] := by
  have inv := reachable_inv (m0 := true) (fun hf => by rw [hi] at hf; cases hf) h
  have hm := inv.g.marked_mono rfl
  have hc := inv.g.marked_nocopy hm
  refine ⟨hc, ?_⟩
  rcases inv.g.queue_cases with ⟨q, _⟩ | ⟨c, _, hc', _⟩ | ⟨_, _, e, _⟩
  · exact q
  · rw [hc] at hc'; cases hc'
  · cases e

/-- **C17 (reader)** A reader that is not a tracer (`SFT::get_forwarded_object`: weak-reference and
finalizer processing, the binding) may run at ANY point of ANY interleaving: whenever it answers
`some c`, `c` is the one copy that was made and the winner has written it; in the window in which the
winner is still copying or deciding (`BEING_FORWARDED`) and when the winner declined, it answers
`none`. -/
theorem reader_sound (hcs : immix = false → m0 = false) (h : Reachable immix oneStep m0 s) (c : Nat)
    (hr : getForwarded s.sh = some c) : s.sh.copies = [c] ∧ s.sh.ptr = c ∧ s.sh.bits = FORWARDED := by
  have inv := reachable_inv hcs h
  unfold getForwarded at hr
  split at hr
  · rename_i hb
    obtain ⟨c', hc', hp, _⟩ := inv.g.forwarded hb
    injection hr with e
    rw [← e, hp]; exact ⟨hc', rfl, hb⟩
  · cases hr

theorem reader_none_in_window (sh : Shared) (hb : sh.bits = BEING_FORWARDED ∨ sh.bits = NOT_TRIGGERED) :
    getForwarded sh = none := by
  unfold getForwarded
  rcases hb with e | e <;> simp [e, BEING_FORWARDED, NOT_TRIGGERED, FORWARDED]

/-- The answers a reader gets along the winner's path (what the harness op `fwdwin` observes on the real
spaces): before the CAS, after the CAS, after the pointer store of the two-store layout (bits still
`10`), and after an Immix winner that declined released the bits — `none` each time. -/
theorem reader_window_trace :
    getForwarded (init false).sh = none ∧
    getForwarded (exec false false (init false) [(0, false), (0, false)]).sh = none ∧
    getForwarded (exec false false (init false) [(0, false), (0, false), (0, false), (0, false)]).sh = none ∧
    getForwarded (exec true false (init false) [(0, true), (0, true)]).sh = none ∧
    getForwarded (exec true false (init false)
      [(0, true), (0, true), (0, true), (0, true), (0, true), (0, true)]).sh = none := by decide

/-- The reader that also accepts `BEING_FORWARDED` is observably wrong: after the CAS of thread 0 and
before its pointer store it returns the stale word, a reference nobody copied to. -/
theorem eager_reader_sees_unwritten_pointer :
    ∃ s, Reachable false false false s ∧ getForwardedEager s.sh = some garbage ∧ s.sh.copies ≠ [garbage] :=
  ⟨exec false false (init false) [(0, false), (0, false)], ⟨_, rfl⟩, by decide, by decide⟩

/-! ## non-vacuity: concrete schedules -/

/-- CopySpace, two-store layout, three racing threads: thread 0 wins the CAS, thread 1 loses the CAS
and spins, thread 2 arrives while the copy is in flight; all return copy `2`, queued once. -/
example :
    let s := exec false false (init false)
      [(0,false),(1,false),(0,false),(1,false),(1,false),(2,false),(0,false),(0,false),(2,false),(0,false),
       (1,false),(1,false),(2,false),(2,false)]
    s.pc 0 = .done 2 ∧ s.pc 1 = .done 2 ∧ s.pc 2 = .done 2 ∧ s.sh.queue = [2] ∧ s.sh.copies = [2] := by
  decide

/-- Immix: thread 0 wins and declines (pinned): marks in place, releases the bits; thread 1, which
was spinning, returns the unmoved object; thread 2 arrives later, wins the CAS, sees the mark and
releases again.  Nobody copies; the object is queued once. -/
example :
    let s := exec true false (init false)
      [(0,true),(0,true),(1,true),(0,true),(0,true),(0,true),(1,true),(0,true),(1,true),(2,false),(2,false),
       (2,false),(2,false)]
    s.pc 0 = .done 0 ∧ s.pc 1 = .done 0 ∧ s.pc 2 = .done 0 ∧ s.sh.queue = [0] ∧ s.sh.copies = [] := by
  decide

/-- Why the order "mark, then clear the bits" matters: in a variant that clears first, a second
winner can copy an object that the first winner is about to mark in place (the variant is written
out here only as a schedule on the real model to show the model distinguishes the two points). -/
example : (exec true false (init false) [(0,true),(0,true),(0,true),(0,true)]).pc 0 = .markPending := by decide


/-! ## the tie: the executable verdict on real-thread races is a consequence of the theorems above -/

/-- **C17 (tie)** Every quiescent reachable state — threads `0..n-1` (any `n ≥ 1`) have all returned,
no other thread ever moved — has an outcome accepted by the executable predicate `outcomeOk` that the
check evaluates on real-thread races: the tracers agree, at most one copy was made, the forwarding
pointer is that copy and the bits read `FORWARDED` (or, Immix, nobody copied: the object is marked,
the bits are released), and the object was queued exactly once (not at all if it was marked before). -/
theorem outcome_sound (hcs : immix = false → m0 = false) (h : Reachable immix oneStep m0 s) (n : Nat)
    (hn : 0 < n) (hfin : ∀ x, x < n → ∃ r, s.pc x = .done r) (hidle : ∀ x, n ≤ x → s.pc x = .start) :
    outcomeOk immix m0 (outcomeOf n s) = true := by
  have inv := reachable_inv hcs h
  have hq : ∀ x, inCrit (s.pc x) = false := by
    intro x
    by_cases hx : x < n
    · obtain ⟨r, hr⟩ := hfin x hx; rw [hr]; rfl
    · rw [hidle x (by omega)]; rfl
  have hb2 : s.sh.bits ≠ 2 := by
    intro e; obtain ⟨x, hx⟩ := inv.owner e; rw [hq x] at hx; exact Bool.false_ne_true hx
  obtain ⟨r0, hr0⟩ := hfin 0 hn
  have hall : ∀ x, x < n → s.pc x = .done r0 := by
    intro x hx
    obtain ⟨r, hr⟩ := hfin x hx
    have := (agreement hcs h x 0 r r0 hr hr0).1
    rw [hr, this]
  have hres : ∀ v, (outcomeOf n s).results.all (· == v) = true ↔ r0 = v := by
    intro v
    simp only [outcomeOf, List.all_eq_true, List.mem_map, List.mem_range]
    constructor
    · intro hh
      have := hh r0 ⟨0, hn, by rw [hr0]⟩
      simpa using this
    · intro e y ⟨x, hx, hy⟩
      rw [hall x hx] at hy
      simp [← hy, e]
  have l0 := inv.l 0
  rw [hr0] at l0
  simp only [L] at l0
  rcases l0 with ⟨e, hm, hi⟩ | c
  · -- nobody copied: marked in place
    have hc := inv.g.marked_nocopy hm
    have h3 : s.sh.bits ≠ 3 := by
      intro e3; obtain ⟨c, hc', _⟩ := inv.g.forwarded e3; rw [hc] at hc'; cases hc'
    have h0 : s.sh.bits = 0 := b0 inv.g.bits_vals hb2 h3
    have hcl : (outcomeOf n s).copies = 0 := by simp [outcomeOf, hc]
    have hqq : (if m0 = true then (outcomeOf n s).queue == [] else (outcomeOf n s).queue == [orig]) = true := by
      cases hm0 : m0 with
      | true =>
        subst hm0
        have := (already_marked_untouched hi h).2
        simp [outcomeOf, this]
      | false =>
        have := enqueued_exactly_once hcs h hm0 hq 0 r0 hr0
        simp [outcomeOf, this, e]
    unfold outcomeOk
    rw [hcl]
    have hr := (hres orig).mpr e
    simp only [Bool.and_eq_true]
    refine ⟨⟨⟨⟨hi, ?_⟩, ?_⟩, hr⟩, hqq⟩
    · simp [outcomeOf, hm]
    · simp [outcomeOf, h0, NOT_TRIGGERED]
  · -- exactly one copy
    have hcl : (outcomeOf n s).copies = 1 := by simp [outcomeOf, c]
    have hm0 : m0 = false := by
      cases hm0 : m0 with
      | false => rfl
      | true =>
        have := inv.g.marked_nocopy (inv.g.marked_mono hm0); rw [this] at c; cases c
    have hm : s.sh.marked = false := by
      cases hm : s.sh.marked with
      | false => rfl
      | true => have := inv.g.marked_nocopy hm; rw [this] at c; cases c
    have h0 : s.sh.bits ≠ 0 := by
      intro e; have := inv.g.idle_nocopy e; rw [this] at c; cases c
    have h3 : s.sh.bits = 3 := b3 inv.g.bits_vals h0 hb2
    obtain ⟨c', hc', hp, hq'⟩ := inv.g.forwarded h3
    rw [c] at hc'; injection hc' with e _
    unfold outcomeOk
    rw [hcl]
    have hr := (hres (outcomeOf n s).ptr).mpr (by simp [outcomeOf, hp, e])
    simp only [Bool.and_eq_true]
    refine ⟨⟨⟨⟨?_, ?_⟩, ?_⟩, hr⟩, ?_⟩
    · simp [hm0]
    · simp [outcomeOf, hm]
    · simp [outcomeOf, h3, FORWARDED]
    · simp [outcomeOf, hq', hp]

/-- `outcomeOk` is not vacuous: it rejects a second copy, disagreeing tracers, a pointer that is not
the copy, bits left at `BEING_FORWARDED`, and a double enqueue. -/
example : outcomeOk false false { results := [4, 4, 4], copies := 1, queue := [4], bits := 3, ptr := 4, marked := false } = true ∧
    outcomeOk false false { results := [4, 2, 4], copies := 1, queue := [4], bits := 3, ptr := 4, marked := false } = false ∧
    outcomeOk false false { results := [4, 4], copies := 2, queue := [4], bits := 3, ptr := 4, marked := false } = false ∧
    outcomeOk false false { results := [4, 4], copies := 1, queue := [4], bits := 3, ptr := 2, marked := false } = false ∧
    outcomeOk false false { results := [4, 4], copies := 1, queue := [4], bits := 2, ptr := 4, marked := false } = false ∧
    outcomeOk false false { results := [4, 4], copies := 1, queue := [4, 4], bits := 3, ptr := 4, marked := false } = false ∧
    outcomeOk true false { results := [0, 0], copies := 0, queue := [0], bits := 0, ptr := 1, marked := true } = true ∧
    outcomeOk true false { results := [0, 0], copies := 0, queue := [0], bits := 0, ptr := 1, marked := false } = false := by
  decide

end Mmtk.Fwd
