import MmtkModel.Model.AllocArith
import MmtkModel.Props.C33
import MmtkModel.Props.C35
import MmtkModel.Props.C02Algo
/-!
# C03 (algorithm) — what the four allocators return: aligned and inside the granted memory

Models: `Model/AllocArith.lean` (the allocators of `Model/AllocModel.lean` composed, branch for branch,
with the real `align_allocation` / `get_maximum_aligned_size` / `bytes_to_pages_up` of
`Model/Arith.lean`).  C03: *a successful `alloc(size, align, offset)` returns a non-zero address `A`
with `(A + offset) % align = 0` and `[A, A + size)` inside MMTk-managed memory of the space; the call
terminates for every legal argument combination*.

STATUS: **proved** (complete proofs; axioms: propext, Classical.choice, Quot.sound), for EVERY input that is
legal in the sense of `align_allocation`'s own assertions (`LegalAlign`: power-of-two
`MIN_ALIGNMENT ≤ align ≤ MAX_ALIGNMENT`, `offset` a multiple of `MIN_ALIGNMENT`) plus explicit
address-range hypotheses (`… < 2^63`: user space) and `MIN_ALIGNMENT`-aligned buffer starts; generic
in the VM constants and in the build profile (`debug`):

* `alignAllocation_good` — `align_allocation(region, align, offset)` as all allocators call it
  (`known_alignment = MIN_ALIGNMENT`) never panics and returns `region + padSpec`, the LEAST address
  `r ≥ region` with `(r + offset) % align = 0`; `r` is `MIN_ALIGNMENT`-aligned and
  `r - region ≤ align - MIN_ALIGNMENT`.  `maxAlignedSize_val`: `get_maximum_aligned_size = size + align
  - MIN_ALIGNMENT`.
* (1) bump pointer — `bump_fast_cases` (the fast path answers `slow` iff `cursor + pad + size > limit`,
  never panics), `bump_fast_ok` (`(res+offset) % align = 0`, `cursor ≤ res`, `res + size ≤ limit`,
  new cursor `= res + size`, limit unchanged), `bump_fast_refines` (it IS `AllocModel.bumpAlloc` with
  `pad = res - cursor`, so C02's `bump_guard`/`bump_seq` apply).
  Slow path `acquire_block`, THIS tree (`acquireBlock`: `block_size = roundup(get_maximum_aligned_size
  (size, align), 32 KB)`, the repair of `gc:bump-align-leak`): **`fresh_block_always_fits`** — for
  every legal request with `MIN_ALIGNMENT ∣ size` the allocation into the block acquired for it
  succeeds (never `.slow`, never `.panic`: `fresh_block_never_panics`), aligned and inside
  `[start, start + block_size)`; `acquire_block_result_good`.  So **C03's termination clause holds
  again for the bump allocator**: one `acquire_block` per slow-path call, no leaked block.
  `acquireBlock_eq_old_of_min_align`: for `align = MIN_ALIGNMENT` the repaired function is the old
  one (same block size, same outcome).
  Slow path in the PINNED tree (`acquireBlockOld`: `block_size = roundup(size, 32 KB)`, NO alignment
  slack) — kept as the record of why the repair was needed: `acquireBlockSize_spec`,
  `fresh_block_cases` / `fresh_block_fits_iff` — **the precise condition**: the block acquired for a
  request fits it iff `padSpec start align offset + size ≤ roundup(size, 32 KB)`; `fresh_block_ok`,
  `fresh_block_never_panics_old`, `acquire_block_result_good_old` (conditional on success),
  `fresh_block_fits_offset_multiple` (always true for `align ∣ offset`), `fresh_block_with_slack_fits`
  / `fresh_buffer_fits` (a buffer of `get_maximum_aligned_size` bytes always fits: the repair, proved
  before it was made).  **Defect `gc:bump-align-leak` (pinned tree)**: `bump_align_leak` (for EVERY
  64-aligned block start, `alloc(32744, 64, 8)` answers `slow` on the block acquired for it) and the
  `decide` witness `bump_align_leak_witness`: there the termination clause of C03 was FALSE (each
  retry acquired and abandoned a block until the space was exhausted).  Immix uses the same bump
  pointer: `immix_hole_fits` (a request with `get_maximum_aligned_size ≤ Line::BYTES` fits every
  non-empty hole — the `debug_assert!` of `acquire_recyclable_lines`), `immix_clean_block_fits`.
* (2) large objects — `los_alloc_within_pages` (aligned, `cell ≤ res`,
  `res + size ≤ cell + pages * 4096` with `pages = ⌈(size + align - MIN_ALIGNMENT)/4096⌉`);
  the seeded regression `pages = bytes_to_pages_up(size)`: `los_pages_without_slack_too_small`
  (`decide` witnesses for the harness VM `(8192, 16, 8)`, for the default VMBinding constants
  `(8192, 8, 4)`, and `(12280, 64, 8)` in release) and the whole family `los_no_slack_overflows`
  (page-multiple size, `¬ align ∣ offset`).
* (3) free list — `freelist_alloc_within_cell`: for every request accepted by `mi_bin`
  (`bin_fits_partial`, C35) and EVERY cell of a block of that bin, `align_allocation` inside the cell
  stays inside it (the `debug_assert!` of `FreeListAllocator::alloc`) and inside the block.
  The top of the size range (`alignedSize > MAX_BIN_SIZE`) is the C35 defect
  `msbins:aligned-size-exceeds-max-bin` and is excluded by hypothesis `hs`, exactly as in C35.
* (4) `ResultGood` (non-zero, aligned, `[res, res+size) ⊆ granted`) per allocator:
  `bump_alloc_result_good`, `acquire_block_result_good_old`, `immix_hole_result_good`,
  `los_alloc_result_good`, `freelist_alloc_result_good`, and the conjunction `alloc_result_good`.

NOT covered here (and why): that the granted region itself lies in the space (C26/C27 page
resources, C02 guards), zeroing of the bytes (memory contents are not modelled; observed by the
monitor, Props/C03.lean), the precise-stress variants of the slow paths, `handle_obvious_oom_request`,
and `debug_assert!(region.is_aligned_to(ALLOC_END_ALIGNMENT))` (the default `ALLOC_END_ALIGNMENT = 1`).
-/
namespace Mmtk.AllocArith
open Mmtk.Arith Mmtk.AllocModel Mmtk.Bits

/-! ## `align_allocation` with `known_alignment = MIN_ALIGNMENT` (how every allocator calls it) -/

/-- the padding C03 allows: the least `p` with `(region + p + offset) % align = 0` -/
def padSpec (region align offset : Nat) : Nat := (align - (region + offset) % align) % align

theorem pad_unique (a x p : Nat) (hp : p < a) (h : (x + p) % a = 0) : p = (a - x % a) % a := by
  have ha : 0 < a := by omega
  have hm := Nat.mod_lt x ha
  have h2 : (x % a + p) % a = 0 := by
    rw [Nat.add_mod, Nat.mod_eq_of_lt hp] at h; exact h
  by_cases hlt : x % a + p < a
  · rw [Nat.mod_eq_of_lt hlt] at h2
    have h0 : x % a = 0 := by omega
    rw [h0, Nat.sub_zero, Nat.mod_self]; omega
  · have h3 : (x % a + p) % a = x % a + p - a := by
      rw [Nat.mod_eq_sub_mod (by omega)]
      exact Nat.mod_eq_of_lt (by omega)
    rw [h3] at h2
    have : a - x % a < a := by omega
    rw [Nat.mod_eq_of_lt this]; omega

private theorem and_min_mask_zero' {km x : Nat} (h : 2^km ∣ x) : (x &&& (2^km - 1) == 0) = true := by
  rw [Nat.and_two_pow_sub_one_eq_mod]
  simp [Nat.mod_eq_zero_of_dvd h]

/-- no padding is needed when the requested alignment is the minimum one -/
theorem alignAllocation_min (vm : VMConsts) (debug : Bool) (ka km kx region align offset : Nat)
    (L : LegalAlign vm ka km kx align offset vm.minAlign)
    (h : align ≤ vm.minAlign ∨ vm.maxAlign ≤ vm.minAlign) :
    alignAllocation vm debug region align offset vm.minAlign = some region ∧ align = vm.minAlign := by
  obtain ⟨hmin, hmax, halign, ⟨hka1, hka2, hkx⟩, hoff, hoffw, hknown⟩ := L
  have hA1 : (align &&& (vm.minAlign - 1) == 0) = true := by
    rw [hmin, halign]; exact and_min_mask_zero' (Nat.pow_dvd_pow 2 hka1)
  have hA2 : (offset &&& (vm.minAlign - 1) == 0) = true := by
    rw [hmin]; exact and_min_mask_zero' hoff
  have hA3 : align ≤ vm.maxAlign := by
    rw [hmax, halign]; exact Nat.pow_le_pow_right (by omega) hka2
  have hge : vm.minAlign ≤ align := by
    rw [hmin, halign]; exact Nat.pow_le_pow_right (by omega) hka1
  have heq : align = vm.minAlign := by omega
  refine ⟨?_, heq⟩
  unfold alignAllocation
  have hle : align ≤ vm.minAlign := by omega
  simp [hA1, hA2, hA3, hle]

/-- **align_allocation as the allocators call it** (`known_alignment = MIN_ALIGNMENT`), for EVERY legal
`(align, offset)` and every `MIN_ALIGNMENT`-aligned region start below `2^63 - align`: never
panics, returns `region + padSpec` — the least admissible address —, which is again
`MIN_ALIGNMENT`-aligned, and the padding is at most `align - MIN_ALIGNMENT`. -/
theorem alignAllocation_good (vm : VMConsts) (debug : Bool) (ka km kx region align offset : Nat)
    (L : LegalAlign vm ka km kx align offset vm.minAlign)
    (hreg : region + align < 2^63) (hregk : vm.minAlign ∣ region) :
    ∃ r, alignAllocation vm debug region align offset vm.minAlign = some r ∧
      region ≤ r ∧ r + vm.minAlign ≤ region + align ∧ (r + offset) % align = 0 ∧
      vm.minAlign ∣ r ∧ r = region + padSpec region align offset := by
  have L' := L
  obtain ⟨hmin, hmax, halign, ⟨hka1, hka2, hkx⟩, hoff, hoffw, hknown⟩ := L
  have hapos : 0 < align := by rw [halign]; exact Nat.two_pow_pos _
  have hoffk : vm.minAlign ∣ offset := by rw [hmin]; exact hoff
  by_cases htriv : align ≤ vm.minAlign ∨ vm.maxAlign ≤ vm.minAlign
  · obtain ⟨h1, h2⟩ := alignAllocation_min vm debug ka km kx region align offset L' htriv
    have hmod : (region + offset) % align = 0 := by
      rw [h2]; exact Nat.mod_eq_zero_of_dvd (Nat.dvd_add hregk hoffk)
    refine ⟨region, h1, Nat.le_refl _, by omega, hmod, hregk, ?_⟩
    unfold padSpec
    rw [hmod, Nat.sub_zero, Nat.mod_self]; rfl
  · have hgt : vm.minAlign < align := by omega
    have hmm : vm.minAlign < vm.maxAlign := by omega
    obtain ⟨r, hr, hge, hmod, _⟩ :=
      alignAllocation_least vm debug ka km kx region align offset vm.minAlign L' hgt hmm hreg
    obtain ⟨r', m, hr', _, hm, hb⟩ :=
      maxAlignedSize_bounds vm debug ka km kx km region align offset vm.minAlign 0 L' hmin hgt hmm hreg
        hregk hoffk (by omega) (Nat.dvd_zero _)
    rw [hr] at hr'
    cases hr'
    have hdk : vm.minAlign ∣ align := by
      rw [hmin, halign]; exact Nat.pow_dvd_pow 2 hka1
    have h1 : vm.minAlign ∣ r + offset := Nat.dvd_trans hdk (Nat.dvd_of_mod_eq_zero hmod)
    have h2 : vm.minAlign ∣ r := (Nat.dvd_add_iff_left hoffk).2 h1
    refine ⟨r, hr, hge, by omega, hmod, h2, ?_⟩
    have hp : r - region < align := by omega
    have hx : (region + offset + (r - region)) % align = 0 := by
      have : region + offset + (r - region) = r + offset := by omega
      rw [this]; exact hmod
    have := pad_unique align (region + offset) (r - region) hp hx
    unfold padSpec
    omega

/-! ## (1) bump pointer: `BumpAllocator::alloc`, `ImmixAllocator::alloc` / `overflow_alloc` -/

/-- a legal bump-allocation request in state `b`: legal `(align, offset)`, a `MIN_ALIGNMENT`-aligned
cursor (blocks are page aligned and sizes are multiples of `MIN_ALIGNMENT`), user-space addresses -/
structure BumpLegal (vm : VMConsts) (ka km kx : Nat) (b : Bump) (size align offset : Nat) : Prop where
  legal : LegalAlign vm ka km kx align offset vm.minAlign
  cursorAligned : vm.minAlign ∣ b.cursor
  cursorSmall : b.cursor + align < 2^63
  sizeSmall : size < 2^63

/-- **the fast path, completely**: for every legal request it never panics; with
`res = cursor + padSpec` it answers `slow` exactly when `res + size > limit`, and otherwise returns
`res` and moves the cursor to `res + size`. -/
theorem bump_fast_cases (vm : VMConsts) (debug : Bool) (ka km kx : Nat) (b : Bump) (size align offset : Nat)
    (H : BumpLegal vm ka km kx b size align offset) :
    (b.limit < b.cursor + padSpec b.cursor align offset + size ∧
      bumpAllocAligned vm debug b size align offset = .slow) ∨
    (b.cursor + padSpec b.cursor align offset + size ≤ b.limit ∧
      bumpAllocAligned vm debug b size align offset =
        .ok (b.cursor + padSpec b.cursor align offset)
          ⟨b.cursor + padSpec b.cursor align offset + size, b.limit⟩) := by
  obtain ⟨L, hck, hcs, hss⟩ := H
  obtain ⟨r, hr, hge, hpad, hmod, hrk, hreq⟩ :=
    alignAllocation_good vm debug ka km kx b.cursor align offset L hcs hck
  rw [← hreq]
  have hlt : r + size < 2^64 := by omega
  by_cases hfit : r + size > b.limit
  · left
    refine ⟨by omega, ?_⟩
    simp only [bumpAllocAligned, hr, cadd, hlt, if_true, hfit]
  · right
    refine ⟨by omega, ?_⟩
    simp only [bumpAllocAligned, hr, cadd, hlt, if_true, hfit, if_false]

/-- **C03, bump allocator, fast path**: if `alloc` succeeds on the fast path then
`(res + offset) % align = 0`, `cursor ≤ res`, `res + size ≤ limit`, the new cursor is `res + size`,
the limit is unchanged; moreover `res` is the least admissible address (`cursor + padSpec`), is
`MIN_ALIGNMENT`-aligned, and the padding is at most `align - MIN_ALIGNMENT`. -/
theorem bump_fast_ok (vm : VMConsts) (debug : Bool) (ka km kx : Nat) (b : Bump) (size align offset : Nat)
    (H : BumpLegal vm ka km kx b size align offset) (res : Nat) (b' : Bump)
    (h : bumpAllocAligned vm debug b size align offset = .ok res b') :
    (res + offset) % align = 0 ∧ b.cursor ≤ res ∧ res + size ≤ b.limit ∧
      b'.cursor = res + size ∧ b'.limit = b.limit ∧
      res = b.cursor + padSpec b.cursor align offset ∧ vm.minAlign ∣ res ∧
      res + vm.minAlign ≤ b.cursor + align := by
  obtain ⟨r, hr, hge, hpad, hmod, hrk, hreq⟩ :=
    alignAllocation_good vm debug ka km kx b.cursor align offset H.legal H.cursorSmall H.cursorAligned
  rcases bump_fast_cases vm debug ka km kx b size align offset H with ⟨_, e⟩ | ⟨hfit, e⟩
  · rw [e] at h; cases h
  · rw [e] at h
    injection h with h1 h2
    subst h1 h2
    rw [← hreq] at hfit ⊢
    exact ⟨hmod, hge, hfit, rfl, rfl, rfl, hrk, hpad⟩

/-- the fast path never trips an assertion / overflow check on a legal request -/
theorem bump_fast_never_panics (vm : VMConsts) (debug : Bool) (ka km kx : Nat) (b : Bump)
    (size align offset : Nat) (H : BumpLegal vm ka km kx b size align offset) :
    bumpAllocAligned vm debug b size align offset ≠ .panic := by
  rcases bump_fast_cases vm debug ka km kx b size align offset H with ⟨_, e⟩ | ⟨_, e⟩ <;>
    rw [e] <;> intro h <;> cases h

/-- the composed fast path refines the C02 model's `bumpAlloc` with `pad = res - cursor`; hence
`bump_guard` / `bump_seq` (C02Algo) apply to every successful real allocation -/
theorem bump_fast_refines (vm : VMConsts) (debug : Bool) (ka km kx : Nat) (b : Bump) (size align offset : Nat)
    (H : BumpLegal vm ka km kx b size align offset) (res : Nat) (b' : Bump)
    (h : bumpAllocAligned vm debug b size align offset = .ok res b') :
    bumpAlloc b (res - b.cursor) size = some (res, b') := by
  obtain ⟨_, h2, h3, h4, h5, _⟩ := bump_fast_ok vm debug ka km kx b size align offset H res b' h
  have e : b.cursor + (res - b.cursor) = res := by omega
  have hb : b' = { b with cursor := res + size } := by
    cases b'; cases b; simp only [Bump.mk.injEq] at *; exact ⟨h4, h5⟩
  simp only [bumpAlloc, e]
  rw [if_neg (by omega), hb]

/-! ### slow path: `acquire_block` -/

/-- a fresh buffer `[start, start + cap)` whose capacity includes the worst-case alignment slack
(`size + align - MIN_ALIGNMENT`, i.e. `get_maximum_aligned_size(size, align)`) always serves the
request — the sufficient condition every `set_limit … ; self.alloc(…)` sequence relies on. -/
theorem fresh_buffer_fits (vm : VMConsts) (debug : Bool) (ka km kx : Nat) (start cap size align offset : Nat)
    (H : BumpLegal vm ka km kx ⟨start, start + cap⟩ size align offset)
    (hcap : size + align ≤ cap + vm.minAlign) :
    ∃ res b', bumpAllocAligned vm debug ⟨start, start + cap⟩ size align offset = .ok res b' ∧
      (res + offset) % align = 0 ∧ start ≤ res ∧ res + size ≤ start + cap ∧
      b' = ⟨res + size, start + cap⟩ := by
  obtain ⟨r, hr, hge, hpad, hmod, hrk, hreq⟩ :=
    alignAllocation_good vm debug ka km kx start align offset H.legal H.cursorSmall H.cursorAligned
  rcases bump_fast_cases vm debug ka km kx ⟨start, start + cap⟩ size align offset H with ⟨hno, _⟩ | ⟨hfit, e⟩
  · exfalso
    simp only at hno
    omega
  · simp only at hfit e
    rw [← hreq] at hfit e
    exact ⟨r, _, e, hmod, hge, hfit, rfl⟩

private theorem wnot_pow_mask (k : Nat) (hk : k < 64) : wnot (2^k - 1) = 2^64 - 2^k := by
  have := two_pow_lt_64 hk
  have : 0 < 2^k := Nat.two_pow_pos _
  unfold wnot; omega

/-- generic in the block size so that no proof step computes with the literal -/
private theorem roundUp_mask (size k : Nat) (hk : k < 64) (hs : size + (2^k - 1) < 2^64) :
    (size + (2^k - 1)) &&& wnot (2^k - 1) = size + (2^k - 1) - (size + (2^k - 1)) % 2^k := by
  rw [wnot_pow_mask k hk, and_not_mask _ k (by omega) hs]

private theorem cadd_fits (debug : Bool) (a b : Nat) (h : a + b < 2^64) : cadd debug a b = some (a + b) := by
  unfold cadd; rw [if_pos h]

private theorem roundUpMask_pow (debug : Bool) (size k : Nat) (hk : k < 64) (hs : size + (2^k - 1) < 2^64) :
    roundUpMask debug (2^k - 1) size = some (size + (2^k - 1) - (size + (2^k - 1)) % 2^k) := by
  unfold roundUpMask
  rw [cadd_fits debug _ _ hs]
  simp only [roundUp_mask size k hk hs]

private theorem bumpBlockMask_eq : bumpBlockMask = 2^15 - 1 := by decide

/-- `block_size = (size + BLOCK_MASK) & !BLOCK_MASK` is `size` rounded up to a multiple of the
32 KB block: it covers `size` — and nothing else: **no alignment slack is included**. -/
theorem acquireBlockSize_spec (debug : Bool) (size : Nat) (hs : size + 32767 < 2^64) :
    ∃ bs, acquireBlockSizeOld debug size = some bs ∧ bs = size + 32767 - (size + 32767) % 32768 ∧
      size ≤ bs ∧ bs < size + 32768 ∧ bs % 32768 = 0 := by
  have h := roundUpMask_pow debug size 15 (by omega) (by omega)
  refine ⟨size + (2^15 - 1) - (size + (2^15 - 1)) % 2^15, ?_, by omega, by omega, by omega, by omega⟩
  unfold acquireBlockSizeOld
  rw [bumpBlockMask_eq]
  exact h

/-- a request presented to `acquire_block` with the block `space.acquire` returned at `start` -/
structure FreshLegal (vm : VMConsts) (ka km kx : Nat) (start size align offset : Nat) : Prop where
  legal : LegalAlign vm ka km kx align offset vm.minAlign
  startAligned : vm.minAlign ∣ start
  small : start + size + 32768 + align < 2^63

/-- generic block size `2^k` -/
private theorem fresh_block_cases_pow (vm : VMConsts) (debug : Bool) (ka km kx k : Nat)
    (start size align offset : Nat) (hk : k < 64)
    (L : LegalAlign vm ka km kx align offset vm.minAlign) (hst : vm.minAlign ∣ start)
    (hsm : start + size + 2^k + align < 2^63) :
    ∃ bs, roundUpMask debug (2^k - 1) size = some bs ∧
      bs = size + (2^k - 1) - (size + (2^k - 1)) % 2^k ∧
      ((padSpec start align offset + size ≤ bs ∧
          acquireBlockWithOld vm debug (2^k - 1) size align offset start =
            .ok (start + padSpec start align offset)
              ⟨start + padSpec start align offset + size, start + bs⟩) ∨
       (bs < padSpec start align offset + size ∧
          acquireBlockWithOld vm debug (2^k - 1) size align offset start = .slow)) := by
  have hp : 0 < 2^k := Nat.two_pow_pos _
  have hbs := roundUpMask_pow debug size k hk (by omega)
  refine ⟨_, hbs, rfl, ?_⟩
  generalize hB : size + (2^k - 1) - (size + (2^k - 1)) % 2^k = bs at hbs ⊢
  have hml := Nat.mod_lt (size + (2^k - 1)) hp
  have hlim : start + bs < 2^64 := by omega
  have hacq : acquireBlockWithOld vm debug (2^k - 1) size align offset start =
      bumpAllocAligned vm debug ⟨start, start + bs⟩ size align offset := by
    unfold acquireBlockWithOld
    rw [hbs]
    simp only [cadd_fits debug _ _ hlim]
  rw [hacq]
  have HB : BumpLegal vm ka km kx ⟨start, start + bs⟩ size align offset :=
    ⟨L, hst, by simp only; omega, by omega⟩
  rcases bump_fast_cases vm debug ka km kx ⟨start, start + bs⟩ size align offset HB with ⟨hno, e⟩ | ⟨hfit, e⟩
  · right; simp only at hno e; exact ⟨by omega, e⟩
  · left; simp only at hfit e; exact ⟨by omega, e⟩

/-- **the precise condition under which a fresh block fits the aligned request**: with
`bs = roundup(size, 32 KB)` (what `acquire_block` asks the space for) and
`pad = padSpec start align offset`, `acquire_block` succeeds iff `pad + size ≤ bs`; otherwise the
allocation falls through to `alloc_slow` *again* although the block was acquired for this very
request. -/
theorem fresh_block_cases (vm : VMConsts) (debug : Bool) (ka km kx : Nat) (start size align offset : Nat)
    (H : FreshLegal vm ka km kx start size align offset) :
    ∃ bs, acquireBlockSizeOld debug size = some bs ∧ bs = size + 32767 - (size + 32767) % 32768 ∧
      ((padSpec start align offset + size ≤ bs ∧
          acquireBlockOld vm debug size align offset start =
            .ok (start + padSpec start align offset)
              ⟨start + padSpec start align offset + size, start + bs⟩) ∨
       (bs < padSpec start align offset + size ∧
          acquireBlockOld vm debug size align offset start = .slow)) := by
  obtain ⟨L, hk, hsm⟩ := H
  obtain ⟨bs, h1, h2, h3⟩ :=
    fresh_block_cases_pow vm debug ka km kx 15 start size align offset (by omega) L hk (by omega)
  refine ⟨bs, ?_, by omega, ?_⟩
  · unfold acquireBlockSizeOld; rw [bumpBlockMask_eq]; exact h1
  · unfold acquireBlockOld; rw [bumpBlockMask_eq]; exact h3

/-- … as an equivalence -/
theorem fresh_block_fits_iff (vm : VMConsts) (debug : Bool) (ka km kx : Nat) (start size align offset : Nat)
    (H : FreshLegal vm ka km kx start size align offset) :
    (∃ res b', acquireBlockOld vm debug size align offset start = .ok res b') ↔
      padSpec start align offset + size ≤ size + 32767 - (size + 32767) % 32768 := by
  obtain ⟨bs, _, hbe, hc⟩ := fresh_block_cases vm debug ka km kx start size align offset H
  rw [← hbe]
  rcases hc with ⟨h1, e⟩ | ⟨h1, e⟩
  · exact ⟨fun _ => h1, fun _ => ⟨_, _, e⟩⟩
  · constructor
    · rintro ⟨res, b', h⟩; rw [e] at h; cases h
    · intro h; omega

/-- when it succeeds the result has all of C03's arithmetic clauses w.r.t. the acquired block -/
theorem fresh_block_ok (vm : VMConsts) (debug : Bool) (ka km kx : Nat) (start size align offset : Nat)
    (H : FreshLegal vm ka km kx start size align offset) (res : Nat) (b' : Bump)
    (h : acquireBlockOld vm debug size align offset start = .ok res b') :
    ∃ bs, acquireBlockSizeOld debug size = some bs ∧ (res + offset) % align = 0 ∧ start ≤ res ∧
      res + size ≤ start + bs ∧ b' = ⟨res + size, start + bs⟩ := by
  obtain ⟨bs, hbs, _, hc⟩ := fresh_block_cases vm debug ka km kx start size align offset H
  obtain ⟨r, _, hge, _, hmod, _, hreq⟩ :=
    alignAllocation_good vm debug ka km kx start align offset H.legal (by have := H.small; omega) H.startAligned
  refine ⟨bs, hbs, ?_⟩
  rcases hc with ⟨h1, e⟩ | ⟨_, e⟩
  · rw [e] at h
    injection h with e1 e2
    subst e1 e2
    rw [← hreq]
    exact ⟨hmod, hge, by omega, rfl⟩
  · rw [e] at h; cases h

/-- `acquire_block` never panics on a legal request -/
theorem fresh_block_never_panics_old (vm : VMConsts) (debug : Bool) (ka km kx : Nat) (start size align offset : Nat)
    (H : FreshLegal vm ka km kx start size align offset) :
    acquireBlockOld vm debug size align offset start ≠ .panic := by
  obtain ⟨bs, _, _, hc⟩ := fresh_block_cases vm debug ka km kx start size align offset H
  rcases hc with ⟨_, e⟩ | ⟨_, e⟩ <;> rw [e] <;> intro h <;> cases h

/-- ordinary callers (`offset` a multiple of `align`, block starts are page- hence `align`-aligned)
never see the problem: no padding is needed at the start of the block -/
theorem fresh_block_fits_offset_multiple (vm : VMConsts) (debug : Bool) (ka km kx : Nat)
    (start size align offset : Nat) (H : FreshLegal vm ka km kx start size align offset)
    (hsa : align ∣ start) (hoa : align ∣ offset) :
    ∃ b', acquireBlockOld vm debug size align offset start = .ok start b' := by
  have hp : padSpec start align offset = 0 := by
    unfold padSpec
    rw [Nat.mod_eq_zero_of_dvd (Nat.dvd_add hsa hoa), Nat.sub_zero, Nat.mod_self]
  obtain ⟨bs, _, hbe, hc⟩ := fresh_block_cases vm debug ka km kx start size align offset H
  rw [hp] at hc
  rcases hc with ⟨_, e⟩ | ⟨h1, _⟩
  · exact ⟨_, e⟩
  · omega

/-- **defect `gc:bump-align-leak`, every block**: `alloc(32744, align 64, offset 8)` does NOT fit the
32 KB block `acquire_block` acquires for it, wherever the (64-byte aligned — blocks are page
aligned) block lies: `pad = 56`, `56 + 32744 = 32800 > 32768`.  `alloc` therefore re-enters
`alloc_slow`, which acquires the next fresh block with the same outcome: the call does not terminate
normally (it leaks a block per retry until the space is exhausted). -/
theorem bump_align_leak (debug : Bool) (start : Nat) (hs : 64 ∣ start) (hsm : start + 65600 < 2^63) :
    acquireBlockOld vmDefault debug 32744 64 8 start = .slow := by
  have L : LegalAlign vmDefault 6 3 6 64 8 vmDefault.minAlign :=
    ⟨rfl, rfl, rfl, by omega, ⟨1, rfl⟩, by omega, Nat.le_refl _⟩
  have hk : vmDefault.minAlign ∣ start := by
    show 8 ∣ start
    exact Nat.dvd_trans ⟨8, rfl⟩ hs
  have H : FreshLegal vmDefault 6 3 6 start 32744 64 8 := ⟨L, hk, by omega⟩
  obtain ⟨bs, _, hbe, hc⟩ := fresh_block_cases vmDefault debug 6 3 6 start 32744 64 8 H
  have hp : padSpec start 64 8 = 56 := by unfold padSpec; omega
  rw [hp] at hc
  rcases hc with ⟨h1, _⟩ | ⟨_, e⟩
  · omega
  · exact e

/-- the `decide` witness of the defect on the executable definitions (both build profiles) -/
theorem bump_align_leak_witness :
    acquireBlockSizeOld true 32744 = some 32768 ∧
    acquireBlockOld vmDefault true 32744 64 8 0x20000000000 = .slow ∧
    acquireBlockOld vmDefault false 32744 64 8 0x20000000000 = .slow ∧
    -- the same request with `offset = 0` fits, and so does one 40 bytes smaller
    acquireBlockOld vmDefault true 32744 64 0 0x20000000000 = .ok 0x20000000000 ⟨0x20000007fe8, 0x20000008000⟩ ∧
    acquireBlockOld vmDefault true 32704 64 8 0x20000000000 = .ok 0x20000000038 ⟨0x20000007ff8, 0x20000008000⟩ := by
  decide

theorem legal_align_lt {vm : VMConsts} {ka km kx align offset : Nat}
    (L : LegalAlign vm ka km kx align offset vm.minAlign) :
    align < 2^63 ∧ 0 < vm.minAlign ∧ vm.minAlign ≤ align ∧ vm.minAlign ∣ align := by
  obtain ⟨hmin, hmax, halign, ⟨hka1, hka2, hkx⟩, hoff, hoffw, hknown⟩ := L
  refine ⟨?_, ?_, ?_, ?_⟩
  · rw [halign]; exact Nat.pow_lt_pow_right (by omega) (by omega)
  · rw [hmin]; exact Nat.two_pow_pos _
  · rw [hmin, halign]; exact Nat.pow_le_pow_right (by omega) hka1
  · rw [hmin, halign]; exact Nat.pow_dvd_pow 2 hka1

/-- **`get_maximum_aligned_size(size, align)` = `size + align - MIN_ALIGNMENT`** for every legal
alignment and `MIN_ALIGNMENT`-aligned size (both profiles; no assertion fires). -/
theorem maxAlignedSize_val (vm : VMConsts) (debug : Bool) (ka km kx size align offset : Nat)
    (L : LegalAlign vm ka km kx align offset vm.minAlign)
    (hsz : size + align < 2^64) (hszk : vm.minAlign ∣ size) :
    maxAlignedSize vm debug size align vm.minAlign = some (size + align - vm.minAlign) := by
  obtain ⟨hlt, hpos, hle, hdvd⟩ := legal_align_lt L
  have L' := L
  obtain ⟨hmin, hmax, halign, ⟨hka1, hka2, hkx⟩, hoff, hoffw, hknown⟩ := L
  by_cases htriv : align ≤ vm.minAlign ∨ vm.maxAlign ≤ vm.minAlign
  · have heq := (alignAllocation_min vm debug ka km kx 0 align offset L' htriv).2
    have e : size + align - vm.minAlign = size := by omega
    rw [e]
    have hmask : (size == (size &&& wnot (vm.minAlign - 1))) = true := by
      rw [hmin, wnot_pow_mask km (by omega), and_not_mask size km (by omega) (by omega)]
      have : size % 2^km = 0 := by rw [← hmin]; exact Nat.mod_eq_zero_of_dvd hszk
      simp [this]
    have hc : (decide (vm.maxAlign ≤ vm.minAlign) || decide (align ≤ vm.minAlign)) = true := by
      rcases htriv with h | h <;> simp [h]
    unfold maxAlignedSize
    rw [hmask, hc]
    simp
  · have hgt : vm.minAlign < align := by omega
    have hmm : vm.minAlign < vm.maxAlign := by omega
    obtain ⟨_, m, _, hm, hme, _⟩ :=
      maxAlignedSize_bounds vm debug ka km kx km 0 align offset vm.minAlign size L' hmin hgt hmm
        (by omega) (Nat.dvd_zero _) (by rw [hmin]; exact hoff) hsz hszk
    rw [hm, hme]

/-- … and the repair: a block sized for `get_maximum_aligned_size(size, align)` (as
`LargeObjectAllocator` and `mi_bin` do) always fits. -/
theorem fresh_block_with_slack_fits (vm : VMConsts) (debug : Bool) (ka km kx : Nat)
    (start size align offset m bs : Nat) (H : FreshLegal vm ka km kx start size align offset)
    (hszk : vm.minAlign ∣ size)
    (hm : maxAlignedSize vm debug size align vm.minAlign = some m)
    (hbs : m ≤ bs) (hb2 : start + bs < 2^63) :
    ∃ res b', bumpAllocAligned vm debug ⟨start, start + bs⟩ size align offset = .ok res b' ∧
      (res + offset) % align = 0 ∧ start ≤ res ∧ res + size ≤ start + bs := by
  have hsm := H.small
  obtain ⟨_, hpos, hle, _⟩ := legal_align_lt H.legal
  rw [maxAlignedSize_val vm debug ka km kx size align offset H.legal (by omega) hszk] at hm
  cases hm
  have HB : BumpLegal vm ka km kx ⟨start, start + bs⟩ size align offset :=
    ⟨H.legal, H.startAligned, by simp only; omega, by omega⟩
  obtain ⟨res, b', h, h1, h2, h3, _⟩ :=
    fresh_buffer_fits vm debug ka km kx start bs size align offset HB (by omega)
  exact ⟨res, b', h, h1, h2, h3⟩

/-! ### the repaired `acquire_block` (this tree): the block is sized for `get_maximum_aligned_size` -/

/-- generic block size `2^k` -/
private theorem fresh_block_always_fits_pow (vm : VMConsts) (debug : Bool) (ka km kx k : Nat)
    (start size align offset : Nat) (hk : k < 64)
    (L : LegalAlign vm ka km kx align offset vm.minAlign) (hst : vm.minAlign ∣ start)
    (hszk : vm.minAlign ∣ size) (hsm : start + size + 2^k + align < 2^63) :
    ∃ bs res b', acquireBlockSizeWith vm debug (2^k - 1) size align = some bs ∧
      bs = (size + align - vm.minAlign) + (2^k - 1) - ((size + align - vm.minAlign) + (2^k - 1)) % 2^k ∧
      acquireBlockWith vm debug (2^k - 1) size align offset start = .ok res b' ∧
      (res + offset) % align = 0 ∧ start ≤ res ∧ res + size ≤ start + bs ∧
      b' = ⟨res + size, start + bs⟩ ∧ res = start + padSpec start align offset := by
  have hp : 0 < 2^k := Nat.two_pow_pos _
  obtain ⟨_, hpos, hle, _⟩ := legal_align_lt L
  have hm := maxAlignedSize_val vm debug ka km kx size align offset L (by omega) hszk
  have hru := roundUpMask_pow debug (size + align - vm.minAlign) k hk (by omega)
  have hbs : acquireBlockSizeWith vm debug (2^k - 1) size align =
      some ((size + align - vm.minAlign) + (2^k - 1) - ((size + align - vm.minAlign) + (2^k - 1)) % 2^k) := by
    unfold acquireBlockSizeWith
    rw [hm]
    exact hru
  generalize hB : (size + align - vm.minAlign) + (2^k - 1) -
    ((size + align - vm.minAlign) + (2^k - 1)) % 2^k = bs at hbs ⊢
  have hml := Nat.mod_lt ((size + align - vm.minAlign) + (2^k - 1)) hp
  have hlim : start + bs < 2^64 := by omega
  have hacq : acquireBlockWith vm debug (2^k - 1) size align offset start =
      bumpAllocAligned vm debug ⟨start, start + bs⟩ size align offset := by
    unfold acquireBlockWith
    rw [hbs]
    simp only [cadd_fits debug _ _ hlim]
  have HB : BumpLegal vm ka km kx ⟨start, start + bs⟩ size align offset :=
    ⟨L, hst, by simp only; omega, by omega⟩
  obtain ⟨res, b', h, h1, h2, h3, h4⟩ :=
    fresh_buffer_fits vm debug ka km kx start bs size align offset HB (by omega)
  obtain ⟨_, _, _, _, _, h5, _⟩ :=
    bump_fast_ok vm debug ka km kx ⟨start, start + bs⟩ size align offset HB res b' h
  exact ⟨bs, res, b', hbs, rfl, by rw [hacq]; exact h, h1, h2, h3, h4, h5⟩

/-- **the repair restores C03's termination clause for the bump allocator
(`fresh_block_always_fits`)**: in this tree `acquire_block` sizes the block for
`get_maximum_aligned_size(size, align)`; for EVERY legal request (`FreshLegal`, `size` a multiple of
`MIN_ALIGNMENT`) the allocation into the block acquired for it succeeds — it never comes back
`.slow` (no second trip through `alloc_slow`, no leaked block) and never panics — and the result
has all of C03's arithmetic clauses w.r.t. the acquired block `[start, start + block_size)`. -/
theorem fresh_block_always_fits (vm : VMConsts) (debug : Bool) (ka km kx : Nat)
    (start size align offset : Nat) (H : FreshLegal vm ka km kx start size align offset)
    (hszk : vm.minAlign ∣ size) :
    ∃ blockSize res b', acquireBlockSize vm debug size align = some blockSize ∧
      blockSize = (size + align - vm.minAlign) + 32767 - ((size + align - vm.minAlign) + 32767) % 32768 ∧
      acquireBlock vm debug size align offset start = .ok res b' ∧
      (res + offset) % align = 0 ∧ start ≤ res ∧ res + size ≤ start + blockSize ∧
      b' = ⟨res + size, start + blockSize⟩ ∧ res = start + padSpec start align offset := by
  obtain ⟨L, hk, hsm⟩ := H
  obtain ⟨bs, res, b', h1, h2, h3, h4⟩ :=
    fresh_block_always_fits_pow vm debug ka km kx 15 start size align offset (by omega) L hk hszk (by omega)
  refine ⟨bs, res, b', ?_, by omega, ?_, h4⟩
  · unfold acquireBlockSize; rw [bumpBlockMask_eq]; exact h1
  · unfold acquireBlock; rw [bumpBlockMask_eq]; exact h3

/-- the repaired `acquire_block` never panics on a legal request (and, by `fresh_block_always_fits`,
never answers `.slow` either) -/
theorem fresh_block_never_panics (vm : VMConsts) (debug : Bool) (ka km kx : Nat)
    (start size align offset : Nat) (H : FreshLegal vm ka km kx start size align offset)
    (hszk : vm.minAlign ∣ size) :
    acquireBlock vm debug size align offset start ≠ .panic ∧
    acquireBlock vm debug size align offset start ≠ .slow := by
  obtain ⟨_, _, _, _, _, e, _⟩ := fresh_block_always_fits vm debug ka km kx start size align offset H hszk
  rw [e]
  exact ⟨fun h => (by cases h), fun h => (by cases h)⟩

/-- generic mask: when `get_maximum_aligned_size` adds nothing the two versions are the same function -/
private theorem acquireBlockWith_eq_old (vm : VMConsts) (debug : Bool) (mask size align offset start : Nat)
    (h : maxAlignedSize vm debug size align vm.minAlign = some size) :
    acquireBlockWith vm debug mask size align offset start =
      acquireBlockWithOld vm debug mask size align offset start := by
  have hs : acquireBlockSizeWith vm debug mask size align = roundUpMask debug mask size := by
    unfold acquireBlockSizeWith; rw [h]
  unfold acquireBlockWith acquireBlockWithOld
  rw [hs]

/-- **`acquireBlock_eq_old_of_min_align`**: for `align = MIN_ALIGNMENT` (what ordinary callers ask
for) the repair changes nothing: same block size, same outcome, for every `offset` and `start`. -/
theorem acquireBlock_eq_old_of_min_align (vm : VMConsts) (debug : Bool) (ka km kx : Nat)
    (start size align offset : Nat) (L : LegalAlign vm ka km kx align offset vm.minAlign)
    (hmin : align = vm.minAlign) (hszk : vm.minAlign ∣ size) (hsz : size + align < 2^64) :
    acquireBlockSize vm debug size align = acquireBlockSizeOld debug size ∧
    acquireBlock vm debug size align offset start = acquireBlockOld vm debug size align offset start := by
  obtain ⟨_, hpos, _, _⟩ := legal_align_lt L
  have hm := maxAlignedSize_val vm debug ka km kx size align offset L hsz hszk
  have e : size + align - vm.minAlign = size := by omega
  rw [e] at hm
  constructor
  · unfold acquireBlockSize acquireBlockSizeOld acquireBlockSizeWith
    rw [hm]
  · unfold acquireBlock acquireBlockOld
    exact acquireBlockWith_eq_old vm debug _ size align offset start hm

/-! ### Immix: the same bump pointer on holes and clean blocks -/

/-- **Immix hole** (`alloc_slow_hot` → `acquire_recyclable_lines` → `alloc`): a request whose
worst-case aligned size is at most one line (`get_maximum_aligned_size(size, align) ≤ Line::BYTES`,
the branch condition in `ImmixAllocator::alloc`) fits EVERY non-empty hole `[s, e)`; this is the
`debug_assert!` in `acquire_recyclable_lines`. -/
theorem immix_hole_fits (vm : VMConsts) (debug : Bool) (ka km kx : Nat)
    (base lineBytes s e size align offset : Nat) (hse : s < e)
    (L : LegalAlign vm ka km kx align offset vm.minAlign)
    (hbase : vm.minAlign ∣ base) (hline : vm.minAlign ∣ lineBytes)
    (hsmall : base + e * lineBytes + align < 2^63) (hsz : size < 2^63)
    (hfit : size + align ≤ lineBytes + vm.minAlign) :
    ∃ res b', bumpAllocAligned vm debug (holeBump base lineBytes s e) size align offset = .ok res b' ∧
      (res + offset) % align = 0 ∧ base + s * lineBytes ≤ res ∧ res + size ≤ base + e * lineBytes ∧
      b' = ⟨res + size, base + e * lineBytes⟩ := by
  have hcap : base + e * lineBytes = base + s * lineBytes + (e - s) * lineBytes := by
    have : s * lineBytes + (e - s) * lineBytes = e * lineBytes := by
      rw [← Nat.add_mul]; congr 1; omega
    omega
  have hone : lineBytes ≤ (e - s) * lineBytes := Nat.le_mul_of_pos_left _ (by omega)
  have hsle : s * lineBytes ≤ e * lineBytes := Nat.mul_le_mul_right _ (by omega)
  unfold holeBump
  rw [hcap]
  have HB : BumpLegal vm ka km kx ⟨base + s * lineBytes, base + s * lineBytes + (e - s) * lineBytes⟩
      size align offset :=
    ⟨L, Nat.dvd_add hbase (Nat.dvd_mul_left_of_dvd hline s), by simp only; omega, hsz⟩
  exact fresh_buffer_fits vm debug ka km kx _ _ size align offset HB (by omega)

/-- **Immix clean block** (`acquire_clean_block` → `alloc` / `overflow_alloc`): every request up to
`MAX_IMMIX_OBJECT_SIZE = Block::BYTES / 2` fits a fresh block of `blockBytes ≥ 2 * align` bytes. -/
theorem immix_clean_block_fits (vm : VMConsts) (debug : Bool) (ka km kx : Nat)
    (start blockBytes size align offset : Nat)
    (L : LegalAlign vm ka km kx align offset vm.minAlign) (hst : vm.minAlign ∣ start)
    (hsmall : start + blockBytes + align < 2^63)
    (hsz : 2 * size ≤ blockBytes) (hal : 2 * align ≤ blockBytes) :
    ∃ res b', bumpAllocAligned vm debug (bumpRefill start blockBytes) size align offset = .ok res b' ∧
      (res + offset) % align = 0 ∧ start ≤ res ∧ res + size ≤ start + blockBytes ∧
      b' = ⟨res + size, start + blockBytes⟩ := by
  unfold bumpRefill
  have HB : BumpLegal vm ka km kx ⟨start, start + blockBytes⟩ size align offset :=
    ⟨L, hst, by simp only; omega, by omega⟩
  exact fresh_buffer_fits vm debug ka km kx _ _ size align offset HB (by omega)

/-! ## (2) large objects: `LargeObjectAllocator::alloc_slow_once` + `alloc` -/

/-- a legal LOS request and the cell `allocate_pages` returned for it -/
structure LosLegal (vm : VMConsts) (ka km kx : Nat) (size align offset cell : Nat) : Prop where
  legal : LegalAlign vm ka km kx align offset vm.minAlign
  sizeAligned : vm.minAlign ∣ size
  cellAligned : vm.minAlign ∣ cell
  cellSmall : cell + align < 2^63
  sizeSmall : size + align + 4095 < 2^64

/-- **C03, large-object allocator (`los_alloc_within_pages`)**: for every power-of-two
`MIN_ALIGNMENT ≤ align ≤ MAX_ALIGNMENT`, `offset` and `size` multiples of `MIN_ALIGNMENT`, the call
never panics, reserves `pages = ⌈(size + align - MIN_ALIGNMENT) / 4096⌉` pages and returns the least
admissible address `res` in the cell; `(res + offset) % align = 0`, `cell ≤ res`, and
`[res, res + size)` lies inside the `pages` pages of the cell. -/
theorem los_alloc_within_pages (vm : VMConsts) (debug : Bool) (ka km kx size align offset cell : Nat)
    (H : LosLegal vm ka km kx size align offset cell) :
    ∃ pages res, losAllocFull vm debug size align offset cell = some (pages, res) ∧
      pages = (size + align - vm.minAlign + 4095) / 4096 ∧
      (res + offset) % align = 0 ∧ cell ≤ res ∧ res + size ≤ cell + pages * 4096 ∧
      res = cell + padSpec cell align offset := by
  obtain ⟨L, hsk, hck, hcs, hss⟩ := H
  obtain ⟨_, hpos, hle, _⟩ := legal_align_lt L
  have hm := maxAlignedSize_val vm debug ka km kx size align offset L (by omega) hsk
  obtain ⟨r, hr, hge, hpad, hmod, _, hreq⟩ :=
    alignAllocation_good vm debug ka km kx cell align offset L hcs hck
  have hpg := pagesUp_eq_ceilDiv (size + align - vm.minAlign) (by omega)
  refine ⟨_, r, ?_, rfl, hmod, hge, by omega, hreq⟩
  simp only [losAllocFull, losPages, hm, losResult, hr, hpg]

/-- **the seeded regression, whole family**: with `pages = bytes_to_pages_up(size)` (no alignment
slack) EVERY legal request whose size is a whole number of pages and whose offset is not a multiple
of the alignment runs past the end of its pages (LOS cells are page aligned). -/
theorem los_no_slack_overflows (vm : VMConsts) (debug : Bool) (ka km kx size align offset cell : Nat)
    (H : LosLegal vm ka km kx size align offset cell) (hka : ka ≤ 12)
    (hcell : 4096 ∣ cell) (hsize : 4096 ∣ size) (hoff : ¬ align ∣ offset) :
    ∃ pages res, losAllocNoSlack vm debug size align offset cell = some (pages, res) ∧
      pages * 4096 = size ∧ cell + pages * 4096 < res + size := by
  obtain ⟨L, hsk, hck, hcs, hss⟩ := H
  obtain ⟨r, hr, hge, hpad, hmod, _, hreq⟩ :=
    alignAllocation_good vm debug ka km kx cell align offset L hcs hck
  have hpg := pagesUp_eq_ceilDiv size (by omega)
  have hal : align ∣ cell := by
    rw [L.halign]
    have : (2:Nat)^ka ∣ 2^12 := Nat.pow_dvd_pow 2 hka
    have e : (2:Nat)^12 = 4096 := by decide
    rw [e] at this
    exact Nat.dvd_trans this hcell
  have hne : r ≠ cell := by
    intro h
    apply hoff
    rw [h] at hmod
    exact (Nat.dvd_add_iff_right hal).2 (Nat.dvd_of_mod_eq_zero hmod)
  have hsz : (size + 4095) / 4096 * 4096 = size := by
    have := Nat.mod_eq_zero_of_dvd hsize; omega
  refine ⟨(size + 4095) / 4096, r, ?_, hsz, by omega⟩
  simp only [losAllocNoSlack, losPagesNoSlack, losResult, hr, hpg]

/-- mmtk-core's default `VMBinding` constants: `MIN_ALIGNMENT = 4`, `MAX_ALIGNMENT = 8` -/
def vmMmtkDefault : VMConsts := { minAlign := 4, maxAlign := 8 }

/-- **`los_pages_without_slack_too_small`** — kernel-evaluated witnesses on the executable
definitions that dropping the alignment slack is wrong, for two VMs: legal inputs for which
`res + size > cell + pages * 4096`, although the real computation (`losAllocFull`, one page more)
keeps the object inside its pages. -/
theorem los_pages_without_slack_too_small :
    -- (a) the harness VM (MIN_ALIGNMENT 8, MAX_ALIGNMENT 64): size 8192, align 16, offset 8
    (LosLegal vmDefault 4 3 6 8192 16 8 0x30000000000 ∧
      losAllocNoSlack vmDefault true 8192 16 8 0x30000000000 = some (2, 0x30000000008) ∧
      0x30000000008 + 8192 > 0x30000000000 + 2 * 4096 ∧
      losAllocFull vmDefault true 8192 16 8 0x30000000000 = some (3, 0x30000000008) ∧
      0x30000000008 + 8192 ≤ 0x30000000000 + 3 * 4096) ∧
    -- (b) the default VMBinding constants (MIN_ALIGNMENT 4, MAX_ALIGNMENT 8): size 8192, align 8, offset 4
    (LosLegal vmMmtkDefault 3 2 3 8192 8 4 0x30000000000 ∧
      losAllocNoSlack vmMmtkDefault true 8192 8 4 0x30000000000 = some (2, 0x30000000004) ∧
      0x30000000004 + 8192 > 0x30000000000 + 2 * 4096 ∧
      losAllocFull vmMmtkDefault true 8192 8 4 0x30000000000 = some (3, 0x30000000004) ∧
      0x30000000004 + 8192 ≤ 0x30000000000 + 3 * 4096) ∧
    -- (c) release profile, size just below a page multiple
    (losAllocNoSlack vmDefault false 12280 64 8 0x30000000000 = some (3, 0x30000000038) ∧
      0x30000000038 + 12280 > 0x30000000000 + 3 * 4096) := by
  refine ⟨⟨⟨⟨rfl, rfl, rfl, by omega, ⟨1, rfl⟩, by omega, Nat.le_refl _⟩,
      Nat.dvd_of_mod_eq_zero (by decide), Nat.dvd_of_mod_eq_zero (by decide), by decide, by decide⟩,
      by decide, by decide, by decide, by decide⟩,
    ⟨⟨⟨rfl, rfl, rfl, by omega, ⟨1, rfl⟩, by omega, Nat.le_refl _⟩,
      Nat.dvd_of_mod_eq_zero (by decide), Nat.dvd_of_mod_eq_zero (by decide), by decide, by decide⟩,
      by decide, by decide, by decide, by decide⟩,
    by decide, by decide⟩

/-! ## (3) free-list (mark-sweep) allocator: `FreeListAllocator::alloc` -/

section FreeList
open Mmtk.MsBins Mmtk.Gen.Bins

theorem msVm_legal (ka align offset : Nat) (halign : align = 2^ka) (hka : 3 ≤ ka ∧ ka ≤ 6)
    (hoff : 8 ∣ offset) (hoffw : offset < 2^63) :
    LegalAlign MsBins.vm ka 3 6 align offset MsBins.vm.minAlign :=
  ⟨by decide, by decide, halign, by omega, hoff, hoffw, Nat.le_refl _⟩

/-- **C03, free-list allocator**: for every request `mi_bin` accepts (C35 `bin_fits_partial`) the
selected bin `b` is a real bin and, for EVERY cell `start + k * binSize b` of a block of that size
class, `align_allocation` inside the cell never panics and returns an address `res` with
`(res + offset) % align = 0`, `cell ≤ res` and `res + size ≤ cell + binSize b` — the `debug_assert!`
in `FreeListAllocator::alloc` — and inside the block. -/
theorem freelist_alloc_within_cell (debug : Bool) (ka size align offset start : Nat)
    (halign : align = 2^ka) (hka : 3 ≤ ka ∧ ka ≤ 6) (hoff : 8 ∣ offset) (hoffw : offset < 2^63)
    (hs : alignedSize size align ≤ maxBinSize) (hd : debug = true → size % minAlign = 0)
    (hstart : 8 ∣ start) (hend : start + 65536 + 64 < 2^63) :
    ∃ b, miBin debug size align = some b ∧ Fits b (alignedSize size align) ∧
      ∀ k, k < blockBytes / binSize b →
        ∃ res, alignAllocation MsBins.vm debug (start + k * binSize b) align offset MsBins.vm.minAlign
            = some res ∧
          (res + offset) % align = 0 ∧ start + k * binSize b ≤ res ∧
          res + size ≤ start + k * binSize b + binSize b ∧
          start ≤ res ∧ res + size ≤ start + blockBytes ∧
          res = start + k * binSize b + padSpec (start + k * binSize b) align offset := by
  have h3 : (2:Nat)^3 = 8 := by decide
  have h6 : (2:Nat)^6 = 64 := by decide
  have hal : 8 ≤ align ∧ align ≤ 64 := by
    rw [halign, ← h3, ← h6]
    exact ⟨Nat.pow_le_pow_right (by omega) hka.1, Nat.pow_le_pow_right (by omega) hka.2⟩
  have ha : minAlign ≤ align ∧ align ≤ maxAlign := by rw [minAlign_eq, maxAlign_eq]; exact hal
  obtain ⟨b, hb, hfit⟩ := bin_fits_partial debug size align ha hs hd
  refine ⟨b, hb, hfit, ?_⟩
  obtain ⟨hb1, hb2, hsz, _⟩ := hfit
  obtain ⟨hcpos, hcle, hc8⟩ := bin_cell_size_legal b hb2
  rw [intptrSize_eq] at hc8
  have hB : blockBytes = 65536 := rfl
  rw [hB] at hcle ⊢
  intro k hk
  have hkin : k * binSize b + binSize b ≤ 65536 := by
    have h1 : (k + 1) * binSize b ≤ (65536 / binSize b) * binSize b := Nat.mul_le_mul_right _ hk
    have h2 := Nat.div_mul_le_self 65536 (binSize b)
    rw [Nat.add_mul, Nat.one_mul] at h1
    omega
  have L := msVm_legal ka align offset halign hka hoff hoffw
  have hvm : MsBins.vm.minAlign = 8 := rfl
  have hcell8 : MsBins.vm.minAlign ∣ start + k * binSize b := by
    rw [hvm]
    exact Nat.dvd_add hstart (Nat.dvd_mul_left_of_dvd (Nat.dvd_of_mod_eq_zero hc8) k)
  obtain ⟨r, hr, hge, hpad, hmod, _, hreq⟩ :=
    alignAllocation_good MsBins.vm debug ka 3 6 (start + k * binSize b) align offset L (by omega) hcell8
  rw [hvm] at hpad
  refine ⟨r, hr, hmod, hge, ?_, by omega, ?_, hreq⟩
  · rcases alignedSize_cases size align with ⟨_, e⟩ | ⟨_, e⟩ <;> omega
  · rcases alignedSize_cases size align with ⟨_, e⟩ | ⟨_, e⟩ <;> omega

end FreeList

/-! ## (4) C03's arithmetic clauses, per allocator -/

/-- C03 on one successful allocation, w.r.t. the memory `granted` to the allocator for it: non-zero,
`(res + offset) % align = 0`, and `[res, res + size) ⊆ granted` (same `Region` vocabulary as the C02
model, so `granted ⊆ space` carries over by `Region.sub_trans`). -/
structure ResultGood (granted : Region) (res size align offset : Nat) : Prop where
  nonzero : res ≠ 0
  aligned : (res + offset) % align = 0
  inside : (⟨res, size⟩ : Region).sub granted

/-- **bump allocator / Immix bump pointers**: every fast-path success is good w.r.t. the thread-local
buffer `[cursor, limit)`; the buffer that remains is inside the old one and disjoint from the object. -/
theorem bump_alloc_result_good (vm : VMConsts) (debug : Bool) (ka km kx : Nat) (b : Bump)
    (size align offset : Nat) (H : BumpLegal vm ka km kx b size align offset) (hnz : b.cursor ≠ 0)
    (res : Nat) (b' : Bump) (h : bumpAllocAligned vm debug b size align offset = .ok res b') :
    ResultGood b.region res size align offset ∧ b'.region.sub b.region ∧
      (⟨res, size⟩ : Region).disjoint b'.region := by
  obtain ⟨h1, h2, h3, h4, h5, _⟩ := bump_fast_ok vm debug ka km kx b size align offset H res b' h
  refine ⟨⟨by omega, h1, ?_⟩, ?_, ?_⟩ <;>
    simp only [Region.sub, Region.stop, Region.disjoint, Bump.region] <;> omega

/-- **bump allocator, slow path**: when `acquire_block` succeeds the result is good w.r.t. the
acquired block `[start, start + block_size)`. -/
theorem acquire_block_result_good_old (vm : VMConsts) (debug : Bool) (ka km kx : Nat)
    (start size align offset : Nat) (H : FreshLegal vm ka km kx start size align offset)
    (hnz : start ≠ 0) (res : Nat) (b' : Bump)
    (h : acquireBlockOld vm debug size align offset start = .ok res b') :
    ∃ bs, acquireBlockSizeOld debug size = some bs ∧ ResultGood ⟨start, bs⟩ res size align offset ∧
      b' = ⟨res + size, start + bs⟩ := by
  obtain ⟨bs, hbs, h1, h2, h3, h4⟩ := fresh_block_ok vm debug ka km kx start size align offset H res b' h
  refine ⟨bs, hbs, ⟨by omega, h1, ?_⟩, h4⟩
  simp only [Region.sub, Region.stop]; omega

/-- **bump allocator, slow path, this tree**: `acquire_block` ALWAYS succeeds on a legal request and
the result is good w.r.t. the acquired block `[start, start + block_size)`. -/
theorem acquire_block_result_good (vm : VMConsts) (debug : Bool) (ka km kx : Nat)
    (start size align offset : Nat) (H : FreshLegal vm ka km kx start size align offset)
    (hszk : vm.minAlign ∣ size) (hnz : start ≠ 0) :
    ∃ bs res b', acquireBlockSize vm debug size align = some bs ∧
      acquireBlock vm debug size align offset start = .ok res b' ∧
      ResultGood ⟨start, bs⟩ res size align offset ∧ b' = ⟨res + size, start + bs⟩ := by
  obtain ⟨bs, res, b', hbs, _, h, h1, h2, h3, h4, _⟩ :=
    fresh_block_always_fits vm debug ka km kx start size align offset H hszk
  refine ⟨bs, res, b', hbs, h, ⟨by omega, h1, ?_⟩, h4⟩
  simp only [Region.sub, Region.stop]; omega

/-- **Immix, recycled hole**: the allocation into a fresh hole is good w.r.t. the hole's lines. -/
theorem immix_hole_result_good (vm : VMConsts) (debug : Bool) (ka km kx : Nat)
    (base lineBytes s e size align offset : Nat) (hse : s < e)
    (L : LegalAlign vm ka km kx align offset vm.minAlign)
    (hbase : vm.minAlign ∣ base) (hnz : base ≠ 0) (hline : vm.minAlign ∣ lineBytes)
    (hsmall : base + e * lineBytes + align < 2^63) (hsz : size < 2^63)
    (hfit : size + align ≤ lineBytes + vm.minAlign) :
    ∃ res b', bumpAllocAligned vm debug (holeBump base lineBytes s e) size align offset = .ok res b' ∧
      ResultGood (holeRegion base lineBytes (s, e)) res size align offset := by
  obtain ⟨res, b', h, h1, h2, h3, _⟩ :=
    immix_hole_fits vm debug ka km kx base lineBytes s e size align offset hse L hbase hline hsmall hsz hfit
  have hcap : s * lineBytes + (e - s) * lineBytes = e * lineBytes := by
    rw [← Nat.add_mul]; congr 1; omega
  refine ⟨res, b', h, ⟨by omega, h1, ?_⟩⟩
  simp only [Region.sub, Region.stop, holeRegion]; omega

/-- **large-object allocator**: every call is good w.r.t. the page run reserved for it. -/
theorem los_alloc_result_good (vm : VMConsts) (debug : Bool) (ka km kx size align offset cell : Nat)
    (H : LosLegal vm ka km kx size align offset cell) (hnz : cell ≠ 0) :
    ∃ pages res, losAllocFull vm debug size align offset cell = some (pages, res) ∧
      ResultGood (losAlloc cell pages 4096) res size align offset := by
  obtain ⟨pages, res, h, _, h1, h2, h3, _⟩ := los_alloc_within_pages vm debug ka km kx size align offset cell H
  refine ⟨pages, res, h, ⟨by omega, h1, ?_⟩⟩
  simp only [Region.sub, Region.stop, losAlloc]; omega

section FreeList
open Mmtk.MsBins Mmtk.Gen.Bins

/-- **free-list allocator**: on a block of the size class `mi_bin(size, align)` whose free list holds
cell indices of the block, `alloc` either finds the list empty or pops a cell and returns an address
that is good w.r.t. that cell; `pad + size ≤ cell_size` is the premise `hfit` of C02's `cell_guard`. -/
theorem freelist_alloc_result_good (debug : Bool) (ka size align offset b : Nat) (blk : CellBlock)
    (halign : align = 2^ka) (hka : 3 ≤ ka ∧ ka ≤ 6) (hoff : 8 ∣ offset) (hoffw : offset < 2^63)
    (hs : alignedSize size align ≤ maxBinSize) (hd : debug = true → size % minAlign = 0)
    (hbin : miBin debug size align = some b) (hcell : blk.cell = binSize b)
    (hbase : 8 ∣ blk.base) (hnz : blk.base ≠ 0) (hend : blk.base + 65536 + 64 < 2^63)
    (hfl : ∀ k, k ∈ blk.freeList → k < blockBytes / binSize b) :
    (blk.freeList = [] ∧ cellAllocAligned MsBins.vm debug blk align offset = some none) ∨
    ∃ k cell res blk', cellAlloc blk = some (cell, blk') ∧ cell = blk.base + k * blk.cell ∧
      cellAllocAligned MsBins.vm debug blk align offset = some (some (cell, res, blk')) ∧
      ResultGood (cellRegion blk.base blk.cell k) res size align offset ∧
      (res - cell) + size ≤ blk.cell := by
  obtain ⟨b0, hb0, _, hall⟩ :=
    freelist_alloc_within_cell debug ka size align offset blk.base halign hka hoff hoffw hs hd hbase hend
  rw [hbin] at hb0
  cases hb0
  cases hl : blk.freeList with
  | nil =>
    left
    refine ⟨rfl, ?_⟩
    simp only [cellAllocAligned, cellAlloc, hl]
  | cons k rest =>
    right
    obtain ⟨res, hr, h1, h2, h3, h4, h5, _⟩ := hall k (hfl k (by rw [hl]; exact List.mem_cons_self))
    rw [← hcell] at hr h2 h3
    refine ⟨k, blk.base + k * blk.cell, res, { blk with freeList := rest }, ?_, rfl, ?_, ⟨by omega, h1, ?_⟩, by omega⟩
    · simp only [cellAlloc, hl]
    · simp only [cellAllocAligned, cellAlloc, hl, hr]
    · simp only [Region.sub, Region.stop, cellRegion]; omega

end FreeList

/-- **`alloc_result_good`** — the three allocator families side by side: whenever the bump pointer
(BumpAllocator, ImmixAllocator), the large-object allocator or the free-list allocator returns an
address for a legal request, it is non-zero (given a non-zero buffer / cell / block), satisfies
`(res + offset) % align = 0`, and `[res, res + size)` lies inside the memory granted for it. -/
theorem alloc_result_good :
    (∀ (vm : VMConsts) (debug : Bool) (ka km kx : Nat) (b : Bump) (size align offset : Nat),
      BumpLegal vm ka km kx b size align offset → b.cursor ≠ 0 →
      ∀ (res : Nat) (b' : Bump), bumpAllocAligned vm debug b size align offset = .ok res b' →
        ResultGood b.region res size align offset) ∧
    (∀ (vm : VMConsts) (debug : Bool) (ka km kx size align offset cell : Nat),
      LosLegal vm ka km kx size align offset cell → cell ≠ 0 →
      ∃ pages res, losAllocFull vm debug size align offset cell = some (pages, res) ∧
        ResultGood (losAlloc cell pages 4096) res size align offset) ∧
    (∀ (debug : Bool) (ka size align offset b : Nat) (blk : CellBlock),
      align = 2^ka → 3 ≤ ka ∧ ka ≤ 6 → 8 ∣ offset → offset < 2^63 →
      Mmtk.MsBins.alignedSize size align ≤ Mmtk.Gen.Bins.maxBinSize →
      (debug = true → size % Mmtk.Gen.Bins.minAlign = 0) →
      Mmtk.MsBins.miBin debug size align = some b → blk.cell = Mmtk.MsBins.binSize b →
      8 ∣ blk.base → blk.base ≠ 0 → blk.base + 65536 + 64 < 2^63 →
      (∀ k, k ∈ blk.freeList → k < Mmtk.Gen.Bins.blockBytes / Mmtk.MsBins.binSize b) →
      ∀ cell res blk', cellAllocAligned Mmtk.MsBins.vm debug blk align offset = some (some (cell, res, blk')) →
        ∃ k, cell = blk.base + k * blk.cell ∧
          ResultGood (cellRegion blk.base blk.cell k) res size align offset) := by
  refine ⟨?_, ?_, ?_⟩
  · intro vm debug ka km kx b size align offset H hnz res b' h
    exact (bump_alloc_result_good vm debug ka km kx b size align offset H hnz res b' h).1
  · intro vm debug ka km kx size align offset cell H hnz
    exact los_alloc_result_good vm debug ka km kx size align offset cell H hnz
  · intro debug ka size align offset b blk h1 h2 h3 h4 h5 h6 h7 h8 h9 h10 h11 h12 cell res blk' h
    rcases freelist_alloc_result_good debug ka size align offset b blk h1 h2 h3 h4 h5 h6 h7 h8 h9 h10 h11 h12
      with ⟨_, e⟩ | ⟨k, cell0, res0, blk0, _, hc, e, hg, _⟩
    · rw [e] at h; cases h
    · rw [e] at h
      cases h
      exact ⟨k, hc, hg⟩

/-! ## Hypotheses are satisfiable; boundary examples -/

example : BumpLegal vmDefault 5 3 6 ⟨0x20000000010, 0x20000008000⟩ 152 32 8 :=
  ⟨⟨rfl, rfl, rfl, by omega, ⟨1, rfl⟩, by omega, Nat.le_refl _⟩, Nat.dvd_of_mod_eq_zero (by decide),
    by decide, by decide⟩
example : bumpAllocAligned vmDefault true ⟨0x20000000010, 0x20000008000⟩ 152 32 8 =
    .ok 0x20000000018 ⟨0x200000000b0, 0x20000008000⟩ := by decide
example : padSpec 0x20000000010 32 8 = 8 := by decide
/-- the last 152 bytes of the buffer: fits exactly; one more byte of padding would not -/
example : bumpAllocAligned vmDefault true ⟨0x20000007f68, 0x20000008000⟩ 152 8 0 =
    .ok 0x20000007f68 ⟨0x20000008000, 0x20000008000⟩ := by decide
example : bumpAllocAligned vmDefault true ⟨0x20000007f68, 0x20000008000⟩ 152 16 0 = .slow := by decide
/-- an illegal offset trips the debug assertion -/
example : bumpAllocAligned vmDefault true ⟨0x20000000010, 0x20000008000⟩ 152 32 4 = .panic := by decide
example : FreshLegal vmDefault 6 3 6 0x20000000000 32744 64 8 :=
  ⟨⟨rfl, rfl, rfl, by omega, ⟨1, rfl⟩, by omega, Nat.le_refl _⟩, Nat.dvd_of_mod_eq_zero (by decide), by decide⟩
/-- the request of `gc:bump-align-leak` now succeeds: the block is 64 KB (`32744 + 64 - 8 = 32800`
rounded up), the object sits 56 bytes into it; the old function answered `.slow` -/
example : acquireBlockSize vmDefault true 32744 64 = some 65536 ∧
    acquireBlock vmDefault true 32744 64 8 0x20000000000 =
      .ok 0x20000000038 ⟨0x20000008020, 0x20000010000⟩ ∧
    acquireBlock vmDefault false 32744 64 8 0x20000000000 =
      .ok 0x20000000038 ⟨0x20000008020, 0x20000010000⟩ ∧
    acquireBlockOld vmDefault true 32744 64 8 0x20000000000 = .slow := by decide
/-- with the minimum alignment nothing changed -/
example : acquireBlock vmDefault true 32744 8 0 0x20000000000 =
    acquireBlockOld vmDefault true 32744 8 0 0x20000000000 := by decide
example : LosLegal vmDefault 6 3 6 65536 64 8 0x30000000000 :=
  ⟨⟨rfl, rfl, rfl, by omega, ⟨1, rfl⟩, by omega, Nat.le_refl _⟩, Nat.dvd_of_mod_eq_zero (by decide),
    Nat.dvd_of_mod_eq_zero (by decide), by decide, by decide⟩
example : losAllocFull vmDefault true 65536 64 8 0x30000000000 = some (17, 0x30000000038) := by decide
/-- Immix: a 1-line hole (lines 3..4 of the block at `0x20000008000`) serves a 200-byte, 64-aligned request -/
example : bumpAllocAligned vmDefault true (holeBump 0x20000008000 256 3 4) 200 64 0 =
    .ok 0x20000008300 ⟨0x200000083c8, 0x20000008400⟩ := by decide
/-- free-list: hypotheses of `freelist_alloc_result_good` for `(24, 16, 8)` on a block of bin 4 (32-byte cells) -/
example : Mmtk.MsBins.alignedSize 24 16 ≤ Mmtk.Gen.Bins.maxBinSize ∧
    Mmtk.MsBins.miBin true 24 16 = some 4 ∧ Mmtk.MsBins.binSize 4 = 32 ∧
    (match cellAllocAligned Mmtk.MsBins.vm true ⟨0x40000000000, 32, [5, 2]⟩ 16 8 with
      | some (some (c, r, b')) => (c, r, b'.base, b'.cell, b'.freeList)
      | _ => (0, 0, 0, 0, [])) = (0x400000000a0, 0x400000000a8, 0x40000000000, 32, [2]) := by decide +kernel

end Mmtk.AllocArith
