import MmtkModel.Model.AllocArith
import MmtkModel.Props.C33
import MmtkModel.Props.C35
import MmtkModel.Props.C02Algo
/-!
# C03 (algorithm) — what the four allocators return: aligned and inside the granted memory

STATUS: (filled in below)
-/
namespace Mmtk.AllocArith
open Mmtk.Arith Mmtk.AllocModel Mmtk.Bits

/-! ## `align_allocation` with `known_alignment = MIN_ALIGNMENT` (how every allocator calls it) -/

/-- the padding C03 allows: the least `p` with `(region + p + offset) % align = 0` -/
def padSpec (region align offset : Nat) : Nat := (align - (region + offset) % align) % align

theorem pad_unique (a x p : Nat) (hp : p < a) (h : (x + p) % a = 0) : p = (a - x % a) % a := by
  have ha : 0 < a := by omega
  have hm := Nat.mod_lt x ha
  have h2 : (x % a + p) % a = 0 := by
    rw [Nat.add_mod, Nat.mod_eq_of_lt hp] at h; exact h
  by_cases hlt : x % a + p < a
  · rw [Nat.mod_eq_of_lt hlt] at h2
    have h0 : x % a = 0 := by omega
    rw [h0, Nat.sub_zero, Nat.mod_self]; omega
  · have h3 : (x % a + p) % a = x % a + p - a := by
      rw [Nat.mod_eq_sub_mod (by omega)]
      exact Nat.mod_eq_of_lt (by omega)
    rw [h3] at h2
    have : a - x % a < a := by omega
    rw [Nat.mod_eq_of_lt this]; omega

private theorem and_min_mask_zero' {km x : Nat} (h : 2^km ∣ x) : (x &&& (2^km - 1) == 0) = true := by
  rw [Nat.and_two_pow_sub_one_eq_mod]
  simp [Nat.mod_eq_zero_of_dvd h]

/-- no padding is needed when the requested alignment is the minimum one -/
theorem alignAllocation_min (vm : VMConsts) (debug : Bool) (ka km kx region align offset : Nat)
    (L : LegalAlign vm ka km kx align offset vm.minAlign)
    (h : align ≤ vm.minAlign ∨ vm.maxAlign ≤ vm.minAlign) :
    alignAllocation vm debug region align offset vm.minAlign = some region ∧ align = vm.minAlign := by
  obtain ⟨hmin, hmax, halign, ⟨hka1, hka2, hkx⟩, hoff, hoffw, hknown⟩ := L
  have hA1 : (align &&& (vm.minAlign - 1) == 0) = true := by
    rw [hmin, halign]; exact and_min_mask_zero' (Nat.pow_dvd_pow 2 hka1)
  have hA2 : (offset &&& (vm.minAlign - 1) == 0) = true := by
    rw [hmin]; exact and_min_mask_zero' hoff
  have hA3 : align ≤ vm.maxAlign := by
    rw [hmax, halign]; exact Nat.pow_le_pow_right (by omega) hka2
  have hge : vm.minAlign ≤ align := by
    rw [hmin, halign]; exact Nat.pow_le_pow_right (by omega) hka1
  have heq : align = vm.minAlign := by omega
  refine ⟨?_, heq⟩
  unfold alignAllocation
  have hle : align ≤ vm.minAlign := by omega
  simp [hA1, hA2, hA3, hle]

/-- **align_allocation as the allocators call it** (`known_alignment = MIN_ALIGNMENT`), for EVERY legal
`(align, offset)` and every `MIN_ALIGNMENT`-aligned region start below `2^63 - align`: never
panics, returns `region + padSpec` — the least admissible address —, which is again
`MIN_ALIGNMENT`-aligned, and the padding is at most `align - MIN_ALIGNMENT`. -/
theorem alignAllocation_good (vm : VMConsts) (debug : Bool) (ka km kx region align offset : Nat)
    (L : LegalAlign vm ka km kx align offset vm.minAlign)
    (hreg : region + align < 2^63) (hregk : vm.minAlign ∣ region) :
    ∃ r, alignAllocation vm debug region align offset vm.minAlign = some r ∧
      region ≤ r ∧ r + vm.minAlign ≤ region + align ∧ (r + offset) % align = 0 ∧
      vm.minAlign ∣ r ∧ r = region + padSpec region align offset := by
  have L' := L
  obtain ⟨hmin, hmax, halign, ⟨hka1, hka2, hkx⟩, hoff, hoffw, hknown⟩ := L
  have hapos : 0 < align := by rw [halign]; exact Nat.two_pow_pos _
  have hoffk : vm.minAlign ∣ offset := by rw [hmin]; exact hoff
  by_cases htriv : align ≤ vm.minAlign ∨ vm.maxAlign ≤ vm.minAlign
  · obtain ⟨h1, h2⟩ := alignAllocation_min vm debug ka km kx region align offset L' htriv
    have hmod : (region + offset) % align = 0 := by
      rw [h2]; exact Nat.mod_eq_zero_of_dvd (Nat.dvd_add hregk hoffk)
    refine ⟨region, h1, Nat.le_refl _, by omega, hmod, hregk, ?_⟩
    unfold padSpec
    rw [hmod, Nat.sub_zero, Nat.mod_self]; rfl
  · have hgt : vm.minAlign < align := by omega
    have hmm : vm.minAlign < vm.maxAlign := by omega
    obtain ⟨r, hr, hge, hmod, _⟩ :=
      alignAllocation_least vm debug ka km kx region align offset vm.minAlign L' hgt hmm hreg
    obtain ⟨r', m, hr', _, hm, hb⟩ :=
      maxAlignedSize_bounds vm debug ka km kx km region align offset vm.minAlign 0 L' hmin hgt hmm hreg
        hregk hoffk (by omega) (Nat.dvd_zero _)
    rw [hr] at hr'
    cases hr'
    have hdk : vm.minAlign ∣ align := by
      rw [hmin, halign]; exact Nat.pow_dvd_pow 2 hka1
    have h1 : vm.minAlign ∣ r + offset := Nat.dvd_trans hdk (Nat.dvd_of_mod_eq_zero hmod)
    have h2 : vm.minAlign ∣ r := (Nat.dvd_add_iff_left hoffk).2 h1
    refine ⟨r, hr, hge, by omega, hmod, h2, ?_⟩
    have hp : r - region < align := by omega
    have hx : (region + offset + (r - region)) % align = 0 := by
      have : region + offset + (r - region) = r + offset := by omega
      rw [this]; exact hmod
    have := pad_unique align (region + offset) (r - region) hp hx
    unfold padSpec
    omega

/-! ## (1) bump pointer: `BumpAllocator::alloc`, `ImmixAllocator::alloc` / `overflow_alloc` -/

/-- a legal bump-allocation request in state `b`: legal `(align, offset)`, a `MIN_ALIGNMENT`-aligned
cursor (blocks are page aligned and sizes are multiples of `MIN_ALIGNMENT`), user-space addresses -/
structure BumpLegal (vm : VMConsts) (ka km kx : Nat) (b : Bump) (size align offset : Nat) : Prop where
  legal : LegalAlign vm ka km kx align offset vm.minAlign
  cursorAligned : vm.minAlign ∣ b.cursor
  cursorSmall : b.cursor + align < 2^63
  sizeSmall : size < 2^63

/-- **the fast path, completely**: for every legal request it never panics; with
`res = cursor + padSpec` it answers `slow` exactly when `res + size > limit`, and otherwise returns
`res` and moves the cursor to `res + size`. -/
theorem bump_fast_cases (vm : VMConsts) (debug : Bool) (ka km kx : Nat) (b : Bump) (size align offset : Nat)
    (H : BumpLegal vm ka km kx b size align offset) :
    (b.limit < b.cursor + padSpec b.cursor align offset + size ∧
      bumpAllocAligned vm debug b size align offset = .slow) ∨
    (b.cursor + padSpec b.cursor align offset + size ≤ b.limit ∧
      bumpAllocAligned vm debug b size align offset =
        .ok (b.cursor + padSpec b.cursor align offset)
          ⟨b.cursor + padSpec b.cursor align offset + size, b.limit⟩) := by
  obtain ⟨L, hck, hcs, hss⟩ := H
  obtain ⟨r, hr, hge, hpad, hmod, hrk, hreq⟩ :=
    alignAllocation_good vm debug ka km kx b.cursor align offset L hcs hck
  rw [← hreq]
  have hlt : r + size < 2^64 := by omega
  by_cases hfit : r + size > b.limit
  · left
    refine ⟨by omega, ?_⟩
    simp only [bumpAllocAligned, hr, cadd, hlt, if_true, hfit]
  · right
    refine ⟨by omega, ?_⟩
    simp only [bumpAllocAligned, hr, cadd, hlt, if_true, hfit, if_false]

/-- **C03, bump allocator, fast path**: if `alloc` succeeds on the fast path then
`(res + offset) % align = 0`, `cursor ≤ res`, `res + size ≤ limit`, the new cursor is `res + size`,
the limit is unchanged; moreover `res` is the least admissible address (`cursor + padSpec`), is
`MIN_ALIGNMENT`-aligned, and the padding is at most `align - MIN_ALIGNMENT`. -/
theorem bump_fast_ok (vm : VMConsts) (debug : Bool) (ka km kx : Nat) (b : Bump) (size align offset : Nat)
    (H : BumpLegal vm ka km kx b size align offset) (res : Nat) (b' : Bump)
    (h : bumpAllocAligned vm debug b size align offset = .ok res b') :
    (res + offset) % align = 0 ∧ b.cursor ≤ res ∧ res + size ≤ b.limit ∧
      b'.cursor = res + size ∧ b'.limit = b.limit ∧
      res = b.cursor + padSpec b.cursor align offset ∧ vm.minAlign ∣ res ∧
      res + vm.minAlign ≤ b.cursor + align := by
  obtain ⟨r, hr, hge, hpad, hmod, hrk, hreq⟩ :=
    alignAllocation_good vm debug ka km kx b.cursor align offset H.legal H.cursorSmall H.cursorAligned
  rcases bump_fast_cases vm debug ka km kx b size align offset H with ⟨_, e⟩ | ⟨hfit, e⟩
  · rw [e] at h; cases h
  · rw [e] at h
    injection h with h1 h2
    subst h1 h2
    rw [← hreq] at hfit ⊢
    exact ⟨hmod, hge, hfit, rfl, rfl, rfl, hrk, hpad⟩

/-- the fast path never trips an assertion / overflow check on a legal request -/
theorem bump_fast_never_panics (vm : VMConsts) (debug : Bool) (ka km kx : Nat) (b : Bump)
    (size align offset : Nat) (H : BumpLegal vm ka km kx b size align offset) :
    bumpAllocAligned vm debug b size align offset ≠ .panic := by
  rcases bump_fast_cases vm debug ka km kx b size align offset H with ⟨_, e⟩ | ⟨_, e⟩ <;>
    rw [e] <;> intro h <;> cases h

/-- the composed fast path refines the C02 model's `bumpAlloc` with `pad = res - cursor`; hence
`bump_guard` / `bump_seq` (C02Algo) apply to every successful real allocation -/
theorem bump_fast_refines (vm : VMConsts) (debug : Bool) (ka km kx : Nat) (b : Bump) (size align offset : Nat)
    (H : BumpLegal vm ka km kx b size align offset) (res : Nat) (b' : Bump)
    (h : bumpAllocAligned vm debug b size align offset = .ok res b') :
    bumpAlloc b (res - b.cursor) size = some (res, b') := by
  obtain ⟨_, h2, h3, h4, h5, _⟩ := bump_fast_ok vm debug ka km kx b size align offset H res b' h
  have e : b.cursor + (res - b.cursor) = res := by omega
  have hb : b' = { b with cursor := res + size } := by
    cases b'; cases b; simp only [Bump.mk.injEq] at *; exact ⟨h4, h5⟩
  simp only [bumpAlloc, e]
  rw [if_neg (by omega), hb]

end Mmtk.AllocArith
