import MmtkModel.Model.Map32
/-!
# C29 — Discontiguous chunk allocation keeps the region map consistent  (PARTIAL)

Full statement (NOT yet proved; checked on the implementation by the oracle of `checks/C29.py` and
on the executable model by the differential): for every history of `allocate_contiguous_chunks` /
`free_contiguous_chunks` / `free_all_chunks` from the finalised state,
`regions_disjoint ∧ descriptor_exact ∧ links_exact ∧ avail_exact` is an invariant.

Proved here: the per-operation facts the inductive step of that invariant consists of — what a
single free / allocate does to `avail`, the descriptors and the links, for **every** state.
-/
namespace Mmtk.Map32

/-- A successful `free_contiguous_chunks_no_lock(c)` returns the size of the run at `c`, adds it to
`avail`, clears exactly the descriptors of `[c, c + n)`, and unlinks `c`: its own links are zeroed,
its successor's `prev` and its predecessor's `next` are spliced, every other link is untouched. -/
theorem freeNoLock_partial (debug : Bool) (st st' : St) (c n : Nat)
    (h : freeNoLock debug st c = some (st', n)) :
    n = st.fl.sizeOf c ∧ st'.avail = st.avail + n ∧
    (∀ x, st'.desc x = if c ≤ x ∧ x < c + n then 0 else st.desc x) ∧
    st'.next c = 0 ∧ st'.prev c = 0 ∧
    (∀ x, x ≠ c → st'.prev x = if st.next c ≠ 0 ∧ x = st.next c then st.prev c else st.prev x) ∧
    (∀ x, x ≠ c → st'.next x = if st.prev c ≠ 0 ∧ x = st.prev c then st.next c else st.next x) := by
  unfold freeNoLock at h
  split at h
  · cases h
  · simp only [Option.some.injEq, Prod.mk.injEq] at h
    obtain ⟨h1, h2⟩ := h
    subst h1
    have hn : n = st.fl.sizeOf c := by rw [← h2]; rfl
    refine ⟨hn, ?_, ?_, ?_, ?_, ?_, ?_⟩
    · simp only [← h2]
    · intro x; simp only [← h2]
    · simp [upd]
    · simp [upd]
    · intro x hx
      simp only [upd, hx, if_false]
      by_cases hnx : st.next c != 0
      · simp only [hnx, if_true, upd]
        have : st.next c ≠ 0 := by simpa using hnx
        by_cases hx2 : x = st.next c <;> simp [hx2, this]
      · have : st.next c = 0 := by simpa using hnx
        simp [this]
    · intro x hx
      simp only [upd, hx, if_false]
      by_cases hpx : st.prev c != 0
      · simp only [hpx, if_true, upd]
        have : st.prev c ≠ 0 := by simpa using hpx
        by_cases hx2 : x = st.prev c <;> simp [hx2, this]
      · have : st.prev c = 0 := by simpa using hpx
        simp [this]

theorem freeNoLock_avail (debug : Bool) (st st' : St) (c n : Nat)
    (h : freeNoLock debug st c = some (st', n)) : st'.avail = st.avail + n ∧ n = st.fl.sizeOf c :=
  ⟨(freeNoLock_partial debug st st' c n h).2.1, (freeNoLock_partial debug st st' c n h).1⟩

theorem freeNoLock_clears_descriptors (debug : Bool) (st st' : St) (c n : Nat)
    (h : freeNoLock debug st c = some (st', n)) :
    ∀ x, st'.desc x = if c ≤ x ∧ x < c + n then 0 else st.desc x :=
  (freeNoLock_partial debug st st' c n h).2.2.1

theorem freeNoLock_unlinks (debug : Bool) (st st' : St) (c n : Nat)
    (h : freeNoLock debug st c = some (st', n)) :
    st'.next c = 0 ∧ st'.prev c = 0 ∧
    (∀ x, x ≠ c → st'.prev x = if st.next c ≠ 0 ∧ x = st.next c then st.prev c else st.prev x) ∧
    (∀ x, x ≠ c → st'.next x = if st.prev c ≠ 0 ∧ x = st.prev c then st.next c else st.next x) :=
  (freeNoLock_partial debug st st' c n h).2.2.2

/-- A successful `allocate_contiguous_chunks(d, k, head)` that returns region `c ≠ 0`: `c` is what
the region map's first-fit allocation returned, `avail` drops by `k`, exactly the descriptors of
`[c, c + k)` become `d` (they were all empty), and `c` is pushed in front of `head`. -/
theorem allocate_partial (debug : Bool) (st st' : St) (d k head c : Nat)
    (h : allocate debug st d k head = (st', .val c)) (hc : c ≠ 0) :
    (st.fl.alloc k).1 = some c ∧ st'.fl = (st.fl.alloc k).2 ∧ st'.avail = st.avail - k ∧
    (∀ x, c ≤ x → x < c + k → st.desc x = 0) ∧
    (∀ x, st'.desc x = if c ≤ x ∧ x < c + k then d else st.desc x) ∧
    (head = 0 → st'.next = st.next ∧ st'.prev = st.prev) ∧
    (head ≠ 0 → st'.next = upd st.next c head ∧ st'.prev = upd st.prev head c) := by
  unfold allocate at h
  split at h
  · -- region map exhausted: returns 0
    simp only [Prod.mk.injEq, R.val.injEq] at h
    exact absurd h.2.symm hc
  · rename_i chunk fl heq
    by_cases hA : (debug && chunk == 0) = true
    · simp [hA] at h
    by_cases hB : ((List.range' chunk k).any fun c => st.desc c != 0) = true
    · simp [hA, hB] at h
    have hall : ∀ x, chunk ≤ x → x < chunk + k → st.desc x = 0 := by
      intro x h1 h2
      apply Classical.byContradiction
      intro hx
      apply hB
      rw [List.any_eq_true]
      exact ⟨x, by rw [List.mem_range'_1]; exact ⟨h1, h2⟩, by simpa using hx⟩
    by_cases hC : (head == 0) = true
    · have hh0 : head = 0 := by simpa using hC
      by_cases hD : (debug && st.next chunk != 0) = true
      · simp [hA, hB, hC, hD] at h
      by_cases hE : (debug && st.prev chunk != 0) = true
      · simp [hA, hB, hC, hD, hE] at h
      simp only [hA, hB, hC, hD, hE, if_false, if_true, Bool.false_eq_true, Prod.mk.injEq, R.val.injEq] at h
      obtain ⟨h1, h2⟩ := h
      subst h2; subst h1
      exact ⟨by rw [heq], by rw [heq], rfl, hall, fun x => rfl, fun _ => ⟨rfl, rfl⟩, fun hne => absurd hh0 hne⟩
    · have hh0 : head ≠ 0 := by simpa using hC
      by_cases hE : (debug && upd st.prev head chunk chunk != 0) = true
      · simp [hA, hB, hC, hE] at h
      simp only [hA, hB, hC, hE, if_false, if_true, Bool.false_eq_true, Prod.mk.injEq, R.val.injEq] at h
      obtain ⟨h1, h2⟩ := h
      subst h2; subst h1
      exact ⟨by rw [heq], by rw [heq], rfl, hall, fun x => rfl, fun h0 => absurd h0 hh0, fun _ => ⟨rfl, rfl⟩⟩

theorem allocate_avail (debug : Bool) (st st' : St) (d k head c : Nat)
    (h : allocate debug st d k head = (st', .val c)) (hc : c ≠ 0) :
    st'.avail = st.avail - k ∧ (st.fl.alloc k).1 = some c :=
  ⟨(allocate_partial debug st st' d k head c h hc).2.2.1, (allocate_partial debug st st' d k head c h hc).1⟩

theorem allocate_sets_descriptors (debug : Bool) (st st' : St) (d k head c : Nat)
    (h : allocate debug st d k head = (st', .val c)) (hc : c ≠ 0) :
    (∀ x, c ≤ x → x < c + k → st.desc x = 0) ∧
    (∀ x, st'.desc x = if c ≤ x ∧ x < c + k then d else st.desc x) :=
  ⟨(allocate_partial debug st st' d k head c h hc).2.2.2.1, (allocate_partial debug st st' d k head c h hc).2.2.2.2.1⟩

end Mmtk.Map32
