import MmtkModel.Model.Map32
import MmtkModel.Lemmas.Map32FL
import MmtkModel.Lemmas.Map32Ghost
import MmtkModel.Lemmas.Map32Init
/-!
# C29 — Discontiguous chunk allocation keeps the region map consistent  (history invariant PROVED for the model)

Statement: for every history of `allocate_contiguous_chunks` / `free_contiguous_chunks` /
`free_all_chunks` from the finalised state (`finalize_static_space_map`),
`regions_disjoint ∧ descriptor_exact ∧ links_exact ∧ avail_exact` is an invariant.

## Status: proved here (complete proofs, no assumption structure)

* `Inv lo hi g st` — the invariant, for the discontiguous range `[lo, hi)` (`lo` = first chunk,
  `hi` = last chunk + 1) and the bookkeeping `g : G` of the Python oracle of `checks/C29.py`
  (`g.regions` = regions handed out and not yet freed with size and owner descriptor, `g.lists` =
  per space the list of its region starts, head first).  Its fields:
  `regions_disjoint` (`RegionsDisjoint`: regions non-empty, inside `[lo, hi)`, pairwise disjoint),
  `descriptor_exact` (`DescriptorExact`: `desc x = d` inside a region allocated with `d`, `0` outside all
  regions), `links_exact` (`LinksExact`: the lists partition the region starts without repetition, each
  list is chained exactly by `next`/`prev` with `0` at both ends, every other chunk has no links),
  `avail_exact` (`AvailExact`: `avail + Σ region sizes = hi - lo`), plus the coupling with the region map
  (`lo_pos`: chunk 0 is the null address; `fl : FLInv lo hi st.fl`: runs non-empty and pairwise disjoint,
  `order` = the starts of the free runs once each, free runs inside `[lo, hi)`; `reg_run`: every region
  is an allocated run of the map, hence `get_contiguous_region_chunks` = its size, `Inv.region_chunks`).
  The task sheet asked for `Inv : St → Prop`; the statement needs the range and the oracle's bookkeeping
  (which regions were handed out to whom is not a function of `St` when a descriptor is used by two
  lists), so `Inv` takes them as parameters and the history theorems compute `g` exactly as the oracle
  does (`G.alloc`, `G.free`, `G.freeAll` in `Lemmas/Map32Ghost.lean`).
* `inv_init` — `Inv first (last + 1) {} (finalize maxChunks first last)` for all
  `0 < first ≤ last < maxChunks` (`Lemmas/Map32Init.lean`: `finalize_fl`, the code's own sequence of
  free-list calls leaves one free run `[first, last + 1)`).
* `inv_allocate`, `inv_free`, `inv_freeAll` — preservation by each operation, built on the
  per-operation theorems `allocate_partial` / `freeNoLock_partial` below (kept unchanged) and on
  `alloc_spec` / `freeRun_spec` (`Lemmas/Map32FL.lean`).  `inv_free` also gives: the call returns the
  region's size.  `inv_allocate` covers the exhausted case (`0` returned, nothing changes).
* `history_inv` (induction over the operation list), `history_inv_init` (from the finalised state) and
  the user-facing corollaries `history_regions_disjoint`, `history_descriptor_exact`,
  `history_links_exact`, `history_avail_exact`, `history_walk` (walking `get_next_contiguous_region`
  from a list head visits exactly the list).
* `step_isSome` / `history_no_panic` — under the invariant no assertion of
  `allocate_contiguous_chunks` (`chunk != 0`, descriptor-empty `insert`, `next`/`prev` of the new
  region zero) or `free_contiguous_chunks_no_lock` (`!get_free(unit)`) fires, debug or release.

Hypotheses of the history theorems (`Valid` = `Pre` at every step; satisfiable: `example`s at the end):
the callers' protocol — `chunks ≥ 1`, `head` is `0` or the current head of a list; only allocated region
starts are freed; `free_all_chunks` gets `0` or a member of a list of at most `fuel + 1` regions (the
model's two loops carry `fuel = 4096`; the code's loops are unbounded — `inv_freeAll`/`freeAll_spec` are
stated for every `fuel`).  Without the protocol the statement is false for the code itself (pushing
in front of a non-head corrupts the lists).

## About the free list (no `FLAssumptions`)

`Model/Map32.lean` does not go through `Mmtk.Runs` nor through the bit-level table: it carries its own
run-level region map (`FL`, `FL.alloc`, `FL.freeRun`).  Every fact about it that the invariant needs
is *proved* from those definitions in `Lemmas/Map32FL.lean` (`alloc_spec`, `alloc_none_iff`,
`freeRun_spec`, `freeRun_eq_strong`), so there is no assumption structure and no axiom.  That the run-level
map is what the bit-level `freelist.rs` table does is C26's refinement and the exact differential.

## Exactness of a failed allocation (the oracle's `map32:alloc-fails`)

`InvX` = `Inv` + the runs cover `[lo, hi)` + no two free runs are adjacent (`FLFull`,
`alloc_full` / `freeRun_full` in `Lemmas/Map32FL.lean`) + every allocated run meeting the range is a
region; `invX_init`, `invX_allocate`, `invX_free`, `invX_freeAll`, `history_invX`.
`alloc_fails_exact` / `history_alloc_fails_exact`: when `allocate_contiguous_chunks(k)` returns `0`
there is no window of `k` consecutive unallocated chunks in the range.

## Outside this file

* The model's `free_all_chunks` loops are fuel-bounded (4096 each), the code's are not: the history
  theorems ask for lists of at most 4097 regions.
* That the run-level region map is what the bit-level table of `freelist.rs` does: C26 + differential.
-/
namespace Mmtk.Map32

/-- A successful `free_contiguous_chunks_no_lock(c)` returns the size of the run at `c`, adds it to
`avail`, clears exactly the descriptors of `[c, c + n)`, and unlinks `c`: its own links are zeroed,
its successor's `prev` and its predecessor's `next` are spliced, every other link is untouched. -/
theorem freeNoLock_partial (debug : Bool) (st st' : St) (c n : Nat)
    (h : freeNoLock debug st c = some (st', n)) :
    n = st.fl.sizeOf c ∧ st'.avail = st.avail + n ∧
    (∀ x, st'.desc x = if c ≤ x ∧ x < c + n then 0 else st.desc x) ∧
    st'.next c = 0 ∧ st'.prev c = 0 ∧
    (∀ x, x ≠ c → st'.prev x = if st.next c ≠ 0 ∧ x = st.next c then st.prev c else st.prev x) ∧
    (∀ x, x ≠ c → st'.next x = if st.prev c ≠ 0 ∧ x = st.prev c then st.next c else st.next x) := by
  unfold freeNoLock at h
  split at h
  · cases h
  · simp only [Option.some.injEq, Prod.mk.injEq] at h
    obtain ⟨h1, h2⟩ := h
    subst h1
    have hn : n = st.fl.sizeOf c := by rw [← h2]; rfl
    refine ⟨hn, ?_, ?_, ?_, ?_, ?_, ?_⟩
    · simp only [← h2]
    · intro x; simp only [← h2]
    · simp [upd]
    · simp [upd]
    · intro x hx
      simp only [upd, hx, if_false]
      by_cases hnx : st.next c != 0
      · simp only [hnx, if_true, upd]
        have : st.next c ≠ 0 := by simpa using hnx
        by_cases hx2 : x = st.next c <;> simp [hx2, this]
      · have : st.next c = 0 := by simpa using hnx
        simp [this]
    · intro x hx
      simp only [upd, hx, if_false]
      by_cases hpx : st.prev c != 0
      · simp only [hpx, if_true, upd]
        have : st.prev c ≠ 0 := by simpa using hpx
        by_cases hx2 : x = st.prev c <;> simp [hx2, this]
      · have : st.prev c = 0 := by simpa using hpx
        simp [this]

theorem freeNoLock_avail (debug : Bool) (st st' : St) (c n : Nat)
    (h : freeNoLock debug st c = some (st', n)) : st'.avail = st.avail + n ∧ n = st.fl.sizeOf c :=
  ⟨(freeNoLock_partial debug st st' c n h).2.1, (freeNoLock_partial debug st st' c n h).1⟩

theorem freeNoLock_clears_descriptors (debug : Bool) (st st' : St) (c n : Nat)
    (h : freeNoLock debug st c = some (st', n)) :
    ∀ x, st'.desc x = if c ≤ x ∧ x < c + n then 0 else st.desc x :=
  (freeNoLock_partial debug st st' c n h).2.2.1

theorem freeNoLock_unlinks (debug : Bool) (st st' : St) (c n : Nat)
    (h : freeNoLock debug st c = some (st', n)) :
    st'.next c = 0 ∧ st'.prev c = 0 ∧
    (∀ x, x ≠ c → st'.prev x = if st.next c ≠ 0 ∧ x = st.next c then st.prev c else st.prev x) ∧
    (∀ x, x ≠ c → st'.next x = if st.prev c ≠ 0 ∧ x = st.prev c then st.next c else st.next x) :=
  (freeNoLock_partial debug st st' c n h).2.2.2

/-- A successful `allocate_contiguous_chunks(d, k, head)` that returns region `c ≠ 0`: `c` is what
the region map's first-fit allocation returned, `avail` drops by `k`, exactly the descriptors of
`[c, c + k)` become `d` (they were all empty), and `c` is pushed in front of `head`. -/
theorem allocate_partial (debug : Bool) (st st' : St) (d k head c : Nat)
    (h : allocate debug st d k head = (st', .val c)) (hc : c ≠ 0) :
    (st.fl.alloc k).1 = some c ∧ st'.fl = (st.fl.alloc k).2 ∧ st'.avail = st.avail - k ∧
    (∀ x, c ≤ x → x < c + k → st.desc x = 0) ∧
    (∀ x, st'.desc x = if c ≤ x ∧ x < c + k then d else st.desc x) ∧
    (head = 0 → st'.next = st.next ∧ st'.prev = st.prev) ∧
    (head ≠ 0 → st'.next = upd st.next c head ∧ st'.prev = upd st.prev head c) := by
  unfold allocate at h
  split at h
  · -- region map exhausted: returns 0
    simp only [Prod.mk.injEq, R.val.injEq] at h
    exact absurd h.2.symm hc
  · rename_i chunk fl heq
    by_cases hA : (debug && chunk == 0) = true
    · simp [hA] at h
    by_cases hB : ((List.range' chunk k).any fun c => st.desc c != 0) = true
    · simp [hA, hB] at h
    have hall : ∀ x, chunk ≤ x → x < chunk + k → st.desc x = 0 := by
      intro x h1 h2
      apply Classical.byContradiction
      intro hx
      apply hB
      rw [List.any_eq_true]
      exact ⟨x, by rw [List.mem_range'_1]; exact ⟨h1, h2⟩, by simpa using hx⟩
    by_cases hC : (head == 0) = true
    · have hh0 : head = 0 := by simpa using hC
      by_cases hD : (debug && st.next chunk != 0) = true
      · simp [hA, hB, hC, hD] at h
      by_cases hE : (debug && st.prev chunk != 0) = true
      · simp [hA, hB, hC, hD, hE] at h
      simp only [hA, hB, hC, hD, hE, if_false, if_true, Bool.false_eq_true, Prod.mk.injEq, R.val.injEq] at h
      obtain ⟨h1, h2⟩ := h
      subst h2; subst h1
      exact ⟨by rw [heq], by rw [heq], rfl, hall, fun x => rfl, fun _ => ⟨rfl, rfl⟩, fun hne => absurd hh0 hne⟩
    · have hh0 : head ≠ 0 := by simpa using hC
      by_cases hE : (debug && upd st.prev head chunk chunk != 0) = true
      · simp [hA, hB, hC, hE] at h
      simp only [hA, hB, hC, hE, if_false, if_true, Bool.false_eq_true, Prod.mk.injEq, R.val.injEq] at h
      obtain ⟨h1, h2⟩ := h
      subst h2; subst h1
      exact ⟨by rw [heq], by rw [heq], rfl, hall, fun x => rfl, fun h0 => absurd h0 hh0, fun _ => ⟨rfl, rfl⟩⟩

theorem allocate_avail (debug : Bool) (st st' : St) (d k head c : Nat)
    (h : allocate debug st d k head = (st', .val c)) (hc : c ≠ 0) :
    st'.avail = st.avail - k ∧ (st.fl.alloc k).1 = some c :=
  ⟨(allocate_partial debug st st' d k head c h hc).2.2.1, (allocate_partial debug st st' d k head c h hc).1⟩

theorem allocate_sets_descriptors (debug : Bool) (st st' : St) (d k head c : Nat)
    (h : allocate debug st d k head = (st', .val c)) (hc : c ≠ 0) :
    (∀ x, c ≤ x → x < c + k → st.desc x = 0) ∧
    (∀ x, st'.desc x = if c ≤ x ∧ x < c + k then d else st.desc x) :=
  ⟨(allocate_partial debug st st' d k head c h hc).2.2.2.1, (allocate_partial debug st st' d k head c h hc).2.2.2.2.1⟩

/-! ## The history invariant -/

/-- `regions_disjoint`: the regions handed out and not yet freed are non-empty, lie inside the
discontiguous range `[lo, hi)` and are pairwise disjoint. -/
def RegionsDisjoint (lo hi : Nat) (g : G) : Prop :=
  g.regions.Pairwise Reg.Disj ∧ ∀ r ∈ g.regions, 0 < r.size ∧ lo ≤ r.start ∧ r.start + r.size ≤ hi

/-- `descriptor_exact`: a chunk's descriptor is `d` iff it lies in a region currently allocated with
`d`, and is `0` (uninitialised) otherwise. -/
def DescriptorExact (g : G) (st : St) : Prop :=
  (∀ r ∈ g.regions, ∀ x, r.start ≤ x → x < r.start + r.size → st.desc x = r.desc) ∧
  (∀ x, (∀ r ∈ g.regions, ¬ (r.start ≤ x ∧ x < r.start + r.size)) → st.desc x = 0)

/-- `links_exact`: the lists partition the allocated region starts; following `next` from the head of a
list visits exactly its regions, in order, once, and ends with `0`; `prev` is the inverse (`0` at the
head); every chunk that is not an allocated region start has no links. -/
def LinksExact (g : G) (st : St) : Prop :=
  g.lists.flatten.Nodup ∧ (∀ c, c ∈ g.lists.flatten ↔ ∃ r ∈ g.regions, r.start = c) ∧
  (∀ l ∈ g.lists, Linked st 0 l) ∧ (∀ c, c ∉ g.lists.flatten → st.next c = 0 ∧ st.prev c = 0)

/-- `avail_exact`: `avail` = number of chunks of `[lo, hi)` that are not allocated. -/
def AvailExact (lo hi : Nat) (g : G) (st : St) : Prop := st.avail + regSum g.regions = hi - lo

/-- The invariant of C29 for the discontiguous range `[lo, hi)` (`lo` = first chunk, `hi` = last chunk
+ 1 of `finalize_static_space_map`), relating the model state to the oracle's bookkeeping `g`. The
first three fields tie the region map to the bookkeeping (chunk 0 is the null address; the region map
is well formed and its free runs lie in the range; every region is an allocated run of the map). -/
structure Inv (lo hi : Nat) (g : G) (st : St) : Prop where
  lo_pos : 0 < lo
  fl : FLInv lo hi st.fl
  reg_run : ∀ r ∈ g.regions, (⟨r.start, r.size, false⟩ : Run) ∈ st.fl.runs
  regions_disjoint : RegionsDisjoint lo hi g
  descriptor_exact : DescriptorExact g st
  links_exact : LinksExact g st
  avail_exact : AvailExact lo hi g st

theorem Inv.zero_not_mem {lo hi : Nat} {g : G} {st : St} (hI : Inv lo hi g st) : 0 ∉ g.lists.flatten := by
  intro h0
  obtain ⟨r, hr, hr0⟩ := (hI.links_exact.2.1 0).1 h0
  have := (hI.regions_disjoint.2 r hr).2.1
  have := hI.lo_pos
  omega

/-- `get_contiguous_region_chunks` of an allocated region is its size. -/
theorem Inv.region_chunks {lo hi : Nat} {g : G} {st : St} (hI : Inv lo hi g st) {r : Reg}
    (hr : r ∈ g.regions) : regionChunks st r.start = r.size :=
  hI.fl.sizeOf_eq (hI.reg_run r hr)

theorem freeNoLock_fl (debug : Bool) (st st' : St) (c n : Nat)
    (h : freeNoLock debug st c = some (st', n)) : st'.fl = (st.fl.freeRun c).2 := by
  unfold freeNoLock at h
  split at h
  · cases h
  · simp only [Option.some.injEq, Prod.mk.injEq] at h
    rw [← h.1]

/-- Freeing an allocated region never hits the `debug_assert!(!get_free(unit))`. -/
theorem freeNoLock_isSome {lo hi : Nat} {g : G} {st : St} (hI : Inv lo hi g st) {r : Reg}
    (hr : r ∈ g.regions) (debug : Bool) : ∃ st' n, freeNoLock debug st r.start = some (st', n) := by
  have hfree : st.fl.isFree r.start = false := hI.fl.isFree_eq (hI.reg_run r hr)
  unfold freeNoLock
  simp [hfree]

theorem G.free_regions (g : G) (c : Nat) : (g.free c).regions = g.regions.filter (fun r => r.start != c) := by
  unfold G.free G.freeSet
  simp only
  congr 1; funext r; simp only [List.contains_cons, List.contains_nil, Bool.or_false, bne]

theorem G.free_lists (g : G) (c : Nat) : (g.free c).lists = g.lists.map (fun l => l.filter (· != c)) := by
  unfold G.free G.freeSet
  simp only
  congr 1; funext l; congr 1; funext x; simp only [List.contains_cons, List.contains_nil, Bool.or_false, bne]

/-- **Preservation by `free_contiguous_chunks`** of an allocated region `r`: the call returns the
region's size and the invariant holds again for the bookkeeping without `r`. -/
theorem inv_free {lo hi : Nat} {g : G} {st : St} (hI : Inv lo hi g st) {r : Reg} (hr : r ∈ g.regions)
    {debug : Bool} {st' : St} {n : Nat} (h : freeNoLock debug st r.start = some (st', n)) :
    n = r.size ∧ Inv lo hi (g.free r.start) st' := by
  obtain ⟨hn, hav, hdesc, hnc, hpc, hpo, hno⟩ := freeNoLock_partial debug st st' r.start n h
  have hu : Unlinks st st' r.start := ⟨hnc, hpc, hpo, hno⟩
  have hrun := hI.reg_run r hr
  have hsz : st.fl.sizeOf r.start = r.size := hI.fl.sizeOf_eq hrun
  have hn' : n = r.size := hn.trans hsz
  obtain ⟨hrpos, hrlo, hrhi⟩ := hI.regions_disjoint.2 r hr
  obtain ⟨_, hflinv, hflmem⟩ := freeRun_spec hI.fl hrun hrlo hrhi
  have hfl := freeNoLock_fl debug st st' r.start n h
  obtain ⟨hnd, hmem, hlk, hunl⟩ := hI.links_exact
  have h0 := hI.zero_not_mem
  -- a region that starts elsewhere is disjoint from `r`
  have hother : ∀ r' ∈ g.regions, r'.start ≠ r.start → Reg.Disj r' r := by
    intro r' hr' hne
    exact pw_mem (fun _ _ => Reg.Disj.symm) hI.regions_disjoint.1 hr' hr (fun e => hne (e ▸ rfl))
  -- the list of `r.start`
  obtain ⟨lc, hlc, hclc⟩ := List.mem_flatten.1 ((hmem r.start).2 ⟨r, hr, rfl⟩)
  have hlcmem := Linked.next_mem (hlk lc hlc) hclc
  refine ⟨hn', ⟨hI.lo_pos, hfl ▸ hflinv, ?_, ⟨?_, ?_⟩, ⟨?_, ?_⟩, ⟨?_, ?_, ?_, ?_⟩, ?_⟩⟩
  · -- reg_run
    intro r' hr'
    rw [G.free_regions, List.mem_filter] at hr'
    rw [hfl]
    exact (hflmem ⟨r'.start, r'.size, false⟩ rfl).2 ⟨hI.reg_run r' hr'.1, by simpa using hr'.2⟩
  · rw [G.free_regions]; exact hI.regions_disjoint.1.filter _
  · intro r' hr'
    rw [G.free_regions, List.mem_filter] at hr'
    exact hI.regions_disjoint.2 r' hr'.1
  · -- descriptors inside the remaining regions
    intro r' hr' x hx1 hx2
    rw [G.free_regions, List.mem_filter] at hr'
    have hd := hother r' hr'.1 (by simpa using hr'.2)
    rw [hdesc x, if_neg (by unfold Reg.Disj at hd; omega)]
    exact hI.descriptor_exact.1 r' hr'.1 x hx1 hx2
  · -- descriptors outside
    intro x hx
    rw [hdesc x]
    split
    · rfl
    · rename_i hnin
      apply hI.descriptor_exact.2
      intro r' hr' hin
      by_cases hs : r'.start = r.start
      · have hpos' := (hI.regions_disjoint.2 r' hr').1
        have : r' = r := by
          apply Classical.byContradiction
          intro hne
          have hd := pw_mem (fun _ _ => Reg.Disj.symm) hI.regions_disjoint.1 hr' hr hne
          unfold Reg.Disj at hd; omega
        rw [this] at hin; omega
      · exact hx r' (by rw [G.free_regions, List.mem_filter]; exact ⟨hr', by simpa using hs⟩) hin
  · -- lists: nodup
    rw [G.free_lists, ← List.filter_flatten]; exact hnd.filter _
  · intro c
    rw [G.free_lists, ← List.filter_flatten, List.mem_filter, hmem, G.free_regions]
    constructor
    · rintro ⟨⟨r', hr', rfl⟩, hc⟩
      exact ⟨r', List.mem_filter.2 ⟨hr', hc⟩, rfl⟩
    · rintro ⟨r', hr', rfl⟩
      rw [List.mem_filter] at hr'
      exact ⟨⟨r', hr'.1, rfl⟩, hr'.2⟩
  · -- linked
    intro l' hl'
    rw [G.free_lists, List.mem_map] at hl'
    obtain ⟨l, hl, rfl⟩ := hl'
    have hl0 : 0 ∉ l := fun m => h0 (List.mem_flatten.2 ⟨l, hl, m⟩)
    by_cases hcl : r.start ∈ l
    · exact Linked.splice hu (hlk l hl) (nodup_of_mem_flatten hnd hl) hl0 hl0 hcl
    · have hfilt : l.filter (· != r.start) = l := by
        rw [List.filter_eq_self]; intro x hx; simp only [bne_iff_ne, ne_eq]; rintro rfl; exact hcl hx
      rw [hfilt]
      refine Linked.frame ?_ (hlk l hl)
      intro x hx
      have hxc : x ≠ r.start := fun e => hcl (e ▸ hx)
      have hne : l ≠ lc := fun e => hcl (e ▸ hclc)
      have hxlc : x ∉ lc := fun m => disjoint_of_nodup_flatten hnd hl hlc hne hx m
      have hx0 : x ≠ 0 := fun e => hl0 (e ▸ hx)
      rw [hno x hxc, hpo x hxc]
      constructor
      · rw [if_neg]
        rintro ⟨hp0, e⟩
        rcases hlcmem.2 with z | m
        · exact hp0 z
        · exact hxlc (e ▸ m)
      · rw [if_neg]
        rintro ⟨hn0, e⟩
        rcases hlcmem.1 with z | m
        · exact hn0 z
        · exact hxlc (e ▸ m)
  · -- unlinked
    intro c hc
    rw [G.free_lists, ← List.filter_flatten, List.mem_filter] at hc
    by_cases hcr : c = r.start
    · subst hcr; exact ⟨hnc, hpc⟩
    · have hcf : c ∉ g.lists.flatten := fun m => hc ⟨m, by simpa using hcr⟩
      have hclc' : c ∉ lc := fun m => hcf (List.mem_flatten.2 ⟨lc, hlc, m⟩)
      obtain ⟨h1, h2⟩ := hunl c hcf
      rw [hno c hcr, hpo c hcr]
      constructor
      · rw [if_neg]
        · exact h1
        · rintro ⟨hp0, e⟩
          rcases hlcmem.2 with z | m
          · exact hp0 z
          · exact hclc' (e ▸ m)
      · rw [if_neg]
        · exact h2
        · rintro ⟨hn0, e⟩
          rcases hlcmem.1 with z | m
          · exact hn0 z
          · exact hclc' (e ▸ m)
  · -- avail
    show st'.avail + regSum (g.free r.start).regions = hi - lo
    rw [G.free_regions, hav, hn']
    have := regSum_remove hI.regions_disjoint.1 (fun x hx => (hI.regions_disjoint.2 x hx).1) hr
    have := hI.avail_exact
    unfold AvailExact at this
    omega

/-- An `allocate_contiguous_chunks` that returns normally either found no run (`0`, state unchanged)
or returns the chunk the region map's `alloc` returned. -/
theorem allocate_val (debug : Bool) (st st' : St) (d k head c : Nat)
    (h : allocate debug st d k head = (st', .val c)) :
    ((st.fl.alloc k).1 = none ∧ c = 0 ∧ st' = st) ∨ (st.fl.alloc k).1 = some c := by
  unfold allocate at h
  split at h
  · rename_i x heq
    simp only [Prod.mk.injEq, R.val.injEq] at h
    exact Or.inl ⟨by rw [heq], h.2.symm, h.1.symm⟩
  · rename_i chunk fl heq
    refine Or.inr ?_
    rw [heq]
    show some chunk = some c
    congr 1
    dsimp only at h
    repeat' split at h
    all_goals first | (simp only [Prod.mk.injEq, R.val.injEq, reduceCtorEq, and_false] at h) | skip
    all_goals exact h.2

/-- **Preservation by `allocate_contiguous_chunks(d, k, head)`** (`k ≥ 1`; `head` = `0` or the current
head of a list) when it returns `c` (`0` = exhausted): the invariant holds for the oracle's updated
bookkeeping — in particular the new region `[c, c + k)` lies in the range and is disjoint from every
allocated region. -/
theorem inv_allocate {lo hi : Nat} {g : G} {st : St} (hI : Inv lo hi g st) {debug : Bool}
    {d k head : Nat} {st' : St} {c : Nat} (hk : 1 ≤ k)
    (hhead : head = 0 ∨ ∃ l ∈ g.lists, l.head? = some head)
    (h : allocate debug st d k head = (st', .val c)) : Inv lo hi (g.alloc d k head c) st' := by
  rcases allocate_val debug st st' d k head c h with ⟨_, rfl, rfl⟩ | hsome
  · unfold G.alloc; rw [if_pos rfl]; exact hI
  obtain ⟨s, hfree, hks, hflinv, hflmem⟩ := alloc_spec hI.fl hk hsome
  obtain ⟨hclo, hchi⟩ := hI.fl.free_in _ hfree rfl
  dsimp only at hclo hchi
  have hlo := hI.lo_pos
  have hc : c ≠ 0 := by omega
  obtain ⟨_, hfl, hav, _, hdesc, hl0, hl1⟩ := allocate_partial debug st st' d k head c h hc
  have hg : g.alloc d k head c = { regions := ⟨c, k, d⟩ :: g.regions, lists := pushList c head g.lists } := by
    unfold G.alloc; rw [if_neg hc]
  obtain ⟨hnd, hmem, hlk, hunl⟩ := hI.links_exact
  have h0 := hI.zero_not_mem
  have hdisj : ∀ r' ∈ g.regions, r'.start + r'.size ≤ c ∨ c + s ≤ r'.start := by
    intro r' hr'
    rcases hI.fl.eq_or_disj (hI.reg_run r' hr') hfree with e | dd
    · cases e
    · exact dd
  have hcnot : c ∉ g.lists.flatten := by
    intro m
    obtain ⟨r', hr', hs⟩ := (hmem c).1 m
    have := hdisj r' hr'
    have := (hI.regions_disjoint.2 r' hr').1
    omega
  obtain ⟨hnc, hpc⟩ := hunl c hcnot
  rw [hg]
  refine ⟨hlo, hfl ▸ hflinv, ?_, ⟨?_, ?_⟩, ⟨?_, ?_⟩, ⟨?_, ?_, ?_, ?_⟩, ?_⟩
  · intro r' hr'
    rw [hfl]
    rcases List.mem_cons.1 hr' with rfl | hr'
    · exact (hflmem _).2 (Or.inr (Or.inl rfl))
    · refine (hflmem _).2 (Or.inl ⟨hI.reg_run r' hr', ?_⟩)
      have := hdisj r' hr'
      have := (hI.regions_disjoint.2 r' hr').1
      show r'.start ≠ c
      omega
  · show (_ :: _).Pairwise Reg.Disj
    rw [List.pairwise_cons]
    refine ⟨?_, hI.regions_disjoint.1⟩
    intro r' hr'
    have := hdisj r' hr'
    unfold Reg.Disj; dsimp only; omega
  · intro r' hr'
    rcases List.mem_cons.1 hr' with rfl | hr'
    · dsimp only; omega
    · exact hI.regions_disjoint.2 r' hr'
  · intro r' hr' x hx1 hx2
    rw [hdesc x]
    rcases List.mem_cons.1 hr' with rfl | hr'
    · rw [if_pos ⟨hx1, hx2⟩]
    · have := hdisj r' hr'
      rw [if_neg (by omega)]
      exact hI.descriptor_exact.1 r' hr' x hx1 hx2
  · intro x hx
    rw [hdesc x]
    have hxc := hx ⟨c, k, d⟩ (List.mem_cons_self ..)
    dsimp only at hxc
    rw [if_neg hxc]
    exact hI.descriptor_exact.2 x (fun r' hr' => hx r' (List.mem_cons_of_mem _ hr'))
  · exact nodup_flatten_pushList hnd hcnot
  · intro x
    show x ∈ (pushList c head g.lists).flatten ↔ ∃ r ∈ (⟨c, k, d⟩ : Reg) :: g.regions, r.start = x
    rw [mem_flatten_pushList, hmem]
    constructor
    · rintro (rfl | ⟨r', hr', rfl⟩)
      · exact ⟨_, List.mem_cons_self .., rfl⟩
      · exact ⟨r', List.mem_cons_of_mem _ hr', rfl⟩
    · rintro ⟨r', hr', rfl⟩
      rcases List.mem_cons.1 hr' with rfl | hr'
      · exact Or.inl rfl
      · exact Or.inr ⟨r', hr', rfl⟩
  · -- linked
    show ∀ l ∈ pushList c head g.lists, Linked st' 0 l
    by_cases hh : head = 0
    · obtain ⟨hn', hp'⟩ := hl0 hh
      have hno : ∀ l ∈ g.lists, l.head? ≠ some head := by
        intro l hl e
        cases l with
        | nil => cases e
        | cons b t =>
          simp at e
          exact h0 (List.mem_flatten.2 ⟨_, hl, by rw [e, hh]; exact List.mem_cons_self ..⟩)
      rw [pushList_nohead hno]
      intro l hl
      rcases List.mem_append.1 hl with hl | hl
      · exact Linked.frame (fun a _ => by rw [hn', hp']; exact ⟨rfl, rfl⟩) (hlk l hl)
      · have : l = [c] := by simpa using hl
        subst this
        exact ⟨by rw [hp']; exact hpc, by rw [hn']; exact hnc, trivial⟩
    · obtain ⟨hn', hp'⟩ := hl1 hh
      have hex : ∃ l ∈ g.lists, l.head? = some head := by
        rcases hhead with e | e
        · exact absurd e hh
        · exact e
      exact linked_pushList hn' hp' hpc g.lists hnd hcnot hlk hex
  · -- unlinked
    intro x hx
    have hx' : x ∉ (pushList c head g.lists).flatten := hx
    rw [mem_flatten_pushList] at hx'
    have hxc : x ≠ c := fun e => hx' (Or.inl e)
    have hxf : x ∉ g.lists.flatten := fun m => hx' (Or.inr m)
    obtain ⟨h1, h2⟩ := hunl x hxf
    by_cases hh : head = 0
    · obtain ⟨hn', hp'⟩ := hl0 hh
      rw [hn', hp']; exact ⟨h1, h2⟩
    · obtain ⟨hn', hp'⟩ := hl1 hh
      have hxh : x ≠ head := by
        rcases hhead with e | ⟨l, hl, hlh⟩
        · exact absurd e hh
        · intro e
          apply hxf
          refine List.mem_flatten.2 ⟨l, hl, ?_⟩
          cases l with
          | nil => cases hlh
          | cons b t => simp at hlh; rw [e, ← hlh]; exact List.mem_cons_self ..
      rw [hn', hp']; simp [upd, hxc, hxh, h1, h2]
  · -- avail
    show st'.avail + regSum ((⟨c, k, d⟩ : Reg) :: g.regions) = hi - lo
    have hle : regSum ((⟨c, k, d⟩ : Reg) :: g.regions) ≤ hi - lo := by
      apply regSum_le
      · rw [List.pairwise_cons]
        refine ⟨?_, hI.regions_disjoint.1⟩
        intro r' hr'
        have := hdisj r' hr'
        unfold Reg.Disj; dsimp only; omega
      · intro r' hr'
        rcases List.mem_cons.1 hr' with rfl | hr'
        · dsimp only; omega
        · exact (hI.regions_disjoint.2 r' hr').2
    have := hI.avail_exact
    unfold AvailExact at this
    simp only [regSum] at hle ⊢
    omega

/-! ### `free_all_chunks` -/

/-- A strengthening `J` of the invariant that freeing an allocated region preserves (the two loops of
`free_all_chunks` are proved once, for every such `J`). -/
structure FreeStable (lo hi : Nat) (debug : Bool) (J : G → St → Prop) : Prop where
  inv : ∀ {g : G} {st : St}, J g st → Inv lo hi g st
  free : ∀ {g : G} {st : St} {r : Reg} {st' : St} {n : Nat}, J g st → r ∈ g.regions →
    freeNoLock debug st r.start = some (st', n) → J (g.free r.start) st'

/-- First loop of `free_all_chunks(c)`: it frees the regions after `c` in `c`'s list. -/
theorem freeAll_next_loop {lo hi c : Nat} {debug : Bool} {J : G → St → Prop} (hJ : FreeStable lo hi debug J) : ∀ (fuel : Nat) {g : G} {st : St} (l1 l2 : List Nat),
    J g st → (l1 ++ c :: l2) ∈ g.lists → l2.length ≤ fuel →
    ∃ st1, freeAllLoop debug (fun s x => s.next x) fuel st c = some st1 ∧
      J (g.freeSet l2) st1 ∧ (l1 ++ [c]) ∈ (g.freeSet l2).lists
  | 0, g, st, l1, l2, hJg, hmem, hlen => by
    have : l2 = [] := List.eq_nil_of_length_eq_zero (Nat.le_zero.1 hlen)
    subst this
    exact ⟨st, rfl, by rw [G.freeSet_nil]; exact hJg, by rw [G.freeSet_nil]; exact hmem⟩
  | fuel + 1, g, st, l1, l2, hJg, hmem, hlen => by
    have hI := hJ.inv hJg
    have hlk := hI.links_exact.2.2.1 _ hmem
    have hnext : st.next c = l2.headD 0 := (Linked.suffix hlk).2.1
    cases l2 with
    | nil =>
      refine ⟨st, ?_, by rw [G.freeSet_nil]; exact hJg, by rw [G.freeSet_nil]; exact hmem⟩
      rw [freeAllLoop]; simp [hnext]
    | cons b t2 =>
      have hbf : b ∈ g.lists.flatten := List.mem_flatten.2 ⟨_, hmem, by simp⟩
      have hb0 : b ≠ 0 := fun e => hI.zero_not_mem (e ▸ hbf)
      obtain ⟨rb, hrb, hrbs⟩ := (hI.links_exact.2.1 b).1 hbf
      subst hrbs
      obtain ⟨st', n, hfree⟩ := freeNoLock_isSome hI hrb debug
      have hI' := hJ.free hJg hrb hfree
      have hnd := nodup_of_mem_flatten hI.links_exact.1 hmem
      have hmem' : l1 ++ c :: t2 ∈ (g.free rb.start).lists := by
        rw [G.free_lists, List.mem_map]
        refine ⟨_, hmem, ?_⟩
        have e : l1 ++ c :: rb.start :: t2 = (l1 ++ [c]) ++ rb.start :: t2 := by simp
        rw [e] at hnd ⊢
        rw [filter_ne_of_nodup hnd]; simp
      obtain ⟨st1, h1, hI1, hm1⟩ := freeAll_next_loop hJ fuel l1 t2 hI' hmem'
        (by simpa using hlen)
      rw [G.free, G.freeSet_freeSet] at hI1 hm1
      refine ⟨st1, ?_, hI1, hm1⟩
      rw [freeAllLoop]
      simp only [hnext, List.headD_cons, bne_iff_ne, ne_eq, hb0, not_false_eq_true, if_true, hfree]
      exact h1

/-- Second loop of `free_all_chunks(c)`: it frees the regions before `c` in `c`'s list (nearest first). -/
theorem freeAll_prev_loop {lo hi c : Nat} {debug : Bool} {J : G → St → Prop} (hJ : FreeStable lo hi debug J) : ∀ (fuel : Nat) {g : G} {st : St} (l1r l2 : List Nat),
    J g st → (l1r.reverse ++ c :: l2) ∈ g.lists → l1r.length ≤ fuel →
    ∃ st1, freeAllLoop debug (fun s x => s.prev x) fuel st c = some st1 ∧
      J (g.freeSet l1r) st1 ∧ (c :: l2) ∈ (g.freeSet l1r).lists
  | 0, g, st, l1r, l2, hJg, hmem, hlen => by
    have : l1r = [] := List.eq_nil_of_length_eq_zero (Nat.le_zero.1 hlen)
    subst this
    exact ⟨st, rfl, by rw [G.freeSet_nil]; exact hJg, by rw [G.freeSet_nil]; simpa using hmem⟩
  | fuel + 1, g, st, l1r, l2, hJg, hmem, hlen => by
    have hI := hJ.inv hJg
    have hlk := hI.links_exact.2.2.1 _ hmem
    have hprev : st.prev c = l1r.head?.getD 0 := by
      have := (Linked.suffix hlk).1
      rw [List.getLast?_reverse] at this; exact this
    cases l1r with
    | nil =>
      refine ⟨st, ?_, by rw [G.freeSet_nil]; exact hJg, by rw [G.freeSet_nil]; simpa using hmem⟩
      rw [freeAllLoop]; simp [hprev]
    | cons b t1 =>
      have hbf : b ∈ g.lists.flatten := List.mem_flatten.2 ⟨_, hmem, by simp⟩
      have hb0 : b ≠ 0 := fun e => hI.zero_not_mem (e ▸ hbf)
      obtain ⟨rb, hrb, hrbs⟩ := (hI.links_exact.2.1 b).1 hbf
      subst hrbs
      obtain ⟨st', n, hfree⟩ := freeNoLock_isSome hI hrb debug
      have hI' := hJ.free hJg hrb hfree
      have hnd := nodup_of_mem_flatten hI.links_exact.1 hmem
      have hmem' : t1.reverse ++ c :: l2 ∈ (g.free rb.start).lists := by
        rw [G.free_lists, List.mem_map]
        refine ⟨_, hmem, ?_⟩
        have e : (rb.start :: t1).reverse ++ c :: l2 = t1.reverse ++ rb.start :: (c :: l2) := by simp
        rw [e] at hnd ⊢
        rw [filter_ne_of_nodup hnd]
      obtain ⟨st1, h1, hI1, hm1⟩ := freeAll_prev_loop hJ fuel t1 l2 hI' hmem'
        (by simpa using hlen)
      rw [G.free, G.freeSet_freeSet] at hI1 hm1
      refine ⟨st1, ?_, hI1, hm1⟩
      rw [freeAllLoop]
      simp only [hprev, List.head?_cons, Option.getD_some, bne_iff_ne, ne_eq, hb0, not_false_eq_true,
        if_true, hfree]
      exact h1

/-- `g.freeAll c` frees the list that contains `c`. -/
theorem G.freeAll_eq {lo hi : Nat} {g : G} {st : St} (hI : Inv lo hi g st) {c : Nat} {l : List Nat}
    (hl : l ∈ g.lists) (hc : c ∈ l) : g.freeAll c = g.freeSet l := by
  unfold G.freeAll
  cases hf : g.lists.find? (fun l => l.contains c) with
  | none =>
    rw [List.find?_eq_none] at hf
    have := hf l hl
    simp [hc] at this
  | some l' =>
    have hl' := List.mem_of_find?_eq_some hf
    have hc' : c ∈ l' := by simpa using List.find?_some hf
    have : l' = l := by
      apply Classical.byContradiction
      intro hne
      exact disjoint_of_nodup_flatten hI.links_exact.1 hl' hl hne hc' hc
    rw [this]; rfl

theorem G.freeAll_zero {lo hi : Nat} {g : G} {st : St} (hI : Inv lo hi g st) : g.freeAll 0 = g := by
  unfold G.freeAll
  cases hf : g.lists.find? (fun l => l.contains 0) with
  | none => exact G.freeSet_nil g
  | some l' =>
    have hl' := List.mem_of_find?_eq_some hf
    have hc' : 0 ∈ l' := by simpa using List.find?_some hf
    exact absurd (List.mem_flatten.2 ⟨l', hl', hc'⟩) hI.zero_not_mem

/-- `free_all_chunks(c)` (`c = 0`, or `c` in a list of at most `fuel + 1` regions) does not hit an
assertion and re-establishes the invariant for the bookkeeping without the whole list of `c`. -/
theorem freeAll_spec_gen {lo hi : Nat} {debug : Bool} {J : G → St → Prop} (hJ : FreeStable lo hi debug J)
    {g : G} {st : St} (hJg : J g st) {c fuel : Nat}
    (hc : c = 0 ∨ ∃ l ∈ g.lists, c ∈ l ∧ l.length ≤ fuel + 1) :
    ∃ st', freeAll debug st c fuel = some st' ∧ J (g.freeAll c) st' := by
  have hI := hJ.inv hJg
  by_cases hc0 : c = 0
  · subst hc0
    exact ⟨st, by simp [freeAll], by rw [G.freeAll_zero hI]; exact hJg⟩
  rcases hc with e | ⟨l, hl, hcl, hlen⟩
  · exact absurd e hc0
  obtain ⟨l1, l2, rfl⟩ := List.append_of_mem hcl
  have hlen' : l1.length + l2.length ≤ fuel := by
    simp only [List.length_append, List.length_cons] at hlen; omega
  obtain ⟨st1, h1, hI1, hm1⟩ := freeAll_next_loop hJ fuel l1 l2 hJg hl (by omega)
  obtain ⟨st2, h2, hI2, hm2⟩ := freeAll_prev_loop hJ fuel l1.reverse [] hI1
    (by rw [List.reverse_reverse]; exact hm1) (by rw [List.length_reverse]; omega)
  have hcf : c ∈ ((g.freeSet l2).freeSet l1.reverse).lists.flatten :=
    List.mem_flatten.2 ⟨_, hm2, List.mem_cons_self ..⟩
  obtain ⟨rc, hrc, hrcs⟩ := ((hJ.inv hI2).links_exact.2.1 c).1 hcf
  subst hrcs
  obtain ⟨st3, n, h3⟩ := freeNoLock_isSome (hJ.inv hI2) hrc debug
  have hI3 := hJ.free hI2 hrc h3
  refine ⟨st3, ?_, ?_⟩
  · unfold freeAll
    have : (rc.start == 0) = false := by simpa using hc0
    simp only [this, Bool.false_eq_true, if_false, h1, h2, h3, Option.map_some]
  · rw [G.freeAll_eq hI hl hcl]
    rw [G.free, G.freeSet_freeSet, G.freeSet_freeSet] at hI3
    rw [G.freeSet_congr g (S := l1 ++ rc.start :: l2) (T := l2 ++ (l1.reverse ++ [rc.start]))]
    · exact hI3
    · intro x; simp only [List.mem_append, List.mem_cons, List.mem_reverse, List.not_mem_nil, or_false]
      constructor
      · rintro (h | h | h)
        · exact Or.inr (Or.inl h)
        · exact Or.inr (Or.inr h)
        · exact Or.inl h
      · rintro (h | h | h)
        · exact Or.inr (Or.inr h)
        · exact Or.inl h
        · exact Or.inr (Or.inl h)

theorem inv_freeStable (lo hi : Nat) (debug : Bool) : FreeStable lo hi debug (Inv lo hi) :=
  ⟨fun h => h, fun h hr hf => (inv_free h hr hf).2⟩

theorem freeAll_spec {lo hi : Nat} {g : G} {st : St} (hI : Inv lo hi g st) {debug : Bool} {c fuel : Nat}
    (hc : c = 0 ∨ ∃ l ∈ g.lists, c ∈ l ∧ l.length ≤ fuel + 1) :
    ∃ st', freeAll debug st c fuel = some st' ∧ Inv lo hi (g.freeAll c) st' :=
  freeAll_spec_gen (inv_freeStable lo hi debug) hI hc

/-- **Preservation by `free_all_chunks(c)`**. -/
theorem inv_freeAll {lo hi : Nat} {g : G} {st : St} (hI : Inv lo hi g st) {debug : Bool} {c fuel : Nat}
    (hc : c = 0 ∨ ∃ l ∈ g.lists, c ∈ l ∧ l.length ≤ fuel + 1) {st' : St}
    (h : freeAll debug st c fuel = some st') : Inv lo hi (g.freeAll c) st' := by
  obtain ⟨st'', h', hI'⟩ := freeAll_spec hI (debug := debug) hc
  rw [h] at h'
  cases h'
  exact hI'

/-- Under the invariant, `allocate_contiguous_chunks` (with `k ≥ 1` and `head` = `0` or a list head)
hits none of its assertions. -/
theorem allocate_ok {lo hi : Nat} {g : G} {st : St} (hI : Inv lo hi g st) (debug : Bool)
    (d : Nat) {k head : Nat} (hk : 1 ≤ k) (hhead : head = 0 ∨ ∃ l ∈ g.lists, l.head? = some head) :
    ∃ c, (allocate debug st d k head).2 = R.val c := by
  cases hal : st.fl.alloc k with
  | mk o fl' =>
  cases o with
  | none => exact ⟨0, by unfold allocate; rw [hal]⟩
  | some chunk =>
    have hsome : (st.fl.alloc k).1 = some chunk := by rw [hal]
    obtain ⟨s, hfree, hks, _, _⟩ := alloc_spec hI.fl hk hsome
    obtain ⟨hclo, hchi⟩ := hI.fl.free_in _ hfree rfl
    dsimp only at hclo hchi
    have hlo := hI.lo_pos
    obtain ⟨hnd, hmem, hlk, hunl⟩ := hI.links_exact
    have hdisj : ∀ r' ∈ g.regions, r'.start + r'.size ≤ chunk ∨ chunk + s ≤ r'.start := by
      intro r' hr'
      rcases hI.fl.eq_or_disj (hI.reg_run r' hr') hfree with e | dd
      · cases e
      · exact dd
    have hcnot : chunk ∉ g.lists.flatten := by
      intro m
      obtain ⟨r', hr', hs⟩ := (hmem chunk).1 m
      have := hdisj r' hr'
      have := (hI.regions_disjoint.2 r' hr').1
      omega
    obtain ⟨hnc, hpc⟩ := hunl chunk hcnot
    have hc0 : (chunk == 0) = false := by simp; omega
    have hany : ((List.range' chunk k).any fun c => st.desc c != 0) = false := by
      rw [List.any_eq_false]
      intro x hx
      rw [List.mem_range'_1] at hx
      have : st.desc x = 0 := by
        apply hI.descriptor_exact.2
        intro r' hr' hin
        have := hdisj r' hr'
        omega
      simp [this]
    refine ⟨chunk, ?_⟩
    unfold allocate
    rw [hal]
    by_cases hh : head = 0
    · simp [hc0, hany, hh, hnc, hpc]
    · have hne : chunk ≠ head := by
        rcases hhead with e | ⟨l, hl, hlh⟩
        · exact absurd e hh
        · intro e
          apply hcnot
          refine List.mem_flatten.2 ⟨l, hl, ?_⟩
          cases l with
          | nil => cases hlh
          | cons b t => simp at hlh; rw [e, ← hlh]; exact List.mem_cons_self ..
      simp [hc0, hany, hh, upd, hne, hpc]
/-! ### The initial state -/

/-- **The finalised state satisfies the invariant** (no region handed out yet), for every
`finalize_static_space_map(first, last)` with `0 < first ≤ last < maxChunks`. -/
theorem inv_init {M first last : Nat} (h1 : 0 < first) (h2 : first ≤ last) (h3 : last < M) :
    Inv first (last + 1) {} (finalize M first last) := by
  refine ⟨h1, (finalize_fl h1 h2 h3).1, ?_, ⟨?_, ?_⟩, ⟨?_, ?_⟩, ⟨?_, ?_, ?_, ?_⟩, ?_⟩
  · intro r hr; cases hr
  · exact List.Pairwise.nil
  · intro r hr; cases hr
  · intro r hr; cases hr
  · intro x _; rfl
  · exact List.Pairwise.nil
  · intro c
    constructor
    · intro h; cases h
    · rintro ⟨r, hr, _⟩; cases hr
  · intro l hl; cases hl
  · intro c _; exact ⟨rfl, rfl⟩
  · show (finalize M first last).avail + 0 = last + 1 - first
    rfl

/-! ### Histories -/

/-- The three operations of C29. -/
inductive Op
  /-- `allocate_contiguous_chunks(descriptor, chunks, head)` -/
  | alloc (d k head : Nat)
  /-- `free_contiguous_chunks(start)` -/
  | free (c : Nat)
  /-- `free_all_chunks(any_chunk)` -/
  | freeAll (c : Nat)
deriving Repr, DecidableEq

/-- The callers' protocol (what the generator of `checks/C29.py` respects): at least one chunk is
requested and `head` is `0` or the current head of a region list; only allocated regions are freed;
`free_all_chunks` gets `0` or a region of a list (of at most 4097 regions: the model's loops have
4096 units of fuel each — the code's loops are unbounded). -/
def Pre (g : G) : Op → Prop
  | .alloc _ k head => 1 ≤ k ∧ (head = 0 ∨ ∃ l ∈ g.lists, l.head? = some head)
  | .free c => ∃ r ∈ g.regions, r.start = c
  | .freeAll c => c = 0 ∨ ∃ l ∈ g.lists, c ∈ l ∧ l.length ≤ 4096 + 1

/-- One operation on the model together with the oracle's bookkeeping; `none` = panic. -/
def step (debug : Bool) (g : G) (st : St) : Op → Option (G × St)
  | .alloc d k head =>
    match allocate debug st d k head with
    | (st', .val c) => some (g.alloc d k head c, st')
    | _ => none
  | .free c =>
    match freeNoLock debug st c with
    | some (st', _) => some (g.free c, st')
    | none => none
  | .freeAll c =>
    match freeAll debug st c with
    | some st' => some (g.freeAll c, st')
    | none => none

/-- Run a history; `none` as soon as an operation panics. -/
def run (debug : Bool) : G → St → List Op → Option (G × St)
  | g, st, [] => some (g, st)
  | g, st, op :: ops =>
    match step debug g st op with
    | none => none
    | some (g', st') => run debug g' st' ops

/-- Every operation of the history respects the protocol in the state it is applied to. -/
def Valid (debug : Bool) : G → St → List Op → Prop
  | _, _, [] => True
  | g, st, op :: ops =>
    Pre g op ∧ match step debug g st op with
      | none => True
      | some (g', st') => Valid debug g' st' ops

/-- One protocol-respecting operation preserves the invariant. -/
theorem inv_step {lo hi : Nat} {g : G} {st : St} (hI : Inv lo hi g st) {debug : Bool} {op : Op}
    (hpre : Pre g op) {g' : G} {st' : St} (h : step debug g st op = some (g', st')) : Inv lo hi g' st' := by
  cases op with
  | alloc d k head =>
    simp only [step] at h
    split at h
    · rename_i st'' c heq
      simp only [Option.some.injEq, Prod.mk.injEq] at h
      obtain ⟨rfl, rfl⟩ := h
      exact inv_allocate hI hpre.1 hpre.2 heq
    · cases h
  | free c =>
    obtain ⟨r, hr, rfl⟩ := hpre
    simp only [step] at h
    split at h
    · rename_i st'' n heq
      simp only [Option.some.injEq, Prod.mk.injEq] at h
      obtain ⟨rfl, rfl⟩ := h
      exact (inv_free hI hr heq).2
    · cases h
  | freeAll c =>
    simp only [step] at h
    split at h
    · rename_i st'' heq
      simp only [Option.some.injEq, Prod.mk.injEq] at h
      obtain ⟨rfl, rfl⟩ := h
      exact inv_freeAll hI hpre heq
    · cases h

/-- Under the invariant a protocol-respecting operation does not panic (no assertion of
`allocate_contiguous_chunks` / `free_contiguous_chunks_no_lock` fires), in debug and release. -/
theorem step_isSome {lo hi : Nat} {g : G} {st : St} (hI : Inv lo hi g st) (debug : Bool) {op : Op}
    (hpre : Pre g op) : ∃ g' st', step debug g st op = some (g', st') := by
  cases op with
  | alloc d k head =>
    obtain ⟨c, hc⟩ := allocate_ok hI debug d hpre.1 hpre.2
    simp only [step]
    cases hal : allocate debug st d k head with
    | mk st' r =>
      rw [hal] at hc
      dsimp only at hc
      subst hc
      exact ⟨_, _, rfl⟩
  | free c =>
    obtain ⟨r, hr, rfl⟩ := hpre
    obtain ⟨st', n, h⟩ := freeNoLock_isSome hI hr debug
    simp only [step]
    rw [h]
    exact ⟨_, _, rfl⟩
  | freeAll c =>
    obtain ⟨st', h, _⟩ := freeAll_spec hI (debug := debug) hpre
    simp only [step]
    rw [h]
    exact ⟨_, _, rfl⟩

/-- **The history invariant** (induction over the operation list): the invariant holds after every
protocol-respecting history of `allocate_contiguous_chunks` / `free_contiguous_chunks` /
`free_all_chunks`. -/
theorem history_inv {lo hi : Nat} {debug : Bool} : ∀ (ops : List Op) {g : G} {st : St}, Inv lo hi g st →
    Valid debug g st ops → ∀ {g' : G} {st' : St}, run debug g st ops = some (g', st') → Inv lo hi g' st'
  | [], g, st, hI, _, g', st', h => by
    simp only [run, Option.some.injEq, Prod.mk.injEq] at h
    obtain ⟨rfl, rfl⟩ := h
    exact hI
  | op :: ops, g, st, hI, hv, g', st', h => by
    obtain ⟨hpre, hrest⟩ := hv
    obtain ⟨g1, st1, hs⟩ := step_isSome hI debug hpre
    rw [hs] at hrest
    rw [run, hs] at h
    exact history_inv ops (inv_step hI hpre hs) hrest h

/-- A protocol-respecting history never panics. -/
theorem history_no_panic {lo hi : Nat} {debug : Bool} : ∀ (ops : List Op) {g : G} {st : St}, Inv lo hi g st →
    Valid debug g st ops → ∃ g' st', run debug g st ops = some (g', st')
  | [], g, st, _, _ => ⟨g, st, rfl⟩
  | op :: ops, g, st, hI, hv => by
    obtain ⟨hpre, hrest⟩ := hv
    obtain ⟨g1, st1, hs⟩ := step_isSome hI debug hpre
    rw [hs] at hrest
    rw [run, hs]
    exact history_no_panic ops (inv_step hI hpre hs) hrest

/-- **C29**: after any protocol-respecting history from the finalised state the invariant
`regions_disjoint ∧ descriptor_exact ∧ links_exact ∧ avail_exact` holds. -/
theorem history_inv_init {M first last : Nat} (h1 : 0 < first) (h2 : first ≤ last) (h3 : last < M)
    {debug : Bool} {ops : List Op} (hv : Valid debug {} (finalize M first last) ops) {g : G} {st : St}
    (hr : run debug {} (finalize M first last) ops = some (g, st)) : Inv first (last + 1) g st :=
  history_inv ops (inv_init h1 h2 h3) hv hr

/-- The regions handed out and not yet freed are non-empty, inside the range and pairwise disjoint. -/
theorem history_regions_disjoint {M first last : Nat} (h1 : 0 < first) (h2 : first ≤ last) (h3 : last < M)
    {debug : Bool} {ops : List Op} (hv : Valid debug {} (finalize M first last) ops) {g : G} {st : St}
    (hr : run debug {} (finalize M first last) ops = some (g, st)) :
    g.regions.Pairwise Reg.Disj ∧
    ∀ r ∈ g.regions, 0 < r.size ∧ first ≤ r.start ∧ r.start + r.size ≤ last + 1 :=
  (history_inv_init h1 h2 h3 hv hr).regions_disjoint

/-- The descriptor map says exactly which space owns each chunk. -/
theorem history_descriptor_exact {M first last : Nat} (h1 : 0 < first) (h2 : first ≤ last) (h3 : last < M)
    {debug : Bool} {ops : List Op} (hv : Valid debug {} (finalize M first last) ops) {g : G} {st : St}
    (hr : run debug {} (finalize M first last) ops = some (g, st)) :
    (∀ r ∈ g.regions, ∀ x, r.start ≤ x → x < r.start + r.size → st.desc x = r.desc) ∧
    (∀ x, (∀ r ∈ g.regions, ¬ (r.start ≤ x ∧ x < r.start + r.size)) → st.desc x = 0) :=
  (history_inv_init h1 h2 h3 hv hr).descriptor_exact

/-- The `prev`/`next` links of each space's region list are exact; `get_contiguous_region_chunks` of
every allocated region is its size. -/
theorem history_links_exact {M first last : Nat} (h1 : 0 < first) (h2 : first ≤ last) (h3 : last < M)
    {debug : Bool} {ops : List Op} (hv : Valid debug {} (finalize M first last) ops) {g : G} {st : St}
    (hr : run debug {} (finalize M first last) ops = some (g, st)) :
    g.lists.flatten.Nodup ∧ (∀ c, c ∈ g.lists.flatten ↔ ∃ r ∈ g.regions, r.start = c) ∧
    (∀ l ∈ g.lists, Linked st 0 l) ∧ (∀ c, c ∉ g.lists.flatten → st.next c = 0 ∧ st.prev c = 0) ∧
    (∀ r ∈ g.regions, regionChunks st r.start = r.size) := by
  have hI := history_inv_init h1 h2 h3 hv hr
  obtain ⟨a, b, c, d⟩ := hI.links_exact
  exact ⟨a, b, c, d, fun r hr => hI.region_chunks hr⟩

/-- The available-chunk count is exact. -/
theorem history_avail_exact {M first last : Nat} (h1 : 0 < first) (h2 : first ≤ last) (h3 : last < M)
    {debug : Bool} {ops : List Op} (hv : Valid debug {} (finalize M first last) ops) {g : G} {st : St}
    (hr : run debug {} (finalize M first last) ops = some (g, st)) :
    st.avail + regSum g.regions = last + 1 - first :=
  (history_inv_init h1 h2 h3 hv hr).avail_exact

/-- What `Linked` means for a walk: following `next` from the head of a list visits exactly the list. -/
def walk (st : St) : Nat → Nat → List Nat
  | 0, _ => []
  | fuel + 1, c => if c = 0 then [] else c :: walk st fuel (nextRegion st c)

theorem walk_linked {st : St} : ∀ (l : List Nat) (p : Nat) (fuel : Nat), Linked st p l → 0 ∉ l →
    l.length ≤ fuel → walk st fuel (l.headD 0) = l
  | [], _, fuel, _, _, _ => by cases fuel <;> simp [walk]
  | a :: t, p, 0, _, _, hlen => by simp at hlen
  | a :: t, p, fuel + 1, h, h0, hlen => by
    have ha : a ≠ 0 := fun e => h0 (e ▸ List.mem_cons_self ..)
    have ht : 0 ∉ t := fun m => h0 (List.mem_cons_of_mem _ m)
    have ih := walk_linked t a fuel h.2.2 ht (by simpa using hlen)
    have hnr : nextRegion st a = t.headD 0 := by
      unfold nextRegion
      rw [h.2.1]
      generalize t.headD 0 = v
      by_cases e : v = 0
      · subst e; simp
      · simp [ha, e]
    simp only [List.headD_cons, walk, ha, if_false, hnr, ih]

/-- `links_exact` as the oracle checks it: walking `get_next_contiguous_region` from the head of a
space's list visits exactly the allocated regions of that space, in order, once. -/
theorem history_walk {M first last : Nat} (h1 : 0 < first) (h2 : first ≤ last) (h3 : last < M)
    {debug : Bool} {ops : List Op} (hv : Valid debug {} (finalize M first last) ops) {g : G} {st : St}
    (hr : run debug {} (finalize M first last) ops = some (g, st)) {l : List Nat} (hl : l ∈ g.lists)
    {fuel : Nat} (hf : l.length ≤ fuel) : walk st fuel (l.headD 0) = l := by
  have hI := history_inv_init h1 h2 h3 hv hr
  exact walk_linked l 0 fuel (hI.links_exact.2.2.1 l hl)
    (fun m => hI.zero_not_mem (List.mem_flatten.2 ⟨l, hl, m⟩)) hf

/-! ### Exactness of a failed allocation (the oracle's `map32:alloc-fails` check) -/

/-- The extended invariant: `Inv`, the runs of the region map cover `[lo, hi)`, no two free runs
are adjacent (free always coalesces), and every allocated run that meets `[lo, hi)` is a region. -/
structure InvX (lo hi : Nat) (g : G) (st : St) : Prop where
  inv : Inv lo hi g st
  full : FLFull lo hi st.fl
  run_reg : ∀ r ∈ st.fl.runs, r.free = false → r.start + r.size ≤ lo ∨ hi ≤ r.start ∨
    ∃ reg ∈ g.regions, reg.start = r.start ∧ reg.size = r.size

theorem invX_init {M first last : Nat} (h1 : 0 < first) (h2 : first ≤ last) (h3 : last < M) :
    InvX first (last + 1) {} (finalize M first last) := by
  obtain ⟨hinv, honly, hF⟩ := finalize_fl h1 h2 h3
  refine ⟨inv_init h1 h2 h3, ⟨?_, ?_⟩, ?_⟩
  · intro x hx1 hx2
    exact ⟨_, hF, hx1, by dsimp only; omega⟩
  · intro a ha b hb haf hbf
    rw [honly a ha haf, honly b hb hbf]; dsimp only; omega
  · intro r hr hrf
    rcases hinv.eq_or_disj hr hF with e | d
    · rw [e] at hrf; cases hrf
    · unfold Disj at d; dsimp only at d
      rcases d with d | d
      · exact Or.inl d
      · exact Or.inr (Or.inl (by omega))

theorem invX_free {lo hi : Nat} {g : G} {st : St} (hX : InvX lo hi g st) {r : Reg} (hr : r ∈ g.regions)
    {debug : Bool} {st' : St} {n : Nat} (h : freeNoLock debug st r.start = some (st', n)) :
    InvX lo hi (g.free r.start) st' := by
  have hI := hX.inv
  have hrun := hI.reg_run r hr
  obtain ⟨_, hrlo, hrhi⟩ := hI.regions_disjoint.2 r hr
  obtain ⟨_, _, hflmem⟩ := freeRun_spec hI.fl hrun hrlo hrhi
  have hfl := freeNoLock_fl debug st st' r.start n h
  refine ⟨(inv_free hI hr h).2, hfl ▸ freeRun_full hI.fl hX.full hrun, ?_⟩
  intro r' hr' hrf'
  rw [hfl] at hr'
  obtain ⟨hr0, hne⟩ := (hflmem r' hrf').1 hr'
  rcases hX.run_reg r' hr0 hrf' with o | o | ⟨reg, hreg, hs, hz⟩
  · exact Or.inl o
  · exact Or.inr (Or.inl o)
  · refine Or.inr (Or.inr ⟨reg, ?_, hs, hz⟩)
    rw [G.free_regions, List.mem_filter]
    exact ⟨hreg, by simpa [hs] using hne⟩

theorem invX_allocate {lo hi : Nat} {g : G} {st : St} (hX : InvX lo hi g st) {debug : Bool}
    {d k head : Nat} {st' : St} {c : Nat} (hk : 1 ≤ k)
    (hhead : head = 0 ∨ ∃ l ∈ g.lists, l.head? = some head)
    (h : allocate debug st d k head = (st', .val c)) : InvX lo hi (g.alloc d k head c) st' := by
  have hI := hX.inv
  have hI' := inv_allocate hI hk hhead h
  rcases allocate_val debug st st' d k head c h with ⟨_, rfl, rfl⟩ | hsome
  · unfold G.alloc; rw [if_pos rfl]; exact hX
  obtain ⟨s, hfree, hks, _, hflmem⟩ := alloc_spec hI.fl hk hsome
  obtain ⟨hclo, _⟩ := hI.fl.free_in _ hfree rfl
  dsimp only at hclo
  have hlo := hI.lo_pos
  have hc : c ≠ 0 := by omega
  obtain ⟨_, hfl, _⟩ := allocate_partial debug st st' d k head c h hc
  have hg : g.alloc d k head c = { regions := ⟨c, k, d⟩ :: g.regions, lists := pushList c head g.lists } := by
    unfold G.alloc; rw [if_neg hc]
  refine ⟨hI', hfl ▸ alloc_full hI.fl hX.full hk hsome, ?_⟩
  intro r' hr' hrf'
  rw [hfl] at hr'
  rw [hg]
  rcases (hflmem r').1 hr' with ⟨hr0, _⟩ | rfl | ⟨_, rfl⟩
  · rcases hX.run_reg r' hr0 hrf' with o | o | ⟨reg, hreg, hs, hz⟩
    · exact Or.inl o
    · exact Or.inr (Or.inl o)
    · exact Or.inr (Or.inr ⟨reg, List.mem_cons_of_mem _ hreg, hs, hz⟩)
  · exact Or.inr (Or.inr ⟨⟨c, k, d⟩, List.mem_cons_self .., rfl, rfl⟩)
  · cases hrf'

theorem invX_freeStable (lo hi : Nat) (debug : Bool) : FreeStable lo hi debug (InvX lo hi) :=
  ⟨fun h => h.inv, fun h hr hf => invX_free h hr hf⟩

theorem invX_freeAll {lo hi : Nat} {g : G} {st : St} (hX : InvX lo hi g st) {debug : Bool} {c fuel : Nat}
    (hc : c = 0 ∨ ∃ l ∈ g.lists, c ∈ l ∧ l.length ≤ fuel + 1) {st' : St}
    (h : freeAll debug st c fuel = some st') : InvX lo hi (g.freeAll c) st' := by
  obtain ⟨st'', h', hX'⟩ := freeAll_spec_gen (invX_freeStable lo hi debug) hX hc
  rw [h] at h'
  cases h'
  exact hX'

theorem invX_step {lo hi : Nat} {g : G} {st : St} (hX : InvX lo hi g st) {debug : Bool} {op : Op}
    (hpre : Pre g op) {g' : G} {st' : St} (h : step debug g st op = some (g', st')) : InvX lo hi g' st' := by
  cases op with
  | alloc d k head =>
    simp only [step] at h
    split at h
    · rename_i st'' c heq
      simp only [Option.some.injEq, Prod.mk.injEq] at h
      obtain ⟨rfl, rfl⟩ := h
      exact invX_allocate hX hpre.1 hpre.2 heq
    · cases h
  | free c =>
    obtain ⟨r, hr, rfl⟩ := hpre
    simp only [step] at h
    split at h
    · rename_i st'' n heq
      simp only [Option.some.injEq, Prod.mk.injEq] at h
      obtain ⟨rfl, rfl⟩ := h
      exact invX_free hX hr heq
    · cases h
  | freeAll c =>
    simp only [step] at h
    split at h
    · rename_i st'' heq
      simp only [Option.some.injEq, Prod.mk.injEq] at h
      obtain ⟨rfl, rfl⟩ := h
      exact invX_freeAll hX hpre heq
    · cases h

theorem history_invX {lo hi : Nat} {debug : Bool} : ∀ (ops : List Op) {g : G} {st : St}, InvX lo hi g st →
    Valid debug g st ops → ∀ {g' : G} {st' : St}, run debug g st ops = some (g', st') → InvX lo hi g' st'
  | [], g, st, hX, _, g', st', h => by
    simp only [run, Option.some.injEq, Prod.mk.injEq] at h
    obtain ⟨rfl, rfl⟩ := h
    exact hX
  | op :: ops, g, st, hX, hv, g', st', h => by
    obtain ⟨hpre, hrest⟩ := hv
    obtain ⟨g1, st1, hs⟩ := step_isSome hX.inv debug hpre
    rw [hs] at hrest
    rw [run, hs] at h
    exact history_invX ops (invX_step hX hpre hs) hrest h

/-- `k` consecutive chunks of `[lo, hi)` none of which is allocated lie in one free run. -/
theorem InvX.free_span {lo hi : Nat} {g : G} {st : St} (hX : InvX lo hi g st) {a : Nat} (hlo : lo ≤ a) :
    ∀ j, 1 ≤ j → a + j ≤ hi →
      (∀ x, a ≤ x → x < a + j → ∀ reg ∈ g.regions, ¬ (reg.start ≤ x ∧ x < reg.start + reg.size)) →
      ∃ r ∈ st.fl.runs, r.free = true ∧ r.start ≤ a ∧ a + j ≤ r.start + r.size := by
  -- the run that covers an unallocated chunk of the range is free
  have hfreeAt : ∀ x, lo ≤ x → x < hi →
      (∀ reg ∈ g.regions, ¬ (reg.start ≤ x ∧ x < reg.start + reg.size)) →
      ∃ r ∈ st.fl.runs, r.free = true ∧ r.start ≤ x ∧ x < r.start + r.size := by
    intro x hx1 hx2 hun
    obtain ⟨r, hr, hr1, hr2⟩ := hX.full.cover x hx1 hx2
    refine ⟨r, hr, ?_, hr1, hr2⟩
    cases hrf : r.free with
    | true => rfl
    | false =>
      rcases hX.run_reg r hr hrf with o | o | ⟨reg, hreg, hs, hz⟩
      · omega
      · omega
      · exact absurd ⟨by omega, by omega⟩ (hun reg hreg)
  intro j
  induction j with
  | zero => intro h; omega
  | succ j ih =>
    intro _ hhi hun
    by_cases hj : j = 0
    · subst hj
      obtain ⟨r, hr, hrf, hr1, hr2⟩ := hfreeAt a hlo (by omega) (hun a (Nat.le_refl _) (by omega))
      exact ⟨r, hr, hrf, hr1, by omega⟩
    · obtain ⟨r, hr, hrf, hr1, hr2⟩ := ih (by omega) (by omega) (fun x h1 h2 => hun x h1 (by omega))
      by_cases hin : a + j < r.start + r.size
      · exact ⟨r, hr, hrf, hr1, by omega⟩
      · obtain ⟨r2, hr2m, hr2f, hr21, hr22⟩ := hfreeAt (a + j) (by omega) (by omega)
          (hun (a + j) (by omega) (by omega))
        rcases hX.inv.fl.eq_or_disj hr hr2m with e | dd
        · subst e; omega
        · unfold Disj at dd
          exact absurd (by omega) (hX.full.maximal r hr r2 hr2m hrf hr2f)

/-- **`allocate_contiguous_chunks` returns `0` only when it must**: after a `0` result there is no
window of `k` consecutive chunks of the range that are all unallocated. -/
theorem alloc_fails_exact {lo hi : Nat} {g : G} {st : St} (hX : InvX lo hi g st) {debug : Bool}
    {d k head : Nat} {st' : St} (hk : 1 ≤ k) (h : allocate debug st d k head = (st', .val 0)) :
    ¬ ∃ a, lo ≤ a ∧ a + k ≤ hi ∧
      ∀ x, a ≤ x → x < a + k → ∀ reg ∈ g.regions, ¬ (reg.start ≤ x ∧ x < reg.start + reg.size) := by
  rintro ⟨a, hlo, hhi, hun⟩
  have hI := hX.inv
  have hnone : (st.fl.alloc k).1 = none := by
    rcases allocate_val debug st st' d k head 0 h with ⟨hn, _, _⟩ | hsome
    · exact hn
    · obtain ⟨s, hfree, _, _, _⟩ := alloc_spec hI.fl hk hsome
      have := (hI.fl.free_in _ hfree rfl).1
      have := hI.lo_pos
      dsimp only at *; omega
  obtain ⟨r, hr, hrf, hr1, hr2⟩ := hX.free_span hlo k hk hhi hun
  have := (alloc_none_iff hI.fl).1 hnone r hr hrf
  omega

/-- The same from the finalised state, for every protocol-respecting history. -/
theorem history_alloc_fails_exact {M first last : Nat} (h1 : 0 < first) (h2 : first ≤ last) (h3 : last < M)
    {debug : Bool} {ops : List Op} (hv : Valid debug {} (finalize M first last) ops) {g : G} {st : St}
    (hr : run debug {} (finalize M first last) ops = some (g, st))
    {d k head : Nat} {st' : St} (hk : 1 ≤ k) (h : allocate debug st d k head = (st', .val 0)) :
    ¬ ∃ a, first ≤ a ∧ a + k ≤ last + 1 ∧
      ∀ x, a ≤ x → x < a + k → ∀ reg ∈ g.regions, ¬ (reg.start ≤ x ∧ x < reg.start + reg.size) :=
  alloc_fails_exact (history_invX ops (invX_init h1 h2 h3) hv hr) hk h

/-! ### The hypotheses are satisfiable: a concrete history -/

instance instDecidablePre (g : G) : (op : Op) → Decidable (Pre g op)
  | .alloc _ k head => inferInstanceAs (Decidable (1 ≤ k ∧ (head = 0 ∨ ∃ l ∈ g.lists, l.head? = some head)))
  | .free c => inferInstanceAs (Decidable (∃ r ∈ g.regions, r.start = c))
  | .freeAll c => inferInstanceAs (Decidable (c = 0 ∨ ∃ l ∈ g.lists, c ∈ l ∧ l.length ≤ 4096 + 1))

/-- Executable version of `Valid`. -/
def validB (debug : Bool) : G → St → List Op → Bool
  | _, _, [] => true
  | g, st, op :: ops =>
    decide (Pre g op) && match step debug g st op with
      | none => true
      | some (g', st') => validB debug g' st' ops

theorem valid_of_validB {debug : Bool} : ∀ (ops : List Op) {g : G} {st : St},
    validB debug g st ops = true → Valid debug g st ops
  | [], _, _, _ => trivial
  | op :: ops, g, st, h => by
    simp only [validB, Bool.and_eq_true, decide_eq_true_eq] at h
    refine ⟨h.1, ?_⟩
    cases hs : step debug g st op with
    | none => trivial
    | some p =>
      obtain ⟨g', st'⟩ := p
      rw [hs] at h
      exact valid_of_validB ops h.2

/-- A history on the range `[2, 10)` of a 12-chunk map, two spaces (descriptors 4 and 8): pushes on
both lists, a free of a middle region, re-use of the freed chunks, `free_all_chunks` from the tail of a
list, an exhausted allocation, and an allocation after it. -/
def exOps : List Op :=
  [.alloc 4 3 0, .alloc 4 2 2, .alloc 8 1 0, .alloc 4 1 5, .free 5, .alloc 8 1 7, .freeAll 2, .alloc 4 9 0,
   .alloc 8 2 5]

/-- What the examples look at: regions, lists, `avail`, and the tables on chunks `1 ..= 10`. -/
structure View where
  regions : List Reg
  lists : List (List Nat)
  avail : Nat
  desc : List Nat
  next : List Nat
  prev : List Nat
deriving Repr, DecidableEq

def view (p : Option (G × St)) : Option View :=
  p.map fun (g, st) => ⟨g.regions, g.lists, st.avail, (List.range' 1 10).map st.desc,
    (List.range' 1 10).map st.next, (List.range' 1 10).map st.prev⟩

/-- The history respects the protocol (debug and release). -/
example : Valid true {} (finalize 12 2 9) exOps := valid_of_validB _ (by decide +kernel)
example : Valid false {} (finalize 12 2 9) exOps := valid_of_validB _ (by decide +kernel)

/-- After the first six operations: four regions on two lists. -/
example : view (run true {} (finalize 12 2 9) (exOps.take 6)) =
    some ⟨[⟨5, 1, 8⟩, ⟨8, 1, 4⟩, ⟨7, 1, 8⟩, ⟨2, 3, 4⟩], [[8, 2], [5, 7]], 2,
      [0, 4, 4, 4, 8, 0, 8, 4, 0, 0], [0, 0, 0, 0, 7, 0, 0, 2, 0, 0], [0, 8, 0, 0, 0, 0, 5, 0, 0, 0]⟩ := by
  decide +kernel

/-- So `Inv` holds for a non-trivial state (`history_inv_init` applied to a concrete history). -/
example : ∃ g st, run true {} (finalize 12 2 9) exOps = some (g, st) ∧ Inv 2 10 g st ∧ g.regions.length = 3 := by
  obtain ⟨g, st, h⟩ := history_no_panic (debug := true) exOps
    (inv_init (M := 12) (first := 2) (last := 9) (by decide) (by decide) (by decide))
    (valid_of_validB _ (by decide +kernel))
  refine ⟨g, st, h, history_inv_init (by decide) (by decide) (by decide) (valid_of_validB _ (by decide +kernel)) h, ?_⟩
  have : (run true {} (finalize 12 2 9) exOps).map (fun p => p.1.regions.length) = some 3 := by decide +kernel
  rw [h] at this
  simpa using this

/-- `alloc_fails_exact`'s hypothesis occurs: the eighth operation of `exOps` (`alloc 4 9 0`) returns `0`. -/
example : (run true {} (finalize 12 2 9) (exOps.take 7)).map (fun p => (allocate true p.2 4 9 0).2) =
    some (.val 0) := by decide +kernel

/-- The harness's instance (`maxChunks = 2^25`, chunks `100 ..= 131`) satisfies `inv_init`'s hypotheses. -/
example : Inv 100 (131 + 1) {} (finalize (2 ^ 25) 100 131) :=
  inv_init (by decide) (by decide) (by omega)

end Mmtk.Map32
