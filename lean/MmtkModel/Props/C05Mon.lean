import MmtkModel.Props.C05
import MmtkModel.Model.WeakMon
/-!
# C05 — the monitor's executable collection step is a nursery collection of the model

`Mmtk.WeakMon.promote h surv` (what the `gcw` monitor does to its `Mmtk.Gen.Heap` at every pause) satisfies
the declarative `Mmtk.Gen.NurseryGC` whenever `surv` is exactly "old, or young and nursery-reachable", so
the theorems of `Props/C05.lean` (`nursery_sound`, `nursery_inv`, …) apply to the state the monitor
continues with.
-/
namespace Mmtk.WeakMon
open Mmtk.Gen

theorem promote_nurseryGC (h : Gen.Heap) (surv : Nat → Bool)
    (hs : ∀ x, h.alloc x = true → (surv x = true ↔ (h.young x = false ∨ NReach h x))) :
    NurseryGC h (promote h surv) where
  keep_old := by
    intro x ha hy
    simp [promote, ha, (hs x ha).2 (Or.inl hy)]
  keep_young := by
    intro y ha _ hr
    simp [promote, ha, (hs y ha).2 (Or.inr hr)]
  only_survivors := by
    intro y hy
    simp only [promote, Bool.and_eq_true] at hy
    exact ⟨hy.1, (hs y hy.1).1 hy.2⟩
  promoted := by
    intro y hy
    exact ⟨rfl, hy⟩
  fields := by intro y j _; rfl
  roots := rfl
  cleared := ⟨rfl, rfl⟩

/-- the remembered-set invariant holds again after the monitor's collection step -/
theorem promote_inv (h : Gen.Heap) (surv : Nat → Bool) (hi : Inv h)
    (hs : ∀ x, h.alloc x = true → (surv x = true ↔ (h.young x = false ∨ NReach h x))) :
    Inv (promote h surv) :=
  nursery_inv h _ hi (promote_nurseryGC h surv hs)

/-- the hypothesis is satisfiable: the survivor predicate "allocated" on a heap without young objects -/
example : NurseryGC genEmpty (promote genEmpty fun _ => true) :=
  promote_nurseryGC genEmpty _ (by intro x hx; simp [genEmpty] at hx)

end Mmtk.WeakMon
