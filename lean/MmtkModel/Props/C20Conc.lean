import MmtkModel.Props.C20
/-!
# C20, concurrent reading: every owner of a region sees its own sequential history

A list of calls `ops : List Op` is one linearisation of a concurrent execution in which every
side-metadata call is atomic.  `history_refines` (C20) says that the byte-level implementation model
refines the abstract array for ANY such list.  Here we add the *locality* consequence: when several
threads run concurrently and the calls that address region `r` all come from one thread (the owner of
that field), that thread observes exactly its own sequential history — the values returned to its calls
and the final value of the field are those of running its calls ALONE, whatever the interleaving with
the calls of the other threads on other regions (even regions whose fields share the same metadata
byte).
-/
namespace Mmtk.SideMeta
open Mmtk.Mem
open Mmtk.HeaderMeta (ByteMem)

/-- the calls of a history that address region `r` -/
def ownOps (lr r : Nat) (ops : List Op) : List Op := ops.filter (fun o => o.addr >>> lr == r)

/-- the values returned to those calls -/
def ownRets (lr r : Nat) (ops : List Op) (rets : List Ret) : List Ret :=
  ((ops.zip rets).filter (fun p => p.1.addr >>> lr == r)).map Prod.snd

/-! ## unfolding lemmas for `runSpec` in terms of projections -/

theorem runSpec_nil (W lr : Nat) (arr : Nat → Nat) : runSpec W lr arr [] = (arr, []) := rfl

theorem runSpec_cons (W lr : Nat) (arr : Nat → Nat) (op : Op) (ops : List Op) :
    runSpec W lr arr (op :: ops) =
      ((runSpec W lr (stepSpec W lr arr op).1 ops).1,
        (stepSpec W lr arr op).2 :: (runSpec W lr (stepSpec W lr arr op).1 ops).2) := rfl

theorem runSpec_cons_fst (W lr : Nat) (arr : Nat → Nat) (op : Op) (ops : List Op) :
    (runSpec W lr arr (op :: ops)).1 = (runSpec W lr (stepSpec W lr arr op).1 ops).1 := rfl

theorem runSpec_cons_snd (W lr : Nat) (arr : Nat → Nat) (op : Op) (ops : List Op) :
    (runSpec W lr arr (op :: ops)).2 =
      (stepSpec W lr arr op).2 :: (runSpec W lr (stepSpec W lr arr op).1 ops).2 := rfl

theorem runSpec_length (W lr : Nat) (arr : Nat → Nat) (ops : List Op) :
    (runSpec W lr arr ops).2.length = ops.length := by
  induction ops generalizing arr with
  | nil => rfl
  | cons op ops ih => rw [runSpec_cons_snd, List.length_cons, ih, List.length_cons]

/-! ## unfolding lemmas for `ownOps` / `ownRets` -/

theorem ownOps_nil (lr r : Nat) : ownOps lr r [] = [] := rfl

theorem ownOps_cons_own (lr r : Nat) (op : Op) (ops : List Op) (h : op.addr >>> lr = r) :
    ownOps lr r (op :: ops) = op :: ownOps lr r ops := by
  simp [ownOps, h]

theorem ownOps_cons_other (lr r : Nat) (op : Op) (ops : List Op) (h : op.addr >>> lr ≠ r) :
    ownOps lr r (op :: ops) = ownOps lr r ops := by
  simp [ownOps, h]

theorem ownRets_nil (lr r : Nat) (rets : List Ret) : ownRets lr r [] rets = [] := by
  simp [ownRets]

theorem ownRets_cons_own (lr r : Nat) (op : Op) (ops : List Op) (x : Ret) (rets : List Ret)
    (h : op.addr >>> lr = r) :
    ownRets lr r (op :: ops) (x :: rets) = x :: ownRets lr r ops rets := by
  simp [ownRets, h]

theorem ownRets_cons_other (lr r : Nat) (op : Op) (ops : List Op) (x : Ret) (rets : List Ret)
    (h : op.addr >>> lr ≠ r) :
    ownRets lr r (op :: ops) (x :: rets) = ownRets lr r ops rets := by
  simp [ownRets, h]

/-- every call of `ownOps lr r ops` addresses region `r` -/
theorem mem_ownOps {lr r : Nat} {ops : List Op} {o : Op} (h : o ∈ ownOps lr r ops) :
    o ∈ ops ∧ o.addr >>> lr = r := by
  simpa [ownOps, List.mem_filter] using h

/-! ## locality of one abstract step -/

/-- locality of one abstract step: it writes only the field of its own region -/
theorem stepSpec_other (W lr : Nat) (arr : Nat → Nat) (op : Op) (r : Nat) (h : op.addr >>> lr ≠ r) :
    (stepSpec W lr arr op).1 r = arr r := by
  have h' : ¬ r = op.addr >>> lr := fun e => h e.symm
  cases op with
  | load a | loadAtomic a => rfl
  | store a v | storeAtomic a v | setZero a | setZeroAtomic a
  | fetchAdd a v | fetchSub a v | fetchAnd a v | fetchOr a v =>
    simp only [Op.addr] at h'
    simp [stepSpec, upd, h']
  | cmpxchg a o n =>
    simp only [Op.addr] at h'
    simp only [stepSpec]
    split <;> simp [upd, h']
  | fetchUpdate a f =>
    simp only [Op.addr] at h'
    simp only [stepSpec]
    split <;> simp [upd, h']

/-- locality of one abstract step: it reads only the field of its own region -/
theorem stepSpec_congr (W lr : Nat) (arr arr' : Nat → Nat) (op : Op)
    (h : arr (op.addr >>> lr) = arr' (op.addr >>> lr)) :
    (stepSpec W lr arr op).2 = (stepSpec W lr arr' op).2 ∧
    (stepSpec W lr arr op).1 (op.addr >>> lr) = (stepSpec W lr arr' op).1 (op.addr >>> lr) := by
  cases op with
  | load a | loadAtomic a =>
    simp only [Op.addr] at h
    simp [stepSpec, Op.addr, h]
  | store a v | storeAtomic a v | setZero a | setZeroAtomic a
  | fetchAdd a v | fetchSub a v | fetchAnd a v | fetchOr a v =>
    simp only [Op.addr] at h
    simp [stepSpec, Op.addr, upd, h]
  | cmpxchg a o n =>
    simp only [Op.addr] at h
    simp only [stepSpec, Op.addr, h]
    split <;> simp [upd, h]
  | fetchUpdate a f =>
    simp only [Op.addr] at h
    simp only [stepSpec, Op.addr, h]
    split <;> simp [upd, h]

/-! ## the owner view -/

/-- **owner view (abstract array)**: in ANY interleaving `ops`, the field of region `r` ends with the
value, and the calls on region `r` return the values, that the calls on `r` alone produce — from any
array that agrees on `r`. -/
theorem runSpec_owner_view (W lr : Nat) (ops : List Op) (r : Nat) (arr arr' : Nat → Nat)
    (h : arr r = arr' r) :
    (runSpec W lr arr ops).1 r = (runSpec W lr arr' (ownOps lr r ops)).1 r ∧
    ownRets lr r ops (runSpec W lr arr ops).2 = (runSpec W lr arr' (ownOps lr r ops)).2 := by
  induction ops generalizing arr arr' with
  | nil => exact ⟨h, by rw [ownRets_nil]; rfl⟩
  | cons op ops ih =>
    by_cases hr : op.addr >>> lr = r
    · -- a call of the owner: same return value, same new field value
      have hc := stepSpec_congr W lr arr arr' op (by rw [hr]; exact h)
      rw [hr] at hc
      obtain ⟨i1, i2⟩ := ih (stepSpec W lr arr op).1 (stepSpec W lr arr' op).1 hc.2
      rw [ownOps_cons_own lr r op ops hr, runSpec_cons_fst, runSpec_cons_snd, runSpec_cons_fst,
        runSpec_cons_snd, ownRets_cons_own lr r op ops _ _ hr]
      exact ⟨i1, by rw [i2, hc.1]⟩
    · -- a call of another thread on another region: invisible for `r`
      have ho := stepSpec_other W lr arr op r hr
      obtain ⟨i1, i2⟩ := ih (stepSpec W lr arr op).1 arr' (ho.trans h)
      rw [ownOps_cons_other lr r op ops hr, runSpec_cons_fst, runSpec_cons_snd,
        ownRets_cons_other lr r op ops _ _ hr]
      exact ⟨i1, i2⟩

/-- **independence of the other threads (abstract array)**: two interleavings with the same calls on
region `r` (in the same order), started from arrays that agree on `r`, give the same final value of the
field of `r` and return the same values to the calls on `r` — whatever the other threads do. -/
theorem owner_view_interleaving_independent (W lr : Nat) (ops₁ ops₂ : List Op) (r : Nat)
    (arr₁ arr₂ : Nat → Nat) (h : arr₁ r = arr₂ r) (ho : ownOps lr r ops₁ = ownOps lr r ops₂) :
    (runSpec W lr arr₁ ops₁).1 r = (runSpec W lr arr₂ ops₂).1 r ∧
    ownRets lr r ops₁ (runSpec W lr arr₁ ops₁).2 = ownRets lr r ops₂ (runSpec W lr arr₂ ops₂).2 := by
  obtain ⟨a1, a2⟩ := runSpec_owner_view W lr ops₁ r arr₁ arr₁ rfl
  obtain ⟨b1, b2⟩ := runSpec_owner_view W lr ops₂ r arr₂ arr₁ h.symm
  rw [a1, a2, b1, b2, ho]
  exact ⟨rfl, rfl⟩

/-- **owner view (implementation model)**: for any list of valid calls — any interleaving of any number
of threads — on the byte-level memory, the calls addressing region `r` return exactly what the SAME
calls return when run alone on a plain array holding the initial value of that field, and the field ends
with the value they alone produce. -/
theorem concurrent_owner_view (debug : Bool) (s : Spec) (hs : s.ok) (ops : List Op)
    (hv : ∀ op ∈ ops, op.valid s) (m : Mem) (hm : ByteMem m) (r : Nat) :
    ∃ m' rets, runImpl debug s m ops = some (m', rets) ∧
      absArr m' s r =
        (runSpec (2 ^ s.logBits) s.logRegion (absArr m s) (ownOps s.logRegion r ops)).1 r ∧
      ownRets s.logRegion r ops rets =
        (runSpec (2 ^ s.logBits) s.logRegion (absArr m s) (ownOps s.logRegion r ops)).2 := by
  obtain ⟨m', rets, h1, h2⟩ := history_refines debug s hs ops hv m hm
  obtain ⟨o1, o2⟩ := runSpec_owner_view (2 ^ s.logBits) s.logRegion ops r (absArr m s) (absArr m s) rfl
  rw [h2] at o1 o2
  exact ⟨m', rets, h1, o1, o2⟩

/-- **independence of the other threads (implementation model)**: two interleavings of valid calls with
the same calls on region `r`, run on byte memories whose field of `r` holds the same value, both
complete, leave the same value in the field of `r`, and return the same values to the calls on `r`. -/
theorem concurrent_interleaving_independent (debug : Bool) (s : Spec) (hs : s.ok) (ops₁ ops₂ : List Op)
    (hv₁ : ∀ op ∈ ops₁, op.valid s) (hv₂ : ∀ op ∈ ops₂, op.valid s)
    (m₁ m₂ : Mem) (hm₁ : ByteMem m₁) (hm₂ : ByteMem m₂) (r : Nat)
    (h : absArr m₁ s r = absArr m₂ s r)
    (ho : ownOps s.logRegion r ops₁ = ownOps s.logRegion r ops₂) :
    ∃ m₁' rets₁ m₂' rets₂,
      runImpl debug s m₁ ops₁ = some (m₁', rets₁) ∧ runImpl debug s m₂ ops₂ = some (m₂', rets₂) ∧
      absArr m₁' s r = absArr m₂' s r ∧
      ownRets s.logRegion r ops₁ rets₁ = ownRets s.logRegion r ops₂ rets₂ := by
  obtain ⟨m₁', rets₁, h1, h2⟩ := history_refines debug s hs ops₁ hv₁ m₁ hm₁
  obtain ⟨m₂', rets₂, g1, g2⟩ := history_refines debug s hs ops₂ hv₂ m₂ hm₂
  obtain ⟨o1, o2⟩ := owner_view_interleaving_independent (2 ^ s.logBits) s.logRegion ops₁ ops₂ r
    (absArr m₁ s) (absArr m₂ s) h ho
  rw [h2, g2] at o1 o2
  exact ⟨m₁', rets₁, m₂', rets₂, h1, g1, o1, o2⟩

/-! ## non-vacuity -/

/-- Two threads, `A` doing `fetchAdd 1` three times on region 0 (addresses 0..7) and `B` doing
`fetchAdd 3` twice on region 1 (addresses 8..15) of a 2-bit table, interleaved `A B A B A`:
`A` sees `0, 1, 2` and leaves `3`; `B` sees `0, 3` and leaves `(3 + 3) % 4 = 2`. -/
example :
    let ops : List Op := [.fetchAdd 0 1, .fetchAdd 8 3, .fetchAdd 0 1, .fetchAdd 8 3, .fetchAdd 0 1]
    let out := runSpec 2 3 (fun _ => 0) ops
    ownRets 3 0 ops out.2 = [.val 0, .val 1, .val 2] ∧ out.1 0 = 3 ∧
    ownRets 3 1 ops out.2 = [.val 0, .val 3] ∧ out.1 1 = 2 ∧
    (ownOps 3 0 ops).length = 3 ∧ (ownOps 3 1 ops).length = 2 ∧
    (runSpec 2 3 (fun _ => 0) (ownOps 3 0 ops)).2 = [.val 0, .val 1, .val 2] ∧
    (runSpec 2 3 (fun _ => 0) (ownOps 3 1 ops)).2 = [.val 0, .val 3] := by
  decide

/-- another interleaving (`B B A A A`) of the same two threads: the same own-returns -/
example :
    let ops : List Op := [.fetchAdd 8 3, .fetchAdd 8 3, .fetchAdd 0 1, .fetchAdd 0 1, .fetchAdd 0 1]
    let out := runSpec 2 3 (fun _ => 0) ops
    ownRets 3 0 ops out.2 = [.val 0, .val 1, .val 2] ∧ out.1 0 = 3 ∧
    ownRets 3 1 ops out.2 = [.val 0, .val 3] ∧ out.1 1 = 2 := by
  decide

/-- the same interleaving on the byte-level model: a 2-bit table (`logBits = 1`), regions 0 and 1 share
the metadata byte at `start`; all calls are valid, and the implementation returns the same own values. -/
example :
    let s : Spec := { start := 1000, logBits := 1, logRegion := 3 }
    let ops : List Op := [.fetchAdd 0 1, .fetchAdd 8 3, .fetchAdd 0 1, .fetchAdd 8 3, .fetchAdd 0 1]
    s.ok ∧ (∀ op ∈ ops, op.valid s) ∧
    metaAddr s 0 = metaAddr s 8 ∧
    ((runImpl true s (fun _ => 0) ops).map fun x => (ownRets 3 0 ops x.2, ownRets 3 1 ops x.2, x.1 1000)) =
      some ([.val 0, .val 1, .val 2], [.val 0, .val 3], 0b1011) := by
  refine ⟨by decide, ?_, by decide, by decide⟩
  intro op hop
  simp only [List.mem_cons, List.not_mem_nil, or_false] at hop
  rcases hop with rfl | rfl | rfl | rfl | rfl <;> (unfold Op.valid; decide)

#print axioms stepSpec_other
#print axioms stepSpec_congr
#print axioms runSpec_owner_view
#print axioms owner_view_interleaving_independent
#print axioms concurrent_owner_view
#print axioms concurrent_interleaving_independent

end Mmtk.SideMeta
