import MmtkModel.Model.Mono32
import MmtkModel.Props.C29PR
/-!
# C28 for discontiguous monotone spaces (`MonotonePageResource` over `Map32`)

Model: `Model/Mono32.lean` (`Mono.allocPagesG`, `Mono.acquire`, `Mono.reset`) on top of the shared-pool
model of C29 (`Mmtk.Map32.PR`). Any number of monotone resources (`mono k`, head slot `base + k`, space
descriptor `desc k`) and any number of free-list-side page resources (head slots `< base`) share one
`Map32`.

* `acquire_spec` — what one `Space::acquire` round (reserve, `alloc_pages`, `clear_request` on failure)
  does, branch by branch: bump inside the current region / growth by a fresh region / FAILED growth.
* `MInv`, `minv_init`, `minv_step`, `mono_history_inv` — the invariant holds after every
  protocol-respecting history (`MPre`) that did not hit the debug-build self-deadlock (`mrun = some`).
* `mono_grant_in_space`, `mono_grants_disjoint`, `mono_counters_exact` — C28 in every reachable state.
* `mono_fail_changes_nothing_partial` — a refused request returns `fail` (never address 0) and leaves
  the shared map, every head, every list, every descriptor, every counter and every live grant
  unchanged. The FULL statement ("... and the resource's cursor / sentinel / current chunk") is FALSE for
  the code: a failed growth zeroes the three fields (`failed_growth_forgets_current_region`, by
  `decide`), after which `reset()` releases nothing (`reset_after_failed_growth_keeps_chunks`).
* `growth_failure_without_special_case_grants_zero` — the seeded variant C28b (`special = false`)
  answers `ok` with start address 0, by `decide`.
* `debug_self_deadlock_after_two_chunk_grant` — debug builds: the request after a grant of 2048 pages
  reaches `log_chunk_fields` with the mutex held.
-/
namespace Mmtk.Map32
open Mmtk.Pages (Acct commitPages)

/-! ## one `acquire` round, branch by branch -/

theorem finish_spec {debug : Bool} {p p' : PR} {m m' : Mono} {req : Nat} {nc : Bool} {r : AllocR}
    (hreq : 1 ≤ req) (h : Mono.finish debug p m req req nc = (p', m', r)) :
    (m.cursor + req ≤ m.sentinel ∧ p' = p ∧ r = .ok m.cursor req nc ∧
      m' = { m with cursor := m.cursor + req,
                    acct := { reserved := m.acct.reserved, committed := m.acct.committed + req } }) ∨
    (m.sentinel < m.cursor + req ∧ p' = p ∧ m' = m ∧ r = .fail) := by
  unfold Mono.finish at h
  have h1 : (debug && !(decide (m.cursor < m.cursor + req))) = false := by
    have : m.cursor < m.cursor + req := by omega
    simp [this]
  rw [h1] at h
  simp only [Bool.false_eq_true, if_false] at h
  by_cases hc : m.cursor + req > m.sentinel
  · rw [if_pos hc] at h
    simp only [Prod.mk.injEq] at h
    exact Or.inr ⟨hc, h.1.symm, h.2.1.symm, h.2.2.symm⟩
  · rw [if_neg hc] at h
    have hcp : commitPages m.acct req req =
        some { reserved := m.acct.reserved, committed := m.acct.committed + req } := by
      unfold commitPages
      rw [if_pos (Nat.le_refl _)]
      simp [Acct.reserve, Acct.commit]
    rw [hcp] at h
    simp only [Prod.mk.injEq] at h
    exact Or.inl ⟨by omega, h.1.symm, h.2.2.symm, h.2.1.symm⟩

theorem requiredChunks_ge (pages : Nat) : pages ≤ requiredChunks pages * pagesInChunk := by
  unfold requiredChunks pagesInChunk
  omega

theorem requiredChunks_pos {pages : Nat} (h : 1 ≤ pages) : 1 ≤ requiredChunks pages := by
  unfold requiredChunks pagesInChunk
  omega

/-- The three outcomes of `alloc_pages` / of one `Space::acquire` round (discontiguous resource;
`reserved = required = pages ≥ 1`; the answer is a grant or a refusal, i.e. the debug-build block did
not fire). `aOk` / `aFail` = the accounting after a grant / after a refusal. -/
inductive AllocCase (debug : Bool) (p p' : PR) (m m' : Mono) (sp d pages : Nat) (r : AllocR)
    (aOk aFail : Acct) : Prop
  /-- the request fits below the sentinel: cursor bump, nothing else changes -/
  | bump (hfit : m.cursor + pages ≤ m.sentinel) (hp : p' = p) (hr : r = .ok m.cursor pages false)
      (hm : m' = { cc := m.cc, cursor := m.cursor + pages, sentinel := m.sentinel, acct := aOk })
  /-- growth by a fresh region `[c, c + required_chunks)`: the grant starts at the region start -/
  | grown (c : Nat) (hc : c ≠ 0) (hover : m.sentinel < m.cursor + pages)
      (hg : p.grow debug sp d (requiredChunks pages) = (p', .val c))
      (hr : r = .ok (c * pagesInChunk) pages true)
      (hm : m' = { cc := c, cursor := c * pagesInChunk + pages,
                   sentinel := c * pagesInChunk + requiredChunks pages * pagesInChunk, acct := aOk })
  /-- FAILED growth: refused; cursor, sentinel and current chunk become zero -/
  | refused (hover : m.sentinel < m.cursor + pages)
      (hg : p.grow debug sp d (requiredChunks pages) = (p', .val 0)) (hr : r = .fail)
      (hm : m' = { cc := 0, cursor := 0, sentinel := 0, acct := aFail })

theorem allocPages_spec {debug : Bool} {p p' : PR} {m m' : Mono} {sp d pages : Nat} {r : AllocR}
    (hpages : 1 ≤ pages) (h : Mono.allocPages debug p m sp d pages pages = (p', m', r))
    (hr : (∃ s n b, r = .ok s n b) ∨ r = .fail) :
    AllocCase debug p p' m m' sp d pages r
      { reserved := m.acct.reserved, committed := m.acct.committed + pages } m.acct := by
  unfold Mono.allocPages Mono.allocPagesG at h
  split at h
  · simp only [Prod.mk.injEq] at h
    rcases hr with ⟨s, n, b, hr⟩ | hr <;> rw [hr] at h <;> exact absurd h.2.2 (by simp)
  split at h
  · simp only [Prod.mk.injEq] at h
    rcases hr with ⟨s, n, b, hr⟩ | hr <;> rw [hr] at h <;> exact absurd h.2.2 (by simp)
  split at h
  · simp only [Prod.mk.injEq] at h
    rcases hr with ⟨s, n, b, hr⟩ | hr <;> rw [hr] at h <;> exact absurd h.2.2 (by simp)
  dsimp only at h
  by_cases hover : m.cursor + pages > m.sentinel
  · rw [if_pos hover] at h
    split at h
    · rename_i p1 c hg
      rcases finish_spec hpages h with ⟨hfit, hp, hres, hm⟩ | ⟨hno, hp, hm, hres⟩
      · dsimp only at hfit hres hm
        subst hp
        by_cases hc : c = 0
        · subst hc
          simp at hfit
          omega
        · have hb : (true && c == 0) = false := by simp [hc]
          rw [hb] at hfit hm
          simp only [Bool.false_eq_true, if_false] at hfit hm
          exact .grown c hc hover hg hres hm
      · dsimp only at hno hm
        subst hp
        by_cases hc : c = 0
        · subst hc
          refine .refused hover hg hres ?_
          rw [hm]
          simp
        · have hb : (true && c == 0) = false := by simp [hc]
          rw [hb] at hno
          simp only [Bool.false_eq_true, if_false] at hno
          have := requiredChunks_ge pages
          omega
    · simp only [Prod.mk.injEq] at h
      rcases hr with ⟨s, n, b, hr⟩ | hr <;> rw [hr] at h <;> exact absurd h.2.2 (by simp)
    · simp only [Prod.mk.injEq] at h
      rcases hr with ⟨s, n, b, hr⟩ | hr <;> rw [hr] at h <;> exact absurd h.2.2 (by simp)
  · rw [if_neg hover] at h
    rcases finish_spec hpages h with ⟨hfit, hp, hres, hm⟩ | ⟨hno, _, _, _⟩
    · exact .bump hfit hp hres hm
    · omega

/-- One `Space::acquire` round (`reserve_pages`, `alloc_pages`, `clear_request` on failure): the same
three cases with the accounting of the whole round — a grant adds `pages` to both counters, a refusal
leaves both exactly as they were. -/
theorem acquire_spec {debug : Bool} {p p' : PR} {m m' : Mono} {sp d pages : Nat} {r : AllocR}
    (hpages : 1 ≤ pages) (h : Mono.acquire debug p m sp d pages = (p', m', r))
    (hr : (∃ s n b, r = .ok s n b) ∨ r = .fail) :
    AllocCase debug p p' m m' sp d pages r
      { reserved := m.acct.reserved + pages, committed := m.acct.committed + pages } m.acct := by
  unfold Mono.acquire Mono.acquireG at h
  dsimp only at h
  have hres : m.acct.reserve pages = { reserved := m.acct.reserved + pages, committed := m.acct.committed } := rfl
  rw [hres] at h
  split at h
  · rename_i p1 m1 heq
    have hc := allocPages_spec hpages heq (Or.inr rfl)
    cases hc with
    | bump _ _ hr' _ => cases hr'
    | grown _ _ _ _ hr' _ => cases hr'
    | refused hover hg _ hm =>
      subst hm
      dsimp only at h
      have hcl : Acct.clearReserved { reserved := m.acct.reserved + pages, committed := m.acct.committed } pages =
          some m.acct := by
        unfold Acct.clearReserved
        dsimp only
        rw [if_pos (by omega)]
        simp
      rw [hcl] at h
      simp only [Prod.mk.injEq] at h
      obtain ⟨rfl, rfl, rfl⟩ := h
      exact .refused hover hg rfl rfl
  · rename_i hnf
    have hne : r ≠ .fail := by
      intro hf
      subst hf
      exact hnf p' m' h
    rcases hr with ⟨s, n, b, hrr⟩ | hrr
    · have hc := allocPages_spec hpages (show Mono.allocPages debug p _ sp d pages pages = (p', m', r) from h)
        (Or.inl ⟨s, n, b, hrr⟩)
      cases hc with
      | bump hfit hp hr' hm => exact .bump hfit hp hr' hm
      | grown c hc0 hover hg hr' hm => exact .grown c hc0 hover hg hr' hm
      | refused _ _ hr' _ => exact absurd hr' hne
    · exact absurd hrr hne

/-! ## the whole system: one shared map, free-list-side resources, monotone resources -/

/-- a granted run of pages: first page number, number of pages -/
structure Grant where
  start : Nat
  pages : Nat
deriving Repr, DecidableEq

def Grant.Disj (a b : Grant) : Prop := a.start + a.pages ≤ b.start ∨ b.start + b.pages ≤ a.start

def gsum : List Grant → Nat
  | [] => 0
  | g :: gs => g.pages + gsum gs

/-- The state of the model (`p`, `mono`) together with the oracle's bookkeeping (`pg`: who owns which
region; `grants k`: the live grants of monotone resource `k`, i.e. those since its last reset). -/
structure MS where
  pg : PG := {}
  p : PR
  mono : Nat → Mono := fun _ => {}
  grants : Nat → List Grant := fun _ => []

def updM {α : Type} (f : Nat → α) (k : Nat) (v : α) : Nat → α := fun x => if x = k then v else f x

inductive MOp
  /-- an operation of a free-list-side page resource (C29's `POp`) -/
  | fl (op : POp)
  /-- one `Space::acquire` round of monotone resource `k` -/
  | malloc (k pages : Nat)
  /-- `MonotonePageResource::reset()` of resource `k` -/
  | mreset (k : Nat)

def POp.sp : POp → Nat
  | .grow sp _ _ => sp
  | .release sp _ => sp
  | .releaseAll sp => sp

/-- The callers' protocol: C29's `PPre` for the free-list side, whose head slots lie below the monotone
ones; at least one page is requested; `reset` on a resource owning at most 4097 regions (fuel). -/
def MPre (base : Nat) (s : MS) : MOp → Prop
  | .fl op => PPre s.pg op ∧ op.sp < base
  | .malloc _ pages => 1 ≤ pages
  | .mreset k => (s.pg.owned (base + k)).length ≤ 4096 + 1

/-- One operation; `none` = panic / debug-build self-deadlock. The second component is the answer of a
`malloc`. Monotone resource `k` uses head slot `base + k` and descriptor `desc k`. -/
def mstep (debug : Bool) (base : Nat) (desc : Nat → Nat) (s : MS) : MOp → Option (MS × Option AllocR)
  | .fl op =>
    match pstep debug s.pg s.p op with
    | some (pg', p') => some ({ s with pg := pg', p := p' }, none)
    | none => none
  | .malloc k pages =>
    match (s.mono k).acquire debug s.p (base + k) (desc k) pages with
    | (p', m', .ok start n nc) =>
      some ({ pg := if nc then s.pg.grow (base + k) (desc k) (requiredChunks pages) (s.p.heads (base + k)) m'.cc else s.pg,
              p := p', mono := updM s.mono k m', grants := updM s.grants k (⟨start, n⟩ :: s.grants k) },
            some (.ok start n nc))
    | (p', m', .fail) => some ({ s with p := p', mono := updM s.mono k m' }, some .fail)
    | _ => none
  | .mreset k =>
    match (s.mono k).reset debug s.p (base + k) with
    | some (p', m') =>
      some ({ pg := if (s.mono k).cursor = 0 then s.pg else s.pg.releaseAll (base + k) (s.p.heads (base + k)),
              p := p', mono := updM s.mono k m', grants := updM s.grants k [] }, none)
    | none => none

def mrun (debug : Bool) (base : Nat) (desc : Nat → Nat) : MS → List MOp → Option MS
  | s, [] => some s
  | s, op :: ops =>
    match mstep debug base desc s op with
    | none => none
    | some (s', _) => mrun debug base desc s' ops

def MValid (debug : Bool) (base : Nat) (desc : Nat → Nat) : MS → List MOp → Prop
  | _, [] => True
  | s, op :: ops =>
    MPre base s op ∧ match mstep debug base desc s op with
      | none => True
      | some (s', _) => MValid debug base desc s' ops

/-- What holds for monotone resource `k`. -/
structure MonoOK (base : Nat) (desc : Nat → Nat) (s : MS) (k : Nat) : Prop where
  /-- `mono_counters_exact` -/
  acct : (s.mono k).acct.reserved = gsum (s.grants k) ∧ (s.mono k).acct.committed = gsum (s.grants k)
  /-- cursor / sentinel / current chunk are all zero, or the current chunk starts a region the resource
  owns and `region start ≤ cursor ≤ sentinel = region end` -/
  cur : ((s.mono k).cursor = 0 ∧ (s.mono k).sentinel = 0 ∧ (s.mono k).cc = 0) ∨
        ∃ r ∈ s.pg.g.regions, r.start = (s.mono k).cc ∧ r.start ∈ s.pg.owned (base + k) ∧
          r.start * pagesInChunk ≤ (s.mono k).cursor ∧ (s.mono k).cursor ≤ (s.mono k).sentinel ∧
          (s.mono k).sentinel = r.start * pagesInChunk + r.size * pagesInChunk
  /-- the regions the resource owns were allocated with its descriptor -/
  odesc : ∀ r ∈ s.pg.g.regions, r.start ∈ s.pg.owned (base + k) → r.desc = desc k
  /-- every live grant lies inside a region the resource owns, below the cursor if that is the current one -/
  gin : ∀ g ∈ s.grants k, 0 < g.pages ∧ ∃ r ∈ s.pg.g.regions, r.start ∈ s.pg.owned (base + k) ∧
          r.start * pagesInChunk ≤ g.start ∧ g.start + g.pages ≤ r.start * pagesInChunk + r.size * pagesInChunk ∧
          (r.start = (s.mono k).cc → g.start + g.pages ≤ (s.mono k).cursor)
  gdisj : (s.grants k).Pairwise Grant.Disj

/-- The invariant: C29's page-resource invariant for the shared map + `MonoOK` for every resource. -/
structure MInv (lo hi base : Nat) (desc : Nat → Nat) (s : MS) : Prop where
  pinv : PInv lo hi s.pg s.p
  ok : ∀ k, MonoOK base desc s k

/-! ### frames: what another resource's operation leaves alone -/

/-- The regions owned by head slot `sp0` are untouched. -/
def Frame (pg pg' : PG) (sp0 : Nat) : Prop :=
  pg'.owned sp0 = pg.owned sp0 ∧ ∀ r : Reg, r.start ∈ pg.owned sp0 → (r ∈ pg'.g.regions ↔ r ∈ pg.g.regions)

theorem Frame.rfl' (pg : PG) (sp0 : Nat) : Frame pg pg sp0 := ⟨rfl, fun _ _ => Iff.rfl⟩

theorem monoOK_frame {base : Nat} {desc : Nat → Nat} {s s' : MS} {k : Nat} (h : MonoOK base desc s k)
    (hm : s'.mono k = s.mono k) (hg : s'.grants k = s.grants k) (hf : Frame s.pg s'.pg (base + k)) :
    MonoOK base desc s' k := by
  obtain ⟨ho, hr⟩ := hf
  refine ⟨by rw [hm, hg]; exact h.acct, ?_, ?_, ?_, by rw [hg]; exact h.gdisj⟩
  · rw [hm]
    rcases h.cur with hz | ⟨r, hr1, h1, h2, h3⟩
    · exact Or.inl hz
    · exact Or.inr ⟨r, (hr r h2).2 hr1, h1, by rw [ho]; exact h2, h3⟩
  · intro r hr1 h2
    rw [ho] at h2
    exact h.odesc r ((hr r h2).1 hr1) h2
  · intro g hgm
    rw [hg] at hgm
    obtain ⟨hp, r, hr1, h2, h3⟩ := h.gin g hgm
    exact ⟨hp, r, (hr r h2).2 hr1, by rw [ho]; exact h2, by rw [hm]; exact h3⟩

theorem frame_grow {lo hi : Nat} {pg : PG} {p p' : PR} {sp d n c sp0 : Nat}
    (hP' : PInv lo hi (pg.grow sp d n (p.heads sp) c) p') (hne : sp ≠ sp0) :
    Frame pg (pg.grow sp d n (p.heads sp) c) sp0 := by
  unfold PG.grow at hP' ⊢
  by_cases hc : c = 0
  · rw [if_pos hc]; exact Frame.rfl' _ _
  · rw [if_neg hc] at hP' ⊢
    have ho : (if sp0 = sp then c :: pg.owned sp else pg.owned sp0) = pg.owned sp0 := by
      rw [if_neg (fun h => hne h.symm)]
    refine ⟨ho, fun r hr => ?_⟩
    unfold G.alloc
    rw [if_neg hc]
    dsimp only
    constructor
    · intro hm
      rcases List.mem_cons.1 hm with rfl | hm
      · exfalso
        have h1 : c ∈ (if sp = sp then c :: pg.owned sp else pg.owned sp) := by
          rw [if_pos rfl]; exact List.mem_cons_self ..
        have h2 : c ∈ (if sp0 = sp then c :: pg.owned sp else pg.owned sp0) := by rw [ho]; exact hr
        exact hne (hP'.owned_disj sp sp0 c h1 h2)
      · exact hm
    · exact fun hm => List.mem_cons_of_mem _ hm

theorem frame_release {lo hi : Nat} {pg : PG} {p : PR} {sp c sp0 : Nat}
    (hP : PInv lo hi pg p) (hc : c ∈ pg.owned sp) (hne : sp ≠ sp0) : Frame pg (pg.release c) sp0 := by
  have hnot : c ∉ pg.owned sp0 := fun h => hne (hP.owned_disj sp sp0 c hc h)
  refine ⟨filter_ne_of_not_mem hnot, fun r hr => ?_⟩
  show r ∈ (pg.g.free c).regions ↔ _
  rw [G.free_regions, List.mem_filter]
  constructor
  · exact fun h => h.1
  · intro h
    refine ⟨h, ?_⟩
    have : r.start ≠ c := fun e => hnot (e ▸ hr)
    simpa using this

theorem frame_releaseAll {lo hi : Nat} {pg : PG} {p : PR} {sp sp0 : Nat}
    (hP : PInv lo hi pg p) (hne : sp ≠ sp0) : Frame pg (pg.releaseAll sp (p.heads sp)) sp0 := by
  refine ⟨?_, fun r hr => ?_⟩
  · show (if sp0 = sp then [] else pg.owned sp0) = pg.owned sp0
    rw [if_neg (fun h => hne h.symm)]
  · show r ∈ (pg.g.freeAll (p.heads sp)).regions ↔ _
    rw [hP.freeAll_head sp]
    unfold G.freeSet
    dsimp only
    rw [List.mem_filter]
    constructor
    · exact fun h => h.1
    · intro h
      refine ⟨h, ?_⟩
      have : r.start ∉ pg.owned sp := fun h' => hne (hP.owned_disj sp sp0 _ h' hr)
      simpa using this

/-! ### small facts -/

theorem pairwise_mem {l : List Reg} (h : l.Pairwise Reg.Disj) {a b : Reg} (ha : a ∈ l) (hb : b ∈ l) :
    a = b ∨ Reg.Disj a b := by
  induction l with
  | nil => cases ha
  | cons x t ih =>
    rw [List.pairwise_cons] at h
    rcases List.mem_cons.1 ha with rfl | ha' <;> rcases List.mem_cons.1 hb with rfl | hb'
    · exact Or.inl rfl
    · exact Or.inr (h.1 _ hb')
    · exact Or.inr (h.1 _ ha').symm
    · exact ih h.2 ha' hb'

/-- Under C29's invariant a growth that answers zero changed nothing at all. -/
theorem grow_zero_same {lo hi : Nat} {pg : PG} {p p' : PR} (hP : PInv lo hi pg p) {debug : Bool} {sp d n : Nat}
    (hn : 1 ≤ n) (h : p.grow debug sp d n = (p', .val 0)) : p' = p := by
  obtain ⟨hal, hheads⟩ := PR.grow_spec h
  rw [if_pos rfl] at hheads
  rcases allocate_val debug p.st p'.st d n (p.heads sp) 0 hal with ⟨_, _, hst⟩ | hsome
  · cases p; cases p'; simp_all
  · exfalso
    obtain ⟨s, hfree, _, _, _⟩ := alloc_spec hP.inv.fl hn hsome
    have := (hP.inv.fl.free_in _ hfree rfl).1
    have := hP.inv.lo_pos
    dsimp only at *; omega

theorem gsum_cons (g : Grant) (l : List Grant) : gsum (g :: l) = g.pages + gsum l := rfl

/-! ### preservation -/

theorem minv_malloc {lo hi base : Nat} {desc : Nat → Nat} {s s' : MS} {debug : Bool} {k pages : Nat}
    {res : Option AllocR} (hI : MInv lo hi base desc s) (hpages : 1 ≤ pages)
    (h : mstep debug base desc s (.malloc k pages) = some (s', res)) : MInv lo hi base desc s' := by
  have hK := hI.ok k
  have hrd := hI.pinv.inv.regions_disjoint
  have hlo := hI.pinv.inv.lo_pos
  simp only [mstep] at h
  split at h
  · -- a grant
    rename_i p' m' start n nc heq
    simp only [Option.some.injEq, Prod.mk.injEq] at h
    obtain ⟨rfl, -⟩ := h
    have hc := acquire_spec hpages heq (Or.inl ⟨start, n, nc, rfl⟩)
    cases hc with
    | refused _ _ hr' _ => cases hr'
    | bump hfit hp hr' hm =>
      simp only [AllocR.ok.injEq] at hr'
      obtain ⟨rfl, rfl, rfl⟩ := hr'
      subst hp
      subst hm
      simp only [Bool.false_eq_true, if_false]
      refine ⟨hI.pinv, fun k' => ?_⟩
      by_cases hk : k' = k
      · subst hk
        -- the current region
        rcases hK.cur with ⟨h0, h1, _⟩ | ⟨r, hr1, hrc, hro, hlow, hle, hsen⟩
        · omega
        refine ⟨?_, ?_, hK.odesc, ?_, ?_⟩
        · simp only [updM, eq_self, if_true, gsum_cons]
          have := hK.acct
          omega
        · simp only [updM, eq_self, if_true]
          exact Or.inr ⟨r, hr1, hrc, hro, by omega, hfit, hsen⟩
        · intro g hg
          simp only [updM, eq_self, if_true] at hg ⊢
          rcases List.mem_cons.1 hg with rfl | hg
          · exact ⟨hpages, r, hr1, hro, hlow, by dsimp only; omega, fun _ => Nat.le_refl _⟩
          · obtain ⟨hp, r', hr1', h2, h3, h4, h5⟩ := hK.gin g hg
            exact ⟨hp, r', hr1', h2, h3, h4, fun e => by have := h5 e; omega⟩
        · simp only [updM, eq_self, if_true]
          rw [List.pairwise_cons]
          refine ⟨fun g hg => ?_, hK.gdisj⟩
          obtain ⟨_, r', hr1', _, h3, h4, h5⟩ := hK.gin g hg
          by_cases hs : r'.start = (s.mono k').cc
          · exact Or.inr (h5 hs)
          · rcases pairwise_mem hrd.1 hr1 hr1' with e | hd
            · exact absurd (e ▸ hrc) hs
            · unfold Reg.Disj at hd
              unfold Grant.Disj
              dsimp only
              unfold pagesInChunk at *
              omega
      · exact monoOK_frame (hI.ok k') (by simp only [updM, if_neg hk]) (by simp only [updM, if_neg hk])
          (Frame.rfl' _ _)
    | grown c hc0 hover hg hr' hm =>
      simp only [AllocR.ok.injEq] at hr'
      obtain ⟨rfl, rfl, rfl⟩ := hr'
      subst hm
      simp only [if_true]
      have hrc := requiredChunks_pos hpages
      have hP' := pinv_grow hI.pinv hrc hg
      have hpg : s.pg.grow (base + k) (desc k) (requiredChunks n) (s.p.heads (base + k)) c =
          { g := s.pg.g.alloc (desc k) (requiredChunks n) (s.p.heads (base + k)) c,
            owned := fun x => if x = base + k then c :: s.pg.owned (base + k) else s.pg.owned x } := by
        unfold PG.grow; rw [if_neg hc0]
      have hreg : (s.pg.g.alloc (desc k) (requiredChunks n) (s.p.heads (base + k)) c).regions =
          ⟨c, requiredChunks n, desc k⟩ :: s.pg.g.regions := by
        unfold G.alloc; rw [if_neg hc0]
      have hrd' := hP'.inv.regions_disjoint
      rw [hpg] at hrd'
      unfold RegionsDisjoint at hrd'
      dsimp only at hrd'
      rw [hreg, List.pairwise_cons] at hrd'
      -- no old region starts at `c`
      have hnew : ∀ r ∈ s.pg.g.regions, r.start ≠ c := by
        intro r hr e
        have hd := hrd'.1.1 r hr
        have hsz := (hrd.2 r hr).1
        unfold Reg.Disj at hd
        dsimp only at hd
        omega
      refine ⟨hP', fun k' => ?_⟩
      by_cases hk : k' = k
      · subst hk
        rw [hpg]
        refine ⟨?_, ?_, ?_, ?_, ?_⟩
        · simp only [updM, eq_self, if_true, gsum_cons]
          have := hK.acct
          omega
        · simp only [updM, eq_self, if_true]
          refine Or.inr ⟨⟨c, requiredChunks n, desc k'⟩, ?_, rfl, ?_, Nat.le_add_right _ _, ?_, rfl⟩
          · rw [hreg]; exact List.mem_cons_self ..
          · exact List.mem_cons_self ..
          · have := requiredChunks_ge n
            omega
        · intro r hr ho
          dsimp only at hr ho
          rw [hreg] at hr
          rw [if_pos rfl] at ho
          rcases List.mem_cons.1 hr with rfl | hr
          · rfl
          · rcases List.mem_cons.1 ho with e | ho
            · exact absurd e (hnew r hr)
            · exact hK.odesc r hr ho
        · intro g hgm
          simp only [updM, eq_self, if_true] at hgm ⊢
          rcases List.mem_cons.1 hgm with rfl | hgm
          · refine ⟨hpages, ⟨c, requiredChunks n, desc k'⟩, ?_, ?_, Nat.le_refl _, ?_, fun _ => Nat.le_refl _⟩
            · rw [hreg]; exact List.mem_cons_self ..
            · exact List.mem_cons_self ..
            · have := requiredChunks_ge n
              dsimp only
              omega
          · obtain ⟨hp, r', hr1', h2, h3, h4, _⟩ := hK.gin g hgm
            refine ⟨hp, r', ?_, List.mem_cons_of_mem _ h2, h3, h4, fun e => absurd e (hnew r' hr1')⟩
            rw [hreg]; exact List.mem_cons_of_mem _ hr1'
        · simp only [updM, eq_self, if_true]
          rw [List.pairwise_cons]
          refine ⟨fun g hgm => ?_, hK.gdisj⟩
          obtain ⟨_, r', hr1', _, h3, h4, _⟩ := hK.gin g hgm
          have hd := hrd'.1.1 r' hr1'
          have := requiredChunks_ge n
          unfold Reg.Disj at hd
          unfold Grant.Disj
          dsimp only at hd ⊢
          unfold pagesInChunk at *
          omega
      · refine monoOK_frame (hI.ok k') (by simp only [updM, if_neg hk]) (by simp only [updM, if_neg hk]) ?_
        exact frame_grow hP' (by omega)
  · -- refused
    rename_i p' m' heq
    simp only [Option.some.injEq, Prod.mk.injEq] at h
    obtain ⟨rfl, -⟩ := h
    have hc := acquire_spec hpages heq (Or.inr rfl)
    cases hc with
    | bump _ _ hr' _ => cases hr'
    | grown _ _ _ _ hr' _ => cases hr'
    | refused hover hg _ hm =>
      have hpp := grow_zero_same hI.pinv (requiredChunks_pos hpages) hg
      subst hpp
      subst hm
      refine ⟨hI.pinv, fun k' => ?_⟩
      by_cases hk : k' = k
      · subst hk
        refine ⟨?_, ?_, hK.odesc, ?_, hK.gdisj⟩
        · simp only [updM, eq_self, if_true]; exact hK.acct
        · simp [updM]
        · intro g hgm
          obtain ⟨hp, r', hr1', h2, h3, h4, _⟩ := hK.gin g hgm
          refine ⟨hp, r', hr1', h2, h3, h4, fun e => ?_⟩
          simp only [updM, eq_self, if_true] at e
          have := (hrd.2 r' hr1').2.1
          omega
      · exact monoOK_frame (hI.ok k') (by simp only [updM, if_neg hk]) rfl (Frame.rfl' _ _)
  · cases h

theorem frame_pstep {lo hi : Nat} {pg pg' : PG} {p p' : PR} {debug : Bool} {op : POp} {sp0 : Nat}
    (hP : PInv lo hi pg p) (hpre : PPre pg op) (h : pstep debug pg p op = some (pg', p')) (hne : op.sp ≠ sp0) :
    Frame pg pg' sp0 := by
  cases op with
  | grow sp d k =>
    simp only [pstep] at h
    split at h
    · rename_i p1 c heq
      simp only [Option.some.injEq, Prod.mk.injEq] at h
      obtain ⟨rfl, rfl⟩ := h
      exact frame_grow (pinv_grow hP hpre heq) hne
    · cases h
  | release sp c =>
    simp only [pstep] at h
    split at h
    · simp only [Option.some.injEq, Prod.mk.injEq] at h
      obtain ⟨rfl, rfl⟩ := h
      exact frame_release hP hpre hne
    · cases h
  | releaseAll sp =>
    simp only [pstep] at h
    split at h
    · simp only [Option.some.injEq, Prod.mk.injEq] at h
      obtain ⟨rfl, rfl⟩ := h
      exact frame_releaseAll hP hne
    · cases h

theorem minv_fl {lo hi base : Nat} {desc : Nat → Nat} {s s' : MS} {debug : Bool} {op : POp}
    {res : Option AllocR} (hI : MInv lo hi base desc s) (hpre : PPre s.pg op) (hsp : op.sp < base)
    (h : mstep debug base desc s (.fl op) = some (s', res)) : MInv lo hi base desc s' := by
  simp only [mstep] at h
  split at h
  · rename_i pg' p' heq
    simp only [Option.some.injEq, Prod.mk.injEq] at h
    obtain ⟨rfl, -⟩ := h
    exact ⟨pinv_step hI.pinv hpre heq, fun k =>
      monoOK_frame (hI.ok k) rfl rfl (frame_pstep hI.pinv hpre heq (by omega))⟩
  · cases h

theorem minv_reset {lo hi base : Nat} {desc : Nat → Nat} {s s' : MS} {debug : Bool} {k : Nat}
    {res : Option AllocR} (hI : MInv lo hi base desc s) (hpre : (s.pg.owned (base + k)).length ≤ 4096 + 1)
    (h : mstep debug base desc s (.mreset k) = some (s', res)) : MInv lo hi base desc s' := by
  have hK := hI.ok k
  simp only [mstep] at h
  split at h
  · rename_i p' m' heq
    simp only [Option.some.injEq, Prod.mk.injEq] at h
    obtain ⟨rfl, -⟩ := h
    unfold Mono.reset at heq
    by_cases hz : (s.mono k).cursor = 0
    · have hb : ((s.mono k).cursor != 0) = false := by simp [hz]
      rw [hb] at heq
      simp only [Bool.false_eq_true, if_false, Option.some.injEq, Prod.mk.injEq] at heq
      obtain ⟨rfl, rfl⟩ := heq
      rw [if_pos hz]
      refine ⟨hI.pinv, fun k' => ?_⟩
      by_cases hk : k' = k
      · subst hk
        refine ⟨?_, ?_, hK.odesc, ?_, ?_⟩
        · simp [updM, Acct.reset, gsum]
        · simp only [updM, eq_self, if_true]; exact hK.cur
        · intro g hg; simp [updM] at hg
        · simp [updM]
      · exact monoOK_frame (hI.ok k') (by simp only [updM, if_neg hk]) (by simp only [updM, if_neg hk])
          (Frame.rfl' _ _)
    · have hb : ((s.mono k).cursor != 0) = true := by simp [hz]
      rw [hb] at heq
      simp only [if_true] at heq
      split at heq
      · rename_i p1 hra
        simp only [Option.some.injEq, Prod.mk.injEq] at heq
        obtain ⟨rfl, rfl⟩ := heq
        rw [if_neg hz]
        have hP' := pinv_releaseAll hI.pinv hpre hra
        refine ⟨hP', fun k' => ?_⟩
        by_cases hk : k' = k
        · subst hk
          have hown : (s.pg.releaseAll (base + k') (s.p.heads (base + k'))).owned (base + k') = [] := by
            show (if base + k' = base + k' then [] else s.pg.owned (base + k')) = []
            rw [if_pos rfl]
          refine ⟨?_, ?_, ?_, ?_, ?_⟩
          · simp [updM, Acct.reset, gsum]
          · simp [updM]
          · intro r _ ho; rw [hown] at ho; cases ho
          · intro g hg; simp [updM] at hg
          · simp [updM]
        · exact monoOK_frame (hI.ok k') (by simp only [updM, if_neg hk]) (by simp only [updM, if_neg hk])
            (frame_releaseAll hI.pinv (by omega))
      · cases heq
  · cases h

/-- **Preservation**: every protocol-respecting operation that answers keeps the invariant. -/
theorem minv_step {lo hi base : Nat} {desc : Nat → Nat} {s s' : MS} {debug : Bool} {op : MOp}
    {res : Option AllocR} (hI : MInv lo hi base desc s) (hpre : MPre base s op)
    (h : mstep debug base desc s op = some (s', res)) : MInv lo hi base desc s' := by
  cases op with
  | fl op => exact minv_fl hI hpre.1 hpre.2 h
  | malloc k pages => exact minv_malloc hI hpre h
  | mreset k => exact minv_reset hI hpre h

theorem minv_init {M first last : Nat} (h1 : 0 < first) (h2 : first ≤ last) (h3 : last < M) (base : Nat)
    (desc : Nat → Nat) : MInv first (last + 1) base desc { p := { st := finalize M first last } } :=
  ⟨pinv_init h1 h2 h3, fun _ => ⟨⟨rfl, rfl⟩, Or.inl ⟨rfl, rfl, rfl⟩, fun _ hr => (by cases hr),
    fun _ hg => (by cases hg), List.Pairwise.nil⟩⟩

/-- The invariant holds after every protocol-respecting history over the shared pool. -/
theorem mono_history_inv {lo hi base : Nat} {desc : Nat → Nat} {debug : Bool} :
    ∀ (ops : List MOp) {s s' : MS}, MInv lo hi base desc s → MValid debug base desc s ops →
      mrun debug base desc s ops = some s' → MInv lo hi base desc s' := by
  intro ops
  induction ops with
  | nil => intro s s' hI _ h; simp only [mrun, Option.some.injEq] at h; exact h ▸ hI
  | cons op ops ih =>
    intro s s' hI hv h
    simp only [mrun] at h
    simp only [MValid] at hv
    cases hs : mstep debug base desc s op with
    | none => rw [hs] at h; cases h
    | some q =>
      obtain ⟨s1, r⟩ := q
      rw [hs] at h hv
      exact ih (minv_step hI hv.1 hs) hv.2 h

/-! ## C28 in every reachable state -/

/-- **`mono_grant_in_space`**: every live grant of resource `k` is non-empty and lies inside a region
`[r.start, r.start + r.size)` that the resource owns (it is on the resource's own region list) and
every chunk of which carries the resource's descriptor in the VM map. -/
theorem mono_grant_in_space {lo hi base : Nat} {desc : Nat → Nat} {s : MS} (hI : MInv lo hi base desc s)
    {k : Nat} {g : Grant} (hg : g ∈ s.grants k) :
    0 < g.pages ∧ ∃ r ∈ s.pg.g.regions, r.start ∈ s.pg.owned (base + k) ∧ lo ≤ r.start ∧ r.start + r.size ≤ hi ∧
      r.start * pagesInChunk ≤ g.start ∧ g.start + g.pages ≤ (r.start + r.size) * pagesInChunk ∧
      ∀ x, r.start ≤ x → x < r.start + r.size → s.p.st.desc x = desc k := by
  obtain ⟨hp, r, hr, ho, h1, h2, _⟩ := (hI.ok k).gin g hg
  have hb := hI.pinv.inv.regions_disjoint.2 r hr
  refine ⟨hp, r, hr, ho, hb.2.1, hb.2.2, h1, by rw [Nat.add_mul]; exact h2, fun x hx1 hx2 => ?_⟩
  rw [hI.pinv.inv.descriptor_exact.1 r hr x hx1 hx2]
  exact (hI.ok k).odesc r hr ho

/-- **`mono_grants_disjoint`**: the live grants of one resource are pairwise disjoint; a live grant of
resource `k` is disjoint from every live grant of every other monotone resource, and from every region
owned by any other page resource (head slot `sp ≠ base + k`). -/
theorem mono_grants_disjoint {lo hi base : Nat} {desc : Nat → Nat} {s : MS} (hI : MInv lo hi base desc s) (k : Nat) :
    (s.grants k).Pairwise Grant.Disj ∧
    (∀ g ∈ s.grants k, ∀ sp, sp ≠ base + k → ∀ r ∈ s.pg.g.regions, r.start ∈ s.pg.owned sp →
      g.start + g.pages ≤ r.start * pagesInChunk ∨ (r.start + r.size) * pagesInChunk ≤ g.start) ∧
    (∀ k', k' ≠ k → ∀ g ∈ s.grants k, ∀ g' ∈ s.grants k', Grant.Disj g g') := by
  have key : ∀ g ∈ s.grants k, ∀ sp, sp ≠ base + k → ∀ r ∈ s.pg.g.regions, r.start ∈ s.pg.owned sp →
      g.start + g.pages ≤ r.start * pagesInChunk ∨ (r.start + r.size) * pagesInChunk ≤ g.start := by
    intro g hg sp hsp r hr ho
    obtain ⟨_, r0, hr0, ho0, h1, h2, _⟩ := (hI.ok k).gin g hg
    rcases pairwise_mem hI.pinv.inv.regions_disjoint.1 hr0 hr with e | hd
    · subst e
      exact absurd (hI.pinv.owned_disj sp (base + k) _ ho ho0) hsp
    · unfold Reg.Disj at hd
      rw [Nat.add_mul]
      unfold pagesInChunk at *
      omega
  refine ⟨(hI.ok k).gdisj, key, fun k' hk g hg g' hg' => ?_⟩
  obtain ⟨_, r', hr', ho', h1', h2', _⟩ := (hI.ok k').gin g' hg'
  have := key g hg (base + k') (by omega) r' hr' ho'
  unfold Grant.Disj
  rw [Nat.add_mul] at this
  omega

/-- **`mono_counters_exact`**: reserved = committed = the pages granted since the last reset. -/
theorem mono_counters_exact {lo hi base : Nat} {desc : Nat → Nat} {s : MS} (hI : MInv lo hi base desc s) (k : Nat) :
    (s.mono k).acct.reserved = gsum (s.grants k) ∧ (s.mono k).acct.committed = gsum (s.grants k) :=
  (hI.ok k).acct

/-- **`mono_fail_changes_nothing_partial`**: a refused request answers `fail` — it never answers a
grant at address 0 — and leaves the shared VM map (region map, links, descriptors, avail), every page
resource's head, the ownership bookkeeping, every live grant, every other monotone resource and this
resource's two counters exactly as they were. The pool had no run of `required_chunks` chunks and the
request did not fit below the sentinel.

FULL statement, which is FALSE for the code (see `failed_growth_forgets_current_region`): "… and the
resource's cursor, sentinel and current chunk are unchanged". The code zeroes all three. -/
theorem mono_fail_changes_nothing_partial {lo hi base : Nat} {desc : Nat → Nat} {s s' : MS} {debug : Bool}
    {k pages : Nat} {r : AllocR} (hI : MInv lo hi base desc s) (hpages : 1 ≤ pages)
    (h : mstep debug base desc s (.malloc k pages) = some (s', some r)) (hr : ∀ st n b, r ≠ .ok st n b) :
    r = .fail ∧ s'.p = s.p ∧ s'.pg = s.pg ∧ s'.grants = s.grants ∧ (s'.mono k).acct = (s.mono k).acct ∧
    (∀ k', k' ≠ k → s'.mono k' = s.mono k') ∧
    (s'.mono k).cursor = 0 ∧ (s'.mono k).sentinel = 0 ∧ (s'.mono k).cc = 0 ∧
    (s.mono k).sentinel < (s.mono k).cursor + pages ∧
    (s.p.grow debug (base + k) (desc k) (requiredChunks pages)).2 = .val 0 := by
  simp only [mstep] at h
  split at h
  · simp only [Option.some.injEq, Prod.mk.injEq] at h
    exact absurd h.2.symm (hr _ _ _)
  · rename_i p' m' heq
    simp only [Option.some.injEq, Prod.mk.injEq] at h
    obtain ⟨rfl, rfl⟩ := h
    have hc := acquire_spec hpages heq (Or.inr rfl)
    cases hc with
    | bump _ _ hr' _ => cases hr'
    | grown _ _ _ _ hr' _ => cases hr'
    | refused hover hg _ hm =>
      have hpp := grow_zero_same hI.pinv (requiredChunks_pos hpages) hg
      subst hpp
      subst hm
      refine ⟨rfl, rfl, rfl, rfl, by simp [updM], fun k' hk => by simp [updM, hk], by simp [updM],
        by simp [updM], by simp [updM], hover, by rw [hg]⟩
  · cases h

/-- A grant is never at address 0: it lies in the range `[lo, hi)` of the pool, `lo > 0`. -/
theorem mono_grant_ne_zero {lo hi base : Nat} {desc : Nat → Nat} {s : MS} (hI : MInv lo hi base desc s)
    {k : Nat} {g : Grant} (hg : g ∈ s.grants k) : lo * pagesInChunk ≤ g.start ∧ 0 < g.start := by
  obtain ⟨_, r, _, _, h1, _, h3, _⟩ := mono_grant_in_space hI hg
  have := hI.pinv.inv.lo_pos
  have : lo * pagesInChunk ≤ r.start * pagesInChunk := Nat.mul_le_mul_right _ h1
  unfold pagesInChunk at *
  omega

/-! ## The hypotheses are satisfiable: a concrete history -/

instance instDecidableMPre (base : Nat) (s : MS) : (op : MOp) → Decidable (MPre base s op)
  | .fl op => inferInstanceAs (Decidable (PPre s.pg op ∧ op.sp < base))
  | .malloc _ pages => inferInstanceAs (Decidable (1 ≤ pages))
  | .mreset k => inferInstanceAs (Decidable ((s.pg.owned (base + k)).length ≤ 4096 + 1))

def mvalidB (debug : Bool) (base : Nat) (desc : Nat → Nat) : MS → List MOp → Bool
  | _, [] => true
  | s, op :: ops =>
    decide (MPre base s op) && match mstep debug base desc s op with
      | none => true
      | some (s', _) => mvalidB debug base desc s' ops

theorem mvalid_of_mvalidB {debug : Bool} {base : Nat} {desc : Nat → Nat} : ∀ (ops : List MOp) {s : MS},
    mvalidB debug base desc s ops = true → MValid debug base desc s ops := by
  intro ops
  induction ops with
  | nil => intro _ _; trivial
  | cons op ops ih =>
    intro s h
    simp only [mvalidB, Bool.and_eq_true, decide_eq_true_eq] at h
    refine ⟨h.1, ?_⟩
    cases hs : mstep debug base desc s op with
    | none => trivial
    | some q =>
      obtain ⟨s1, r⟩ := q
      rw [hs] at h
      exact ih h.2

/-- Pool = chunks 2..5 of a 12-chunk map; one free-list-side resource (slot 0, descriptor 4), two
monotone resources (slots 8, 9; descriptors 40, 44): grants, a growth, the free-list side takes the last
chunk, a refused request, a release, a retry that succeeds, a reset. -/
def exMOps : List MOp :=
  [.malloc 0 512, .malloc 1 1000, .malloc 0 600, .fl (.grow 0 4 1), .malloc 1 100, .malloc 0 100,
   .fl (.release 0 5), .malloc 1 100, .mreset 0, .malloc 0 1500]

def exDesc : Nat → Nat := fun k => 40 + 4 * k

example : MValid false 8 exDesc { p := { st := finalize 12 2 5 } } exMOps := mvalid_of_mvalidB _ (by decide +kernel)

/-- what the example looks at: avail, the two heads, cursor / sentinel / current chunk / counters of both -/
def mview (q : Option MS) : Option (Nat × Nat × Nat × List Nat × List Nat) :=
  q.map fun s => (s.p.st.avail, s.p.heads 8, s.p.heads 9,
    [(s.mono 0).cursor, (s.mono 0).sentinel, (s.mono 0).cc, (s.mono 0).acct.reserved, (s.mono 0).acct.committed],
    [(s.mono 1).cursor, (s.mono 1).sentinel, (s.mono 1).cc, (s.mono 1).acct.reserved, (s.mono 1).acct.committed])

/-- After the first six operations the pool is empty, resource 1 was refused (its fields are zeroed, its
counters still say 1000 pages) and resource 0 bumped inside its second region. -/
example : mview (mrun false 8 exDesc { p := { st := finalize 12 2 5 } } (exMOps.take 6)) =
    some (0, 4, 3, [4 * 1024 + 700, 5 * 1024, 4, 1212, 1212], [0, 0, 0, 1000, 1000]) := by decide +kernel

example : ∃ s, mrun false 8 exDesc { p := { st := finalize 12 2 5 } } exMOps = some s ∧ MInv 2 6 8 exDesc s := by
  have hv : MValid false 8 exDesc { p := { st := finalize 12 2 5 } } exMOps := mvalid_of_mvalidB _ (by decide +kernel)
  cases h : mrun false 8 exDesc { p := { st := finalize 12 2 5 } } exMOps with
  | none =>
    have : (mrun false 8 exDesc { p := { st := finalize 12 2 5 } } exMOps).isSome = true := by decide +kernel
    rw [h] at this; cases this
  | some s => exact ⟨s, rfl, mono_history_inv _ (minv_init (by decide) (by decide) (by decide) 8 exDesc) hv h⟩

/-! ## Witnesses (by `decide`) -/

/-- a sequence of `Space::acquire` rounds of one resource (slot 8, descriptor 40): the answers and the
final `(avail, head, cursor, sentinel, current chunk, reserved, committed)` -/
def mallocs (special debug : Bool) : PR × Mono → List Nat → List AllocR × List Nat
  | (p, m), [] => ([], [p.st.avail, p.heads 8, m.cursor, m.sentinel, m.cc, m.acct.reserved, m.acct.committed])
  | (p, m), n :: ns =>
    match Mono.acquireG special debug p m 8 40 n with
    | (p', m', r) => let (rs, fin) := mallocs special debug (p', m') ns; (r :: rs, fin)

/-- **The seeded variant C28b** (`special = false`: the sentinel of a FAILED growth is
`0 + required_chunks · 4 MB`): on a pool of two chunks, after two one-chunk grants the third request is
answered `ok` with START ADDRESS 0 (page 0: outside the pool `[2, 4)`), is counted in reserved /
committed, and the fourth is granted page 0 AGAIN (overlap); the code (`special = true`) refuses both and
the counters stay at the 2048 pages really granted. -/
theorem growth_failure_without_special_case_grants_zero :
    mallocs false true ({ st := finalize 12 2 3 }, {}) [1024, 1024, 512, 1024] =
      ([.ok 2048 1024 true, .ok 3072 1024 true, .ok 0 512 true, .ok 0 1024 true], [0, 3, 1024, 1024, 0, 3584, 3584]) ∧
    mallocs true true ({ st := finalize 12 2 3 }, {}) [1024, 1024, 512, 1024] =
      ([.ok 2048 1024 true, .ok 3072 1024 true, .fail, .fail], [0, 3, 0, 0, 0, 2048, 2048]) := by
  decide +kernel

/-- **"A failed request changes nothing" is FALSE for the resource's own cursor**: with 524 pages left in
its current region (cursor 3·1024 + 500, sentinel 4·1024) and an empty pool, a request of 600 pages is
refused AND zeroes cursor / sentinel / current chunk; the following request of 100 pages — which fitted
before — is refused too. -/
theorem failed_growth_forgets_current_region :
    mallocs true true ({ st := finalize 12 2 3 }, {}) [1024, 500] =
      ([.ok 2048 1024 true, .ok 3072 500 true], [0, 3, 3 * 1024 + 500, 4 * 1024, 3, 1524, 1524]) ∧
    mallocs true true ({ st := finalize 12 2 3 }, {}) [1024, 500, 600, 100] =
      ([.ok 2048 1024 true, .ok 3072 500 true, .fail, .fail], [0, 3, 0, 0, 0, 1524, 1524]) ∧
    mallocs true true ({ st := finalize 12 2 3 }, {}) [1024, 500, 100] =
      ([.ok 2048 1024 true, .ok 3072 500 true, .ok 3572 100 false], [0, 3, 3 * 1024 + 600, 4 * 1024, 3, 1624, 1624]) := by
  decide +kernel

/-- `(avail, head, walk from the head, reserved, committed)` after the requests and one `reset()` -/
def resetAfter (debug : Bool) (reqs : List Nat) : Option (Nat × Nat × List Nat × Nat × Nat) :=
  let rec go : PR × Mono → List Nat → PR × Mono
    | q, [] => q
    | (p, m), n :: ns => match Mono.acquire debug p m 8 40 n with | (p', m', _) => go (p', m') ns
  let (p, m) := go ({ st := finalize 12 2 3 }, {}) reqs
  (m.reset debug p 8).map fun (p', m') => (p'.st.avail, p'.heads 8, walk p'.st 8 (p'.heads 8), m'.acct.reserved, m'.acct.committed)

/-- **`reset()` after a failed growth releases nothing**: the counters go to 0 but both chunks stay
allocated to the resource (avail 0, head 3, regions 3 and 2 still on its list); without the failed
request the same `reset()` hands both chunks back. -/
theorem reset_after_failed_growth_keeps_chunks :
    resetAfter true [1024, 500, 600] = some (0, 3, [3, 2], 0, 0) ∧
    resetAfter true [1024, 500] = some (2, 0, [], 0, 0) := by
  decide +kernel

/-- **Debug builds**: after a grant of 2048 pages (two chunks) the cursor stands two chunks above
`current_chunk`; the next `alloc_pages` reaches `log_chunk_fields` (which locks `sync`) with `sync`
locked. Release builds answer. -/
theorem debug_self_deadlock_after_two_chunk_grant :
    (mallocs true true ({ st := finalize 12 2 5 }, {}) [2048, 1]).1 = [.ok 2048 2048 true, .deadlock] ∧
    (mallocs true false ({ st := finalize 12 2 5 }, {}) [2048, 1]).1 = [.ok 2048 2048 true, .ok 4096 1 true] := by
  decide +kernel

end Mmtk.Map32
