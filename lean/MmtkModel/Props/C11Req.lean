import MmtkModel.Model.Requesters
/-!
# C11 (last clause) — a mutator that requested a GC is blocked until that GC has ended

Model: `Model/Requesters.lean` (any number `n` of requesters, every interleaving with the collector's
`stopWorld` / `clearFlag` / `resumeWorld` and with other threads' allocation polls).

* `requester_blocked_until_gc_end` — the CODE (`seeded = false`), with the safepoint contract of
  `stop_all_mutators` (`handshake = true`): whenever a requester's call has returned, it returned `true`, and the
  collection number `st + 1` — which had not begun when the request was made (`st` pauses had begun) — has
  completed (`st < rd`, `rd` = pauses completed when the call returned), `rd ≤ gcDone`.
* `requester_returns_after_gc_end_mono` — the CODE under nothing but the monotonicity of `gcDone`
  (`handshake` arbitrary, so also `false`: the collector may stop the world at any moment and mutators may run
  meanwhile): a pause ended between the request and the return (`d < rd`).  This is what the Python oracle
  evaluates on the implementation (`gcs_at_return > gcs_before`).
* `blocked_requester_has_pending_gc` — a requester that is blocked and still needs a pause to end is never
  forgotten: the request flag is set (so, by C14 `gc_request_completes`, a collection will run) or the world is
  stopped right now (a pause is in progress and will end).  Holds for both variants.
* `merged_request_not_blocked` — kernel-evaluated witness for the seeded variant C11b (`seeded = true`: block only
  if this call set the flag): two requesters, the second one's request is merged and its call returns `false`
  with no pause completed — `requester_blocked_until_gc_end` fails for it (`merged_request_not_blocked_refutes`).
-/
namespace Mmtk.Req

theorem allParked_spec {c : Cfg} {s : State} (h : allParked c s = true) (r : Nat) (hr : r < c.n) :
    (s.pc r).atSafepoint = true := by
  unfold allParked at h
  rw [List.all_eq_true] at h
  exact h r (List.mem_range.mpr hr)

/-- invariant of every run under the handshake (code and seeded variant alike) -/
structure Inv (c : Cfg) (s : State) : Prop where
  started : s.gcStarted = s.gcDone + (if s.stopped = true then 1 else 0)
  outside : ∀ r, c.n ≤ r → s.pc r = .idle
  requested : ∀ r d st sent, s.pc r = .requested d st sent →
    s.stopped = false ∧ d = s.gcDone ∧ st = s.gcStarted ∧ s.flag = true
  blocked : ∀ r d st start, s.pc r = .blocked d st start →
    d ≤ start ∧ st ≤ start ∧ start ≤ s.gcDone ∧ (start = s.gcDone → s.flag = true ∨ s.stopped = true)

/-- what the property says about the calls that have returned -/
def Ret (s : State) : Prop :=
  ∀ r d st ret rd, s.pc r = .returned d st ret rd → ret = true ∧ d < rd ∧ st < rd ∧ rd ≤ s.gcDone

/-- the part that needs no handshake -/
structure Mono (s : State) : Prop where
  requested : ∀ r d st sent, s.pc r = .requested d st sent → d ≤ s.gcDone
  blocked : ∀ r d st start, s.pc r = .blocked d st start → d ≤ start ∧ start ≤ s.gcDone
  returned : ∀ r d st ret rd, s.pc r = .returned d st ret rd → ret = true ∧ d < rd ∧ rd ≤ s.gcDone

theorem init_inv (c : Cfg) : Inv c init := by
  constructor <;> simp [init]

theorem init_ret : Ret init := by
  intro r d st ret rd h; simp [init] at h

theorem init_mono : Mono init := by
  constructor <;> simp [init]

theorem step_inv {c : Cfg} (hh : c.handshake = true) {s s' : State} {a : Act} (hi : Inv c s)
    (hs : step c s a = some s') : Inv c s' := by
  obtain ⟨i1, i2, i3, i4⟩ := hi
  cases a with
  | request r =>
    simp only [step] at hs
    split at hs
    · split at hs
      · rename_i hpc hg
        injection hs with hs; subst hs
        have hst : s.stopped = false := by
          have := hg.2; simp [mutOk, hh] at this; exact this
        refine ⟨?_, ?_, ?_, ?_⟩
        · exact i1
        · intro x hx
          have : x ≠ r := by omega
          simp [setPc, this, i2 x hx]
        · intro x d st sent hx
          simp only [setPc] at hx
          split at hx
          · injection hx with h1 h2 h3; subst h1 h2
            exact ⟨hst, rfl, rfl, rfl⟩
          · have := i3 x d st sent hx
            exact ⟨this.1, this.2.1, this.2.2.1, rfl⟩
        · intro x d st start hx
          simp only [setPc] at hx
          split at hx
          · cases hx
          · have := i4 x d st start hx
            exact ⟨this.1, this.2.1, this.2.2.1, fun _ => Or.inl rfl⟩
      · cases hs
    · cases hs
  | blockEnter r =>
    simp only [step] at hs
    split at hs
    · split at hs
      · rename_i d0 st0 sent0 hpc hg
        injection hs with hs; subst hs
        obtain ⟨q1, q2, q3, q4⟩ := i3 r d0 st0 sent0 hpc
        refine ⟨?_, ?_, ?_, ?_⟩
        · exact i1
        · intro x hx
          have : x ≠ r := by have := hg.1; omega
          simp [setPc, this, i2 x hx]
        · intro x d st sent hx
          simp only [setPc] at hx
          split at hx
          · cases hx
          · exact i3 x d st sent hx
        · intro x d st start hx
          simp only [setPc] at hx
          split at hx
          · injection hx with h1 h2 h3; subst h1 h2 h3
            rw [q1] at i1; simp at i1
            refine ⟨by omega, by omega, Nat.le_refl _, fun _ => Or.inl q4⟩
          · exact i4 x d st start hx
      · cases hs
    · cases hs
  | skipBlock r =>
    simp only [step] at hs
    split at hs
    · split at hs
      · rename_i d0 st0 sent0 hpc hg
        injection hs with hs; subst hs
        refine ⟨?_, ?_, ?_, ?_⟩
        · exact i1
        · intro x hx
          have : x ≠ r := by have := hg.1; omega
          simp [setPc, this, i2 x hx]
        · intro x d st sent hx
          simp only [setPc] at hx
          split at hx
          · cases hx
          · exact i3 x d st sent hx
        · intro x d st start hx
          simp only [setPc] at hx
          split at hx
          · cases hx
          · exact i4 x d st start hx
      · cases hs
    · cases hs
  | blockLeave r =>
    simp only [step] at hs
    split at hs
    · split at hs
      · rename_i d0 st0 start0 hpc hg
        injection hs with hs; subst hs
        refine ⟨?_, ?_, ?_, ?_⟩
        · exact i1
        · intro x hx
          have : x ≠ r := by have := hg.1; omega
          simp [setPc, this, i2 x hx]
        · intro x d st sent hx
          simp only [setPc] at hx
          split at hx
          · cases hx
          · exact i3 x d st sent hx
        · intro x d st start hx
          simp only [setPc] at hx
          split at hx
          · cases hx
          · exact i4 x d st start hx
      · cases hs
    · cases hs
  | again r =>
    simp only [step] at hs
    split at hs
    · split at hs
      · rename_i hpc hg
        injection hs with hs; subst hs
        refine ⟨?_, ?_, ?_, ?_⟩
        · exact i1
        · intro x hx
          have : x ≠ r := by have := hg.1; omega
          simp [setPc, this, i2 x hx]
        · intro x d st sent hx
          simp only [setPc] at hx
          split at hx
          · cases hx
          · exact i3 x d st sent hx
        · intro x d st start hx
          simp only [setPc] at hx
          split at hx
          · cases hx
          · exact i4 x d st start hx
      · cases hs
    · cases hs
  | pollRequest =>
    simp only [step] at hs
    injection hs with hs; subst hs
    refine ⟨i1, i2, ?_, ?_⟩
    · intro x d st sent hx
      have := i3 x d st sent hx
      exact ⟨this.1, this.2.1, this.2.2.1, rfl⟩
    · intro x d st start hx
      have := i4 x d st start hx
      exact ⟨this.1, this.2.1, this.2.2.1, fun _ => Or.inl rfl⟩
  | stopWorld =>
    simp only [step] at hs
    split at hs
    · rename_i hg
      injection hs with hs; subst hs
      have hp : allParked c s = true := by
        rcases hg.2 with h | h
        · rw [hh] at h; cases h
        · exact h
      refine ⟨?_, i2, ?_, ?_⟩
      · show s.gcStarted + 1 = s.gcDone + (if true = true then 1 else 0)
        rw [hg.1] at i1; simp at i1; simp [i1]
      · intro x d st sent hx
        exfalso
        by_cases hx' : x < c.n
        · have := allParked_spec hp x hx'
          rw [show s.pc x = .requested d st sent from hx] at this
          simp [Pc.atSafepoint] at this
        · have := i2 x (by omega)
          rw [show s.pc x = .requested d st sent from hx] at this
          cases this
      · intro x d st start hx
        have := i4 x d st start hx
        exact ⟨this.1, this.2.1, this.2.2.1, fun _ => Or.inr rfl⟩
    · cases hs
  | clearFlag =>
    simp only [step] at hs
    split at hs
    · rename_i hg
      injection hs with hs; subst hs
      refine ⟨i1, i2, ?_, ?_⟩
      · intro x d st sent hx
        have := (i3 x d st sent hx).1
        rw [hg] at this; cases this
      · intro x d st start hx
        have := i4 x d st start hx
        exact ⟨this.1, this.2.1, this.2.2.1, fun _ => Or.inr hg⟩
    · cases hs
  | resumeWorld =>
    simp only [step] at hs
    split at hs
    · rename_i hg
      injection hs with hs; subst hs
      refine ⟨?_, i2, ?_, ?_⟩
      · show s.gcStarted = s.gcDone + 1 + (if false = true then 1 else 0)
        rw [hg] at i1; simp at i1; simp [i1]
      · intro x d st sent hx
        have := (i3 x d st sent hx).1
        rw [hg] at this; cases this
      · intro x d st start hx
        have := i4 x d st start hx
        refine ⟨this.1, this.2.1, ?_, ?_⟩
        · show start ≤ s.gcDone + 1
          omega
        · intro h
          have h' : start = s.gcDone + 1 := h
          omega
    · cases hs

theorem step_ret {c : Cfg} (hc : c.seeded = false) {s s' : State} {a : Act}
    (hi : Inv c s) (hr : Ret s) (hs : step c s a = some s') : Ret s' := by
  cases a with
  | request r =>
    simp only [step] at hs
    split at hs
    · split at hs
      · injection hs with hs; subst hs
        intro x d st ret rd hx
        simp only [setPc] at hx
        split at hx
        · cases hx
        · exact hr x d st ret rd hx
      · cases hs
    · cases hs
  | blockEnter r =>
    simp only [step] at hs
    split at hs
    · split at hs
      · injection hs with hs; subst hs
        intro x d st ret rd hx
        simp only [setPc] at hx
        split at hx
        · cases hx
        · exact hr x d st ret rd hx
      · cases hs
    · cases hs
  | skipBlock r =>
    simp only [step] at hs
    split at hs
    · split at hs
      · rename_i hg
        have := hg.2.2.1
        rw [hc] at this; cases this
      · cases hs
    · cases hs
  | blockLeave r =>
    simp only [step] at hs
    split at hs
    · split at hs
      · rename_i d0 st0 start0 hpc hg
        injection hs with hs; subst hs
        obtain ⟨q1, q2, q3, _⟩ := hi.blocked r d0 st0 start0 hpc
        intro x d st ret rd hx
        simp only [setPc] at hx
        split at hx
        · injection hx with h1 h2 h3 h4; subst h1 h2 h3 h4
          have := hg.2.1
          exact ⟨rfl, by omega, by omega, Nat.le_refl _⟩
        · exact hr x d st ret rd hx
      · cases hs
    · cases hs
  | again r =>
    simp only [step] at hs
    split at hs
    · split at hs
      · injection hs with hs; subst hs
        intro x d st ret rd hx
        simp only [setPc] at hx
        split at hx
        · cases hx
        · exact hr x d st ret rd hx
      · cases hs
    · cases hs
  | pollRequest =>
    simp only [step] at hs
    injection hs with hs; subst hs
    exact hr
  | stopWorld =>
    simp only [step] at hs
    split at hs
    · injection hs with hs; subst hs
      exact hr
    · cases hs
  | clearFlag =>
    simp only [step] at hs
    split at hs
    · injection hs with hs; subst hs
      exact hr
    · cases hs
  | resumeWorld =>
    simp only [step] at hs
    split at hs
    · injection hs with hs; subst hs
      intro x d st ret rd hx
      have := hr x d st ret rd hx
      exact ⟨this.1, this.2.1, this.2.2.1, Nat.le_succ_of_le this.2.2.2⟩
    · cases hs

theorem step_mono {c : Cfg} (hc : c.seeded = false) {s s' : State} {a : Act}
    (hm : Mono s) (hs : step c s a = some s') : Mono s' := by
  obtain ⟨m1, m2, m3⟩ := hm
  cases a with
  | request r =>
    simp only [step] at hs
    split at hs
    · split at hs
      · injection hs with hs; subst hs
        refine ⟨?_, ?_, ?_⟩
        · intro x d st sent hx
          simp only [setPc] at hx
          split at hx
          · injection hx with h1 h2 h3; subst h1
            exact Nat.le_refl _
          · exact m1 x d st sent hx
        · intro x d st start hx
          simp only [setPc] at hx
          split at hx
          · cases hx
          · exact m2 x d st start hx
        · intro x d st ret rd hx
          simp only [setPc] at hx
          split at hx
          · cases hx
          · exact m3 x d st ret rd hx
      · cases hs
    · cases hs
  | blockEnter r =>
    simp only [step] at hs
    split at hs
    · split at hs
      · rename_i d0 st0 sent0 hpc hg
        injection hs with hs; subst hs
        have q := m1 r d0 st0 sent0 hpc
        refine ⟨?_, ?_, ?_⟩
        · intro x d st sent hx
          simp only [setPc] at hx
          split at hx
          · cases hx
          · exact m1 x d st sent hx
        · intro x d st start hx
          simp only [setPc] at hx
          split at hx
          · injection hx with h1 h2 h3; subst h1 h2 h3
            exact ⟨q, Nat.le_refl _⟩
          · exact m2 x d st start hx
        · intro x d st ret rd hx
          simp only [setPc] at hx
          split at hx
          · cases hx
          · exact m3 x d st ret rd hx
      · cases hs
    · cases hs
  | skipBlock r =>
    simp only [step] at hs
    split at hs
    · split at hs
      · rename_i hg
        have := hg.2.2.1
        rw [hc] at this; cases this
      · cases hs
    · cases hs
  | blockLeave r =>
    simp only [step] at hs
    split at hs
    · split at hs
      · rename_i d0 st0 start0 hpc hg
        injection hs with hs; subst hs
        have q := m2 r d0 st0 start0 hpc
        refine ⟨?_, ?_, ?_⟩
        · intro x d st sent hx
          simp only [setPc] at hx
          split at hx
          · cases hx
          · exact m1 x d st sent hx
        · intro x d st start hx
          simp only [setPc] at hx
          split at hx
          · cases hx
          · exact m2 x d st start hx
        · intro x d st ret rd hx
          simp only [setPc] at hx
          split at hx
          · injection hx with h1 h2 h3 h4; subst h1 h2 h3 h4
            have := hg.2.1
            exact ⟨rfl, by omega, Nat.le_refl _⟩
          · exact m3 x d st ret rd hx
      · cases hs
    · cases hs
  | again r =>
    simp only [step] at hs
    split at hs
    · split at hs
      · injection hs with hs; subst hs
        refine ⟨?_, ?_, ?_⟩
        · intro x d st sent hx
          simp only [setPc] at hx
          split at hx
          · cases hx
          · exact m1 x d st sent hx
        · intro x d st start hx
          simp only [setPc] at hx
          split at hx
          · cases hx
          · exact m2 x d st start hx
        · intro x d st ret rd hx
          simp only [setPc] at hx
          split at hx
          · cases hx
          · exact m3 x d st ret rd hx
      · cases hs
    · cases hs
  | pollRequest =>
    simp only [step] at hs
    injection hs with hs; subst hs
    exact ⟨m1, m2, m3⟩
  | stopWorld =>
    simp only [step] at hs
    split at hs
    · injection hs with hs; subst hs
      exact ⟨m1, m2, m3⟩
    · cases hs
  | clearFlag =>
    simp only [step] at hs
    split at hs
    · injection hs with hs; subst hs
      exact ⟨m1, m2, m3⟩
    · cases hs
  | resumeWorld =>
    simp only [step] at hs
    split at hs
    · injection hs with hs; subst hs
      refine ⟨?_, ?_, ?_⟩
      · intro x d st sent hx
        exact Nat.le_succ_of_le (m1 x d st sent hx)
      · intro x d st start hx
        have := m2 x d st start hx
        exact ⟨this.1, Nat.le_succ_of_le this.2⟩
      · intro x d st ret rd hx
        have := m3 x d st ret rd hx
        exact ⟨this.1, this.2.1, Nat.le_succ_of_le this.2.2⟩
    · cases hs

theorem exec_invs {c : Cfg} (hh : c.handshake = true) :
    ∀ (run : List Act) (s s' : State), Inv c s → exec c s run = some s' → Inv c s' := by
  intro run
  induction run with
  | nil => intro s s' hi h; simp only [exec] at h; injection h with h; subst h; exact hi
  | cons a as ih =>
    intro s s' hi h
    simp only [exec] at h
    cases ht : step c s a with
    | none => rw [ht] at h; cases h
    | some t => rw [ht] at h; exact ih t s' (step_inv hh hi ht) h

theorem exec_ret {c : Cfg} (hh : c.handshake = true) (hc : c.seeded = false) :
    ∀ (run : List Act) (s s' : State), Inv c s → Ret s → exec c s run = some s' → Ret s' := by
  intro run
  induction run with
  | nil => intro s s' _ hr h; simp only [exec] at h; injection h with h; subst h; exact hr
  | cons a as ih =>
    intro s s' hi hr h
    simp only [exec] at h
    cases ht : step c s a with
    | none => rw [ht] at h; cases h
    | some t => rw [ht] at h; exact ih t s' (step_inv hh hi ht) (step_ret hc hi hr ht) h

theorem exec_mono {c : Cfg} (hc : c.seeded = false) :
    ∀ (run : List Act) (s s' : State), Mono s → exec c s run = some s' → Mono s' := by
  intro run
  induction run with
  | nil => intro s s' hm h; simp only [exec] at h; injection h with h; subst h; exact hm
  | cons a as ih =>
    intro s s' hm h
    simp only [exec] at h
    cases ht : step c s a with
    | none => rw [ht] at h; cases h
    | some t => rw [ht] at h; exact ih t s' (step_mono hc hm ht) h

/-- every reachable state of a configuration with the handshake satisfies `Inv` -/
theorem reachable_inv {c : Cfg} (hh : c.handshake = true) {s : State} (h : Reachable c s) : Inv c s := by
  obtain ⟨run, h⟩ := h
  exact exec_invs hh run init s (init_inv c) h

/-- **C11 (last clause)**: for any number of requesters and any interleaving, a requester's call returns only
after a collection that began after its request has completed: the call returns `true`; `st` pauses had begun
when the request was made, and at least `st + 1` pauses had completed when the call returned (`st < rd`); a
fortiori a pause ended between request and return (`d < rd`). -/
theorem requester_blocked_until_gc_end {c : Cfg} (hh : c.handshake = true) (hc : c.seeded = false) {s : State}
    (h : Reachable c s) (r d st : Nat) (ret : Bool) (rd : Nat) (hp : s.pc r = .returned d st ret rd) :
    ret = true ∧ st < rd ∧ d < rd ∧ rd ≤ s.gcDone := by
  obtain ⟨run, h⟩ := h
  have := exec_ret hh hc run init s (init_inv c) init_ret h r d st ret rd hp
  exact ⟨this.1, this.2.2.1, this.2.1, this.2.2.2⟩

/-- the same, stated on the transition: `blockLeave` is the only way out of the call, and it is enabled only
when a pause that began after the request has ended -/
theorem requester_leaves_only_after_gc_end {c : Cfg} (hh : c.handshake = true) (hc : c.seeded = false)
    {s s' : State} {a : Act} (h : Reachable c s) (hs : step c s a = some s') (r d st : Nat) (ret : Bool) (rd : Nat)
    (hbefore : ∀ d st ret rd, s.pc r ≠ .returned d st ret rd) (hp : s'.pc r = .returned d st ret rd) :
    a = .blockLeave r ∧ ret = true ∧ st < s.gcDone ∧ s.stopped = false ∧ rd = s.gcDone := by
  have hi := reachable_inv hh h
  cases a with
  | request x =>
    simp only [step] at hs
    split at hs
    · split at hs
      · injection hs with hs; subst hs
        simp only [setPc] at hp
        split at hp
        · cases hp
        · exact absurd hp (hbefore d st ret rd)
      · cases hs
    · cases hs
  | blockEnter x =>
    simp only [step] at hs
    split at hs
    · split at hs
      · injection hs with hs; subst hs
        simp only [setPc] at hp
        split at hp
        · cases hp
        · exact absurd hp (hbefore d st ret rd)
      · cases hs
    · cases hs
  | skipBlock x =>
    simp only [step] at hs
    split at hs
    · split at hs
      · rename_i hg
        have := hg.2.2.1
        rw [hc] at this; cases this
      · cases hs
    · cases hs
  | blockLeave x =>
    simp only [step] at hs
    split at hs
    · split at hs
      · rename_i d0 st0 start0 hpc hg
        injection hs with hs; subst hs
        simp only [setPc] at hp
        split at hp
        · rename_i hx; subst hx
          injection hp with h1 h2 h3 h4; subst h1 h2 h3 h4
          obtain ⟨q1, q2, q3, _⟩ := hi.blocked r d0 st0 start0 hpc
          have := hg.2.1
          exact ⟨rfl, rfl, by omega, hg.2.2, rfl⟩
        · exact absurd hp (hbefore d st ret rd)
      · cases hs
    · cases hs
  | again x =>
    simp only [step] at hs
    split at hs
    · split at hs
      · injection hs with hs; subst hs
        simp only [setPc] at hp
        split at hp
        · cases hp
        · exact absurd hp (hbefore d st ret rd)
      · cases hs
    · cases hs
  | pollRequest =>
    simp only [step] at hs
    injection hs with hs; subst hs
    exact absurd hp (hbefore d st ret rd)
  | stopWorld =>
    simp only [step] at hs
    split at hs
    · injection hs with hs; subst hs
      exact absurd hp (hbefore d st ret rd)
    · cases hs
  | clearFlag =>
    simp only [step] at hs
    split at hs
    · injection hs with hs; subst hs
      exact absurd hp (hbefore d st ret rd)
    · cases hs
  | resumeWorld =>
    simp only [step] at hs
    split at hs
    · injection hs with hs; subst hs
      exact absurd hp (hbefore d st ret rd)
    · cases hs

/-- **C11 (last clause), environment constrained only by the monotonicity of `gcDone`** (no safepoint contract:
`handshake` may be `false`): the call returns `true` and a pause ended between the request and the return. -/
theorem requester_returns_after_gc_end_mono {c : Cfg} (hc : c.seeded = false) {s : State}
    (h : Reachable c s) (r d st : Nat) (ret : Bool) (rd : Nat) (hp : s.pc r = .returned d st ret rd) :
    ret = true ∧ d < rd ∧ rd ≤ s.gcDone := by
  obtain ⟨run, h⟩ := h
  exact (exec_mono hc run init s init_mono h).returned r d st ret rd hp

/-- a blocked requester that still needs a pause to end has a pending request (or the pause is in progress):
merged requests are not lost.  Both variants. -/
theorem blocked_requester_has_pending_gc {c : Cfg} (hh : c.handshake = true) {s : State} (h : Reachable c s)
    (r d st start : Nat) (hp : s.pc r = .blocked d st start) (hneed : ¬ start < s.gcDone) :
    s.flag = true ∨ s.stopped = true := by
  have := (reachable_inv hh h).blocked r d st start hp
  exact this.2.2.2 (by omega)

/-- a requester between `request()` and `block_for_gc` keeps the world running and its request pending -/
theorem requested_means_flag_set {c : Cfg} (hh : c.handshake = true) {s : State} (h : Reachable c s)
    (r d st : Nat) (sent : Bool) (hp : s.pc r = .requested d st sent) :
    s.flag = true ∧ s.stopped = false ∧ d = s.gcDone ∧ st = s.gcStarted :=
  let q := (reachable_inv hh h).requested r d st sent hp
  ⟨q.2.2.2, q.1, q.2.1, q.2.2.1⟩

/-! ## the seeded variant C11b -/

/-- the failing run: requester 0 requests (sets the flag), requester 1's request is merged and its call returns -/
def seededRun : List Act := [.request 0, .request 1, .skipBlock 1]

/-- **witness for the seeded variant** (block only if this call set the flag): requester 1 made a request when no
pause had begun or completed, and its call returned `false` with no pause completed. -/
theorem merged_request_not_blocked :
    (exec { n := 2, seeded := true } init seededRun).map (fun s => (s.pc 1, s.gcDone, s.flag)) =
      some (.returned 0 0 false 0, 0, true) := by
  decide

/-- … so the conclusion of `requester_blocked_until_gc_end` fails for the seeded variant -/
theorem merged_request_not_blocked_refutes :
    ∃ s, Reachable { n := 2, seeded := true } s ∧ ∃ d st ret rd, s.pc 1 = .returned d st ret rd ∧ ¬ (ret = true ∧ st < rd) := by
  cases h : exec { n := 2, seeded := true } init seededRun with
  | none =>
    have := merged_request_not_blocked
    rw [h] at this; cases this
  | some s =>
    have hw := merged_request_not_blocked
    rw [h] at hw
    simp only [Option.map] at hw
    injection hw with hw
    have h1 : s.pc 1 = .returned 0 0 false 0 := congrArg Prod.fst hw
    exact ⟨s, ⟨seededRun, h⟩, 0, 0, false, 0, h1, by simp⟩

/-- the same run is NOT a run of the code: `skipBlock` is never enabled there -/
theorem skipBlock_not_in_code {c : Cfg} (hc : c.seeded = false) (s : State) (r : Nat) : step c s (.skipBlock r) = none := by
  simp only [step]
  split
  · split
    · rename_i hg
      have := hg.2.2.1
      rw [hc] at this; cases this
    · rfl
  · rfl

/-! ## the hypotheses are satisfiable: two requesters whose requests are merged, one pause, both return -/

def mergedRun : List Act :=
  [.request 0, .request 1, .blockEnter 1, .blockEnter 0, .stopWorld, .clearFlag, .resumeWorld, .blockLeave 1, .blockLeave 0]

example : (exec { n := 2 } init mergedRun).map (fun s => (s.pc 0, s.pc 1, s.gcDone, s.flag, s.stopped)) =
    some (.returned 0 0 true 1, .returned 0 0 true 1, 1, false, false) := by decide

/-- three requesters, the third one comes while the first pause is … not possible: the world stops only when
nobody is mid-call; it requests after the pause and gets a pause of its own -/
example : (exec { n := 3 } init (mergedRun ++ [.request 2, .blockEnter 2, .again 0, .stopWorld, .clearFlag, .resumeWorld, .blockLeave 2])).map
    (fun s => (s.pc 2, s.pc 0, s.gcDone)) = some (.returned 1 1 true 2, .idle, 2) := by decide

/-- `stopWorld` is refused while a requester is between `request()` and `block_for_gc` -/
example : (exec { n := 2 } init [.request 0, .request 1, .blockEnter 0, .stopWorld]).isSome = false := by decide

/-- a second request while the flag is set is accepted (merged): `sent = false` -/
example : (exec { n := 2 } init [.request 0, .request 1]).map (fun s => (s.pc 0, s.pc 1, s.flag)) =
    some (.requested 0 0 true, .requested 0 0 false, true) := by decide

end Mmtk.Req
