import MmtkModel.Model.FreeList
/-!
# C27 — A raw-memory free list can grow to its configured maximum

Target (`grow_to_max`): for every unit count, head count, block size and limit accepted by
`RawMemoryFreeList::new`, every sequence of `grow_freelist` requests whose total stays within the
configured maximum succeeds, `high_water ≤ limit` throughout, and `current_units ≤
current_capacity` (so every unit up to the grown size has its two entries inside the mapped table).

**The target was false for the pinned code** ("the code as written" below = the pinned tree, before the `fix:` commit
b3df40b; `grow_to_max_false`, by `decide`): in
`raise_high_water` the clamp is `grow_extent = self.high_water - self.limit` — operands swapped —
so whenever the last block would cross `limit` (i.e. `size_in_pages(units, heads)` is not a
multiple of `pages_per_block`) the subtraction underflows: an assertion failure in debug builds, a
wrapped ~2^64-byte `mmap` request in release builds.  What is true of the code as written is
`grow_to_max_partial` (whole blocks fit below the limit).  The section "after the fix" models the
minimal repair (`limit - high_water`, and a capacity computed from the mapped bytes instead of
whole blocks) — which is what /repo now contains; the differential of `checks/C27.py` runs against that model — and
proves the full theorem for it.
-/
namespace Mmtk.FreeList

/-- Fold `grow_freelist` (address-space part) over a list of requests; every call must return
`true`. `none`-like error = a call panicked; `.ok none` = a call returned `false`. -/
def growAll (debug : Bool) (step : Bool → RM → Int → M (RM × Bool)) : RM → List Int → M (Option RM)
  | l, [] => pure (some l)
  | l, n :: ns => do
    let (l', ok) ← step debug l n
    if ok then growAll debug step l' ns else pure none

/-- The panic of a computation, if any. -/
def panicOf {α : Type} (r : M α) : Option Err :=
  match r with
  | .error e => some e
  | .ok _ => none

/-- `(high_water - base, current_units)` after a successful run in which every call returned `true`. -/
def reached (r : M (Option RM)) : Option (Nat × Int) :=
  match r with
  | .ok (some l) => some (l.highWater - l.base, l.currentUnits)
  | _ => none

/-- What `RawMemoryFreeList::new` accepts (its two `debug_assert!`s), for a fresh list, with the
address window well inside the 47-bit user address space (so no 64-bit wrap and `mmap` is possible). -/
structure Accepted (l : RM) : Prop where
  ppb : 1 ≤ l.pagesPerBlock
  heads_lo : 0 ≤ l.tab.heads
  heads_hi : l.tab.heads ≤ MAX_HEADS
  units_lo : 0 ≤ l.maxUnits
  units_hi : l.maxUnits ≤ MAX_UNITS
  limit : l.base + 4096 * (sizeInPages l.maxUnits l.tab.heads).toNat ≤ l.limit
  window : l.limit < 70368744177664
  fresh_hw : l.highWater = l.base
  fresh_units : l.currentUnits = 0

/-! ## the code as written: the full theorem is false -/

/-- The probe of DESIGN §7-F7 as a model state: 8700 units, 1 head, 16-page blocks, limit = 17 pages
(exactly what `Map64::create_parent_freelist` computes: `default_block_size = min(17, 16)`). -/
def f7 : RM := RM.new 1099511627776 (1099511627776 + 17 * 4096) 16 8700 8700 1

/-- `f7` is accepted by `RawMemoryFreeList::new`. -/
theorem f7_accepted : Accepted f7 := by
  constructor <;> decide

/-- **Witness.** The requests `[4000, 4700]` total exactly the configured maximum, yet the second
call panics — in the debug build (`Address - Address` asserts) and in the release build (the
wrapped extent makes `mmap` fail) alike.  Hence `grow_to_max` does not hold of the transcribed
`raise_high_water`. -/
theorem grow_to_max_false :
    Accepted f7 ∧ ([4000, 4700] : List Int).sum ≤ f7.maxUnits ∧
    panicOf (growAll true RM.growFreelistGeomOld f7 [4000, 4700]) = some .other ∧
    panicOf (growAll false RM.growFreelistGeomOld f7 [4000, 4700]) = some .other ∧
    reached (growAll true RM.growFreelistGeomOld f7 [4000]) = some (16 * 4096, 4000) := by
  refine ⟨f7_accepted, by decide, by decide, by decide, by decide⟩

/-- Growing straight to the maximum fails the same way (one call). -/
theorem grow_to_max_false_single :
    panicOf (growAll true RM.growFreelistGeomOld f7 [8700]) = some .other ∧
    panicOf (growAll false RM.growFreelistGeomOld f7 [8700]) = some .other := by decide

/-! ## the code as written: what does hold (`…_partial`)

Full target, false as shown above:
`∀ l0, Accepted l0 → ∀ reqs, (∀ n ∈ reqs, 0 ≤ n) → reqs.sum ≤ l0.maxUnits →
   ∃ l', growAll false RM.growFreelistGeomOld l0 reqs = .ok (some l') ∧ l'.highWater ≤ l0.limit ∧
         l'.currentUnits = reqs.sum ∧ l'.currentUnits ≤ l'.currentCapacityOld`.
It holds under the extra hypothesis that whole blocks covering the table fit below the limit
(`WholeBlocksFit`), e.g. when `limit = base + size_in_pages` pages and
`pages_per_block ∣ size_in_pages`. -/

/-- `K` whole blocks cover `size_in_pages` and end at or below the limit. -/
structure WholeBlocksFit (l0 : RM) (K : Nat) : Prop where
  cover : sizeInPages l0.maxUnits l0.tab.heads ≤ l0.pagesPerBlock * K
  fit : l0.base + 4096 * (l0.pagesPerBlock.toNat * K) ≤ l0.limit

/-- `pages_per_block ∣ size_in_pages` with the limit at `size_in_pages` pages gives `WholeBlocksFit`. -/
theorem wholeBlocksFit_of_dvd (l0 : RM) (ha : Accepted l0) (K : Nat)
    (hd : sizeInPages l0.maxUnits l0.tab.heads = l0.pagesPerBlock * K) : WholeBlocksFit l0 K := by
  refine ⟨by omega, ?_⟩
  have h := ha.limit
  have hp := ha.ppb
  have e : (sizeInPages l0.maxUnits l0.tab.heads).toNat = l0.pagesPerBlock.toNat * K := by
    rw [hd]
    have : l0.pagesPerBlock = (l0.pagesPerBlock.toNat : Int) := (Int.toNat_of_nonneg (by omega)).symm
    rw [this, ← Int.natCast_mul, Int.toNat_natCast, Int.toNat_natCast]
  rw [e] at h
  exact h

structure GrowInvO (l0 l : RM) (K : Nat) : Prop where
  same : l.base = l0.base ∧ l.limit = l0.limit ∧ l.maxUnits = l0.maxUnits ∧
         l.pagesPerBlock = l0.pagesPerBlock ∧ l.tab.heads = l0.tab.heads ∧ l.grain = l0.grain
  blocks : ∃ k : Nat, k ≤ K ∧ l.highWater = l.base + 4096 * (l.pagesPerBlock.toNat * k)
  cur_lo : 0 ≤ l.currentUnits
  cur_hi : l.currentUnits ≤ l.maxUnits

/-- `current_capacity` on `k` whole blocks. -/
theorem cap_whole (l : RM) (k : Nat) (hp : 1 ≤ l.pagesPerBlock)
    (hw : l.highWater = l.base + 4096 * (l.pagesPerBlock.toNat * k)) :
    l.currentCapacityOld = l.unitsPerBlock * k - l.tab.heads - 1 := by
  unfold RM.currentCapacityOld RM.unitsInFirstBlock bytesToPagesUp
  rw [hw]
  have hP : l.pagesPerBlock = (l.pagesPerBlock.toNat : Int) := (Int.toNat_of_nonneg (by omega)).symm
  generalize hX : l.pagesPerBlock.toNat * k = X
  have e1 : (l.base + 4096 * X - l.base + 4095) / 4096 = X := by omega
  rw [e1]
  have e2 : ((X : Nat) : Int) = l.pagesPerBlock * (k : Int) := by
    rw [← hX, Int.natCast_mul, ← hP]
  rw [e2, Int.tdiv_eq_ediv_of_nonneg (Int.mul_nonneg (by omega) (by omega)),
    Int.mul_ediv_cancel_left _ (by omega : l.pagesPerBlock ≠ 0)]
  show l.unitsPerBlock - l.tab.heads - 1 + ((k : Int) - 1) * l.unitsPerBlock = _
  rw [Int.sub_mul, Int.one_mul, Int.mul_comm (k : Int) l.unitsPerBlock]
  omega

theorem ceilDiv_mul_ge (a u : Int) (hu : 0 < u) (ha : 0 ≤ a + u - 1) :
    a ≤ u * Int.tdiv (a + u - 1) u := by
  rw [Int.tdiv_eq_ediv_of_nonneg ha]
  have h1 := Int.mul_ediv_add_emod (a + u - 1) u
  have h2 := Int.emod_lt_of_pos (a + u - 1) hu
  omega

theorem ceilDiv_mul_lt (a u : Int) (hu : 0 < u) (ha : 0 ≤ a + u - 1) :
    u * Int.tdiv (a + u - 1) u < a + u := by
  rw [Int.tdiv_eq_ediv_of_nonneg ha]
  have h1 := Int.mul_ediv_add_emod (a + u - 1) u
  have h2 := Int.emod_nonneg (a + u - 1) (by omega : u ≠ 0)
  omega

/-- One `grow_freelist` call of the code as written, when whole blocks fit. -/
theorem growO_step (l0 l : RM) (K : Nat) (n : Int) (ha : Accepted l0) (hf : WholeBlocksFit l0 K)
    (hi : GrowInvO l0 l K) (hn : 0 ≤ n) (htot : n + l.currentUnits ≤ l.maxUnits) :
    ∃ l', l.growFreelistGeomOld false n = .ok (l', true) ∧ GrowInvO l0 l' K ∧
      l'.currentUnits = n + l.currentUnits ∧ l'.currentUnits ≤ l'.currentCapacityOld ∧
      l'.highWater ≤ l0.limit := by
  obtain ⟨⟨hb, hl, hm, hp, hh, hg⟩, ⟨k, hkK, hw⟩, hc0, hc1⟩ := hi
  obtain ⟨appb, ah0, ah1, au0, au1, alim, awin, _, _⟩ := ha
  obtain ⟨hcover, hfit⟩ := hf
  simp only [MAX_HEADS, MAX_UNITS] at ah1 au1
  have hppb : 1 ≤ l.pagesPerBlock := by omega
  have hS : 8 * (l0.maxUnits + l0.tab.heads + 1) ≤ 4096 * (sizeInPages l0.maxUnits l0.tab.heads) := by
    simp only [sizeInPages, bytesToPagesUp]
    omega
  have hu : 0 < l.unitsPerBlock := by simp only [RM.unitsPerBlock]; omega
  have hcapk := cap_whole l k hppb hw
  -- `K` blocks hold the configured maximum: unitsPerBlock * K ≥ maxUnits + heads + 1
  have hUK : l.maxUnits + l.tab.heads + 1 ≤ l.unitsPerBlock * (K : Int) := by
    have : l.unitsPerBlock * (K : Int) = 512 * (l0.pagesPerBlock * (K : Int)) := by
      simp only [RM.unitsPerBlock, hp]
      rw [Int.mul_right_comm, Int.mul_comm]
    rw [this, hm, hh]; omega
  have hr : ¬ (n + l.currentUnits > l.maxUnits) := by omega
  have hmono : ∀ a b : Nat, a ≤ b → l.base + 4096 * (l.pagesPerBlock.toNat * a) ≤ l.base + 4096 * (l.pagesPerBlock.toNat * b) :=
    fun a b h => by have := Nat.mul_le_mul_left l.pagesPerBlock.toNat h; omega
  have hfit' : l.base + 4096 * (l.pagesPerBlock.toNat * K) ≤ l.limit := by rw [hb, hp, hl]; exact hfit
  have hwlim : l.highWater ≤ l0.limit := by
    have := hmono k K hkK; rw [← hl]; omega
  unfold RM.growFreelistGeomOld RM.growGeomOld
  simp only [hr, if_false, Bool.false_and, Bool.false_eq_true, bind, Except.bind, pure, Except.pure]
  by_cases hcap : n + l.currentUnits > l.currentCapacityOld
  · have hbl : l.blocksForOld (n + l.currentUnits) =
        Int.tdiv (n + l.currentUnits - l.currentCapacityOld + l.unitsPerBlock - 1) l.unitsPerBlock := by
      simp [RM.blocksForOld, hcap]
    have hge := ceilDiv_mul_ge (n + l.currentUnits - l.currentCapacityOld) l.unitsPerBlock hu (by omega)
    have hlt := ceilDiv_mul_lt (n + l.currentUnits - l.currentCapacityOld) l.unitsPerBlock hu (by omega)
    rw [← hbl] at hge hlt
    generalize l.blocksForOld (n + l.currentUnits) = b at hge hlt ⊢
    have hbpos : b > 0 := by
      by_cases h : 0 < b
      · exact h
      · have := Int.mul_le_mul_of_nonneg_left (Int.not_lt.mp h) (Int.le_of_lt hu)
        omega
    obtain ⟨bn, rfl⟩ : ∃ bn : Nat, b = (bn : Int) := ⟨b.toNat, (Int.toNat_of_nonneg (by omega)).symm⟩
    -- k + bn ≤ K : the minimal number of blocks never exceeds K
    have hkb : k + bn ≤ K := by
      have h1 : l.unitsPerBlock * ((k + bn : Nat) : Int) < l.unitsPerBlock * ((K : Int) + 1) := by
        rw [Int.natCast_add, Int.mul_add, Int.mul_add, Int.mul_one]; omega
      have := Int.lt_of_mul_lt_mul_left h1 (Int.le_of_lt hu)
      omega
    have hne : l.highWater ≠ l.limit := by
      intro heq
      -- at the limit the capacity already covers the maximum
      have hk' : k = K ∨ k < K := by omega
      rcases hk' with rfl | hlt'
      · omega
      · have := hmono (k + 1) K (by omega)
        have e : l.pagesPerBlock.toNat * (k + 1) = l.pagesPerBlock.toNat * k + l.pagesPerBlock.toNat := by
          rw [Nat.mul_add, Nat.mul_one]
        have hpn : 1 ≤ l.pagesPerBlock.toNat := by omega
        omega
    have hnew : l.highWater + (l.pagesPerBlock * (bn : Int)).toNat * 4096
        = l.base + 4096 * (l.pagesPerBlock.toNat * (k + bn)) := by
      have : (l.pagesPerBlock * (bn : Int)).toNat = l.pagesPerBlock.toNat * bn := by
        have hP : l.pagesPerBlock = (l.pagesPerBlock.toNat : Int) := (Int.toNat_of_nonneg (by omega)).symm
        rw [hP, ← Int.natCast_mul, Int.toNat_natCast, Int.toNat_natCast]
      rw [this, hw, Nat.mul_add]; omega
    have hnewlim : l.base + 4096 * (l.pagesPerBlock.toNat * (k + bn)) ≤ l.limit := by
      have := hmono (k + bn) K hkb
      omega
    have hraise : l.raiseHighWaterOld false (bn : Int) =
        .ok { l with highWater := l.base + 4096 * (l.pagesPerBlock.toNat * (k + bn)) } := by
      unfold RM.raiseHighWaterOld
      have h1 : (l.highWater == l.limit) = false := by simpa using hne
      have h2 : ¬ (l.highWater + (l.pagesPerBlock * (bn : Int)).toNat * 4096 > l.limit) := by
        rw [hnew]; omega
      have h3 : (l.pagesPerBlock * (bn : Int)).toNat * 4096 < 140737488355328 := by
        have := hnew; omega
      have h4 : (l.highWater + (l.pagesPerBlock * (bn : Int)).toNat * 4096) % 18446744073709551616
          = l.base + 4096 * (l.pagesPerBlock.toNat * (k + bn)) := by
        rw [hnew, Nat.mod_eq_of_lt]; omega
      simp [h1, h2, h3, h4, mmapOk, W64, bind, Except.bind, pure, Except.pure]
    have hcapNew := cap_whole { l with highWater := l.base + 4096 * (l.pagesPerBlock.toNat * (k + bn)) }
      (k + bn) hppb rfl
    have hcapNew' : n + l.currentUnits ≤
        RM.currentCapacityOld { l with highWater := l.base + 4096 * (l.pagesPerBlock.toNat * (k + bn)) } := by
      rw [hcapNew]
      simp only [RM.unitsPerBlock] at hge hcapk ⊢
      rw [Int.natCast_add, Int.mul_add]
      omega
    have c2 : n + l.currentUnits ≤ l.maxUnits := by omega
    refine ⟨{ l with highWater := l.base + 4096 * (l.pagesPerBlock.toNat * (k + bn)),
                     currentUnits := n + l.currentUnits }, ?_,
      ⟨⟨hb, hl, hm, hp, hh, hg⟩, ⟨k + bn, hkb, rfl⟩, by simp only; omega, by simp only; omega⟩, rfl, hcapNew', ?_⟩
    · have hbn : 0 < bn := by omega
      simp [hbn, hraise, hcapNew', c2]
    · show l.base + 4096 * (l.pagesPerBlock.toNat * (k + bn)) ≤ l0.limit
      rw [← hl]; exact hnewlim
  · have hbl : l.blocksForOld (n + l.currentUnits) = 0 := by simp [RM.blocksForOld, hcap]
    have c1 : n + l.currentUnits ≤ l.currentCapacityOld := by omega
    have c2 : n + l.currentUnits ≤ l.maxUnits := by omega
    refine ⟨{ l with currentUnits := n + l.currentUnits }, ?_,
      ⟨⟨hb, hl, hm, hp, hh, hg⟩, ⟨k, hkK, hw⟩, by simp only; omega, by simp only; omega⟩, rfl, c1, hwlim⟩
    simp [hbl, c1, c2]

/-- **grow_to_max_partial** (the code as written). When whole blocks covering the table fit below
the limit — in particular when `pages_per_block ∣ size_in_pages` (`wholeBlocksFit_of_dvd`) — every
sequence of non-negative requests within the configured maximum succeeds, `high_water ≤ limit`
and the size reached is within `current_capacity`. -/
theorem grow_to_max_partial (l0 : RM) (K : Nat) (ha : Accepted l0) (hf : WholeBlocksFit l0 K) :
    ∀ (reqs : List Int) (l : RM), GrowInvO l0 l K →
    (∀ n ∈ reqs, 0 ≤ n) → l.currentUnits + reqs.sum ≤ l0.maxUnits →
    ∃ l', growAll false RM.growFreelistGeomOld l reqs = .ok (some l') ∧ GrowInvO l0 l' K ∧
      l'.currentUnits = l.currentUnits + reqs.sum ∧
      (reqs ≠ [] → l'.currentUnits ≤ l'.currentCapacityOld ∧ l'.highWater ≤ l0.limit) := by
  intro reqs
  induction reqs with
  | nil => intro l hi _ _; exact ⟨l, rfl, hi, by simp, by simp⟩
  | cons n ns ih =>
    intro l hi hpos hsum
    have hn : 0 ≤ n := hpos n (List.mem_cons_self)
    have hns : ∀ m ∈ ns, 0 ≤ m := fun m hm => hpos m (List.mem_cons_of_mem _ hm)
    have hsumns : 0 ≤ ns.sum := by
      clear ih hsum hpos
      induction ns with
      | nil => simp
      | cons a as ih2 =>
        have := hns a (List.mem_cons_self)
        have := ih2 (fun m hm => hns m (List.mem_cons_of_mem _ hm))
        simp only [List.sum_cons]; omega
    simp only [List.sum_cons] at hsum
    have hmax : l.maxUnits = l0.maxUnits := hi.same.2.2.1
    obtain ⟨l1, h1, hi1, hc1, hcap1, hlim1⟩ := growO_step l0 l K n ha hf hi hn (by omega)
    obtain ⟨l2, h2, hi2, hc2, hcap2⟩ := ih l1 hi1 hns (by omega)
    refine ⟨l2, ?_, hi2, ?_, ?_⟩
    · simp only [growAll, h1, bind, Except.bind, if_true]
      exact h2
    · simp only [List.sum_cons]; omega
    · intro _
      by_cases hne : ns = []
      · subst hne
        simp only [growAll, pure, Except.pure, Except.ok.injEq, Option.some.injEq] at h2
        subst h2; exact ⟨hcap1, hlim1⟩
      · exact hcap2 hne

/-- A fresh accepted list satisfies the whole-blocks invariant (zero blocks mapped). -/
theorem growInvO_fresh (l0 : RM) (K : Nat) (ha : Accepted l0) : GrowInvO l0 l0 K := by
  obtain ⟨_, _, _, au0, _, _, _, hf, hu⟩ := ha
  exact ⟨⟨rfl, rfl, rfl, rfl, rfl, rfl⟩, ⟨0, by omega, by rw [hf]; simp⟩, by omega, by omega⟩

/-- The hypotheses are satisfiable: 8190 units, 1 head → exactly 16 pages = one 16-page block. -/
example : Accepted (RM.new 1099511627776 (1099511627776 + 16 * 4096) 16 8190 8190 1) ∧
    WholeBlocksFit (RM.new 1099511627776 (1099511627776 + 16 * 4096) 16 8190 8190 1) 1 := by
  refine ⟨by constructor <;> decide, by constructor <;> decide⟩

/-! ## after the fix

The minimal repair of `raw_memory_freelist.rs`:

```text
 fn current_capacity(&self) -> i32 {
-    let list_blocks = conversions::bytes_to_pages_up(self.high_water - self.base) as i32
-        / self.pages_per_block;
-    self.units_in_first_block() + (list_blocks - 1) * self.units_per_block()
+    ((self.high_water - self.base) >> LOG_BYTES_IN_UNIT) as i32 - self.heads - 1
 }
 ...
         if self.high_water + grow_extent > self.limit {
-            grow_extent = self.high_water - self.limit;
+            grow_extent = self.limit - self.high_water;
         }
```
(For whole blocks the two capacity formulas agree.) -/

/-- Invariant of a growing list (repaired code). -/
structure GrowInv (l0 l : RM) : Prop where
  same : l.base = l0.base ∧ l.limit = l0.limit ∧ l.maxUnits = l0.maxUnits ∧
         l.pagesPerBlock = l0.pagesPerBlock ∧ l.tab.heads = l0.tab.heads ∧ l.grain = l0.grain
  lo : l.base ≤ l.highWater
  hi : l.highWater ≤ l.limit
  cur_lo : 0 ≤ l.currentUnits
  cur_hi : l.currentUnits ≤ l.maxUnits

/-- The repaired `raise_high_water` below the limit: maps `min(extent, limit - high_water)`. -/
theorem raiseFixed_ok (d : Bool) (l : RM) (b : Int) (hne : l.highWater ≠ l.limit)
    (hhi : l.highWater ≤ l.limit) (hw : l.limit < 70368744177664) :
    l.raiseHighWater d b =
      .ok { l with highWater := min (l.highWater + (l.pagesPerBlock * b).toNat * 4096) l.limit } := by
  unfold RM.raiseHighWater
  have h1 : (l.highWater == l.limit) = false := by simpa using hne
  simp only [h1, Bool.false_eq_true, if_false, mmapOk, W64, bind, Except.bind, pure, Except.pure]
  by_cases hc : l.highWater + (l.pagesPerBlock * b).toNat * 4096 > l.limit
  · have e1 : (l.limit - l.highWater < 140737488355328) := by omega
    have e2 : (l.highWater + (l.limit - l.highWater)) % 18446744073709551616 = l.limit := by
      rw [Nat.mod_eq_of_lt] <;> omega
    have e3 : min (l.highWater + (l.pagesPerBlock * b).toNat * 4096) l.limit = l.limit := by omega
    simp [hc, e1, e2, e3]
  · have e1 : ((l.pagesPerBlock * b).toNat * 4096 < 140737488355328) := by omega
    have e2 : (l.highWater + (l.pagesPerBlock * b).toNat * 4096) % 18446744073709551616
        = l.highWater + (l.pagesPerBlock * b).toNat * 4096 := by
      rw [Nat.mod_eq_of_lt]; omega
    have e3 : min (l.highWater + (l.pagesPerBlock * b).toNat * 4096) l.limit
        = l.highWater + (l.pagesPerBlock * b).toNat * 4096 := by omega
    simp [hc, e1, e2, e3]

/-- One repaired `grow_freelist` call from any state satisfying the invariant: it returns `true`
without panicking, re-establishes the invariant, and the new size is within the new capacity
(release semantics; a debug build additionally asserts that growth happens in grains). -/
theorem growFixed_step (l0 l : RM) (n : Int) (ha : Accepted l0) (hi : GrowInv l0 l)
    (hn : 0 ≤ n) (htot : n + l.currentUnits ≤ l.maxUnits) :
    ∃ l', l.growFreelistGeom false n = .ok (l', true) ∧ GrowInv l0 l' ∧
      l'.currentUnits = n + l.currentUnits ∧ l'.currentUnits ≤ l'.currentCapacity := by
  obtain ⟨⟨hb, hl, hm, hp, hh, hg⟩, hlo, hhi, hc0, hc1⟩ := hi
  obtain ⟨appb, ah0, ah1, au0, au1, alim, awin, _, _⟩ := ha
  simp only [MAX_HEADS, MAX_UNITS] at ah1 au1
  have hS : 8 * (l0.maxUnits + l0.tab.heads + 1) ≤ 4096 * ((sizeInPages l0.maxUnits l0.tab.heads).toNat : Int) := by
    simp only [sizeInPages, bytesToPagesUp]
    omega
  -- once the table reaches the limit its capacity covers the configured maximum
  have hcapLimit : l0.maxUnits ≤ (((l0.limit - l0.base) / 8 : Nat) : Int) - l0.tab.heads - 1 := by
    omega
  have hr : ¬ (n + l.currentUnits > l.maxUnits) := by omega
  unfold RM.growFreelistGeom RM.growGeom
  simp only [hr, if_false, Bool.false_and, Bool.false_eq_true, bind, Except.bind, pure, Except.pure]
  by_cases hcap : n + l.currentUnits > l.currentCapacity
  · -- more blocks are needed
    have hu : 0 < l.unitsPerBlock := by simp only [RM.unitsPerBlock]; omega
    have hbl : l.blocksFor (n + l.currentUnits) =
        Int.tdiv (n + l.currentUnits - l.currentCapacity + l.unitsPerBlock - 1) l.unitsPerBlock := by
      simp [RM.blocksFor, hcap]
    have hge := ceilDiv_mul_ge (n + l.currentUnits - l.currentCapacity) l.unitsPerBlock hu (by omega)
    rw [← hbl] at hge
    generalize l.blocksFor (n + l.currentUnits) = b at hge
    have hbpos : b > 0 := by
      by_cases h : 0 < b
      · exact h
      · have := Int.mul_le_mul_of_nonneg_left (Int.not_lt.mp h) (Int.le_of_lt hu)
        omega
    have hne : l.highWater ≠ l.limit := by
      intro heq
      simp only [RM.currentCapacity, heq] at hcap
      rw [hl, hb, hh] at hcap
      omega
    simp only [hbpos, if_true, raiseFixed_ok false l b hne hhi (by omega)]
    -- 512 * (ppb * b) = unitsPerBlock * b
    have hq : l.unitsPerBlock * b = 512 * (l.pagesPerBlock * b) := by
      simp only [RM.unitsPerBlock]
      rw [Int.mul_right_comm, Int.mul_comm]
    have hq0 : 0 ≤ l.pagesPerBlock * b := Int.mul_nonneg (by omega) (by omega)
    generalize l.pagesPerBlock * b = q at hq hq0
    rw [hq] at hge
    have hcapNew : n + l.currentUnits ≤
        (((min (l.highWater + q.toNat * 4096) l.limit - l.base) / 8 : Nat) : Int) - l.tab.heads - 1 := by
      simp only [RM.currentCapacity] at hge hcap
      rcases Nat.le_total (l.highWater + q.toNat * 4096) l.limit with h | h
      · rw [Nat.min_eq_left h]; omega
      · rw [Nat.min_eq_right h, hl, hb, hh]; omega
    refine ⟨{ l with highWater := min (l.highWater + q.toNat * 4096) l.limit,
                     currentUnits := n + l.currentUnits }, ?_,
      ⟨⟨hb, hl, hm, hp, hh, hg⟩, ?_, ?_, by simp only; omega, by simp only; omega⟩, rfl, hcapNew⟩
    · have c1 : n + l.currentUnits ≤ RM.currentCapacity
          { l with highWater := min (l.highWater + q.toNat * 4096) l.limit } := hcapNew
      have c2 : n + l.currentUnits ≤ l.maxUnits := by omega
      simp [c1, c2]
    · show l.base ≤ min _ _; omega
    · show min _ _ ≤ l.limit; omega
  · -- capacity suffices: no mapping
    have hbl : l.blocksFor (n + l.currentUnits) = 0 := by simp [RM.blocksFor, hcap]
    have c1 : n + l.currentUnits ≤ l.currentCapacity := by omega
    have c2 : n + l.currentUnits ≤ l.maxUnits := by omega
    refine ⟨{ l with currentUnits := n + l.currentUnits }, ?_,
      ⟨⟨hb, hl, hm, hp, hh, hg⟩, hlo, hhi, by simp only; omega, by simp only; omega⟩, rfl, c1⟩
    simp [hbl, c1, c2]

/-- **grow_to_max (after the fix).** For every list accepted by `RawMemoryFreeList::new` (any unit
count, head count, block size; any limit at or above `base + size_in_pages` pages) and every
sequence of non-negative `grow_freelist` requests whose total is within the configured maximum:
no call panics, every call returns `true`, `high_water` stays within `[base, limit]`, the list
reaches exactly the requested size, and that size is within the capacity of the mapped table (so
every unit below it has both its entries mapped).  Every prefix of the request list satisfies the
same hypotheses, so this holds after each call ("throughout"). -/
theorem grow_to_max_fixed (l0 : RM) (ha : Accepted l0) : ∀ (reqs : List Int) (l : RM), GrowInv l0 l →
    (∀ n ∈ reqs, 0 ≤ n) → l.currentUnits + reqs.sum ≤ l0.maxUnits →
    ∃ l', growAll false RM.growFreelistGeom l reqs = .ok (some l') ∧ GrowInv l0 l' ∧
      l'.currentUnits = l.currentUnits + reqs.sum ∧
      (reqs ≠ [] → l'.currentUnits ≤ l'.currentCapacity) := by
  intro reqs
  induction reqs with
  | nil => intro l hi _ _; exact ⟨l, rfl, hi, by simp, by simp⟩
  | cons n ns ih =>
    intro l hi hpos hsum
    have hn : 0 ≤ n := hpos n (List.mem_cons_self)
    have hns : ∀ m ∈ ns, 0 ≤ m := fun m hm => hpos m (List.mem_cons_of_mem _ hm)
    have hsumns : 0 ≤ ns.sum := by
      clear ih hsum hpos
      induction ns with
      | nil => simp
      | cons a as ih2 =>
        have := hns a (List.mem_cons_self)
        have := ih2 (fun m hm => hns m (List.mem_cons_of_mem _ hm))
        simp only [List.sum_cons]; omega
    simp only [List.sum_cons] at hsum
    have hmax : l.maxUnits = l0.maxUnits := hi.same.2.2.1
    obtain ⟨l1, h1, hi1, hc1, hcap1⟩ := growFixed_step l0 l n ha hi hn (by omega)
    obtain ⟨l2, h2, hi2, hc2, hcap2⟩ := ih l1 hi1 hns (by omega)
    refine ⟨l2, ?_, hi2, ?_, ?_⟩
    · simp only [growAll, h1, bind, Except.bind, if_true]
      exact h2
    · simp only [List.sum_cons]; omega
    · intro _
      by_cases hne : ns = []
      · subst hne
        simp only [growAll, pure, Except.pure, Except.ok.injEq, Option.some.injEq] at h2
        subst h2; exact hcap1
      · exact hcap2 hne

/-- A fresh accepted list satisfies the invariant. -/
theorem growInv_fresh (l0 : RM) (ha : Accepted l0) : GrowInv l0 l0 := by
  obtain ⟨_, _, _, au0, _, alim, _, hf, hu⟩ := ha
  exact ⟨⟨rfl, rfl, rfl, rfl, rfl, rfl⟩, by omega, by omega, by omega, by omega⟩

/-- The repaired code grows the F7 list to its maximum, stopping exactly at the limit. -/
example : reached (growAll true RM.growFreelistGeom f7 [4000, 4700]) = some (17 * 4096, 8700) := by
  decide +kernel

/-- On whole blocks the repaired capacity is the original one (instances; in general
`(k·ppb·4096)/8 − heads − 1 = ppb·512 − heads − 1 + (k − 1)·ppb·512`). -/
example : ({ f7 with highWater := f7.base + 16 * 4096 } : RM).currentCapacity
    = ({ f7 with highWater := f7.base + 16 * 4096 } : RM).currentCapacityOld := by decide

end Mmtk.FreeList
