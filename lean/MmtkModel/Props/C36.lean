import MmtkModel.Model.Treadmill
/-!
# C36 — The large-object treadmill accounts for every object exactly once

Across any history of allocations and nursery/full collections that respects the LOS protocol
(`Mmtk.Treadmill.allowed`), each large object is in exactly one treadmill set (`one_set`); a GC
sweeps exactly the objects of the collected sets that were not marked, each once, and keeps every
marked object (`sweep_exact`); a nursery GC keeps every mature object (`nursery_gc_keeps_mature`).
All theorems quantify over **all** histories (no bound on length or on the number of objects).
-/
namespace Mmtk.Treadmill

/-! ## hash-set operations on duplicate-free lists -/

theorem mem_sinsert {s : List Obj} {o x : Obj} : x ∈ sinsert s o ↔ x = o ∨ x ∈ s := by
  unfold sinsert
  split <;> simp_all

theorem nodup_sinsert {s : List Obj} (o : Obj) (h : s.Nodup) : (sinsert s o).Nodup := by
  unfold sinsert
  split
  · exact h
  · exact List.nodup_cons.mpr ⟨by assumption, h⟩

theorem mem_sremove {s : List Obj} {o x : Obj} : x ∈ sremove s o ↔ x ∈ s ∧ x ≠ o := by
  simp [sremove]

theorem nodup_sremove {s : List Obj} (o : Obj) (h : s.Nodup) : (sremove s o).Nodup := by
  unfold sremove
  exact h.sublist List.filter_sublist

/-! ## "exactly one set" as a structured predicate -/

/-- The four sets are duplicate-free and pairwise disjoint. -/
structure Disj (t : TM) : Prop where
  nf : t.fromSpace.Nodup
  nt : t.toSpace.Nodup
  nc : t.collectNursery.Nodup
  na : t.allocNursery.Nodup
  ft : ∀ o, o ∈ t.fromSpace → o ∉ t.toSpace
  fc : ∀ o, o ∈ t.fromSpace → o ∉ t.collectNursery
  fa : ∀ o, o ∈ t.fromSpace → o ∉ t.allocNursery
  tc : ∀ o, o ∈ t.toSpace → o ∉ t.collectNursery
  ta : ∀ o, o ∈ t.toSpace → o ∉ t.allocNursery
  ca : ∀ o, o ∈ t.collectNursery → o ∉ t.allocNursery

theorem disj_iff_nodup (t : TM) : Disj t ↔ (allObjs t).Nodup := by
  unfold allObjs
  simp only [List.nodup_append, List.mem_append]
  constructor
  · intro h
    refine ⟨⟨⟨h.nf, h.nt, ?_⟩, h.nc, ?_⟩, h.na, ?_⟩
    · intro a ha b hb hab; subst hab; exact h.ft a ha hb
    · intro a ha b hb hab; subst hab
      rcases ha with ha | ha
      · exact h.fc a ha hb
      · exact h.tc a ha hb
    · intro a ha b hb hab; subst hab
      rcases ha with (ha | ha) | ha
      · exact h.fa a ha hb
      · exact h.ta a ha hb
      · exact h.ca a ha hb
  · rintro ⟨⟨⟨nf, nt, ft⟩, nc, c⟩, na, a⟩
    exact ⟨nf, nt, nc, na,
      fun o h1 h2 => ft o h1 o h2 rfl,
      fun o h1 h2 => c o (Or.inl h1) o h2 rfl,
      fun o h1 h2 => a o (Or.inl (Or.inl h1)) o h2 rfl,
      fun o h1 h2 => c o (Or.inr h1) o h2 rfl,
      fun o h1 h2 => a o (Or.inl (Or.inr h1)) o h2 rfl,
      fun o h1 h2 => a o (Or.inr h1) o h2 rfl⟩

theorem mem_allObjs {t : TM} {o : Obj} :
    o ∈ allObjs t ↔ o ∈ t.fromSpace ∨ o ∈ t.toSpace ∨ o ∈ t.collectNursery ∨ o ∈ t.allocNursery := by
  simp [allObjs]

/-- Shape of the sets in each phase (what `LargeObjectSpace::release` `debug_assert`s). -/
def PhaseOk (s : Sys) : Prop :=
  match s.ph with
  | .mutator => s.tm.collectNursery = [] ∧ s.tm.fromSpace = []
  | .marking full => s.tm.allocNursery = [] ∧ (full = false → s.tm.fromSpace = [])
  | .nurserySwept => s.tm.collectNursery = [] ∧ s.tm.allocNursery = []

/-- The invariant of protocol-respecting histories. -/
structure Inv (r : Run) : Prop where
  disj : Disj r.sys.tm
  alive : ∀ o, o ∈ allObjs r.sys.tm ↔ o ∈ r.alive
  phase : PhaseOk r.sys

theorem inv_init : Inv {} := by
  refine ⟨⟨?_, ?_, ?_, ?_, ?_, ?_, ?_, ?_, ?_, ?_⟩, ?_, ?_⟩ <;> simp [allObjs, PhaseOk]

theorem allowed_of_sysStep {s : Sys} {op : Op} {x} (h : sysStep s op = some x) : allowed s op = true := by
  unfold sysStep at h
  split at h
  · cases h
  · simp_all

/-- One step preserves the invariant. -/
theorem inv_step {r r' : Run} {op : Op} (hi : Inv r) (h : runStep r op = some r') : Inv r' := by
  obtain ⟨⟨nf, nt, nc, na, ft, fc, fa, tc, ta, ca⟩, hal, hph⟩ := hi
  unfold runStep at h
  split at h
  · cases h
  · rename_i s' swept hs
    have hall := allowed_of_sysStep hs
    cases h
    unfold sysStep at hs
    simp only [hall, Bool.not_true, Bool.false_eq_true, if_false] at hs
    cases op with
    | add o n =>
      simp only [Option.some.injEq, Prod.mk.injEq] at hs
      obtain ⟨rfl, rfl⟩ := hs
      simp only [allowed, Bool.and_eq_true, Bool.not_eq_true', List.contains_eq_mem,
        decide_eq_false_iff_not, Bool.or_eq_true, beq_iff_eq, Bool.not_eq_eq_eq_not, Bool.not_true] at hall
      obtain ⟨hfresh, hn⟩ := hall
      have hfresh' : ¬ (o ∈ r.sys.tm.fromSpace ∨ o ∈ r.sys.tm.toSpace ∨ o ∈ r.sys.tm.collectNursery
          ∨ o ∈ r.sys.tm.allocNursery) := fun h => hfresh (mem_allObjs.mpr h)
      simp only [not_or] at hfresh'
      obtain ⟨h1, h2, h3, h4⟩ := hfresh'
      cases n with
      | true =>
        have hm : r.sys.ph = .mutator := by simpa using hn
        refine ⟨⟨nf, nt, nc, nodup_sinsert o na, ft, fc, ?_, tc, ?_, ?_⟩, ?_, ?_⟩
        · intro x hx hx'; rcases mem_sinsert.mp hx' with rfl | hx'
          · exact h1 hx
          · exact fa x hx hx'
        · intro x hx hx'; rcases mem_sinsert.mp hx' with rfl | hx'
          · exact h2 hx
          · exact ta x hx hx'
        · intro x hx hx'; rcases mem_sinsert.mp hx' with rfl | hx'
          · exact h3 hx
          · exact ca x hx hx'
        · intro x
          have := hal x
          simp only [mem_allObjs, addToTreadmill, if_true, mem_sinsert, List.mem_cons] at this ⊢
          rw [← this]; constructor
          · rintro (h | h | h | h | h) <;> simp [h]
          · rintro (h | h | h | h | h) <;> simp [h]
        · simp only [PhaseOk, hm, addToTreadmill, if_true] at hph ⊢
          exact hph
      | false =>
        refine ⟨⟨nf, nodup_sinsert o nt, nc, na, ?_, fc, fa, ?_, ?_, ca⟩, ?_, ?_⟩
        · intro x hx hx'; rcases mem_sinsert.mp hx' with rfl | hx'
          · exact h1 hx
          · exact ft x hx hx'
        · intro x hx hx'; rcases mem_sinsert.mp hx with rfl | hx
          · exact h3 hx'
          · exact tc x hx hx'
        · intro x hx hx'; rcases mem_sinsert.mp hx with rfl | hx
          · exact h4 hx'
          · exact ta x hx hx'
        · intro x
          have := hal x
          simp only [mem_allObjs, addToTreadmill, Bool.false_eq_true, if_false, mem_sinsert,
            List.mem_cons] at this ⊢
          rw [← this]; constructor
          · rintro (h | (h | h) | h | h) <;> simp [h]
          · rintro (h | h | h | h | h) <;> simp [h]
        · simp only [PhaseOk, addToTreadmill, Bool.false_eq_true, if_false] at hph ⊢
          exact hph
    | flip full =>
      simp only [Option.some.injEq, Prod.mk.injEq] at hs
      obtain ⟨rfl, rfl⟩ := hs
      have hm : r.sys.ph = .mutator := by simpa [allowed] using hall
      simp only [PhaseOk, hm] at hph
      obtain ⟨hc, hf⟩ := hph
      have hfil : List.filter (fun x => !([] : List Obj).contains x) r.alive = r.alive := by simp
      cases full with
      | true =>
        have e : flip r.sys.tm true = (⟨r.sys.tm.toSpace, [], r.sys.tm.allocNursery, []⟩ : TM) := by simp [flip, hc, hf]
        simp only [e, hfil]
        refine ⟨⟨nt, List.nodup_nil, na, List.nodup_nil, by simp, fun o h1 h2 => ta o h1 h2, by simp,
          by simp, by simp, by simp⟩, ?_, ?_⟩
        · intro x
          have := hal x
          simp only [mem_allObjs, hc, hf, List.not_mem_nil, false_or, or_false] at this ⊢
          exact this
        · simp [PhaseOk]
      | false =>
        have e : flip r.sys.tm false = (⟨[], r.sys.tm.toSpace, r.sys.tm.allocNursery, []⟩ : TM) := by simp [flip, hc, hf]
        simp only [e, hfil]
        refine ⟨⟨List.nodup_nil, nt, na, List.nodup_nil, by simp, by simp, by simp,
          fun o h1 h2 => ta o h1 h2, by simp, by simp⟩, ?_, ?_⟩
        · intro x
          have := hal x
          simp only [mem_allObjs, hc, hf, List.not_mem_nil, false_or, or_false] at this ⊢
          exact this
        · simp [PhaseOk]
    | copy o inN =>
      simp only [allowed, Bool.and_eq_true] at hall
      obtain ⟨hmk, hsrc⟩ := hall
      have hfil : List.filter (fun x => !([] : List Obj).contains x) r.alive = r.alive := by simp
      simp only [hfil]
      cases inN with
      | true =>
        simp only [if_true, List.contains_eq_mem, decide_eq_true_eq] at hsrc
        simp only [copy, if_true, List.contains_eq_mem, hsrc, decide_true, Bool.not_true,
          Bool.and_false, Bool.false_eq_true, if_false, Option.map_some, Option.some.injEq,
          Prod.mk.injEq] at hs
        obtain ⟨rfl, rfl⟩ := hs
        refine ⟨⟨nf, nodup_sinsert o nt, nodup_sremove o nc, na, ?_, ?_, fa, ?_, ?_, ?_⟩, ?_, ?_⟩
        · intro x hx hx'; rcases mem_sinsert.mp hx' with rfl | hx'
          · exact fc x hx hsrc
          · exact ft x hx hx'
        · intro x hx hx'; exact fc x hx (mem_sremove.mp hx').1
        · intro x hx hx'
          obtain ⟨h1, h2⟩ := mem_sremove.mp hx'
          rcases mem_sinsert.mp hx with rfl | hx
          · exact h2 rfl
          · exact tc x hx h1
        · intro x hx hx'; rcases mem_sinsert.mp hx with rfl | hx
          · exact ca x hsrc hx'
          · exact ta x hx hx'
        · intro x hx hx'; exact ca x (mem_sremove.mp hx).1 hx'
        · intro x
          have := hal x
          simp only [mem_allObjs, mem_sinsert, mem_sremove, hfil] at this ⊢
          rw [← this]
          by_cases hxo : x = o
          · subst hxo; simp [hsrc]
          · simp [hxo]
        · revert hph
          simp only [PhaseOk]
          cases hp : r.sys.ph <;> simp_all [Phase.isMarking]
      | false =>
        simp only [Bool.false_eq_true, if_false, List.contains_eq_mem, decide_eq_true_eq] at hsrc
        simp only [copy, Bool.false_eq_true, if_false, List.contains_eq_mem, hsrc, decide_true,
          Bool.not_true, Bool.and_false, Option.map_some, Option.some.injEq, Prod.mk.injEq] at hs
        obtain ⟨rfl, rfl⟩ := hs
        refine ⟨⟨nodup_sremove o nf, nodup_sinsert o nt, nc, na, ?_, ?_, ?_, ?_, ?_, ca⟩, ?_, ?_⟩
        · intro x hx hx'
          obtain ⟨h1, h2⟩ := mem_sremove.mp hx
          rcases mem_sinsert.mp hx' with rfl | hx'
          · exact h2 rfl
          · exact ft x h1 hx'
        · intro x hx hx'; exact fc x (mem_sremove.mp hx).1 hx'
        · intro x hx hx'; exact fa x (mem_sremove.mp hx).1 hx'
        · intro x hx hx'; rcases mem_sinsert.mp hx with rfl | hx
          · exact fc x hsrc hx'
          · exact tc x hx hx'
        · intro x hx hx'; rcases mem_sinsert.mp hx with rfl | hx
          · exact fa x hsrc hx'
          · exact ta x hx hx'
        · intro x
          have := hal x
          simp only [mem_allObjs, mem_sinsert, mem_sremove, hfil] at this ⊢
          rw [← this]
          by_cases hxo : x = o
          · subst hxo; simp [hsrc]
          · simp [hxo]
        · revert hph
          simp only [PhaseOk]
          cases hp : r.sys.ph with
          | mutator => simp [hp, Phase.isMarking] at hmk
          | nurserySwept => simp [hp, Phase.isMarking] at hmk
          | marking full =>
            simp only
            rintro ⟨h1, h2⟩
            refine ⟨h1, fun hf => ?_⟩
            have := h2 hf
            rw [this] at hsrc
            simp at hsrc
    | collectNursery =>
      simp only [collectNursery, Option.some.injEq, Prod.mk.injEq] at hs
      obtain ⟨rfl, rfl⟩ := hs
      have hmk : r.sys.ph.isMarking = true := by simpa [allowed] using hall
      refine ⟨⟨nf, nt, List.nodup_nil, na, ft, ?_, fa, ?_, ta, ?_⟩, ?_, ?_⟩
      · intro o _ h; simp at h
      · intro o _ h; simp at h
      · intro o h; simp at h
      · intro x
        have := hal x
        simp only [mem_allObjs, List.not_mem_nil, false_or, List.mem_filter, Bool.not_eq_eq_eq_not,
          Bool.not_true, List.contains_eq_mem, decide_eq_false_iff_not] at this ⊢
        rw [← this]
        constructor
        · rintro (h | h | h)
          · exact ⟨Or.inl h, fc x h⟩
          · exact ⟨Or.inr (Or.inl h), tc x h⟩
          · exact ⟨Or.inr (Or.inr (Or.inr h)), fun h' => ca x h' h⟩
        · rintro ⟨h | h | h | h, hn⟩
          · exact Or.inl h
          · exact Or.inr (Or.inl h)
          · exact absurd h hn
          · exact Or.inr (Or.inr h)
      · revert hph
        simp only [PhaseOk]
        cases hp : r.sys.ph with
        | mutator => simp [hp, Phase.isMarking] at hmk
        | nurserySwept => simp [hp, Phase.isMarking] at hmk
        | marking full =>
          cases full <;> simp_all
    | collectMature =>
      simp only [collectMature, Option.some.injEq, Prod.mk.injEq] at hs
      obtain ⟨rfl, rfl⟩ := hs
      have hsw : r.sys.ph = .nurserySwept := by simpa [allowed] using hall
      refine ⟨⟨List.nodup_nil, nt, nc, na, ?_, ?_, ?_, tc, ta, ca⟩, ?_, ?_⟩
      · intro o h; simp at h
      · intro o h; simp at h
      · intro o h; simp at h
      · intro x
        have := hal x
        simp only [mem_allObjs, List.not_mem_nil, false_or, List.mem_filter, Bool.not_eq_eq_eq_not,
          Bool.not_true, List.contains_eq_mem, decide_eq_false_iff_not] at this ⊢
        rw [← this]
        constructor
        · rintro (h | h | h)
          · exact ⟨Or.inr (Or.inl h), fun h' => ft x h' h⟩
          · exact ⟨Or.inr (Or.inr (Or.inl h)), fun h' => fc x h' h⟩
          · exact ⟨Or.inr (Or.inr (Or.inr h)), fun h' => fa x h' h⟩
        · rintro ⟨h | h | h | h, hn⟩
          · exact absurd h hn
          · exact Or.inl h
          · exact Or.inr (Or.inl h)
          · exact Or.inr (Or.inr h)
      · simp only [PhaseOk, hsw] at hph ⊢
        exact ⟨hph.1, trivial⟩

theorem inv_run {r r' : Run} (ops : List Op) (hi : Inv r) (h : run r ops = some r') : Inv r' := by
  induction ops generalizing r with
  | nil => simp [run] at h; subst h; exact hi
  | cons op ops ih =>
    simp only [run] at h
    split at h
    · cases h
    · rename_i r1 h1
      exact ih (inv_step hi h1) h

/-! ## C36 theorem 1: every object is in exactly one set -/

/-- **one_set.** After any protocol-respecting history (any length, any objects), every object
that was added and not yet handed back for sweeping occurs exactly once in the four sets taken
together, and no other object occurs at all. -/
theorem one_set (ops : List Op) (r : Run) (h : run {} ops = some r) :
    ∀ o, (allObjs r.sys.tm).count o = if o ∈ r.alive then 1 else 0 := by
  intro o
  have hi := inv_run ops inv_init h
  have hn := (disj_iff_nodup _).mp hi.disj
  rw [hn.count]
  simp [hi.alive o]

/-- The same, spelled out set by set: the sets are duplicate-free and pairwise disjoint, their
union is exactly the alive objects, and the phase shape LOS asserts holds. -/
theorem one_set_structured (ops : List Op) (r : Run) (h : run {} ops = some r) :
    Disj r.sys.tm ∧ (∀ o, o ∈ allObjs r.sys.tm ↔ o ∈ r.alive) ∧ PhaseOk r.sys :=
  let hi := inv_run ops inv_init h
  ⟨hi.disj, hi.alive, hi.phase⟩

/-- The debug assertion in `TreadMill::copy` never fires on a protocol-respecting history: a step
is refused only because the protocol forbids it (`run` uses the debug-build `copy`). -/
theorem protocol_never_panics (s : Sys) (op : Op) (h : allowed s op = true) :
    (sysStep s op).isSome = true := by
  unfold sysStep
  simp only [h, Bool.not_true, Bool.false_eq_true, if_false]
  cases op with
  | copy o inN =>
    simp only [allowed, Bool.and_eq_true] at h
    cases inN <;> simp_all [copy]
  | _ => simp

/-! ## C36 theorem 2: a GC sweeps exactly the unmarked objects of the collected sets -/

/-- What LOS may do between `prepare` and `release`: `copy` (trace) and allocation as live. -/
def isMarkOp : Op → Bool
  | .copy _ _ => true
  | .add _ false => true
  | _ => false

/-- `o` was marked (received a `copy`) during the GC whose marking-phase ops are `g`. -/
def copied (g : List Op) (o : Obj) : Prop := ∃ b, Op.copy o b ∈ g

/-- Effect of any marking phase on the four sets. -/
theorem marking_run (g : List Op) : ∀ (s s' : Sys) (full : Bool), s.ph = .marking full →
    (∀ op ∈ g, isMarkOp op = true) → sysRun s g = some s' →
    s'.ph = .marking full ∧
    (∀ o, o ∈ s'.tm.collectNursery ↔ o ∈ s.tm.collectNursery ∧ Op.copy o true ∉ g) ∧
    (∀ o, o ∈ s'.tm.fromSpace ↔ o ∈ s.tm.fromSpace ∧ Op.copy o false ∉ g) ∧
    (∀ o, o ∈ s.tm.toSpace ∨ copied g o → o ∈ s'.tm.toSpace) ∧
    (∀ o, Op.copy o true ∈ g → o ∈ s.tm.collectNursery) ∧
    (∀ o, Op.copy o false ∈ g → o ∈ s.tm.fromSpace) ∧
    s'.tm.allocNursery = s.tm.allocNursery ∧
    (s.tm.collectNursery.Nodup → s'.tm.collectNursery.Nodup) ∧
    (s.tm.fromSpace.Nodup → s'.tm.fromSpace.Nodup) := by
  induction g with
  | nil =>
    intro s s' full hph _ hrun
    simp only [sysRun, Option.some.injEq] at hrun
    subst hrun
    simp [hph, copied]
  | cons op g ih =>
    intro s s' full hph hops hrun
    simp only [sysRun] at hrun
    split at hrun
    · cases hrun
    · rename_i s1 sw hstep
      have hall := allowed_of_sysStep hstep
      have hop := hops op (List.mem_cons_self)
      have hg : ∀ op ∈ g, isMarkOp op = true := fun x hx => hops x (List.mem_cons_of_mem _ hx)
      unfold sysStep at hstep
      simp only [hall, Bool.not_true, Bool.false_eq_true, if_false] at hstep
      cases op with
      | flip f => simp [isMarkOp] at hop
      | collectNursery => simp [isMarkOp] at hop
      | collectMature => simp [isMarkOp] at hop
      | add o n =>
        cases n with
        | true => simp [isMarkOp] at hop
        | false =>
          simp only [Option.some.injEq, Prod.mk.injEq] at hstep
          obtain ⟨rfl, rfl⟩ := hstep
          obtain ⟨h1, h2, h3, h4, h5, h6, h7, h8, h9⟩ :=
            ih { s with tm := addToTreadmill s.tm o false } s' full hph hg hrun
          simp only [addToTreadmill, Bool.false_eq_true, if_false] at h2 h3 h4 h5 h6 h7 h8 h9
          refine ⟨h1, ?_, ?_, ?_, ?_, ?_, h7, h8, h9⟩
          · intro x; rw [h2 x]; simp
          · intro x; rw [h3 x]; simp
          · rintro x (hx | ⟨b, hb⟩)
            · exact h4 x (Or.inl (mem_sinsert.mpr (Or.inr hx)))
            · simp only [List.mem_cons, reduceCtorEq, false_or] at hb
              exact h4 x (Or.inr ⟨b, hb⟩)
          · intro x hx
            simp only [List.mem_cons, reduceCtorEq, false_or] at hx
            exact h5 x hx
          · intro x hx
            simp only [List.mem_cons, reduceCtorEq, false_or] at hx
            exact h6 x hx
      | copy o inN =>
        simp only [allowed, Bool.and_eq_true] at hall
        obtain ⟨_, hsrc⟩ := hall
        cases inN with
        | true =>
          simp only [if_true, List.contains_eq_mem, decide_eq_true_eq] at hsrc
          simp only [copy, if_true, List.contains_eq_mem, hsrc, decide_true, Bool.not_true,
            Bool.and_false, Bool.false_eq_true, if_false, Option.map_some, Option.some.injEq,
            Prod.mk.injEq] at hstep
          obtain ⟨rfl, rfl⟩ := hstep
          obtain ⟨h1, h2, h3, h4, h5, h6, h7, h8, h9⟩ := (fun hp => ih _ s' full hp hg hrun) hph
          simp only at h2 h3 h4 h5 h6 h7 h8 h9
          refine ⟨h1, ?_, ?_, ?_, ?_, ?_, h7, fun hn => h8 (nodup_sremove o hn), h9⟩
          · intro x; rw [h2 x, mem_sremove]
            simp only [List.mem_cons, Op.copy.injEq, and_true, not_or]
            exact ⟨fun ⟨⟨a, b⟩, c⟩ => ⟨a, b, c⟩, fun ⟨a, b, c⟩ => ⟨⟨a, b⟩, c⟩⟩
          · intro x; rw [h3 x]; simp
          · rintro x (hx | ⟨b, hb⟩)
            · exact h4 x (Or.inl (mem_sinsert.mpr (Or.inr hx)))
            · simp only [List.mem_cons, Op.copy.injEq] at hb
              rcases hb with ⟨rfl, _⟩ | hb
              · exact h4 x (Or.inl (mem_sinsert.mpr (Or.inl rfl)))
              · exact h4 x (Or.inr ⟨b, hb⟩)
          · intro x hx
            simp only [List.mem_cons, Op.copy.injEq, and_true] at hx
            rcases hx with rfl | hx
            · exact hsrc
            · exact (mem_sremove.mp (h5 x hx)).1
          · intro x hx
            simp only [List.mem_cons, Op.copy.injEq, Bool.false_eq_true, and_false, false_or] at hx
            exact h6 x hx
        | false =>
          simp only [Bool.false_eq_true, if_false, List.contains_eq_mem, decide_eq_true_eq] at hsrc
          simp only [copy, Bool.false_eq_true, if_false, List.contains_eq_mem, hsrc, decide_true,
            Bool.not_true, Bool.and_false, Option.map_some, Option.some.injEq, Prod.mk.injEq] at hstep
          obtain ⟨rfl, rfl⟩ := hstep
          obtain ⟨h1, h2, h3, h4, h5, h6, h7, h8, h9⟩ := (fun hp => ih _ s' full hp hg hrun) hph
          simp only at h2 h3 h4 h5 h6 h7 h8 h9
          refine ⟨h1, ?_, ?_, ?_, ?_, ?_, h7, h8, fun hn => h9 (nodup_sremove o hn)⟩
          · intro x; rw [h2 x]; simp
          · intro x; rw [h3 x, mem_sremove]
            simp only [List.mem_cons, Op.copy.injEq, and_true, not_or]
            exact ⟨fun ⟨⟨a, b⟩, c⟩ => ⟨a, b, c⟩, fun ⟨a, b, c⟩ => ⟨⟨a, b⟩, c⟩⟩
          · rintro x (hx | ⟨b, hb⟩)
            · exact h4 x (Or.inl (mem_sinsert.mpr (Or.inr hx)))
            · simp only [List.mem_cons, Op.copy.injEq] at hb
              rcases hb with ⟨rfl, _⟩ | hb
              · exact h4 x (Or.inl (mem_sinsert.mpr (Or.inl rfl)))
              · exact h4 x (Or.inr ⟨b, hb⟩)
          · intro x hx
            simp only [List.mem_cons, Op.copy.injEq, Bool.true_eq_false, and_false, false_or] at hx
            exact h5 x hx
          · intro x hx
            simp only [List.mem_cons, Op.copy.injEq, and_true] at hx
            rcases hx with rfl | hx
            · exact hsrc
            · exact (mem_sremove.mp (h6 x hx)).1

/-- The outcome of one complete GC, as seen from the mutator-phase state before it. -/
structure GcOutcome (t0 : TM) (full : Bool) (g : List Op) (sweptNursery sweptMature : List Obj)
    (final : Sys) : Prop where
  /-- each swept object is handed back once -/
  nursery_once : sweptNursery.Nodup
  mature_once : sweptMature.Nodup
  /-- the nursery sweep returns exactly the young objects that were not marked -/
  nursery_exact : ∀ o, o ∈ sweptNursery ↔ o ∈ t0.allocNursery ∧ ¬ copied g o
  /-- the mature sweep (full GC only) returns exactly the old objects that were not marked -/
  mature_exact : ∀ o, o ∈ sweptMature ↔ full = true ∧ o ∈ t0.toSpace ∧ ¬ copied g o
  /-- every marked object is kept: it is in `to_space` afterwards and was not swept -/
  marked_kept : ∀ o, copied g o → o ∈ final.tm.toSpace ∧ o ∉ sweptNursery ∧ o ∉ sweptMature
  /-- the GC ends in mutator phase -/
  back_to_mutator : final.ph = .mutator

/-- Run `release(full)`: `collect_nursery`, then `collect_mature` iff `full`. -/
def release (s : Sys) (full : Bool) : Option (Sys × List Obj × List Obj) :=
  match sysStep s .collectNursery with
  | none => none
  | some (s2, r1) =>
    if full then
      match sysStep s2 .collectMature with
      | none => none
      | some (s3, r2) => some (s3, r1, r2)
    else some (s2, r1, [])

/-- **sweep_exact.** Take any protocol-respecting history `h` ending in mutator phase, then a GC:
`flip full`, any marking phase `g` (copies and as-live allocations in any order — any
interleaving of GC workers, since everything is under one mutex), then `release`.  The release
succeeds, hands back exactly the unmarked objects of the collected sets (the allocation nursery,
and for a full GC also the old to-space), each once, and keeps every marked object. -/
theorem sweep_exact (h : List Op) (r0 : Run) (full : Bool) (g : List Op) (s1 : Sys)
    (hreach : run {} h = some r0) (hmut : r0.sys.ph = .mutator)
    (hg : ∀ op ∈ g, isMarkOp op = true)
    (hrun : sysRun r0.sys (.flip full :: g) = some s1) :
    ∃ final r1 r2, release s1 full = some (final, r1, r2) ∧
      GcOutcome r0.sys.tm full g r1 r2 final := by
  have hi := inv_run h inv_init hreach
  obtain ⟨⟨nf, nt, nc, na, ft, fc, fa, tc, ta, ca⟩, _, hph⟩ := hi
  simp only [PhaseOk, hmut] at hph
  obtain ⟨hc, hf⟩ := hph
  simp only [sysRun] at hrun
  have hfl : sysStep r0.sys (.flip full) = some (⟨.marking full, flip r0.sys.tm full⟩, []) := by
    simp [sysStep, allowed, hmut]
  rw [hfl] at hrun
  simp only at hrun
  obtain ⟨h1, h2, h3, h4, h5, h6, h7, h8, h9⟩ :=
    marking_run g ⟨.marking full, flip r0.sys.tm full⟩ s1 full rfl hg hrun
  -- a copy's flag says which set the object was in; the two are disjoint
  have hcn : ∀ o, o ∈ r0.sys.tm.allocNursery → (¬ copied g o ↔ Op.copy o true ∉ g) := by
    intro o ho
    constructor
    · intro hn hc'; exact hn ⟨true, hc'⟩
    · rintro hn ⟨b, hb⟩
      cases b with
      | true => exact hn hb
      | false =>
        have := h6 o hb
        cases full with
        | true =>
          simp only [flip, if_true] at this
          exact ta o this ho
        | false =>
          simp only [flip, Bool.false_eq_true, if_false, hf] at this
          simp at this
  have hfs : ∀ o, o ∈ r0.sys.tm.toSpace → (¬ copied g o ↔ Op.copy o false ∉ g) := by
    intro o ho
    constructor
    · intro hn hc'; exact hn ⟨false, hc'⟩
    · rintro hn ⟨b, hb⟩
      cases b with
      | false => exact hn hb
      | true =>
        have := h5 o hb
        have hcn' : (flip r0.sys.tm full).collectNursery = r0.sys.tm.allocNursery := by
          cases full <;> simp [flip]
        rw [hcn'] at this
        exact ta o ho this
  have hmk : s1.ph.isMarking = true := by simp [h1, Phase.isMarking]
  cases full with
  | false =>
    have hflip : flip r0.sys.tm false = ⟨[], r0.sys.tm.toSpace, r0.sys.tm.allocNursery, []⟩ := by
      simp [flip, hc, hf]
    rw [hflip] at h2 h3 h4 h5 h6 h7 h8 h9
    simp only at h2 h3 h4 h5 h6 h7 h8 h9
    refine ⟨⟨.mutator, (collectNursery s1.tm).2⟩, s1.tm.collectNursery, [], ?_, ?_⟩
    · simp [release, sysStep, allowed, collectNursery, h1, Phase.isMarking]
    · refine ⟨h8 na, List.nodup_nil, ?_, ?_, ?_, rfl⟩
      · intro o; rw [h2 o]
        constructor
        · rintro ⟨a, b⟩; exact ⟨a, (hcn o a).mpr b⟩
        · rintro ⟨a, b⟩; exact ⟨a, (hcn o a).mp b⟩
      · intro o; simp
      · intro o hco
        refine ⟨h4 o (Or.inr hco), ?_, by simp⟩
        rw [h2 o]
        rintro ⟨a, b⟩
        exact (hcn o a).mpr b hco
  | true =>
    have hflip : flip r0.sys.tm true = ⟨r0.sys.tm.toSpace, [], r0.sys.tm.allocNursery, []⟩ := by
      simp [flip, hc, hf]
    rw [hflip] at h2 h3 h4 h5 h6 h7 h8 h9
    simp only at h2 h3 h4 h5 h6 h7 h8 h9
    refine ⟨⟨.mutator, (collectMature (collectNursery s1.tm).2).2⟩, s1.tm.collectNursery,
      s1.tm.fromSpace, ?_, ?_⟩
    · simp [release, sysStep, allowed, collectNursery, collectMature, h1, Phase.isMarking]
    · refine ⟨h8 na, h9 nt, ?_, ?_, ?_, rfl⟩
      · intro o; rw [h2 o]
        constructor
        · rintro ⟨a, b⟩; exact ⟨a, (hcn o a).mpr b⟩
        · rintro ⟨a, b⟩; exact ⟨a, (hcn o a).mp b⟩
      · intro o; rw [h3 o]
        constructor
        · rintro ⟨a, b⟩; exact ⟨rfl, a, (hfs o a).mpr b⟩
        · rintro ⟨_, a, b⟩; exact ⟨a, (hfs o a).mp b⟩
      · intro o hco
        refine ⟨?_, ?_, ?_⟩
        · simpa [collectNursery, collectMature] using h4 o (Or.inr hco)
        · rw [h2 o]; rintro ⟨a, b⟩; exact (hcn o a).mpr b hco
        · rw [h3 o]; rintro ⟨a, b⟩; exact (hfs o a).mpr b hco

/-! ## C36 theorem 3: a nursery GC keeps every mature object -/

/-- **nursery_gc_keeps_mature.** In a nursery GC (`flip false`) nothing is handed back from the
mature sets: `collect_mature` is not even called (`release` returns no mature sweep), every object
that was in `to_space` before the GC is still there afterwards and is not among the swept objects,
and the from-space stays empty. -/
theorem nursery_gc_keeps_mature (h : List Op) (r0 : Run) (g : List Op) (s1 : Sys)
    (hreach : run {} h = some r0) (hmut : r0.sys.ph = .mutator)
    (hg : ∀ op ∈ g, isMarkOp op = true)
    (hrun : sysRun r0.sys (.flip false :: g) = some s1) :
    ∃ final r1, release s1 false = some (final, r1, []) ∧
      (∀ o, o ∈ r0.sys.tm.toSpace → o ∈ final.tm.toSpace ∧ o ∉ r1) ∧
      final.tm.fromSpace = [] ∧ allowed final .collectMature = false := by
  have hi := inv_run h inv_init hreach
  obtain ⟨⟨nf, nt, nc, na, ft, fc, fa, tc, ta, ca⟩, _, hph⟩ := hi
  simp only [PhaseOk, hmut] at hph
  obtain ⟨hc, hf⟩ := hph
  simp only [sysRun] at hrun
  have hfl : sysStep r0.sys (.flip false) = some (⟨.marking false, flip r0.sys.tm false⟩, []) := by
    simp [sysStep, allowed, hmut]
  rw [hfl] at hrun
  simp only at hrun
  obtain ⟨h1, h2, h3, h4, h5, h6, h7, h8, h9⟩ :=
    marking_run g ⟨.marking false, flip r0.sys.tm false⟩ s1 false rfl hg hrun
  have hflip : flip r0.sys.tm false = ⟨[], r0.sys.tm.toSpace, r0.sys.tm.allocNursery, []⟩ := by
    simp [flip, hc, hf]
  rw [hflip] at h2 h3 h4 h5 h6 h7 h8 h9
  simp only at h2 h3 h4 h5 h6 h7 h8 h9
  have hmk : s1.ph.isMarking = true := by simp [h1, Phase.isMarking]
  refine ⟨⟨.mutator, (collectNursery s1.tm).2⟩, s1.tm.collectNursery, ?_, ?_, ?_, ?_⟩
  · simp [release, sysStep, allowed, collectNursery, h1, Phase.isMarking]
  · intro o ho
    refine ⟨h4 o (Or.inl ho), ?_⟩
    rw [h2 o]
    rintro ⟨a, _⟩
    exact ta o ho a
  · have : ∀ o, o ∉ s1.tm.fromSpace := fun o ho => by simpa using (h3 o).mp ho
    simpa [collectNursery] using List.eq_nil_iff_forall_not_mem.mpr this
  · simp [allowed]

/-! ## the hypotheses are satisfiable: a concrete full GC and a concrete nursery GC -/

/-- objects 1,2 young, 3 allocated as live; nursery GC marks 1; then 4 young; full GC marks 1 and 4
(3 and 2 die); both sweeps return what the theorems say. -/
example :
    let h := [Op.add 1 true, .add 2 true, .add 3 false, .flip false, .copy 1 true, .collectNursery,
              .add 4 true]
    ∃ r0, run {} h = some r0 ∧ r0.sys.ph = .mutator ∧
      r0.sys.tm = ⟨[], [1, 3], [], [4]⟩ ∧ r0.alive = [4, 3, 1] ∧
      ∃ s1, sysRun r0.sys [.flip true, .copy 4 true, .add 9 false, .copy 1 false] = some s1 ∧
        release s1 true = some (⟨.mutator, ⟨[], [1, 9, 4], [], []⟩⟩, [], [3]) := by
  decide

/-- histories that leave the protocol are rejected by `run` (wrong `copy` flag; re-adding a live
object); a full GC without marks sweeps everything. -/
example : run {} [Op.add 1 true, .flip false, .copy 1 false] = none ∧
    run {} [Op.add 1 true, .add 1 false] = none ∧
    (run {} [Op.add 1 true, .flip true, .collectNursery, .collectMature]).map (·.alive) = some [] := by
  decide

end Mmtk.Treadmill
