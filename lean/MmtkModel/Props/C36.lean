import MmtkModel.Model.Treadmill
import MmtkModel.Model.LOS
/-!
# C36 — The large-object treadmill accounts for every object exactly once

Across any history of allocations and nursery/full collections that respects the LOS protocol
(`Mmtk.Treadmill.allowed`), each large object is in exactly one treadmill set (`one_set`); a GC
sweeps exactly the objects of the collected sets that were not marked, each once, and keeps every
marked object (`sweep_exact`); a nursery GC keeps every mature object (`nursery_gc_keeps_mature`).
All theorems quantify over **all** histories (no bound on length or on the number of objects).

Part 1 (`Mmtk.Treadmill`) is about `TreadMill` driven by the LOS protocol written out as treadmill
calls.  Part 2 (`Mmtk.LOS`, at the end of this file) proves the same statements — and that the per
object mark/nursery bits agree with the sets, and that an object is enqueued at most once per GC —
for the model of `LargeObjectSpace` itself (`prepare` / `trace_object` / `release`), so that the
treadmill-level protocol is a consequence of the code rather than an assumption.
-/
namespace Mmtk.Treadmill

/-! ## hash-set operations on duplicate-free lists -/

theorem mem_sinsert {s : List Obj} {o x : Obj} : x ∈ sinsert s o ↔ x = o ∨ x ∈ s := by
  unfold sinsert
  split <;> simp_all

theorem nodup_sinsert {s : List Obj} (o : Obj) (h : s.Nodup) : (sinsert s o).Nodup := by
  unfold sinsert
  split
  · exact h
  · exact List.nodup_cons.mpr ⟨by assumption, h⟩

theorem mem_sremove {s : List Obj} {o x : Obj} : x ∈ sremove s o ↔ x ∈ s ∧ x ≠ o := by
  simp [sremove]

theorem nodup_sremove {s : List Obj} (o : Obj) (h : s.Nodup) : (sremove s o).Nodup := by
  unfold sremove
  exact h.sublist List.filter_sublist

/-! ## "exactly one set" as a structured predicate -/

/-- The four sets are duplicate-free and pairwise disjoint. -/
structure Disj (t : TM) : Prop where
  nf : t.fromSpace.Nodup
  nt : t.toSpace.Nodup
  nc : t.collectNursery.Nodup
  na : t.allocNursery.Nodup
  ft : ∀ o, o ∈ t.fromSpace → o ∉ t.toSpace
  fc : ∀ o, o ∈ t.fromSpace → o ∉ t.collectNursery
  fa : ∀ o, o ∈ t.fromSpace → o ∉ t.allocNursery
  tc : ∀ o, o ∈ t.toSpace → o ∉ t.collectNursery
  ta : ∀ o, o ∈ t.toSpace → o ∉ t.allocNursery
  ca : ∀ o, o ∈ t.collectNursery → o ∉ t.allocNursery

theorem disj_iff_nodup (t : TM) : Disj t ↔ (allObjs t).Nodup := by
  unfold allObjs
  simp only [List.nodup_append, List.mem_append]
  constructor
  · intro h
    refine ⟨⟨⟨h.nf, h.nt, ?_⟩, h.nc, ?_⟩, h.na, ?_⟩
    · intro a ha b hb hab; subst hab; exact h.ft a ha hb
    · intro a ha b hb hab; subst hab
      rcases ha with ha | ha
      · exact h.fc a ha hb
      · exact h.tc a ha hb
    · intro a ha b hb hab; subst hab
      rcases ha with (ha | ha) | ha
      · exact h.fa a ha hb
      · exact h.ta a ha hb
      · exact h.ca a ha hb
  · rintro ⟨⟨⟨nf, nt, ft⟩, nc, c⟩, na, a⟩
    exact ⟨nf, nt, nc, na,
      fun o h1 h2 => ft o h1 o h2 rfl,
      fun o h1 h2 => c o (Or.inl h1) o h2 rfl,
      fun o h1 h2 => a o (Or.inl (Or.inl h1)) o h2 rfl,
      fun o h1 h2 => c o (Or.inr h1) o h2 rfl,
      fun o h1 h2 => a o (Or.inl (Or.inr h1)) o h2 rfl,
      fun o h1 h2 => a o (Or.inr h1) o h2 rfl⟩

theorem mem_allObjs {t : TM} {o : Obj} :
    o ∈ allObjs t ↔ o ∈ t.fromSpace ∨ o ∈ t.toSpace ∨ o ∈ t.collectNursery ∨ o ∈ t.allocNursery := by
  simp [allObjs]

/-- Shape of the sets in each phase (what `LargeObjectSpace::release` `debug_assert`s). -/
def PhaseOk (s : Sys) : Prop :=
  match s.ph with
  | .mutator => s.tm.collectNursery = [] ∧ s.tm.fromSpace = []
  | .marking full => s.tm.allocNursery = [] ∧ (full = false → s.tm.fromSpace = [])
  | .nurserySwept => s.tm.collectNursery = [] ∧ s.tm.allocNursery = []

/-- The invariant of protocol-respecting histories. -/
structure Inv (r : Run) : Prop where
  disj : Disj r.sys.tm
  alive : ∀ o, o ∈ allObjs r.sys.tm ↔ o ∈ r.alive
  phase : PhaseOk r.sys

theorem inv_init : Inv {} := by
  refine ⟨⟨?_, ?_, ?_, ?_, ?_, ?_, ?_, ?_, ?_, ?_⟩, ?_, ?_⟩ <;> simp [allObjs, PhaseOk]

theorem allowed_of_sysStep {s : Sys} {op : Op} {x} (h : sysStep s op = some x) : allowed s op = true := by
  unfold sysStep at h
  split at h
  · cases h
  · simp_all

/-- One step preserves the invariant. -/
theorem inv_step {r r' : Run} {op : Op} (hi : Inv r) (h : runStep r op = some r') : Inv r' := by
  obtain ⟨⟨nf, nt, nc, na, ft, fc, fa, tc, ta, ca⟩, hal, hph⟩ := hi
  unfold runStep at h
  split at h
  · cases h
  · rename_i s' swept hs
    have hall := allowed_of_sysStep hs
    cases h
    unfold sysStep at hs
    simp only [hall, Bool.not_true, Bool.false_eq_true, if_false] at hs
    cases op with
    | add o n =>
      simp only [Option.some.injEq, Prod.mk.injEq] at hs
      obtain ⟨rfl, rfl⟩ := hs
      simp only [allowed, Bool.and_eq_true, Bool.not_eq_true', List.contains_eq_mem,
        decide_eq_false_iff_not, Bool.or_eq_true, beq_iff_eq, Bool.not_eq_eq_eq_not, Bool.not_true] at hall
      obtain ⟨hfresh, hn⟩ := hall
      have hfresh' : ¬ (o ∈ r.sys.tm.fromSpace ∨ o ∈ r.sys.tm.toSpace ∨ o ∈ r.sys.tm.collectNursery
          ∨ o ∈ r.sys.tm.allocNursery) := fun h => hfresh (mem_allObjs.mpr h)
      simp only [not_or] at hfresh'
      obtain ⟨h1, h2, h3, h4⟩ := hfresh'
      cases n with
      | true =>
        have hm : r.sys.ph = .mutator := by simpa using hn
        refine ⟨⟨nf, nt, nc, nodup_sinsert o na, ft, fc, ?_, tc, ?_, ?_⟩, ?_, ?_⟩
        · intro x hx hx'; rcases mem_sinsert.mp hx' with rfl | hx'
          · exact h1 hx
          · exact fa x hx hx'
        · intro x hx hx'; rcases mem_sinsert.mp hx' with rfl | hx'
          · exact h2 hx
          · exact ta x hx hx'
        · intro x hx hx'; rcases mem_sinsert.mp hx' with rfl | hx'
          · exact h3 hx
          · exact ca x hx hx'
        · intro x
          have := hal x
          simp only [mem_allObjs, addToTreadmill, if_true, mem_sinsert, List.mem_cons] at this ⊢
          rw [← this]; constructor
          · rintro (h | h | h | h | h) <;> simp [h]
          · rintro (h | h | h | h | h) <;> simp [h]
        · simp only [PhaseOk, hm, addToTreadmill, if_true] at hph ⊢
          exact hph
      | false =>
        refine ⟨⟨nf, nodup_sinsert o nt, nc, na, ?_, fc, fa, ?_, ?_, ca⟩, ?_, ?_⟩
        · intro x hx hx'; rcases mem_sinsert.mp hx' with rfl | hx'
          · exact h1 hx
          · exact ft x hx hx'
        · intro x hx hx'; rcases mem_sinsert.mp hx with rfl | hx
          · exact h3 hx'
          · exact tc x hx hx'
        · intro x hx hx'; rcases mem_sinsert.mp hx with rfl | hx
          · exact h4 hx'
          · exact ta x hx hx'
        · intro x
          have := hal x
          simp only [mem_allObjs, addToTreadmill, Bool.false_eq_true, if_false, mem_sinsert,
            List.mem_cons] at this ⊢
          rw [← this]; constructor
          · rintro (h | (h | h) | h | h) <;> simp [h]
          · rintro (h | h | h | h | h) <;> simp [h]
        · simp only [PhaseOk, addToTreadmill, Bool.false_eq_true, if_false] at hph ⊢
          exact hph
    | flip full =>
      simp only [Option.some.injEq, Prod.mk.injEq] at hs
      obtain ⟨rfl, rfl⟩ := hs
      have hm : r.sys.ph = .mutator := by simpa [allowed] using hall
      simp only [PhaseOk, hm] at hph
      obtain ⟨hc, hf⟩ := hph
      have hfil : List.filter (fun x => !([] : List Obj).contains x) r.alive = r.alive := by simp
      cases full with
      | true =>
        have e : flip r.sys.tm true = (⟨r.sys.tm.toSpace, [], r.sys.tm.allocNursery, []⟩ : TM) := by simp [flip, hc, hf]
        simp only [e, hfil]
        refine ⟨⟨nt, List.nodup_nil, na, List.nodup_nil, by simp, fun o h1 h2 => ta o h1 h2, by simp,
          by simp, by simp, by simp⟩, ?_, ?_⟩
        · intro x
          have := hal x
          simp only [mem_allObjs, hc, hf, List.not_mem_nil, false_or, or_false] at this ⊢
          exact this
        · simp [PhaseOk]
      | false =>
        have e : flip r.sys.tm false = (⟨[], r.sys.tm.toSpace, r.sys.tm.allocNursery, []⟩ : TM) := by simp [flip, hc, hf]
        simp only [e, hfil]
        refine ⟨⟨List.nodup_nil, nt, na, List.nodup_nil, by simp, by simp, by simp,
          fun o h1 h2 => ta o h1 h2, by simp, by simp⟩, ?_, ?_⟩
        · intro x
          have := hal x
          simp only [mem_allObjs, hc, hf, List.not_mem_nil, false_or, or_false] at this ⊢
          exact this
        · simp [PhaseOk]
    | copy o inN =>
      simp only [allowed, Bool.and_eq_true] at hall
      obtain ⟨hmk, hsrc⟩ := hall
      have hfil : List.filter (fun x => !([] : List Obj).contains x) r.alive = r.alive := by simp
      simp only [hfil]
      cases inN with
      | true =>
        simp only [if_true, List.contains_eq_mem, decide_eq_true_eq] at hsrc
        simp only [copy, if_true, List.contains_eq_mem, hsrc, decide_true, Bool.not_true,
          Bool.and_false, Bool.false_eq_true, if_false, Option.map_some, Option.some.injEq,
          Prod.mk.injEq] at hs
        obtain ⟨rfl, rfl⟩ := hs
        refine ⟨⟨nf, nodup_sinsert o nt, nodup_sremove o nc, na, ?_, ?_, fa, ?_, ?_, ?_⟩, ?_, ?_⟩
        · intro x hx hx'; rcases mem_sinsert.mp hx' with rfl | hx'
          · exact fc x hx hsrc
          · exact ft x hx hx'
        · intro x hx hx'; exact fc x hx (mem_sremove.mp hx').1
        · intro x hx hx'
          obtain ⟨h1, h2⟩ := mem_sremove.mp hx'
          rcases mem_sinsert.mp hx with rfl | hx
          · exact h2 rfl
          · exact tc x hx h1
        · intro x hx hx'; rcases mem_sinsert.mp hx with rfl | hx
          · exact ca x hsrc hx'
          · exact ta x hx hx'
        · intro x hx hx'; exact ca x (mem_sremove.mp hx).1 hx'
        · intro x
          have := hal x
          simp only [mem_allObjs, mem_sinsert, mem_sremove, hfil] at this ⊢
          rw [← this]
          by_cases hxo : x = o
          · subst hxo; simp [hsrc]
          · simp [hxo]
        · revert hph
          simp only [PhaseOk]
          cases hp : r.sys.ph <;> simp_all [Phase.isMarking]
      | false =>
        simp only [Bool.false_eq_true, if_false, List.contains_eq_mem, decide_eq_true_eq] at hsrc
        simp only [copy, Bool.false_eq_true, if_false, List.contains_eq_mem, hsrc, decide_true,
          Bool.not_true, Bool.and_false, Option.map_some, Option.some.injEq, Prod.mk.injEq] at hs
        obtain ⟨rfl, rfl⟩ := hs
        refine ⟨⟨nodup_sremove o nf, nodup_sinsert o nt, nc, na, ?_, ?_, ?_, ?_, ?_, ca⟩, ?_, ?_⟩
        · intro x hx hx'
          obtain ⟨h1, h2⟩ := mem_sremove.mp hx
          rcases mem_sinsert.mp hx' with rfl | hx'
          · exact h2 rfl
          · exact ft x h1 hx'
        · intro x hx hx'; exact fc x (mem_sremove.mp hx).1 hx'
        · intro x hx hx'; exact fa x (mem_sremove.mp hx).1 hx'
        · intro x hx hx'; rcases mem_sinsert.mp hx with rfl | hx
          · exact fc x hsrc hx'
          · exact tc x hx hx'
        · intro x hx hx'; rcases mem_sinsert.mp hx with rfl | hx
          · exact fa x hsrc hx'
          · exact ta x hx hx'
        · intro x
          have := hal x
          simp only [mem_allObjs, mem_sinsert, mem_sremove, hfil] at this ⊢
          rw [← this]
          by_cases hxo : x = o
          · subst hxo; simp [hsrc]
          · simp [hxo]
        · revert hph
          simp only [PhaseOk]
          cases hp : r.sys.ph with
          | mutator => simp [hp, Phase.isMarking] at hmk
          | nurserySwept => simp [hp, Phase.isMarking] at hmk
          | marking full =>
            simp only
            rintro ⟨h1, h2⟩
            refine ⟨h1, fun hf => ?_⟩
            have := h2 hf
            rw [this] at hsrc
            simp at hsrc
    | collectNursery =>
      simp only [collectNursery, Option.some.injEq, Prod.mk.injEq] at hs
      obtain ⟨rfl, rfl⟩ := hs
      have hmk : r.sys.ph.isMarking = true := by simpa [allowed] using hall
      refine ⟨⟨nf, nt, List.nodup_nil, na, ft, ?_, fa, ?_, ta, ?_⟩, ?_, ?_⟩
      · intro o _ h; simp at h
      · intro o _ h; simp at h
      · intro o h; simp at h
      · intro x
        have := hal x
        simp only [mem_allObjs, List.not_mem_nil, false_or, List.mem_filter, Bool.not_eq_eq_eq_not,
          Bool.not_true, List.contains_eq_mem, decide_eq_false_iff_not] at this ⊢
        rw [← this]
        constructor
        · rintro (h | h | h)
          · exact ⟨Or.inl h, fc x h⟩
          · exact ⟨Or.inr (Or.inl h), tc x h⟩
          · exact ⟨Or.inr (Or.inr (Or.inr h)), fun h' => ca x h' h⟩
        · rintro ⟨h | h | h | h, hn⟩
          · exact Or.inl h
          · exact Or.inr (Or.inl h)
          · exact absurd h hn
          · exact Or.inr (Or.inr h)
      · revert hph
        simp only [PhaseOk]
        cases hp : r.sys.ph with
        | mutator => simp [hp, Phase.isMarking] at hmk
        | nurserySwept => simp [hp, Phase.isMarking] at hmk
        | marking full =>
          cases full <;> simp_all
    | collectMature =>
      simp only [collectMature, Option.some.injEq, Prod.mk.injEq] at hs
      obtain ⟨rfl, rfl⟩ := hs
      have hsw : r.sys.ph = .nurserySwept := by simpa [allowed] using hall
      refine ⟨⟨List.nodup_nil, nt, nc, na, ?_, ?_, ?_, tc, ta, ca⟩, ?_, ?_⟩
      · intro o h; simp at h
      · intro o h; simp at h
      · intro o h; simp at h
      · intro x
        have := hal x
        simp only [mem_allObjs, List.not_mem_nil, false_or, List.mem_filter, Bool.not_eq_eq_eq_not,
          Bool.not_true, List.contains_eq_mem, decide_eq_false_iff_not] at this ⊢
        rw [← this]
        constructor
        · rintro (h | h | h)
          · exact ⟨Or.inr (Or.inl h), fun h' => ft x h' h⟩
          · exact ⟨Or.inr (Or.inr (Or.inl h)), fun h' => fc x h' h⟩
          · exact ⟨Or.inr (Or.inr (Or.inr h)), fun h' => fa x h' h⟩
        · rintro ⟨h | h | h | h, hn⟩
          · exact absurd h hn
          · exact Or.inl h
          · exact Or.inr (Or.inl h)
          · exact Or.inr (Or.inr h)
      · simp only [PhaseOk, hsw] at hph ⊢
        exact ⟨hph.1, trivial⟩

theorem inv_run {r r' : Run} (ops : List Op) (hi : Inv r) (h : run r ops = some r') : Inv r' := by
  induction ops generalizing r with
  | nil => simp [run] at h; subst h; exact hi
  | cons op ops ih =>
    simp only [run] at h
    split at h
    · cases h
    · rename_i r1 h1
      exact ih (inv_step hi h1) h

/-! ## C36 theorem 1: every object is in exactly one set -/

/-- **one_set.** After any protocol-respecting history (any length, any objects), every object
that was added and not yet handed back for sweeping occurs exactly once in the four sets taken
together, and no other object occurs at all. -/
theorem one_set (ops : List Op) (r : Run) (h : run {} ops = some r) :
    ∀ o, (allObjs r.sys.tm).count o = if o ∈ r.alive then 1 else 0 := by
  intro o
  have hi := inv_run ops inv_init h
  have hn := (disj_iff_nodup _).mp hi.disj
  rw [hn.count]
  simp [hi.alive o]

/-- The same, spelled out set by set: the sets are duplicate-free and pairwise disjoint, their
union is exactly the alive objects, and the phase shape LOS asserts holds. -/
theorem one_set_structured (ops : List Op) (r : Run) (h : run {} ops = some r) :
    Disj r.sys.tm ∧ (∀ o, o ∈ allObjs r.sys.tm ↔ o ∈ r.alive) ∧ PhaseOk r.sys :=
  let hi := inv_run ops inv_init h
  ⟨hi.disj, hi.alive, hi.phase⟩

/-- The debug assertion in `TreadMill::copy` never fires on a protocol-respecting history: a step
is refused only because the protocol forbids it (`run` uses the debug-build `copy`). -/
theorem protocol_never_panics (s : Sys) (op : Op) (h : allowed s op = true) :
    (sysStep s op).isSome = true := by
  unfold sysStep
  simp only [h, Bool.not_true, Bool.false_eq_true, if_false]
  cases op with
  | copy o inN =>
    simp only [allowed, Bool.and_eq_true] at h
    cases inN <;> simp_all [copy]
  | _ => simp

/-! ## C36 theorem 2: a GC sweeps exactly the unmarked objects of the collected sets -/

/-- What LOS may do between `prepare` and `release`: `copy` (trace) and allocation as live. -/
def isMarkOp : Op → Bool
  | .copy _ _ => true
  | .add _ false => true
  | _ => false

/-- `o` was marked (received a `copy`) during the GC whose marking-phase ops are `g`. -/
def copied (g : List Op) (o : Obj) : Prop := ∃ b, Op.copy o b ∈ g

/-- Effect of any marking phase on the four sets. -/
theorem marking_run (g : List Op) : ∀ (s s' : Sys) (full : Bool), s.ph = .marking full →
    (∀ op ∈ g, isMarkOp op = true) → sysRun s g = some s' →
    s'.ph = .marking full ∧
    (∀ o, o ∈ s'.tm.collectNursery ↔ o ∈ s.tm.collectNursery ∧ Op.copy o true ∉ g) ∧
    (∀ o, o ∈ s'.tm.fromSpace ↔ o ∈ s.tm.fromSpace ∧ Op.copy o false ∉ g) ∧
    (∀ o, o ∈ s.tm.toSpace ∨ copied g o → o ∈ s'.tm.toSpace) ∧
    (∀ o, Op.copy o true ∈ g → o ∈ s.tm.collectNursery) ∧
    (∀ o, Op.copy o false ∈ g → o ∈ s.tm.fromSpace) ∧
    s'.tm.allocNursery = s.tm.allocNursery ∧
    (s.tm.collectNursery.Nodup → s'.tm.collectNursery.Nodup) ∧
    (s.tm.fromSpace.Nodup → s'.tm.fromSpace.Nodup) := by
  induction g with
  | nil =>
    intro s s' full hph _ hrun
    simp only [sysRun, Option.some.injEq] at hrun
    subst hrun
    simp [hph, copied]
  | cons op g ih =>
    intro s s' full hph hops hrun
    simp only [sysRun] at hrun
    split at hrun
    · cases hrun
    · rename_i s1 sw hstep
      have hall := allowed_of_sysStep hstep
      have hop := hops op (List.mem_cons_self)
      have hg : ∀ op ∈ g, isMarkOp op = true := fun x hx => hops x (List.mem_cons_of_mem _ hx)
      unfold sysStep at hstep
      simp only [hall, Bool.not_true, Bool.false_eq_true, if_false] at hstep
      cases op with
      | flip f => simp [isMarkOp] at hop
      | collectNursery => simp [isMarkOp] at hop
      | collectMature => simp [isMarkOp] at hop
      | add o n =>
        cases n with
        | true => simp [isMarkOp] at hop
        | false =>
          simp only [Option.some.injEq, Prod.mk.injEq] at hstep
          obtain ⟨rfl, rfl⟩ := hstep
          obtain ⟨h1, h2, h3, h4, h5, h6, h7, h8, h9⟩ :=
            ih { s with tm := addToTreadmill s.tm o false } s' full hph hg hrun
          simp only [addToTreadmill, Bool.false_eq_true, if_false] at h2 h3 h4 h5 h6 h7 h8 h9
          refine ⟨h1, ?_, ?_, ?_, ?_, ?_, h7, h8, h9⟩
          · intro x; rw [h2 x]; simp
          · intro x; rw [h3 x]; simp
          · rintro x (hx | ⟨b, hb⟩)
            · exact h4 x (Or.inl (mem_sinsert.mpr (Or.inr hx)))
            · simp only [List.mem_cons, reduceCtorEq, false_or] at hb
              exact h4 x (Or.inr ⟨b, hb⟩)
          · intro x hx
            simp only [List.mem_cons, reduceCtorEq, false_or] at hx
            exact h5 x hx
          · intro x hx
            simp only [List.mem_cons, reduceCtorEq, false_or] at hx
            exact h6 x hx
      | copy o inN =>
        simp only [allowed, Bool.and_eq_true] at hall
        obtain ⟨_, hsrc⟩ := hall
        cases inN with
        | true =>
          simp only [if_true, List.contains_eq_mem, decide_eq_true_eq] at hsrc
          simp only [copy, if_true, List.contains_eq_mem, hsrc, decide_true, Bool.not_true,
            Bool.and_false, Bool.false_eq_true, if_false, Option.map_some, Option.some.injEq,
            Prod.mk.injEq] at hstep
          obtain ⟨rfl, rfl⟩ := hstep
          obtain ⟨h1, h2, h3, h4, h5, h6, h7, h8, h9⟩ := (fun hp => ih _ s' full hp hg hrun) hph
          simp only at h2 h3 h4 h5 h6 h7 h8 h9
          refine ⟨h1, ?_, ?_, ?_, ?_, ?_, h7, fun hn => h8 (nodup_sremove o hn), h9⟩
          · intro x; rw [h2 x, mem_sremove]
            simp only [List.mem_cons, Op.copy.injEq, and_true, not_or]
            exact ⟨fun ⟨⟨a, b⟩, c⟩ => ⟨a, b, c⟩, fun ⟨a, b, c⟩ => ⟨⟨a, b⟩, c⟩⟩
          · intro x; rw [h3 x]; simp
          · rintro x (hx | ⟨b, hb⟩)
            · exact h4 x (Or.inl (mem_sinsert.mpr (Or.inr hx)))
            · simp only [List.mem_cons, Op.copy.injEq] at hb
              rcases hb with ⟨rfl, _⟩ | hb
              · exact h4 x (Or.inl (mem_sinsert.mpr (Or.inl rfl)))
              · exact h4 x (Or.inr ⟨b, hb⟩)
          · intro x hx
            simp only [List.mem_cons, Op.copy.injEq, and_true] at hx
            rcases hx with rfl | hx
            · exact hsrc
            · exact (mem_sremove.mp (h5 x hx)).1
          · intro x hx
            simp only [List.mem_cons, Op.copy.injEq, Bool.false_eq_true, and_false, false_or] at hx
            exact h6 x hx
        | false =>
          simp only [Bool.false_eq_true, if_false, List.contains_eq_mem, decide_eq_true_eq] at hsrc
          simp only [copy, Bool.false_eq_true, if_false, List.contains_eq_mem, hsrc, decide_true,
            Bool.not_true, Bool.and_false, Option.map_some, Option.some.injEq, Prod.mk.injEq] at hstep
          obtain ⟨rfl, rfl⟩ := hstep
          obtain ⟨h1, h2, h3, h4, h5, h6, h7, h8, h9⟩ := (fun hp => ih _ s' full hp hg hrun) hph
          simp only at h2 h3 h4 h5 h6 h7 h8 h9
          refine ⟨h1, ?_, ?_, ?_, ?_, ?_, h7, h8, fun hn => h9 (nodup_sremove o hn)⟩
          · intro x; rw [h2 x]; simp
          · intro x; rw [h3 x, mem_sremove]
            simp only [List.mem_cons, Op.copy.injEq, and_true, not_or]
            exact ⟨fun ⟨⟨a, b⟩, c⟩ => ⟨a, b, c⟩, fun ⟨a, b, c⟩ => ⟨⟨a, b⟩, c⟩⟩
          · rintro x (hx | ⟨b, hb⟩)
            · exact h4 x (Or.inl (mem_sinsert.mpr (Or.inr hx)))
            · simp only [List.mem_cons, Op.copy.injEq] at hb
              rcases hb with ⟨rfl, _⟩ | hb
              · exact h4 x (Or.inl (mem_sinsert.mpr (Or.inl rfl)))
              · exact h4 x (Or.inr ⟨b, hb⟩)
          · intro x hx
            simp only [List.mem_cons, Op.copy.injEq, Bool.true_eq_false, and_false, false_or] at hx
            exact h5 x hx
          · intro x hx
            simp only [List.mem_cons, Op.copy.injEq, and_true] at hx
            rcases hx with rfl | hx
            · exact hsrc
            · exact (mem_sremove.mp (h6 x hx)).1

/-- The outcome of one complete GC, as seen from the mutator-phase state before it. -/
structure GcOutcome (t0 : TM) (full : Bool) (g : List Op) (sweptNursery sweptMature : List Obj)
    (final : Sys) : Prop where
  /-- each swept object is handed back once -/
  nursery_once : sweptNursery.Nodup
  mature_once : sweptMature.Nodup
  /-- the nursery sweep returns exactly the young objects that were not marked -/
  nursery_exact : ∀ o, o ∈ sweptNursery ↔ o ∈ t0.allocNursery ∧ ¬ copied g o
  /-- the mature sweep (full GC only) returns exactly the old objects that were not marked -/
  mature_exact : ∀ o, o ∈ sweptMature ↔ full = true ∧ o ∈ t0.toSpace ∧ ¬ copied g o
  /-- every marked object is kept: it is in `to_space` afterwards and was not swept -/
  marked_kept : ∀ o, copied g o → o ∈ final.tm.toSpace ∧ o ∉ sweptNursery ∧ o ∉ sweptMature
  /-- the GC ends in mutator phase -/
  back_to_mutator : final.ph = .mutator

/-- Run `release(full)`: `collect_nursery`, then `collect_mature` iff `full`. -/
def release (s : Sys) (full : Bool) : Option (Sys × List Obj × List Obj) :=
  match sysStep s .collectNursery with
  | none => none
  | some (s2, r1) =>
    if full then
      match sysStep s2 .collectMature with
      | none => none
      | some (s3, r2) => some (s3, r1, r2)
    else some (s2, r1, [])

/-- **sweep_exact.** Take any protocol-respecting history `h` ending in mutator phase, then a GC:
`flip full`, any marking phase `g` (copies and as-live allocations in any order — any
interleaving of GC workers, since everything is under one mutex), then `release`.  The release
succeeds, hands back exactly the unmarked objects of the collected sets (the allocation nursery,
and for a full GC also the old to-space), each once, and keeps every marked object. -/
theorem sweep_exact (h : List Op) (r0 : Run) (full : Bool) (g : List Op) (s1 : Sys)
    (hreach : run {} h = some r0) (hmut : r0.sys.ph = .mutator)
    (hg : ∀ op ∈ g, isMarkOp op = true)
    (hrun : sysRun r0.sys (.flip full :: g) = some s1) :
    ∃ final r1 r2, release s1 full = some (final, r1, r2) ∧
      GcOutcome r0.sys.tm full g r1 r2 final := by
  have hi := inv_run h inv_init hreach
  obtain ⟨⟨nf, nt, nc, na, ft, fc, fa, tc, ta, ca⟩, _, hph⟩ := hi
  simp only [PhaseOk, hmut] at hph
  obtain ⟨hc, hf⟩ := hph
  simp only [sysRun] at hrun
  have hfl : sysStep r0.sys (.flip full) = some (⟨.marking full, flip r0.sys.tm full⟩, []) := by
    simp [sysStep, allowed, hmut]
  rw [hfl] at hrun
  simp only at hrun
  obtain ⟨h1, h2, h3, h4, h5, h6, h7, h8, h9⟩ :=
    marking_run g ⟨.marking full, flip r0.sys.tm full⟩ s1 full rfl hg hrun
  -- a copy's flag says which set the object was in; the two are disjoint
  have hcn : ∀ o, o ∈ r0.sys.tm.allocNursery → (¬ copied g o ↔ Op.copy o true ∉ g) := by
    intro o ho
    constructor
    · intro hn hc'; exact hn ⟨true, hc'⟩
    · rintro hn ⟨b, hb⟩
      cases b with
      | true => exact hn hb
      | false =>
        have := h6 o hb
        cases full with
        | true =>
          simp only [flip, if_true] at this
          exact ta o this ho
        | false =>
          simp only [flip, Bool.false_eq_true, if_false, hf] at this
          simp at this
  have hfs : ∀ o, o ∈ r0.sys.tm.toSpace → (¬ copied g o ↔ Op.copy o false ∉ g) := by
    intro o ho
    constructor
    · intro hn hc'; exact hn ⟨false, hc'⟩
    · rintro hn ⟨b, hb⟩
      cases b with
      | false => exact hn hb
      | true =>
        have := h5 o hb
        have hcn' : (flip r0.sys.tm full).collectNursery = r0.sys.tm.allocNursery := by
          cases full <;> simp [flip]
        rw [hcn'] at this
        exact ta o ho this
  have hmk : s1.ph.isMarking = true := by simp [h1, Phase.isMarking]
  cases full with
  | false =>
    have hflip : flip r0.sys.tm false = ⟨[], r0.sys.tm.toSpace, r0.sys.tm.allocNursery, []⟩ := by
      simp [flip, hc, hf]
    rw [hflip] at h2 h3 h4 h5 h6 h7 h8 h9
    simp only at h2 h3 h4 h5 h6 h7 h8 h9
    refine ⟨⟨.mutator, (collectNursery s1.tm).2⟩, s1.tm.collectNursery, [], ?_, ?_⟩
    · simp [release, sysStep, allowed, collectNursery, h1, Phase.isMarking]
    · refine ⟨h8 na, List.nodup_nil, ?_, ?_, ?_, rfl⟩
      · intro o; rw [h2 o]
        constructor
        · rintro ⟨a, b⟩; exact ⟨a, (hcn o a).mpr b⟩
        · rintro ⟨a, b⟩; exact ⟨a, (hcn o a).mp b⟩
      · intro o; simp
      · intro o hco
        refine ⟨h4 o (Or.inr hco), ?_, by simp⟩
        rw [h2 o]
        rintro ⟨a, b⟩
        exact (hcn o a).mpr b hco
  | true =>
    have hflip : flip r0.sys.tm true = ⟨r0.sys.tm.toSpace, [], r0.sys.tm.allocNursery, []⟩ := by
      simp [flip, hc, hf]
    rw [hflip] at h2 h3 h4 h5 h6 h7 h8 h9
    simp only at h2 h3 h4 h5 h6 h7 h8 h9
    refine ⟨⟨.mutator, (collectMature (collectNursery s1.tm).2).2⟩, s1.tm.collectNursery,
      s1.tm.fromSpace, ?_, ?_⟩
    · simp [release, sysStep, allowed, collectNursery, collectMature, h1, Phase.isMarking]
    · refine ⟨h8 na, h9 nt, ?_, ?_, ?_, rfl⟩
      · intro o; rw [h2 o]
        constructor
        · rintro ⟨a, b⟩; exact ⟨a, (hcn o a).mpr b⟩
        · rintro ⟨a, b⟩; exact ⟨a, (hcn o a).mp b⟩
      · intro o; rw [h3 o]
        constructor
        · rintro ⟨a, b⟩; exact ⟨rfl, a, (hfs o a).mpr b⟩
        · rintro ⟨_, a, b⟩; exact ⟨a, (hfs o a).mp b⟩
      · intro o hco
        refine ⟨?_, ?_, ?_⟩
        · simpa [collectNursery, collectMature] using h4 o (Or.inr hco)
        · rw [h2 o]; rintro ⟨a, b⟩; exact (hcn o a).mpr b hco
        · rw [h3 o]; rintro ⟨a, b⟩; exact (hfs o a).mpr b hco

/-! ## C36 theorem 3: a nursery GC keeps every mature object -/

/-- **nursery_gc_keeps_mature.** In a nursery GC (`flip false`) nothing is handed back from the
mature sets: `collect_mature` is not even called (`release` returns no mature sweep), every object
that was in `to_space` before the GC is still there afterwards and is not among the swept objects,
and the from-space stays empty. -/
theorem nursery_gc_keeps_mature (h : List Op) (r0 : Run) (g : List Op) (s1 : Sys)
    (hreach : run {} h = some r0) (hmut : r0.sys.ph = .mutator)
    (hg : ∀ op ∈ g, isMarkOp op = true)
    (hrun : sysRun r0.sys (.flip false :: g) = some s1) :
    ∃ final r1, release s1 false = some (final, r1, []) ∧
      (∀ o, o ∈ r0.sys.tm.toSpace → o ∈ final.tm.toSpace ∧ o ∉ r1) ∧
      final.tm.fromSpace = [] ∧ allowed final .collectMature = false := by
  have hi := inv_run h inv_init hreach
  obtain ⟨⟨nf, nt, nc, na, ft, fc, fa, tc, ta, ca⟩, _, hph⟩ := hi
  simp only [PhaseOk, hmut] at hph
  obtain ⟨hc, hf⟩ := hph
  simp only [sysRun] at hrun
  have hfl : sysStep r0.sys (.flip false) = some (⟨.marking false, flip r0.sys.tm false⟩, []) := by
    simp [sysStep, allowed, hmut]
  rw [hfl] at hrun
  simp only at hrun
  obtain ⟨h1, h2, h3, h4, h5, h6, h7, h8, h9⟩ :=
    marking_run g ⟨.marking false, flip r0.sys.tm false⟩ s1 false rfl hg hrun
  have hflip : flip r0.sys.tm false = ⟨[], r0.sys.tm.toSpace, r0.sys.tm.allocNursery, []⟩ := by
    simp [flip, hc, hf]
  rw [hflip] at h2 h3 h4 h5 h6 h7 h8 h9
  simp only at h2 h3 h4 h5 h6 h7 h8 h9
  have hmk : s1.ph.isMarking = true := by simp [h1, Phase.isMarking]
  refine ⟨⟨.mutator, (collectNursery s1.tm).2⟩, s1.tm.collectNursery, ?_, ?_, ?_, ?_⟩
  · simp [release, sysStep, allowed, collectNursery, h1, Phase.isMarking]
  · intro o ho
    refine ⟨h4 o (Or.inl ho), ?_⟩
    rw [h2 o]
    rintro ⟨a, _⟩
    exact ta o ho a
  · have : ∀ o, o ∉ s1.tm.fromSpace := fun o ho => by simpa using (h3 o).mp ho
    simpa [collectNursery] using List.eq_nil_iff_forall_not_mem.mpr this
  · simp [allowed]

/-! ## the hypotheses are satisfiable: a concrete full GC and a concrete nursery GC -/

/-- objects 1,2 young, 3 allocated as live; nursery GC marks 1; then 4 young; full GC marks 1 and 4
(3 and 2 die); both sweeps return what the theorems say. -/
example :
    let h := [Op.add 1 true, .add 2 true, .add 3 false, .flip false, .copy 1 true, .collectNursery,
              .add 4 true]
    ∃ r0, run {} h = some r0 ∧ r0.sys.ph = .mutator ∧
      r0.sys.tm = ⟨[], [1, 3], [], [4]⟩ ∧ r0.alive = [4, 3, 1] ∧
      ∃ s1, sysRun r0.sys [.flip true, .copy 4 true, .add 9 false, .copy 1 false] = some s1 ∧
        release s1 true = some (⟨.mutator, ⟨[], [1, 9, 4], [], []⟩⟩, [], [3]) := by
  decide

/-- histories that leave the protocol are rejected by `run` (wrong `copy` flag; re-adding a live
object); a full GC without marks sweeps everything. -/
example : run {} [Op.add 1 true, .flip false, .copy 1 false] = none ∧
    run {} [Op.add 1 true, .add 1 false] = none ∧
    (run {} [Op.add 1 true, .flip true, .collectNursery, .collectMature]).map (·.alive) = some [] := by
  decide

end Mmtk.Treadmill

/-! # Part 2 — the REAL `LargeObjectSpace` protocol on top of the treadmill

The theorems above assume the LOS protocol at the level of treadmill calls (`copy(o, flag)` with
the right flag, at most once per object and GC).  This part *derives* that discipline from the
code of `LargeObjectSpace` itself (`Mmtk.LOS`, Model/LOS.lean: `initialize_object_metadata`,
`prepare`, `trace_object` with `is_in_nursery` / `test_and_mark`'s masks, `release`): histories are
now sequences of `alloc` / `set_allocate_as_live` / `prepare f` / `trace o` (any live object, any
number of times, any order) / `release f`.
-/
namespace Mmtk.LOS
open Mmtk.Treadmill

/-! ## the mark / nursery bit arithmetic of `is_in_nursery` and `test_and_mark` -/

theorem ms_cases {ms : Nat} (h : ms ≤ 1) : ms = 0 ∨ ms = 1 := by omega

/-- an object of the collection nursery (bits `v | NURSERY`, `v` the mark value it was allocated /
last marked with): `is_in_nursery`, and `test_and_mark` marks it in either kind of GC unless
(full GC only) its mark bit already has the new value. -/
theorem bits_young (ms : Nat) (h : ms ≤ 1) :
    ((ms ||| 2) &&& 2 == 2) = true ∧ ((ms ||| 2) &&& 3 == ms) = false ∧
    (((1 - ms) ||| 2) &&& 2 == 2) = true ∧ (((1 - ms) ||| 2) &&& 1 == ms) = false ∧
    ((ms ||| 2) &&& 252) ||| ms = ms ∧ (((1 - ms) ||| 2) &&& 252) ||| ms = ms ∧
    ((ms ||| 2) &&& 1 == ms) = true := by
  rcases ms_cases h with rfl | rfl <;> decide

/-- a mature object (bits = a bare mark value). -/
theorem bits_old (ms : Nat) (h : ms ≤ 1) :
    (ms &&& 2 == 2) = false ∧ ((1 - ms) &&& 2 == 2) = false ∧ (ms &&& 1 == ms) = true ∧
    (ms &&& 3 == ms) = true ∧ ((1 - ms) &&& 1 == ms) = false ∧ ((1 - ms) &&& 252) ||| ms = ms ∧
    1 - ms ≤ 1 ∧ 1 - (1 - ms) = ms := by
  rcases ms_cases h with rfl | rfl <;> decide

/-! ## the invariant of protocol-respecting histories -/

/-- Mark value carried by the not-yet-traced objects of the collection nursery. -/
def youngMark (ph : Phase) (ms : Nat) : Nat :=
  match ph with
  | .gc true => 1 - ms
  | _ => ms

structure Inv (r : Run) : Prop where
  disj : Disj r.sys.los.tm
  alive : ∀ o, o ∈ allObjs r.sys.los.tm ↔ o ∈ r.alive
  aliveNodup : r.alive.Nodup
  ms : r.sys.los.markState ≤ 1
  bA : ∀ o, o ∈ r.sys.los.tm.allocNursery → r.sys.los.bits o = r.sys.los.markState ||| 2
  bT : ∀ o, o ∈ r.sys.los.tm.toSpace → r.sys.los.bits o = r.sys.los.markState
  bC : ∀ o, o ∈ r.sys.los.tm.collectNursery →
    r.sys.los.bits o = youngMark r.sys.ph r.sys.los.markState ||| 2
  bF : ∀ o, o ∈ r.sys.los.tm.fromSpace → r.sys.los.bits o = 1 - r.sys.los.markState
  mutC : r.sys.ph = .mutator → r.sys.los.tm.collectNursery = []
  mutF : r.sys.ph = .mutator → r.sys.los.tm.fromSpace = []
  gcA : ∀ f, r.sys.ph = .gc f → r.sys.los.tm.allocNursery = []
  gcF : r.sys.ph = .gc false → r.sys.los.tm.fromSpace = []
  gcNg : ∀ f, r.sys.ph = .gc f → r.sys.los.inNurseryGc = !f
  gC : ∀ f, r.sys.ph = .gc f → ∀ o, o ∈ r.sys.los.tm.collectNursery ↔ o ∈ r.a0 ∧ o ∉ r.traced
  gF : ∀ f, r.sys.ph = .gc f → ∀ o, o ∈ r.sys.los.tm.fromSpace ↔ f = true ∧ o ∈ r.t0 ∧ o ∉ r.traced
  gT : ∀ f, r.sys.ph = .gc f → ∀ o, o ∈ r.sys.los.tm.toSpace ↔
    (o ∈ r.t0 ∧ (f = false ∨ o ∈ r.traced)) ∨ (o ∈ r.a0 ∧ o ∈ r.traced) ∨ o ∈ r.born
  gTr : ∀ f, r.sys.ph = .gc f → ∀ o, o ∈ r.traced → o ∈ r.sys.los.tm.toSpace
  gEn : ∀ f, r.sys.ph = .gc f → r.enq.Nodup
  gE : ∀ f, r.sys.ph = .gc f → ∀ o, o ∈ r.enq ↔ o ∈ r.traced ∧ (o ∈ r.a0 ∨ (f = true ∧ o ∈ r.t0))
  cnt : ∀ o, r.allocAll.count o = r.sweptAll.count o + (if o ∈ r.alive then 1 else 0)

theorem inv_init : Inv {} := by
  refine ⟨⟨?_, ?_, ?_, ?_, ?_, ?_, ?_, ?_, ?_, ?_⟩, ?_, ?_, ?_, ?_, ?_, ?_, ?_, ?_, ?_, ?_, ?_, ?_, ?_,
    ?_, ?_, ?_, ?_, ?_, ?_⟩ <;> simp [allObjs]

/-! ### the treadmill operations keep the four sets duplicate-free and disjoint -/

theorem disj_add {t : TM} (h : Disj t) {o : Obj} (ho : o ∉ allObjs t) (n : Bool) :
    Disj (addToTreadmill t o n) := by
  obtain ⟨nf, nt, nc, na, ft, fc, fa, tc, ta, ca⟩ := h
  simp only [mem_allObjs, not_or] at ho
  obtain ⟨h1, h2, h3, h4⟩ := ho
  cases n
  · refine ⟨nf, nodup_sinsert o nt, nc, na, ?_, fc, fa, ?_, ?_, ca⟩ <;>
      simp only [addToTreadmill, Bool.false_eq_true, if_false, mem_sinsert] <;> grind
  · refine ⟨nf, nt, nc, nodup_sinsert o na, ft, fc, ?_, tc, ?_, ?_⟩ <;>
      simp only [addToTreadmill, if_true, mem_sinsert] <;> grind

theorem disj_flip {t : TM} (h : Disj t) (full : Bool) : Disj (Treadmill.flip t full) := by
  obtain ⟨nf, nt, nc, na, ft, fc, fa, tc, ta, ca⟩ := h
  cases full
  · refine ⟨nf, nt, na, nc, ft, fa, fc, ta, tc, ?_⟩ <;> simp only [Treadmill.flip, Bool.false_eq_true, if_false]
    grind
  · refine ⟨nt, nf, na, nc, ?_, ta, tc, fa, fc, ?_⟩ <;> simp only [Treadmill.flip, if_true] <;> grind

theorem disj_copyC {t : TM} (h : Disj t) {o : Obj} (ho : o ∈ t.collectNursery) :
    Disj { t with collectNursery := sremove t.collectNursery o, toSpace := sinsert t.toSpace o } := by
  obtain ⟨nf, nt, nc, na, ft, fc, fa, tc, ta, ca⟩ := h
  refine ⟨nf, nodup_sinsert o nt, nodup_sremove o nc, na, ?_, ?_, fa, ?_, ?_, ?_⟩ <;>
    simp only [mem_sinsert, mem_sremove] <;> grind

theorem disj_copyF {t : TM} (h : Disj t) {o : Obj} (ho : o ∈ t.fromSpace) :
    Disj { t with fromSpace := sremove t.fromSpace o, toSpace := sinsert t.toSpace o } := by
  obtain ⟨nf, nt, nc, na, ft, fc, fa, tc, ta, ca⟩ := h
  refine ⟨nodup_sremove o nf, nodup_sinsert o nt, nc, na, ?_, ?_, ?_, ?_, ?_, ca⟩ <;>
    simp only [mem_sinsert, mem_sremove] <;> grind

/-! ### what `trace_object` does to an object of each set (this is where the masks matter) -/

/-- An untraced object of the collection nursery: marked, nursery bit cleared, moved to the
to-space by `copy(object, true)`, enqueued. -/
theorem trace_young {r : Run} (hi : Inv r) {f : Bool} (hp : r.sys.ph = .gc f) {o : Obj}
    (ho : o ∈ r.sys.los.tm.collectNursery) :
    traceObject true r.sys.los o = some (true,
      { r.sys.los with
        bits := setBits r.sys.los.bits o r.sys.los.markState,
        tm := { r.sys.los.tm with collectNursery := sremove r.sys.los.tm.collectNursery o,
                                   toSpace := sinsert r.sys.los.tm.toSpace o } }) := by
  have hb := hi.bC o ho
  have hng := hi.gcNg f hp
  have hc : r.sys.los.tm.collectNursery.contains o = true := by simpa using ho
  cases f <;> simp only [youngMark, hp] at hb <;> rcases ms_cases hi.ms with h0 | h0 <;>
    simp [traceObject, isInNursery, testAndMark, hb, hng, h0, NURSERY_BIT, LOS_BIT_MASK, MARK_BIT,
      NOT_LOS_BIT_MASK, copy, ho]

/-- An untraced object of the from-space (full GC): marked, moved by `copy(object, false)`,
enqueued. -/
theorem trace_old {r : Run} (hi : Inv r) (hp : r.sys.ph = .gc true) {o : Obj}
    (ho : o ∈ r.sys.los.tm.fromSpace) :
    traceObject true r.sys.los o = some (true,
      { r.sys.los with
        bits := setBits r.sys.los.bits o r.sys.los.markState,
        tm := { r.sys.los.tm with fromSpace := sremove r.sys.los.tm.fromSpace o,
                                   toSpace := sinsert r.sys.los.tm.toSpace o } }) := by
  have hb := hi.bF o ho
  have hng := hi.gcNg true hp
  have hc : r.sys.los.tm.fromSpace.contains o = true := by simpa using ho
  rcases ms_cases hi.ms with h0 | h0 <;>
    simp [traceObject, isInNursery, testAndMark, hb, hng, h0, NURSERY_BIT, LOS_BIT_MASK, MARK_BIT,
      NOT_LOS_BIT_MASK, copy, ho]

/-- An object of the to-space (mature in a nursery GC, already traced, or allocated as live):
nothing happens, nothing is enqueued. -/
theorem trace_kept {r : Run} (hi : Inv r) {f : Bool} (hp : r.sys.ph = .gc f) {o : Obj}
    (ho : o ∈ r.sys.los.tm.toSpace) :
    traceObject true r.sys.los o = some (false, r.sys.los) := by
  have hb := hi.bT o ho
  have hng := hi.gcNg f hp
  cases f <;> rcases ms_cases hi.ms with h0 | h0 <;>
    simp [traceObject, isInNursery, testAndMark, hb, hng, h0, NURSERY_BIT, LOS_BIT_MASK, MARK_BIT]

theorem mem_allObjs_add {t : TM} {o x : Obj} {n : Bool} :
    x ∈ allObjs (addToTreadmill t o n) ↔ x = o ∨ x ∈ allObjs t := by
  cases n <;> simp [addToTreadmill, mem_allObjs, mem_sinsert] <;> grind

theorem setBits_same (b : Obj → Nat) (o : Obj) (v : Nat) : setBits b o v o = v := by simp [setBits]
theorem setBits_other (b : Obj → Nat) {o x : Obj} (v : Nat) (h : x ≠ o) : setBits b o v x = b x := by
  simp [setBits, h]

/-- `alloc` keeps the invariant. -/
theorem inv_alloc {r : Run} (hi : Inv r) {o : Obj} (hf : o ∉ allObjs r.sys.los.tm)
    (hp : r.sys.ph = .mutator ∨ r.sys.los.allocateAsLive = true) :
    Inv { r with sys := { r.sys with los := alloc r.sys.los o }, alive := o :: r.alive,
                 allocAll := o :: r.allocAll, born := o :: r.born } := by
  have hfa : o ∉ r.alive := fun h => hf ((hi.alive o).mpr h)
  have hd := disj_add hi.disj hf (!r.sys.los.allocateAsLive)
  obtain ⟨-, hal, hnd, hms, bA, bT, bC, bF, mutC, mutF, gcA, gcF, gcNg, gC, gF, gT, gTr, gEn, gE, cnt⟩ := hi
  simp only [mem_allObjs, not_or] at hf
  obtain ⟨f1, f2, f3, f4⟩ := hf
  refine ⟨hd, ?_, ?_, hms, ?_, ?_, ?_, ?_, ?_, ?_, ?_, ?_, ?_, ?_, ?_, ?_, ?_, ?_, ?_, ?_⟩
  · intro x; simp only [alloc, mem_allObjs_add, List.mem_cons, hal]
  · exact List.nodup_cons.mpr ⟨hfa, hnd⟩
  · intro x hx
    cases hl : r.sys.los.allocateAsLive <;>
      simp only [alloc, hl, addToTreadmill, Bool.not_false, Bool.not_true, if_true, Bool.false_eq_true,
        if_false, mem_sinsert, NURSERY_BIT, setBits] at hx ⊢ <;> grind
  · intro x hx
    cases hl : r.sys.los.allocateAsLive <;>
      simp only [alloc, hl, addToTreadmill, Bool.not_false, Bool.not_true, if_true, Bool.false_eq_true,
        if_false, mem_sinsert, NURSERY_BIT, setBits] at hx ⊢ <;> grind
  · intro x hx
    cases hl : r.sys.los.allocateAsLive <;>
      simp only [alloc, hl, addToTreadmill, Bool.not_false, Bool.not_true, if_true, Bool.false_eq_true,
        if_false, mem_sinsert, NURSERY_BIT, setBits] at hx ⊢ <;> grind
  · intro x hx
    cases hl : r.sys.los.allocateAsLive <;>
      simp only [alloc, hl, addToTreadmill, Bool.not_false, Bool.not_true, if_true, Bool.false_eq_true,
        if_false, mem_sinsert, NURSERY_BIT, setBits] at hx ⊢ <;> grind
  · intro hm
    cases hl : r.sys.los.allocateAsLive <;>
      simp only [alloc, hl, addToTreadmill, Bool.not_false, Bool.not_true, if_true, Bool.false_eq_true,
        if_false] <;> exact mutC hm
  · intro hm
    cases hl : r.sys.los.allocateAsLive <;>
      simp only [alloc, hl, addToTreadmill, Bool.not_false, Bool.not_true, if_true, Bool.false_eq_true,
        if_false] <;> exact mutF hm
  · intro f hg
    have hl : r.sys.los.allocateAsLive = true := by
      rcases hp with h | h
      · simp only at hg; rw [h] at hg; cases hg
      · exact h
    simp only [alloc, hl, addToTreadmill, Bool.not_true, Bool.false_eq_true, if_false]
    exact gcA f hg
  · intro hg
    cases hl : r.sys.los.allocateAsLive <;>
      simp only [alloc, hl, addToTreadmill, Bool.not_false, Bool.not_true, if_true, Bool.false_eq_true,
        if_false] <;> exact gcF hg
  · intro f hg; exact gcNg f hg
  · intro f hg x
    cases hl : r.sys.los.allocateAsLive <;>
      simp only [alloc, hl, addToTreadmill, Bool.not_false, Bool.not_true, if_true, Bool.false_eq_true,
        if_false] <;> exact gC f hg x
  · intro f hg x
    cases hl : r.sys.los.allocateAsLive <;>
      simp only [alloc, hl, addToTreadmill, Bool.not_false, Bool.not_true, if_true, Bool.false_eq_true,
        if_false] <;> exact gF f hg x
  · intro f hg x
    have hl : r.sys.los.allocateAsLive = true := by
      rcases hp with h | h
      · simp only at hg; rw [h] at hg; cases hg
      · exact h
    have := gT f hg x
    simp only [alloc, hl, addToTreadmill, Bool.not_true, Bool.false_eq_true, if_false, mem_sinsert,
      List.mem_cons]
    simp only at hg
    grind
  · intro f hg x hx
    have := gTr f hg x hx
    cases hl : r.sys.los.allocateAsLive <;>
      simp only [alloc, hl, addToTreadmill, Bool.not_false, Bool.not_true, if_true, Bool.false_eq_true,
        if_false, mem_sinsert]
    · exact this
    · exact Or.inr this
  · intro f hg; exact gEn f hg
  · intro f hg x; exact gE f hg x
  · intro x
    have := cnt x
    simp only [List.count_cons, List.mem_cons]
    by_cases hx : x = o
    · subst hx; simp [hfa] at this ⊢; omega
    · have h2 : (o == x) = false := by simpa using fun h => hx h.symm
      simp [hx, h2] at this ⊢; omega

/-- `set_allocate_as_live` keeps the invariant. -/
theorem inv_setLive {r : Run} (hi : Inv r) (b : Bool) :
    Inv { r with sys := { r.sys with los := setAllocateAsLive r.sys.los b } } := by
  obtain ⟨h1, h2, h3, h4, h5, h6, h7, h8, h9, h10, h11, h12, h13, h14, h15, h16, h17, h18, h19, h20⟩ := hi
  exact ⟨h1, h2, h3, h4, h5, h6, h7, h8, h9, h10, h11, h12, h13, h14, h15, h16, h17, h18, h19, h20⟩

theorem mem_allObjs_flip {t : TM} {x : Obj} {full : Bool} :
    x ∈ allObjs (Treadmill.flip t full) ↔ x ∈ allObjs t := by
  cases full <;> simp [Treadmill.flip, mem_allObjs] <;> grind

/-- `prepare` keeps the invariant (and starts the bookkeeping of the collection). -/
theorem inv_prepare {r : Run} (hi : Inv r) (hm : r.sys.ph = .mutator) (full : Bool) :
    Inv { r with sys := { ph := .gc full, los := prepare r.sys.los full },
                 a0 := r.sys.los.tm.allocNursery, t0 := r.sys.los.tm.toSpace,
                 traced := [], enq := [], born := [] } := by
  have hd := disj_flip hi.disj full
  obtain ⟨-, hal, hnd, hms, bA, bT, bC, bF, mutC, mutF, gcA, gcF, gcNg, gC, gF, gT, gTr, gEn, gE, cnt⟩ := hi
  have hC := mutC hm
  have hF := mutF hm
  obtain ⟨-, -, -, -, -, -, o7, o8⟩ := bits_old _ hms
  refine ⟨hd, ?_, hnd, ?_, ?_, ?_, ?_, ?_, ?_, ?_, ?_, ?_, ?_, ?_, ?_, ?_, ?_, ?_, ?_, cnt⟩
  · intro x; simp only [prepare, mem_allObjs_flip, hal]
  · cases full <;> simp [prepare, MARK_BIT, hms, o7]
  · intro x hx; cases full <;> simp [prepare, Treadmill.flip, hC] at hx
  · intro x hx
    cases full
    · simp only [prepare, Treadmill.flip, Bool.false_eq_true, if_false] at hx ⊢; exact bT x hx
    · simp [prepare, Treadmill.flip, hF] at hx
  · intro x hx
    cases full
    · simp only [prepare, Treadmill.flip, Bool.false_eq_true, if_false, youngMark] at hx ⊢; exact bA x hx
    · simp only [prepare, Treadmill.flip, if_true, youngMark, MARK_BIT, o8] at hx ⊢; exact bA x hx
  · intro x hx
    cases full
    · simp [prepare, Treadmill.flip, hF] at hx
    · simp only [prepare, Treadmill.flip, if_true, MARK_BIT, o8] at hx ⊢; exact bT x hx
  · intro h; cases h
  · intro h; cases h
  · intro f _; cases full <;> simp [prepare, Treadmill.flip, hC]
  · intro h
    have : full = false := by simpa using (Phase.gc.inj h)
    subst this; simp [prepare, Treadmill.flip, hF]
  · intro f h
    have : full = f := by simpa using (Phase.gc.inj h)
    subst this; simp [prepare]
  · intro f _ x; cases full <;> simp [prepare, Treadmill.flip]
  · intro f h x
    have : full = f := by simpa using (Phase.gc.inj h)
    subst this; cases full <;> simp [prepare, Treadmill.flip, hF]
  · intro f h x
    have : full = f := by simpa using (Phase.gc.inj h)
    subst this; cases full <;> simp [prepare, Treadmill.flip, hF]
  · intro f _ x hx; cases hx
  · intro f _; exact List.nodup_nil
  · intro f _ x; simp

/-- first trace of an object of the collection nursery. -/
theorem inv_trace_young {r : Run} (hi : Inv r) {f : Bool} (hp : r.sys.ph = .gc f) {o : Obj}
    (ho : o ∈ r.sys.los.tm.collectNursery) :
    Inv { r with
      sys := { r.sys with los := { r.sys.los with
        bits := setBits r.sys.los.bits o r.sys.los.markState,
        tm := { r.sys.los.tm with collectNursery := sremove r.sys.los.tm.collectNursery o,
                                   toSpace := sinsert r.sys.los.tm.toSpace o } } },
      traced := o :: r.traced, enq := o :: r.enq } := by
  have hd := disj_copyC hi.disj ho
  obtain ⟨⟨nf, nt, nc, na, ft, fc, fa, tc, ta, ca⟩, hal, hnd, hms, bA, bT, bC, bF, mutC, mutF, gcA, gcF,
    gcNg, gC, gF, gT, gTr, gEn, gE, cnt⟩ := hi
  have gC' := gC f hp
  have gF' := gF f hp
  have gT' := gT f hp
  have gE' := gE f hp
  refine ⟨hd, ?_, hnd, hms, ?_, ?_, ?_, ?_, ?_, ?_, ?_, ?_, ?_, ?_, ?_, ?_, ?_, ?_, ?_, cnt⟩
  · intro x; rw [← hal x]; simp only [mem_allObjs, mem_sinsert, mem_sremove]; grind
  · intro x hx; simp only [setBits] at hx ⊢; grind
  · intro x hx; simp only [setBits, mem_sinsert] at hx ⊢; grind
  · intro x hx; simp only [setBits, mem_sremove] at hx ⊢; grind
  · intro x hx; simp only [setBits] at hx ⊢; grind
  · intro h; simp only at h; rw [hp] at h; cases h
  · intro h; simp only at h; rw [hp] at h; cases h
  · intro f' h; exact gcA f' h
  · intro h; exact gcF h
  · intro f' h; exact gcNg f' h
  · intro f' h x; simp only [mem_sremove, List.mem_cons]; grind
  · intro f' h x
    have : f' = f := by simp only at h; rw [hp] at h; exact (Phase.gc.inj h).symm
    subst this; simp only [List.mem_cons]; grind
  · intro f' h x
    have : f' = f := by simp only at h; rw [hp] at h; exact (Phase.gc.inj h).symm
    subst this; simp only [mem_sinsert, List.mem_cons]; grind
  · intro f' h x hx
    have := gTr f' h
    simp only [mem_sinsert, List.mem_cons] at hx ⊢; grind
  · intro f' h
    have : f' = f := by simp only at h; rw [hp] at h; exact (Phase.gc.inj h).symm
    subst this
    refine List.nodup_cons.mpr ⟨?_, gEn f' hp⟩
    grind
  · intro f' h x
    have : f' = f := by simp only at h; rw [hp] at h; exact (Phase.gc.inj h).symm
    subst this; simp only [List.mem_cons]; grind

/-- first trace of an object of the from-space (full GC). -/
theorem inv_trace_old {r : Run} (hi : Inv r) (hp : r.sys.ph = .gc true) {o : Obj}
    (ho : o ∈ r.sys.los.tm.fromSpace) :
    Inv { r with
      sys := { r.sys with los := { r.sys.los with
        bits := setBits r.sys.los.bits o r.sys.los.markState,
        tm := { r.sys.los.tm with fromSpace := sremove r.sys.los.tm.fromSpace o,
                                   toSpace := sinsert r.sys.los.tm.toSpace o } } },
      traced := o :: r.traced, enq := o :: r.enq } := by
  have hd := disj_copyF hi.disj ho
  obtain ⟨⟨nf, nt, nc, na, ft, fc, fa, tc, ta, ca⟩, hal, hnd, hms, bA, bT, bC, bF, mutC, mutF, gcA, gcF,
    gcNg, gC, gF, gT, gTr, gEn, gE, cnt⟩ := hi
  have gC' := gC true hp
  have gF' := gF true hp
  have gT' := gT true hp
  have gE' := gE true hp
  refine ⟨hd, ?_, hnd, hms, ?_, ?_, ?_, ?_, ?_, ?_, ?_, ?_, ?_, ?_, ?_, ?_, ?_, ?_, ?_, cnt⟩
  · intro x; rw [← hal x]; simp only [mem_allObjs, mem_sinsert, mem_sremove]; grind
  · intro x hx; simp only [setBits] at hx ⊢; grind
  · intro x hx; simp only [setBits, mem_sinsert] at hx ⊢; grind
  · intro x hx; simp only [setBits] at hx ⊢; grind
  · intro x hx; simp only [setBits, mem_sremove] at hx ⊢; grind
  · intro h; simp only at h; rw [hp] at h; cases h
  · intro h; simp only at h; rw [hp] at h; cases h
  · intro f' h; exact gcA f' h
  · intro h; simp only at h; rw [hp] at h; cases h
  · intro f' h; exact gcNg f' h
  · intro f' h x; simp only [List.mem_cons]; grind
  · intro f' h x
    have : f' = true := by simp only at h; rw [hp] at h; exact (Phase.gc.inj h).symm
    subst this; simp only [mem_sremove, List.mem_cons]; grind
  · intro f' h x
    have : f' = true := by simp only at h; rw [hp] at h; exact (Phase.gc.inj h).symm
    subst this; simp only [mem_sinsert, List.mem_cons]; grind
  · intro f' h x hx
    have := gTr f' h
    simp only [mem_sinsert, List.mem_cons] at hx ⊢; grind
  · intro f' h
    refine List.nodup_cons.mpr ⟨?_, gEn true hp⟩
    grind
  · intro f' h x
    have : f' = true := by simp only at h; rw [hp] at h; exact (Phase.gc.inj h).symm
    subst this; simp only [List.mem_cons]; grind

/-- trace of an object that is already in the to-space. -/
theorem inv_trace_kept {r : Run} (hi : Inv r) {f : Bool} (hp : r.sys.ph = .gc f) {o : Obj}
    (ho : o ∈ r.sys.los.tm.toSpace) :
    Inv { r with traced := o :: r.traced } := by
  obtain ⟨⟨nf, nt, nc, na, ft, fc, fa, tc, ta, ca⟩, hal, hnd, hms, bA, bT, bC, bF, mutC, mutF, gcA, gcF,
    gcNg, gC, gF, gT, gTr, gEn, gE, cnt⟩ := hi
  have gC' := gC f hp
  have gF' := gF f hp
  have gT' := gT f hp
  have gE' := gE f hp
  refine ⟨⟨nf, nt, nc, na, ft, fc, fa, tc, ta, ca⟩, hal, hnd, hms, bA, bT, bC, bF, mutC, mutF, gcA, gcF,
    gcNg, ?_, ?_, ?_, ?_, gEn, ?_, cnt⟩
  · intro f' h x; simp only [List.mem_cons]; grind
  · intro f' h x
    have : f' = f := by simp only at h; rw [hp] at h; exact (Phase.gc.inj h).symm
    subst this; simp only [List.mem_cons]; grind
  · intro f' h x
    have : f' = f := by simp only at h; rw [hp] at h; exact (Phase.gc.inj h).symm
    subst this; simp only [List.mem_cons]; grind
  · intro f' h x hx
    have := gTr f' h
    simp only [List.mem_cons] at hx; grind
  · intro f' h x
    have : f' = f := by simp only at h; rw [hp] at h; exact (Phase.gc.inj h).symm
    subst this; simp only [List.mem_cons]; grind

/-- During a collection every object of the space is in the collection nursery, the from-space
(full GC only) or the to-space. -/
theorem gc_where {r : Run} (hi : Inv r) {f : Bool} (hp : r.sys.ph = .gc f) {o : Obj}
    (ho : o ∈ allObjs r.sys.los.tm) :
    o ∈ r.sys.los.tm.collectNursery ∨ (f = true ∧ o ∈ r.sys.los.tm.fromSpace) ∨ o ∈ r.sys.los.tm.toSpace := by
  have hA := hi.gcA f hp
  have hF := hi.gcF
  rw [mem_allObjs, hA] at ho
  cases f
  · rw [hF hp] at ho; simp at ho; grind
  · simp at ho ⊢; grind

/-- What `release` does in a protocol-respecting history: both debug assertions hold, the swept
objects are the collection nursery followed (full GC) by the from-space. -/
theorem release_spec {r : Run} (hi : Inv r) {f : Bool} (hp : r.sys.ph = .gc f) :
    release true r.sys.los f = some (r.sys.los.tm.collectNursery ++ r.sys.los.tm.fromSpace,
      { r.sys.los with tm := { r.sys.los.tm with collectNursery := [], fromSpace := [] }, inNurseryGc := false }) := by
  have hA := hi.gcA f hp
  cases f
  · have hF := hi.gcF hp
    simp [release, sweepLargePages, collectNursery, collectMature, hA, hF]
  · simp [release, sweepLargePages, collectNursery, collectMature, hA]

/-- `release` keeps the invariant (and closes the bookkeeping of the collection). -/
theorem inv_release {r : Run} (hi : Inv r) {f : Bool} (hp : r.sys.ph = .gc f) :
    Inv { r with
      sys := { ph := .mutator,
               los := { r.sys.los with tm := { r.sys.los.tm with collectNursery := [], fromSpace := [] }, inNurseryGc := false } },
      alive := r.alive.filter (fun x => !(r.sys.los.tm.collectNursery ++ r.sys.los.tm.fromSpace).contains x),
      sweptAll := r.sweptAll ++ (r.sys.los.tm.collectNursery ++ r.sys.los.tm.fromSpace) } := by
  obtain ⟨⟨nf, nt, nc, na, ft, fc, fa, tc, ta, ca⟩, hal, hnd, hms, bA, bT, bC, bF, mutC, mutF, gcA, gcF,
    gcNg, gC, gF, gT, gTr, gEn, gE, cnt⟩ := hi
  refine ⟨⟨List.nodup_nil, nt, List.nodup_nil, na, ?_, ?_, ?_, ?_, ta, ?_⟩, ?_, hnd.filter _, hms, bA, bT, ?_, ?_,
    ?_, ?_, ?_, ?_, ?_, ?_, ?_, ?_, ?_, ?_, ?_, ?_⟩
  · intro x hx; cases hx
  · intro x hx; cases hx
  · intro x hx; cases hx
  · intro x _ hx; cases hx
  · intro x hx; cases hx
  · intro x
    have := hal x
    simp only [mem_allObjs, List.mem_filter, List.contains_eq_mem, List.mem_append, Bool.not_eq_true',
      decide_eq_false_iff_not, List.not_mem_nil, false_or] at this ⊢
    grind
  · intro x hx; cases hx
  · intro x hx; cases hx
  · intro _; rfl
  · intro _; rfl
  · intro f' h; cases h
  · intro h; cases h
  · intro f' h; cases h
  · intro f' h; cases h
  · intro f' h; cases h
  · intro f' h; cases h
  · intro f' h; cases h
  · intro f' h; cases h
  · intro f' h; cases h
  · intro x
    have hc := cnt x
    have hl : (r.sys.los.tm.collectNursery ++ r.sys.los.tm.fromSpace).Nodup := by
      refine List.nodup_append.mpr ⟨nc, nf, ?_⟩
      intro a ha b hb hab; subst hab; exact fc a hb ha
    have hsub : x ∈ r.sys.los.tm.collectNursery ++ r.sys.los.tm.fromSpace → x ∈ r.alive := by
      intro hx
      refine (hal x).mp ?_
      rw [mem_allObjs]; rw [List.mem_append] at hx; grind
    simp only [List.count_append, List.mem_filter, List.contains_eq_mem, Bool.not_eq_true',
      decide_eq_false_iff_not] at hc ⊢
    rw [← List.count_append, hl.count]
    by_cases hx : x ∈ r.sys.los.tm.collectNursery ++ r.sys.los.tm.fromSpace
    · have := hsub hx; simp [hx, this] at hc ⊢; omega
    · simp [hx] at hc ⊢; omega

/-- One step preserves the invariant. -/
theorem inv_step {r r' : Run} {op : Op} (hi : Inv r) (h : runStep r op = some r') : Inv r' := by
  unfold runStep at h
  cases hs : sysStep r.sys op with
  | none => simp [hs] at h
  | some x =>
    obtain ⟨s', out⟩ := x
    rw [hs] at h
    dsimp only at h
    unfold sysStep at hs
    cases ha : allowed r.sys op with
    | false => simp [ha] at hs
    | true =>
    simp only [ha, Bool.not_true, Bool.false_eq_true, if_false] at hs
    cases op with
    | alloc o =>
      simp only [Option.some.injEq, Prod.mk.injEq] at hs
      obtain ⟨rfl, rfl⟩ := hs
      simp only [Option.some.injEq] at h
      subst h
      simp only [allowed, Bool.and_eq_true, Bool.not_eq_true', List.contains_eq_mem, decide_eq_false_iff_not,
        Bool.or_eq_true, beq_iff_eq] at ha
      exact inv_alloc hi ha.1 ha.2
    | setLive b =>
      simp only [Option.some.injEq, Prod.mk.injEq] at hs
      obtain ⟨rfl, rfl⟩ := hs
      simp only [Option.some.injEq] at h
      subst h
      exact inv_setLive hi b
    | prepare full =>
      simp only [Option.some.injEq, Prod.mk.injEq] at hs
      obtain ⟨rfl, rfl⟩ := hs
      simp only [Option.some.injEq] at h
      subst h
      simp only [allowed, beq_iff_eq] at ha
      exact inv_prepare hi ha full
    | trace o =>
      dsimp only at hs h
      simp only [allowed, Bool.and_eq_true, bne_iff_ne, ne_eq, List.contains_eq_mem, decide_eq_true_eq] at ha
      obtain ⟨hne, ho⟩ := ha
      obtain ⟨f, hp⟩ : ∃ f, r.sys.ph = .gc f := by
        cases hph : r.sys.ph with
        | mutator => exact absurd hph hne
        | gc f => exact ⟨f, rfl⟩
      rcases gc_where hi hp ho with hc | ⟨rfl, hc⟩ | hc
      · rw [trace_young hi hp hc] at hs
        simp only [Option.map_some, Option.some.injEq, Prod.mk.injEq] at hs
        obtain ⟨rfl, rfl⟩ := hs
        simp only [Option.some.injEq] at h
        subst h
        exact inv_trace_young hi hp hc
      · rw [trace_old hi hp hc] at hs
        simp only [Option.map_some, Option.some.injEq, Prod.mk.injEq] at hs
        obtain ⟨rfl, rfl⟩ := hs
        simp only [Option.some.injEq] at h
        subst h
        exact inv_trace_old hi hp hc
      · rw [trace_kept hi hp hc] at hs
        simp only [Option.map_some, Option.some.injEq, Prod.mk.injEq] at hs
        obtain ⟨rfl, rfl⟩ := hs
        simp only [Option.some.injEq] at h
        subst h
        exact inv_trace_kept hi hp hc
    | release full =>
      dsimp only at hs h
      simp only [allowed, beq_iff_eq] at ha
      rw [release_spec hi ha] at hs
      simp only [Option.map_some, Option.some.injEq, Prod.mk.injEq] at hs
      obtain ⟨rfl, rfl⟩ := hs
      simp only [Option.some.injEq] at h
      subst h
      exact inv_release hi ha

theorem inv_run {r r' : Run} (ops : List Op) (hi : Inv r) (h : run r ops = some r') : Inv r' := by
  induction ops generalizing r with
  | nil => simp only [run, Option.some.injEq] at h; subst h; exact hi
  | cons op ops ih =>
    simp only [run] at h
    split at h
    · cases h
    · rename_i r1 h1
      exact ih (inv_step hi h1) h

/-! ## C36 on the real `LargeObjectSpace`: the theorems

All of them quantify over **every** history `run {} h = some r` (any length, any objects) that
follows the plan's protocol `Mmtk.LOS.allowed`; nothing about which treadmill set `copy` is called
with, or how often, is assumed any more — it is derived from the code of `trace_object`,
`is_in_nursery` and `test_and_mark`. -/

/-- **(a) los_one_set.** Every object that was allocated and not yet swept occurs exactly once in
the four treadmill sets taken together, and no other object occurs at all. -/
theorem los_one_set (h : List Op) (r : Run) (hr : run {} h = some r) :
    ∀ o, (allObjs r.sys.los.tm).count o = if o ∈ r.alive then 1 else 0 := by
  intro o
  have hi := inv_run h inv_init hr
  have hn := (disj_iff_nodup _).mp hi.disj
  rw [hn.count]
  simp [hi.alive o]

/-- the same, set by set, with the phase shape `release` asserts. -/
theorem los_one_set_structured (h : List Op) (r : Run) (hr : run {} h = some r) :
    Disj r.sys.los.tm ∧ (∀ o, o ∈ allObjs r.sys.los.tm ↔ o ∈ r.alive) ∧ r.alive.Nodup ∧
    (r.sys.ph = .mutator → r.sys.los.tm.collectNursery = [] ∧ r.sys.los.tm.fromSpace = []) ∧
    (∀ f, r.sys.ph = .gc f → r.sys.los.tm.allocNursery = [] ∧ (f = false → r.sys.los.tm.fromSpace = [])) := by
  have hi := inv_run h inv_init hr
  refine ⟨hi.disj, hi.alive, hi.aliveNodup, fun hm => ⟨hi.mutC hm, hi.mutF hm⟩, fun f hp => ⟨hi.gcA f hp, ?_⟩⟩
  intro hf; subst hf; exact hi.gcF hp

/-- **(b) los_bits.** The per-object bits always agree with the set the object is in:
`is_in_nursery` ⇔ the object is in the allocation or the collection nursery; the mark bit equals
`mark_state` (`is_marked` / `is_live`) ⇔ the object is in the to-space or the allocation nursery or
— in a nursery GC, where the mark state did not flip — the collection nursery. -/
theorem los_bits (h : List Op) (r : Run) (hr : run {} h = some r) (o : Obj) (ho : o ∈ r.alive) :
    (isInNursery r.sys.los o = true ↔
      o ∈ r.sys.los.tm.allocNursery ∨ o ∈ r.sys.los.tm.collectNursery) ∧
    (isMarked r.sys.los o = true ↔
      o ∈ r.sys.los.tm.toSpace ∨ o ∈ r.sys.los.tm.allocNursery ∨
        (r.sys.ph = .gc false ∧ o ∈ r.sys.los.tm.collectNursery)) := by
  have hi := inv_run h inv_init hr
  obtain ⟨⟨nf, nt, nc, na, ft, fc, fa, tc, ta, ca⟩, hal, hnd, hms, bA, bT, bC, bF, mutC, mutF, gcA, gcF,
    gcNg, gC, gF, gT, gTr, gEn, gE, cnt⟩ := hi
  have hin := (hal o).mpr ho
  rw [mem_allObjs] at hin
  have hms2 := ms_cases hms
  rcases hin with hF | hT | hC | hA
  · have hb := bF o hF
    have h1 := ft o hF; have h2 := fc o hF; have h3 := fa o hF
    rcases hms2 with h0 | h0 <;>
      simp [isInNursery, isMarked, testMarkBit, hb, h0, NURSERY_BIT, MARK_BIT, h1, h2, h3]
  · have hb := bT o hT
    have h2 := tc o hT; have h3 := ta o hT
    rcases hms2 with h0 | h0 <;>
      simp [isInNursery, isMarked, testMarkBit, hb, h0, NURSERY_BIT, MARK_BIT, hT, h2, h3]
  · have hb := bC o hC
    have h1 : o ∉ r.sys.los.tm.toSpace := fun h => tc o h hC
    have h3 := ca o hC
    cases hph : r.sys.ph with
    | mutator => rw [mutC hph] at hC; cases hC
    | gc f =>
      cases f <;> simp only [youngMark, hph] at hb <;> rcases hms2 with h0 | h0 <;>
        simp [isInNursery, isMarked, testMarkBit, hb, h0, NURSERY_BIT, MARK_BIT, hC, h1, h3]
  · have hb := bA o hA
    rcases hms2 with h0 | h0 <;>
      simp [isInNursery, isMarked, testMarkBit, hb, h0, NURSERY_BIT, MARK_BIT, hA]

/-- outside a collection: every object of the space is marked (live), and its nursery bit says
whether it is in the allocation nursery or in the to-space. -/
theorem los_bits_mutator (h : List Op) (r : Run) (hr : run {} h = some r) (hm : r.sys.ph = .mutator)
    (o : Obj) (ho : o ∈ r.alive) :
    isMarked r.sys.los o = true ∧
    (isInNursery r.sys.los o = true ↔ o ∈ r.sys.los.tm.allocNursery) ∧
    (isInNursery r.sys.los o = false ↔ o ∈ r.sys.los.tm.toSpace) := by
  obtain ⟨b1, b2⟩ := los_bits h r hr o ho
  have hi := inv_run h inv_init hr
  have hC := hi.mutC hm
  have hF := hi.mutF hm
  have hin := (hi.alive o).mpr ho
  rw [mem_allObjs, hC, hF] at hin
  have hta := hi.disj.ta o
  simp only [hC, List.not_mem_nil, or_false, and_false] at b1 b2
  refine ⟨?_, b1, ?_⟩
  · rw [b2]; simpa using hin
  · simp at hin; grind

/-- What a plan does to its large object space between `prepare` and `release`: traces (any live
object, any number of times), allocation as live, toggling `allocate_as_live`. -/
def isGcOp : Op → Bool
  | .trace _ => true
  | .alloc _ => true
  | .setLive _ => true
  | _ => false

theorem gc_step {r r' : Run} {op : Op} (hop : isGcOp op = true) (h : runStep r op = some r') :
    r'.sys.ph = r.sys.ph ∧ r'.a0 = r.a0 ∧ r'.t0 = r.t0 ∧ r'.sweptAll = r.sweptAll ∧
    (∀ o, o ∈ r'.traced ↔ o ∈ r.traced ∨ op = .trace o) ∧
    (∀ o, o ∈ r'.born ↔ o ∈ r.born ∨ op = .alloc o) := by
  unfold runStep at h
  cases hs : sysStep r.sys op with
  | none => simp [hs] at h
  | some x =>
    obtain ⟨s', out⟩ := x
    rw [hs] at h
    dsimp only at h
    unfold sysStep at hs
    cases ha : allowed r.sys op with
    | false => simp [ha] at hs
    | true =>
    simp only [ha, Bool.not_true, Bool.false_eq_true, if_false] at hs
    cases op with
    | alloc o =>
      simp only [Option.some.injEq, Prod.mk.injEq] at hs
      obtain ⟨rfl, rfl⟩ := hs
      simp only [Option.some.injEq] at h
      subst h
      simp [eq_comm]
      exact fun x => or_comm
    | setLive b =>
      simp only [Option.some.injEq, Prod.mk.injEq] at hs
      obtain ⟨rfl, rfl⟩ := hs
      simp only [Option.some.injEq] at h
      subst h
      simp
    | prepare full => simp [isGcOp] at hop
    | trace o =>
      dsimp only at hs h
      cases ht : traceObject true r.sys.los o with
      | none => simp [ht] at hs
      | some y =>
        rw [ht] at hs
        simp only [Option.map_some, Option.some.injEq, Prod.mk.injEq] at hs
        obtain ⟨rfl, rfl⟩ := hs
        simp only [Option.some.injEq] at h
        subst h
        simp [eq_comm]
        exact fun x => or_comm
    | release full => simp [isGcOp] at hop

/-- the bookkeeping of a marking phase in terms of the operations it consists of. -/
theorem gc_run (g : List Op) : ∀ (r r' : Run), (∀ op ∈ g, isGcOp op = true) → run r g = some r' →
    r'.sys.ph = r.sys.ph ∧ r'.a0 = r.a0 ∧ r'.t0 = r.t0 ∧ r'.sweptAll = r.sweptAll ∧
    (∀ o, o ∈ r'.traced ↔ o ∈ r.traced ∨ Op.trace o ∈ g) ∧
    (∀ o, o ∈ r'.born ↔ o ∈ r.born ∨ Op.alloc o ∈ g) := by
  induction g with
  | nil =>
    intro r r' _ h
    simp only [run, Option.some.injEq] at h
    subst h; simp
  | cons op g ih =>
    intro r r' hg h
    simp only [run] at h
    split at h
    · cases h
    · rename_i r1 h1
      obtain ⟨a1, a2, a3, a4, a5, a6⟩ := gc_step (hg op (List.mem_cons_self ..)) h1
      obtain ⟨b1, b2, b3, b4, b5, b6⟩ := ih r1 r' (fun x hx => hg x (List.mem_cons_of_mem _ hx)) h
      refine ⟨b1.trans a1, b2.trans a2, b3.trans a3, b4.trans a4, ?_, ?_⟩
      · intro o; rw [b5 o, a5 o]; simp only [List.mem_cons]; grind
      · intro o; rw [b6 o, a6 o]; simp only [List.mem_cons]; grind

/-- The outcome of one complete collection of the large object space, as seen from the state
before `prepare` (`A0` = allocation nursery, `T0` = to-space): `g` = what happened between
`prepare full` and `release full`, `swept` = the objects handed to `release_pages`, `enq` = the
objects whose `trace_object` call enqueued them (in reverse order). -/
structure GcOutcome (A0 T0 : List Obj) (full : Bool) (g : List Op) (swept enq : List Obj) (final : Run) :
    Prop where
  /-- (c) each swept object is released once … -/
  swept_once : swept.Nodup
  /-- … and the swept objects are exactly the objects of the collected sets (the nursery always,
  the mature objects iff `full`) that were not traced since `prepare` -/
  swept_exact : ∀ o, o ∈ swept ↔ (o ∈ A0 ∨ (full = true ∧ o ∈ T0)) ∧ Op.trace o ∉ g
  /-- every traced object is kept: it is in the to-space afterwards, alive, and was not swept -/
  traced_kept : ∀ o, Op.trace o ∈ g → o ∈ final.sys.los.tm.toSpace ∧ o ∈ final.alive ∧ o ∉ swept
  /-- objects allocated (as live) during the collection are kept -/
  born_kept : ∀ o, Op.alloc o ∈ g → o ∈ final.sys.los.tm.toSpace ∧ o ∉ swept
  /-- (d) a nursery GC never sweeps a mature object, traced or not -/
  mature_kept : full = false → ∀ o, o ∈ T0 → o ∈ final.sys.los.tm.toSpace ∧ o ∉ swept
  /-- (e) an object is enqueued at most once per GC … -/
  enq_once : enq.Nodup
  /-- … namely exactly the traced objects of the collected sets -/
  enq_exact : ∀ o, o ∈ enq ↔ Op.trace o ∈ g ∧ (o ∈ A0 ∨ (full = true ∧ o ∈ T0))
  /-- the space is back in its mutator-time shape -/
  back : final.sys.ph = .mutator ∧ final.sys.los.tm.collectNursery = [] ∧ final.sys.los.tm.fromSpace = []

/-- **(c)(d)(e) los_sweep_exact.** Take any protocol-respecting history `h` ending between
collections, then a collection: `prepare full`, any marking phase `g` (traces of any objects in
any order with any repetitions, allocation as live), `release full`.  The release succeeds (no
debug assertion fires) and has the `GcOutcome` above. -/
theorem los_sweep_exact (h : List Op) (r0 : Run) (full : Bool) (g : List Op) (r1 : Run)
    (hreach : run {} h = some r0) (hmut : r0.sys.ph = .mutator)
    (hg : ∀ op ∈ g, isGcOp op = true)
    (hrun : run r0 (.prepare full :: g) = some r1) :
    ∃ swept r2, runStep r1 (.release full) = some r2 ∧ r2.sweptAll = r1.sweptAll ++ swept ∧
      GcOutcome r0.sys.los.tm.allocNursery r0.sys.los.tm.toSpace full g swept r1.enq r2 := by
  have hi0 := inv_run h inv_init hreach
  simp only [run] at hrun
  split at hrun
  · cases hrun
  rename_i rp hp
  have hip := inv_step hi0 hp
  have hpp : rp.sys.ph = .gc full ∧ rp.a0 = r0.sys.los.tm.allocNursery ∧ rp.t0 = r0.sys.los.tm.toSpace ∧
      rp.traced = [] ∧ rp.born = [] := by
    simp only [runStep, sysStep, allowed, hmut, beq_self_eq_true, Bool.not_true, Bool.false_eq_true,
      if_false, Option.some.injEq] at hp
    subst hp; simp
  obtain ⟨p1, p2, p3, p4, p5⟩ := hpp
  obtain ⟨q1, q2, q3, q4, q5, q6⟩ := gc_run g rp r1 hg hrun
  have hi1 := inv_run g hip hrun
  have hph : r1.sys.ph = .gc full := q1.trans p1
  rw [p4] at q5; rw [p5] at q6; rw [p2] at q2; rw [p3] at q3
  simp only [List.not_mem_nil, false_or] at q5 q6
  have hstep : runStep r1 (.release full) = some
      { r1 with
        sys := { ph := .mutator,
                 los := { r1.sys.los with tm := { r1.sys.los.tm with collectNursery := [], fromSpace := [] }, inNurseryGc := false } },
        alive := r1.alive.filter (fun x => !(r1.sys.los.tm.collectNursery ++ r1.sys.los.tm.fromSpace).contains x),
        sweptAll := r1.sweptAll ++ (r1.sys.los.tm.collectNursery ++ r1.sys.los.tm.fromSpace) } := by
    simp [runStep, sysStep, allowed, hph, release_spec hi1 hph]
  have hi2 := inv_step hi1 hstep
  refine ⟨r1.sys.los.tm.collectNursery ++ r1.sys.los.tm.fromSpace, _, hstep, rfl, ?_⟩
  obtain ⟨⟨nf, nt, nc, na, ft, fc, fa, tc, ta, ca⟩, hal, hnd, hms, bA, bT, bC, bF, mutC, mutF, gcA, gcF,
    gcNg, gC, gF, gT, gTr, gEn, gE, cnt⟩ := hi1
  have gC' := gC full hph
  have gF' := gF full hph
  have gT' := gT full hph
  have gTr' := gTr full hph
  have gE' := gE full hph
  rw [q2] at gC' gT' gE'
  rw [q3] at gF' gT' gE'
  refine ⟨?_, ?_, ?_, ?_, ?_, gEn full hph, ?_, ⟨rfl, rfl, rfl⟩⟩
  · refine List.nodup_append.mpr ⟨nc, nf, ?_⟩
    intro a ha b hb hab; subst hab; exact fc a hb ha
  · intro o; simp only [List.mem_append]; grind
  · intro o ho
    have hT := gTr' o ((q5 o).mpr ho)
    refine ⟨hT, ?_, ?_⟩
    · refine (hi2.alive o).mp ?_
      rw [mem_allObjs]; exact Or.inr (Or.inl hT)
    · simp only [List.mem_append]; grind
  · intro o ho
    have hT : o ∈ r1.sys.los.tm.toSpace := (gT' o).mpr (Or.inr (Or.inr ((q6 o).mpr ho)))
    refine ⟨hT, ?_⟩
    simp only [List.mem_append]; grind
  · intro hf o ho
    have hT : o ∈ r1.sys.los.tm.toSpace := (gT' o).mpr (Or.inl ⟨ho, Or.inl hf⟩)
    refine ⟨hT, ?_⟩
    simp only [List.mem_append]; grind
  · intro o; rw [gE' o, q5 o]

/-- **(d) los_nursery_gc_keeps_mature**, stated on its own: a nursery collection hands back no
mature object — whatever was in the to-space before is still there and was not swept. -/
theorem los_nursery_gc_keeps_mature (h : List Op) (r0 : Run) (g : List Op) (r1 : Run)
    (hreach : run {} h = some r0) (hmut : r0.sys.ph = .mutator)
    (hg : ∀ op ∈ g, isGcOp op = true)
    (hrun : run r0 (.prepare false :: g) = some r1) :
    ∃ swept r2, runStep r1 (.release false) = some r2 ∧ r2.sweptAll = r1.sweptAll ++ swept ∧
      ∀ o, o ∈ r0.sys.los.tm.toSpace → o ∈ r2.sys.los.tm.toSpace ∧ o ∈ r2.alive ∧ o ∉ swept := by
  obtain ⟨swept, r2, h1, h2, out⟩ := los_sweep_exact h r0 false g r1 hreach hmut hg hrun
  refine ⟨swept, r2, h1, h2, fun o ho => ?_⟩
  obtain ⟨a, b⟩ := out.mature_kept rfl o ho
  have hr2 : run {} (h ++ (.prepare false :: g) ++ [.release false]) = some r2 := by
    have run_append : ∀ (l1 l2 : List Op) (a b : Run), run a l1 = some b → run a (l1 ++ l2) = run b l2 := by
      intro l1
      induction l1 with
      | nil => intro l2 a b hab; simp only [run, Option.some.injEq] at hab; subst hab; rfl
      | cons x l1 ih =>
        intro l2 a b hab
        simp only [run, List.cons_append] at hab ⊢
        split at hab
        · cases hab
        · rename_i a1 ha1; exact ih l2 a1 b hab
    rw [List.append_assoc, run_append h _ {} r0 hreach, run_append _ _ r0 r1 hrun]
    simp [run, h1]
  have hi2 := inv_run _ inv_init hr2
  exact ⟨a, (hi2.alive o).mp (by rw [mem_allObjs]; exact Or.inr (Or.inl a)), b⟩

/-- **(c, "each once" over the whole history) los_swept_once_ever.** Counting with multiplicity
(addresses may be reused after a sweep): every allocation is swept at most once — the number of
times an address was allocated is the number of times it was swept, plus one iff it is alive. -/
theorem los_swept_once_ever (h : List Op) (r : Run) (hr : run {} h = some r) :
    ∀ o, r.allocAll.count o = r.sweptAll.count o + (if o ∈ r.alive then 1 else 0) :=
  (inv_run h inv_init hr).cnt

/-- **los_protocol_never_panics.** On a reachable state no debug assertion of the space or of the
treadmill can fire (`TreadMill::copy`'s "object is in the source set", `release`'s "allocation
nursery is empty"): a step is refused only because the protocol forbids it. -/
theorem los_protocol_never_panics (h : List Op) (r : Run) (hr : run {} h = some r) (op : Op)
    (ha : allowed r.sys op = true) : (runStep r op).isSome = true := by
  have hi := inv_run h inv_init hr
  cases op with
  | alloc o => simp [runStep, sysStep, ha]
  | setLive b => simp [runStep, sysStep, ha]
  | prepare f => simp [runStep, sysStep, ha]
  | trace o =>
    have ha' := ha
    simp only [allowed, Bool.and_eq_true, bne_iff_ne, ne_eq, List.contains_eq_mem, decide_eq_true_eq] at ha'
    obtain ⟨hne, ho⟩ := ha'
    obtain ⟨f, hp⟩ : ∃ f, r.sys.ph = .gc f := by
      cases hph : r.sys.ph with
      | mutator => exact absurd hph hne
      | gc f => exact ⟨f, rfl⟩
    rcases gc_where hi hp ho with hc | ⟨rfl, hc⟩ | hc
    · simp [runStep, sysStep, ha, trace_young hi hp hc]
    · simp [runStep, sysStep, ha, trace_old hi hp hc]
    · simp [runStep, sysStep, ha, trace_kept hi hp hc]
  | release f =>
    have hp : r.sys.ph = .gc f := by simpa [allowed] using ha
    simp [runStep, sysStep, ha, release_spec hi hp]

/-! ## the hypotheses are satisfiable -/

/-- What is observable of a run (the bits are a function):
`[from_space, to_space, collect_nursery, alloc_nursery, [mark_state], bits of the objects in that
order, alive, swept so far, enqueued in the last GC]`. -/
def Run.view (r : Run) : List (List Nat) :=
  [r.sys.los.tm.fromSpace, r.sys.los.tm.toSpace, r.sys.los.tm.collectNursery, r.sys.los.tm.allocNursery,
   [r.sys.los.markState], (allObjs r.sys.los.tm).map r.sys.los.bits, r.alive, r.sweptAll, r.enq]

/-- alloc → full GC (marked) → full GC (marked again) → full GC (not marked): the history on which
a wrong mask in `test_and_mark` leaves the object in two sets.  Object 1 survives two full
collections in the to-space with a clear nursery bit and is swept, once, by the third. -/
example :
    (run {} [.alloc 1, .prepare true, .trace 1, .release true]).map Run.view
      = some [[], [1], [], [], [1], [1], [1], [], [1]] ∧
    (run {} [.alloc 1, .prepare true, .trace 1, .release true, .prepare true, .trace 1, .trace 1, .release true]).map
      Run.view = some [[], [1], [], [], [0], [0], [1], [], [1]] ∧
    (run {} [.alloc 1, .prepare true, .trace 1, .release true, .prepare true, .trace 1, .release true,
             .prepare true, .release true]).map Run.view = some [[], [], [], [], [1], [], [], [1], []] := by
  decide

/-- the hypotheses of `los_sweep_exact` on a non-trivial history: 1, 2 young, nursery GC keeps 1;
3 young, 4 allocated as live; then a full GC that traces 3 (twice), 1 and a fresh as-live 9:
2 was swept by the nursery GC, 4 by the full one; 1, 3, 9 survive; 3 and 1 are enqueued once. -/
example :
    let h := [Op.alloc 1, .alloc 2, .prepare false, .trace 1, .trace 1, .release false, .alloc 3, .setLive true,
              .alloc 4, .setLive false]
    let g := [Op.trace 3, .setLive true, .alloc 9, .trace 9, .trace 3, .trace 1]
    ∃ r0 r1 r2, run {} h = some r0 ∧ r0.sys.ph = .mutator ∧ (∀ op ∈ g, isGcOp op = true) ∧
      r0.sys.los.tm = ⟨[], [4, 1], [], [3]⟩ ∧
      run r0 (.prepare true :: g) = some r1 ∧ r1.enq = [1, 3] ∧
      runStep r1 (.release true) = some r2 ∧ r2.sys.los.tm = ⟨[], [1, 9, 3], [], []⟩ ∧ r2.sweptAll = [2, 4] := by
  refine ⟨_, _, _, rfl, ?_, ?_, ?_, rfl, ?_, rfl, ?_, ?_⟩ <;> decide

/-- histories that leave the protocol are rejected: trace of a swept object, trace outside a GC,
nursery allocation during a GC, release with the other flag, allocation of a live address. -/
example :
    run {} [.alloc 1, .prepare true, .release true, .prepare true, .trace 1] = none ∧
    run {} [.alloc 1, .trace 1] = none ∧
    run {} [.alloc 1, .prepare false, .alloc 2] = none ∧
    run {} [.alloc 1, .prepare false, .release true] = none ∧
    run {} [.alloc 1, .alloc 1] = none := by
  decide


/-! ## `is_live` is exact during a collection (needed by reference / finalizer processing, C06)

On the pinned tree `SFT::is_live` was `is_marked`: in a nursery GC an unreachable young object still
carries `mark_state` (the state does not flip) and answered "live" although `release` sweeps it
(`old_is_live_wrong_in_nursery_gc`; real effect: a weak reference kept a dangling referent, key
`gc:los-nursery-weak-dangling`). After the `fix:` commit `is_live` also requires a cleared nursery bit
in a nursery GC. -/

/-- `is_live` as a function of the three values it reads. -/
def liveBits (ms : Nat) (ng : Bool) (b : Nat) : Bool := (b &&& 1 == ms) && !(ng && (b &&& 2 == 2))

theorem isLive_eq (s : LOS) (o : Obj) : isLive s o = liveBits s.markState s.inNurseryGc (s.bits o) := rfl

theorem liveBits_facts (ms : Nat) (h : ms ≤ 1) (ng : Bool) :
    liveBits ms ng ms = true ∧ liveBits ms true (ms ||| 2) = false ∧
    liveBits ms false ((1 - ms) ||| 2) = false ∧ liveBits ms ng (1 - ms) = false := by
  rcases ms_cases h with rfl | rfl <;> cases ng <;> decide

/-- **`is_live` exact**: at any point of a collection (any number of traces done), an object of the
space is reported live iff it is in the to-space — i.e. iff `release` will not sweep it. -/
theorem los_is_live_exact {r : Run} (hi : Inv r) {f : Bool} (hp : r.sys.ph = .gc f) {o : Obj}
    (ho : o ∈ allObjs r.sys.los.tm) :
    isLive r.sys.los o = true ↔ o ∈ r.sys.los.tm.toSpace := by
  have hng := hi.gcNg f hp
  have hf := liveBits_facts r.sys.los.markState hi.ms r.sys.los.inNurseryGc
  rw [isLive_eq]
  constructor
  · intro hl
    rcases gc_where hi hp ho with hc | ⟨hff, hF⟩ | hT
    · exfalso
      have hb := hi.bC o hc
      rw [hb, hp] at hl
      cases f
      · simp only [youngMark] at hl
        rw [hng] at hl
        have := (liveBits_facts r.sys.los.markState hi.ms true).2.1
        simp at hl this; rw [this] at hl; cases hl
      · simp only [youngMark] at hl
        rw [hng] at hl
        have := (liveBits_facts r.sys.los.markState hi.ms false).2.2.1
        simp at hl this; rw [this] at hl; cases hl
    · exfalso
      have hb := hi.bF o hF
      rw [hb, hf.2.2.2] at hl; cases hl
    · exact hT
  · intro hT
    rw [hi.bT o hT]; exact hf.1

/-- … hence `is_live` answers exactly "not swept by this collection's `release`". -/
theorem los_is_live_iff_not_swept {r : Run} (hi : Inv r) {f : Bool} (hp : r.sys.ph = .gc f) {o : Obj}
    (ho : o ∈ allObjs r.sys.los.tm) :
    isLive r.sys.los o = true ↔ o ∉ r.sys.los.tm.collectNursery ++ r.sys.los.tm.fromSpace := by
  rw [los_is_live_exact hi hp ho]
  obtain ⟨nf, nt, nc, na, ft, fc, fa, tc, ta, ca⟩ := hi.disj
  constructor
  · intro hT hm
    rcases List.mem_append.mp hm with h | h
    · exact tc o hT h
    · exact ft o h hT
  · intro hn
    rcases gc_where hi hp ho with hc | ⟨_, hF⟩ | hT
    · exact absurd (List.mem_append.mpr (.inl hc)) hn
    · exact absurd (List.mem_append.mpr (.inr hF)) hn
    · exact hT

end Mmtk.LOS
