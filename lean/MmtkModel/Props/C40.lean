import MmtkModel.Model.RevGroup
/-!
# C40 — Revisitable group-by partitions its input into maximal runs

For any input sequence and key function: the groups concatenate to the input, each group is
non-empty with all items sharing the reported key, adjacent groups have different keys, and each
group's reported length equals its item count.  Quantified over **all** lists and **all** key
functions into any type with decidable equality (no bound on length).
-/
namespace Mmtk.RevGroup
variable {α κ : Type} [DecidableEq κ]

/-! ## helper lemmas about the inner loop -/

theorem takeRun_spec (f : α → κ) (k : κ) (l : List α) :
    let r := takeRun f k l
    r.1 ≤ l.length ∧ (∀ x ∈ l.take r.1, f x = k) ∧
    (match r.2.1 with
     | none => r.2.2 = [] ∧ r.1 = l.length
     | some (x, kx) => kx = f x ∧ kx ≠ k ∧ l = l.take r.1 ++ x :: r.2.2) := by
  induction l with
  | nil => simp [takeRun]
  | cons y ys ih =>
    by_cases h : f y = k
    · simp only [takeRun, h, if_true]
      obtain ⟨h1, h2, h3⟩ := ih
      refine ⟨by simp; omega, ?_, ?_⟩
      · intro x hx
        simp only [List.take_succ_cons, List.mem_cons] at hx
        rcases hx with rfl | hx
        · exact h
        · exact h2 x hx
      · revert h3
        cases hni : (takeRun f k ys).2.1 with
        | none => simp
        | some p =>
          obtain ⟨x, kx⟩ := p
          simp only [List.take_succ_cons, List.cons_append, List.cons.injEq, true_and]
          exact id
    · simp [takeRun, h]

/-- Well-formedness of a single group. -/
def GroupOk (f : α → κ) (g : Group α κ) : Prop :=
  g.items ≠ [] ∧ (∀ x ∈ g.items, f x = g.key) ∧ g.len = g.items.length

/-- The pending "peeked" item, as a list. -/
def pend (ni : Option (α × κ)) : List α :=
  match ni with
  | none => []
  | some (h, _) => [h]

/-- State invariant: the peeked key is the key of the peeked item. -/
def NiOk (f : α → κ) (ni : Option (α × κ)) : Prop :=
  ∀ h k, ni = some (h, k) → k = f h

/-- Key of the first item still to be grouped (peeked item first), if any. -/
def headKey (f : α → κ) (iter : List α) (ni : Option (α × κ)) : Option κ :=
  match ni with
  | some (_, k) => some k
  | none => iter.head?.map f

theorem next_spec (f : α → κ) (iter : List α) (ni : Option (α × κ)) (hni : NiOk f ni) :
    match next f iter ni with
    | none => pend ni ++ iter = []
    | some (g, iter', ni') =>
      GroupOk f g ∧ NiOk f ni' ∧ pend ni ++ iter = g.items ++ (pend ni' ++ iter') ∧
      iter'.length + (pend ni').length < iter.length + (pend ni).length ∧
      headKey f iter ni = some g.key ∧
      (∀ k', headKey f iter' ni' = some k' → k' ≠ g.key) := by
  -- common part, once the head / key / iterator after the head are known
  have core : ∀ (h : α) (k : κ) (it : List α), k = f h →
      let r := takeRun f k it
      let g : Group α κ := { key := k, len := r.1 + 1, items := h :: it.take (r.1 + 1 - 1) }
      GroupOk f g ∧ NiOk f r.2.1 ∧ h :: it = g.items ++ (pend r.2.1 ++ r.2.2) ∧
      r.2.2.length + (pend r.2.1).length < it.length + 1 ∧
      (∀ k', headKey f r.2.2 r.2.1 = some k' → k' ≠ g.key) := by
    intro h k it hk
    have sp := takeRun_spec f k it
    simp only at sp
    obtain ⟨h1, h2, h3⟩ := sp
    simp only [Nat.add_sub_cancel]
    refine ⟨⟨by simp, ?_, by simp [List.length_take, Nat.min_eq_left h1]⟩, ?_, ?_, ?_, ?_⟩
    · intro x hx
      simp only [List.mem_cons] at hx
      rcases hx with rfl | hx
      · exact hk.symm
      · exact h2 x hx
    · intro h' k' e
      rw [e] at h3
      exact h3.1
    · revert h3
      cases e : (takeRun f k it).2.1 with
      | none =>
        rintro ⟨e1, e2⟩
        simp [pend, e1, e2]
      | some p =>
        obtain ⟨x, kx⟩ := p
        rintro ⟨_, _, e3⟩
        simp only [pend, List.cons_append, List.nil_append, List.cons.injEq, true_and]
        exact e3
    · revert h3
      cases e : (takeRun f k it).2.1 with
      | none =>
        rintro ⟨e1, e2⟩
        simp [pend, e1]
      | some p =>
        obtain ⟨x, kx⟩ := p
        rintro ⟨_, _, e3⟩
        have := congrArg List.length e3
        simp [List.length_take, Nat.min_eq_left h1] at this
        simp [pend]; omega
    · intro k' hk'
      revert h3
      cases e : (takeRun f k it).2.1 with
      | none =>
        rintro ⟨e1, _⟩
        simp [headKey, e, e1] at hk'
      | some p =>
        obtain ⟨x, kx⟩ := p
        rintro ⟨_, e2, _⟩
        simp [headKey, e] at hk'
        subst hk'
        exact e2
  cases ni with
  | some p =>
    obtain ⟨h, k⟩ := p
    have hk : k = f h := hni h k rfl
    have c := core h k iter hk
    simp only [next]
    obtain ⟨c1, c2, c3, c4, c5⟩ := c
    refine ⟨c1, c2, ?_, ?_, by simp [headKey], c5⟩
    · simpa [pend] using c3
    · simpa [pend] using c4
  | none =>
    cases iter with
    | nil => simp [next, pend]
    | cons x xs =>
      have c := core x (f x) xs rfl
      simp only [next]
      obtain ⟨c1, c2, c3, c4, c5⟩ := c
      refine ⟨c1, c2, ?_, ?_, by simp [headKey], c5⟩
      · simpa [pend] using c3
      · simpa [pend] using c4

/-- Adjacent groups have different keys. -/
def AdjDiff : List (Group α κ) → Prop
  | [] => True
  | [_] => True
  | g :: g' :: rest => g.key ≠ g'.key ∧ AdjDiff (g' :: rest)

theorem run_spec (f : α → κ) (fuel : Nat) (iter : List α) (ni : Option (α × κ))
    (hni : NiOk f ni) (hfuel : iter.length + (pend ni).length < fuel) :
    let gs := run f fuel iter ni
    (gs.flatMap (·.items)) = pend ni ++ iter ∧ (∀ g ∈ gs, GroupOk f g) ∧ AdjDiff gs ∧
    (∀ g, gs.head? = some g → headKey f iter ni = some g.key) := by
  induction fuel generalizing iter ni with
  | zero => omega
  | succ fuel ih =>
    have ns := next_spec f iter ni hni
    simp only [run]
    cases e : next f iter ni with
    | none =>
      rw [e] at ns
      simp at ns ⊢
      simp [ns, AdjDiff]
    | some r =>
      obtain ⟨g, iter', ni'⟩ := r
      rw [e] at ns
      obtain ⟨n1, n2, n3, n4, n5, n6⟩ := ns
      have := ih iter' ni' n2 (by omega)
      obtain ⟨i1, i2, i3, i4⟩ := this
      refine ⟨?_, ?_, ?_, ?_⟩
      · simp only [List.flatMap_cons, i1, n3]
      · intro g' hg'
        simp only [List.mem_cons] at hg'
        rcases hg' with rfl | hg'
        · exact n1
        · exact i2 g' hg'
      · show AdjDiff (g :: run f fuel iter' ni')
        cases hgs : run f fuel iter' ni' with
        | nil => simp [AdjDiff]
        | cons g' rest =>
          rw [hgs] at i3 i4
          refine ⟨?_, i3⟩
          have := i4 g' rfl
          exact fun e' => n6 g'.key this e'.symm
      · intro g0 hg0
        simp at hg0
        subst hg0
        exact n5

/-! ## The property theorems -/

/-- **C40 (1)** The groups' items concatenate to the input (in particular the fuel of the
model never runs out: the iteration terminates and nothing is dropped or duplicated). -/
theorem groups_concat (f : α → κ) (xs : List α) :
    (groups f xs).flatMap (·.items) = xs := by
  have := (run_spec f (xs.length + 1) xs none (by intro _ _ h; cases h) (by simp [pend])).1
  simpa [groups, pend] using this

/-- **C40 (2)** Every group is non-empty and all its items have the reported key. -/
theorem group_nonempty_same_key (f : α → κ) (xs : List α) :
    ∀ g ∈ groups f xs, g.items ≠ [] ∧ ∀ x ∈ g.items, f x = g.key := by
  intro g hg
  have := (run_spec f (xs.length + 1) xs none (by intro _ _ h; cases h) (by simp [pend])).2.1 g hg
  exact ⟨this.1, this.2.1⟩

/-- **C40 (3)** Adjacent groups have different keys (so every group is a *maximal* run). -/
theorem adjacent_keys_differ (f : α → κ) (xs : List α) : AdjDiff (groups f xs) :=
  (run_spec f (xs.length + 1) xs none (by intro _ _ h; cases h) (by simp [pend])).2.2.1

/-- **C40 (4)** The reported length is the number of items the group yields. -/
theorem len_eq_count (f : α → κ) (xs : List α) :
    ∀ g ∈ groups f xs, g.len = g.items.length := by
  intro g hg
  exact ((run_spec f (xs.length + 1) xs none (by intro _ _ h; cases h) (by simp [pend])).2.1 g hg).2.2

/-- **C40 (5)** Termination / exhaustion: after the groups, one more `next` returns `None`
whatever additional fuel is supplied — the result does not depend on the fuel. -/
theorem groups_fuel_irrelevant (f : α → κ) (xs : List α) (extra : Nat) :
    (run f (xs.length + 1 + extra) xs none).flatMap (·.items) = xs := by
  have := (run_spec f (xs.length + 1 + extra) xs none (by intro _ _ h; cases h)
    (by simp [pend]; omega)).1
  simpa [pend] using this

/-! ## non-vacuity: concrete inputs (the doc-comment example, a constant key, the empty input) -/

example : (groups (fun x : Nat => x % 2) [1, 3, 5, 2, 4, 6, 7, 9]).map (fun g => (g.key, g.len, g.items))
    = [(1, 3, [1, 3, 5]), (0, 3, [2, 4, 6]), (1, 2, [7, 9])] := by decide
example : (groups (fun _ : Nat => 0) [4, 4, 9]).map (fun g => (g.key, g.len, g.items))
    = [(0, 3, [4, 4, 9])] := by decide
example : (groups (fun x : Nat => x) ([] : List Nat)).length = 0 := by decide

end Mmtk.RevGroup
