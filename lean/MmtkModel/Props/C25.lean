import MmtkModel.Model.Layout
/-!
# C25 — Side-metadata sanity checking rejects exactly the overlapping spec sets

The check run at plan creation accepts a context iff (size budgets hold and) no two distinct global
specs and no two distinct local specs have intersecting metadata address ranges — for **all**
offsets, widths and region sizes.

History: on the pinned tree the predicate computed `end = base + size` instead of `start + size`
(`noOverlapBuggy`); `buggy_accepts_overlap_witness` is the concrete pair the check found on the real
code (replayed through `hx_unit sanity pair …`).  The `fix:` commit repaired it; the theorems below
are about the repaired predicate `noOverlap`, which is what the differential now ties to the code.
-/
namespace Mmtk.Layout

/-- **C25 (pair)** the predicate accepts exactly the non-overlapping pairs. -/
theorem noOverlap_iff (a b : Spec) : noOverlap a b = true ↔ ¬ Overlap a b := by
  unfold noOverlap Overlap
  simp only [Bool.or_eq_true, decide_eq_true_eq]
  omega

theorem allPairsOk_iff (chk : Spec → Spec → Bool) (specs : List Spec) :
    allPairsOk chk specs = true ↔ ∀ a ∈ specs, ∀ b ∈ specs, a ≠ b → chk a b = true := by
  unfold allPairsOk
  simp only [List.all_eq_true, Bool.or_eq_true, decide_eq_true_eq]
  constructor
  · intro h a ha b hb hne
    rcases h a ha b hb with h | h
    · exact absurd h hne
    · exact h
  · intro h a ha b hb
    by_cases e : a = b
    · exact Or.inl e
    · exact Or.inr (h a ha b hb e)

/-- **C25 (global specs)** accepted iff the budget holds and all distinct pairs are disjoint. -/
theorem verifyGlobal_iff (g : List Spec) :
    verifyGlobal noOverlap g = true ↔
      totalSize g ≤ 2 ^ (logAddressSpace - 1) ∧ ∀ a ∈ g, ∀ b ∈ g, a ≠ b → ¬ Overlap a b := by
  unfold verifyGlobal
  simp only [Bool.and_eq_true, decide_eq_true_eq, allPairsOk_iff, noOverlap_iff]

/-- **C25 (local specs)** accepted iff each range is within budget and all distinct pairs are disjoint. -/
theorem verifyLocal_iff (l : List Spec) :
    verifyLocal noOverlap l = true ↔
      (∀ s ∈ l, rangeSize s ≤ 2 ^ (logAddressSpace - 1)) ∧ ∀ a ∈ l, ∀ b ∈ l, a ≠ b → ¬ Overlap a b := by
  unfold verifyLocal
  simp only [Bool.and_eq_true, List.all_eq_true, decide_eq_true_eq, allPairsOk_iff, noOverlap_iff]

/-- **C25 (context)** plan creation does not panic iff global and local sets are each pairwise
disjoint (given well-typed lists and the size budgets); if two global specs — or two local specs —
overlap, it panics. -/
theorem verifyContext_ok_iff (g l : List Spec)
    (hg : ∀ s ∈ g, s.isGlobal = true) (hl : ∀ s ∈ l, s.isGlobal = false) :
    verifyContext noOverlap g l = .ok ↔
      (totalSize g ≤ 2 ^ (logAddressSpace - 1) ∧ ∀ a ∈ g, ∀ b ∈ g, a ≠ b → ¬ Overlap a b) ∧
      ((∀ s ∈ l, rangeSize s ≤ 2 ^ (logAddressSpace - 1)) ∧ ∀ a ∈ l, ∀ b ∈ l, a ≠ b → ¬ Overlap a b) := by
  have h1 : g.all (·.isGlobal) = true := by simpa [List.all_eq_true] using hg
  have h2 : l.all (fun s => !s.isGlobal) = true := by
    simp only [List.all_eq_true, Bool.not_eq_true']; exact hl
  rw [← verifyGlobal_iff, ← verifyLocal_iff]
  unfold verifyContext
  cases hG : verifyGlobal noOverlap g <;> cases hL : verifyLocal noOverlap l <;> simp [h1, h2]

theorem overlap_panics (g l : List Spec) (a b : Spec)
    (h : (a ∈ g ∧ b ∈ g) ∨ (a ∈ l ∧ b ∈ l)) (hne : a ≠ b) (hov : Overlap a b)
    (hg : ∀ s ∈ g, s.isGlobal = true) (hl : ∀ s ∈ l, s.isGlobal = false) :
    verifyContext noOverlap g l ≠ .ok := by
  intro hok
  have := (verifyContext_ok_iff g l hg hl).1 hok
  rcases h with ⟨ha, hb⟩ | ⟨ha, hb⟩
  · exact this.1.2 a ha b hb hne hov
  · exact this.2.2 a ha b hb hne hov

/-! ## The defect found on the pinned tree (fixed by the `fix:` commit) -/

/-- The one direction the old predicate did satisfy. -/
theorem buggy_never_rejects_disjoint (a b : Spec) (h : ¬ Overlap a b) : noOverlapBuggy a b = true := by
  unfold noOverlapBuggy; unfold Overlap at h
  simp only [Bool.or_eq_true, decide_eq_true_eq]
  omega

def witnessA : Spec := { name := 0, isGlobal := true, offset := 2^41, logBits := 0, logRegion := 3 }
def witnessB : Spec := { name := 1, isGlobal := true, offset := 2^41 + 2^25, logBits := 3, logRegion := 22 }

/-- The old predicate accepted an overlapping pair (B's table lies inside A's). -/
theorem buggy_accepts_overlap_witness :
    witnessA.legal ∧ witnessB.legal ∧ Overlap witnessA witnessB ∧ noOverlapBuggy witnessA witnessB = true := by
  decide

/-- … which the repaired predicate rejects. -/
example : noOverlap witnessA witnessB = false := by decide

/-! ## non-vacuity -/
example : verifyContext noOverlap
    [{ name := 0, isGlobal := true, offset := 0, logBits := 0, logRegion := 3 },
     { name := 1, isGlobal := true, offset := 2^41, logBits := 0, logRegion := 3 }]
    [{ name := 2, isGlobal := false, offset := 2^42, logBits := 3, logRegion := 3 }] = .ok := by decide
example : verifyContext noOverlap
    [{ name := 0, isGlobal := true, offset := 0, logBits := 0, logRegion := 3 },
     { name := 1, isGlobal := true, offset := 100, logBits := 0, logRegion := 3 }] [] = .panicOther := by decide

end Mmtk.Layout
