import MmtkModel.Props.C15
import MmtkModel.Props.C11Req
/-!
# C11 — Stop-the-world bracket: stop once, scan each mutator once, resume once

Model: `Model/Sched.lean`.  `stopAll` = the running packet calls `Collection::stop_all_mutators`
(`StopMutators::do_work`), `openFirst` = `notify_mutators_paused` opens the first stop-the-world
bucket, `resume` = `Collection::resume_mutators` inside `on_gc_finished`.  All theorems: every
reachable state / transition, all interleavings, all `n ≥ 1`, every stage table with `Cfg.WF2`
(the generated one has it: `generated_wf2`).

* `stop_before_trace` — a packet can be taken out of a stop-the-world bucket (`pollBucket`,
  `batchMove`), and a packet can be added to a local deque for a stop-the-world stage (`pushLocal`),
  only while the mutators are stopped: every open stop-the-world bucket implies `stopped`
  (`stw_open_means_stopped`): the first one is opened after `stop_all_mutators`, the later ones need the
  first one open and drained.
* `stopped_only_in_gc`, `one_stop_per_gc` — `stop_all_mutators` is called only while a Gc goal is
  current and at most once per bracket (`stops ≤ resumes + [stopped]`).
* `resume_once_after_all` — `resume_mutators` is called exactly in the transition that completes the
  Gc goal (`resumes = gcDone` always): all workers parked, no packet running, every stop-the-world
  bucket closed and empty, every local deque empty.
* `no_stw_after_resume` — while the mutators are not stopped every stop-the-world bucket is closed, so
  no stop-the-world packet can be polled after `resume_mutators` until the next `stop_all_mutators`.
* "every mutator's roots are scanned exactly once" is an instance of packet conservation for the
  per-mutator `ScanMutatorRoots` packets, which the abstract-packet model cannot name; it is checked on
  every replayed GC by the monitor (`gc:scan-twice`, `gc:scan-count`).  Exemption that is part of the
  statement: plans with `needs_forward_after_liveness` (MarkCompact) scan every mutator a second time
  in the `SecondRoots` stage — once per root-scanning pass.
* "a mutator that requested a GC is blocked until that GC has ended": the mutator side of the protocol
  (`MMTK::handle_user_collection_request`, `GCTrigger::request`, `block_for_gc`) is the model
  `Model/Requesters.lean`; theorems in `Props/C11Req.lean` (`Mmtk.Req.requester_blocked_until_gc_end` for any number
  of requesters and every interleaving, `requester_returns_after_gc_end_mono` under nothing but the monotonicity of
  `gcDone`, `blocked_requester_has_pending_gc`, and the `decide`d witness `merged_request_not_blocked` for the seeded
  variant that blocks only if the call itself set the flag).  The facts about the scheduler model that this
  relies on are proved here: `sched_gcDone_mono` (`gcDone = resumes` only grows, by one, and only in the completing
  park), `sched_request_merges` (a request while the flag is set changes nothing: it is merged), and
  `sched_request_sets_flag`.  Tie to the code: the `reqm` monitor replays the requester events of every run against
  `Mmtk.Req.step`, and the oracle `gc:requester-not-blocked` evaluates the statement on hx_gc's `gc2` answers.
-/
namespace Mmtk.Sched

open Mmtk.Generated.Stages in
theorem generated_wf2 (n : Nat) (hn : 0 < n) (m : Bool) : (cfg n m).WF2 := by
  refine { toWF := generated_wf n hn m, first_exists := ⟨firstStwIdx, (by show firstStwIdx < stages.length; decide), (by show (stages.getD firstStwIdx default).isFirstStw = true; decide)⟩, first_enabled := ?_, stw_closed := ?_ }
  · intro b
    show (stages.getD b default).isFirstStw = true → (stages.getD b default).enabledByDefault = true
    exact getD_all stages default (fun x => x.isFirstStw = true → x.enabledByDefault = true) (by decide) (by decide) b
  · intro b
    show (stages.getD b default).isStw = true → (stages.getD b default).openByDefault = false
    exact getD_all stages default (fun x => x.isStw = true → x.openByDefault = false) (by decide) (by decide) b

/-- an open stop-the-world bucket means the mutators are stopped -/
theorem stw_open_means_stopped {c : Cfg} (hwf : c.WF2) {s : State} (h : Reachable c s) (b : Nat) (hb : b < c.L)
    (hs : (c.info b).isStw = true) (ho : (s.bkt b).isOpen = true) : s.stopped = true :=
  (reachable_invS hwf h).2.2.openStopped b hb hs ho

/-- **C11 (1)** `stop_all_mutators` before any stop-the-world packet: taking a packet out of a
stop-the-world bucket, or caching one for a stop-the-world stage in a local deque, is enabled only
while the mutators are stopped. -/
theorem stop_before_trace {c : Cfg} (hwf : c.WF2) {s s' : State} (h : Reachable c s) (w b : Nat)
    (hs : (c.info b).isStw = true) :
    (∀ p, step c s (.pollBucket w b p) = some s' → s.stopped = true) ∧
    (∀ p, step c s (.batchMove w b p) = some s' → s.stopped = true) ∧
    (∀ tag, step c s (.pushLocal w b tag) = some s' → s.stopped = true) := by
  refine ⟨fun p hp => ?_, fun p hp => ?_, fun tag hp => ?_⟩
  · simp only [step] at hp
    split at hp
    · split at hp
      · rename_i hg; exact stw_open_means_stopped hwf h b hg.2.1 hs hg.2.2.2.1
      · cases hp
    · cases hp
  · simp only [step] at hp
    split at hp
    · split at hp
      · rename_i hg; exact stw_open_means_stopped hwf h b hg.2.1 hs hg.2.2.2.1
      · cases hp
    · split at hp
      · rename_i hg; exact stw_open_means_stopped hwf h b hg.2.1 hs hg.2.2.2.1
      · cases hp
    · cases hp
  · simp only [step] at hp
    split at hp
    · rename_i hg; exact stw_open_means_stopped hwf h b hg.2.2.1 hs hg.2.2.2
    · cases hp

/-- mutators are stopped only while a Gc goal is current -/
theorem stopped_only_in_gc {c : Cfg} (hwf : c.WF2) {s : State} (h : Reachable c s) (hs : s.stopped = true) :
    s.current = some .gc :=
  (reachable_invS hwf h).2.2.stoppedGc hs

/-- `stop_all_mutators` is enabled only inside a GC and not twice in one bracket; the counters obey
`stops ≤ resumes + [stopped]`, `resumes = gcDone`. -/
theorem one_stop_per_gc {c : Cfg} (hwf : c.WF2) {s : State} (h : Reachable c s) :
    s.stops ≤ s.resumes + (if s.stopped then 1 else 0) ∧ s.resumes = s.gcDone ∧
    ∀ w s', step c s (.stopAll w) = some s' → s.stopped = false ∧ s.current = some .gc ∧ s'.stopped = true := by
  have inv := (reachable_invS hwf h).2.2
  refine ⟨inv.stopsLe, inv.resumesEq, fun w s' hs => ?_⟩
  simp only [step] at hs
  split at hs
  · rename_i hg; injection hs with hs; subst hs
    exact ⟨by simpa using hg.2.2.2, hg.2.2.1, rfl⟩
  · cases hs

/-- **C11 (2)** `resume_mutators` is called exactly once per collection, in the transition that
completes it, after all GC work has finished. -/
theorem resume_once_after_all {c : Cfg} (hwf : c.WF2) (hmut : c.mutAddOpen = false) {s s' : State} {a : Act}
    (hr : Reachable c s) (hs : step c s a = some s') (hres : s'.resumes ≠ s.resumes) :
    (∃ w tag, a = .park w tag) ∧ s'.resumes = s.resumes + 1 ∧ s'.gcDone = s.gcDone + 1 ∧ s'.stopped = false ∧
    (∀ b, b < c.L → (c.info b).isStw = true → (s'.bkt b).isOpen = false ∧ (s'.bkt b).q = []) ∧
    (∀ x, x < c.n → (s.pc x).isExec = false) ∧ (∀ v, v < c.n → s'.buf v = []) := by
  have i1 := (reachable_invS hwf hr).2.2
  have hr' : Reachable c s' := by
    obtain ⟨run, h⟩ := hr
    refine ⟨run ++ [a], ?_⟩
    have : ∀ (l : List Act) (t : State), exec c t l = some s → exec c t (l ++ [a]) = some s' := by
      intro l
      induction l with
      | nil => intro t e; simp only [exec] at e; injection e with e; subst e; simp [exec, hs]
      | cons b l ih =>
        intro t e
        simp only [exec, List.cons_append] at e ⊢
        cases ht : step c t b with
        | none => rw [ht] at e; cases e
        | some t1 => rw [ht] at e; exact ih t1 e
    exact this run _ h
  have i2 := (reachable_invS hwf hr').2.2
  have hg : s'.gcDone ≠ s.gcDone := by rw [← i1.resumesEq, ← i2.resumesEq]; exact hres
  obtain ⟨hp, g1, _, g3⟩ := all_closed_at_end hwf.toWF hs hg
  obtain ⟨q1, q2⟩ := quiescent_at_end hwf.toWF hmut hr hs hg
  refine ⟨hp, by rw [i2.resumesEq, i1.resumesEq]; exact g1, g1, ?_, g3, q1, q2⟩
  cases hst : s'.stopped with
  | false => rfl
  | true =>
    -- stopped would need an open … no: stopped implies a current Gc goal; but the goal was completed
    exfalso
    obtain ⟨w, tag, rfl⟩ := hp
    obtain ⟨_, _, _, hcase⟩ := step_park_cases hs
    rcases hcase with ⟨_, rfl⟩ | ⟨_, s1, r, hl, he⟩
    · exact hres rfl
    · rcases onLastParked_stopped c hwf.toWF _ s1 tag r hl with ⟨_, a2, _, _⟩ | ⟨a1, _, _, _, _, _⟩
      · apply hres; rw [he]; exact a2
      · rw [he] at hst; rw [a1] at hst; cases hst

/-- **C11 (3)** no stop-the-world work after `resume_mutators`: while the mutators are not stopped,
every stop-the-world bucket is closed. -/
theorem no_stw_after_resume {c : Cfg} (hwf : c.WF2) {s : State} (h : Reachable c s) (hs : s.stopped = false)
    (b : Nat) (hb : b < c.L) (hstw : (c.info b).isStw = true) : (s.bkt b).isOpen = false := by
  cases ho : (s.bkt b).isOpen with
  | false => rfl
  | true => rw [stw_open_means_stopped hwf h b hb hstw ho] at hs; cases hs

/-- `gcDone` (= `resumes`, `one_stop_per_gc`) only grows, and by at most one per transition: the monotonicity the
requester model's environment (`resumeWorld`) assumes. -/
theorem sched_gcDone_mono {c : Cfg} (hwf : c.WF2) {s s' : State} {a : Act} (hs : step c s a = some s') :
    s.gcDone ≤ s'.gcDone ∧ s'.gcDone ≤ s.gcDone + 1 := by
  by_cases hg : s'.gcDone = s.gcDone
  · omega
  · have := (all_closed_at_end hwf.toWF hs hg).2.1
    omega

/-- along every run `gcDone` is monotone -/
theorem sched_gcDone_mono_run {c : Cfg} (hwf : c.WF2) : ∀ (run : List Act) (s s' : State), exec c s run = some s' →
    s.gcDone ≤ s'.gcDone := by
  intro run
  induction run with
  | nil => intro s s' h; simp only [exec] at h; injection h with h; subst h; exact Nat.le_refl _
  | cons a as ih =>
    intro s s' h
    simp only [exec] at h
    cases ht : step c s a with
    | none => rw [ht] at h; cases h
    | some t => rw [ht] at h; exact Nat.le_trans (sched_gcDone_mono hwf ht).1 (ih t s' h)

/-- merging: `GCTrigger::request` while `request_flag` is set is always enabled and changes nothing (in
particular no second `make_request` becomes due) -/
theorem sched_request_merges (c : Cfg) (s : State) (h : s.requestFlag = true) : step c s .requestFlag = some s := by
  simp [step, h]

/-- `GCTrigger::request` with the flag clear sets it and owes exactly one `make_request` -/
theorem sched_request_sets_flag (c : Cfg) (s : State) (h : s.requestFlag = false) :
    ∃ s', step c s .requestFlag = some s' ∧ s'.requestFlag = true ∧ s'.pendingMake = s.pendingMake + 1 ∧
      s'.gcDone = s.gcDone := by
  refine ⟨{ s with requestFlag := true, pendingMake := s.pendingMake + 1 }, ?_, rfl, rfl, rfl⟩
  simp [step, h]

open Mmtk.Generated.Stages in
example : (cfg 8).WF2 := generated_wf2 8 (by decide) false

end Mmtk.Sched
