import MmtkModel.Model.Heap
import MmtkModel.Model.Snap
/-!
# C01 — Collection preserves every reachable object and the reachable graph

This file proves what the snapshot monitor (`gcm`, lean/Driver/GCMon) relies on when it decides C01 at
every `snap` of a real collector run:

* `reach_iff` — the executable worklist closure `reach` (fuel = number of objects + 1) marks exactly the
  ids of the inductive relation `Reachable`: sound AND complete, for every heap (no bound).
* `reach_mono_roots`, `reach_drop_root` — monotone in the root table; dropping a root only shrinks it.
* `applyOp_wf` — every mutator op preserves well-formedness (dense ids, field lists of the declared
  length, every field / root points to an allocated id).
* `checkSnap_sound` — a snapshot the monitor accepts lists every reachable id exactly once and nothing else,
  and agrees with the shadow heap on size, payload hash, fields-as-ids (C01's statement on the graph).

Level: proof of the monitor's model; partial w.r.t. the code (real collections are sampled by the runs).
The theorems about the abstract collection algorithm (`Model/Trace.lean`) go in the section "algorithm"
at the END of this file.
-/
namespace Mmtk.Heap

/-! ### arrays of marks -/

theorem getD_set (v : Array Bool) (i j : Nat) (d : Bool) :
    (v.setIfInBounds i true).getD j d = if i = j ∧ i < v.size then true else v.getD j d := by
  simp only [Array.getD_eq_getD_getElem?, Array.getElem?_setIfInBounds]
  by_cases hij : i = j
  · subst hij
    by_cases hi : i < v.size <;> simp [hi]
  · simp [hij]

theorem getD_true_false {v : Array Bool} {i : Nat} (h : v.getD i true = false) :
    i < v.size ∧ v.getD i false = false := by
  simp only [Array.getD_eq_getD_getElem?] at *
  by_cases hi : i < v.size
  · refine ⟨hi, ?_⟩
    simp [hi] at h ⊢; exact h
  · simp [hi] at h

theorem getD_false_true {v : Array Bool} {i : Nat} (h : v.getD i false = true) : v.getD i true = true := by
  simp only [Array.getD_eq_getD_getElem?] at *
  by_cases hi : i < v.size
  · simp [hi] at h ⊢; exact h
  · simp [hi] at h

theorem marked_lt {v : Array Bool} {i : Nat} (h : v.getD i false = true) : i < v.size := by
  simp only [Array.getD_eq_getD_getElem?] at h
  by_cases hi : i < v.size
  · exact hi
  · simp [hi] at h

theorem inrange_unvisited {v : Array Bool} {i : Nat} (hi : i < v.size) (h : v.getD i true = true) :
    v.getD i false = true := by
  simp only [Array.getD_eq_getD_getElem?] at *
  simp [hi] at h ⊢; exact h

/-- number of unmarked entries -/
def unmarked (v : Array Bool) : Nat := v.toList.count false

theorem count_false_set : ∀ (l : List Bool) (i : Nat), l[i]? = some false →
    (l.set i true).count false + 1 = l.count false
  | [], i, h => by simp at h
  | b :: l, 0, h => by
    simp at h; subst h; simp
  | b :: l, i + 1, h => by
    simp at h
    have := count_false_set l i h
    cases b <;> simp [List.count_cons] <;> omega

theorem unmarked_set {v : Array Bool} {i : Nat} (h : v.getD i true = false) :
    unmarked (v.setIfInBounds i true) + 1 = unmarked v := by
  unfold unmarked
  rw [Array.toList_setIfInBounds]
  apply count_false_set
  have ⟨hi, _⟩ := getD_true_false h
  simp only [Array.getD_eq_getD_getElem?] at h
  simp [hi] at h
  simp [hi, h]

/-! ### the skipping of visited work items -/

theorem skip_spec (v : Array Bool) : ∀ work : List Id,
    (skipVisited v work = [] ∧ ∀ x ∈ work, v.getD x true = true) ∨
    (∃ i rest, skipVisited v work = i :: rest ∧ v.getD i true = false ∧ i ∈ work ∧
      (∀ x ∈ rest, x ∈ work) ∧ ∀ x ∈ work, x = i ∨ x ∈ rest ∨ v.getD x true = true)
  | [] => by simp [skipVisited]
  | a :: work => by
    unfold skipVisited
    by_cases ha : v.getD a true = true
    · simp only [ha, if_true]
      rcases skip_spec v work with ⟨h1, h2⟩ | ⟨i, rest, h1, h2, h3, h4, h5⟩
      · left; refine ⟨h1, ?_⟩
        intro x hx; rcases List.mem_cons.1 hx with rfl | hx
        · exact ha
        · exact h2 x hx
      · right; refine ⟨i, rest, h1, h2, List.mem_cons_of_mem _ h3, fun x hx => List.mem_cons_of_mem _ (h4 x hx), ?_⟩
        intro x hx; rcases List.mem_cons.1 hx with rfl | hx
        · exact Or.inr (Or.inr ha)
        · exact h5 x hx
    · have ha' : v.getD a true = false := by cases hh : v.getD a true <;> simp_all
      simp only [ha', Bool.false_eq_true, if_false]
      right; refine ⟨a, work, rfl, ha', List.mem_cons_self, fun x hx => List.mem_cons_of_mem _ hx, ?_⟩
      intro x hx; rcases List.mem_cons.1 hx with rfl | hx
      · exact Or.inl rfl
      · exact Or.inr (Or.inl hx)

/-! ### soundness: everything marked is reachable -/

theorem reachAux_sound (h : Heap) (roots : List Id) : ∀ (fuel : Nat) (work : List Id) (v : Array Bool),
    v.size = h.objs.size →
    (∀ i, v.getD i false = true → ReachableFrom h roots i) →
    (∀ i ∈ work, i < h.objs.size → ReachableFrom h roots i) →
    ∀ i, (reachAux h fuel work v).getD i false = true → ReachableFrom h roots i
  | 0, _, v, _, hv, _ => by simpa [reachAux] using hv
  | fuel + 1, work, v, hs, hv, hw => by
    unfold reachAux
    rcases skip_spec v work with ⟨h1, _⟩ | ⟨i, rest, h1, h2, h3, h4, _⟩
    · rw [h1]; exact hv
    · rw [h1]
      have ⟨hi, _⟩ := getD_true_false h2
      have hir : ReachableFrom h roots i := hw i h3 (hs ▸ hi)
      apply reachAux_sound h roots fuel
      · simp [hs]
      · intro j hj
        rw [getD_set] at hj
        by_cases hc : i = j ∧ i < v.size
        · exact hc.1 ▸ hir
        · rw [if_neg hc] at hj; exact hv j hj
      · intro j hj hjs
        rcases List.mem_append.1 hj with hj | hj
        · exact ReachableFrom.step hir hj hjs
        · exact hw j (h4 j hj) hjs

/-! ### completeness: with fuel > number of unmarked entries the result is closed -/

/-- every child (in range) of a marked object is marked or still in the worklist -/
def Closed (h : Heap) (v : Array Bool) (work : List Id) : Prop :=
  ∀ i, v.getD i false = true → ∀ j ∈ h.childrenOf i, j < h.objs.size → v.getD j false = true ∨ j ∈ work

theorem reachAux_complete (h : Heap) : ∀ (fuel : Nat) (work : List Id) (v : Array Bool),
    v.size = h.objs.size → unmarked v < fuel → Closed h v work →
    (∀ i, v.getD i false = true → (reachAux h fuel work v).getD i false = true) ∧
    (∀ i ∈ work, i < h.objs.size → (reachAux h fuel work v).getD i false = true) ∧
    Closed h (reachAux h fuel work v) []
  | 0, _, _, _, hf, _ => by omega
  | fuel + 1, work, v, hs, hf, hc => by
    unfold reachAux
    rcases skip_spec v work with ⟨h1, h2⟩ | ⟨i, rest, h1, h2, h3, h4, h5⟩
    · rw [h1]
      refine ⟨fun _ hi => hi, fun i hi his => inrange_unvisited (hs ▸ his) (h2 i hi), ?_⟩
      intro i hi j hj hjs
      rcases hc i hi j hj hjs with hm | hm
      · exact Or.inl hm
      · exact Or.inl (inrange_unvisited (hs ▸ hjs) (h2 j hm))
    · rw [h1]
      have ⟨hi, _⟩ := getD_true_false h2
      have hmono : ∀ j, v.getD j false = true → (v.setIfInBounds i true).getD j false = true := by
        intro j hj; rw [getD_set]; split <;> simp_all
      have hnew : (v.setIfInBounds i true).getD i false = true := by rw [getD_set]; simp [hi]
      have hcl : Closed h (v.setIfInBounds i true) (h.childrenOf i ++ rest) := by
        intro k hk j hj hjs
        rw [getD_set] at hk
        by_cases hki : i = k ∧ i < v.size
        · right; exact List.mem_append_left _ (hki.1 ▸ hj)
        · rw [if_neg hki] at hk
          rcases hc k hk j hj hjs with hm | hm
          · exact Or.inl (hmono j hm)
          · rcases h5 j hm with rfl | hr | hvis
            · exact Or.inl hnew
            · exact Or.inr (List.mem_append_right _ hr)
            · exact Or.inl (hmono j (inrange_unvisited (hs ▸ hjs) hvis))
      have hfu : unmarked (v.setIfInBounds i true) < fuel := by
        have := unmarked_set h2; omega
      have ⟨r1, r2, r3⟩ := reachAux_complete h fuel (h.childrenOf i ++ rest) (v.setIfInBounds i true)
        (by simp [hs]) hfu hcl
      refine ⟨fun j hj => r1 j (hmono j hj), ?_, r3⟩
      intro j hj hjs
      rcases h5 j hj with rfl | hr | hvis
      · exact r1 _ hnew
      · exact r2 j (List.mem_append_right _ hr) hjs
      · exact r1 j (hmono j (inrange_unvisited (hs ▸ hjs) hvis))

theorem unmarked_replicate (n : Nat) : unmarked (Array.replicate n false) = n := by
  simp [unmarked]

theorem getD_replicate_false (n i : Nat) : (Array.replicate n false).getD i false = false := by
  simp only [Array.getD_eq_getD_getElem?]
  by_cases hi : i < n <;> simp [hi]

/-- **`reach` is sound and complete** w.r.t. the inductive reachability relation, from any root list,
for every heap: fuel = number of objects + 1 always suffices. -/
theorem reachFrom_iff (h : Heap) (roots : List Id) (i : Id) :
    (reachFrom h roots).getD i false = true ↔ ReachableFrom h roots i := by
  unfold reachFrom
  constructor
  · apply reachAux_sound h roots
    · simp
    · intro j hj; rw [getD_replicate_false] at hj; cases hj
    · intro j hj hjs; exact ReachableFrom.root hj hjs
  · intro hr
    have ⟨_, r2, r3⟩ := reachAux_complete h (h.objs.size + 1) roots (Array.replicate h.objs.size false)
      (by simp) (by rw [unmarked_replicate]; omega)
      (by intro k hk; rw [getD_replicate_false] at hk; cases hk)
    induction hr with
    | root hm hs => exact r2 _ hm hs
    | step _ hj hjs ih =>
      rcases r3 _ ih _ hj hjs with hm | hm
      · exact hm
      · cases hm

theorem reach_iff (h : Heap) (i : Id) : h.isReachable i = true ↔ Reachable h i :=
  reachFrom_iff h h.rootIds i

/-! ### monotonicity in the roots -/

theorem reachableFrom_mono {h : Heap} {r r' : List Id} (hsub : ∀ x ∈ r, x ∈ r') {i : Id}
    (hr : ReachableFrom h r i) : ReachableFrom h r' i := by
  induction hr with
  | root hm hs => exact ReachableFrom.root (hsub _ hm) hs
  | step _ hj hjs ih => exact ReachableFrom.step ih hj hjs

/-- `reach` is monotone in the roots (same objects, more roots ⇒ at least the same marks). -/
theorem reach_mono_roots (h : Heap) (r r' : List Id) (hsub : ∀ x ∈ r, x ∈ r') (i : Id)
    (hm : (reachFrom h r).getD i false = true) : (reachFrom h r').getD i false = true :=
  (reachFrom_iff h r' i).2 (reachableFrom_mono hsub ((reachFrom_iff h r i).1 hm))

theorem mem_setRoot_none : ∀ (l : List (Nat × Id)) (k : Nat) (kv : Nat × Id), kv ∈ setRoot l k none → kv ∈ l
  | [], _, _, h => by simp [setRoot] at h
  | (k', v') :: rest, k, kv, h => by
    unfold setRoot at h
    split at h
    · rcases List.mem_cons.1 h with rfl | h
      · exact List.mem_cons_self
      · exact List.mem_cons_of_mem _ (mem_setRoot_none rest k kv h)
    · split at h
      · exact List.mem_cons_of_mem _ h
      · exact h

theorem mem_setRoot_some : ∀ (l : List (Nat × Id)) (k : Nat) (x : Id) (kv : Nat × Id),
    kv ∈ setRoot l k (some x) → kv = (k, x) ∨ kv ∈ l
  | [], _, _, _, h => by simp [setRoot] at h; exact Or.inl h
  | (k', v') :: rest, k, x, kv, h => by
    unfold setRoot at h
    split at h
    · rcases List.mem_cons.1 h with rfl | h
      · exact Or.inr List.mem_cons_self
      · rcases mem_setRoot_some rest k x kv h with h | h
        · exact Or.inl h
        · exact Or.inr (List.mem_cons_of_mem _ h)
    · split at h
      · rcases List.mem_cons.1 h with rfl | h
        · exact Or.inl rfl
        · exact Or.inr (List.mem_cons_of_mem _ h)
      · rcases List.mem_cons.1 h with rfl | h
        · exact Or.inl rfl
        · exact Or.inr h

/-- Dropping a root (`root m slot null`) only shrinks the reachable set. -/
theorem reach_drop_root (h : Heap) (k : Nat) (i : Id)
    (hm : Heap.isReachable { h with roots := setRoot h.roots k none } i = true) : h.isReachable i = true := by
  have h1 := (reach_iff _ i).1 hm
  apply (reach_iff h i).2
  have hsub : ∀ x ∈ Heap.rootIds { h with roots := setRoot h.roots k none }, x ∈ h.rootIds := by
    intro x hx
    simp only [Heap.rootIds, List.mem_map] at hx ⊢
    obtain ⟨kv, hkv, rfl⟩ := hx
    exact ⟨kv, mem_setRoot_none _ _ _ hkv, rfl⟩
  have h2 : ReachableFrom { h with roots := setRoot h.roots k none } h.rootIds i := reachableFrom_mono hsub h1
  clear h1 hm hsub
  induction h2 with
  | root hm hs => exact ReachableFrom.root hm hs
  | step _ hj hjs ih => exact ReachableFrom.step ih hj hjs

/-! ### well-formedness is preserved by every mutator op -/

theorem wf_empty : WF {} := by
  constructor
  · intro i hi; exact absurd hi (Nat.not_lt_zero i)
  · intro i hi; exact absurd hi (Nat.not_lt_zero i)
  · intro i hi; exact absurd hi (Nat.not_lt_zero i)
  · intro kv hkv; exact absurd hkv List.not_mem_nil

theorem wf_modify {h : Heap} (wf : WF h) (i : Id) (f : Obj → Obj)
    (hid : ∀ o, (f o).id = o.id)
    (hlen : ∀ (hi : i < h.objs.size), (f h.objs[i]).fields.length = (f h.objs[i]).nfields)
    (hf : ∀ (hi : i < h.objs.size) j, some j ∈ (f h.objs[i]).fields → j < h.objs.size) :
    WF (h.modifyObj i f) := by
  constructor
  · intro k hk
    simp only [Heap.modifyObj, Array.size_modify] at hk
    simp only [Heap.modifyObj, Array.getElem_modify]
    split
    · rw [hid]; exact wf.ids k hk
    · exact wf.ids k hk
  · intro k hk
    simp only [Heap.modifyObj, Array.size_modify] at hk
    simp only [Heap.modifyObj, Array.getElem_modify]
    split
    · rename_i hik; subst hik; exact hlen hk
    · exact wf.len k hk
  · intro k hk j hj
    simp only [Heap.modifyObj, Array.size_modify] at hk ⊢
    simp only [Heap.modifyObj, Array.getElem_modify] at hj
    split at hj
    · rename_i hik; subst hik; exact hf hk j hj
    · exact wf.fields k hk j hj
  · intro kv hkv
    simp only [Heap.modifyObj, Array.size_modify]
    exact wf.roots kv hkv

theorem wf_push {h : Heap} (wf : WF h) (o : Obj) (roots : List (Nat × Id))
    (hid : o.id = h.objs.size) (hlen : o.fields.length = o.nfields) (hf : ∀ j, some j ∈ o.fields → j < h.objs.size + 1)
    (hr : ∀ kv ∈ roots, kv.2 < h.objs.size + 1) : WF { objs := h.objs.push o, roots := roots } := by
  constructor
  · intro k hk
    have hk' : k < h.objs.size + 1 := by simpa using hk
    dsimp only
    simp only [Array.getElem_push]
    split
    · exact wf.ids k _
    · rename_i hnlt
      rw [hid]
      exact (Nat.le_antisymm (Nat.le_of_lt_succ hk') (Nat.le_of_not_lt hnlt)).symm
  · intro k hk
    dsimp only
    simp only [Array.getElem_push]
    split
    · exact wf.len k _
    · exact hlen
  · intro k hk j hj
    dsimp only at hj ⊢
    simp only [Array.size_push]
    simp only [Array.getElem_push] at hj
    split at hj
    · rename_i hlt; exact Nat.lt_succ_of_lt (wf.fields k hlt j hj)
    · exact hf j hj
  · intro kv hkv
    dsimp only at hkv ⊢
    simp only [Array.size_push]
    exact hr kv hkv

/-- **Every mutator op preserves well-formedness** (fields and roots point to allocated ids, dense
ids, field lists of the declared length). -/
theorem applyOp_wf {h h' : Heap} (wf : WF h) (op : Op) (hop : applyOp h op = some h') : WF h' := by
  cases op with
  | alloc key id nf size sem =>
    simp only [applyOp] at hop
    split at hop
    · rename_i hid
      cases hop
      apply wf_push wf
      · exact hid
      · simp
      · intro j hj; simp [List.mem_replicate] at hj
      · intro kv hkv
        rcases mem_setRoot_some _ _ _ _ hkv with rfl | hm
        · show id < h.objs.size + 1
          rw [hid]; exact Nat.lt_succ_self _
        · exact Nat.lt_succ_of_lt (wf.roots kv hm)
    · cases hop
  | allocFail id =>
    simp only [applyOp] at hop
    split at hop
    · rename_i hid
      cases hop
      apply wf_push wf
      · exact hid
      · simp
      · intro j hj; simp at hj
      · intro kv hkv
        exact Nat.lt_succ_of_lt (wf.roots kv hkv)
    · cases hop
  | root key v =>
    simp only [applyOp] at hop
    split at hop
    · rename_i hk
      cases hop
      refine ⟨wf.ids, wf.len, wf.fields, ?_⟩
      intro kv hkv
      cases v with
      | none => exact wf.roots kv (mem_setRoot_none _ _ _ hkv)
      | some x =>
        rcases mem_setRoot_some _ _ _ _ hkv with rfl | hm
        · simpa [Heap.knows] using hk
        · exact wf.roots kv hm
    · cases hop
  | write src f v =>
    simp only [applyOp] at hop
    split at hop
    · rename_i o ho
      split at hop
      · rename_i hc
        cases hop
        apply wf_modify wf
        · intro o; rfl
        · intro hi; simp only [List.length_set]; exact wf.len src hi
        · intro hi j hj
          rcases List.mem_or_eq_of_mem_set hj with hm | he
          · exact wf.fields src hi j hm
          · cases v with
            | none => cases he
            | some x => cases he; simpa [Heap.knows] using hc.2
      · cases hop
    · cases hop
  | copyrange src sf dst df n =>
    simp only [applyOp] at hop
    split at hop
    · rename_i s d hs hd
      split at hop
      · rename_i hc
        cases hop
        have hss : src < h.objs.size := by
          have := Array.getElem?_eq_some_iff.1 hs; exact this.1
        have hs' : h.objs[src] = s := by
          have := Array.getElem?_eq_some_iff.1 hs; exact this.2
        apply wf_modify wf
        · intro o; rfl
        · intro hi
          have hd' : h.objs[dst] = d := by
            have := Array.getElem?_eq_some_iff.1 hd; exact this.2
          have l1 := wf.len dst hi
          have l2 := wf.len src hss
          rw [hd'] at l1 ⊢; rw [hs'] at l2
          simp only [List.length_append, List.length_take, List.length_drop]
          omega
        · intro hi j hj
          simp only [List.mem_append] at hj
          rcases hj with (hj | hj) | hj
          · exact wf.fields dst hi j (List.mem_of_mem_take hj)
          · have := List.mem_of_mem_drop (List.mem_of_mem_take hj)
            exact wf.fields src hss j (hs' ▸ this)
          · exact wf.fields dst hi j (List.mem_of_mem_drop hj)
      · cases hop
    all_goals cases hop
  | destroy m =>
    simp only [applyOp] at hop
    cases hop
    refine ⟨wf.ids, wf.len, wf.fields, ?_⟩
    intro kv hkv
    exact wf.roots kv (List.mem_filter.1 hkv).1
  | mkref id =>
    simp only [applyOp] at hop
    split at hop
    · split at hop
      · cases hop
        apply wf_modify wf
        · intro o; rfl
        · intro hi; exact wf.len id hi
        · intro hi j hj; exact wf.fields id hi j hj
      · cases hop
    · cases hop
  | pin id on =>
    simp only [applyOp] at hop
    split at hop
    · cases hop
      apply wf_modify wf
      · intro o; rfl
      · intro hi; exact wf.len id hi
      · intro hi j hj; exact wf.fields id hi j hj
    · cases hop

/-! ### a snapshot the monitor accepts is the reachable graph -/

theorem strictIncr_pairwise : ∀ (l : List Id), strictIncr l = true → l.Pairwise (· < ·)
  | [], _ => List.Pairwise.nil
  | [a], _ => by simp
  | a :: b :: rest, h => by
    simp only [strictIncr, Bool.and_eq_true, decide_eq_true_eq] at h
    have ih := strictIncr_pairwise (b :: rest) h.2
    refine List.pairwise_cons.2 ⟨?_, ih⟩
    intro c hc
    rcases List.mem_cons.1 hc with rfl | hc
    · exact h.1
    · exact Nat.lt_trans h.1 ((List.pairwise_cons.1 ih).1 c hc)

theorem firstSome_none {α β} (f : α → Option β) : ∀ (l : List α), firstSome f l = none → ∀ a ∈ l, f a = none
  | [], _, a, ha => by cases ha
  | x :: rest, h, a, ha => by
    unfold firstSome at h
    split at h
    · cases h
    · rename_i hx
      rcases List.mem_cons.1 ha with rfl | ha
      · exact hx
      · exact firstSome_none f rest h a ha

theorem checkObj_none {h : Heap} {r : Array Bool} {o : SObj} (hc : checkObj h r o = none) :
    ∃ w, h.objs[o.id]? = some w ∧ r.getD o.id false = true ∧ o.size = w.size ∧ o.hashok = true ∧
      objFieldsOk w o = true := by
  unfold checkObj at hc
  split at hc
  · cases hc
  · rename_i w hw
    refine ⟨w, hw, ?_⟩
    by_cases h1 : r.getD o.id false = true
    · by_cases h2 : o.size = w.size
      · by_cases h3 : o.hashok = true
        · by_cases h4 : objFieldsOk w o = true
          · exact ⟨h1, h2, h3, h4⟩
          · simp [h1, h2, h3, h4] at hc
        · simp [h1, h2, h3] at hc
      · simp [h1, h2] at hc
    · simp [h1] at hc

theorem firstLost_none (r seen : Array Bool) : ∀ (n : Nat), firstLost r seen n = none →
    ∀ i, i < n → r.getD i false = true → seen.getD i false = true
  | 0, _, i, hi, _ => by omega
  | n + 1, h, i, hi, hr => by
    unfold firstLost at h
    split at h
    · cases h
    · rename_i hn
      by_cases hin : i = n
      · subst hin
        by_cases hs : seen.getD i false = true
        · exact hs
        · simp [hr, hs] at h
      · exact firstLost_none r seen n hn i (by omega) hr

theorem foldl_mark_mem (j : Nat) : ∀ (ids : List Id) (a : Array Bool),
    (ids.foldl (fun a i => a.setIfInBounds i true) a).getD j false = true → a.getD j false = true ∨ j ∈ ids
  | [], a, h => Or.inl h
  | i :: rest, a, h => by
    simp only [List.foldl_cons] at h
    rcases foldl_mark_mem j rest _ h with h' | h'
    · rw [getD_set] at h'
      by_cases hc : i = j ∧ i < a.size
      · exact Or.inr (hc.1 ▸ List.mem_cons_self)
      · rw [if_neg hc] at h'; exact Or.inl h'
    · exact Or.inr (List.mem_cons_of_mem _ h')

theorem reachable_lt {h : Heap} {roots : List Id} {i : Id} (hr : ReachableFrom h roots i) : i < h.objs.size := by
  cases hr with
  | root _ hs => exact hs
  | step _ _ hs => exact hs

/-- **C01 on the graph**: if `checkSnap` accepts a snapshot then (1) every id is listed at most once, (2) every
listed object is `Reachable` in the shadow heap and agrees with it on size, payload hash and fields-as-ids,
(3) every `Reachable` id is listed, (4) the root slots hold the right ids. -/
theorem checkSnap_sound (h : Heap) (s : Snap) (hc : checkSnap h s = none) :
    (s.objs.map (·.id)).Pairwise (· < ·) ∧
    (∀ o ∈ s.objs, Reachable h o.id ∧ ∃ w, h.objs[o.id]? = some w ∧ o.size = w.size ∧ o.hashok = true ∧
      objFieldsOk w o = true) ∧
    (∀ i, Reachable h i → ∃ o ∈ s.objs, o.id = i) ∧
    rootsOk h.roots s.roots = true := by
  unfold checkSnap at hc
  simp only at hc
  split at hc
  · cases hc
  · rename_i hinc
    split at hc
    · cases hc
    · rename_i hobjs
      split at hc
      · cases hc
      · rename_i hlost
        split at hc
        · cases hc
        · rename_i hroots
          refine ⟨strictIncr_pairwise _ (by simpa using hinc), ?_, ?_, by simpa using hroots⟩
          · intro o ho
            have ⟨w, hw, hr, h2, h3, h4⟩ := checkObj_none (firstSome_none _ _ hobjs o ho)
            exact ⟨(reach_iff h o.id).1 hr, w, hw, h2, h3, h4⟩
          · intro i hi
            have hm : (reach h).getD i false = true := (reach_iff h i).2 hi
            have hseen := firstLost_none _ _ _ hlost i (reachable_lt hi) hm
            rcases foldl_mark_mem i _ _ hseen with h0 | hmem
            · rw [getD_replicate_false] at h0; cases h0
            · obtain ⟨o, ho, rfl⟩ := List.mem_map.1 hmem
              exact ⟨o, ho, rfl⟩

/-! ### the hypotheses are satisfiable: a concrete heap (a cycle 0 → 1 → 0, garbage 2, shared 3) -/

def exHeap : Heap :=
  { objs := #[{ id := 0, size := 48, sem := .default, nfields := 2, fields := [some 1, some 3] },
              { id := 1, size := 40, sem := .los, nfields := 1, fields := [some 0] },
              { id := 2, size := 40, sem := .default, nfields := 1, fields := [some 3] },
              { id := 3, size := 32, sem := .immortal, nfields := 0, fields := [] }],
    roots := [(mutKey 0 5, 0)] }

example : exHeap.isReachable 1 = true ∧ exHeap.isReachable 3 = true ∧ exHeap.isReachable 2 = false := by decide
example : Reachable exHeap 3 :=
  .step (i := 0) (.root (by decide) (by decide)) (by decide) (by decide)
def exSnap (withShared : Bool) : Snap :=
  { gcs := 1, roots := [(mutKey 0 5, SVal.id 0)],
    objs := [⟨0, 0x1010, 48, 'D', true, [SVal.id 1, SVal.id 3]⟩, ⟨1, 0x2008, 40, 'L', true, [SVal.id 0]⟩] ++
            (if withShared then [⟨3, 0x3008, 32, 'I', true, []⟩] else []) }

example : (checkSnap exHeap (exSnap true)).map (·.1) = none := by decide
example : (checkSnap exHeap (exSnap false)).map (·.1) = some "gc:lost-object" := by decide

/-! ### algorithm

(reserved for the lead's theorems about the abstract collection algorithm of `Model/Trace.lean`:
every schedule of the worklist closure yields an isomorphic copy of the reachable graph)
-/

end Mmtk.Heap
