import MmtkModel.Model.Heap
import MmtkModel.Model.Snap
/-!
# C03 — Allocation results honour size, alignment, offset, zeroing and semantics

The monitor evaluates `checkAlloc` on every `alloc` result of the real allocator. Proved here: the verdict
function answers `none` EXACTLY when the conjunction of C03's clauses holds (`checkAlloc_none_iff`), and the
object size requested by the harness covers header + fields + payload, is a multiple of 8 and at least 32
(`sizeFor_ge`, `sizeFor_aligned`, `sizeFor_min`) — so "granted size = `sizeFor`" is "size ≥ requested".
Termination is observed (watchdog `timeout`), not proved: it depends on the scheduler (C14).
Level: proof of the verdict function; partial w.r.t. the code.
The allocators' own arithmetic (aligned, inside the granted buffer / block / page run / cell, for every
legal input; the LOS page-cover lemma) is proved over the transcribed allocators in `Props/C03Algo.lean`.
`gc:bump-align-leak` is repaired in this tree (`acquire_block` sizes the block for
`get_maximum_aligned_size`): `fresh_block_always_fits` proves the bump allocator's slow path always
succeeds on a legal request (termination clause restored for that allocator); the exact failure condition
and witnesses for the pinned tree are kept there as `fresh_block_fits_iff`, `bump_align_leak(_witness)`.
-/
namespace Mmtk.Heap

/-- the statement of C03 on one successful allocation -/
structure AllocGood (refoff nf payload align offset : Nat) (want : String) (x : AllocRes) : Prop where
  nonnull : x.a ≠ 0
  align_pos : align ≠ 0
  aligned : (x.a + offset) % align = 0
  size : x.sz = sizeFor refoff nf payload
  inmmtk : x.inmmtk = true
  zero : x.zero = true
  space : x.space = want
  ref : x.r = x.a + refoff

theorem checkAlloc_none_iff (refoff nf payload align offset : Nat) (want : String) (x : AllocRes) :
    checkAlloc refoff nf payload align offset want x = none ↔ AllocGood refoff nf payload align offset want x := by
  unfold checkAlloc
  constructor
  · intro h
    by_cases h1 : x.a = 0
    · simp [h1] at h
    by_cases h2 : align = 0
    · simp [h1, h2] at h
    by_cases h3 : (x.a + offset) % align = 0
    · by_cases h4 : x.sz = sizeFor refoff nf payload
      · by_cases h5 : x.inmmtk = true
        · by_cases h6 : x.zero = true
          · by_cases h7 : x.space = want
            · by_cases h8 : x.r = x.a + refoff
              · exact ⟨h1, h2, h3, h4, h5, h6, h7, h8⟩
              · simp [h1, h2, h3, h4, h5, h6, h7, h8] at h
            · simp [h1, h2, h3, h4, h5, h6, h7] at h
          · simp [h1, h2, h3, h4, h5, h6] at h
        · simp [h1, h2, h3, h4, h5] at h
      · simp [h1, h2, h3, h4] at h
    · simp [h1, h2, h3] at h
  · intro ⟨h1, h2, h3, h4, h5, h6, h7, h8⟩
    simp [h1, h2, h3, h4, h5, h6, h7, h8]

theorem sizeFor_ge (refoff nf payload : Nat) : refoff + 24 + 8 * nf + payload ≤ sizeFor refoff nf payload := by
  unfold sizeFor
  simp only [Nat.max_def]
  split <;> omega

theorem sizeFor_aligned (refoff nf payload : Nat) : sizeFor refoff nf payload % 8 = 0 := by
  unfold sizeFor
  simp only [Nat.max_def]
  split <;> omega

theorem sizeFor_min (refoff nf payload : Nat) : 32 ≤ sizeFor refoff nf payload := by
  unfold sizeFor
  simp only [Nat.max_def]
  split <;> omega

/-- the hypotheses are satisfiable: the first allocation of the probe run of SemiSpace -/
example : AllocGood 8 2 100 16 8 "copyspace"
    { a := 0x20000000008, r := 0x20000000010, sz := 152, zero := true, inmmtk := true, space := "copyspace" } :=
  ⟨by decide, by decide, by decide, by decide, rfl, rfl, rfl, by decide⟩

example : checkAlloc 8 2 100 16 8 "copyspace"
    { a := 0x20000000010, r := 0x20000000018, sz := 152, zero := true, inmmtk := true, space := "copyspace" }
    = some "gc:misaligned" := by decide

end Mmtk.Heap
