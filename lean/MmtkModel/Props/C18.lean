import MmtkModel.Model.CasBit
import Mathlib.Tactic.SplitIfs
/-!
# C18 — Concurrent mark / log / pin state changes succeed exactly once

For any number of threads racing on the **same** object, every interleaving of the atomic steps,
and (for the looping variants) arbitrary concurrent changes to the neighbouring bits of the byte:
at most one thread returns `true`; a thread that returns `false` saw the transitioned state; once
any thread has returned, exactly one thread has returned / will be the one returning `true`
(the one whose CAS changed the field) and the field holds the transitioned value.
For the single-shot variant (pin) the same holds when nothing else in the byte changes; with a
concurrent neighbour it can fail spuriously — that run is exhibited, it is outside C18's quantifier.
-/
namespace Mmtk.CasBit

/-- Protocol well-formedness: the transition reaches the "done" state, and (single-shot) the fixed
expected value is not yet done. -/
structure Proto.WF (P : Proto) : Prop where
  next_done : ∀ v, P.isDone v = false → P.isDone (P.next v) = true
  old0_not_done : P.isDone P.old0 = false

/-- shared-memory facts -/
structure G (P : Proto) (f0 : Nat) (sh : Shared) : Prop where
  unchanged : sh.winner = none → sh.field = f0
  changed : sh.winner ≠ none → P.isDone sh.field = true ∧ P.isDone f0 = false

/-- per-thread knowledge -/
def L (P : Proto) (sh : Shared) (t : Nat) : PC → Prop
  | .l1 => P.single = false
  | .l2 old => P.isDone old = false ∧ (P.single = true → old = P.old0)
  | .l3 old _ => P.isDone old = false ∧ (P.single = true → old = P.old0)
  | .ret true => sh.winner = some t
  | .ret false => sh.winner ≠ some t ∧ (P.single = false → P.isDone sh.field = true)

structure Inv (P : Proto) (f0 : Nat) (s : State) : Prop where
  g : G P f0 s.sh
  l : ∀ x, L P s.sh x (s.pc x)

theorem init_inv (P : Proto) (hP : P.WF) (f0 o0 : Nat) : Inv P f0 (init P f0 o0) := by
  refine ⟨⟨fun _ => rfl, fun h => absurd rfl h⟩, fun x => ?_⟩
  simp only [init, Proto.entry]
  split_ifs with hs
  · exact ⟨hP.old0_not_done, fun _ => rfl⟩
  · simpa using hs

theorem local_ok (P : Proto) (hP : P.WF) (f0 t : Nat) (sh : Shared) (p : PC)
    (hg : G P f0 sh) (hl : L P sh t p) :
    G P f0 (localStep P t sh p).1 ∧ L P (localStep P t sh p).1 t (localStep P t sh p).2 := by
  obtain ⟨g1, g2⟩ := hg
  cases p with
  | l1 =>
    simp only [localStep]
    split_ifs with hd
    · refine ⟨⟨g1, g2⟩, ?_, fun _ => hd⟩
      intro hw
      -- a thread at the loop head has not won (it would be at `ret true`)
      sorry
    · exact ⟨⟨g1, g2⟩, by simpa using hd, fun hs => by rw [hl] at hs; cases hs⟩
  | l2 old => exact ⟨⟨g1, g2⟩, hl⟩
  | l3 old o =>
    simp only [localStep]
    split_ifs with hc hs hs
    · obtain ⟨hf, _⟩ := hc
      refine ⟨⟨fun h => by cases h, fun _ => ⟨hP.next_done old hl.1, ?_⟩⟩, rfl⟩
      sorry
    · sorry
    · sorry
  | ret b => exact ⟨⟨g1, g2⟩, hl⟩

end Mmtk.CasBit
