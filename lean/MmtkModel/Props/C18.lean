import MmtkModel.Model.CasBit
import MmtkModel.Model.CasBitTie
import Mathlib.Tactic.SplitIfs
/-!
# C18 — Concurrent mark / log / pin state changes succeed exactly once

For any number of threads racing on the **same** object, every interleaving of the atomic steps,
and (for the looping variants) arbitrary concurrent changes to the neighbouring bits of the byte:
at most one thread returns `true`; a thread that returns `false` saw the transitioned state; as soon
as any thread has returned, the field holds the transitioned value and exactly one thread is the
one that returns `true` (the one whose CAS changed the field).
For the single-shot variant (pin) the same holds when nothing else in the byte changes; with a
concurrent neighbour it can fail spuriously — that run is exhibited; it is outside C18's quantifier
(threads racing on the *same* object).
-/
namespace Mmtk.CasBit

/-- Protocol well-formedness: the transition reaches the "done" state, and the fixed expected value
of the single-shot variant is not yet done. -/
structure Proto.WF (P : Proto) : Prop where
  next_done : ∀ v, P.isDone v = false → P.isDone (P.next v) = true
  old0_not_done : P.isDone P.old0 = false

/-- shared-memory facts (`f0` is the initial field value) -/
structure G (P : Proto) (f0 : Nat) (sh : Shared) : Prop where
  unchanged : sh.winner = none → sh.field = f0
  changed : sh.winner ≠ none → P.isDone sh.field = true ∧ P.isDone f0 = false ∧ sh.field = P.next f0

/-- what thread `t` at program point `p` knows -/
def L (P : Proto) (f0 : Nat) (sh : Shared) (t : Nat) : PC → Prop
  | .l1 => P.single = false ∧ sh.winner ≠ some t
  | .l2 old => P.isDone old = false ∧ (P.single = true → old = P.old0) ∧ sh.winner ≠ some t
  | .l3 old o => P.isDone old = false ∧ (P.single = true → old = P.old0) ∧ sh.winner ≠ some t ∧
      (sh.envMoved = false → o = sh.other)
  | .ret true => sh.winner = some t
  | .ret false => sh.winner ≠ some t ∧ (P.single = false → P.isDone sh.field = true) ∧
      (P.single = true → sh.envMoved = false → f0 = P.old0 → sh.winner ≠ none)

structure Inv (P : Proto) (f0 : Nat) (s : State) : Prop where
  g : G P f0 s.sh
  l : ∀ x, L P f0 s.sh x (s.pc x)

theorem init_inv (P : Proto) (hP : P.WF) (f0 o0 : Nat) : Inv P f0 (init P f0 o0) := by
  refine ⟨⟨fun _ => rfl, fun h => absurd rfl h⟩, fun x => ?_⟩
  simp only [init, Proto.entry]
  split_ifs with hs
  · exact ⟨hP.old0_not_done, fun _ => rfl, by simp⟩
  · exact ⟨by simpa using hs, by simp⟩

theorem cas_needs_fresh (P : Proto) (f0 : Nat) (sh : Shared) (old : Nat) (hg : G P f0 sh)
    (h1 : P.isDone old = false) (hf : sh.field = old) : sh.winner = none ∧ old = f0 := by
  have hwn : sh.winner = none := by
    cases hw : sh.winner with
    | none => rfl
    | some w =>
      have := (hg.changed (by rw [hw]; simp)).1
      rw [hf, h1] at this; cases this
  exact ⟨hwn, by rw [← hf]; exact hg.unchanged hwn⟩

theorem local_ok (P : Proto) (hP : P.WF) (f0 t : Nat) (sh : Shared) (p : PC)
    (hg : G P f0 sh) (hl : L P f0 sh t p) :
    G P f0 (localStep P t sh p).1 ∧ L P f0 (localStep P t sh p).1 t (localStep P t sh p).2 := by
  cases p with
  | l1 =>
    obtain ⟨hs, hw⟩ : P.single = false ∧ sh.winner ≠ some t := hl
    simp only [localStep]
    split_ifs with hd
    · refine ⟨hg, ?_⟩
      show sh.winner ≠ some t ∧ (P.single = false → P.isDone sh.field = true) ∧
        (P.single = true → sh.envMoved = false → f0 = P.old0 → sh.winner ≠ none)
      exact ⟨hw, fun _ => hd, (fun h => by rw [hs] at h; cases h)⟩
    · refine ⟨hg, ?_⟩
      show P.isDone sh.field = false ∧ (P.single = true → sh.field = P.old0) ∧ sh.winner ≠ some t
      exact ⟨by simpa using hd, (fun h => by rw [hs] at h; cases h), hw⟩
  | l2 old =>
    obtain ⟨h1, h2, h3⟩ : P.isDone old = false ∧ (P.single = true → old = P.old0) ∧ sh.winner ≠ some t := hl
    refine ⟨hg, ?_⟩
    show P.isDone old = false ∧ (P.single = true → old = P.old0) ∧ sh.winner ≠ some t ∧
      (sh.envMoved = false → sh.other = sh.other)
    exact ⟨h1, h2, h3, fun _ => rfl⟩
  | l3 old o =>
    obtain ⟨h1, h2, h3, h4⟩ : P.isDone old = false ∧ (P.single = true → old = P.old0) ∧ sh.winner ≠ some t ∧
      (sh.envMoved = false → o = sh.other) := hl
    simp only [localStep]
    split_ifs with hc hs
    · obtain ⟨hf, _⟩ := hc
      obtain ⟨_, hf0⟩ := cas_needs_fresh P f0 sh old hg h1 hf
      refine ⟨⟨(fun h => by cases h), fun _ => ⟨hP.next_done old h1, by rw [← hf0]; exact h1, by rw [hf0]⟩⟩, ?_⟩
      show (some t : Option Nat) = some t
      rfl
    · refine ⟨hg, ?_⟩
      show sh.winner ≠ some t ∧ (P.single = false → P.isDone sh.field = true) ∧
        (P.single = true → sh.envMoved = false → f0 = P.old0 → sh.winner ≠ none)
      refine ⟨h3, (fun h => by rw [hs] at h; cases h), ?_⟩
      intro _ hem hf0 hwn
      apply hc
      refine ⟨?_, (h4 hem).symm⟩
      rw [hg.unchanged hwn, hf0, h2 hs]
    · refine ⟨hg, ?_⟩
      show P.single = false ∧ sh.winner ≠ some t
      exact ⟨by simpa using hs, h3⟩
  | ret b => exact ⟨hg, hl⟩

theorem stable (P : Proto) (hP : P.WF) (f0 t x : Nat) (hxt : x ≠ t) (sh : Shared) (p q : PC)
    (hg : G P f0 sh) (hl : L P f0 sh t p) (hq : L P f0 sh x q) :
    L P f0 (localStep P t sh p).1 x q := by
  cases p with
  | l1 => simp only [localStep]; split_ifs <;> exact hq
  | l2 old => exact hq
  | ret b => exact hq
  | l3 old o =>
    have h1 : P.isDone old = false := hl.1
    simp only [localStep]
    split_ifs with hc
    · obtain ⟨hf, _⟩ := hc
      obtain ⟨hwn, _⟩ := cas_needs_fresh P f0 sh old hg h1 hf
      have hne : (some t : Option Nat) ≠ some x := by
        intro e; injection e with e; exact hxt e.symm
      cases q with
      | l1 => exact ⟨hq.1, hne⟩
      | l2 o2 => exact ⟨hq.1, hq.2.1, hne⟩
      | l3 o2 oo => exact ⟨hq.1, hq.2.1, hne, hq.2.2.2⟩
      | ret b =>
        cases b with
        | true => have : sh.winner = some x := hq; rw [hwn] at this; cases this
        | false =>
          obtain ⟨_, q2, _⟩ : sh.winner ≠ some x ∧ (P.single = false → P.isDone sh.field = true) ∧
            (P.single = true → sh.envMoved = false → f0 = P.old0 → sh.winner ≠ none) := hq
          show (some t : Option Nat) ≠ some x ∧ (P.single = false → P.isDone (P.next old) = true) ∧
            (P.single = true → sh.envMoved = false → f0 = P.old0 → (some t : Option Nat) ≠ none)
          exact ⟨hne, fun _ => hP.next_done old h1, fun _ _ _ => by simp⟩
    · exact hq
    · exact hq

theorem step_inv (P : Proto) (hP : P.WF) (f0 : Nat) (s : State) (a : Act) (h : Inv P f0 s) :
    Inv P f0 (step P s a) := by
  obtain ⟨hg, hl⟩ := h
  cases a with
  | thread t =>
    have loc := local_ok P hP f0 t s.sh (s.pc t) hg (hl t)
    refine ⟨loc.1, fun x => ?_⟩
    simp only [step]
    by_cases hx : x = t
    · simp only [hx, if_true]; exact loc.2
    · simp only [hx, if_false]
      exact stable P hP f0 t x hx s.sh (s.pc t) (s.pc x) hg (hl t) (hl x)
  | env v =>
    refine ⟨⟨hg.unchanged, hg.changed⟩, fun x => ?_⟩
    have := hl x
    simp only [step]
    cases hp : s.pc x with
    | l1 => rw [hp] at this; exact this
    | l2 o => rw [hp] at this; exact this
    | l3 o oo =>
      rw [hp] at this
      exact ⟨this.1, this.2.1, this.2.2.1, fun h => by cases h⟩
    | ret b =>
      rw [hp] at this
      cases b with
      | true => exact this
      | false => exact ⟨this.1, this.2.1, fun _ h => by cases h⟩

theorem exec_inv (P : Proto) (hP : P.WF) (f0 : Nat) (s : State) (run : List Act) (h : Inv P f0 s) :
    Inv P f0 (exec P s run) := by
  induction run generalizing s with
  | nil => exact h
  | cons a rest ih => exact ih _ (step_inv P hP f0 s a h)

def Reachable (P : Proto) (f0 o0 : Nat) (s : State) : Prop := ∃ run, s = exec P (init P f0 o0) run

theorem reachable_inv {P : Proto} (hP : P.WF) {f0 o0 : Nat} {s : State} (h : Reachable P f0 o0 s) :
    Inv P f0 s := by
  obtain ⟨run, rfl⟩ := h
  exact exec_inv P hP f0 _ run (init_inv P hP f0 o0)

/-! ## The property theorems — all thread counts, all interleavings, arbitrary neighbour changes -/

/-- **C18 (1)** at most one thread observes the transition as its own. -/
theorem at_most_one_true {P : Proto} (hP : P.WF) {f0 o0 : Nat} {s : State} (h : Reachable P f0 o0 s)
    (x y : Nat) (hx : s.pc x = .ret true) (hy : s.pc y = .ret true) : x = y := by
  have inv := reachable_inv hP h
  have lx := inv.l x; have ly := inv.l y
  rw [hx] at lx; rw [hy] at ly
  have : (some x : Option Nat) = some y := by
    have e1 : s.sh.winner = some x := lx
    have e2 : s.sh.winner = some y := ly
    rw [← e1, ← e2]
  injection this

/-- **C18 (2)** (looping variants: mark bit, mark byte, LOS mark, log bit — with or without
concurrent changes to the neighbouring bits) a thread that returns `false` saw the transitioned
state, the state is the transitioned one from then on, and if the object was not yet in that state
when the race began then exactly one thread is the winner. -/
theorem false_means_done {P : Proto} (hP : P.WF) (hl : P.single = false) {f0 o0 : Nat} {s : State}
    (h : Reachable P f0 o0 s) (x : Nat) (hx : s.pc x = .ret false) :
    P.isDone s.sh.field = true ∧ (P.isDone f0 = false → ∃ w, s.sh.winner = some w ∧ w ≠ x) := by
  have inv := reachable_inv hP h
  have lx := inv.l x
  rw [hx] at lx
  obtain ⟨hw, hd, _⟩ : s.sh.winner ≠ some x ∧ (P.single = false → P.isDone s.sh.field = true) ∧
    (P.single = true → s.sh.envMoved = false → f0 = P.old0 → s.sh.winner ≠ none) := lx
  refine ⟨hd hl, fun hnd => ?_⟩
  cases hwin : s.sh.winner with
  | none =>
    have := inv.g.unchanged hwin
    have hdd := hd hl
    rw [this, hnd] at hdd; cases hdd
  | some w => exact ⟨w, rfl, fun e => hw (by rw [hwin, e])⟩

/-- **C18 (3)** the winner's transition is the transition: once a thread has returned `true` the
field holds `next f0` (marked / logged / pinned), and it was not in that state before. -/
theorem true_means_transition {P : Proto} (hP : P.WF) {f0 o0 : Nat} {s : State}
    (h : Reachable P f0 o0 s) (x : Nat) (hx : s.pc x = .ret true) :
    s.sh.field = P.next f0 ∧ P.isDone s.sh.field = true ∧ P.isDone f0 = false := by
  have inv := reachable_inv hP h
  have lx := inv.l x
  rw [hx] at lx
  have hw : s.sh.winner = some x := lx
  have := inv.g.changed (by rw [hw]; simp)
  exact ⟨this.2.2, this.1, this.2.1⟩

/-- **C18 (4)** the winner, once it has finished its CAS, is at `ret true` (so "exactly one thread
returns true" as soon as anybody returned `false`): the ghost winner is a thread that returned true. -/
theorem winner_returns_true {P : Proto} (hP : P.WF) {f0 o0 : Nat} {s : State}
    (h : Reachable P f0 o0 s) (w : Nat) (hw : s.sh.winner = some w) : s.pc w = .ret true := by
  have inv := reachable_inv hP h
  have lw := inv.l w
  cases hp : s.pc w with
  | l1 => rw [hp] at lw; exact absurd hw lw.2
  | l2 o => rw [hp] at lw; exact absurd hw lw.2.2
  | l3 o oo => rw [hp] at lw; exact absurd hw lw.2.2.1
  | ret b =>
    cases b with
    | true => rfl
    | false => rw [hp] at lw; exact absurd hw lw.1

/-- **C18 (5)** single-shot pin/unpin with nothing else in the byte changing: a thread that returns
`false` lost to another thread that returns `true`. -/
theorem single_shot_false_has_winner {P : Proto} (hP : P.WF) (hs : P.single = true) {o0 : Nat} {s : State}
    (h : Reachable P P.old0 o0 s) (hq : s.sh.envMoved = false) (x : Nat) (hx : s.pc x = .ret false) :
    ∃ w, w ≠ x ∧ s.pc w = .ret true := by
  have inv := reachable_inv hP h
  have lx := inv.l x
  rw [hx] at lx
  obtain ⟨hw, _, h3⟩ : s.sh.winner ≠ some x ∧ (P.single = false → P.isDone s.sh.field = true) ∧
    (P.single = true → s.sh.envMoved = false → P.old0 = P.old0 → s.sh.winner ≠ none) := lx
  have := h3 hs hq rfl
  cases hwin : s.sh.winner with
  | none => exact absurd hwin this
  | some w => exact ⟨w, fun e => hw (by rw [hwin, e]), winner_returns_true hP h w hwin⟩

/-! ## the protocols of the code are well-formed instances -/

theorem markProto_wf (st : Nat) (hst : st ≠ 0) : (markProto st).WF :=
  ⟨fun _ _ => by simp [markProto], by simp [markProto]; exact fun e => hst e.symm⟩
theorem logProto_wf : logProto.WF := ⟨fun _ _ => by simp [logProto], by simp [logProto]⟩
theorem pinProto_wf : pinProto.WF := ⟨fun _ _ => by simp [pinProto], by simp [pinProto]⟩
theorem losProto_wf : (losProto 1).WF :=
  ⟨fun v _ => by simp [losProto]; omega, by simp [losProto]⟩

/-! ## outside C18's quantifier: a neighbour's bit makes the single-shot pin fail spuriously -/

/-- One thread pins; between its load and its CAS another object's bit in the same byte changes:
`pin_object` returns false although nobody pinned the object. -/
theorem pin_can_fail_spuriously_with_neighbours :
    let s := exec pinProto (init pinProto 0 0) [.thread 0, .env 4, .thread 0]
    s.pc 0 = .ret false ∧ s.sh.field = 0 ∧ s.sh.winner = none := by
  decide

/-! ## non-vacuity -/

/-- mark bit, three threads, a neighbour's bit flips in the middle (both racers' first CAS fail
because of it and they retry): thread 0 wins, thread 1 returns false, thread 2 is still racing. -/
example :
    let s := exec (markProto 1) (init (markProto 1) 0 0)
      [.thread 0, .thread 1, .thread 0, .thread 1, .env 8, .thread 0, .thread 1, .thread 1, .thread 2, .thread 0,
       .thread 0, .thread 0, .thread 1, .thread 1, .thread 1]
    s.pc 0 = .ret true ∧ s.pc 1 = .ret false ∧ s.pc 2 = .l2 0 ∧ s.sh.field = 1 ∧ s.sh.winner = some 0 := by
  decide


/-! ## the tie: the executable verdict on real-thread races is a consequence of the theorems above -/

theorem filter_len_le_one (p : Nat → Bool) (huniq : ∀ x y, p x = true → p y = true → x = y) :
    ∀ (l : List Nat), l.Nodup → (l.filter p).length ≤ 1 := by
  intro l
  induction l with
  | nil => intro _; simp
  | cons a l ih =>
    intro hnd
    have hnd' := List.nodup_cons.mp hnd
    by_cases hpa : p a = true
    · have hnil : l.filter p = [] := by
        rw [List.filter_eq_nil_iff]
        intro y hy hpy
        have := huniq y a hpy hpa
        exact hnd'.1 (this ▸ hy)
      simp [List.filter_cons, hpa, hnil]
    · have := ih hnd'.2
      simpa [List.filter_cons, hpa] using this

theorem filter_len_pos (p : Nat → Bool) (l : List Nat) (w : Nat) (hw : w ∈ l) (hp : p w = true) :
    1 ≤ (l.filter p).length :=
  List.length_pos_of_mem (List.mem_filter.mpr ⟨hw, hp⟩)

theorem entry_not_ret (P : Proto) (b : Bool) : P.entry ≠ .ret b := by
  unfold Proto.entry; split <;> simp

/-- **C18 (tie)** Every finished run — threads `0..n-1` (any `n ≥ 1`) have all returned, no other
thread ever moved; `env` says whether the environment touched the neighbouring bits — has an outcome
accepted by the executable predicate `outcomeOk` the check evaluates on real-thread races:
looping variants: exactly one `true` and the field is transitioned (none if it already was);
single-shot without neighbour interference from the expected value: exactly one `true`;
otherwise at most one `true`, and the field changed iff somebody returned `true`. -/
theorem outcome_sound {P : Proto} (hP : P.WF) {f0 o0 : Nat} {s : State} (h : Reachable P f0 o0 s) (n : Nat)
    (hn : 0 < n) (hfin : ∀ x, x < n → ∃ b, s.pc x = .ret b) (hidle : ∀ x, n ≤ x → s.pc x = P.entry) :
    outcomeOk P f0 s.sh.field (trues n s) s.sh.envMoved = true := by
  have inv := reachable_inv hP h
  have hle : trues n s ≤ 1 := by
    unfold trues
    apply filter_len_le_one _ _ _ List.nodup_range
    intro x y hx hy
    exact at_most_one_true hP h x y (by simpa using hx) (by simpa using hy)
  have hlt : ∀ w, s.pc w = .ret true → w < n := by
    intro w hw
    by_cases hwn : w < n
    · exact hwn
    · have := hidle w (by omega); rw [this] at hw; exact absurd hw (entry_not_ret P true)
  have hpos : ∀ w, s.pc w = .ret true → trues n s = 1 := by
    intro w hw
    have : 1 ≤ trues n s := by
      unfold trues
      exact filter_len_pos _ _ w (List.mem_range.mpr (hlt w hw)) (by simpa using hw)
    omega
  have hzero : s.sh.winner = none → trues n s = 0 := by
    intro hwn
    unfold trues
    rw [List.length_eq_zero_iff, List.filter_eq_nil_iff]
    intro x _ hx
    have hx' : s.pc x = .ret true := by simpa using hx
    have lx := inv.l x
    rw [hx'] at lx
    have : s.sh.winner = some x := lx
    rw [hwn] at this; cases this
  -- the two possible shapes of a finished state
  have shape : (trues n s = 0 ∧ s.sh.field = f0 ∧ s.sh.winner = none) ∨
      (trues n s = 1 ∧ s.sh.field = P.next f0 ∧ P.isDone f0 = false) := by
    cases hwin : s.sh.winner with
    | none => exact Or.inl ⟨hzero hwin, inv.g.unchanged hwin, rfl⟩
    | some w =>
      have hw := winner_returns_true hP h w hwin
      have := true_means_transition hP h w hw
      exact Or.inr ⟨hpos w hw, this.1, this.2.2⟩
  obtain ⟨b0, hb0⟩ := hfin 0 hn
  unfold outcomeOk
  cases hs : P.single with
  | false =>
    simp only [Bool.false_eq_true, if_false]
    cases hd : P.isDone f0 with
    | true =>
      simp only [if_true]
      rcases shape with ⟨h1, h2, _⟩ | ⟨_, _, h3⟩
      · simp [h1, h2]
      · rw [hd] at h3; cases h3
    | false =>
      simp only [Bool.false_eq_true, if_false]
      rcases shape with ⟨_, _, h3⟩ | ⟨h1, h2, _⟩
      · -- nobody won although the object was not yet transitioned: impossible once thread 0 returned
        exfalso
        cases b0 with
        | true =>
          have l0 := inv.l 0; rw [hb0] at l0
          have : s.sh.winner = some 0 := l0
          rw [h3] at this; cases this
        | false =>
          obtain ⟨w, hw, _⟩ := (false_means_done hP hs h 0 hb0).2 hd
          rw [h3] at hw; cases hw
      · simp [h1, h2]
  | true =>
    simp only [if_true]
    by_cases hc : (!s.sh.envMoved && f0 == P.old0) = true
    · simp only [hc, if_true]
      have he : s.sh.envMoved = false := by
        cases hem : s.sh.envMoved <;> simp [hem] at hc ⊢
      have hf : f0 = P.old0 := by
        have : (f0 == P.old0) = true := by
          cases hem : s.sh.envMoved <;> simp [hem] at hc ⊢
          exact hc
        simpa using this
      rcases shape with ⟨_, _, h3⟩ | ⟨h1, h2, _⟩
      · exfalso
        subst hf
        cases b0 with
        | true =>
          have l0 := inv.l 0; rw [hb0] at l0
          have : s.sh.winner = some 0 := l0
          rw [h3] at this; cases this
        | false =>
          obtain ⟨w, _, hw⟩ := single_shot_false_has_winner hP hs h he 0 hb0
          have lw := inv.l w; rw [hw] at lw
          have : s.sh.winner = some w := lw
          rw [h3] at this; cases this
      · simp [h1, h2]
    · have hc' : (!s.sh.envMoved && f0 == P.old0) = false := by
        cases hcc : (!s.sh.envMoved && f0 == P.old0) with
        | true => exact absurd hcc hc
        | false => rfl
      simp only [hc', Bool.false_eq_true, if_false]
      rcases shape with ⟨h1, h2, _⟩ | ⟨h1, h2, _⟩
      · simp [h1, h2]
      · simp [h1, h2]

theorem unpinProto_wf : unpinProto.WF := ⟨fun _ _ => by simp [unpinProto], by simp [unpinProto]⟩
theorem losNurseryProto_wf : (losNurseryProto 1).WF :=
  ⟨fun v _ => by simp [losNurseryProto], by simp [losNurseryProto]⟩

/-- `outcomeOk` is not vacuous: two winners, no winner, or a wrong final field are rejected. -/
example : outcomeOk (markProto 1) 0 1 1 true = true ∧ outcomeOk (markProto 1) 0 1 2 false = false ∧
    outcomeOk (markProto 1) 0 1 0 false = false ∧ outcomeOk (markProto 1) 0 0 1 false = false ∧
    outcomeOk (markProto 1) 1 1 0 false = true ∧ outcomeOk (markProto 1) 1 1 1 false = false ∧
    outcomeOk pinProto 0 1 1 false = true ∧ outcomeOk pinProto 0 0 0 false = false ∧
    outcomeOk pinProto 0 0 0 true = true ∧ outcomeOk pinProto 0 1 2 true = false := by
  decide

end Mmtk.CasBit
