import MmtkModel.Model.TraceAddr
import MmtkModel.Props.C01Algo
/-!
# C04 (algorithm) — non-moving, immortal and pinned objects never move; immortal ones never die

Model: `Model/TraceAddr.lean` (the closure of `Model/Trace.lean` + an address table; the operation
alphabets of `ImmortalSpace`, of every space under NoGC, and of the large-object space).

* `nonmoving_fixed` — in EVERY state of EVERY run of the closure (any schedule, any `moves`, any copy
  placement `place`): if `o` has been visited and `moves o = false` then the address of its to-object
  is `addr o` — the address it had before the collection.  (`moved_placed`: the others sit where the
  copy allocator put them.)
* `nonmoving_slot_fixed` — for a finished run: every live slot that referred to such an object refers,
  after the collection, to an object at the very same address (no slot needs a store).
* `pinned_fixed`, `sem_fixed` — instances for `policyMoves`: pinned objects, and objects allocated
  with `Immortal` / `Los` / `NonMoving` / `ReadOnly` / `Code` / `LargeCode` semantics, and every
  object of a non-copying plan.
* `immortal_never_released` — what "never reclaimed" means in the model: for every sequence of
  operations of an immortal space (allocation, prepare, trace, release — there is no other), a cell
  that was ever allocated (a) is still in the space's object table with the same id, address and
  size, whether or not it is marked / reachable, and (b) its bytes are never handed out again: every
  cell allocated later is disjoint from it (and all cells stay pairwise disjoint).
  `nogc_never_released` — the same for any space under NoGC, where allocation is the only operation.
* `los_marked_survive`, `los_freed_unmarked`, `los_reachable_survive` — the large-object sweep frees
  exactly the unmarked objects; with `trace_reach_exact` every reachable large object survives, at
  its address.
-/
namespace Mmtk.Trace

variable {S : Snap} {moves : Id → Bool}

/-! ## 1. addresses along the closure -/

theorem processSlot_fwd (S : Snap) (moves : Id → Bool) (st : State) (i : Nat) :
    (processSlot S moves st i).fwd =
      match newlyForwarded S st i with
      | some r => fun x => if x = r then some st.fresh else st.fwd x
      | none => st.fwd := by
  unfold processSlot newlyForwarded
  cases st.pending[i]? with
  | none => rfl
  | some sl =>
    simp only
    cases readSlot st sl with
    | null => rfl
    | new n => rfl
    | old r =>
      simp only
      cases st.fwd r with
      | some n => simp
      | none =>
        cases S.heap r with
        | none => rfl
        | some o => simp [forward]

theorem execA_st (S : Snap) (moves : Id → Bool) (addr : Id → Nat) (place : Id → Id → Nat)
    (a : AState) (run : List Nat) :
    (execA S moves addr place a run).st = exec S moves a.st run := by
  induction run generalizing a with
  | nil => rfl
  | cons i rest ih =>
    simp only [execA, exec, List.foldl_cons]
    exact ih (processSlotA S moves addr place a i)

/-- address invariant: a visited object sits at its old address if it does not move, else where the
copy allocator placed it -/
def AddrInv (moves : Id → Bool) (addr : Id → Nat) (place : Id → Id → Nat) (a : AState) : Prop :=
  ∀ o n : Nat, a.st.fwd o = some n → a.taddr n = if moves o then place o n else addr o

theorem addr_step (addr : Id → Nat) (place : Id → Id → Nat) (a : AState) (i : Nat)
    (inv : Inv S moves a.st) (h : AddrInv moves addr place a) :
    AddrInv moves addr place (processSlotA S moves addr place a i) := by
  intro o n hf
  simp only [processSlotA] at hf ⊢
  rw [processSlot_fwd] at hf
  cases hnf : newlyForwarded S a.st i with
  | none =>
    simp only [hnf] at hf ⊢
    exact h o n hf
  | some r =>
    simp only [hnf] at hf ⊢
    by_cases ho : o = r
    · subst ho
      have hn : n = a.st.fresh := by simpa using hf.symm
      simp [hn]
    · simp only [ho, if_false] at hf
      have hne : n ≠ a.st.fresh := Nat.ne_of_lt (inv.lt o n hf)
      simp only [hne, if_false]
      exact h o n hf

theorem addr_exec (wf : WF S) (addr : Id → Nat) (place : Id → Id → Nat) (run : List Nat) (a : AState)
    (inv : Inv S moves a.st) (h : AddrInv moves addr place a) :
    AddrInv moves addr place (execA S moves addr place a run) := by
  induction run generalizing a with
  | nil => exact h
  | cons i rest ih =>
    simp only [execA, List.foldl_cons]
    exact ih _ (step_inv wf i inv) (addr_step addr place a i inv h)

/-- **nonmoving_fixed**: in every state of every run, a visited object with `moves o = false` has
address-after = address-before. -/
theorem nonmoving_fixed (wf : WF S) (addr : Id → Nat) (place : Id → Id → Nat) (run : List Nat)
    (o n : Id) (hf : (execA S moves addr place (initA S) run).st.fwd o = some n)
    (hm : moves o = false) :
    (execA S moves addr place (initA S) run).taddr n = addr o := by
  have := addr_exec (moves := moves) wf addr place run (initA S) (init_inv S moves)
    (by intro o n h; simp [initA, init] at h) o n hf
  simpa [hm] using this

/-- the complement: a moved object sits where the copy allocator put it -/
theorem moved_placed (wf : WF S) (addr : Id → Nat) (place : Id → Id → Nat) (run : List Nat)
    (o n : Id) (hf : (execA S moves addr place (initA S) run).st.fwd o = some n)
    (hm : moves o = true) :
    (execA S moves addr place (initA S) run).taddr n = place o n := by
  have := addr_exec (moves := moves) wf addr place run (initA S) (init_inv S moves)
    (by intro o n h; simp [initA, init] at h) o n hf
  simpa [hm] using this

/-- **nonmoving_slot_fixed**: after a finished run, a live slot that referred to a non-moving object
`x` holds a reference whose address is still `addr x` (and the object reached through it has the
`moved = false` flag). -/
theorem nonmoving_slot_fixed (wf : WF S) (addr : Id → Nat) (place : Id → Id → Nat) (run : List Nat)
    (hfin : (execA S moves addr place (initA S) run).st.pending = [])
    (s : SSlot) (x : Id) (hl : s.live S) (hx : snapRead S s = some (some x)) (hm : moves x = false) :
    let a := execA S moves addr place (initA S) run
    ∃ sl m t, image a.st s = some sl ∧ readSlot a.st sl = .new m ∧ a.taddr m = addr x ∧
      a.st.tobjs m = some t ∧ t.moved = false := by
  intro a
  have hst : a.st = exec S moves (init S) run := execA_st S moves addr place (initA S) run
  have hfin' : (exec S moves (init S) run).pending = [] := by rw [← hst]; exact hfin
  have inv : Inv S moves (exec S moves (init S) run) := run_inv wf run
  obtain ⟨sl, m, h1, h2, h3⟩ := live_slot_done inv hfin' hl hx
  have hreach : Reach S x := (trace_reach_exact wf run hfin' x).mp (by simp [h3])
  obtain ⟨obj, hobj⟩ := Option.isSome_iff_exists.mp (hreach.alloc wf)
  obtain ⟨n, t, g1, g2, _, _, g5, _⟩ := (trace_iso (moves := moves) wf run hfin').1 x obj hreach hobj
  rw [h3] at g1; injection g1 with g1; subst g1
  refine ⟨sl, m, t, by rw [hst]; exact h1, by rw [hst]; exact h2, ?_, by rw [hst]; exact g2, by rw [g5, hm]⟩
  exact nonmoving_fixed wf addr place run x m (by rw [hst]; exact h3) hm

/-- **pinned_fixed**: an object whose pin bit is set at GC time keeps its address, whatever the plan,
the schedule, and the copy-reserve oracle. -/
theorem pinned_fixed (wf : WF S) (copying : Bool) (sem : Id → Sem) (pinned exhausted : Id → Bool)
    (addr : Id → Nat) (place : Id → Id → Nat) (run : List Nat) (o n : Id)
    (hf : (execA S (policyMoves copying sem pinned exhausted) addr place (initA S) run).st.fwd o = some n)
    (hp : pinned o = true) :
    (execA S (policyMoves copying sem pinned exhausted) addr place (initA S) run).taddr n = addr o := by
  apply nonmoving_fixed wf addr place run o n hf
  simp only [policyMoves, hp]
  cases sem o <;> simp

/-- **sem_fixed**: objects allocated with any semantics other than `Default`, and all objects of a
non-copying plan, keep their address. -/
theorem sem_fixed (wf : WF S) (copying : Bool) (sem : Id → Sem) (pinned exhausted : Id → Bool)
    (addr : Id → Nat) (place : Id → Id → Nat) (run : List Nat) (o n : Id)
    (hf : (execA S (policyMoves copying sem pinned exhausted) addr place (initA S) run).st.fwd o = some n)
    (hs : sem o ≠ .default ∨ copying = false) :
    (execA S (policyMoves copying sem pinned exhausted) addr place (initA S) run).taddr n = addr o := by
  apply nonmoving_fixed wf addr place run o n hf
  simp only [policyMoves]
  rcases hs with hs | hs
  · cases h : sem o <;> simp_all
  · cases sem o <;> simp [hs]

/-! ## 2. immortal spaces, NoGC -/

theorem imm_step_ok (sp : ImmortalSp) (op : ImmOp) (h : sp.ok) : (sp.step op).ok := by
  cases op with
  | alloc id pad size =>
    refine ⟨?_, ?_⟩
    · intro c hc
      simp only [ImmortalSp.step, List.mem_cons] at hc ⊢
      rcases hc with rfl | hc
      · simp
      · have := h.1 c hc; omega
    · simp only [ImmortalSp.step, List.pairwise_cons]
      refine ⟨?_, h.2⟩
      intro c hc
      have := h.1 c hc
      right; simp only; omega
  | prepare => exact h
  | trace id => exact h
  | release => exact h

theorem imm_step_mem (sp : ImmortalSp) (op : ImmOp) (c : Cell) (h : c ∈ sp.cells) :
    c ∈ (sp.step op).cells := by
  cases op <;> simp [ImmortalSp.step, h]

theorem imm_run_ok (ops : List ImmOp) (sp : ImmortalSp) (h : sp.ok) : (sp.run ops).ok := by
  induction ops generalizing sp with
  | nil => exact h
  | cons op rest ih => exact ih _ (imm_step_ok sp op h)

theorem imm_run_mem (ops : List ImmOp) (sp : ImmortalSp) (c : Cell) (h : c ∈ sp.cells) :
    c ∈ (sp.run ops).cells := by
  induction ops generalizing sp with
  | nil => exact h
  | cons op rest ih => exact ih _ (imm_step_mem sp op c h)

/-- **immortal_never_released**: for EVERY sequence of operations of an immortal space, a cell that
exists now (a) exists forever after with the same id / address / size — no matter whether it is ever
marked, i.e. even when unreachable — and (b) is disjoint from every other cell of every later state,
in particular from everything allocated afterwards; and (c) stays below the bump cursor, which is the
only source of new memory. -/
theorem immortal_never_released (sp : ImmortalSp) (hok : sp.ok) (ops : List ImmOp) (c : Cell)
    (hc : c ∈ sp.cells) :
    c ∈ (sp.run ops).cells ∧
    (sp.run ops).cells.Pairwise Cell.disjoint ∧
    c.addr + c.size ≤ (sp.run ops).cursor ∧
    sp.cursor ≤ (sp.run ops).cursor := by
  have hok' := imm_run_ok ops sp hok
  have hmem := imm_run_mem ops sp c hc
  refine ⟨hmem, hok'.2, hok'.1 c hmem, ?_⟩
  clear hok' hmem hc hok
  induction ops generalizing sp with
  | nil => exact Nat.le_refl _
  | cons op rest ih =>
    have h1 : sp.cursor ≤ (sp.step op).cursor := by
      cases op <;> simp [ImmortalSp.step]; omega
    exact Nat.le_trans h1 (ih (sp.step op))

/-- a cell allocated later never overlaps an existing one -/
theorem immortal_later_alloc_disjoint (sp : ImmortalSp) (hok : sp.ok) (ops : List ImmOp) (c : Cell)
    (hc : c ∈ sp.cells) (id pad size : Nat) :
    let sp' := (sp.run ops).step (.alloc id pad size)
    (⟨id, (sp.run ops).cursor + pad, size⟩ : Cell) ∈ sp'.cells ∧
    Cell.disjoint c ⟨id, (sp.run ops).cursor + pad, size⟩ := by
  intro sp'
  obtain ⟨_, _, h3, _⟩ := immortal_never_released sp hok ops c hc
  refine ⟨by simp [sp', ImmortalSp.step], ?_⟩
  left; simp only; omega

/-- **nogc_never_released**: under NoGC (every space is an `ImmortalSpace`, allocation is the only
operation) nothing that was ever allocated is reclaimed or overlapped. -/
theorem nogc_never_released (sp : ImmortalSp) (hok : sp.ok) (allocs : List (Id × Nat × Nat)) (c : Cell)
    (hc : c ∈ sp.cells) :
    c ∈ (sp.run (nogcOps allocs)).cells ∧ (sp.run (nogcOps allocs)).cells.Pairwise Cell.disjoint :=
  let h := immortal_never_released sp hok (nogcOps allocs) c hc
  ⟨h.1, h.2.1⟩

/-- the empty space is fine, so the theorems apply to every history from boot -/
theorem imm_empty_ok (m : Id → Bool) : (ImmortalSp.mk 0 [] m).ok := by
  exact ⟨(by intro c hc; cases hc), List.Pairwise.nil⟩

/-! ## 3. large-object space: the sweep frees exactly the unmarked objects -/

theorem los_marked_survive (sp : LosSp) (marked : Id → Bool) (c : Cell) (hc : c ∈ sp.cells)
    (hm : marked c.id = true) : c ∈ (sp.step (.gc marked)).cells := by
  simp [LosSp.step, hc, hm]

theorem los_freed_unmarked (sp : LosSp) (marked : Id → Bool) (c : Cell)
    (hc : c ∈ (sp.step (.gc marked)).freed) : c ∈ sp.freed ∨ (c ∈ sp.cells ∧ marked c.id = false) := by
  simp only [LosSp.step, List.mem_append, List.mem_filter] at hc
  rcases hc with ⟨h1, h2⟩ | h
  · right; exact ⟨h1, by simpa using h2⟩
  · left; exact h

/-- with the closure theorem: every reachable large object survives the collection, in place
(same cell ⇒ same address and size). -/
theorem los_reachable_survive (wf : WF S) (run : List Nat)
    (hfin : (exec S moves (init S) run).pending = []) (sp : LosSp) (c : Cell) (hc : c ∈ sp.cells)
    (hr : Reach S c.id) :
    c ∈ (sp.step (.gc (markedBy (exec S moves (init S) run)))).cells :=
  los_marked_survive sp _ c hc ((trace_reach_exact wf run hfin c.id).mpr hr)

/-! ## Non-vacuity -/

/-- the cyclic example heap of C01 with object 1 pinned: after any of the two schedules it sits at its
old address `addr 1 = 0x1010`, the others at their copy addresses. -/
example :
    let addr : Id → Nat := fun r => 0x1000 + 16 * r
    let place : Id → Id → Nat := fun _ n => 0x9000 + 32 * n
    let mv := policyMoves true (fun _ => .default) (fun r => r == 1) (fun _ => false)
    let a := execA exSnap mv addr place (initA exSnap) exRunA
    a.st.pending = [] ∧ a.st.fwd 1 = some 1 ∧ a.taddr 1 = 0x1010 ∧ a.taddr 0 = 0x9000 ∧ a.taddr 2 = 0x9040 := by
  decide

example :
    let sp := (ImmortalSp.mk 0 [] (fun _ => false)).run
      [.alloc 7 0 24, .alloc 8 8 16, .prepare, .trace 8, .release, .alloc 9 0 8]
    sp.cells = [⟨9, 48, 8⟩, ⟨8, 32, 16⟩, ⟨7, 0, 24⟩] ∧ sp.marked 7 = false := by decide

end Mmtk.Trace
