import MmtkModel.Model.Arith
import MmtkModel.Lemmas.Bits
/-!
# C33 — Alignment and size arithmetic meet their specifications

For every 64-bit input within the documented preconditions (power-of-two alignments, no
overflow) the transcribed functions compute the arithmetic rounding they document.
Each theorem carries its no-overflow hypothesis explicitly; each has a boundary `example`.
-/
namespace Mmtk.Arith
open Mmtk.Bits

/-- "`r` is the least multiple of `a` that is `≥ v`". -/
def LeastMultipleGE (a v r : Nat) : Prop := a ∣ r ∧ v ≤ r ∧ ∀ m, a ∣ m → v ≤ m → r ≤ m
/-- "`r` is the greatest multiple of `a` that is `≤ v`". -/
def GreatestMultipleLE (a v r : Nat) : Prop := a ∣ r ∧ r ≤ v ∧ ∀ m, a ∣ m → m ≤ v → m ≤ r

private theorem wnot_mask (k : Nat) (hk : k < 64) : wnot (wsub (2^k) 1) = 2^64 - 2^k := by
  have h := two_pow_lt_64 hk
  have hp : 0 < 2^k := Nat.two_pow_pos _
  unfold wnot wsub
  have : (2 ^ k + 2 ^ 64 - 1) % 2^64 = 2^k - 1 := by omega
  rw [this]; omega

theorem rawAlignDown_eq (v k : Nat) (hk : k < 64) (hv : v < 2^64) :
    rawAlignDown v (2^k) = v - v % 2^k := by
  unfold rawAlignDown
  rw [wnot_mask k hk, and_not_mask v k (by omega) hv]

/-- **C33 (align down)** `raw_align_down(v, 2^k)` is the greatest multiple of `2^k` that is `≤ v`. -/
theorem alignDown_spec (v k : Nat) (hk : k < 64) (hv : v < 2^64) :
    GreatestMultipleLE (2^k) v (rawAlignDown v (2^k)) := by
  rw [rawAlignDown_eq v k hk hv]
  refine ⟨sub_mod_dvd v _, by omega, ?_⟩
  rintro m ⟨c, rfl⟩ hm
  have hp : 0 < 2^k := Nat.two_pow_pos _
  have h1 := Nat.div_add_mod v (2^k)
  have : c ≤ v / 2^k := (Nat.le_div_iff_mul_le hp).2 (by rw [Nat.mul_comm]; exact hm)
  have : 2^k * c ≤ 2^k * (v / 2^k) := Nat.mul_le_mul_left _ this
  omega

theorem rawAlignUp_eq (v k : Nat) (hk : k < 64) (hno : v + 2^k - 1 < 2^64) :
    rawAlignUp v (2^k) = (v + 2^k - 1) - (v + 2^k - 1) % 2^k := by
  have hp : 0 < 2^k := Nat.two_pow_pos _
  have h := two_pow_lt_64 hk
  unfold rawAlignUp
  rw [wnot_mask k hk]
  have : wsub (wadd v (2^k)) 1 = v + 2^k - 1 := by
    unfold wsub wadd
    by_cases hw : v + 2^k < 2^64
    · rw [Nat.mod_eq_of_lt hw]; omega
    · have : v + 2^k = 2^64 := by omega
      rw [this]
  rw [this, and_not_mask _ k (by omega) hno]

/-- **C33 (align up)** `raw_align_up(v, 2^k)` is the least multiple of `2^k` that is `≥ v`,
for every `v` with `v + 2^k - 1 < 2^64` (otherwise the true result does not fit in a word). -/
theorem alignUp_spec (v k : Nat) (hk : k < 64) (hno : v + 2^k - 1 < 2^64) :
    LeastMultipleGE (2^k) v (rawAlignUp v (2^k)) := by
  rw [rawAlignUp_eq v k hk hno]
  have hp : 0 < 2^k := Nat.two_pow_pos _
  have hlt := Nat.mod_lt (v + 2^k - 1) hp
  refine ⟨sub_mod_dvd _ _, by omega, ?_⟩
  rintro m ⟨c, rfl⟩ hm
  -- (v + a - 1) - (v + a - 1) % a = a * ((v + a - 1) / a) ≤ a * c  since (v+a-1)/a ≤ c
  have h1 := Nat.div_add_mod (v + 2^k - 1) (2^k)
  have : (v + 2^k - 1) / 2^k ≤ c := by
    apply Nat.le_of_lt_succ
    apply (Nat.div_lt_iff_lt_mul hp).2
    rw [Nat.succ_mul]
    have : c * 2^k = 2^k * c := Nat.mul_comm _ _
    omega
  have : 2^k * ((v + 2^k - 1) / 2^k) ≤ 2^k * c := Nat.mul_le_mul_left _ this
  omega

/-- **C33 (is aligned)** `raw_is_aligned(v, 2^k)` iff `2^k ∣ v`. -/
theorem isAligned_iff (v k : Nat) (hk : k < 64) :
    rawIsAligned v (2^k) = true ↔ 2^k ∣ v := by
  have hp : 0 < 2^k := Nat.two_pow_pos _
  have h := two_pow_lt_64 hk
  unfold rawIsAligned
  have : wsub (2^k) 1 = 2^k - 1 := by unfold wsub; omega
  rw [this, Nat.and_two_pow_sub_one_eq_mod]
  simp [Nat.dvd_iff_mod_eq_zero]

/-- **C33 (`rshift_align_up`)** equals `⌈num / 2^bits⌉` whenever `num + 2^bits - 1` fits in a word
(in both build profiles). -/
theorem rshiftAlignUp_eq_ceilDiv (debug : Bool) (num bits : Nat) (hb : bits < 64)
    (hno : num + (2^bits - 1) < 2^64) :
    rshiftAlignUp debug num bits = some ((num + 2^bits - 1) / 2^bits) := by
  have hp : 0 < 2^bits := Nat.two_pow_pos _
  simp only [rshiftAlignUp, cshl1, hb, if_true, cadd, hno, cshr, Nat.shiftRight_eq_div_pow]
  congr 2; omega

/-- and `⌈n/d⌉` is what it says: the least `q` with `n ≤ q * d`. -/
theorem ceilDiv_least (n d : Nat) (hd : 0 < d) :
    n ≤ ((n + d - 1) / d) * d ∧ ∀ q, n ≤ q * d → (n + d - 1) / d ≤ q := by
  constructor
  · have := Nat.div_add_mod (n + d - 1) d
    have := Nat.mod_lt (n + d - 1) hd
    rw [Nat.mul_comm]; omega
  · intro q hq
    apply Nat.le_of_lt_succ
    apply (Nat.div_lt_iff_lt_mul hd).2
    rw [Nat.succ_mul]; omega

/-- **C33 (`bytes_to_pages_up`)** = `⌈bytes / 4096⌉` whenever `bytes + 4095 < 2^64`. -/
theorem pagesUp_eq_ceilDiv (bytes : Nat) (hno : bytes + 4095 < 2^64) :
    bytesToPagesUp bytes = (bytes + 4095) / 4096 := by
  unfold bytesToPagesUp bytesInPage logBytesInPage
  have e : (4096 : Nat) = 2^12 := by decide
  rw [e, rawAlignUp_eq bytes 12 (by omega) (by omega), Nat.shiftRight_eq_div_pow, ← e]
  omega

theorem unitsUp_eq_ceilDiv (debug : Bool) (k bytes : Nat) (_hk : k < 64) (hno : bytes + 2^k < 2^64) :
    bytesToUnitsUp debug (2^k) k bytes = some ((bytes + 2^k - 1) / 2^k) := by
  have hp : 0 < 2^k := Nat.two_pow_pos _
  unfold bytesToUnitsUp cadd
  rw [if_pos hno]
  show some (wsub (bytes + 2^k) 1 >>> k) = _
  have : wsub (bytes + 2^k) 1 = bytes + 2^k - 1 := by unfold wsub; omega
  rw [this, Nat.shiftRight_eq_div_pow]

/-- **C33 (`bytes_to_chunks_up`)** = `⌈bytes / 4 MiB⌉` whenever the sum fits in a word. -/
theorem chunksUp_eq_ceilDiv (debug : Bool) (bytes : Nat) (hno : bytes + 2^22 < 2^64) :
    bytesToChunksUp debug bytes = some ((bytes + 2^22 - 1) / 2^22) := by
  have e : bytesInChunk = 2^22 := by decide
  unfold bytesToChunksUp logBytesInChunk
  rw [e]
  exact unitsUp_eq_ceilDiv debug 22 bytes (by omega) hno

/-- **C33 (chunk alignment)** instances of the general rounding theorems. -/
theorem chunkAlignUp_spec (a : Nat) (hno : a + 2^22 - 1 < 2^64) :
    LeastMultipleGE (2^22) a (chunkAlignUp a) := by
  have e : (4194304 : Nat) = 2^22 := by decide
  unfold chunkAlignUp bytesInChunk; rw [e]; exact alignUp_spec a 22 (by omega) hno
theorem chunkAlignDown_spec (a : Nat) (ha : a < 2^64) :
    GreatestMultipleLE (2^22) a (chunkAlignDown a) := by
  have e : (4194304 : Nat) = 2^22 := by decide
  unfold chunkAlignDown bytesInChunk; rw [e]; exact alignDown_spec a 22 (by omega) ha

/-! ### `align_allocation` -/

/-- The legal-argument predicate of `align_allocation_inner` (its debug assertions):
power-of-two alignment between the VM's minimum and maximum, offset a multiple of the minimum
alignment, known alignment at least the minimum. -/
structure LegalAlign (vm : VMConsts) (ka km kx : Nat) (alignment offset known : Nat) : Prop where
  hmin : vm.minAlign = 2^km
  hmax : vm.maxAlign = 2^kx
  halign : alignment = 2^ka
  hka : km ≤ ka ∧ ka ≤ kx ∧ kx < 63
  hoff : 2^km ∣ offset
  hoffw : offset < 2^63
  hknown : vm.minAlign ≤ known

private theorem and_min_mask_zero {km x : Nat} (h : 2^km ∣ x) : (x &&& (2^km - 1) == 0) = true := by
  rw [Nat.and_two_pow_sub_one_eq_mod]
  simp [Nat.mod_eq_zero_of_dvd h]

private theorem neg_sum_multiple (region offset : Nat) (hr : region < 2^64) (ho : offset < 2^64) :
    wsub (wsub 0 offset) region + region + offset = 0 ∨
    wsub (wsub 0 offset) region + region + offset = 2^64 ∨
    wsub (wsub 0 offset) region + region + offset = 2 * 2^64 := by
  unfold wsub; omega

/-- **C33 (`align_allocation`)** For legal arguments and a region with `region + align < 2^64`:
the result `r` satisfies `r ≥ region`, `(r + offset) % align = 0`, and no address in
`[region, r)` has that property — i.e. it is the *least* such address.
(`region + align < 2^63` covers every user-space address; just below `2^63` the signed
`Address + isize` addition of the real code overflows and the debug build panics.) -/
theorem alignAllocation_least (vm : VMConsts) (debug : Bool) (ka km kx region alignment offset known : Nat)
    (L : LegalAlign vm ka km kx alignment offset known)
    (hgt : known < alignment) (hmm : vm.minAlign < vm.maxAlign)
    (hreg : region + alignment < 2^63) :
    ∃ r, alignAllocation vm debug region alignment offset known = some r ∧
      region ≤ r ∧ (r + offset) % alignment = 0 ∧
      ∀ r', region ≤ r' → r' < r → (r' + offset) % alignment ≠ 0 := by
  obtain ⟨hmin, hmax, halign, ⟨hka1, hka2, hkx⟩, hoff, hoffw, hknown⟩ := L
  have hpa : 0 < 2^ka := Nat.two_pow_pos _
  have hk64 : ka < 64 := by omega
  have ha64 := two_pow_lt_64 hk64
  -- the assertions pass
  have hA1 : (alignment &&& (vm.minAlign - 1) == 0) = true := by
    rw [hmin, halign]; exact and_min_mask_zero (Nat.pow_dvd_pow 2 hka1)
  have hA2 : (offset &&& (vm.minAlign - 1) == 0) = true := by
    rw [hmin]; exact and_min_mask_zero hoff
  have hA3 : alignment ≤ vm.maxAlign := by
    rw [hmax, halign]; exact Nat.pow_le_pow_right (by omega) hka2
  -- the value of delta
  let Y := wsub (wsub 0 offset) region
  have hmaskeq : Y &&& (alignment - 1) = Y % alignment := by
    rw [halign, Nat.and_two_pow_sub_one_eq_mod]
  have hdlt : Y % alignment < alignment := Nat.mod_lt _ (by rw [halign]; exact hpa)
  -- Y + region + offset is a multiple of 2^64
  have hY : Y + region + offset = 0 ∨ Y + region + offset = 2^64 ∨ Y + region + offset = 2 * 2^64 := by
    exact neg_sum_multiple region offset (by omega) (by omega)
  have hdvd64 : alignment ∣ Y + region + offset := by
    have : alignment ∣ 2^64 := by rw [halign]; exact two_pow_dvd_64 (by omega)
    rcases hY with h | h | h
    · rw [h]; exact Nat.dvd_zero _
    · rw [h]; exact this
    · rw [h]; exact Nat.dvd_mul_left_of_dvd this 2
  refine ⟨region + Y % alignment, ?_, by omega, ?_, ?_⟩
  · unfold alignAllocation
    have hnle : ¬ (alignment ≤ known) := by omega
    have hnmm : ¬ (vm.maxAlign ≤ vm.minAlign) := by omega
    have ho63 : (offset == 2^63) = false := by simp; omega
    simp only [hA1, hA2, hknown, hA3, decide_true, Bool.and_self, Bool.not_true, Bool.and_false,
      hnle, hnmm, decide_false, Bool.or_self, ho63, Bool.false_eq_true, if_false]
    show caddSigned debug region (Y &&& (alignment - 1)) = _
    rw [hmaskeq]
    unfold caddSigned
    have h1 : region + Y % alignment < 2^63 := by omega
    have h2 : ¬ (region + Y % alignment ≥ 2^63) := by omega
    have h3 : (region + Y % alignment) % 2^64 = region + Y % alignment := Nat.mod_eq_of_lt (by omega)
    simp [h2, h3]
  · -- (region + Y % a + offset) % a = 0
    have h1 : region + Y % alignment + offset = (Y + region + offset) - (Y - Y % alignment) := by
      have := Nat.mod_le Y alignment; omega
    have h2 : alignment ∣ Y - Y % alignment := sub_mod_dvd Y alignment
    have h3 : Y - Y % alignment ≤ Y + region + offset := by omega
    rw [h1]
    exact Nat.mod_eq_zero_of_dvd (Nat.dvd_sub hdvd64 h2)
  · intro r' hr1 hr2 hmod
    -- two multiples of `alignment` strictly less than `alignment` apart
    have h0 : alignment ∣ r' + offset := Nat.dvd_of_mod_eq_zero hmod
    have h1 : alignment ∣ region + Y % alignment + offset := by
      have e : region + Y % alignment + offset = (Y + region + offset) - (Y - Y % alignment) := by
        have := Nat.mod_le Y alignment; omega
      rw [e]; exact Nat.dvd_sub hdvd64 (sub_mod_dvd Y alignment)
    have hd : alignment ∣ (region + Y % alignment + offset) - (r' + offset) := Nat.dvd_sub h1 h0
    have hpos : 0 < (region + Y % alignment + offset) - (r' + offset) := by omega
    have := Nat.le_of_dvd hpos hd
    omega

/-- When no alignment is required the region is returned unchanged. -/
theorem alignAllocation_noop (vm : VMConsts) (region alignment offset known : Nat)
    (h : alignment ≤ known) :
    alignAllocation vm false region alignment offset known = some region := by
  simp [alignAllocation, h]

/-- **C33 (`get_maximum_aligned_size`)** bounds the padded size: for a region and offset that are
multiples of the known alignment, the padding `align_allocation` inserts is at most
`maxAlignedSize size - size`. -/
theorem maxAlignedSize_bounds (vm : VMConsts) (debug : Bool) (ka km kx kk region alignment offset known size : Nat)
    (L : LegalAlign vm ka km kx alignment offset known)
    (hknownpow : known = 2^kk) (hgt : known < alignment) (hmm : vm.minAlign < vm.maxAlign)
    (hreg : region + alignment < 2^63) (hregk : known ∣ region) (hoffk : known ∣ offset)
    (hsz : size + alignment < 2^64) (hszk : known ∣ size) :
    ∃ r m, alignAllocation vm debug region alignment offset known = some r ∧
      maxAlignedSize vm debug size alignment known = some m ∧
      m = size + alignment - known ∧ (r - region) + size ≤ m := by
  obtain ⟨r, hr, hge, hmod, hleast⟩ :=
    alignAllocation_least vm debug ka km kx region alignment offset known L hgt hmm hreg
  obtain ⟨hmin, hmax, halign, ⟨hka1, hka2, hkx⟩, hoff, hoffw, hknown⟩ := L
  have hkk : kk < ka := by
    rw [hknownpow, halign] at hgt
    exact (Nat.pow_lt_pow_iff_right (by omega)).1 hgt
  have hkpos : 0 < known := by rw [hknownpow]; exact Nat.two_pow_pos _
  refine ⟨r, size + alignment - known, hr, ?_, rfl, ?_⟩
  · unfold maxAlignedSize
    have hk64 : kk < 64 := by omega
    have hmask : size &&& wnot (known - 1) = size := by
      have : wnot (known - 1) = 2^64 - 2^kk := by
        rw [hknownpow]; unfold wnot
        have := two_pow_lt_64 hk64
        have : 0 < 2^kk := Nat.two_pow_pos _
        omega
      rw [this, and_not_mask size kk (by omega) (by omega)]
      have : size % 2^kk = 0 := by rw [← hknownpow]; exact Nat.mod_eq_zero_of_dvd hszk
      omega
    have hnle : ¬ (alignment ≤ known) := by omega
    have hnmm : ¬ (vm.maxAlign ≤ vm.minAlign) := by omega
    simp only [hmask, beq_self_eq_true, hknown, ge_iff_le, decide_true, Bool.and_self, Bool.not_true,
      Bool.and_false, Bool.false_eq_true, if_false, hnle, hnmm, decide_false, Bool.or_self, cadd, hsz, if_true]
    have : known ≤ size + alignment := by omega
    simp [this]
  · -- r - region is a multiple of `known` and < alignment, so ≤ alignment - known
    have hdk : known ∣ alignment := by
      rw [hknownpow, halign]; exact Nat.pow_dvd_pow 2 (by omega)
    have h1 : known ∣ r + offset := Nat.dvd_trans hdk (Nat.dvd_of_mod_eq_zero hmod)
    have h2 : known ∣ r := (Nat.dvd_add_iff_left hoffk).2 h1
    have h3 : known ∣ r - region := Nat.dvd_sub h2 hregk
    -- r - region < alignment (else r - alignment would be an earlier solution)
    have hlt : r - region < alignment := by
      apply Classical.byContradiction
      intro hcon
      have hge' : region ≤ r - alignment := by omega
      have hapos : 0 < alignment := by omega
      have := hleast (r - alignment) hge' (by omega)
      apply this
      have e : r - alignment + offset = (r + offset) - alignment := by omega
      rw [e]
      have hd : alignment ∣ r + offset := Nat.dvd_of_mod_eq_zero hmod
      exact Nat.mod_eq_zero_of_dvd (Nat.dvd_sub hd (Nat.dvd_refl _))
    -- multiples of `known` below `alignment` (itself a multiple) are ≤ alignment - known
    obtain ⟨c, hc⟩ := h3
    obtain ⟨d, hd⟩ := hdk
    have : c < d := by
      apply Nat.lt_of_mul_lt_mul_left (a := known)
      rw [← hc, ← hd]; exact hlt
    have : known * (c + 1) ≤ known * d := Nat.mul_le_mul_left _ (by omega)
    rw [Nat.mul_add, Nat.mul_one] at this
    omega

/-! ### non-vacuity and boundary examples -/

def vmDefault : VMConsts := { minAlign := 8, maxAlign := 64 }

example : LegalAlign vmDefault 5 3 6 32 8 8 :=
  ⟨rfl, rfl, rfl, by omega, ⟨1, rfl⟩, by omega, by decide⟩
example : alignAllocation vmDefault true 0x1008 32 8 8 = some 0x1018 := by decide
example : rawAlignUp (2^64 - 4096) 4096 = 2^64 - 4096 := by decide
/-- at the boundary the hypothesis of `alignUp_spec` is tight: one more byte wraps to 0. -/
example : rawAlignUp (2^64 - 4095) 4096 = 0 := by decide
example : rshiftAlignUp true (2^64 - 1) 3 = none := by decide
example : rshiftAlignUp false (2^64 - 1) 3 = some 0 := by decide
example : bytesToPagesUp 4097 = 2 := by decide

end Mmtk.Arith
