import MmtkModel.Model.SideMetaBulk
import MmtkModel.Props.C20
/-!
# C21 — Bulk side-metadata zero/set/copy touch exactly the covered regions
-/
namespace Mmtk.SideMeta
open Mmtk.Mem
open Mmtk.HeaderMeta (ByteMem)

/-- first bit (global bit index) of a visited range -/
def BBR.lo : BBR → Nat
  | .bytes s _ => 8 * s
  | .bits a bs _ => 8 * a + bs
/-- one past the last bit of a visited range -/
def BBR.hi : BBR → Nat
  | .bytes _ e => 8 * e
  | .bits a _ be => 8 * a + be
/-- "A range is never empty", and an in-byte range stays inside its byte. -/
def BBR.wf : BBR → Prop
  | .bytes s e => s < e
  | .bits _ bs be => bs < be ∧ be ≤ 8

/-- `Tiles x L y`: the ranges of `L`, in order, tile the bit interval `[x, y)`: each starts where the
previous one ended, each is non-empty and well-formed. Hence they are pairwise disjoint, ordered, and
their union is exactly `[x, y)` (`tiles_cover`, `tiles_sorted`). -/
def Tiles : Nat → List BBR → Nat → Prop
  | x, [], y => x = y
  | x, r :: rs, y => r.lo = x ∧ r.wf ∧ Tiles r.hi rs y

theorem zeroMask_table : ∀ bs < 8, ∀ be < 9, ∀ i < 8,
    (zeroMask bs be).testBit i = (decide (be ≤ i) || decide (i < bs)) := by decide
theorem setMask_table : ∀ bs < 8, ∀ be < 9, ∀ i < 8,
    (setMask bs be).testBit i = (decide (bs ≤ i) && decide (i < be)) := by decide
theorem masks_lt : ∀ bs < 8, ∀ be < 9, zeroMask bs be < 256 ∧ setMask bs be < 256 := by decide

theorem testBit_zeroMask (bs be i : Nat) (hbs : bs < 8) (hbe : be ≤ 8) :
    (zeroMask bs be).testBit i = (decide (i < 8) && (decide (be ≤ i) || decide (i < bs))) := by
  by_cases hi : i < 8
  · simp [hi, zeroMask_table bs hbs be (by omega) i hi]
  · simp [hi, testBit_byte_high (masks_lt bs hbs be (by omega)).1 (by omega : 8 ≤ i)]

theorem testBit_setMask (bs be i : Nat) (hbs : bs < 8) (hbe : be ≤ 8) :
    (setMask bs be).testBit i = (decide (bs ≤ i) && decide (i < be)) := by
  by_cases hi : i < 8
  · exact setMask_table bs hbs be (by omega) i hi
  · have : ¬ i < be := by omega
    simp [this, testBit_byte_high (masks_lt bs hbs be (by omega)).2 (by omega : 8 ≤ i)]

/-! ## `break_bit_range` partitions the bit interval -/

/-- **C21 (partition)**: for a well-ordered pair of positions the visited ranges tile exactly the
bit interval `[8·sa+sb, 8·ea+eb)`. -/
theorem breakBitRange_partition (sa sb ea eb : Nat) (hsb : sb < 8) (heb : eb < 8)
    (hord : sa < ea ∨ (sa = ea ∧ sb ≤ eb)) :
    Tiles (8 * sa + sb) (breakBitRange sa sb ea eb true) (8 * ea + eb) := by
  unfold breakBitRange
  simp only [if_true]
  repeat' split
  all_goals simp only [Tiles, BBR.lo, BBR.hi, BBR.wf, List.nil_append, List.cons_append, List.append_nil, true_and, and_true]
  all_goals omega

/-- **C21 (backwards = reverse)**. -/
theorem breakBitRange_backwards (sa sb ea eb : Nat) :
    breakBitRange sa sb ea eb false = (breakBitRange sa sb ea eb true).reverse := by
  unfold breakBitRange
  simp only [if_true, Bool.false_eq_true, if_false]
  repeat' split
  all_goals simp

theorem BBR.lo_lt_hi (r : BBR) (h : r.wf) : r.lo < r.hi := by
  cases r <;> simp only [BBR.lo, BBR.hi, BBR.wf] at * <;> omega

theorem tiles_le {x y : Nat} {L : List BBR} (h : Tiles x L y) : x ≤ y := by
  induction L generalizing x with
  | nil => simp only [Tiles] at h; omega
  | cons r rs ih =>
    obtain ⟨h1, h2, h3⟩ := h
    have := ih h3
    have := r.lo_lt_hi h2
    omega

theorem tiles_bounds {x y : Nat} {L : List BBR} (h : Tiles x L y) : ∀ r ∈ L, x ≤ r.lo ∧ r.hi ≤ y ∧ r.wf := by
  induction L generalizing x with
  | nil => intro r hr; cases hr
  | cons r0 rs ih =>
    obtain ⟨h1, h2, h3⟩ := h
    intro r hr
    have hlt := r0.lo_lt_hi h2
    have hle := tiles_le h3
    rcases List.mem_cons.1 hr with e | e
    · subst e; exact ⟨by omega, hle, h2⟩
    · have := ih h3 r e
      exact ⟨by omega, this.2.1, this.2.2⟩

/-- the union of the visited ranges is exactly the interval. -/
theorem tiles_cover {x y : Nat} {L : List BBR} (h : Tiles x L y) (p : Nat) :
    (∃ r ∈ L, r.lo ≤ p ∧ p < r.hi) ↔ (x ≤ p ∧ p < y) := by
  induction L generalizing x with
  | nil => simp only [Tiles] at h; simp; omega
  | cons r0 rs ih =>
    obtain ⟨h1, h2, h3⟩ := h
    have hlt := r0.lo_lt_hi h2
    have hle := tiles_le h3
    constructor
    · rintro ⟨r, hr, hp⟩
      rcases List.mem_cons.1 hr with e | e
      · subst e; omega
      · have := (ih h3).1 ⟨r, e, hp⟩; omega
    · intro hp
      by_cases hq : p < r0.hi
      · exact ⟨r0, List.mem_cons_self .., by omega, hq⟩
      · obtain ⟨r, hr, hp'⟩ := (ih h3).2 ⟨by omega, hp.2⟩
        exact ⟨r, List.mem_cons_of_mem _ hr, hp'⟩

/-- the visited ranges are ordered and pairwise disjoint. -/
theorem tiles_sorted {x y : Nat} {L : List BBR} (h : Tiles x L y) : L.Pairwise (fun a b => a.hi ≤ b.lo) := by
  induction L generalizing x with
  | nil => exact List.Pairwise.nil
  | cons r0 rs ih =>
    obtain ⟨h1, h2, h3⟩ := h
    refine List.Pairwise.cons ?_ (ih h3)
    intro r hr
    exact (tiles_bounds h3 r hr).1

/-! ## bit-level effect of the visitors -/

theorem bitAt_set (m : Mem) (a v p : Nat) :
    bitAt (set m a v) p = if p / 8 = a then v.testBit (p % 8) else bitAt m p := by
  unfold bitAt Mmtk.Mem.set
  by_cases e : p / 8 = a <;> simp [e]

theorem bitAt_fill (m : Mem) (s e v p : Nat) :
    bitAt (fillBytes m s e v) p = if 8 * s ≤ p ∧ p < 8 * e then v.testBit (p % 8) else bitAt m p := by
  unfold bitAt fillBytes
  by_cases h : s ≤ p / 8 ∧ p / 8 < e
  · have : 8 * s ≤ p ∧ p < 8 * e := by omega
    simp [h, this]
  · have : ¬ (8 * s ≤ p ∧ p < 8 * e) := by omega
    simp [h, this]

theorem byteMem_set (m : Mem) (hm : ByteMem m) (a v : Nat) (hv : v < 256) : ByteMem (set m a v) := by
  intro x; unfold Mmtk.Mem.set; split
  · exact hv
  · exact hm x

/-- a fold over tiling ranges whose visitor writes `val p` to exactly the bits of its range writes
`val p` to exactly the bits of the interval. -/
theorem fold_tiles (f : Mem → BBR → Mem) (val : Nat → Bool) (Inv : Mem → Prop) (x0 y0 : Nat)
    (hf : ∀ mc r, Inv mc → r.wf → x0 ≤ r.lo → r.hi ≤ y0 →
      Inv (f mc r) ∧ ∀ p, bitAt (f mc r) p = if r.lo ≤ p ∧ p < r.hi then val p else bitAt mc p)
    (x y : Nat) (L : List BBR) (ht : Tiles x L y) (hx : x0 ≤ x) (hy : y ≤ y0) (m : Mem) (hinv : Inv m) :
    Inv (L.foldl f m) ∧ ∀ p, bitAt (L.foldl f m) p = if x ≤ p ∧ p < y then val p else bitAt m p := by
  induction L generalizing x m with
  | nil =>
    simp only [Tiles] at ht
    refine ⟨hinv, fun p => ?_⟩
    have : ¬ (x ≤ p ∧ p < y) := by omega
    simp [this]
  | cons r rs ih =>
    obtain ⟨h1, h2, h3⟩ := ht
    have hlt := r.lo_lt_hi h2
    have hle := tiles_le h3
    obtain ⟨i1, i2⟩ := hf m r hinv h2 (by omega) (by omega)
    obtain ⟨j1, j2⟩ := ih r.hi h3 (by omega) (f m r) i1
    refine ⟨j1, fun p => ?_⟩
    simp only [List.foldl]
    rw [j2 p, i2 p]
    by_cases c1 : r.hi ≤ p ∧ p < y
    · have : x ≤ p ∧ p < y := by omega
      simp [c1, this]
    · by_cases c2 : r.lo ≤ p ∧ p < r.hi
      · have : x ≤ p ∧ p < y := by omega
        simp [c1, c2, this]
      · have : ¬ (x ≤ p ∧ p < y) := by omega
        simp [c1, c2, this]

theorem zeroRange_spec (mc : Mem) (r : BBR) (hm : ByteMem mc) (hw : r.wf) :
    ByteMem (zeroRange mc r) ∧ ∀ p, bitAt (zeroRange mc r) p = if r.lo ≤ p ∧ p < r.hi then false else bitAt mc p := by
  cases r with
  | bytes s e =>
    refine ⟨fun x => ?_, fun p => ?_⟩
    · simp only [zeroRange, fillBytes]; split
      · omega
      · exact hm x
    · simp only [zeroRange, bitAt_fill, BBR.lo, BBR.hi, Nat.zero_testBit]
      by_cases c : 8 * s ≤ p ∧ p < 8 * e <;> simp [c]
  | bits a bs be =>
    obtain ⟨h1, h2⟩ := hw
    refine ⟨byteMem_set mc hm _ _ (Nat.lt_of_le_of_lt Nat.and_le_left (hm a)), fun p => ?_⟩
    simp only [zeroRange, bitAt_set, BBR.lo, BBR.hi, Nat.testBit_and, testBit_zeroMask bs be _ (by omega) h2]
    by_cases e : p / 8 = a
    · have h8 : p % 8 < 8 := Nat.mod_lt _ (by omega)
      by_cases c : 8 * a + bs ≤ p ∧ p < 8 * a + be
      · have c1 : ¬ be ≤ p % 8 := by omega
        have c2 : ¬ p % 8 < bs := by omega
        simp [e, c, c1, c2]
      · have c1 : be ≤ p % 8 ∨ p % 8 < bs := by omega
        unfold bitAt
        rcases c1 with c1 | c1 <;> simp [e, c, c1, h8]
    · have c : ¬ (8 * a + bs ≤ p ∧ p < 8 * a + be) := by omega
      simp [e, c]

theorem testBit_255 (i : Nat) : (255 : Nat).testBit i = decide (i < 8) := by
  have : (255 : Nat) = 2 ^ 8 - 1 := by decide
  rw [this, Nat.testBit_two_pow_sub_one]

theorem setRange_spec (mc : Mem) (r : BBR) (hm : ByteMem mc) (hw : r.wf) :
    ByteMem (setRange mc r) ∧ ∀ p, bitAt (setRange mc r) p = if r.lo ≤ p ∧ p < r.hi then true else bitAt mc p := by
  cases r with
  | bytes s e =>
    refine ⟨fun x => ?_, fun p => ?_⟩
    · simp only [setRange, fillBytes]; split
      · omega
      · exact hm x
    · simp only [setRange, bitAt_fill, BBR.lo, BBR.hi, testBit_255]
      have h8 : p % 8 < 8 := Nat.mod_lt _ (by omega)
      by_cases c : 8 * s ≤ p ∧ p < 8 * e <;> simp [h8, c]
  | bits a bs be =>
    obtain ⟨h1, h2⟩ := hw
    refine ⟨byteMem_set mc hm _ _ (Nat.or_lt_two_pow (n := 8) (hm a) (masks_lt bs (by omega) be (by omega)).2), fun p => ?_⟩
    simp only [setRange, bitAt_set, BBR.lo, BBR.hi, Nat.testBit_or, testBit_setMask bs be _ (by omega) h2]
    by_cases e : p / 8 = a
    · by_cases c : 8 * a + bs ≤ p ∧ p < 8 * a + be
      · have c1 : bs ≤ p % 8 := by omega
        have c2 : p % 8 < be := by omega
        simp [e, c, c1, c2]
      · have c1 : ¬ (bs ≤ p % 8 ∧ p % 8 < be) := by omega
        unfold bitAt
        by_cases d : bs ≤ p % 8
        · have : ¬ p % 8 < be := by omega
          simp [e, c, d, this]
        · simp [e, c, d]
    · have c : ¬ (8 * a + bs ≤ p ∧ p < 8 * a + be) := by omega
      simp [e, c]

/-- **C21 (bzero, bit level)**: a bit is cleared iff it lies in the interval; every other bit is unchanged. -/
theorem bzero_exact (m : Mem) (hm : ByteMem m) (sa sb ea eb : Nat) (hsb : sb < 8) (heb : eb < 8)
    (hord : sa < ea ∨ (sa = ea ∧ sb ≤ eb)) (p : Nat) :
    bitAt (zeroMetaBits m sa sb ea eb) p = (if 8 * sa + sb ≤ p ∧ p < 8 * ea + eb then false else bitAt m p) ∧
    ByteMem (zeroMetaBits m sa sb ea eb) := by
  have := fold_tiles zeroRange (fun _ => false) ByteMem 0 (8 * ea + eb)
    (fun mc r hi hw _ _ => zeroRange_spec mc r hi hw) _ _ _ (breakBitRange_partition sa sb ea eb hsb heb hord)
    (Nat.zero_le _) (Nat.le_refl _) m hm
  exact ⟨this.2 p, this.1⟩

/-- **C21 (bset, bit level)**. -/
theorem bset_exact (m : Mem) (hm : ByteMem m) (sa sb ea eb : Nat) (hsb : sb < 8) (heb : eb < 8)
    (hord : sa < ea ∨ (sa = ea ∧ sb ≤ eb)) (p : Nat) :
    bitAt (setMetaBits m sa sb ea eb) p = (if 8 * sa + sb ≤ p ∧ p < 8 * ea + eb then true else bitAt m p) ∧
    ByteMem (setMetaBits m sa sb ea eb) := by
  have := fold_tiles setRange (fun _ => true) ByteMem 0 (8 * ea + eb)
    (fun mc r hi hw _ _ => setRange_spec mc r hi hw) _ _ _ (breakBitRange_partition sa sb ea eb hsb heb hord)
    (Nat.zero_le _) (Nat.le_refl _) m hm
  exact ⟨this.2 p, this.1⟩

theorem bitAt_mk (m : Mem) (k i : Nat) (hi : i < 8) : bitAt m (8 * k + i) = (m k).testBit i := by
  unfold bitAt
  have h1 : (8 * k + i) / 8 = k := by omega
  have h2 : (8 * k + i) % 8 = i := by omega
  rw [h1, h2]

theorem bitAt_split (m : Mem) (p : Nat) : bitAt m p = (m (p / 8)).testBit (p % 8) := rfl

/-- the destination loop of `bcopy_metadata_contiguous` on raw positions. -/
def copyMetaBits (m : Mem) (dsa dsb dea deb ssa : Nat) : Mem :=
  (breakBitRange dsa dsb dea deb true).foldl (copyRange dsa ssa) m

theorem copyRange_spec (m0 : Mem) (dsa ssa x0 y0 : Nat) (hx0 : 8 * dsa ≤ x0)
    (hdisj : 8 * ssa + (y0 - 8 * dsa) ≤ x0 ∨ y0 ≤ 8 * ssa + (x0 - 8 * dsa))
    (mc : Mem) (r : BBR)
    (hinv : ByteMem mc ∧ ∀ q, 8 * ssa + (x0 - 8 * dsa) ≤ q ∧ q < 8 * ssa + (y0 - 8 * dsa) → bitAt mc q = bitAt m0 q)
    (hw : r.wf) (hlo : x0 ≤ r.lo) (hhi : r.hi ≤ y0) :
    (ByteMem (copyRange dsa ssa mc r) ∧
      ∀ q, 8 * ssa + (x0 - 8 * dsa) ≤ q ∧ q < 8 * ssa + (y0 - 8 * dsa) → bitAt (copyRange dsa ssa mc r) q = bitAt m0 q) ∧
    ∀ p, bitAt (copyRange dsa ssa mc r) p =
      if r.lo ≤ p ∧ p < r.hi then bitAt m0 (8 * ssa + (p - 8 * dsa)) else bitAt mc p := by
  obtain ⟨hm, hsrc⟩ := hinv
  have hlt := r.lo_lt_hi hw
  -- the bit-level effect first
  have eff : ∀ p, bitAt (copyRange dsa ssa mc r) p =
      if r.lo ≤ p ∧ p < r.hi then bitAt m0 (8 * ssa + (p - 8 * dsa)) else bitAt mc p := by
    intro p
    cases r with
    | bytes s e =>
      simp only [BBR.lo, BBR.hi, BBR.wf] at hlo hhi hlt hw
      show bitAt (copyRange dsa ssa mc (.bytes s e)) p =
        if 8 * s ≤ p ∧ p < 8 * e then bitAt m0 (8 * ssa + (p - 8 * dsa)) else bitAt mc p
      simp only [copyRange]
      rw [bitAt_split]
      by_cases c : 8 * s ≤ p ∧ p < 8 * e
      · have c' : s ≤ p / 8 ∧ p / 8 < e := by omega
        simp only [c, c', and_self, if_true]
        have e1 : 8 * ssa + (p - 8 * dsa) = 8 * (ssa + (p / 8 - dsa)) + p % 8 := by omega
        rw [← hsrc _ (by omega), e1, bitAt_mk _ _ _ (Nat.mod_lt _ (by omega))]
      · have c' : ¬ (s ≤ p / 8 ∧ p / 8 < e) := by omega
        simp only [c, c', if_false]
        rfl
    | bits a bs be =>
      simp only [BBR.lo, BBR.hi, BBR.wf] at hlo hhi hlt hw
      obtain ⟨h1, h2⟩ := hw
      have hmask := (masks_lt bs (by omega) be (by omega)).2
      show bitAt (copyRange dsa ssa mc (.bits a bs be)) p =
        if 8 * a + bs ≤ p ∧ p < 8 * a + be then bitAt m0 (8 * ssa + (p - 8 * dsa)) else bitAt mc p
      simp only [copyRange, bitAt_set]
      by_cases e : p / 8 = a
      · simp only [e, if_true]
        have e255 : (255 : Nat) = 2 ^ 8 - 1 := by decide
        rw [Nat.testBit_or, Nat.testBit_and, Nat.testBit_and, testBit_setMask bs be _ (by omega) h2, e255,
          HeaderMeta.testBit_compl 8 _ hmask, testBit_setMask bs be _ (by omega) h2]
        have h8 : p % 8 < 8 := Nat.mod_lt _ (by omega)
        by_cases c : 8 * a + bs ≤ p ∧ p < 8 * a + be
        · have c1 : bs ≤ p % 8 := by omega
          have c2 : p % 8 < be := by omega
          have e1 : 8 * ssa + (p - 8 * dsa) = 8 * (ssa + (a - dsa)) + p % 8 := by omega
          rw [← hsrc _ (by omega), e1, bitAt_mk _ _ _ h8]
          simp [c, c1, c2]
        · have c1 : ¬ (bs ≤ p % 8 ∧ p % 8 < be) := by omega
          rw [if_neg c, bitAt_split, e]
          by_cases d : bs ≤ p % 8
          · have : ¬ p % 8 < be := by omega
            simp [d, this, h8]
          · simp [d, h8]
      · have c : ¬ (8 * a + bs ≤ p ∧ p < 8 * a + be) := by omega
        simp [e, c]
  refine ⟨⟨?_, ?_⟩, eff⟩
  · cases r with
    | bytes s e =>
      intro x; simp only [copyRange]; split
      · exact hm _
      · exact hm x
    | bits a bs be =>
      obtain ⟨h1, h2⟩ := hw
      have hmask := (masks_lt bs (by omega) be (by omega)).2
      apply byteMem_set _ hm
      exact Nat.or_lt_two_pow (n := 8) (Nat.lt_of_le_of_lt Nat.and_le_right hmask) (Nat.lt_of_le_of_lt Nat.and_le_left (hm a))
  · intro q hq
    rw [eff q]
    have : ¬ (r.lo ≤ q ∧ q < r.hi) := by omega
    rw [if_neg this]
    exact hsrc q hq

/-- **C21 (bcopy, bit level)**: a destination bit inside the interval becomes the source bit at the
same distance from the source start; every other bit is unchanged (source and destination intervals
do not overlap). -/
theorem bcopy_exact (m : Mem) (hm : ByteMem m) (dsa dsb dea deb ssa : Nat) (hsb : dsb < 8) (heb : deb < 8)
    (hord : dsa < dea ∨ (dsa = dea ∧ dsb ≤ deb))
    (hdisj : 8 * ssa + (8 * dea + deb - 8 * dsa) ≤ 8 * dsa + dsb ∨ 8 * dea + deb ≤ 8 * ssa + dsb) (p : Nat) :
    bitAt (copyMetaBits m dsa dsb dea deb ssa) p =
      (if 8 * dsa + dsb ≤ p ∧ p < 8 * dea + deb then bitAt m (8 * ssa + (p - 8 * dsa)) else bitAt m p) ∧
    ByteMem (copyMetaBits m dsa dsb dea deb ssa) := by
  have hd : 8 * ssa + (8 * dea + deb - 8 * dsa) ≤ 8 * dsa + dsb ∨ 8 * dea + deb ≤ 8 * ssa + (8 * dsa + dsb - 8 * dsa) := by
    rcases hdisj with h | h
    · exact Or.inl h
    · exact Or.inr (by omega)
  have := fold_tiles (copyRange dsa ssa) (fun p => bitAt m (8 * ssa + (p - 8 * dsa)))
    (fun mc => ByteMem mc ∧ ∀ q, 8 * ssa + (8 * dsa + dsb - 8 * dsa) ≤ q ∧ q < 8 * ssa + (8 * dea + deb - 8 * dsa) → bitAt mc q = bitAt m q)
    (8 * dsa + dsb) (8 * dea + deb)
    (fun mc r hi hw h1 h2 => copyRange_spec m dsa ssa _ _ (by omega) hd mc r hi hw h1 h2)
    _ _ _ (breakBitRange_partition dsa dsb dea deb hsb heb hord) (Nat.le_refl _) (Nat.le_refl _) m ⟨hm, fun _ _ => rfl⟩
  exact ⟨this.2 p, this.1.1⟩

/-! ## lifting to fields -/

theorem lshift_lt8 (s : Spec) (hs : s.ok) (a : Nat) (ha : a < 2 ^ 64) : lshift s a < 8 := by
  by_cases hlb : s.logBits < 3
  · have := lshift_bound s a hlb ha
    have := Nat.two_pow_pos s.logBits
    omega
  · have : lshift s a = 0 := by unfold lshift; simp; omega
    omega

theorem fieldBase_mono (s : Spec) {r r' : Nat} (h : r ≤ r') : fieldBase s r ≤ fieldBase s r' := by
  unfold fieldBase
  have := Nat.mul_le_mul_right (2 ^ s.logBits) h
  omega

/-- **C21 (the interval is a set of whole fields)**: the metadata positions `bulk_update_metadata`
computes for `[start, start+size)` delimit exactly the fields of the regions
`⌊start/R⌋ … ⌊(start+size)/R⌋ − 1` — for any alignment of `start` and `size`. -/
theorem bulk_interval (s : Spec) (hs : s.ok) (start size : Nat) (h : start + size < 2 ^ 64) :
    8 * metaAddr s start + lshift s start = fieldBase s (start >>> s.logRegion) ∧
    8 * metaAddr s (start + size) + lshift s (start + size) = fieldBase s ((start + size) >>> s.logRegion) ∧
    lshift s start < 8 ∧ lshift s (start + size) < 8 ∧
    (metaAddr s start < metaAddr s (start + size) ∨
      (metaAddr s start = metaAddr s (start + size) ∧ lshift s start ≤ lshift s (start + size))) := by
  have h1 := field_position s hs start (by omega)
  have h2 := field_position s hs (start + size) h
  have h3 := lshift_lt8 s hs start (by omega)
  have h4 := lshift_lt8 s hs (start + size) h
  have hm : start >>> s.logRegion ≤ (start + size) >>> s.logRegion := by
    rw [Nat.shiftRight_eq_div_pow, Nat.shiftRight_eq_div_pow]
    exact Nat.div_le_div_right (by omega)
  have := fieldBase_mono s hm
  exact ⟨h1, h2, h3, h4, by omega⟩

/-- a bit of the field of region `r` lies in the interval of regions `[r0, r1)` iff `r0 ≤ r < r1`. -/
theorem field_in_interval (s : Spec) (r0 r1 r i : Nat) (hi : i < 2 ^ s.logBits) :
    (fieldBase s r0 ≤ fieldBase s r + i ∧ fieldBase s r + i < fieldBase s r1) ↔ (r0 ≤ r ∧ r < r1) := by
  unfold fieldBase
  constructor
  · intro ⟨h1, h2⟩
    constructor
    · apply Nat.le_of_not_lt
      intro c
      have := Nat.mul_le_mul_right (2 ^ s.logBits) (Nat.succ_le_of_lt c)
      rw [Nat.succ_mul] at this
      omega
    · apply Nat.lt_of_not_le
      intro c
      have := Nat.mul_le_mul_right (2 ^ s.logBits) c
      omega
  · intro ⟨h1, h2⟩
    have a1 := Nat.mul_le_mul_right (2 ^ s.logBits) h1
    have a2 := Nat.mul_le_mul_right (2 ^ s.logBits) (Nat.succ_le_of_lt h2)
    rw [Nat.succ_mul] at a2
    omega

/-- lifting a bit-level description to the array: if exactly the bits of the interval of regions
`[r0, r1)` were overwritten with `val`, the entries of those regions are what `val` spells and all
other entries are unchanged. -/
theorem lift_regions (s : Spec) (hs : s.ok) (m m' : Mem) (hm : ByteMem m) (hm' : ByteMem m') (r0 r1 : Nat)
    (val : Nat → Bool)
    (h : ∀ p, bitAt m' p = if fieldBase s r0 ≤ p ∧ p < fieldBase s r1 then val p else bitAt m p)
    (r : Nat) :
    (¬ (r0 ≤ r ∧ r < r1) → absArr m' s r = absArr m s r) ∧
    ((r0 ≤ r ∧ r < r1) → ∀ i, (absArr m' s r).testBit i = (decide (i < 2 ^ s.logBits) && val (fieldBase s r + i))) := by
  constructor
  · intro hr
    apply absArr_congr m m' hm hm' s hs
    intro p ⟨hp1, hp2⟩
    rw [h p]
    have := (field_in_interval s r0 r1 r (p - fieldBase s r) (by omega))
    have e : fieldBase s r + (p - fieldBase s r) = p := by omega
    rw [e] at this
    rw [if_neg (fun c => hr (this.1 c))]
  · intro hr i
    rw [testBit_absArr m' hm' s hs]
    by_cases hi : i < 2 ^ s.logBits
    · rw [h, if_pos ((field_in_interval s r0 r1 r i hi).2 hr)]
    · simp [hi]

/-- **C21 (bzero on fields)**: the entries of regions `⌊start/R⌋ … ⌊(start+size)/R⌋−1` become 0, every
other entry — and every bit outside those fields — is unchanged. -/
theorem bzero_regions (s : Spec) (hs : s.ok) (m : Mem) (hm : ByteMem m) (start size : Nat) (h : start + size < 2 ^ 64) :
    (∀ r, absArr (bzero s m start size) s r =
      if start >>> s.logRegion ≤ r ∧ r < (start + size) >>> s.logRegion then 0 else absArr m s r) ∧
    (∀ p, ¬ (fieldBase s (start >>> s.logRegion) ≤ p ∧ p < fieldBase s ((start + size) >>> s.logRegion)) →
      bitAt (bzero s m start size) p = bitAt m p) := by
  obtain ⟨e1, e2, b1, b2, ho⟩ := bulk_interval s hs start size h
  have key : ByteMem (bzero s m start size) ∧ ∀ p, bitAt (bzero s m start size) p =
      if fieldBase s (start >>> s.logRegion) ≤ p ∧ p < fieldBase s ((start + size) >>> s.logRegion) then false else bitAt m p := by
    unfold bzero
    by_cases hz : size = 0
    · simp only [hz, if_true, Nat.add_zero]
      refine ⟨hm, fun p => ?_⟩
      have : ¬ (fieldBase s (start >>> s.logRegion) ≤ p ∧ p < fieldBase s (start >>> s.logRegion)) := by omega
      rw [if_neg this]
    · simp only [hz, if_false]
      refine ⟨(bzero_exact m hm _ _ _ _ b1 b2 ho 0).2, fun p => ?_⟩
      rw [(bzero_exact m hm _ _ _ _ b1 b2 ho p).1, e1, e2]
  refine ⟨fun r => ?_, fun p hp => by rw [key.2 p, if_neg hp]⟩
  have L := lift_regions s hs m _ hm key.1 _ _ (fun _ => false) key.2 r
  by_cases hr : start >>> s.logRegion ≤ r ∧ r < (start + size) >>> s.logRegion
  · rw [if_pos hr]
    apply Nat.eq_of_testBit_eq
    intro i
    rw [L.2 hr i]; simp
  · rw [if_neg hr]; exact L.1 hr

/-- **C21 (bset on fields)**: the covered entries become all-ones (`2^width − 1`). -/
theorem bset_regions (s : Spec) (hs : s.ok) (m : Mem) (hm : ByteMem m) (start size : Nat) (h : start + size < 2 ^ 64) :
    (∀ r, absArr (bset s m start size) s r =
      if start >>> s.logRegion ≤ r ∧ r < (start + size) >>> s.logRegion then 2 ^ 2 ^ s.logBits - 1 else absArr m s r) ∧
    (∀ p, ¬ (fieldBase s (start >>> s.logRegion) ≤ p ∧ p < fieldBase s ((start + size) >>> s.logRegion)) →
      bitAt (bset s m start size) p = bitAt m p) := by
  obtain ⟨e1, e2, b1, b2, ho⟩ := bulk_interval s hs start size h
  have key : ByteMem (bset s m start size) ∧ ∀ p, bitAt (bset s m start size) p =
      if fieldBase s (start >>> s.logRegion) ≤ p ∧ p < fieldBase s ((start + size) >>> s.logRegion) then true else bitAt m p := by
    unfold bset
    by_cases hz : size = 0
    · simp only [hz, if_true, Nat.add_zero]
      refine ⟨hm, fun p => ?_⟩
      have : ¬ (fieldBase s (start >>> s.logRegion) ≤ p ∧ p < fieldBase s (start >>> s.logRegion)) := by omega
      rw [if_neg this]
    · simp only [hz, if_false]
      refine ⟨(bset_exact m hm _ _ _ _ b1 b2 ho 0).2, fun p => ?_⟩
      rw [(bset_exact m hm _ _ _ _ b1 b2 ho p).1, e1, e2]
  refine ⟨fun r => ?_, fun p hp => by rw [key.2 p, if_neg hp]⟩
  have L := lift_regions s hs m _ hm key.1 _ _ (fun _ => true) key.2 r
  by_cases hr : start >>> s.logRegion ≤ r ∧ r < (start + size) >>> s.logRegion
  · rw [if_pos hr]
    apply Nat.eq_of_testBit_eq
    intro i
    rw [L.2 hr i, Nat.testBit_two_pow_sub_one]; simp
  · rw [if_neg hr]; exact L.1 hr

/-- **C21 (aligned arguments)**: for region-aligned `start` and `size` the covered regions are exactly
those lying inside `[start, start+size)`. For unaligned arguments the code covers
`⌊start/R⌋ … ⌊(start+size)/R⌋−1` (the theorems above) — the region cut by `start` is included, the
region cut by the end is not; callers pass aligned ranges. -/
theorem aligned_regions (lr start size r : Nat) (h1 : start % 2 ^ lr = 0) (h2 : size % 2 ^ lr = 0) :
    (start >>> lr ≤ r ∧ r < (start + size) >>> lr) ↔ (start ≤ r * 2 ^ lr ∧ (r + 1) * 2 ^ lr ≤ start + size) := by
  have hR := Nat.two_pow_pos lr
  obtain ⟨k, hk⟩ := Nat.dvd_of_mod_eq_zero h1
  obtain ⟨j, hj⟩ := Nat.dvd_of_mod_eq_zero h2
  rw [Nat.shiftRight_eq_div_pow, Nat.shiftRight_eq_div_pow, hk, hj, ← Nat.mul_add,
    Nat.mul_div_cancel_left _ hR, Nat.mul_div_cancel_left _ hR, Nat.mul_comm r, Nat.mul_comm (r + 1)]
  constructor
  · intro ⟨a, b⟩
    exact ⟨Nat.mul_le_mul_left _ a, Nat.mul_le_mul_left _ (Nat.succ_le_of_lt b)⟩
  · intro ⟨a, b⟩
    exact ⟨Nat.le_of_mul_le_mul_left a hR, Nat.lt_of_succ_le (Nat.le_of_mul_le_mul_left b hR)⟩

/-- **C21 (bcopy on fields)**: with a source table of the same geometry that does not overlap the
destination's covered fields, the covered entries become the source's entries of the same regions;
every other entry — and every bit outside those fields — is unchanged. -/
theorem bcopy_regions (debug : Bool) (s : Spec) (hs : s.ok) (ostart : Nat) (m : Mem) (hm : ByteMem m)
    (start size : Nat) (h : start + size < 2 ^ 64)
    (hdisj : fieldBase { s with start := ostart } ((start + size) >>> s.logRegion) ≤ fieldBase s (start >>> s.logRegion) ∨
      fieldBase s ((start + size) >>> s.logRegion) ≤ fieldBase { s with start := ostart } (start >>> s.logRegion)) :
    ∃ m', bcopy debug s { s with start := ostart } m start size = some m' ∧
    (∀ r, absArr m' s r =
      if start >>> s.logRegion ≤ r ∧ r < (start + size) >>> s.logRegion then absArr m { s with start := ostart } r
      else absArr m s r) ∧
    (∀ p, ¬ (fieldBase s (start >>> s.logRegion) ≤ p ∧ p < fieldBase s ((start + size) >>> s.logRegion)) →
      bitAt m' p = bitAt m p) := by
  obtain ⟨e1, e2, b1, b2, ho⟩ := bulk_interval s hs start size h
  have hso : Spec.ok { s with start := ostart } := hs
  have f1 := field_position { s with start := ostart } hso start (by omega)
  have hl : lshift { s with start := ostart } start = lshift s start := rfl
  have hfb : ∀ r, fieldBase { s with start := ostart } r + 8 * s.start = fieldBase s r + 8 * ostart := by
    intro r; unfold fieldBase; simp only; omega
  have g0 := hfb (start >>> s.logRegion)
  have g1 := hfb ((start + size) >>> s.logRegion)
  have hmono := fieldBase_mono s (r := start >>> s.logRegion) (r' := (start + size) >>> s.logRegion) (by
    rw [Nat.shiftRight_eq_div_pow, Nat.shiftRight_eq_div_pow]; exact Nat.div_le_div_right (by omega))
  have hex := bcopy_exact m hm (metaAddr s start) (lshift s start) (metaAddr s (start + size)) (lshift s (start + size))
    (metaAddr { s with start := ostart } start) b1 b2 ho (by
      simp only at f1 hdisj g0 g1
      rw [hl] at f1
      omega)
  refine ⟨copyMetaBits m (metaAddr s start) (lshift s start) (metaAddr s (start + size)) (lshift s (start + size))
    (metaAddr { s with start := ostart } start), ?_, ?_⟩
  · unfold bcopy copyMetaBits
    simp [hl]
  have key : ∀ p, bitAt (copyMetaBits m (metaAddr s start) (lshift s start) (metaAddr s (start + size))
      (lshift s (start + size)) (metaAddr { s with start := ostart } start)) p =
      if fieldBase s (start >>> s.logRegion) ≤ p ∧ p < fieldBase s ((start + size) >>> s.logRegion)
      then bitAt m (p + 8 * ostart - 8 * s.start) else bitAt m p := by
    intro p
    rw [(hex p).1, e1, e2]
    by_cases c : fieldBase s (start >>> s.logRegion) ≤ p ∧ p < fieldBase s ((start + size) >>> s.logRegion)
    · rw [if_pos c, if_pos c]
      congr 1
      simp only at f1 g0
      rw [hl] at f1
      omega
    · rw [if_neg c, if_neg c]
  refine ⟨fun r => ?_, fun p hp => by rw [key p, if_neg hp]⟩
  have L := lift_regions s hs m _ hm (hex 0).2 _ _ (fun p => bitAt m (p + 8 * ostart - 8 * s.start)) key r
  by_cases hr : start >>> s.logRegion ≤ r ∧ r < (start + size) >>> s.logRegion
  · rw [if_pos hr]
    apply Nat.eq_of_testBit_eq
    intro i
    rw [L.2 hr i, testBit_absArr m hm _ hso]
    have := hfb r
    have e : fieldBase s r + i + 8 * ostart - 8 * s.start = fieldBase { s with start := ostart } r + i := by omega
    simp only at e ⊢
    rw [e]
  · rw [if_neg hr]; exact L.1 hr

/-! ## non-vacuity and what an unaligned call does -/
example : breakBitRange 100 3 104 5 true = [.bits 100 3 8, .bytes 101 104, .bits 104 0 5] := by decide
example : breakBitRange 100 3 104 5 false = [.bits 104 0 5, .bytes 101 104, .bits 100 3 8] := by decide
example : breakBitRange 100 3 101 0 true = [.bits 100 3 8] := by decide
/-- an unaligned `bzero(start = 4, size = 8)` with 8-byte regions clears region 0 (cut by `start`) and
not region 1 (cut by the end). -/
example : let s : Spec := { start := 1000, logBits := 0, logRegion := 3 }
    let m : Mem := fun x => if x = 1000 then 255 else 0
    absArr (bzero s m 4 8) s 0 = 0 ∧ absArr (bzero s m 4 8) s 1 = 1 := by decide

end Mmtk.SideMeta
