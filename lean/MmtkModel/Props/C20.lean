import MmtkModel.Model.SideMeta
import MmtkModel.Props.C23
/-!
# C20 — Side metadata behaves as an array of independent fixed-width integers
-/
namespace Mmtk.SideMeta
open Mmtk.Mem

/-- The specs the property speaks about: 1..64 bits per region, and not more metadata bits than
data bits per region (`log_data_meta_ratio` is an unsigned subtraction in the code). -/
def Spec.ok (s : Spec) : Prop := s.logBits ≤ 6 ∧ s.logBits ≤ s.logRegion + 3
instance (s : Spec) : Decidable s.ok := by unfold Spec.ok; exact inferInstance

/-- first bit (global bit index `8·byte address + bit`) of the field of region `r`. -/
def fieldBase (s : Spec) (r : Nat) : Nat := 8 * s.start + r * 2 ^ s.logBits

/-- bit `p` (global index) of memory. -/
def bitAt (m : Mem) (p : Nat) : Bool := (m (p / 8)).testBit (p % 8)

/-- bit `p` belongs to the field of region `r`. -/
def InFieldOf (s : Spec) (r p : Nat) : Prop := fieldBase s r ≤ p ∧ p < fieldBase s r + 2 ^ s.logBits

theorem lb_cases {lb : Nat} (h : lb ≤ 6) : lb = 0 ∨ lb = 1 ∨ lb = 2 ∨ lb = 3 ∨ lb = 4 ∨ lb = 5 ∨ lb = 6 := by omega

/-- **closed form of `meta_byte_lshift`** -/
theorem lshift_eq (s : Spec) (a : Nat) (hlb : s.logBits < 3) (ha : a < 2 ^ 64) :
    lshift s a = ((a >>> s.logRegion) % 2 ^ (3 - s.logBits)) * 2 ^ s.logBits := by
  obtain ⟨st, lb, lr⟩ := s
  simp only at hlb ⊢
  have hx : a >>> lr < 2 ^ 64 := Nat.lt_of_le_of_lt (Nat.shiftRight_le _ _) ha
  unfold lshift
  simp only
  generalize a >>> lr = x at hx
  simp only [Nat.shiftLeft_eq, Nat.shiftRight_eq_div_pow]
  have : lb = 0 ∨ lb = 1 ∨ lb = 2 := by omega
  rcases this with rfl | rfl | rfl <;> simp <;> omega

example : lshift { start := 0, logBits := 1, logRegion := 3 } 0x1f000000038 = 6 := by decide

/-- no wrap in `address_to_contiguous_meta_address` for byte-or-wider fields. -/
theorem metaAddr_word (s : Spec) (hs : s.ok) (a : Nat) (ha : a < 2 ^ 64) (hlb : 3 ≤ s.logBits) :
    metaAddr s a = s.start + (a >>> s.logRegion) * 2 ^ (s.logBits - 3) := by
  unfold metaAddr
  by_cases h3 : s.logBits ≤ 3
  · have : s.logBits = 3 := by omega
    simp [this]
  · simp only [h3, if_false, Nat.shiftLeft_eq]
    congr 1
    apply Nat.mod_eq_of_lt
    have h1 : (a >>> s.logRegion) * 2 ^ (s.logBits - 3) ≤ (a >>> s.logRegion) * 2 ^ s.logRegion :=
      Nat.mul_le_mul_left _ (Nat.pow_le_pow_right (by omega) (by have := hs.2; omega))
    have h2 : (a >>> s.logRegion) * 2 ^ s.logRegion ≤ a := by
      rw [Nat.shiftRight_eq_div_pow]; exact Nat.div_mul_le_self _ _
    omega

/-- **where a field lives**: the field of data address `a` starts at global bit
`8·start + region(a)·2^logBits` (byte `metaAddr`, bit `lshift`). -/
theorem field_position (s : Spec) (hs : s.ok) (a : Nat) (ha : a < 2 ^ 64) :
    8 * metaAddr s a + lshift s a = fieldBase s (a >>> s.logRegion) := by
  by_cases hlb : s.logBits < 3
  · rw [lshift_eq s a hlb ha]
    unfold metaAddr fieldBase
    obtain ⟨st, lb, lr⟩ := s
    simp only at hlb ⊢
    generalize a >>> lr = x
    have : lb = 0 ∨ lb = 1 ∨ lb = 2 := by omega
    rcases this with rfl | rfl | rfl <;> simp [Nat.shiftRight_eq_div_pow] <;> omega
  · rw [metaAddr_word s hs a ha (by omega)]
    have : lshift s a = 0 := by unfold lshift; simp; omega
    rw [this]
    unfold fieldBase
    have e : 2 ^ s.logBits = 8 * 2 ^ (s.logBits - 3) := by
      have : s.logBits = 3 + (s.logBits - 3) := by omega
      rw [this, Nat.pow_add]; simp
    rw [e]
    generalize 2 ^ (s.logBits - 3) = w
    generalize a >>> s.logRegion = x
    rw [Nat.mul_add, Nat.add_zero, ← Nat.mul_assoc x 8 w, Nat.mul_comm x 8, Nat.mul_assoc]

/-- **fields of different regions are disjoint bit sets**. -/
theorem field_disjoint (s : Spec) (r r' p : Nat) (hne : r ≠ r') (h : InFieldOf s r p) : ¬ InFieldOf s r' p := by
  unfold InFieldOf fieldBase at *
  intro h'
  rcases Nat.lt_or_gt_of_ne hne with hlt | hlt
  · have := Nat.mul_le_mul_right (2 ^ s.logBits) (Nat.succ_le_of_lt hlt)
    rw [Nat.succ_mul] at this
    omega
  · have := Nat.mul_le_mul_right (2 ^ s.logBits) (Nat.succ_le_of_lt hlt)
    rw [Nat.succ_mul] at this
    omega

open Mmtk.HeaderMeta (ByteMem)

/-! ## the abstraction at bit level -/

theorem testBit_byte_high {b : Nat} (hb : b < 256) {i : Nat} (hi : 8 ≤ i) : b.testBit i = false :=
  Nat.testBit_lt_two_pow (Nat.lt_of_lt_of_le hb (Nat.pow_le_pow_right (by omega) hi : 2 ^ 8 ≤ 2 ^ i))

theorem testBit_readLE (m : Mem) (hm : ByteMem m) (a w i : Nat) :
    (readLE m a w).testBit i = (decide (i < 8 * w) && (m (a + i / 8)).testBit (i % 8)) := by
  induction w generalizing a i with
  | zero => simp [readLE]
  | succ w ih =>
    simp only [readLE]
    have e : m a + 256 * readLE m (a + 1) w = 2 ^ 8 * readLE m (a + 1) w + m a := by omega
    rw [e, Nat.testBit_two_pow_mul_add _ (hm a)]
    by_cases hi : i < 8
    · have h1 : i / 8 = 0 := by omega
      have h2 : i % 8 = i := by omega
      have h3 : i < 8 * (w + 1) := by omega
      simp [hi, h1, h2, h3]
    · rw [if_neg hi, ih]
      have h1 : (i - 8) / 8 = i / 8 - 1 := by omega
      have h2 : (i - 8) % 8 = i % 8 := by omega
      have h3 : a + 1 + (i / 8 - 1) = a + i / 8 := by omega
      rw [h1, h2, h3]
      congr 1
      simp only [decide_eq_decide]
      omega

/-- **bit-level description of the abstraction**: bit `i` of the entry of region `r` is memory bit
`fieldBase r + i`. -/
theorem testBit_absArr (m : Mem) (hm : ByteMem m) (s : Spec) (hs : s.ok) (r i : Nat) :
    (absArr m s r).testBit i = (decide (i < 2 ^ s.logBits) && bitAt m (fieldBase s r + i)) := by
  unfold absArr bitAt fieldBase
  by_cases hlb : s.logBits < 3
  · simp only [hlb, if_true]
    rw [Nat.testBit_mod_two_pow, Nat.testBit_shiftRight]
    by_cases hi : i < 2 ^ s.logBits
    · simp only [hi, decide_true, Bool.true_and]
      obtain ⟨st, lb, lr⟩ := s
      simp only at hlb hi ⊢
      have : lb = 0 ∨ lb = 1 ∨ lb = 2 := by omega
      rcases this with rfl | rfl | rfl
      · have e1 : (8 * st + r * 2 ^ 0 + i) / 8 = st + r / 2 ^ (3 - 0) := by simp at hi ⊢; omega
        have e2 : (8 * st + r * 2 ^ 0 + i) % 8 = r % 2 ^ (3 - 0) * 2 ^ 0 + i := by simp at hi ⊢; omega
        rw [e1, e2]
      · have e1 : (8 * st + r * 2 ^ 1 + i) / 8 = st + r / 2 ^ (3 - 1) := by simp at hi ⊢; omega
        have e2 : (8 * st + r * 2 ^ 1 + i) % 8 = r % 2 ^ (3 - 1) * 2 ^ 1 + i := by simp at hi ⊢; omega
        rw [e1, e2]
      · have e1 : (8 * st + r * 2 ^ 2 + i) / 8 = st + r / 2 ^ (3 - 2) := by simp at hi ⊢; omega
        have e2 : (8 * st + r * 2 ^ 2 + i) % 8 = r % 2 ^ (3 - 2) * 2 ^ 2 + i := by simp at hi ⊢; omega
        rw [e1, e2]
    · simp [hi]
  · simp only [hlb, if_false]
    rw [testBit_readLE m hm]
    have e : 2 ^ s.logBits = 8 * 2 ^ (s.logBits - 3) := by
      have : s.logBits = 3 + (s.logBits - 3) := by omega
      rw [this, Nat.pow_add]; simp
    rw [e]
    generalize 2 ^ (s.logBits - 3) = w
    have e1 : (8 * s.start + r * (8 * w) + i) / 8 = s.start + r * w + i / 8 := by
      rw [← Nat.mul_assoc, Nat.mul_comm r 8, Nat.mul_assoc]; omega
    have e2 : (8 * s.start + r * (8 * w) + i) % 8 = i % 8 := by
      rw [← Nat.mul_assoc, Nat.mul_comm r 8, Nat.mul_assoc]; omega
    rw [e1, e2]

theorem absArr_lt (m : Mem) (hm : ByteMem m) (s : Spec) (hs : s.ok) (r : Nat) : absArr m s r < 2 ^ 2 ^ s.logBits := by
  apply Nat.lt_pow_two_of_testBit
  intro i hi
  rw [testBit_absArr m hm s hs]
  have : ¬ i < 2 ^ s.logBits := by omega
  simp [this]

/-- Two memories that agree on the bits of region `r`'s field have the same entry for `r`. -/
theorem absArr_congr (m m' : Mem) (hm : ByteMem m) (hm' : ByteMem m') (s : Spec) (hs : s.ok) (r : Nat)
    (h : ∀ p, InFieldOf s r p → bitAt m' p = bitAt m p) : absArr m' s r = absArr m s r := by
  apply Nat.eq_of_testBit_eq
  intro i
  rw [testBit_absArr m hm s hs, testBit_absArr m' hm' s hs]
  by_cases hi : i < 2 ^ s.logBits
  · rw [h _ ⟨by omega, by omega⟩]
  · simp [hi]

/-! ## bridge to the splice lemmas: the field of `a` as a (byte, shift, width) header-style field -/

/-- the sub-byte field of data address `a`, as a field of the byte at `metaAddr s a`. -/
def fieldSpec (s : Spec) (a : Nat) : HeaderMeta.Spec := { bitOffset := ((lshift s a : Nat) : Int), numBits := 2 ^ s.logBits }

theorem lshift_bound (s : Spec) (a : Nat) (hlb : s.logBits < 3) (ha : a < 2 ^ 64) :
    lshift s a + 2 ^ s.logBits ≤ 8 := by
  rw [lshift_eq s a hlb ha]
  obtain ⟨st, lb, lr⟩ := s
  simp only at hlb ⊢
  generalize a >>> lr = x
  have : lb = 0 ∨ lb = 1 ∨ lb = 2 := by omega
  rcases this with rfl | rfl | rfl <;> simp <;> omega

theorem fs_shift (s : Spec) (a : Nat) (hlb : s.logBits < 3) (ha : a < 2 ^ 64) : (fieldSpec s a).shift = lshift s a := by
  have := lshift_bound s a hlb ha
  have hp := Nat.two_pow_pos s.logBits
  unfold fieldSpec HeaderMeta.Spec.shift
  simp only
  omega

theorem fs_addr (s : Spec) (a h : Nat) (hlb : s.logBits < 3) (ha : a < 2 ^ 64) : (fieldSpec s a).addr h = h := by
  have := lshift_bound s a hlb ha
  have hp := Nat.two_pow_pos s.logBits
  unfold fieldSpec HeaderMeta.Spec.addr HeaderMeta.Spec.byteOffset
  simp only
  omega

theorem fs_ok (s : Spec) (a : Nat) (hlb : s.logBits < 3) (ha : a < 2 ^ 64) : (fieldSpec s a).bitsOk := by
  have h1 := lshift_bound s a hlb ha
  have h2 := fs_shift s a hlb ha
  refine ⟨Nat.two_pow_pos _, ?_, ?_⟩
  · show 2 ^ s.logBits < 8
    calc 2 ^ s.logBits < 2 ^ 3 := Nat.pow_lt_pow_right (by omega) hlb
      _ = 8 := by decide
  · rw [h2]; exact h1

theorem byteMask_eq (s : Spec) (hlb : s.logBits < 3) : byteMask s = 2 ^ 2 ^ s.logBits - 1 := by
  unfold byteMask
  simp only [Nat.one_shiftLeft]
  apply Nat.mod_eq_of_lt
  have : s.logBits = 0 ∨ s.logBits = 1 ∨ s.logBits = 2 := by omega
  rcases this with h | h | h <;> rw [h] <;> decide

theorem fmask_eq (s : Spec) (a : Nat) (hlb : s.logBits < 3) (ha : a < 2 ^ 64) :
    fmask s a = HeaderMeta.mask8 (fieldSpec s a) := by
  unfold fmask HeaderMeta.mask8
  rw [fs_shift s a hlb ha, byteMask_eq s hlb]
  rfl

/-- the abstraction's entry of `a`'s region is the field of its metadata byte. -/
theorem absArr_bits (m : Mem) (s : Spec) (a : Nat) (hlb : s.logBits < 3) (ha : a < 2 ^ 64) :
    absArr m s (a >>> s.logRegion) = HeaderMeta.getBits (fieldSpec s a) (m (metaAddr s a)) := by
  rw [HeaderMeta.getBits_eq _ (fs_ok s a hlb ha), fs_shift s a hlb ha, lshift_eq s a hlb ha]
  unfold absArr metaAddr
  have h3 : s.logBits ≤ 3 := by omega
  simp only [hlb, h3, if_true, Nat.shiftRight_eq_div_pow (a >>> s.logRegion)]
  rfl

theorem absArr_word (m : Mem) (s : Spec) (hs : s.ok) (a : Nat) (hlb : ¬ s.logBits < 3) (ha : a < 2 ^ 64) :
    absArr m s (a >>> s.logRegion) = readLE m (metaAddr s a) (tbytes s) := by
  rw [metaAddr_word s hs a ha (by omega)]
  unfold absArr tbytes
  simp only [hlb, if_false]

/-- **`load` returns the array entry of the address's region.** -/
theorem load_eq_absArr (s : Spec) (hs : s.ok) (m : Mem) (a : Nat) (ha : a < 2 ^ 64) :
    load s m a = absArr m s (a >>> s.logRegion) := by
  by_cases hlb : s.logBits < 3
  · rw [absArr_bits m s a hlb ha]
    unfold load HeaderMeta.getBits
    simp only [hlb, if_true, fmask_eq s a hlb ha, fs_shift s a hlb ha]
  · rw [absArr_word m s hs a hlb ha]
    unfold load
    simp only [hlb, if_false]

/-! ## what C20 demands of one call -/

/-- `m'` is `m` with the entry of `a`'s region replaced by `nv`: the abstraction is the updated
array, every memory bit outside that one field is unchanged, memory stays bytes. -/
structure Refines (s : Spec) (m m' : Mem) (a nv : Nat) : Prop where
  arr : absArr m' s = upd (absArr m s) (a >>> s.logRegion) nv
  frame : ∀ p, ¬ InFieldOf s (a >>> s.logRegion) p → bitAt m' p = bitAt m p
  bytes : ByteMem m'

theorem refines_of_frame (s : Spec) (hs : s.ok) (m m' : Mem) (hm : ByteMem m) (hm' : ByteMem m') (a nv : Nat)
    (hframe : ∀ p, ¬ InFieldOf s (a >>> s.logRegion) p → bitAt m' p = bitAt m p)
    (hnew : absArr m' s (a >>> s.logRegion) = nv) : Refines s m m' a nv := by
  refine ⟨?_, hframe, hm'⟩
  funext r'
  unfold upd
  by_cases e : r' = a >>> s.logRegion
  · simp [e, hnew]
  · simp only [e, if_false]
    apply absArr_congr m m' hm hm' s hs
    intro p hp
    exact hframe p (field_disjoint s r' _ p e hp)

theorem refines_noop (s : Spec) (m : Mem) (hm : ByteMem m) (a : Nat) :
    Refines s m m a (absArr m s (a >>> s.logRegion)) := by
  refine ⟨?_, fun _ _ => rfl, hm⟩
  funext r'
  unfold upd
  by_cases e : r' = a >>> s.logRegion <;> simp [e]

/-- any accessor on a sub-byte field that satisfies C23's `BitsPost` refines the array update. -/
theorem refines_of_bitsPost (s : Spec) (hs : s.ok) (m m' : Mem) (hm : ByteMem m) (a : Nat) (ha : a < 2 ^ 64)
    (hlb : s.logBits < 3) (ret nf : Nat)
    (post : HeaderMeta.BitsPost (fieldSpec s a) m (metaAddr s a) m' ret nf) :
    Refines s m m' a nf ∧ ret = absArr m s (a >>> s.logRegion) := by
  have haddr := fs_addr s a (metaAddr s a) hlb ha
  have hsh := fs_shift s a hlb ha
  have hpos := field_position s hs a ha
  have hbound := lshift_bound s a hlb ha
  obtain ⟨ob, obits, rold, fnew, bok⟩ := post
  rw [haddr] at ob obits rold fnew bok
  have hm' : ByteMem m' := by
    intro x
    by_cases e : x = metaAddr s a
    · rw [e]; exact bok
    · rw [ob x e]; exact hm x
  refine ⟨refines_of_frame s hs m m' hm hm' a nf ?_ ?_, ?_⟩
  · intro p hp
    unfold bitAt
    by_cases e : p / 8 = metaAddr s a
    · rw [e]
      apply obits
      unfold HeaderMeta.InField
      rw [hsh]
      unfold InFieldOf at hp
      show ¬ (lshift s a ≤ p % 8 ∧ p % 8 < lshift s a + 2 ^ s.logBits)
      omega
    · rw [ob _ e]
  · rw [absArr_bits m' s a hlb ha]; exact fnew
  · rw [absArr_bits m s a hlb ha]; exact rold

theorem tbytes_pow (s : Spec) (hlb : ¬ s.logBits < 3) : 256 ^ tbytes s = 2 ^ 2 ^ s.logBits := by
  unfold tbytes
  have e : (256 : Nat) = 2 ^ 8 := by decide
  rw [e, ← Nat.pow_mul]
  congr 1
  have : s.logBits = 3 + (s.logBits - 3) := by omega
  conv => rhs; rw [this, Nat.pow_add]

/-- a word store of a value that fits refines the array update. -/
theorem refines_word_write (s : Spec) (hs : s.ok) (m : Mem) (hm : ByteMem m) (a : Nat) (ha : a < 2 ^ 64)
    (hlb : ¬ s.logBits < 3) (nv : Nat) (hv : nv < 2 ^ 2 ^ s.logBits) :
    Refines s m (writeLE m (metaAddr s a) (tbytes s) nv) a nv := by
  have hpos := field_position s hs a ha
  have hl0 : lshift s a = 0 := by unfold lshift; simp; omega
  have hW : 2 ^ s.logBits = 8 * tbytes s := by
    unfold tbytes
    have : s.logBits = 3 + (s.logBits - 3) := by omega
    conv => lhs; rw [this, Nat.pow_add]
  have hm' := HeaderMeta.writeLE_byteMem m hm (metaAddr s a) (tbytes s) nv
  refine refines_of_frame s hs m _ hm hm' a nv ?_ ?_
  · intro p hp
    unfold bitAt
    rw [HeaderMeta.writeLE_other]
    unfold InFieldOf at hp
    omega
  · rw [absArr_word _ s hs a hlb ha, HeaderMeta.readLE_writeLE, tbytes_pow s hlb]
    exact Nat.mod_eq_of_lt hv

/-- splicing a value that fits into a sub-byte field refines the array update. -/
theorem refines_bits_write (s : Spec) (hs : s.ok) (m : Mem) (hm : ByteMem m) (a : Nat) (ha : a < 2 ^ 64)
    (hlb : s.logBits < 3) (nv : Nat) (hv : nv < 2 ^ 2 ^ s.logBits) :
    Refines s m (set m (metaAddr s a) (HeaderMeta.setBits (fieldSpec s a) (m (metaAddr s a)) nv)) a nv := by
  have := HeaderMeta.set_post (fieldSpec s a) (fs_ok s a hlb ha) m (metaAddr s a) nv
    (by rw [fs_addr s a _ hlb ha]; exact hm _) hv
  rw [fs_addr s a _ hlb ha] at this
  exact (refines_of_bitsPost s hs m _ hm a ha hlb _ nv this).1

/-! ## one refinement theorem per accessor -/

theorem valueOk_of_lt (debug : Bool) (s : Spec) (v : Nat) (hv : v < 2 ^ 2 ^ s.logBits) : valueOk debug s v = true := by
  unfold valueOk; simp [hv]

/-- `(raw & !mask) | ((nv << lshift) & mask)` is the splice of `nv mod 2^width`. -/
theorem splice_masked (fs : HeaderMeta.Spec) (h : fs.bitsOk) (raw nv : Nat) (hr : raw < 256) :
    (raw &&& (255 - HeaderMeta.mask8 fs)) ||| (((nv <<< fs.shift) % 256) &&& HeaderMeta.mask8 fs) =
      HeaderMeta.setBits fs raw (nv % 2 ^ fs.numBits) := by
  have hlt : nv % 2 ^ fs.numBits < 2 ^ fs.numBits := Nat.mod_lt _ (Nat.two_pow_pos _)
  apply Nat.eq_of_testBit_eq
  intro i
  rw [HeaderMeta.testBit_setBits fs h raw _ hr hlt, Nat.testBit_or, Nat.testBit_and, Nat.testBit_and,
    HeaderMeta.testBit_notmask8 fs h, HeaderMeta.testBit_mask8 fs h]
  have e : (256 : Nat) = 2 ^ 8 := by decide
  rw [e, Nat.testBit_mod_two_pow, Nat.testBit_shiftLeft, Nat.testBit_mod_two_pow]
  obtain ⟨_, _, h3⟩ := h
  by_cases hf : HeaderMeta.InField fs i
  · have h8 : i < 8 := by unfold HeaderMeta.InField at hf; omega
    have hge : i ≥ fs.shift := hf.1
    have hlt' : i - fs.shift < fs.numBits := by unfold HeaderMeta.InField at hf; omega
    simp [hf, h8, hge, hlt']
  · simp only [hf, decide_false, Bool.not_false, Bool.and_true, Bool.and_false, Bool.or_false, if_false]
    by_cases h8 : i < 8
    · simp [h8]
    · simp [h8, testBit_byte_high hr (by omega : 8 ≤ i)]

section ops
variable (debug : Bool) (s : Spec) (hs : s.ok) (m : Mem) (hm : ByteMem m) (a : Nat) (ha : a < 2 ^ 64)
include hs hm ha

/-- **C20 (load / load_atomic)**: returns the entry, memory untouched. -/
theorem load_refines : load s m a = absArr m s (a >>> s.logRegion) ∧ Refines s m m a (absArr m s (a >>> s.logRegion)) :=
  ⟨load_eq_absArr s hs m a ha, refines_noop s m hm a⟩

/-- **C20 (store)**: only the entry of `a`'s region changes, to `v`. -/
theorem store_refines (v : Nat) (hv : v < 2 ^ 2 ^ s.logBits) :
    ∃ m', store debug s m a v = some m' ∧ Refines s m m' a v := by
  unfold store
  simp only [valueOk_of_lt debug s v hv, Bool.not_true, Bool.false_eq_true, if_false]
  by_cases hlb : s.logBits < 3
  · simp only [hlb, if_true, fmask_eq s a hlb ha]
    rw [← fs_shift s a hlb ha]
    exact ⟨_, rfl, refines_bits_write s hs m hm a ha hlb v hv⟩
  · simp only [hlb, if_false]
    exact ⟨_, rfl, refines_word_write s hs m hm a ha hlb v hv⟩

/-- **C20 (store_atomic)**. -/
theorem storeAtomic_refines (v : Nat) (hv : v < 2 ^ 2 ^ s.logBits) :
    ∃ m', storeAtomic debug s m a v = some m' ∧ Refines s m m' a v := by
  have : storeAtomic debug s m a v = store debug s m a v := rfl
  rw [this]; exact store_refines debug s hs m hm a ha v hv

/-- **C20 (set_zero / set_zero_atomic)**. -/
theorem setZero_refines : ∃ m', setZero debug s m a = some m' ∧ Refines s m m' a 0 := by
  unfold setZero
  simp only [hs.1, if_true]
  exact store_refines debug s hs m hm a ha 0 (Nat.two_pow_pos _)

/-- **C20 (compare_exchange)**: succeeds iff the entry equals `old`; then only that entry changes (to
`new`); both outcomes return the previous entry. -/
theorem cmpxchg_refines (old new : Nat) (ho : old < 2 ^ 2 ^ s.logBits) (hn : new < 2 ^ 2 ^ s.logBits) :
    ∃ m' ok, cmpxchg debug s m a old new = some (m', ok, absArr m s (a >>> s.logRegion)) ∧
      (ok = true ↔ absArr m s (a >>> s.logRegion) = old) ∧
      Refines s m m' a (if ok then new else absArr m s (a >>> s.logRegion)) := by
  by_cases hlb : s.logBits < 3
  · have e : cmpxchg debug s m a old new = HeaderMeta.cmpxchgBits false (fieldSpec s a) m (metaAddr s a) old new := by
      unfold cmpxchg HeaderMeta.cmpxchgBits
      simp only [valueOk_of_lt debug s new hn, Bool.not_true, Bool.false_eq_true, if_false, hlb, if_true,
        fmask_eq s a hlb ha, fs_addr s a _ hlb ha, HeaderMeta.setBitsChecked, Bool.false_and,
        HeaderMeta.setBits, HeaderMeta.getBits, fs_shift s a hlb ha]
    obtain ⟨m', ok, h1, h2, h3⟩ := HeaderMeta.cmpxchgBits_spec false (fieldSpec s a) (fs_ok s a hlb ha) m (metaAddr s a)
      old new (by rw [fs_addr s a _ hlb ha]; exact hm _) ho hn
    rw [fs_addr s a _ hlb ha] at h1 h2 h3
    rw [← absArr_bits m s a hlb ha] at h1 h2 h3
    refine ⟨m', ok, by rw [e, h1], h2, ?_⟩
    exact (refines_of_bitsPost s hs m m' hm a ha hlb _ _ h3).1
  · rw [absArr_word m s hs a hlb ha]
    unfold cmpxchg
    simp only [valueOk_of_lt debug s new hn, Bool.not_true, Bool.false_eq_true, if_false, hlb]
    by_cases e : readLE m (metaAddr s a) (tbytes s) = old
    · refine ⟨writeLE m (metaAddr s a) (tbytes s) new, true, by simp only [e, if_true], by simp [e], ?_⟩
      simpa using refines_word_write s hs m hm a ha hlb new hn
    · refine ⟨m, false, by simp only [e, if_false], by simp [e], ?_⟩
      have := refines_noop s m hm a
      rw [absArr_word m s hs a hlb ha] at this
      simpa using this

theorem width_dvd (hlb : s.logBits < 3) : 2 ^ 2 ^ s.logBits ∣ 256 := by
  have : s.logBits = 0 ∨ s.logBits = 1 ∨ s.logBits = 2 := by omega
  rcases this with h | h | h <;> rw [h] <;> decide

/-- `fetch_ops_on_bits(update)`: the entry becomes `update(old) mod 2^width`, the old entry is returned. -/
theorem fetchOpsOnBits_refines (hlb : s.logBits < 3) (update : Nat → Nat) :
    (fetchOpsOnBits s m a update).2 = absArr m s (a >>> s.logRegion) ∧
    Refines s m (fetchOpsOnBits s m a update).1 a (update (absArr m s (a >>> s.logRegion)) % 2 ^ 2 ^ s.logBits) := by
  have hraw : m (metaAddr s a) < 256 := hm _
  have e := splice_masked (fieldSpec s a) (fs_ok s a hlb ha) (m (metaAddr s a))
    (update (HeaderMeta.getBits (fieldSpec s a) (m (metaAddr s a)))) hraw
  unfold fetchOpsOnBits
  simp only [fmask_eq s a hlb ha]
  rw [← fs_shift s a hlb ha]
  rw [absArr_bits m s a hlb ha]
  refine ⟨rfl, ?_⟩
  have := refines_bits_write s hs m hm a ha hlb
    (update (HeaderMeta.getBits (fieldSpec s a) (m (metaAddr s a))) % 2 ^ 2 ^ s.logBits) (Nat.mod_lt _ (Nat.two_pow_pos _))
  rw [show (fieldSpec s a).numBits = 2 ^ s.logBits from rfl] at e
  rw [← e] at this
  exact this

/-- **C20 (fetch_add)**: wrap-around modulo `2^width`. -/
theorem fetchAdd_refines (v : Nat) (hv : v < 2 ^ 2 ^ s.logBits) :
    ∃ m', fetchAdd debug s m a v = some (m', absArr m s (a >>> s.logRegion)) ∧
      Refines s m m' a ((absArr m s (a >>> s.logRegion) + v) % 2 ^ 2 ^ s.logBits) := by
  unfold fetchAdd
  simp only [valueOk_of_lt debug s v hv, Bool.not_true, Bool.false_eq_true, if_false]
  by_cases hlb : s.logBits < 3
  · simp only [hlb, if_true]
    obtain ⟨h1, h2⟩ := fetchOpsOnBits_refines s hs m hm a ha hlb (fun x => (x + v) % 256)
    refine ⟨_, by rw [← h1], ?_⟩
    rw [Nat.mod_mod_of_dvd _ (width_dvd s hs m hm a ha hlb)] at h2
    exact h2
  · simp only [hlb, if_false]
    rw [absArr_word m s hs a hlb ha, ← tbytes_pow s hlb]
    refine ⟨_, rfl, ?_⟩
    have := refines_word_write s hs m hm a ha hlb
      ((readLE m (metaAddr s a) (tbytes s) + v) % 256 ^ tbytes s) (by rw [← tbytes_pow s hlb]; exact Nat.mod_lt _ (Nat.pow_pos (by decide)))
    exact this

/-- **C20 (fetch_sub)**: wrap-around modulo `2^width`. -/
theorem fetchSub_refines (v : Nat) (hv : v < 2 ^ 2 ^ s.logBits) :
    ∃ m', fetchSub debug s m a v = some (m', absArr m s (a >>> s.logRegion)) ∧
      Refines s m m' a ((absArr m s (a >>> s.logRegion) + 2 ^ 2 ^ s.logBits - v) % 2 ^ 2 ^ s.logBits) := by
  unfold fetchSub
  simp only [valueOk_of_lt debug s v hv, Bool.not_true, Bool.false_eq_true, if_false]
  by_cases hlb : s.logBits < 3
  · simp only [hlb, if_true]
    obtain ⟨h1, h2⟩ := fetchOpsOnBits_refines s hs m hm a ha hlb (fun x => (x + 256 - v % 256) % 256)
    refine ⟨_, by rw [← h1], ?_⟩
    have hold := absArr_lt m hm s hs (a >>> s.logRegion)
    generalize absArr m s (a >>> s.logRegion) = old at h2 hold ⊢
    have e : (old + 256 - v % 256) % 256 % 2 ^ 2 ^ s.logBits = (old + 2 ^ 2 ^ s.logBits - v) % 2 ^ 2 ^ s.logBits := by
      have : s.logBits = 0 ∨ s.logBits = 1 ∨ s.logBits = 2 := by omega
      rcases this with h | h | h <;> rw [h] at hv hold ⊢ <;> simp at hv hold ⊢ <;> omega
    rw [e] at h2
    exact h2
  · simp only [hlb, if_false]
    rw [absArr_word m s hs a hlb ha, ← tbytes_pow s hlb]
    rw [← tbytes_pow s hlb] at hv
    rw [Nat.mod_eq_of_lt hv]
    refine ⟨_, rfl, ?_⟩
    exact refines_word_write s hs m hm a ha hlb _ (by rw [← tbytes_pow s hlb]; exact Nat.mod_lt _ (Nat.pow_pos (by decide)))

/-- **C20 (fetch_and)**. -/
theorem fetchAnd_refines (v : Nat) (hv : v < 2 ^ 2 ^ s.logBits) :
    ∃ m', fetchAnd debug s m a v = some (m', absArr m s (a >>> s.logRegion)) ∧
      Refines s m m' a (absArr m s (a >>> s.logRegion) &&& v) := by
  by_cases hlb : s.logBits < 3
  · have e : fetchAnd debug s m a v = HeaderMeta.fetchAndBits (fieldSpec s a) m (metaAddr s a) v := by
      unfold fetchAnd HeaderMeta.fetchAndBits
      simp only [valueOk_of_lt debug s v hv, Bool.not_true, Bool.false_eq_true, if_false, hlb, if_true,
        fmask_eq s a hlb ha, fs_addr s a _ hlb ha, HeaderMeta.getBits, fs_shift s a hlb ha]
    obtain ⟨m', h1, h2⟩ := HeaderMeta.fetchAndBits_spec (fieldSpec s a) (fs_ok s a hlb ha) m (metaAddr s a) v
      (by rw [fs_addr s a _ hlb ha]; exact hm _) hv
    rw [fs_addr s a _ hlb ha] at h1 h2
    rw [← absArr_bits m s a hlb ha] at h1 h2
    exact ⟨m', by rw [e, h1], (refines_of_bitsPost s hs m m' hm a ha hlb _ _ h2).1⟩
  · unfold fetchAnd
    simp only [valueOk_of_lt debug s v hv, Bool.not_true, Bool.false_eq_true, if_false, hlb]
    rw [absArr_word m s hs a hlb ha]
    refine ⟨_, rfl, ?_⟩
    have hold := absArr_lt m hm s hs (a >>> s.logRegion)
    rw [absArr_word m s hs a hlb ha] at hold
    exact refines_word_write s hs m hm a ha hlb _ (Nat.lt_of_le_of_lt Nat.and_le_left hold)

/-- **C20 (fetch_or)**. -/
theorem fetchOr_refines (v : Nat) (hv : v < 2 ^ 2 ^ s.logBits) :
    ∃ m', fetchOr debug s m a v = some (m', absArr m s (a >>> s.logRegion)) ∧
      Refines s m m' a (absArr m s (a >>> s.logRegion) ||| v) := by
  by_cases hlb : s.logBits < 3
  · have e : fetchOr debug s m a v = HeaderMeta.fetchOrBits (fieldSpec s a) m (metaAddr s a) v := by
      unfold fetchOr HeaderMeta.fetchOrBits
      simp only [valueOk_of_lt debug s v hv, Bool.not_true, Bool.false_eq_true, if_false, hlb, if_true,
        fmask_eq s a hlb ha, fs_addr s a _ hlb ha, HeaderMeta.getBits, fs_shift s a hlb ha]
    obtain ⟨m', h1, h2⟩ := HeaderMeta.fetchOrBits_spec (fieldSpec s a) (fs_ok s a hlb ha) m (metaAddr s a) v
      (by rw [fs_addr s a _ hlb ha]; exact hm _) hv
    rw [fs_addr s a _ hlb ha] at h1 h2
    rw [← absArr_bits m s a hlb ha] at h1 h2
    exact ⟨m', by rw [e, h1], (refines_of_bitsPost s hs m m' hm a ha hlb _ _ h2).1⟩
  · unfold fetchOr
    simp only [valueOk_of_lt debug s v hv, Bool.not_true, Bool.false_eq_true, if_false, hlb]
    rw [absArr_word m s hs a hlb ha]
    refine ⟨_, rfl, ?_⟩
    have hold := absArr_lt m hm s hs (a >>> s.logRegion)
    rw [absArr_word m s hs a hlb ha] at hold
    exact refines_word_write s hs m hm a ha hlb _ (Nat.or_lt_two_pow hold hv)

/-- **C20 (fetch_update)**: `Err(old)` and no change when `f` declines, otherwise `Ok(old)` and only
the entry changes, to `f(old) mod 2^width`. -/
theorem fetchUpdate_refines (f : Nat → Option Nat) :
    ∃ m' ok, fetchUpdate s m a f = (m', ok, absArr m s (a >>> s.logRegion)) ∧
      ok = (f (absArr m s (a >>> s.logRegion))).isSome ∧
      Refines s m m' a (match f (absArr m s (a >>> s.logRegion)) with
        | some nv => nv % 2 ^ 2 ^ s.logBits
        | none => absArr m s (a >>> s.logRegion)) := by
  by_cases hlb : s.logBits < 3
  · have hraw : m (metaAddr s a) < 256 := hm _
    unfold fetchUpdate
    simp only [hlb, if_true, fmask_eq s a hlb ha]
    rw [← fs_shift s a hlb ha]
    have eg : (m (metaAddr s a) &&& HeaderMeta.mask8 (fieldSpec s a)) >>> (fieldSpec s a).shift =
        absArr m s (a >>> s.logRegion) := by rw [absArr_bits m s a hlb ha]; rfl
    rw [eg]
    cases hf : f (absArr m s (a >>> s.logRegion)) with
    | none => exact ⟨m, false, rfl, by simp, refines_noop s m hm a⟩
    | some nv =>
      refine ⟨_, true, rfl, by simp, ?_⟩
      have e := splice_masked (fieldSpec s a) (fs_ok s a hlb ha) (m (metaAddr s a)) nv hraw
      rw [e]
      exact refines_bits_write s hs m hm a ha hlb _ (Nat.mod_lt _ (Nat.two_pow_pos _))
  · unfold fetchUpdate
    simp only [hlb, if_false]
    rw [absArr_word m s hs a hlb ha]
    cases hf : f (readLE m (metaAddr s a) (tbytes s)) with
    | none =>
      refine ⟨m, false, rfl, by simp, ?_⟩
      have := refines_noop s m hm a
      rw [absArr_word m s hs a hlb ha] at this
      exact this
    | some nv =>
      refine ⟨_, true, rfl, by simp, ?_⟩
      simp only
      rw [← tbytes_pow s hlb]
      exact refines_word_write s hs m hm a ha hlb _ (by rw [← tbytes_pow s hlb]; exact Nat.mod_lt _ (Nat.pow_pos (by decide)))

end ops

/-! ## histories -/

/-- API preconditions of a call: a 64-bit address, values that fit the field (`assert_value_type`). -/
def Op.valid (s : Spec) : Op → Prop
  | .load a | .loadAtomic a | .setZero a | .setZeroAtomic a | .fetchUpdate a _ => a < 2 ^ 64
  | .store a v | .storeAtomic a v | .fetchAdd a v | .fetchSub a v | .fetchAnd a v | .fetchOr a v =>
    a < 2 ^ 64 ∧ v < 2 ^ 2 ^ s.logBits
  | .cmpxchg a o n => a < 2 ^ 64 ∧ o < 2 ^ 2 ^ s.logBits ∧ n < 2 ^ 2 ^ s.logBits

theorem upd_self (f : Nat → Nat) (r : Nat) : upd f r (f r) = f := by
  funext x; unfold upd; by_cases e : x = r <;> simp [e]

/-- **C20, one call**: the implementation's step abstracts to the array step, returns what the array
step returns, and leaves every bit outside the field of its own region unchanged. -/
theorem step_refines (debug : Bool) (s : Spec) (hs : s.ok) (m : Mem) (hm : ByteMem m) (op : Op) (hv : op.valid s) :
    ∃ m' r, stepImpl debug s m op = some (m', r) ∧
      stepSpec (2 ^ s.logBits) s.logRegion (absArr m s) op = (absArr m' s, r) ∧
      ByteMem m' ∧ (∀ p, ¬ InFieldOf s (op.addr >>> s.logRegion) p → bitAt m' p = bitAt m p) := by
  cases op with
  | load a | loadAtomic a =>
    exact ⟨m, .val (load s m a), rfl, by simp [stepSpec, load_eq_absArr s hs m a hv], hm, fun _ _ => rfl⟩
  | store a v =>
    obtain ⟨m', h1, h2⟩ := store_refines debug s hs m hm a hv.1 v hv.2
    exact ⟨m', .unit, by simp [stepImpl, h1], by simp [stepSpec, h2.arr], h2.bytes, h2.frame⟩
  | storeAtomic a v =>
    obtain ⟨m', h1, h2⟩ := storeAtomic_refines debug s hs m hm a hv.1 v hv.2
    exact ⟨m', .unit, by simp [stepImpl, h1], by simp [stepSpec, h2.arr], h2.bytes, h2.frame⟩
  | setZero a | setZeroAtomic a =>
    obtain ⟨m', h1, h2⟩ := setZero_refines debug s hs m hm a hv
    exact ⟨m', .unit, by simp [stepImpl, h1], by simp [stepSpec, h2.arr], h2.bytes, h2.frame⟩
  | cmpxchg a o n =>
    obtain ⟨m', ok, h1, h2, h3⟩ := cmpxchg_refines debug s hs m hm a hv.1 o n hv.2.1 hv.2.2
    refine ⟨m', .res ok (absArr m s (a >>> s.logRegion)), by simp [stepImpl, h1], ?_, h3.bytes, h3.frame⟩
    cases ok with
    | true =>
      have e := h2.1 rfl
      simp only [stepSpec, e, if_true]
      have := h3.arr
      simp only [if_true, e] at this
      rw [this]
    | false =>
      have e : ¬ absArr m s (a >>> s.logRegion) = o := fun c => by have := h2.2 c; cases this
      simp only [stepSpec, e, if_false]
      have := h3.arr
      simp only [Bool.false_eq_true, if_false, upd_self] at this
      rw [this]
  | fetchAdd a v =>
    obtain ⟨m', h1, h2⟩ := fetchAdd_refines debug s hs m hm a hv.1 v hv.2
    exact ⟨m', .val (absArr m s (a >>> s.logRegion)), by simp [stepImpl, h1], by simp [stepSpec, h2.arr], h2.bytes, h2.frame⟩
  | fetchSub a v =>
    obtain ⟨m', h1, h2⟩ := fetchSub_refines debug s hs m hm a hv.1 v hv.2
    exact ⟨m', .val (absArr m s (a >>> s.logRegion)), by simp [stepImpl, h1], by simp [stepSpec, h2.arr], h2.bytes, h2.frame⟩
  | fetchAnd a v =>
    obtain ⟨m', h1, h2⟩ := fetchAnd_refines debug s hs m hm a hv.1 v hv.2
    exact ⟨m', .val (absArr m s (a >>> s.logRegion)), by simp [stepImpl, h1], by simp [stepSpec, h2.arr], h2.bytes, h2.frame⟩
  | fetchOr a v =>
    obtain ⟨m', h1, h2⟩ := fetchOr_refines debug s hs m hm a hv.1 v hv.2
    exact ⟨m', .val (absArr m s (a >>> s.logRegion)), by simp [stepImpl, h1], by simp [stepSpec, h2.arr], h2.bytes, h2.frame⟩
  | fetchUpdate a f =>
    obtain ⟨m', ok, h1, h2, h3⟩ := fetchUpdate_refines s hs m hm a hv f
    refine ⟨m', .res ok (absArr m s (a >>> s.logRegion)), by simp [stepImpl, h1], ?_, h3.bytes, h3.frame⟩
    have harr := h3.arr
    cases hf : f (absArr m s (a >>> s.logRegion)) with
    | none =>
      rw [hf] at h2 harr
      simp only [upd_self] at harr
      simp [stepSpec, hf, h2, harr]
    | some nv =>
      rw [hf] at h2 harr
      simp only at harr
      simp [stepSpec, hf, h2, harr]

/-- **C20, any history**: running any list of valid calls on any addresses, the final memory abstracts
to the result of running the same list on a plain array of `2^logBits`-bit integers, every call
returned what the array returned, and every memory bit that belongs to none of the touched fields —
in particular every other field of this table and all other tables — is unchanged. -/
theorem history_refines_frame (debug : Bool) (s : Spec) (hs : s.ok) (ops : List Op) (hv : ∀ op ∈ ops, op.valid s)
    (m : Mem) (hm : ByteMem m) :
    ∃ m' rets, runImpl debug s m ops = some (m', rets) ∧
      runSpec (2 ^ s.logBits) s.logRegion (absArr m s) ops = (absArr m' s, rets) ∧ ByteMem m' ∧
      (∀ p, (∀ op ∈ ops, ¬ InFieldOf s (op.addr >>> s.logRegion) p) → bitAt m' p = bitAt m p) := by
  induction ops generalizing m with
  | nil => exact ⟨m, [], rfl, rfl, hm, fun _ _ => rfl⟩
  | cons op ops ih =>
    obtain ⟨m1, r, h1, h2, h3, h4⟩ := step_refines debug s hs m hm op (hv op (List.mem_cons_self ..))
    obtain ⟨m2, rs, g1, g2, g3, g4⟩ := ih (fun o ho => hv o (List.mem_cons_of_mem _ ho)) m1 h3
    refine ⟨m2, r :: rs, ?_, ?_, g3, ?_⟩
    · simp [runImpl, h1, g1]
    · simp [runSpec, h2, g2]
    · intro p hp
      rw [g4 p (fun o ho => hp o (List.mem_cons_of_mem _ ho)), h4 p (hp op (List.mem_cons_self ..))]

theorem history_refines (debug : Bool) (s : Spec) (hs : s.ok) (ops : List Op) (hv : ∀ op ∈ ops, op.valid s)
    (m : Mem) (hm : ByteMem m) :
    ∃ m' rets, runImpl debug s m ops = some (m', rets) ∧
      runSpec (2 ^ s.logBits) s.logRegion (absArr m s) ops = (absArr m' s, rets) := by
  obtain ⟨m', rets, h1, h2, _, _⟩ := history_refines_frame debug s hs ops hv m hm
  exact ⟨m', rets, h1, h2⟩

theorem history_frame (debug : Bool) (s : Spec) (hs : s.ok) (ops : List Op) (hv : ∀ op ∈ ops, op.valid s)
    (m : Mem) (hm : ByteMem m) (m' : Mem) (rets : List Ret) (hrun : runImpl debug s m ops = some (m', rets))
    (p : Nat) (hp : ∀ op ∈ ops, ¬ InFieldOf s (op.addr >>> s.logRegion) p) : bitAt m' p = bitAt m p := by
  obtain ⟨m2, r2, h1, _, _, h4⟩ := history_refines_frame debug s hs ops hv m hm
  rw [hrun] at h1
  cases h1
  exact h4 p hp

/-- `set_raw_byte_atomic` is *not* part of the isolation claim (its doc says so): it sets the whole
byte, i.e. the neighbouring fields too. -/
theorem setRawByte_pollutes_witness :
    let s : Spec := { start := 1000, logBits := 0, logRegion := 3 }
    let m : Mem := fun _ => 0
    absArr (setRawByte s m 0) s 1 = 1 ∧ absArr m s 1 = 0 := by
  decide

/-! ## non-vacuity -/
example : ({ start := 0x300000000000, logBits := 1, logRegion := 3 } : Spec).ok := by decide
example : ({ start := 0x300000000000, logBits := 6, logRegion := 3 } : Spec).ok := by decide
example : (Op.cmpxchg 0x1f000000008 1 2).valid { start := 0x300000000000, logBits := 1, logRegion := 3 } := by
  unfold Op.valid; decide
/-- two neighbouring 2-bit fields share a byte: regions 1 and 2 of a spec are bits 2..3 and 4..5. -/
example : let s : Spec := { start := 10, logBits := 1, logRegion := 3 }
    fieldBase s 1 = 82 ∧ fieldBase s 2 = 84 ∧ metaAddr s 8 = 10 ∧ metaAddr s 16 = 10 ∧ lshift s 8 = 2 ∧ lshift s 16 = 4 := by
  decide

end Mmtk.SideMeta
