import MmtkModel.Props.C29
/-!
# C31 (SFT part) — the chunk-granular SFT map agrees with the VM-map descriptor in every reachable state

`St.sft` = the process-global `SFTSparseChunkMap` (chunk index ↦ owning space, named by its descriptor,
`0` = `EMPTY_SPACE_SFT`).  `Space::grow_space` writes it for a new region (`sftUpdate`, through
`PR.growSpace`), `free_contiguous_chunks_no_lock` clears it chunk by chunk (the `sft := …` line of
`freeNoLock`).  `SftEq st` = the SFT map and the `Map32` descriptor table agree on every chunk.

Proved here (complete proofs):

* `freeNoLock_sft`, `sftEq_free`, `sftEq_freeAllLoop`, `sftEq_freeAll`, `allocate_sft`, `sftUpdate_ok`,
  `sftEq_growSpace` (+ `sftEq_growSpace_debug`, `sftEq_growSpace_inv`), `sftEq_release`,
  `sftEq_releaseAll`.
* `sft_matches_descriptor` — `SftEq` is preserved by every history of `growSpace` / `release` /
  `releaseAll` (`SOp`, `sstep`, `srun`), and `sft_matches_descriptor_init` from the finalised state.
  The only hypothesis is `ZeroSafe`: the region map never hands out chunk `0` (in the model addresses
  are chunk indices and chunk `0` *is* `Address::ZERO`, so a region at chunk 0 is indistinguishable from
  "exhausted" and `grow_space` is skipped).  With debug assertions (`debug = true`) the hypothesis is
  not needed at all (`sft_matches_descriptor_debug`: `debug_assert!(chunk != 0)` fires instead), and
  under C29's invariant it always holds (`alloc_ne_zero_of_inv`: chunk 0 is below the discontiguous
  range).  No protocol hypothesis (which heads are passed, which chunks are released) is needed.
* `sft_exact_of_inv` — with C29's `Inv`: a chunk of an allocated region resolves to the region's owner,
  every other chunk resolves to no space.
* A `decide`-checked witness that clearing only the first chunk of a released region
  (`freeNoLockFirstOnly`) breaks `SftEq`, and satisfiability examples.
-/
namespace Mmtk.Map32

/-- The SFT map and the VM map's descriptor table agree on every chunk. -/
def SftEq (st : St) : Prop := ∀ c, st.sft c = st.desc c

/-- `free_contiguous_chunks_no_lock(c)` clears exactly the SFT entries of the `n` chunks it frees. -/
theorem freeNoLock_sft (debug : Bool) (st st' : St) (c n : Nat)
    (h : freeNoLock debug st c = some (st', n)) :
    ∀ x, st'.sft x = if c ≤ x ∧ x < c + n then 0 else st.sft x := by
  unfold freeNoLock at h
  split at h
  · cases h
  · simp only [Option.some.injEq, Prod.mk.injEq] at h
    obtain ⟨h1, h2⟩ := h
    subst h1
    intro x; simp only [← h2]

theorem sftEq_free {debug : Bool} {st st' : St} {c n : Nat} (hS : SftEq st)
    (h : freeNoLock debug st c = some (st', n)) : SftEq st' := by
  intro x
  rw [freeNoLock_sft debug st st' c n h x, freeNoLock_clears_descriptors debug st st' c n h x, hS x]

theorem sftEq_freeAllLoop (debug : Bool) (sel : St → Nat → Nat) : ∀ (fuel : Nat) (st : St) (c : Nat) (st' : St),
    SftEq st → freeAllLoop debug sel fuel st c = some st' → SftEq st'
  | 0, st, c, st', hS, h => by
    simp only [freeAllLoop, Option.some.injEq] at h
    subst h; exact hS
  | fuel + 1, st, c, st', hS, h => by
    rw [freeAllLoop] at h
    split at h
    · split at h
      · cases h
      · rename_i st1 n heq
        exact sftEq_freeAllLoop debug sel fuel st1 c st' (sftEq_free hS heq) h
    · simp only [Option.some.injEq] at h
      subst h; exact hS

/-- `free_all_chunks` keeps the two tables equal, for every fuel. -/
theorem sftEq_freeAll {debug : Bool} {st st' : St} {c fuel : Nat} (hS : SftEq st)
    (h : freeAll debug st c fuel = some st') : SftEq st' := by
  unfold freeAll at h
  split at h
  · simp only [Option.some.injEq] at h
    subst h; exact hS
  · split at h
    · cases h
    · rename_i st1 h1
      have hS1 := sftEq_freeAllLoop debug _ fuel st c st1 hS h1
      split at h
      · cases h
      · rename_i st2 h2
        have hS2 := sftEq_freeAllLoop debug _ fuel st1 c st2 hS1 h2
        cases h3 : freeNoLock debug st2 c with
        | none => rw [h3] at h; cases h
        | some q =>
          obtain ⟨st3, n⟩ := q
          rw [h3] at h
          simp only [Option.map_some, Option.some.injEq] at h
          subst h
          exact sftEq_free hS2 h3

/-- `allocate_contiguous_chunks` never touches the SFT map (every result, panics included). -/
theorem allocate_sft (debug : Bool) (st st' : St) (d k head : Nat) (r : R)
    (h : allocate debug st d k head = (st', r)) : st'.sft = st.sft := by
  unfold allocate at h
  split at h
  · simp only [Prod.mk.injEq] at h
    rw [← h.1]
  · dsimp only at h
    repeat' split at h
    all_goals (simp only [Prod.mk.injEq] at h; rw [← h.1])

/-- `SFT_MAP.update` on chunks whose entries are all empty: the `debug_assert!` of `set` does not fire
and exactly the entries of `[c, c + k)` become `d`. -/
theorem sftUpdate_ok (debug : Bool) (st : St) (d c k : Nat)
    (h0 : ∀ x, c ≤ x → x < c + k → st.sft x = 0) :
    sftUpdate debug st d c k =
      ({ st with sft := fun x => if c ≤ x ∧ x < c + k then d else st.sft x }, true) := by
  have hnone : (if debug then (List.range' c k).find? (fun x => st.sft x != 0 && st.sft x != d) else none)
      = none := by
    split
    · rw [List.find?_eq_none]
      intro x hx
      rw [List.mem_range'_1] at hx
      simp [h0 x hx.1 hx.2]
    · rfl
  unfold sftUpdate
  rw [hnone]

/-- The VM-map part of `grow_discontiguous_space` is `allocate_contiguous_chunks` with the space's
current head. -/
theorem PR.grow_st {debug : Bool} {p p' : PR} {sp d k : Nat} {r : R}
    (h : p.grow debug sp d k = (p', r)) : allocate debug p.st d k (p.heads sp) = (p'.st, r) := by
  unfold PR.grow at h
  split at h
  · rename_i st' c heq
    split at h
    · rename_i hc
      have hc0 : c = 0 := by simpa using hc
      simp only [Prod.mk.injEq] at h
      obtain ⟨rfl, rfl⟩ := h
      rw [heq, hc0]
    · simp only [Prod.mk.injEq] at h
      obtain ⟨rfl, rfl⟩ := h
      rw [heq]
  · rename_i st' r' _ heq
    simp only [Prod.mk.injEq] at h
    obtain ⟨rfl, rfl⟩ := h
    rw [heq]

/-- **`grow_space` keeps the tables equal** as long as the region map does not hand out chunk `0` (the
null address of the model): the `set` assertion does not fire, and both tables get `d` on `[c, c + k)`. -/
theorem sftEq_growSpace {debug : Bool} {p p' : PR} {sp d k c : Nat} {ok : Bool} (hS : SftEq p.st)
    (hz : (p.st.fl.alloc k).1 ≠ some 0)
    (h : p.growSpace debug sp d k = (p', .val c, ok)) : ok = true ∧ SftEq p'.st := by
  unfold PR.growSpace at h
  split at h
  · rename_i p1 c1 hg
    have hal := PR.grow_st hg
    have hsft := allocate_sft debug p.st p1.st d k (p.heads sp) (.val c1) hal
    split at h
    · rename_i hc
      have hc0 : c1 = 0 := by simpa using hc
      subst hc0
      simp only [Prod.mk.injEq] at h
      obtain ⟨rfl, _, rfl⟩ := h
      rcases allocate_val debug p.st p1.st d k (p.heads sp) 0 hal with ⟨_, _, e⟩ | hsome
      · exact ⟨rfl, e ▸ hS⟩
      · exact absurd hsome hz
    · rename_i hc
      have hc0 : c1 ≠ 0 := by simpa using hc
      obtain ⟨_, _, _, hd0, hdesc, _, _⟩ := allocate_partial debug p.st p1.st d k (p.heads sp) c1 hal hc0
      have hs0 : ∀ x, c1 ≤ x → x < c1 + k → p1.st.sft x = 0 := by
        intro x h1 h2
        rw [hsft, hS x]; exact hd0 x h1 h2
      rw [sftUpdate_ok debug p1.st d c1 k hs0] at h
      simp only [Prod.mk.injEq] at h
      obtain ⟨rfl, _, rfl⟩ := h
      refine ⟨rfl, ?_⟩
      intro x
      show (if c1 ≤ x ∧ x < c1 + k then d else p1.st.sft x) = p1.st.desc x
      rw [hdesc x, hsft, hS x]
  · rename_i p1 r hnv hg
    simp only [Prod.mk.injEq] at h
    exact absurd h.2.1 (hnv c)

/-- With debug assertions no hypothesis is needed: a region at chunk 0 trips `debug_assert!(chunk != 0)`
of `allocate_contiguous_chunks`, so a normal return never carries it. -/
theorem allocate_debug_ne_zero {st st' : St} {d k head c : Nat}
    (h : allocate true st d k head = (st', .val c)) : (st.fl.alloc k).1 ≠ some 0 := by
  intro hz
  unfold allocate at h
  split at h
  · rename_i x heq
    rw [heq] at hz; cases hz
  · rename_i chunk fl heq
    rw [heq] at hz
    have : chunk = 0 := by simpa using hz
    subst this
    simp at h

theorem sftEq_growSpace_debug {p p' : PR} {sp d k c : Nat} {ok : Bool} (hS : SftEq p.st)
    (h : p.growSpace true sp d k = (p', .val c, ok)) : ok = true ∧ SftEq p'.st := by
  refine sftEq_growSpace hS ?_ h
  cases hg : p.grow true sp d k with
  | mk p1 r =>
    have hal := PR.grow_st hg
    cases r with
    | val c1 => exact allocate_debug_ne_zero hal
    | panicAssert => unfold PR.growSpace at h; rw [hg] at h; simp at h
    | panicOther => unfold PR.growSpace at h; rw [hg] at h; simp at h

/-- Under C29's invariant the region map never hands out chunk 0 (it lies below the range). -/
theorem alloc_ne_zero_of_inv {lo hi : Nat} {g : G} {st : St} (hI : Inv lo hi g st) {k : Nat} (hk : 1 ≤ k) :
    (st.fl.alloc k).1 ≠ some 0 := by
  intro hsome
  obtain ⟨s, hfree, _, _, _⟩ := alloc_spec hI.fl hk hsome
  have := (hI.fl.free_in _ hfree rfl).1
  have := hI.lo_pos
  dsimp only at *; omega

theorem sftEq_growSpace_inv {lo hi : Nat} {g : G} {debug : Bool} {p p' : PR} {sp d k c : Nat} {ok : Bool}
    (hI : Inv lo hi g p.st) (hk : 1 ≤ k) (hS : SftEq p.st)
    (h : p.growSpace debug sp d k = (p', .val c, ok)) : ok = true ∧ SftEq p'.st :=
  sftEq_growSpace hS (alloc_ne_zero_of_inv hI hk) h

/-- `release_discontiguous_chunks` acts on the VM map as `free_contiguous_chunks_no_lock`. -/
theorem sftEq_release {debug : Bool} {p p' : PR} {sp c : Nat} (hS : SftEq p.st)
    (h : p.release debug sp c = some p') : SftEq p'.st := by
  unfold PR.release at h
  dsimp only at h
  split at h
  · rename_i st' n heq
    simp only [Option.some.injEq] at h
    subst h
    exact sftEq_free hS heq
  · cases h

/-- `release_all_chunks` acts on the VM map as `free_all_chunks`. -/
theorem sftEq_releaseAll {debug : Bool} {p p' : PR} {sp : Nat} (hS : SftEq p.st)
    (h : p.releaseAll debug sp = some p') : SftEq p'.st := by
  unfold PR.releaseAll at h
  split at h
  · rename_i st' heq
    simp only [Option.some.injEq] at h
    subst h
    exact sftEq_freeAll hS heq
  · cases h

/-! ## Histories -/

/-- The operations of a space on its page resource, with the SFT write of `Space::grow_space`. -/
inductive SOp
  /-- `Space::acquire` needing a new region: `grow_discontiguous_space` + `grow_space` -/
  | grow (sp d k : Nat)
  /-- `release_discontiguous_chunks(chunk)` -/
  | release (sp c : Nat)
  /-- `release_all_chunks()` -/
  | releaseAll (sp : Nat)
deriving Repr, DecidableEq

/-- One operation; `none` = a panic or a fired assertion (of `allocate_contiguous_chunks`, of
`SFTSparseChunkMap::set`, of `free_contiguous_chunks_no_lock`). -/
def sstep (debug : Bool) (p : PR) : SOp → Option PR
  | .grow sp d k =>
    match p.growSpace debug sp d k with
    | (p', .val _, true) => some p'
    | _ => none
  | .release sp c => p.release debug sp c
  | .releaseAll sp => p.releaseAll debug sp

def srun (debug : Bool) : PR → List SOp → Option PR
  | p, [] => some p
  | p, op :: ops =>
    match sstep debug p op with
    | none => none
    | some p' => srun debug p' ops

/-- Chunk 0 is the null address: the region map does not hand it out at any `grow` of the history. -/
def ZeroSafe (debug : Bool) : PR → List SOp → Prop
  | _, [] => True
  | p, op :: ops =>
    (match op with
      | .grow _ _ k => (p.st.fl.alloc k).1 ≠ some 0
      | _ => True) ∧
    match sstep debug p op with
    | none => True
    | some p' => ZeroSafe debug p' ops

theorem sftEq_sstep {debug : Bool} {p p' : PR} {op : SOp} (hS : SftEq p.st)
    (hz : match op with
      | .grow _ _ k => (p.st.fl.alloc k).1 ≠ some 0
      | _ => True)
    (h : sstep debug p op = some p') : SftEq p'.st := by
  cases op with
  | grow sp d k =>
    simp only [sstep] at h
    split at h
    · rename_i p1 c heq
      simp only [Option.some.injEq] at h
      subst h
      exact (sftEq_growSpace hS hz heq).2
    · cases h
  | release sp c => exact sftEq_release hS h
  | releaseAll sp => exact sftEq_releaseAll hS h

theorem sftEq_sstep_debug {p p' : PR} {op : SOp} (hS : SftEq p.st)
    (h : sstep true p op = some p') : SftEq p'.st := by
  cases op with
  | grow sp d k =>
    simp only [sstep] at h
    split at h
    · rename_i p1 c heq
      simp only [Option.some.injEq] at h
      subst h
      exact (sftEq_growSpace_debug hS heq).2
    · cases h
  | release sp c => exact sftEq_release hS h
  | releaseAll sp => exact sftEq_releaseAll hS h

/-- **The SFT map matches the descriptor table after every history** of `grow_space` / release /
release-all that does not panic.  No protocol hypothesis; `ZeroSafe` = chunk 0 is never handed out. -/
theorem sft_matches_descriptor {debug : Bool} : ∀ (ops : List SOp) {p p' : PR}, SftEq p.st →
    ZeroSafe debug p ops → srun debug p ops = some p' → SftEq p'.st
  | [], p, p', hS, _, h => by
    simp only [srun, Option.some.injEq] at h
    subst h; exact hS
  | op :: ops, p, p', hS, hz, h => by
    rw [srun] at h
    cases hs : sstep debug p op with
    | none => rw [hs] at h; cases h
    | some p1 =>
      rw [hs] at h
      obtain ⟨hz1, hz2⟩ := hz
      rw [hs] at hz2
      exact sft_matches_descriptor ops (sftEq_sstep hS hz1 hs) hz2 h

/-- With debug assertions: no hypothesis at all. -/
theorem sft_matches_descriptor_debug : ∀ (ops : List SOp) {p p' : PR}, SftEq p.st →
    srun true p ops = some p' → SftEq p'.st
  | [], p, p', hS, h => by
    simp only [srun, Option.some.injEq] at h
    subst h; exact hS
  | op :: ops, p, p', hS, h => by
    rw [srun] at h
    cases hs : sstep true p op with
    | none => rw [hs] at h; cases h
    | some p1 =>
      rw [hs] at h
      exact sft_matches_descriptor_debug ops (sftEq_sstep_debug hS hs) h

theorem sftEq_finalize (M first last : Nat) : SftEq (finalize M first last) := fun _ => rfl

/-- From the finalised state. -/
theorem sft_matches_descriptor_init {M first last : Nat} {debug : Bool} {ops : List SOp} {heads : Nat → Nat}
    {p' : PR} (hz : ZeroSafe debug { st := finalize M first last, heads := heads } ops)
    (h : srun debug { st := finalize M first last, heads := heads } ops = some p') : SftEq p'.st :=
  sft_matches_descriptor ops (sftEq_finalize M first last) hz h

theorem sft_matches_descriptor_init_debug {M first last : Nat} {ops : List SOp} {heads : Nat → Nat}
    {p' : PR} (h : srun true { st := finalize M first last, heads := heads } ops = some p') : SftEq p'.st :=
  sft_matches_descriptor_debug ops (sftEq_finalize M first last) h

/-- **Exactness** (with C29's invariant): a chunk of an allocated region resolves to the space that
owns the region; every other chunk (in particular every freed chunk) resolves to no space. -/
theorem sft_exact_of_inv {lo hi : Nat} {g : G} {st : St} (hI : Inv lo hi g st) (hS : SftEq st) :
    (∀ r ∈ g.regions, ∀ x, r.start ≤ x → x < r.start + r.size → st.sft x = r.desc) ∧
    (∀ x, (∀ r ∈ g.regions, ¬ (r.start ≤ x ∧ x < r.start + r.size)) → st.sft x = 0) :=
  ⟨fun r hr x h1 h2 => (hS x).trans (hI.descriptor_exact.1 r hr x h1 h2),
   fun x hx => (hS x).trans (hI.descriptor_exact.2 x hx)⟩

/-- `get_checked` of a chunk of the map: the owner of the region, or `EMPTY_SPACE_SFT`. -/
theorem sftGet_exact_of_inv {lo hi : Nat} {g : G} {st : St} (hI : Inv lo hi g st) (hS : SftEq st) {M : Nat}
    (hM : hi ≤ M) :
    (∀ r ∈ g.regions, ∀ x, r.start ≤ x → x < r.start + r.size → sftGet st M x = r.desc) ∧
    (∀ x, (∀ r ∈ g.regions, ¬ (r.start ≤ x ∧ x < r.start + r.size)) → sftGet st M x = 0) := by
  obtain ⟨h1, h2⟩ := sft_exact_of_inv hI hS
  refine ⟨?_, ?_⟩
  · intro r hr x hx1 hx2
    have := (hI.regions_disjoint.2 r hr).2.2
    unfold sftGet
    rw [if_pos (by omega)]
    exact h1 r hr x hx1 hx2
  · intro x hx
    unfold sftGet
    split
    · exact h2 x hx
    · rfl

/-! ## Witness: clearing the SFT entry of the first chunk only is wrong -/

/-- `free_contiguous_chunks_no_lock` with `SFT_MAP.clear` hoisted out of the per-chunk loop (the seeded
regression): only the region's first chunk is cleared. -/
def freeNoLockFirstOnly (debug : Bool) (st : St) (chunk : Nat) : Option (St × Nat) :=
  if debug && st.fl.isFree chunk then none else
  let (chunks, fl) := st.fl.freeRun chunk
  let next := st.next chunk
  let prev := st.prev chunk
  let prevL := if next != 0 then upd st.prev next prev else st.prev
  let nextL := if prev != 0 then upd st.next prev next else st.next
  some ({ st with fl := fl, avail := st.avail + chunks,
                  prev := upd prevL chunk 0, next := upd nextL chunk 0,
                  desc := fun c => if chunk ≤ c ∧ c < chunk + chunks then 0 else st.desc c,
                  sft := fun c => if c = chunk then 0 else st.sft c }, chunks)

/-- `growSpace` of 3 chunks for descriptor 4 on `finalize 12 2 9`, then `free` of that region with the
given free function: (region start, freed size, `sft (start + 1)`, `desc (start + 1)`). -/
def sftWitness (free : Bool → St → Nat → Option (St × Nat)) : Option (Nat × Nat × Nat × Nat) :=
  match PR.growSpace true { st := finalize 12 2 9 } 0 4 3 with
  | (p', .val c, true) => (free true p'.st c).map (fun q => (c, q.2, q.1.sft (c + 1), q.1.desc (c + 1)))
  | _ => none

/-- The mutated free leaves chunk `start + 1` resolving to space 4 although its descriptor is 0 … -/
example : sftWitness freeNoLockFirstOnly = some (2, 3, 4, 0) := by decide +kernel
/-- … the real one clears both. -/
example : sftWitness freeNoLock = some (2, 3, 0, 0) := by decide +kernel

/-- So `SftEq` fails after the mutated free. -/
example : ∀ st' n,
    freeNoLockFirstOnly true (PR.growSpace true { st := finalize 12 2 9 } 0 4 3).1.st 2 = some (st', n) →
    ¬ SftEq st' := by
  intro st' n hf hS
  have hw : (freeNoLockFirstOnly true (PR.growSpace true { st := finalize 12 2 9 } 0 4 3).1.st 2).map
      (fun q => (q.1.sft 3, q.1.desc 3)) = some (4, 0) := by decide +kernel
  rw [hf] at hw
  simp only [Option.map_some, Option.some.injEq, Prod.mk.injEq] at hw
  have := hS 3
  omega

/-! ## Satisfiability -/

/-- A history on `finalize 12 2 9`: two spaces (descriptors 4 and 8). -/
def exSOps : List SOp :=
  [.grow 0 4 3, .grow 0 4 2, .grow 1 8 1, .grow 0 4 1, .release 0 5, .grow 1 8 1, .release 0 8,
   .releaseAll 0, .grow 0 4 9, .grow 1 8 2, .releaseAll 1]

/-- What the examples look at: the heads of spaces 0 and 1 and the two tables on chunks `1 ..= 10`. -/
def sview (p : Option PR) : Option (Nat × Nat × List Nat × List Nat) :=
  p.map fun p => (p.heads 0, p.heads 1, (List.range' 1 10).map p.st.sft, (List.range' 1 10).map p.st.desc)

example : sview (srun true { st := finalize 12 2 9 } (exSOps.take 7)) =
    some (2, 5, [0, 4, 4, 4, 8, 0, 8, 0, 0, 0], [0, 4, 4, 4, 8, 0, 8, 0, 0, 0]) := by decide +kernel
example : sview (srun false { st := finalize 12 2 9 } (exSOps.take 7)) =
    some (2, 5, [0, 4, 4, 4, 8, 0, 8, 0, 0, 0], [0, 4, 4, 4, 8, 0, 8, 0, 0, 0]) := by decide +kernel

example : (srun true { st := finalize 12 2 9 } exSOps).isSome = true := by decide +kernel
example : (srun false { st := finalize 12 2 9 } exSOps).isSome = true := by decide +kernel

/-- So the theorem applies to a non-trivial history. -/
example : ∃ p', srun true { st := finalize 12 2 9 } exSOps = some p' ∧ SftEq p'.st := by
  have h : (srun true { st := finalize 12 2 9 } exSOps).isSome = true := by decide +kernel
  obtain ⟨p', hp⟩ := Option.isSome_iff_exists.1 h
  exact ⟨p', hp, sft_matches_descriptor_init_debug hp⟩

/-- Executable version of `ZeroSafe`. -/
def zeroSafeB (debug : Bool) : PR → List SOp → Bool
  | _, [] => true
  | p, op :: ops =>
    (match op with
      | .grow _ _ k => decide ((p.st.fl.alloc k).1 ≠ some 0)
      | _ => true) &&
    match sstep debug p op with
    | none => true
    | some p' => zeroSafeB debug p' ops

theorem zeroSafe_of_zeroSafeB {debug : Bool} : ∀ (ops : List SOp) {p : PR},
    zeroSafeB debug p ops = true → ZeroSafe debug p ops
  | [], _, _ => trivial
  | op :: ops, p, h => by
    simp only [zeroSafeB, Bool.and_eq_true] at h
    refine ⟨?_, ?_⟩
    · cases op with
      | grow sp d k => simpa using h.1
      | release sp c => trivial
      | releaseAll sp => trivial
    · cases hs : sstep debug p op with
      | none => trivial
      | some p' =>
        rw [hs] at h
        exact zeroSafe_of_zeroSafeB ops h.2

/-- `ZeroSafe` holds for the example history without debug assertions, so `sft_matches_descriptor_init`
applies in release mode too. -/
example : ZeroSafe false { st := finalize 12 2 9 } exSOps := zeroSafe_of_zeroSafeB _ (by decide +kernel)

example : ∃ p', srun false { st := finalize 12 2 9 } exSOps = some p' ∧ SftEq p'.st := by
  have h : (srun false { st := finalize 12 2 9 } exSOps).isSome = true := by decide +kernel
  obtain ⟨p', hp⟩ := Option.isSome_iff_exists.1 h
  exact ⟨p', hp, sft_matches_descriptor_init (zeroSafe_of_zeroSafeB _ (by decide +kernel)) hp⟩

/-- Why `ZeroSafe` is there: WITHOUT debug assertions and OUTSIDE the protocol (space 0 releases chunk 0,
which it never owned: the blocked-out bottom of the map becomes free) the region map hands out chunk 0,
`allocate_contiguous_chunks` writes its descriptor, and the caller takes the zero address for
"exhausted" and skips `grow_space`: `sft 0 = 0` but `desc 0 = 4`.  With debug assertions the same
history panics (`debug_assert!(chunk != 0)`); under C29's invariant it cannot happen
(`alloc_ne_zero_of_inv`). -/
example : (srun false { st := finalize 12 2 9 } [.release 0 0, .grow 0 4 1]).map
    (fun p => (p.st.sft 0, p.st.desc 0)) = some (0, 4) := by decide +kernel
example : (srun true { st := finalize 12 2 9 } [.release 0 0, .grow 0 4 1]).isSome = false := by decide +kernel

end Mmtk.Map32
