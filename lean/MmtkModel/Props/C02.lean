import MmtkModel.Model.Heap
import MmtkModel.Model.Snap
import MmtkModel.Props.C01
/-!
# C02 — New allocations never overlap live objects

What the monitor `gcm` executes at every `alloc` (`allocClash`) and at every snapshot (`noOverlap`) is
proved sound here:

* `firstOverlap_none_iff` — the linear scan finds an intersecting interval iff there is one;
* `pairwise_insert` — a set built by checked insertions stays pairwise disjoint;
* `adjacentOk_sorted_pairwise`, `noOverlap_sound` — sorting by start address and comparing neighbours
  implies pairwise disjointness of the WHOLE list (any order);
* `allocClash_sound` — an accepted allocation is disjoint from every allocation made since the last pause
  and from every object of the last snapshot that is `Reachable` in the shadow heap (uses `reachFrom_iff`).

Level: proof of the monitor's model; partial w.r.t. the code (the allocators are sampled by the runs).
-/
namespace Mmtk.Heap

theorem firstOverlap_none_iff (x : Iv) : ∀ l : List Iv, firstOverlap x l = none ↔ ∀ y ∈ l, x.disjoint y
  | [] => by simp [firstOverlap]
  | y :: rest => by
    unfold firstOverlap
    by_cases hd : x.start + x.size ≤ y.start ∨ y.start + y.size ≤ x.start
    · rw [if_pos hd, firstOverlap_none_iff x rest]
      constructor
      · intro h z hz
        rcases List.mem_cons.1 hz with rfl | hz
        · exact hd
        · exact h z hz
      · intro h z hz; exact h z (List.mem_cons_of_mem _ hz)
    · rw [if_neg hd]
      constructor
      · intro h; cases h
      · intro h; exact absurd (h y List.mem_cons_self) hd

theorem firstOverlap_some {x : Iv} : ∀ {l : List Iv} {y : Iv}, firstOverlap x l = some y → y ∈ l ∧ ¬ x.disjoint y
  | [], _, h => by simp [firstOverlap] at h
  | z :: rest, y, h => by
    unfold firstOverlap at h
    by_cases hd : x.start + x.size ≤ z.start ∨ z.start + z.size ≤ x.start
    · rw [if_pos hd] at h
      have ⟨h1, h2⟩ := firstOverlap_some h
      exact ⟨List.mem_cons_of_mem _ h1, h2⟩
    · rw [if_neg hd] at h
      cases h
      exact ⟨List.mem_cons_self, hd⟩

theorem disjoint_symm {a b : Iv} (h : a.disjoint b) : b.disjoint a := by
  unfold Iv.disjoint at *; omega

/-- checked insertion keeps the interval set pairwise disjoint -/
theorem pairwise_insert {x : Iv} {l : List Iv} (hl : l.Pairwise Iv.disjoint) (hx : firstOverlap x l = none) :
    (x :: l).Pairwise Iv.disjoint :=
  List.pairwise_cons.2 ⟨(firstOverlap_none_iff x l).1 hx, hl⟩

/-- on a list sorted by start address, the neighbour check gives `end ≤ start` for EVERY ordered pair -/
theorem adjacentOk_sorted_pairwise : ∀ (l : List Iv), l.Pairwise (fun a b => a.start ≤ b.start) →
    adjacentOk l = true → l.Pairwise (fun a b => a.start + a.size ≤ b.start)
  | [], _, _ => List.Pairwise.nil
  | [a], _, _ => by simp
  | a :: b :: rest, hs, hok => by
    simp only [adjacentOk, Bool.and_eq_true, decide_eq_true_eq] at hok
    have hs' := List.pairwise_cons.1 hs
    have ih := adjacentOk_sorted_pairwise (b :: rest) hs'.2 hok.2
    refine List.pairwise_cons.2 ⟨?_, ih⟩
    intro c hc
    rcases List.mem_cons.1 hc with rfl | hc
    · exact hok.1
    · have := (List.pairwise_cons.1 hs'.2).1 c hc
      omega

/-- **the snapshot-time check is sound**: `noOverlap l` ⇒ the intervals of `l` are pairwise disjoint -/
theorem noOverlap_sound (l : List Iv) (h : noOverlap l = true) : l.Pairwise Iv.disjoint := by
  unfold noOverlap at h
  have hsorted : (l.mergeSort ivLe).Pairwise (fun a b => a.start ≤ b.start) := by
    have := List.pairwise_mergeSort (le := ivLe)
      (by intro a b c; simp only [ivLe, decide_eq_true_eq]; omega)
      (by intro a b; simp only [ivLe, Bool.or_eq_true, decide_eq_true_eq]; omega) l
    exact this.imp (by intro a b hab; simpa [ivLe] using hab)
  have hp := adjacentOk_sorted_pairwise _ hsorted h
  have hd : (l.mergeSort ivLe).Pairwise Iv.disjoint := hp.imp (by intro a b hab; exact Or.inl hab)
  exact (List.mergeSort_perm l ivLe).pairwise hd (fun hxy => disjoint_symm hxy)

/-- **an allocation the monitor accepts** is disjoint from every allocation since the last pause and from
every object of the last snapshot that is still reachable in the shadow heap -/
theorem allocClash_sound (h : Heap) (fresh snap : List Iv) (x : Iv) (hc : allocClash h fresh snap x = none) :
    (∀ y ∈ fresh, x.disjoint y) ∧ (∀ y ∈ snap, Reachable h y.id → x.disjoint y) := by
  unfold allocClash at hc
  split at hc
  · cases hc
  · rename_i hf
    refine ⟨(firstOverlap_none_iff x fresh).1 hf, ?_⟩
    split at hc
    · rename_i hs
      intro y hy _
      exact (firstOverlap_none_iff x snap).1 hs y hy
    · intro y hy hr
      simp only [Option.map_eq_none_iff, List.find?_eq_none] at hc
      have := hc y hy
      have hm : (reach h).getD y.id false = true := (reach_iff h y.id).2 hr
      simp only [hm, Bool.and_true, Bool.not_eq_true, Option.isSome_eq_false_iff, Option.isNone_iff_eq_none] at this
      have := (firstOverlap_none_iff x [y]).1 this
      exact this y List.mem_cons_self

example : noOverlap [⟨0, 100, 2⟩, ⟨100, 50, 1⟩, ⟨150, 8, 3⟩] = true := by
  unfold noOverlap; rw [List.mergeSort_of_pairwise (by decide)]; decide
example : noOverlap [⟨0, 100, 2⟩, ⟨100, 51, 1⟩, ⟨150, 8, 3⟩] = false := by
  unfold noOverlap; rw [List.mergeSort_of_pairwise (by decide)]; decide
example : firstOverlap ⟨40, 16, 9⟩ [⟨0, 40, 1⟩, ⟨48, 8, 2⟩] = some ⟨48, 8, 2⟩ := by decide

end Mmtk.Heap
