import MmtkModel.Model.SpaceDescriptor
import MmtkModel.Lemmas.Bits
/-!
# C32 — Space descriptors encode and decode their heap range
-/
namespace Mmtk.Desc
open Mmtk.Layout

/-! ## bit lemmas -/

theorem or_eq_add (a b k : Nat) (ha : a % 2 ^ k = 0) (hb : b < 2 ^ k) : a ||| b = a + b := by
  have h : a = (a / 2 ^ k) <<< k := by
    rw [Nat.shiftLeft_eq]
    have := Nat.div_add_mod a (2 ^ k)
    rw [ha, Nat.mul_comm] at this
    omega
  rw [h, ← Nat.shiftLeft_add_eq_or_of_lt hb]

theorem and_mask_shift (d w s : Nat) : (d &&& ((2 ^ w - 1) <<< s)) >>> s = (d / 2 ^ s) % 2 ^ w := by
  rw [Nat.shiftRight_and_distrib, Nat.shiftLeft_shiftRight, Nat.and_two_pow_sub_one_eq_mod,
    Nat.shiftRight_eq_div_pow]

theorem normLoop_spec : ∀ (fuel tmp e : Nat), 0 < tmp → tmp < 2 ^ fuel →
    (normLoop fuel tmp e).1 % 2 = 1 ∧ e ≤ (normLoop fuel tmp e).2 ∧
    tmp = (normLoop fuel tmp e).1 * 2 ^ ((normLoop fuel tmp e).2 - e) := by
  intro fuel
  induction fuel with
  | zero => intro tmp e h0 h1; simp at h1; omega
  | succ n ih =>
    intro tmp e h0 h1
    unfold normLoop
    by_cases hodd : tmp % 2 = 1
    · have : (tmp != 0 && (tmp &&& 1) == 0) = false := by
        rw [Nat.and_one_is_mod]; simp [hodd]
      simp [this, hodd]
    · have hc : (tmp != 0 && (tmp &&& 1) == 0) = true := by
        rw [Nat.and_one_is_mod]
        have : tmp % 2 = 0 := by omega
        simp [this]; omega
      simp only [hc, if_true]
      have hd : tmp >>> 1 = tmp / 2 := by rw [Nat.shiftRight_eq_div_pow, Nat.pow_one]
      rw [hd]
      have h2 : 0 < tmp / 2 := by omega
      have h3 : tmp / 2 < 2 ^ n := by rw [Nat.pow_succ] at h1; omega
      obtain ⟨a, b, c⟩ := ih (tmp / 2) (e + 1) h2 h3
      refine ⟨a, by omega, ?_⟩
      have he : (normLoop n (tmp / 2) (e + 1)).2 - e = ((normLoop n (tmp / 2) (e + 1)).2 - (e + 1)) + 1 := by omega
      rw [he, Nat.pow_succ, ← Nat.mul_assoc, ← c]
      omega


/-- The encoding's admissible inputs, as an explicit decidable predicate: a chunk-aligned,
non-zero `start` whose number of trailing zero bits is at most `18 + 31 = 49` (the 5-bit exponent
field holds `tz(start) - 18`), `1 ≤ chunks < 2^10`, and the range ends inside the 64-bit word. -/
def Admissible (start chunks : Nat) : Prop :=
  0 < start ∧ start % 2 ^ 22 = 0 ∧ start % 2 ^ 50 ≠ 0 ∧ 1 ≤ chunks ∧ chunks < 2 ^ 10 ∧
  start + chunks * 2 ^ 22 < 2 ^ 64

instance (s c : Nat) : Decidable (Admissible s c) := by unfold Admissible; infer_instance

/-- What the normalisation loop computes for a non-zero multiple of `2^18` below `2^64`:
`start = m · 2^(18+e)` with `m` odd. -/
theorem norm_start (start : Nat) (h0 : 0 < start) (h18 : start % 2 ^ 18 = 0) (hlt : start < 2 ^ 64) :
    let r := normLoop 64 (start >>> baseExponent) 0
    r.1 % 2 = 1 ∧ start = r.1 * 2 ^ (18 + r.2) ∧ r.2 < 46 := by
  intro r
  have hs : start >>> baseExponent = start / 2 ^ 18 := by
    unfold baseExponent; rw [Nat.shiftRight_eq_div_pow]
  have hpos : 0 < start / 2 ^ 18 := by omega
  have hlt' : start / 2 ^ 18 < 2 ^ 64 := by omega
  obtain ⟨a, _, c⟩ := normLoop_spec 64 (start / 2 ^ 18) 0 hpos hlt'
  have hr : r = normLoop 64 (start / 2 ^ 18) 0 := by simp only [r, hs]
  rw [← hr] at a c
  simp only [Nat.sub_zero] at c
  have hst : start = start / 2 ^ 18 * 2 ^ 18 := by
    have := Nat.div_add_mod start (2 ^ 18); rw [h18] at this; omega
  have heq : start = r.1 * 2 ^ (18 + r.2) := by
    rw [Nat.pow_add, Nat.mul_comm (2 ^ 18), ← Nat.mul_assoc, ← c]; exact hst
  refine ⟨a, heq, ?_⟩
  -- r.1 ≥ 1, so 2^(18 + e) ≤ start < 2^64
  have h1 : 1 ≤ r.1 := by omega
  have : 2 ^ (18 + r.2) ≤ start := by
    calc 2 ^ (18 + r.2) = 1 * 2 ^ (18 + r.2) := by omega
      _ ≤ r.1 * 2 ^ (18 + r.2) := Nat.mul_le_mul_right _ h1
      _ = start := heq.symm
  have : 2 ^ (18 + r.2) < 2 ^ 64 := by omega
  have := (Nat.pow_lt_pow_iff_right (a := 2) (by omega)).1 this
  omega


-- (each side condition in its own minimal context: `omega` hits its recursion limit when several
-- of these facts sit in one context)
private theorem enc_a1 (m : Nat) : (m * 2 ^ 17) % 2 ^ 17 = 0 := by omega
private theorem enc_b1 (e : Nat) (he : e < 32) : e * 2 ^ 12 < 2 ^ 17 := by omega
private theorem enc_a2 (m e : Nat) : (m * 2 ^ 17 + e * 2 ^ 12) % 2 ^ 12 = 0 := by omega
private theorem enc_b2 (c : Nat) (hc : c < 1024) : c * 2 ^ 2 < 2 ^ 12 := by omega
private theorem enc_a3 (m e c : Nat) : (m * 2 ^ 17 + e * 2 ^ 12 + c * 2 ^ 2) % 2 ^ 2 = 0 := by omega
private theorem enc_b3 (f : Nat) (hf : f < 4) : f < 2 ^ 2 := by omega

/-- Closed form of the encoded word when every field fits. -/
theorem enc_eq (m e c f : Nat) (hm : m * 2 ^ 17 < 2 ^ 64) (he : e < 32) (hc : c < 1024) (hf : f < 4) :
    shl64 m mantissaShift ||| shl64 e exponentShift ||| shl64 c sizeShift ||| f
      = m * 2 ^ 17 + e * 2 ^ 12 + c * 2 ^ 2 + f := by
  have h1 : shl64 m mantissaShift = m * 2 ^ 17 := by
    unfold shl64 mantissaShift; rw [Nat.shiftLeft_eq]; exact Nat.mod_eq_of_lt hm
  clear hm   -- (omega loops on `m * 2^17 < 2^64` next to other products)
  have h2 : shl64 e exponentShift = e * 2 ^ 12 := by
    unfold shl64 exponentShift; rw [Nat.shiftLeft_eq]; apply Nat.mod_eq_of_lt; omega
  have h3 : shl64 c sizeShift = c * 2 ^ 2 := by
    unfold shl64 sizeShift; rw [Nat.shiftLeft_eq]; apply Nat.mod_eq_of_lt; omega
  rw [h1, h2, h3]
  clear h1 h2 h3
  rw [or_eq_add _ _ 17 (enc_a1 m) (enc_b1 e he), or_eq_add _ _ 12 (enc_a2 m e) (enc_b2 c hc),
    or_eq_add _ _ 2 (enc_a3 m e c) (enc_b3 f hf)]

/-- Decoding a word in closed form. -/
theorem dec_eq (m e c f : Nat) (he : e < 32) (hc : c < 1024) (hf : f < 4)
    (d : Nat) (hd : d = m * 2 ^ 17 + e * 2 ^ 12 + c * 2 ^ 2 + f) :
    d >>> mantissaShift = m ∧ (d &&& exponentMask) >>> exponentShift = e ∧
    (d &&& sizeMask) >>> sizeShift = c ∧ d &&& typeMask = f ∧ d &&& typeContiguous = f % 2 := by
  unfold mantissaShift exponentMask exponentShift sizeMask sizeShift typeMask typeContiguous
  rw [and_mask_shift, and_mask_shift, Nat.shiftRight_eq_div_pow, Nat.and_one_is_mod]
  have h3 : d &&& 3 = d % 2 ^ 2 := Nat.and_two_pow_sub_one_eq_mod d 2
  rw [h3]
  subst hd
  refine ⟨by omega, by omega, by omega, by omega, by omega⟩

/-- **C32 (round trip, 32-bit-style encoding).** For every admissible `(start, chunks)` — in either
build profile, whatever the heap end — the descriptor created for `[start, start + chunks·4MiB)`
is non-empty, contiguous, decodes to the same start and extent, and carries the top-of-heap flag
iff the range ends at `heap_end`. -/
theorem descriptor_roundtrip (debug : Bool) (heapEnd start chunks : Nat) (h : Admissible start chunks) :
    ∃ d, create32 debug heapEnd start (start + chunks * 2 ^ 22) = some d ∧
      getStart32 debug d = some start ∧ getExtent32 debug d = some (chunks * 2 ^ 22) ∧
      isContiguous d = true ∧ isEmpty d = false ∧
      (isContiguousHi d = true ↔ start + chunks * 2 ^ 22 = heapEnd) := by
  obtain ⟨h0, h22, h50, hc1, hc2, hend⟩ := h
  have hlt : start < 2 ^ 64 := by omega
  have h18 : start % 2 ^ 18 = 0 := by omega
  obtain ⟨hodd, hst, he46⟩ := norm_start start h0 h18 hlt
  generalize hr : normLoop 64 (start >>> baseExponent) 0 = r at hodd hst he46
  -- the exponent fits in 5 bits because 2^50 does not divide start
  have he : r.2 < 32 := by
    apply Classical.byContradiction
    intro hn
    apply h50
    have hd : 2 ^ 50 ∣ 2 ^ (18 + r.2) := Nat.pow_dvd_pow 2 (by omega)
    have : 2 ^ 50 ∣ start := by rw [hst]; exact Nat.dvd_trans hd (Nat.dvd_mul_left _ _)
    exact Nat.mod_eq_zero_of_dvd this
  -- the mantissa does not leave the word when shifted by 17
  have hm : r.1 * 2 ^ 17 < 2 ^ 64 := by
    have : r.1 * 2 ^ 17 ≤ r.1 * 2 ^ (18 + r.2) :=
      Nat.mul_le_mul_left _ (Nat.pow_le_pow_right (by omega) (by omega))
    omega
  have hchunks : (start + chunks * 2 ^ 22 - start) >>> logBytesInChunk = chunks := by
    unfold logBytesInChunk
    rw [Nat.add_sub_cancel_left, Nat.shiftRight_eq_div_pow, Nat.mul_div_cancel _ (Nat.two_pow_pos 22)]
  have hshl : shl64 r.1 (baseExponent + r.2) = start := by
    unfold shl64 baseExponent
    rw [Nat.shiftLeft_eq, ← hst, Nat.mod_eq_of_lt hlt]
  let f := if (start + chunks * 2 ^ 22 == heapEnd) = true then typeContiguousHi else typeContiguous
  have hf : f = 1 ∨ f = 3 := by
    simp only [f, typeContiguousHi, typeContiguous]; split <;> simp
  have hf4 : f < 4 := by omega
  let d := r.1 * 2 ^ 17 + r.2 * 2 ^ 12 + chunks * 2 ^ 2 + f
  have hcreate : create32 debug heapEnd start (start + chunks * 2 ^ 22) = some d := by
    unfold create32
    simp only [hchunks, hr, hshl, sizeBits]
    have hg : (start != 0 && decide (chunks > 0) && decide (chunks < 2 ^ 10)) = true := by
      simp; omega
    simp only [hg, Bool.not_true, Bool.and_false, beq_self_eq_true]
    simp only [Bool.false_eq_true, if_false]
    rw [enc_eq r.1 r.2 chunks f hm he (by omega) hf4]
  obtain ⟨d1, d2, d3, d4, d5⟩ := dec_eq r.1 r.2 chunks f he (by omega) hf4 d rfl
  have hcont : isContiguous d = true := by
    unfold isContiguous; rw [d5]; unfold typeContiguous
    rcases hf with hf | hf <;> simp [hf]
  refine ⟨d, hcreate, ?_, ?_, hcont, ?_, ?_⟩
  · unfold getStart32
    simp only [hcont, Bool.not_true, Bool.and_false, Bool.false_eq_true, if_false, d1, d2, hshl]
  · unfold getExtent32
    simp only [hcont, Bool.not_true, Bool.and_false, Bool.false_eq_true, if_false, d3]
    unfold shl64 logBytesInChunk
    rw [Nat.shiftLeft_eq, Nat.mod_eq_of_lt (Nat.lt_of_le_of_lt (Nat.le_add_left _ _) hend)]
  · unfold isEmpty
    have : d ≠ 0 := by simp only [d]; omega
    simp [this]
  · unfold isContiguousHi
    rw [d4]
    simp only [f, typeContiguousHi, typeContiguous]
    by_cases hh : start + chunks * 2 ^ 22 = heapEnd <;> simp [hh]


/-- **C32 (round trip through the public entry points)** under any layout that uses the
32-bit-style encoding (`force_use_contiguous_spaces = false`). -/
theorem descriptor_roundtrip_layout (l : VMLayout) (hl : l.forceContiguous = false) (debug : Bool)
    (start chunks : Nat) (h : Admissible start chunks) :
    ∃ d, createFromHeapRange l debug start (start + chunks * 2 ^ 22) = some d ∧
      getStart l debug d = some start ∧ getExtent l debug d = some (chunks * 2 ^ 22) ∧
      isContiguous d = true ∧ isEmpty d = false ∧
      (isContiguousHi d = true ↔ start + chunks * 2 ^ 22 = l.heapEnd) := by
  obtain ⟨d, h1, h2, h3, h4, h5, h6⟩ := descriptor_roundtrip debug l.heapEnd start chunks h
  refine ⟨d, ?_, ?_, ?_, h4, h5, h6⟩
  · unfold createFromHeapRange
    simp only [hl, Bool.false_eq_true, if_false, Nat.le_add_right, if_true]
    exact h1
  · unfold getStart; simp only [hl, Bool.not_false, if_true]; exact h2
  · unfold getExtent; simp only [hl, Bool.not_false, if_true]; exact h3

/-! ## the 64-bit branch (`index << 2 | flags`) -/

private theorem index_mask_eq : 2 ^ 64 - 1 - typeMask = 2 ^ 64 - 2 ^ 2 := by decide

/-- **C32 (64-bit encoding).** Under a layout with `force_use_contiguous_spaces` and a space
extent `2^k`, `2 ≤ k < 64`, for every `start ≤ heap_end` (`< 2^64`): the descriptor is non-empty and
contiguous, its index is `start >> k`, its extent is the space size, its start is `start` rounded
down to the space size (so exactly `start` for a space-aligned `start`), and it carries the top flag
iff `end = heap_end`. -/
theorem descriptor64_roundtrip (l : VMLayout) (hl : l.forceContiguous = true)
    (hk2 : 2 ≤ l.logSpaceExtent) (hk : l.logSpaceExtent < 64) (debug : Bool)
    (start end_ : Nat) (hs : start ≤ l.heapEnd) (hlt : start < 2 ^ 64) :
    ∃ d, createFromHeapRange l debug start end_ = some d ∧
      getIndex d = start / 2 ^ l.logSpaceExtent ∧
      getStart l debug d = some (start - start % 2 ^ l.logSpaceExtent) ∧
      getExtent l debug d = some (2 ^ l.logSpaceExtent) ∧
      isContiguous d = true ∧ isEmpty d = false ∧
      (isContiguousHi d = true ↔ end_ = l.heapEnd) := by
  generalize hkk : l.logSpaceExtent = k at *
  let idx := start / 2 ^ k
  let f := if (end_ == l.heapEnd) = true then typeContiguousHi else typeContiguous
  have hf : f = 1 ∨ f = 3 := by
    simp only [f, typeContiguousHi, typeContiguous]; split <;> simp
  have hidx : idx * 2 ^ 2 < 2 ^ 64 := by
    have h1 : idx * 2 ^ k ≤ start := Nat.div_mul_le_self _ _
    have h2 : idx * 2 ^ 2 ≤ idx * 2 ^ k := Nat.mul_le_mul_left _ (Nat.pow_le_pow_right (by omega) hk2)
    omega
  have hd : create64 l start end_ = idx * 2 ^ 2 + f := by
    unfold create64
    have : ¬ start > l.heapEnd := by omega
    simp only [this, if_false, hkk]
    unfold shl64 indexShift
    rw [Nat.shiftRight_eq_div_pow, Nat.shiftLeft_eq, Nat.mod_eq_of_lt hidx]
    exact or_eq_add _ _ 2 (Nat.mul_mod_left _ _) (by omega)
  have hgi : getIndex (idx * 2 ^ 2 + f) = idx := by
    unfold getIndex indexShift
    rw [index_mask_eq, Mmtk.Bits.and_not_mask _ 2 (by omega) (by omega), Nat.shiftRight_eq_div_pow]
    omega
  refine ⟨idx * 2 ^ 2 + f, ?_, hgi, ?_, ?_, ?_, ?_, ?_⟩
  · unfold createFromHeapRange; simp only [hl, if_true, hd]
  · unfold getStart
    simp only [hl, Bool.not_true, Bool.false_eq_true, if_false, hgi, hkk]
    unfold shl64
    rw [Nat.shiftLeft_eq]
    have h1 : idx * 2 ^ k = start - start % 2 ^ k := by
      have := Nat.div_add_mod start (2 ^ k)
      have : 2 ^ k * (start / 2 ^ k) = idx * 2 ^ k := Nat.mul_comm _ _
      omega
    rw [h1, Nat.mod_eq_of_lt (by omega)]
  · unfold getExtent; simp only [hl, Bool.not_true, Bool.false_eq_true, if_false, hkk]
  · unfold isContiguous typeContiguous
    rw [Nat.and_one_is_mod]
    rcases hf with hf | hf <;> simp [hf] <;> omega
  · rcases hf with hf | hf <;> simp [isEmpty, hf]
  · unfold isContiguousHi typeMask
    have h3 : (idx * 2 ^ 2 + f) &&& 3 = (idx * 2 ^ 2 + f) % 2 ^ 2 := Nat.and_two_pow_sub_one_eq_mod _ 2
    rw [h3]
    have : (idx * 2 ^ 2 + f) % 2 ^ 2 = f := by omega
    rw [this]
    simp only [f, typeContiguousHi, typeContiguous]
    by_cases hh : end_ = l.heapEnd <;> simp [hh]

/-! ## discontiguous descriptors -/

/-- The `i`-th descriptor handed out from counter `c` is `c + 4·i` as long as the counter has not
wrapped. -/
theorem discontigSeq_get : ∀ (n c i : Nat), i < n → c + 4 * n ≤ 2 ^ 64 →
    (discontigSeq n c)[i]? = some (c + 4 * i) := by
  intro n
  induction n with
  | zero => intro c i h; omega
  | succ n ih =>
    intro c i hi hc
    unfold discontigSeq createDiscontiguous discontigIncrement
    cases i with
    | zero => simp
    | succ j =>
      simp only [List.getElem?_cons_succ]
      have hm : (c + 4) % 2 ^ 64 = c + 4 := Nat.mod_eq_of_lt (by omega)
      rw [hm, ih (c + 4) j (by omega) (by omega)]
      congr 1; omega

theorem discontigSeq_length : ∀ (n c : Nat), (discontigSeq n c).length = n := by
  intro n; induction n with
  | zero => intro c; rfl
  | succ n ih => intro c; simp [discontigSeq, ih]

/-- **C32 (discontiguous descriptors).** The first `n ≤ 2^62 - 1` descriptors created in a process
(counter starts at 4) are `4, 8, …`: pairwise distinct, non-empty, not contiguous, not
contiguous-hi, with index `i + 1`. -/
theorem discontig_distinct_noncontiguous (n : Nat) (hn : n ≤ 2 ^ 62 - 1) :
    let ds := discontigSeq n discontigIncrement
    ds.length = n ∧
    (∀ i, i < n → ∃ d, ds[i]? = some d ∧ d = 4 * (i + 1) ∧ isEmpty d = false ∧
        isContiguous d = false ∧ isContiguousHi d = false ∧ getIndex d = i + 1) ∧
    (∀ (i j d : Nat), ds[i]? = some d → ds[j]? = some d → i = j) := by
  intro ds
  have hget : ∀ i, i < n → ds[i]? = some (4 + 4 * i) := fun i hi =>
    discontigSeq_get n 4 i hi (by omega)
  refine ⟨discontigSeq_length n _, ?_, ?_⟩
  · intro i hi
    refine ⟨4 + 4 * i, hget i hi, by omega, ?_, ?_, ?_, ?_⟩
    · unfold isEmpty; have : 4 + 4 * i ≠ 0 := by omega
      simp [this]
    · unfold isContiguous typeContiguous; rw [Nat.and_one_is_mod]
      have : (4 + 4 * i) % 2 = 0 := by omega
      simp [this]
    · unfold isContiguousHi typeMask typeContiguousHi
      have h3 : (4 + 4 * i) &&& 3 = (4 + 4 * i) % 2 ^ 2 := Nat.and_two_pow_sub_one_eq_mod _ 2
      have : (4 + 4 * i) % 2 ^ 2 = 0 := by omega
      simp [h3, this]
    · unfold getIndex indexShift
      rw [index_mask_eq, Mmtk.Bits.and_not_mask _ 2 (by omega) (by omega), Nat.shiftRight_eq_div_pow]
      omega
  · intro i j d hi hj
    have hli : i < n := by
      have := (List.getElem?_eq_some_iff.1 hi).1
      rw [discontigSeq_length] at this; exact this
    have hlj : j < n := by
      have := (List.getElem?_eq_some_iff.1 hj).1
      rw [discontigSeq_length] at this; exact this
    rw [hget i hli] at hi
    rw [hget j hlj] at hj
    injection hi with hi; injection hj with hj
    omega

/-- A discontiguous descriptor is never equal to a descriptor created for a heap range
(their contiguity bits differ). -/
theorem discontig_ne_contiguous (d d' : Nat) (h : isContiguous d = false) (h' : isContiguous d' = true) :
    d ≠ d' := by
  intro e; subst e; rw [h] at h'; cases h'

/-- Boundary of the previous theorem: the counter wraps after `2^62 - 1` descriptors — the next
one would be `0 = UNINITIALIZED` (unreachable in practice). -/
theorem discontig_wraps :
    (createDiscontiguous (2 ^ 64 - 4)).2 = 0 ∧ isEmpty (createDiscontiguous 0).1 = true := by
  decide

/-! ## boundary of the 32-bit-style encoding, and satisfiability of the hypotheses -/

/-- `start = 2^50` (chunk-aligned, non-zero) is *not* admissible, and indeed does not round-trip:
the exponent `32` does not fit the 5-bit field and the descriptor decodes to `2^18`. -/
theorem exponent_overflows_witness :
    ¬ Admissible (2 ^ 50) 1 ∧
    (∃ d, create32 true 0 (2 ^ 50) (2 ^ 50 + 2 ^ 22) = some d ∧ getStart32 true d = some (2 ^ 18)) := by
  refine ⟨by decide, ⟨131077, by decide, by decide⟩⟩

example : Admissible 0x80000000 3 := by decide
example : Admissible (2 ^ 50 - 2 ^ 22) 1023 := by decide
example : Admissible (2 ^ 50 + 2 ^ 22) 1 := by decide
example : Admissible (2 ^ 64 - 2 ^ 32) 1023 := by decide
example : ¬ Admissible (2 ^ 64 - 2 ^ 32) 1024 := by decide
example : create32 true 0xd0000000 0xcfc00000 0xd0000000 = some 108937223 := by decide
example : layout32.forceContiguous = false ∧ layout64.forceContiguous = true ∧
    2 ≤ layout64.logSpaceExtent ∧ layout64.logSpaceExtent < 64 := by decide

end Mmtk.Desc
