import MmtkModel.Model.OOM
/-!
# C10 — Out-of-memory and allocation-option contract

*An allocation that cannot be satisfied calls `out_of_memory` only after at least one collection was
attempted for it (except requests larger than the maximum heap, which fail immediately), never when
`allow_oom_call` is false, and then returns null. An allocation with `at_safepoint = false` never
calls `block_for_gc`, and one with `allow_overcommit` may exceed the heap size without blocking.*

The statements are about `Mmtk.OOM.slowPath` (the retry loop of `Allocator::alloc_slow_inline` on
this tree, `Model/OOM.lean`) for **every** request, **every** environment (answers of `poll`, of the
page resource, of the global `emergency_collection` / `allocation_success` atomics, per iteration)
and **every** fuel. `slowPathOld` is the loop of the pinned tree, before the two `fix:` commits in
/repo (emergency branch ignored `allow_oom_call`; an obviously-too-large request with
`allow_oom_call = false` looped forever): the theorems about it record why the repairs were needed.

| clause | `slowPath` (this tree) | `slowPathOld` (pinned tree) |
|---|---|---|
| `oom_only_after_gc_or_obvious`  | proved in full | proved in full (`old_…`) |
| `no_oom_call_when_disallowed`   | proved in full | **false** (`F5_witness`), `old_…_partial` proved |
| `oom_returns_null`              | proved in full | proved in full (`old_…`) |
| `obvious_fails_immediately`     | proved in full | **false** (`F6_witness_diverges`), `old_…_partial` proved |
| `no_block_when_not_safepoint`, `not_safepoint_one_attempt` | proved in full | proved in full (`old_…`) |
| `overcommit_gets_pages`         | proved in full | proved in full (`old_…`) |
| termination                     | `terminates` under the GC-progress hypothesis, `terminates_obvious` | false (F6) |
-/
namespace Mmtk.OOM
open Event

/-! ## Facts about `alloc_slow_once` (`allocOnceOld`, `allocOnce`) -/

theorem notAcquiring_no_oom (o : Opts) (b : Bool) : oomCall ∉ notAcquiring o b := by
  unfold notAcquiring; cases o.atSafepoint <;> cases b <;> simp

theorem acquire_no_oom (o : Opts) (e : EnvRec) : oomCall ∉ (acquire o e).2 := by
  have := notAcquiring_no_oom o
  unfold acquire
  cases e.pollGc <;> cases o.allowOvercommit <;> cases e.pagesOk <;> simp [this]

theorem acquire_null_block (o : Opts) (e : EnvRec) (h : o.atSafepoint = true)
    (hn : (acquire o e).1 = false) : blockForGc ∈ (acquire o e).2 := by
  revert hn
  unfold acquire notAcquiring
  cases e.pollGc <;> cases o.allowOvercommit <;> cases e.pagesOk <;> simp [h]

theorem acquire_noblock (o : Opts) (e : EnvRec) (h : o.atSafepoint = false) :
    blockForGc ∉ (acquire o e).2 := by
  unfold acquire notAcquiring
  cases e.pollGc <;> cases o.allowOvercommit <;> cases e.pagesOk <;> simp [h]

theorem acquire_overcommit (o : Opts) (e : EnvRec) (h : o.allowOvercommit = true)
    (hp : e.pagesOk = true) : (acquire o e).1 = true ∧ blockForGc ∉ (acquire o e).2 := by
  unfold acquire
  cases e.pollGc <;> simp [h, hp]

theorem allocOnceOld_of_not_obvious (r : Req) (e : EnvRec) (h : r.obvious = false) :
    allocOnceOld r e = if e.localHit then (true, false, [])
      else ((acquire r.opts e).1, false, (acquire r.opts e).2) := by
  unfold allocOnceOld; simp [h]

theorem allocOnce_of_not_obvious (r : Req) (e : EnvRec) (h : r.obvious = false) :
    allocOnce r e = allocOnceOld r e := by
  unfold allocOnce allocOnceOld; simp [h]

theorem allocOnceOld_of_obvious (r : Req) (e : EnvRec) (h : r.obvious = true) :
    allocOnceOld r e = (false, r.opts.allowOomCall, if r.opts.allowOomCall then [oomCall] else []) := by
  unfold allocOnceOld; cases hc : r.opts.allowOomCall <;> simp [h]

theorem allocOnce_of_obvious (r : Req) (e : EnvRec) (h : r.obvious = true) :
    allocOnce r e = (false, true, if r.opts.allowOomCall then [oomCall] else []) := by
  unfold allocOnce; simp [h]

/-- Not obviously too large: `alloc_slow_once` neither calls `out_of_memory` nor sets
`thrown_oom`, and at a safepoint it fails only after `block_for_gc`. -/
theorem allocOnceOld_nonobvious (r : Req) (e : EnvRec) (h : r.obvious = false) :
    (allocOnceOld r e).2.1 = false ∧ oomCall ∉ (allocOnceOld r e).2.2 ∧
    (r.opts.atSafepoint = true → (allocOnceOld r e).1 = false → blockForGc ∈ (allocOnceOld r e).2.2) := by
  rw [allocOnceOld_of_not_obvious r e h]
  cases e.localHit
  · simp only [Bool.false_eq_true, if_false]
    exact ⟨trivial, acquire_no_oom _ _, acquire_null_block _ _⟩
  · simp

theorem allocOnceOld_noblock (r : Req) (e : EnvRec) (h : r.opts.atSafepoint = false) :
    blockForGc ∉ (allocOnceOld r e).2.2 := by
  cases ho : r.obvious
  · rw [allocOnceOld_of_not_obvious r e ho]
    cases e.localHit
    · simpa using acquire_noblock _ e h
    · simp
  · rw [allocOnceOld_of_obvious r e ho]; cases r.opts.allowOomCall <;> simp

theorem allocOnce_noblock (r : Req) (e : EnvRec) (h : r.opts.atSafepoint = false) :
    blockForGc ∉ (allocOnce r e).2.2 := by
  cases ho : r.obvious
  · rw [allocOnce_of_not_obvious r e ho]; exact allocOnceOld_noblock r e h
  · rw [allocOnce_of_obvious r e ho]; cases r.opts.allowOomCall <;> simp

theorem allocOnceOld_disallowed (r : Req) (e : EnvRec) (h : r.opts.allowOomCall = false) :
    oomCall ∉ (allocOnceOld r e).2.2 := by
  cases ho : r.obvious
  · exact (allocOnceOld_nonobvious r e ho).2.1
  · rw [allocOnceOld_of_obvious r e ho]; simp [h]

theorem allocOnce_disallowed (r : Req) (e : EnvRec) (h : r.opts.allowOomCall = false) :
    oomCall ∉ (allocOnce r e).2.2 := by
  cases ho : r.obvious
  · rw [allocOnce_of_not_obvious r e ho]; exact (allocOnceOld_nonobvious r e ho).2.1
  · rw [allocOnce_of_obvious r e ho]; simp [h]

/-- `out_of_memory` inside `alloc_slow_once` always comes with `thrown_oom` and a zero result. -/
theorem allocOnceOld_oom_thrown (r : Req) (e : EnvRec) (h : oomCall ∈ (allocOnceOld r e).2.2) :
    (allocOnceOld r e).1 = false ∧ (allocOnceOld r e).2.1 = true := by
  cases ho : r.obvious
  · exact absurd h (allocOnceOld_nonobvious r e ho).2.1
  · rw [allocOnceOld_of_obvious r e ho] at h ⊢
    cases hc : r.opts.allowOomCall <;> simp [hc] at h ⊢

theorem allocOnce_oom_thrown (r : Req) (e : EnvRec) (h : oomCall ∈ (allocOnce r e).2.2) :
    (allocOnce r e).1 = false ∧ (allocOnce r e).2.1 = true := by
  cases ho : r.obvious
  · rw [allocOnce_of_not_obvious r e ho] at h
    exact absurd h (allocOnceOld_nonobvious r e ho).2.1
  · rw [allocOnce_of_obvious r e ho]; simp

theorem allocOnceOld_overcommit (r : Req) (e : EnvRec) (ho : r.obvious = false)
    (hc : r.opts.allowOvercommit = true) (hp : e.pagesOk = true) :
    (allocOnceOld r e).1 = true ∧ blockForGc ∉ (allocOnceOld r e).2.2 := by
  rw [allocOnceOld_of_not_obvious r e ho]
  cases e.localHit
  · simpa using acquire_overcommit r.opts e hc hp
  · simp

/-! ## Inversion of one loop iteration -/

/-- How an iteration of the loop of the pinned tree can return. -/
theorem loopBodyOld_ret {r : Req} {e : EnvRec} {s : State} {a : Bool × Bool × List Event}
    {res : Res} {tr : List Event} (h : loopBodyOld r e s a = .ret res tr) :
    (a.1 = true ∧ res = .addr ∧ tr = s.trace ++ a.2.2) ∨
    (a.1 = false ∧ res = .null ∧ tr = s.trace ++ a.2.2 ∧
      (r.opts.atSafepoint = false ∨ s.thrownOom = true ∨ a.2.1 = true)) ∨
    (a.1 = false ∧ res = .null ∧ tr = s.trace ++ a.2.2 ++ [oomCall] ∧
      r.opts.atSafepoint = true ∧ s.thrownOom = false ∧ a.2.1 = false ∧
      s.emergLocal = true ∧ e.emergCheck = true ∧ e.succSeen = false) := by
  unfold loopBodyOld at h
  split at h
  · rename_i h1; cases h; exact .inl ⟨h1, rfl, rfl⟩
  · rename_i h1
    split at h
    · rename_i h2; cases h
      exact .inr (.inl ⟨by simpa using h1, rfl, rfl, .inl (by simpa using h2)⟩)
    · rename_i h2
      split at h
      · rename_i h3; cases h
        refine .inr (.inl ⟨by simpa using h1, rfl, rfl, .inr ?_⟩)
        simpa using h3
      · rename_i h3
        split at h
        · rename_i h4; cases h
          simp at h1 h2 h3 h4
          exact .inr (.inr ⟨h1, rfl, rfl, h2, h3.1, h3.2, h4.1.1, h4.1.2, h4.2⟩)
        · cases h

/-- How an iteration of the loop of the pinned tree can go round again. -/
theorem loopBodyOld_cont {r : Req} {e : EnvRec} {s s' : State} {a : Bool × Bool × List Event}
    (h : loopBodyOld r e s a = .cont s') :
    a.1 = false ∧ r.opts.atSafepoint = true ∧ s.thrownOom = false ∧ a.2.1 = false ∧
    ¬(s.emergLocal = true ∧ e.emergCheck = true ∧ e.succSeen = false) ∧
    s' = { thrownOom := false, emergLocal := e.emergRecord, trace := s.trace ++ a.2.2 } := by
  unfold loopBodyOld at h
  split at h
  · cases h
  · rename_i h1
    split at h
    · cases h
    · rename_i h2
      split at h
      · cases h
      · rename_i h3
        split at h
        · cases h
        · rename_i h4; cases h
          simp at h1 h2 h3 h4
          exact ⟨h1, h2, h3.1, h3.2, by simpa using h4, rfl⟩

theorem loopBody_ret {r : Req} {e : EnvRec} {s : State} {a : Bool × Bool × List Event}
    {res : Res} {tr : List Event} (h : loopBody r e s a = .ret res tr) :
    (a.1 = true ∧ res = .addr ∧ tr = s.trace ++ a.2.2) ∨
    (a.1 = false ∧ res = .null ∧ tr = s.trace ++ a.2.2 ∧
      (r.opts.atSafepoint = false ∨ s.thrownOom = true ∨ a.2.1 = true)) ∨
    (a.1 = false ∧ res = .null ∧
      tr = s.trace ++ a.2.2 ++ (if r.opts.allowOomCall then [oomCall] else []) ∧
      r.opts.atSafepoint = true ∧ s.thrownOom = false ∧ a.2.1 = false ∧
      s.emergLocal = true ∧ e.emergCheck = true ∧ e.succSeen = false) := by
  unfold loopBody at h
  split at h
  · rename_i h1; cases h; exact .inl ⟨h1, rfl, rfl⟩
  · rename_i h1
    split at h
    · rename_i h2; cases h
      exact .inr (.inl ⟨by simpa using h1, rfl, rfl, .inl (by simpa using h2)⟩)
    · rename_i h2
      split at h
      · rename_i h3; cases h
        refine .inr (.inl ⟨by simpa using h1, rfl, rfl, .inr ?_⟩)
        simpa using h3
      · rename_i h3
        split at h
        · rename_i h4; cases h
          simp at h1 h2 h3 h4
          exact .inr (.inr ⟨h1, rfl, rfl, h2, h3.1, h3.2, h4.1.1, h4.1.2, h4.2⟩)
        · cases h

theorem loopBody_cont {r : Req} {e : EnvRec} {s s' : State} {a : Bool × Bool × List Event}
    (h : loopBody r e s a = .cont s') :
    a.1 = false ∧ r.opts.atSafepoint = true ∧ s.thrownOom = false ∧ a.2.1 = false ∧
    ¬(s.emergLocal = true ∧ e.emergCheck = true ∧ e.succSeen = false) ∧
    s' = { thrownOom := false, emergLocal := e.emergRecord, trace := s.trace ++ a.2.2 } := by
  unfold loopBody at h
  split at h
  · cases h
  · rename_i h1
    split at h
    · cases h
    · rename_i h2
      split at h
      · cases h
      · rename_i h3
        split at h
        · cases h
        · rename_i h4; cases h
          simp at h1 h2 h3 h4
          exact ⟨h1, h2, h3.1, h3.2, by simpa using h4, rfl⟩

/-! ## Induction over the loop -/

/-- Invariant rule for `runOld`: `EP` constrains the environment answers, `Inv` the loop-carried state,
`Post` is established for every outcome (including out-of-fuel prefixes). -/
theorem runOld_induct (r : Req) (EP : EnvRec → Prop) (Inv : State → Prop) (Post : Outcome → Prop)
    (hfuel : ∀ s, Inv s → Post (.outOfFuel s.trace))
    (hret : ∀ e s res tr, EP e → Inv s → iterOld r e s = .ret res tr → Post (.done res tr))
    (hcont : ∀ e s s', EP e → Inv s → iterOld r e s = .cont s' → Inv s') :
    ∀ fuel (env : Env) s, (∀ n, EP (env n)) → Inv s → Post (runOld r fuel env s) := by
  intro fuel
  induction fuel with
  | zero => intro env s _ hi; exact hfuel s hi
  | succ n ih =>
    intro env s he hi
    unfold runOld
    cases hs : iterOld r (env 0) s with
    | ret res tr => exact hret _ _ _ _ (he 0) hi hs
    | cont s' => exact ih env.tail s' (fun n => he (n + 1)) (hcont _ _ _ (he 0) hi hs)

theorem run_induct (r : Req) (EP : EnvRec → Prop) (Inv : State → Prop) (Post : Outcome → Prop)
    (hfuel : ∀ s, Inv s → Post (.outOfFuel s.trace))
    (hret : ∀ e s res tr, EP e → Inv s → iter r e s = .ret res tr → Post (.done res tr))
    (hcont : ∀ e s s', EP e → Inv s → iter r e s = .cont s' → Inv s') :
    ∀ fuel (env : Env) s, (∀ n, EP (env n)) → Inv s → Post (run r fuel env s) := by
  intro fuel
  induction fuel with
  | zero => intro env s _ hi; exact hfuel s hi
  | succ n ih =>
    intro env s he hi
    unfold run
    cases hs : iter r (env 0) s with
    | ret res tr => exact hret _ _ _ _ (he 0) hi hs
    | cont s' => exact ih env.tail s' (fun n => he (n + 1)) (hcont _ _ _ (he 0) hi hs)

/-! ## Clause 1 — `out_of_memory` only after a collection was attempted, or the request is obvious -/

/-- "`out_of_memory` was called at most once, it is the last event, and `block_for_gc` was called
before it". -/
def OomAfterGc (t : List Event) : Prop :=
  oomCall ∈ t → ∃ pre, t = pre ++ [oomCall] ∧ oomCall ∉ pre ∧ blockForGc ∈ pre

/-- Loop invariant of clause 1. -/
def Inv1 (s : State) : Prop := oomCall ∉ s.trace ∧ (s.emergLocal = true → blockForGc ∈ s.trace)

/-- **Clause 1 (full).** A request that is not obviously too large calls `out_of_memory` only
after this very request blocked for a collection; the call is the last event of the request and
happens at most once. Holds for every environment and every prefix of the execution. -/
theorem old_oom_only_after_gc_or_obvious (r : Req) (fuel : Nat) (env : Env) (h : r.obvious = false) :
    OomAfterGc (slowPathOld r fuel env).trace := by
  refine runOld_induct r (fun _ => True) Inv1 (fun o => OomAfterGc o.trace) ?_ ?_ ?_ fuel env State.init
    (fun _ => trivial) ⟨by simp [State.init], by simp [State.init]⟩
  · intro s hi hm; exact absurd hm hi.1
  · intro e s res tr _ hi hs hm
    obtain ⟨ht, hno, hb⟩ := allocOnceOld_nonobvious r e h
    rcases loopBodyOld_ret hs with ⟨_, _, rfl⟩ | ⟨_, _, rfl, _⟩ | ⟨ha, _, rfl, hsp, _, _, hl, _, _⟩
    · simp only [Outcome.trace, List.mem_append] at hm
      exact absurd hm (by simp [hi.1, hno])
    · simp only [Outcome.trace, List.mem_append] at hm
      exact absurd hm (by simp [hi.1, hno])
    · refine ⟨s.trace ++ (allocOnceOld r e).2.2, rfl, by simp [hi.1, hno], ?_⟩
      simp [hi.2 hl]
  · intro e s s' _ hi hs
    obtain ⟨ht, hno, hb⟩ := allocOnceOld_nonobvious r e h
    obtain ⟨ha, hsp, _, _, _, rfl⟩ := loopBodyOld_cont hs
    exact ⟨by simp [hi.1, hno], fun _ => by simp [hb hsp ha]⟩

/-- **Clause 1, this tree (full).** -/
theorem oom_only_after_gc_or_obvious (r : Req) (fuel : Nat) (env : Env) (h : r.obvious = false) :
    OomAfterGc (slowPath r fuel env).trace := by
  refine run_induct r (fun _ => True) Inv1 (fun o => OomAfterGc o.trace) ?_ ?_ ?_ fuel env
    State.init (fun _ => trivial) ⟨by simp [State.init], by simp [State.init]⟩
  · intro s hi hm; exact absurd hm hi.1
  · intro e s res tr _ hi hs hm
    obtain ⟨ht, hno, hb⟩ := allocOnceOld_nonobvious r e h
    unfold iter at hs; rw [allocOnce_of_not_obvious r e h] at hs
    rcases loopBody_ret hs with ⟨_, _, rfl⟩ | ⟨_, _, rfl, _⟩ | ⟨ha, _, rfl, hsp, _, _, hl, _, _⟩
    · simp only [Outcome.trace, List.mem_append] at hm
      exact absurd hm (by simp [hi.1, hno])
    · simp only [Outcome.trace, List.mem_append] at hm
      exact absurd hm (by simp [hi.1, hno])
    · cases hc : r.opts.allowOomCall
      · simp [Outcome.trace, hi.1, hno] at hm
        simp [hc] at hm
      · refine ⟨s.trace ++ (allocOnceOld r e).2.2, by simp [Outcome.trace], by simp [hi.1, hno], ?_⟩
        simp [hi.2 hl]
  · intro e s s' _ hi hs
    obtain ⟨ht, hno, hb⟩ := allocOnceOld_nonobvious r e h
    unfold iter at hs; rw [allocOnce_of_not_obvious r e h] at hs
    obtain ⟨ha, hsp, _, _, _, rfl⟩ := loopBody_cont hs
    exact ⟨by simp [hi.1, hno], fun _ => by simp [hb hsp ha]⟩

/-! ## Clause 3 — after `out_of_memory` the request returns null -/

/-- **Clause 3 (full).** If `out_of_memory` was called for the request, the request returns null
(and `out_of_memory` was its last action: see also `old_oom_only_after_gc_or_obvious`). -/
theorem old_oom_returns_null (r : Req) (fuel : Nat) (env : Env) (res : Res) (tr : List Event)
    (h : slowPathOld r fuel env = .done res tr) (hm : oomCall ∈ tr) : res = .null := by
  have := runOld_induct r (fun _ => True) (fun s => oomCall ∉ s.trace)
    (fun o => ∀ res tr, o = .done res tr → oomCall ∈ tr → res = .null) ?_ ?_ ?_ fuel env State.init
    (fun _ => trivial) (by simp [State.init])
  · exact this res tr h hm
  · intro s _ res tr h; cases h
  · intro e s res tr _ hi hs res' tr' heq hm
    cases heq
    rcases loopBodyOld_ret hs with ⟨ha, _, rfl⟩ | ⟨_, rfl, _⟩ | ⟨_, rfl, _⟩
    · have : oomCall ∈ (allocOnceOld r e).2.2 := by simpa [hi] using hm
      have := (allocOnceOld_oom_thrown r e this).1
      simp [ha] at this
    · rfl
    · rfl
  · intro e s s' _ hi hs
    obtain ⟨_, _, _, ht, _, rfl⟩ := loopBodyOld_cont hs
    intro hm
    have : oomCall ∈ (allocOnceOld r e).2.2 := by simpa [hi] using hm
    have := (allocOnceOld_oom_thrown r e this).2
    simp [ht] at this

/-- **Clause 3, this tree (full).** -/
theorem oom_returns_null (r : Req) (fuel : Nat) (env : Env) (res : Res) (tr : List Event)
    (h : slowPath r fuel env = .done res tr) (hm : oomCall ∈ tr) : res = .null := by
  have := run_induct r (fun _ => True) (fun s => oomCall ∉ s.trace)
    (fun o => ∀ res tr, o = .done res tr → oomCall ∈ tr → res = .null) ?_ ?_ ?_ fuel env State.init
    (fun _ => trivial) (by simp [State.init])
  · exact this res tr h hm
  · intro s _ res tr h; cases h
  · intro e s res tr _ hi hs res' tr' heq hm
    cases heq
    rcases loopBody_ret hs with ⟨ha, _, rfl⟩ | ⟨_, rfl, _⟩ | ⟨_, rfl, _⟩
    · have : oomCall ∈ (allocOnce r e).2.2 := by simpa [hi] using hm
      have := (allocOnce_oom_thrown r e this).1
      simp [ha] at this
    · rfl
    · rfl
  · intro e s s' _ hi hs
    obtain ⟨_, _, _, ht, _, rfl⟩ := loopBody_cont hs
    intro hm
    have : oomCall ∈ (allocOnce r e).2.2 := by simpa [hi] using hm
    have := (allocOnce_oom_thrown r e this).2
    simp [ht] at this

/-! ## Clause 2 — never `out_of_memory` when `allow_oom_call = false`

Full statement (FALSE on the pinned tree, see `F5_witness`):
`∀ r fuel env, r.opts.allowOomCall = false → oomCall ∉ (slowPathOld r fuel env).trace`. -/

/-- The environment of the F5 witness: the heap is full of live data, every `poll` asks for a GC,
and from the second GC on the collection is an emergency collection that frees nothing. -/
def envF5 : Env := fun _ =>
  { localHit := false, pollGc := true, pagesOk := false, emergCheck := true, succSeen := false,
    emergRecord := true }

/-- **F5 was real on the pinned tree.** `allow_oom_call = false` (at a safepoint, not obviously too
large), and the loop calls `Collection::out_of_memory` in its second iteration
(allocator.rs, emergency branch: `self.out_of_memory(tls)` is not guarded by the option). -/
def reqF5 : Req :=
  { opts := { allowOvercommit := false, atSafepoint := true, allowOomCall := false }, obvious := false }

theorem F5_witness :
    slowPathOld reqF5 2 envF5
      = .done .null [gcRequested, blockForGc, gcRequested, blockForGc, oomCall] := by decide

/-- The negation of the full clause 2, as a statement. -/
theorem old_no_oom_call_when_disallowed_FAILS :
    ¬ (∀ (r : Req) (fuel : Nat) (env : Env), r.opts.allowOomCall = false →
        oomCall ∉ (slowPathOld r fuel env).trace) := by
  intro h
  have := h reqF5 2 envF5 rfl
  rw [F5_witness] at this
  simp [Outcome.trace] at this

/-- **Clause 2 (partial).** True part on the pinned tree; extra hypothesis: the emergency branch never
sees "emergency collection and no allocation success" (`fail_with_oom` is never true). -/
theorem old_no_oom_call_when_disallowed_partial (r : Req) (fuel : Nat) (env : Env)
    (h : r.opts.allowOomCall = false)
    (hem : ∀ n, (env n).emergCheck = false ∨ (env n).succSeen = true) :
    oomCall ∉ (slowPathOld r fuel env).trace := by
  refine runOld_induct r (fun e => e.emergCheck = false ∨ e.succSeen = true)
    (fun s => oomCall ∉ s.trace) (fun o => oomCall ∉ o.trace) ?_ ?_ ?_ fuel env State.init hem
    (by simp [State.init])
  · intro s hi; exact hi
  · intro e s res tr he hi hs
    have hno := allocOnceOld_disallowed r e h
    rcases loopBodyOld_ret hs with ⟨_, _, rfl⟩ | ⟨_, _, rfl, _⟩ | ⟨_, _, _, _, _, _, _, h1, h2⟩
    · simp [Outcome.trace, hi, hno]
    · simp [Outcome.trace, hi, hno]
    · rcases he with he | he
      · simp [h1] at he
      · simp [h2] at he
  · intro e s s' _ hi hs
    have hno := allocOnceOld_disallowed r e h
    obtain ⟨_, _, _, _, _, rfl⟩ := loopBodyOld_cont hs
    simp [hi, hno]

/-- **Clause 2, this tree (full).** -/
theorem no_oom_call_when_disallowed (r : Req) (fuel : Nat) (env : Env)
    (h : r.opts.allowOomCall = false) : oomCall ∉ (slowPath r fuel env).trace := by
  refine run_induct r (fun _ => True)
    (fun s => oomCall ∉ s.trace) (fun o => oomCall ∉ o.trace) ?_ ?_ ?_ fuel env State.init
    (fun _ => trivial) (by simp [State.init])
  · intro s hi; exact hi
  · intro e s res tr _ hi hs
    have hno := allocOnce_disallowed r e h
    rcases loopBody_ret hs with ⟨_, _, rfl⟩ | ⟨_, _, rfl, _⟩ | ⟨_, _, rfl, _⟩
    · simp [Outcome.trace, hi, hno]
    · simp [Outcome.trace, hi, hno]
    · simp [Outcome.trace, hi, hno, h]
  · intro e s s' _ hi hs
    have hno := allocOnce_disallowed r e h
    obtain ⟨_, _, _, _, _, rfl⟩ := loopBody_cont hs
    simp [hi, hno]

/-! ## Clause 1' — requests larger than the maximum heap fail immediately

Full statement (FALSE on the pinned tree, see `F6_witness_diverges`):
`∀ r fuel env, r.obvious = true → ∃ tr, slowPathOld r (fuel+1) env = .done .null tr`. -/

/-- **Obviously too large (partial).** With `allow_oom_call` or off a safepoint the request
fails in its first iteration, without any collection, calling `out_of_memory` iff allowed. -/
theorem old_obvious_fails_immediately_partial (r : Req) (fuel : Nat) (env : Env) (h : r.obvious = true)
    (hc : r.opts.allowOomCall = true ∨ r.opts.atSafepoint = false) :
    slowPathOld r (fuel + 1) env = .done .null (if r.opts.allowOomCall then [oomCall] else []) := by
  unfold slowPathOld runOld iterOld
  rw [allocOnceOld_of_obvious r _ h]
  unfold loopBodyOld
  rcases hc with hc | hc
  · cases hs : r.opts.atSafepoint <;> simp [hc, State.init]
  · simp [hc, State.init]

/-- **F6 was real on the pinned tree**, for EVERY environment that does not report an emergency
collection: an obviously-too-large request with `allow_oom_call = false` at a safepoint never
leaves the loop, never blocks and never calls anything. -/
theorem F6_diverges (r : Req) (h : r.obvious = true) (hc : r.opts.allowOomCall = false)
    (hs : r.opts.atSafepoint = true) (env : Env) (he : ∀ n, (env n).emergRecord = false) :
    ∀ fuel, slowPathOld r fuel env = .outOfFuel [] := by
  intro fuel
  refine runOld_induct r (fun e => e.emergRecord = false)
    (fun s => s = State.init) (fun o => o = .outOfFuel []) ?_ ?_ ?_ fuel env State.init he rfl
  · intro s hi; subst hi; rfl
  · intro e s res tr _ hi hr
    subst hi
    unfold iterOld at hr; rw [allocOnceOld_of_obvious r e h] at hr
    simp [loopBodyOld, hc, hs, State.init] at hr
  · intro e s s' hee hi hr
    subst hi
    unfold iterOld at hr; rw [allocOnceOld_of_obvious r e h] at hr
    simp [loopBodyOld, hc, hs, State.init] at hr
    rw [← hr, hee]; rfl

/-- The environment of the F6 witness: nothing ever happens (no GC, no emergency). -/
def envQuiet : Env := fun _ =>
  { localHit := false, pollGc := false, pagesOk := true, emergCheck := false, succSeen := true,
    emergRecord := false }

/-- The request of DESIGN §7 F6 / HX_GC.md F-F: size > max heap, `{overcommit=0, safepoint=1,
oomcall=0}`. -/
def reqF6 : Req :=
  { opts := { allowOvercommit := false, atSafepoint := true, allowOomCall := false }, obvious := true }

/-- **F6 witness**: for every fuel the outcome is `outOfFuel` (with an empty trace). -/
theorem F6_witness_diverges : ∀ fuel, slowPathOld reqF6 fuel envQuiet = .outOfFuel [] :=
  F6_diverges reqF6 rfl rfl rfl envQuiet (fun _ => rfl)

/-- The negation of "obviously too large requests fail immediately", as a statement. -/
theorem old_obvious_fails_immediately_FAILS :
    ¬ (∀ (r : Req) (fuel : Nat) (env : Env), r.obvious = true →
        ∃ tr, slowPathOld r (fuel + 1) env = .done .null tr) := by
  intro h
  obtain ⟨tr, ht⟩ := h reqF6 0 envQuiet rfl
  rw [F6_witness_diverges] at ht
  cases ht

/-- **Obviously too large, this tree (full).** Fails in the first iteration, for all options. -/
theorem obvious_fails_immediately (r : Req) (fuel : Nat) (env : Env) (h : r.obvious = true) :
    slowPath r (fuel + 1) env = .done .null (if r.opts.allowOomCall then [oomCall] else []) := by
  unfold slowPath run iter
  rw [allocOnce_of_obvious r _ h]
  unfold loopBody
  cases hs : r.opts.atSafepoint <;> simp [State.init]

/-! ## Clause 4 — `at_safepoint = false` never blocks (and returns after one attempt) -/

/-- **Clause 4 (full).** -/
theorem old_no_block_when_not_safepoint (r : Req) (fuel : Nat) (env : Env)
    (h : r.opts.atSafepoint = false) : blockForGc ∉ (slowPathOld r fuel env).trace := by
  refine runOld_induct r (fun _ => True) (fun s => blockForGc ∉ s.trace)
    (fun o => blockForGc ∉ o.trace) ?_ ?_ ?_ fuel env State.init (fun _ => trivial)
    (by simp [State.init])
  · intro s hi; exact hi
  · intro e s res tr _ hi hs
    have hno := allocOnceOld_noblock r e h
    rcases loopBodyOld_ret hs with ⟨_, _, rfl⟩ | ⟨_, _, rfl, _⟩ | ⟨_, _, _, hsp, _⟩
    · simp [Outcome.trace, hi, hno]
    · simp [Outcome.trace, hi, hno]
    · simp [h] at hsp
  · intro e s s' _ hi hs
    obtain ⟨_, hsp, _⟩ := loopBodyOld_cont hs
    simp [h] at hsp

/-- Off a safepoint the slow path makes exactly one attempt. -/
theorem old_not_safepoint_one_attempt (r : Req) (fuel : Nat) (env : Env)
    (h : r.opts.atSafepoint = false) : (slowPathOld r (fuel + 1) env).isDone = true := by
  unfold slowPathOld runOld
  cases hs : iterOld r (env 0) State.init with
  | ret res tr => rfl
  | cont s' =>
    obtain ⟨_, hsp, _⟩ := loopBodyOld_cont hs
    simp [h] at hsp

/-- **Clause 4, this tree (full).** -/
theorem no_block_when_not_safepoint (r : Req) (fuel : Nat) (env : Env)
    (h : r.opts.atSafepoint = false) : blockForGc ∉ (slowPath r fuel env).trace := by
  refine run_induct r (fun _ => True) (fun s => blockForGc ∉ s.trace)
    (fun o => blockForGc ∉ o.trace) ?_ ?_ ?_ fuel env State.init (fun _ => trivial)
    (by simp [State.init])
  · intro s hi; exact hi
  · intro e s res tr _ hi hs
    have hno := allocOnce_noblock r e h
    rcases loopBody_ret hs with ⟨_, _, rfl⟩ | ⟨_, _, rfl, _⟩ | ⟨_, _, _, hsp, _⟩
    · simp [Outcome.trace, hi, hno]
    · simp [Outcome.trace, hi, hno]
    · simp [h] at hsp
  · intro e s s' _ hi hs
    obtain ⟨_, hsp, _⟩ := loopBody_cont hs
    simp [h] at hsp

/-- Off a safepoint the slow path makes exactly one attempt (this tree). -/
theorem not_safepoint_one_attempt (r : Req) (fuel : Nat) (env : Env)
    (h : r.opts.atSafepoint = false) : (slowPath r (fuel + 1) env).isDone = true := by
  unfold slowPath run
  cases hs : iter r (env 0) State.init with
  | ret res tr => rfl
  | cont s' =>
    obtain ⟨_, hsp, _⟩ := loopBody_cont hs
    simp [h] at hsp

/-! ## Clause 5 — `allow_overcommit` gets pages without blocking

What the code promises (`Space::acquire`): with `allow_overcommit` the answer of `poll` does not
stop the request from taking pages. It does NOT promise success when the page resource itself
cannot deliver (`get_new_pages_and_initialize` returns `None`: address space of the space
exhausted — then the request behaves like a normal one and may block), nor for a single
request larger than the whole heap (`handle_obvious_oom_request` runs before `acquire`).
Both are explicit hypotheses. -/

/-- **Clause 5 (full, as promised by the code).** -/
theorem old_overcommit_gets_pages (r : Req) (fuel : Nat) (env : Env)
    (hc : r.opts.allowOvercommit = true) (ho : r.obvious = false) (hp : (env 0).pagesOk = true) :
    ∃ tr, slowPathOld r (fuel + 1) env = .done .addr tr ∧ blockForGc ∉ tr ∧ oomCall ∉ tr := by
  obtain ⟨hok, hnb⟩ := allocOnceOld_overcommit r (env 0) ho hc hp
  have hno := (allocOnceOld_nonobvious r (env 0) ho).2.1
  refine ⟨(allocOnceOld r (env 0)).2.2, ?_, hnb, hno⟩
  unfold slowPathOld runOld iterOld loopBodyOld
  simp [hok, State.init]

/-- **Clause 5, this tree (full).** -/
theorem overcommit_gets_pages (r : Req) (fuel : Nat) (env : Env)
    (hc : r.opts.allowOvercommit = true) (ho : r.obvious = false) (hp : (env 0).pagesOk = true) :
    ∃ tr, slowPath r (fuel + 1) env = .done .addr tr ∧ blockForGc ∉ tr ∧ oomCall ∉ tr := by
  obtain ⟨hok, hnb⟩ := allocOnceOld_overcommit r (env 0) ho hc hp
  have hno := (allocOnceOld_nonobvious r (env 0) ho).2.1
  refine ⟨(allocOnceOld r (env 0)).2.2, ?_, hnb, hno⟩
  unfold slowPath run iter loopBody
  rw [allocOnce_of_not_obvious r _ ho]
  simp [hok, State.init]

/-! ## Termination of the loop of the pinned tree

Environment assumption ("every blocking GC returns" is built in: `block_for_gc` is an event, the
environment always answers; and) **after finitely many GCs either memory is found or the emergency
flag is raised**: there is an iteration `n` in which `alloc_slow_once` succeeds, or in which the
collection that just ran is reported as an emergency collection and the next iteration sees the
flag still set with no allocation success in between. (`GlobalState::set_collection_kind` raises
the flag at the second consecutive collection without allocation success when the last collection
was exhaustive and the heap cannot grow.) -/

/-- `alloc_slow_once` succeeds on these answers. -/
def Succeeds (r : Req) (e : EnvRec) : Prop := (allocOnce r e).1 = true

/-- Iteration `n` makes progress. -/
def Progress (r : Req) (env : Env) (n : Nat) : Prop :=
  Succeeds r (env n) ∨
  ((env n).emergRecord = true ∧ (env (n + 1)).emergCheck = true ∧ (env (n + 1)).succSeen = false)

theorem run_succ (r : Req) (f : Nat) (env : Env) (s : State) :
    run r (f + 1) env s =
      match iter r (env 0) s with
      | .ret res tr => .done res tr
      | .cont s' => run r f env.tail s' := rfl

theorem run_done_of_progress (r : Req) :
    ∀ (d : Nat) (env : Env) (s : State), Progress r env d →
      ∀ fuel, d + 2 ≤ fuel → (run r fuel env s).isDone = true := by
  intro d
  induction d with
  | zero =>
    intro env s hp fuel hf
    obtain ⟨f, rfl⟩ : ∃ f, fuel = f + 2 := ⟨fuel - 2, by omega⟩
    rw [run_succ]
    cases hs : iter r (env 0) s with
    | ret res tr => rfl
    | cont s' =>
      show (run r (f + 1) env.tail s').isDone = true
      rw [run_succ]
      obtain ⟨ha, _, _, _, _, hs'⟩ := loopBody_cont hs
      rcases hp with hp | ⟨h1, h2, h3⟩
      · simp [Succeeds, ha] at hp
      · cases hs2 : iter r (env.tail 0) s' with
        | ret res tr => rfl
        | cont s'' =>
          obtain ⟨_, _, _, _, hne, _⟩ := loopBody_cont hs2
          refine absurd ⟨?_, h2, h3⟩ hne
          rw [hs']; exact h1
  | succ d ih =>
    intro env s hp fuel hf
    obtain ⟨f, rfl⟩ : ∃ f, fuel = f + 1 := ⟨fuel - 1, by omega⟩
    rw [run_succ]
    cases hs : iter r (env 0) s with
    | ret res tr => rfl
    | cont s' =>
      refine ih env.tail s' ?_ f (by omega)
      rcases hp with hp | hp
      · exact .inl hp
      · exact .inr hp

/-- **Termination of the loop of the pinned tree** under the GC-progress assumption: with progress at
iteration `n` the request returns within `n + 2` iterations. -/
theorem terminates (r : Req) (env : Env) (n : Nat) (hp : Progress r env n) :
    ∀ fuel, n + 2 ≤ fuel → (slowPath r fuel env).isDone = true :=
  fun fuel hf => run_done_of_progress r n env State.init hp fuel hf

/-- The same assumption does NOT make the loop of the pinned tree terminate: in `F6_witness_diverges`
no progress is possible (the request is obviously too large), and with an emergency collection
reported the loop of the pinned tree leaves only by calling `out_of_memory` against the option. -/
theorem terminates_obvious (r : Req) (env : Env) (h : r.obvious = true) :
    ∀ fuel, 1 ≤ fuel → (slowPath r fuel env).isDone = true := by
  intro fuel hf
  obtain ⟨f, rfl⟩ : ∃ f, fuel = f + 1 := ⟨fuel - 1, by omega⟩
  rw [obvious_fails_immediately r f env h]; rfl

/-! ## The hypotheses are satisfiable; concrete runs -/

/-- Default options, heap full: two GCs (the second an emergency collection), then
`out_of_memory` and null — clause 1 is not vacuous. -/
example : slowPathOld { opts := Opts.default, obvious := false } 5 envF5
    = .done .null [gcRequested, blockForGc, gcRequested, blockForGc, oomCall] := by decide

/-- Default options, a GC frees memory: blocked once, then pages are granted. -/
example : slowPathOld { opts := Opts.default, obvious := false } 5
    (Env.ofList [{ localHit := false, pollGc := true, pagesOk := true, emergCheck := false,
                   succSeen := true, emergRecord := false }]
      { localHit := false, pollGc := false, pagesOk := true, emergCheck := false, succSeen := true,
        emergRecord := false })
    = .done .addr [gcRequested, blockForGc, pagesGranted] := by decide

/-- Overcommit does not help when the page resource itself fails: forced GC, blocking, OOM. -/
example : slowPathOld { opts := { allowOvercommit := true, atSafepoint := true, allowOomCall := true }, obvious := false } 2 envF5
    = .done .null [gcRequested, forcedGc, blockForGc, gcRequested, forcedGc, blockForGc, oomCall] := by
  decide

/-- Overcommit: `poll` asks for a GC, pages are taken anyway, no blocking. -/
example : slowPathOld { opts := { allowOvercommit := true, atSafepoint := false, allowOomCall := false }, obvious := false } 1
    (fun _ => { localHit := false, pollGc := true, pagesOk := true, emergCheck := true,
                succSeen := false, emergRecord := true })
    = .done .addr [gcRequested, pagesGranted] := by decide

/-- Off a safepoint, heap full: null, `poll` requested a GC, nobody blocked. -/
example : slowPathOld { opts := { allowOvercommit := false, atSafepoint := false, allowOomCall := true }, obvious := false } 3 envF5 = .done .null [gcRequested] := by decide

/-- Obviously too large with default options: `out_of_memory`, null, no GC. -/
example : slowPathOld { opts := Opts.default, obvious := true } 1 envQuiet = .done .null [oomCall] := by
  decide

/-- The loop of this tree on the two witnesses. -/
example : slowPath reqF6 1 envQuiet = .done .null [] := by decide
example : slowPath { opts := { allowOvercommit := false, atSafepoint := true, allowOomCall := false }, obvious := false } 2 envF5
    = .done .null [gcRequested, blockForGc, gcRequested, blockForGc] := by decide

/-- `Progress` is satisfiable by the F5 environment (emergency flag raised at iteration 0). -/
example : Progress reqF6 envF5 0 := .inr ⟨rfl, rfl, rfl⟩

/-- The hypothesis of `old_no_oom_call_when_disallowed_partial` is satisfiable by an environment in
which GCs do happen (and the runOld then blocks forever: the GC-progress assumption fails). -/
def envNoFail : Env := fun _ =>
  { localHit := false, pollGc := true, pagesOk := false, emergCheck := true, succSeen := true,
    emergRecord := true }
example : ∀ n, (envNoFail n).emergCheck = false ∨ (envNoFail n).succSeen = true := fun _ => .inr rfl
example : slowPathOld reqF5 2 envNoFail = .outOfFuel [gcRequested, blockForGc, gcRequested, blockForGc] := by
  decide

end Mmtk.OOM
