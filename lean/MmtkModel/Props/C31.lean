import MmtkModel.Model.Resolve
import MmtkModel.Props.C32
/-!
# C31 (unit part) — Address-to-space resolution is total and exact

`sft_total`, `sft_exact`: the SFT space map. `descriptor_total` was **false** for the pinned `Map64`
(repaired by the `fix:` commit 8903e0b; the last section is the lookup of this tree)
(mmtk-core defect `map64:descriptor-index-oob`, DESIGN §7-F8): witnesses by `decide`, the true part
as `descriptor_total_partial` (with the exact failure set), and the repaired lookup proved total
and conservative in the last section.
-/
namespace Mmtk.Resolve
open Mmtk.Layout

theorem sftIndex_eq (l : VMLayout) (a : Nat) :
    sftIndex l a = (a / 2 ^ l.logSpaceExtent) % 2 ^ 5 := by
  unfold sftIndex addressMask
  exact Mmtk.Desc.and_mask_shift a 5 l.logSpaceExtent

/-- **C31 (SFT total).** For every address (any `Nat`, so in particular every 64-bit word) and
every layout, the SFT space-map index lies inside the 32-entry table: the lookup cannot go out of
bounds. -/
theorem sft_total (l : VMLayout) (a : Nat) : sftIndex l a < 32 := by
  rw [sftIndex_eq]; exact Nat.mod_lt _ (by decide)

/-- The table really has 32 entries under the default layout. -/
theorem sft_table_size : sftTableSize layout64 = 32 := by decide

/-- **C31 (SFT exact).** `get_checked(a)` returns table entry `i` exactly when `a` lies in the
extent `[i·2^k, (i+1)·2^k)` of one of the spaces `1 … 15`, and the empty SFT for every other
address (below the first space, at or above the end of space 15 — in particular the whole range
`[16·2^k, 2^64)`). -/
theorem sft_exact (l : VMLayout) (a : Nat) :
    (∀ i, 1 ≤ i → i ≤ 15 → i * 2 ^ l.logSpaceExtent ≤ a → a < (i + 1) * 2 ^ l.logSpaceExtent →
      sftGetChecked l a = some i) ∧
    ((a < 2 ^ l.logSpaceExtent ∨ 16 * 2 ^ l.logSpaceExtent ≤ a) → sftGetChecked l a = none) := by
  generalize hk : l.logSpaceExtent = k
  have hp : 0 < 2 ^ k := Nat.two_pow_pos k
  have hstart : sftStart l = 2 ^ k := by
    unfold sftStart; rw [hk, Nat.shiftLeft_eq, Nat.one_mul]
  have hend : sftEnd l = 16 * 2 ^ k := by
    unfold sftEnd maxSpaces; rw [hk, Nat.shiftLeft_eq]; omega
  constructor
  · intro i h1 h15 hlo hhi
    have hdiv : a / 2 ^ k = i := by
      apply Nat.div_eq_of_lt_le
      · exact hlo
      · exact hhi
    have hhas : sftHasEntry l a = true := by
      unfold sftHasEntry; rw [hstart, hend]
      have h1' : 1 * 2 ^ k ≤ i * 2 ^ k := Nat.mul_le_mul_right _ h1
      have h2' : (i + 1) * 2 ^ k ≤ 16 * 2 ^ k := Nat.mul_le_mul_right _ (by omega)
      simp only [Bool.and_eq_true, decide_eq_true_eq]; omega
    unfold sftGetChecked
    rw [hhas, if_pos rfl, sftIndex_eq, hk, hdiv]
    congr 1; omega
  · intro h
    have hhas : sftHasEntry l a = false := by
      unfold sftHasEntry; rw [hstart, hend]
      rcases h with h | h
      · have : ¬ 2 ^ k ≤ a := by omega
        simp [this]
      · have : ¬ a < 16 * 2 ^ k := by omega
        simp [this]
    unfold sftGetChecked; rw [hhas]; rfl

/-! ## Map64: `descriptor_total` does NOT hold (genuine mmtk-core defect) -/

/-- Full statement that fails:
`∀ dm a, dm.length = 16 → ∃ d, map64Descriptor layout64 dm a = .desc d`.
Witness: the first address of the 17th space slot, `0x2000_0000_0000 ≤ heap_end`. -/
theorem descriptor_total_fails :
    map64Descriptor layout64 (List.replicate 16 0) 0x200000000000 = .oob ∧
    map64Descriptor layout64 (List.replicate 16 0) 0x220000000000 = .oob ∧
    (0x200000000000 ≤ layout64.heapEnd ∧ layout64.heapEnd = 0x220000000000) := by decide

/-- Where exactly the lookup goes out of bounds (general layout, any map length `n`):
iff `n · 2^k ≤ a ≤ heap_end`. -/
theorem descriptor_oob_iff (l : VMLayout) (dm : List Nat) (a : Nat) :
    map64Descriptor l dm a = .oob ↔ (dm.length * 2 ^ l.logSpaceExtent ≤ a ∧ a ≤ l.heapEnd) := by
  have hp : 0 < 2 ^ l.logSpaceExtent := Nat.two_pow_pos _
  unfold map64Descriptor map64SpaceIndex
  by_cases h : a > l.heapEnd
  · simp only [h, if_true]
    constructor
    · intro e; cases e
    · intro e; omega
  · simp only [h, if_false, Nat.shiftRight_eq_div_pow]
    by_cases hi : a / 2 ^ l.logSpaceExtent < dm.length
    · have : dm[a / 2 ^ l.logSpaceExtent]? = some dm[a / 2 ^ l.logSpaceExtent] := List.getElem?_eq_getElem hi
      rw [this]
      have : a < dm.length * 2 ^ l.logSpaceExtent := (Nat.div_lt_iff_lt_mul hp).1 hi
      constructor
      · intro e; cases e
      · intro e; omega
    · have : dm[a / 2 ^ l.logSpaceExtent]? = none := List.getElem?_eq_none (by omega)
      rw [this]
      have : dm.length * 2 ^ l.logSpaceExtent ≤ a := by
        apply Nat.le_of_not_lt; intro hlt; exact hi ((Nat.div_lt_iff_lt_mul hp).2 hlt)
      constructor
      · intro _; omega
      · intro _; rfl

/-- **C31 (descriptor total — the part that holds).** Every address below the 17th slot
(`a < 16·2^41`) or above `heap_end` resolves without panicking, whatever the map holds. -/
theorem descriptor_total_partial (dm : List Nat) (hlen : dm.length = 16) (a : Nat)
    (h : a < 16 * 2 ^ layout64.logSpaceExtent ∨ a > layout64.heapEnd) :
    ∃ d, map64Descriptor layout64 dm a = .desc d := by
  have hne : map64Descriptor layout64 dm a ≠ .oob := by
    rw [Ne, descriptor_oob_iff, hlen]; omega
  cases hm : map64Descriptor layout64 dm a with
  | desc d => exact ⟨d, rfl⟩
  | oob => exact absurd hm hne

/-! ## after the fix: bounds-checked lookup (`descriptor_map.get(index)…unwrap_or(UNINITIALIZED)`) -/

/-- The repaired lookup is total by construction (it returns a descriptor for every address) and
conservative: wherever the original returns a descriptor, the repaired one returns the same; in
the former panic range it returns `UNINITIALIZED`. -/
theorem descriptor_total_fixed (l : VMLayout) (dm : List Nat) (a : Nat) :
    (∀ d, map64Descriptor l dm a = .desc d → map64DescriptorFixed l dm a = d) ∧
    (map64Descriptor l dm a = .oob → map64DescriptorFixed l dm a = 0) := by
  unfold map64Descriptor map64DescriptorFixed
  cases map64SpaceIndex l a with
  | none => simp
  | some i =>
    simp only
    cases hd : dm[i]? with
    | none => simp [List.getD, hd]
    | some d => simp [List.getD, hd]

/-- The repaired lookup agrees with the SFT map: inside the extent of space `i ∈ 1…15` it returns
that space's descriptor. -/
theorem descriptor_fixed_exact (dm : List Nat) (a i : Nat)
    (h1 : i * 2 ^ layout64.logSpaceExtent ≤ a) (h2 : a < (i + 1) * 2 ^ layout64.logSpaceExtent)
    (hi : i ≤ 15) : map64DescriptorFixed layout64 dm a = dm.getD i 0 := by
  have hp : 0 < 2 ^ layout64.logSpaceExtent := Nat.two_pow_pos _
  have hdiv : a / 2 ^ layout64.logSpaceExtent = i := by
    apply Nat.div_eq_of_lt_le
    · exact h1
    · exact h2
  have hle : ¬ a > layout64.heapEnd := by
    have : (i + 1) * 2 ^ layout64.logSpaceExtent ≤ 16 * 2 ^ layout64.logSpaceExtent :=
      Nat.mul_le_mul_right _ (by omega)
    have : 16 * 2 ^ layout64.logSpaceExtent ≤ layout64.heapEnd := by decide
    omega
  unfold map64DescriptorFixed map64SpaceIndex
  simp only [hle, if_false, Nat.shiftRight_eq_div_pow, hdiv]

/-- `Map32::get_descriptor_for_address` is total and exact for every address. -/
theorem map32_descriptor_exact (dm : Nat → Nat) (n a : Nat) :
    map32Descriptor dm n a = if a / 2 ^ 22 < n then dm (a / 2 ^ 22) else 0 := by
  unfold map32Descriptor logBytesInChunk
  simp only [Nat.shiftRight_eq_div_pow]

example : sftGetChecked layout64 0x20000000008 = some 1 := by decide
example : sftGetChecked layout64 0x1ffffffffff8 = some 15 := by decide
example : sftGetChecked layout64 0x200000000000 = none := by decide

end Mmtk.Resolve
