import MmtkModel.Props.C06
import MmtkModel.Model.WeakMon
/-!
# C06 — the monitor's collection pipeline `gcStages` meets the stage specifications of `Props/C06.lean`

`gcStages` (Model/WeakMon.lean) is what the `gcw` monitor runs at every pause: the theorems of `Props/C06.lean`
are about one `scanRefs` / one `FinState.scan`; here they are lifted to the pipeline.
-/
namespace Mmtk.WeakMon
open Mmtk Mmtk.RefProc

theorem scan_table_nodup (live : Nat → Bool) (s : RefState) (h : s.table.Nodup) : (scanRefs live s).table.Nodup :=
  (enqueued_once live s h 0).2.2

/-- the tables stay duplicate-free (the hypothesis of every theorem about `scanRefs`) -/
theorem gcStages_tables_nodup (i : GcIn) (w : WState) (hs : w.soft.Nodup) (hw : w.weak.Nodup) (hp : w.phantom.Nodup) :
    (gcStages i w).w.soft.Nodup ∧ (gcStages i w).w.weak.Nodup ∧ (gcStages i w).w.phantom.Nodup := by
  refine ⟨?_, ?_, ?_⟩
  · exact scan_table_nodup _ _ (scan_table_nodup _ _ hs)
  · exact scan_table_nodup _ _ (scan_table_nodup _ _ hw)
  · exact scan_table_nodup _ _ hp

/-- the finalizable processor of the pipeline is `FinState.scan` on the liveness of the weak stage: by
`fin_scan_spec` a registration is ready afterwards iff its object is not live at that point -/
theorem gcStages_fin_spec (i : GcIn) (w : WState) : (gcStages i w).w.fin = w.fin.scan (live1 i w) := rfl

theorem enq_mono (live : Nat → Bool) (s : RefState) (h : s.table.Nodup) (r : Nat) (hr : r ∈ s.enqueued) :
    r ∈ (scanRefs live s).enqueued := by
  rw [(scanRefs_closed live s h).2.1]
  exact List.mem_append_left _ hr

/-- **weak stage of the pipeline**: a registered weak reference (not also registered as a soft one) that is live
when the weak table is scanned and whose referent is not live at that point is enqueued in this pause, leaves the
table, and its referent field is among the cleared ones. -/
theorem gcStages_weak_spec (i : GcIn) (w : WState) (hs : w.soft.Nodup) (hw : w.weak.Nodup) (r o : Nat)
    (hr : r ∈ w.weak) (hns : r ∉ w.soft) (hl : live1 i w r = true) (ho : referentOf i.heap r = some o)
    (hd : live1 i w o = false) :
    r ∈ (gcStages i w).enqNow ∧ r ∉ (gcStages i w).w.weak ∧ (weak1 i w).referent r = none := by
  have href : (soft1 i w).referent r = some o := by
    have := scan_frame (live1 i w) (softState i w) hs r hns
    simpa [soft1, softState, ho] using this
  have h1 := (weak_cleared_iff (live1 i w) { table := w.weak, referent := (soft1 i w).referent, enqueued := [] } hw r o hr hl href).1 hd
  have hnd1 : (weak1 i w).table.Nodup := scan_table_nodup _ _ hw
  refine ⟨?_, ?_, h1.1⟩
  · have : r ∈ (weak2 i w).enqueued :=
      enq_mono (live2 i w) { weak1 i w with referent := (soft2 i w).referent } hnd1 r h1.2.1
    simp only [gcStages, List.mem_append]
    exact Or.inl (Or.inr this)
  · intro hm
    have hsub : r ∈ (weak1 i w).table := by
      have hc := (scanRefs_closed (live2 i w) { weak1 i w with referent := (soft2 i w).referent } hnd1).1
      have : r ∈ (weak2 i w).table := hm
      rw [weak2, hc] at this
      exact (List.mem_filter.1 this).1
    exact h1.2.2 hsub

/-- the hypotheses are satisfiable: one weak reference 1 → 0, nothing rooted but the reference object -/
def demoHeap : Heap.Heap :=
  { objs := #[{ id := 0, size := 32, sem := .default, nfields := 0, fields := [] },
              { id := 1, size := 40, sem := .default, nfields := 1, fields := [some 0], isRef := true }],
    roots := [(0, 1)] }
def demoIn : GcIn := { heap := demoHeap, seeds := [1], immortal := fun _ => false }
example : (gcStages demoIn { weak := [1] }).enqNow = [1] ∧ (gcStages demoIn { weak := [1] }).cleared = [1] ∧
    (gcStages demoIn { weak := [1] }).w.weak = [] := by decide
example : (gcStages demoIn { soft := [1] }).enqNow = [] ∧ (gcStages demoIn { soft := [1] }).w.soft = [1] := by decide

/-! ## The liveness test of the large-object space (defect `gc:los-nursery-weak-dangling`)

`live` in `scanRefs` / `FinState.scan` is `ObjectReference::is_live`, i.e. the policy's `is_live`. The theorems above
need it to be the survivor set of the collection. For `LargeObjectSpace` (src/policy/largeobjectspace.rs) that
holds in every full-heap collection and for mature objects, but NOT for an untraced young object in a nursery
collection: `is_live` says `true` and `release` frees the object. Full statement (fails on the real code, witness
below) `∀ fullHeap ms b traced, b.mark = ms → isLiveOld … = !swept …`; after the `fix:` commit the full statement is
`isLive_iff_survives`. -/
namespace Los

/-- the per-object byte `LOCAL_LOS_MARK_NURSERY_SPEC`: value of `MARK_BIT`, `NURSERY_BIT` -/
structure Bits where
  mark : Bool
  nursery : Bool
  deriving DecidableEq, Repr

/-- `initialize_object_metadata(alloc = true)`: `mark_state | NURSERY_BIT` -/
def init (markState : Bool) : Bits := ⟨markState, true⟩
/-- `is_live` on the pinned tree = `test_mark_bit(object, self.mark_state)` (line 40) -/
def isLiveOld (markState : Bool) (b : Bits) : Bool := b.mark == markState
/-- `is_live` on this tree (after the `fix:` commit): in a nursery GC a young object is live only once
tracing has cleared its nursery bit -/
def isLive (inNurseryGc markState : Bool) (b : Bits) : Bool := b.mark == markState && !(inNurseryGc && b.nursery)
/-- `prepare(full_heap)`: the mark state flips only in a full-heap collection -/
def prepare (fullHeap markState : Bool) : Bool := if fullHeap then !markState else markState
/-- `trace_object`: in a nursery GC only nursery objects are (test-and-)marked; marking clears the nursery bit -/
def trace (inNurseryGc markState : Bool) (b : Bits) : Bits :=
  if !inNurseryGc || b.nursery then ⟨markState, false⟩ else b
/-- `release(full_heap)`: `sweep_large_pages(true)` frees what is still in the collection nursery (never traced),
`sweep_large_pages(false)` (full heap only) what is still in from-space -/
def swept (fullHeap markState : Bool) (b : Bits) : Bool := b.nursery || (fullHeap && b.mark != markState)

/-- state of an object at the end of the closure: traced or not -/
def after (fullHeap ms : Bool) (b : Bits) (traced : Bool) : Bits :=
  if traced then trace (!fullHeap) (prepare fullHeap ms) b else b

/-- **witness** (decide), pinned tree: a young, unreachable large object in a nursery collection was `live` for the
reference and finalizable processors and was freed by the same collection (`gc:los-nursery-weak-dangling`). -/
theorem young_untraced_live_but_swept :
    isLiveOld (prepare false true) (after false true (init true) false) = true ∧
    swept false (prepare false true) (after false true (init true) false) = true := by decide

/-- pinned tree, **partial**: the old `is_live` was exactly "not freed by this collection" in a full-heap collection,
for mature objects, and for traced objects — everything but the witness' case. -/
theorem isLive_iff_survives_partial (fullHeap ms : Bool) (b : Bits) (traced : Bool) (hb : b.mark = ms)
    (h : fullHeap = true ∨ b.nursery = false ∨ traced = true) :
    isLiveOld (prepare fullHeap ms) (after fullHeap ms b traced) = !swept fullHeap (prepare fullHeap ms) (after fullHeap ms b traced) := by
  obtain ⟨m, n⟩ := b
  simp only at hb
  subst hb
  cases fullHeap <;> cases m <;> cases n <;> cases traced <;> simp_all [isLiveOld, prepare, after, trace, swept]

/-- **this tree (full)**: `is_live` is exactly "not freed by this collection", in nursery and full-heap collections, for
young and mature, traced and untraced objects. (The same statement over whole histories of the real treadmill sets is
`Mmtk.LOS.los_is_live_iff_not_swept` in Props/C36.lean.) -/
theorem isLive_iff_survives (fullHeap ms : Bool) (b : Bits) (traced : Bool) (hb : b.mark = ms) :
    isLive (!fullHeap) (prepare fullHeap ms) (after fullHeap ms b traced)
      = !swept fullHeap (prepare fullHeap ms) (after fullHeap ms b traced) := by
  obtain ⟨m, n⟩ := b
  simp only at hb
  subst hb
  cases fullHeap <;> cases m <;> cases n <;> cases traced <;> simp_all [isLive, prepare, after, trace, swept]

end Los

end Mmtk.WeakMon
