import MmtkModel.Lemmas.TraceStep
/-!
# C01 (algorithm) — the tracing closure preserves the reachable graph, for EVERY schedule

Model: `Model/Trace.lean` (transcribed from `plan/tracing/gc_work/closure.rs` and the policies'
`trace_object`).  A *run* is an arbitrary list of natural numbers: the k-th number says which of the
currently pending slots is processed next (numbers beyond the list stutter), so the theorems hold
for every order in which any number of GC workers may pick slots out of any packets; `moves`
(policy × pinning × "copy reserve exhausted") is universally quantified as well.  Atomicity of the
single `trace_object` is C17 (`Props/C17.lean`).

For every well-formed snapshot (`WF`: every reference points to an allocated object):

* `trace_step_decreases`, `trace_terminates`, `trace_completes` — termination: a measure
  (`Σ_{unvisited allocated o} (nfields o + 1) + |pending|`) strictly decreases on every
  non-stuttering step, so at most `Σ_o (nfields o + 1) + |roots|` steps of any run are effective,
  and the work list can always be drained.
* for every run that ends with `pending = []`:
  `trace_reach_exact`, `trace_injective`, `trace_iso`, `trace_onto`, `trace_identity`,
  `trace_iso_snap`, `trace_still_reachable`, `trace_schedule_independent`.
* `twoPhase_iso` — mark (the closure with `moves = false`) → any forwarding `F` injective on the
  marked objects → update + move (MarkCompact / Compressor); `slide_nonoverlap`, `slide_injective`,
  `slide_le` discharge the hypothesis on `F` for MarkCompact's linear-scan forwarding
  (`markCompact_iso`).  For the Compressor the same hypothesis is C37's theorem.

What the model cannot exhibit (so these theorems do not cover it): memory-safety faults, torn
copies, weak-memory effects, and address-level clobbering during in-place compaction.
-/
namespace Mmtk.Trace

variable {S : Snap} {moves : Id → Bool}

/-! ## Termination -/

theorem measure_init (S : Snap) (B : Nat) : measure S B (init S) = initialWork S B := by
  simp only [measure, initialWork, init, List.length_map, List.length_range]
  congr 1
  apply sumTo_congr
  intro i _
  simp only [owed]
  cases S.heap i <;> rfl

/-- **trace_step_decreases**: every step that takes a pending slot strictly decreases the measure;
every other step leaves the state unchanged. -/
theorem trace_step_decreases (S : Snap) (moves : Id → Bool) (B : Nat)
    (hB : ∀ i, (S.heap i).isSome = true → i < B) (st : State) (i : Nat) :
    (i < st.pending.length → measure S B (processSlot S moves st i) < measure S B st) ∧
    (st.pending.length ≤ i → processSlot S moves st i = st) :=
  ⟨step_decreases S moves B hB st i, step_stutter S moves st i⟩

/-- **trace_terminates**: in ANY run (of any length, any schedule, any `moves`) at most
`initialWork` steps do anything; all the others stutter.  (No well-formedness needed.) -/
theorem trace_terminates (S : Snap) (moves : Id → Bool) (B : Nat)
    (hB : ∀ i, (S.heap i).isSome = true → i < B) (run : List Nat) :
    effSteps S moves (init S) run ≤ initialWork S B := by
  have := effSteps_le S moves B hB run (init S)
  rw [measure_init] at this; omega

/-- Once the work list is empty, nothing ever changes again. -/
theorem trace_final_stable (S : Snap) (moves : Id → Bool) (st : State) (h : st.pending = [])
    (run : List Nat) : exec S moves st run = st := exec_nil_pending S moves run st h

/-- **trace_completes**: the hypothesis `pending = []` of the theorems below is satisfiable for every
snapshot — e.g. the schedule "always take the first pending slot" drains the list within
`initialWork` steps. -/
theorem trace_completes (S : Snap) (moves : Id → Bool) (B : Nat)
    (hB : ∀ i, (S.heap i).isSome = true → i < B) :
    (exec S moves (init S) (List.replicate (initialWork S B) 0)).pending = [] :=
  drain S moves B hB _ _ (by rw [measure_init]; exact Nat.le_refl _)

/-- the reference collector `collect` finishes -/
theorem collect_finished (S : Snap) (moves : Id → Bool) (B : Nat)
    (hB : ∀ i, (S.heap i).isSome = true → i < B) : (collect S moves B).pending = [] :=
  trace_completes S moves B hB

/-! ## Finished runs -/

/-- the invariant holds in every state of every run -/
theorem run_inv (wf : WF S) (run : List Nat) : Inv S moves (exec S moves (init S) run) :=
  exec_inv wf run (init_inv S moves)

theorem done_rel {st : State} (inv : Inv S moves st) (hfin : st.pending = []) {sl : Slot} {r : Id}
    (hc : Covered S st sl (some r)) : ∃ m, readSlot st sl = .new m ∧ st.fwd r = some m := by
  have h := inv.slots sl (some r) hc
  simp only [SlotRel, hfin, List.not_mem_nil, and_false, false_or] at h
  exact h

theorem done_null {st : State} (inv : Inv S moves st) {sl : Slot}
    (hc : Covered S st sl none) : readSlot st sl = .null := inv.slots sl none hc

theorem reach_fwd {st : State} (inv : Inv S moves st) (hfin : st.pending = []) {o : Id}
    (h : Reach S o) : ∃ n, st.fwd o = some n := by
  induction h with
  | root hr =>
    obtain ⟨k, hk⟩ := List.mem_iff_getElem?.mp hr
    obtain ⟨m, _, hm⟩ := done_rel (sl := .root k) inv hfin hk
    exact ⟨m, hm⟩
  | field _ ho hr ih =>
    obtain ⟨n, hn⟩ := ih
    obtain ⟨j, hj⟩ := List.mem_iff_getElem?.mp hr
    obtain ⟨m, _, hm⟩ := done_rel (sl := .field n j) inv hfin ⟨_, _, hn, ho, hj⟩
    exact ⟨m, hm⟩

/-- **trace_reach_exact**: when the closure has finished, exactly the objects reachable from the
roots have been visited (forwarded / marked) — nothing reachable is missed, no garbage is retained
by the trace. -/
theorem trace_reach_exact (wf : WF S) (run : List Nat)
    (hfin : (exec S moves (init S) run).pending = []) (o : Id) :
    ((exec S moves (init S) run).fwd o).isSome = true ↔ Reach S o := by
  have inv : Inv S moves _ := run_inv wf run
  constructor
  · intro h
    cases hf : (exec S moves (init S) run).fwd o with
    | none => simp [hf] at h
    | some n => exact inv.reach o n hf
  · intro h
    obtain ⟨n, hn⟩ := reach_fwd inv hfin h
    simp [hn]

/-- **trace_injective**: distinct objects never merge — in every state of every run (finished or
not) two different objects never have the same to-space object. -/
theorem trace_injective (wf : WF S) (run : List Nat) (a b n : Id)
    (ha : (exec S moves (init S) run).fwd a = some n) (hb : (exec S moves (init S) run).fwd b = some n) :
    a = b :=
  (run_inv (moves := moves) wf run).inj a b n ha hb

theorem read_field {st : State} {n : Id} {t : TObj} (ht : st.tobjs n = some t) (j : Nat) :
    readSlot st (.field n j) = (t.fields[j]?).getD .null := by
  simp [readSlot, ht]

/-- **trace_iso**: after a finished run, `fwd` is an isomorphism from the reachable part of the
snapshot onto the to-space: every reachable object `o` has a to-object `fwd o` with the same size
and hash (payload), `moved = moves o`, and field list `= (S o).fields.map (null ↦ null,
some x ↦ new (fwd x))` where every such `x` is itself forwarded; every root slot holds the forwarded
referent (`troots = roots.map …`). -/
theorem trace_iso (wf : WF S) (run : List Nat)
    (hfin : (exec S moves (init S) run).pending = []) :
    let st := exec S moves (init S) run
    (∀ o obj, Reach S o → S.heap o = some obj →
      ∃ n t, st.fwd o = some n ∧ st.tobjs n = some t ∧ t.size = obj.size ∧ t.hash = obj.hash ∧
        t.moved = moves o ∧ t.fields = obj.fields.map (mapRef st.fwd) ∧
        ∀ x, some x ∈ obj.fields → ∃ m, st.fwd x = some m) ∧
    st.troots = S.roots.map (mapRef st.fwd) ∧
    (∀ x, some x ∈ S.roots → ∃ m, st.fwd x = some m) := by
  intro st
  have inv : Inv S moves st := run_inv wf run
  refine ⟨?_, ?_, ?_⟩
  · intro o obj hreach hobj
    obtain ⟨n, hn⟩ := reach_fwd inv hfin hreach
    obtain ⟨o', ho', hh⟩ := inv.hdr o n hn
    rw [hobj] at ho'; injection ho' with ho'; subst ho'
    cases ht : st.tobjs n with
    | none => simp [ht] at hh
    | some t =>
      simp only [ht, Option.map_some, hdr, Option.some.injEq, Prod.mk.injEq] at hh
      obtain ⟨h1, h2, h3, h4⟩ := hh
      refine ⟨n, t, hn, ht, h1, h2, h3, ?_, ?_⟩
      · apply List.ext_getElem?
        intro j
        by_cases hj : j < obj.fields.length
        · have hjt : j < t.fields.length := by omega
          have hx : obj.fields[j]? = some obj.fields[j] := List.getElem?_eq_getElem hj
          have hc : Covered S st (.field n j) obj.fields[j] := ⟨o, obj, hn, hobj, hx⟩
          rw [List.getElem?_map, hx, List.getElem?_eq_getElem hjt]
          simp only [Option.map_some, Option.some.injEq]
          have hrd := read_field ht j
          rw [List.getElem?_eq_getElem hjt] at hrd
          simp only [Option.getD_some] at hrd
          rw [← hrd]
          cases hv : obj.fields[j] with
          | none =>
            rw [hv] at hc
            rw [done_null inv hc]; rfl
          | some x =>
            rw [hv] at hc
            obtain ⟨m, hm1, hm2⟩ := done_rel inv hfin hc
            rw [hm1]; simp [mapRef, hm2]
        · rw [List.getElem?_eq_none (by omega), List.getElem?_eq_none (by simp; omega)]
      · intro x hx
        exact reach_fwd inv hfin (Reach.field hreach hobj hx)
  · apply List.ext_getElem?
    intro k
    by_cases hk : k < S.roots.length
    · have hkt : k < st.troots.length := by rw [inv.rootsLen]; exact hk
      have hx : S.roots[k]? = some S.roots[k] := List.getElem?_eq_getElem hk
      have hc : Covered S st (.root k) S.roots[k] := hx
      rw [List.getElem?_map, hx, List.getElem?_eq_getElem hkt]
      simp only [Option.map_some, Option.some.injEq]
      have hrd : readSlot st (.root k) = st.troots[k] := by
        simp [readSlot, List.getElem?_eq_getElem hkt]
      rw [← hrd]
      cases hv : S.roots[k] with
      | none => rw [hv] at hc; rw [done_null inv hc]; rfl
      | some x =>
        rw [hv] at hc
        obtain ⟨m, hm1, hm2⟩ := done_rel inv hfin hc
        rw [hm1]; simp [mapRef, hm2]
    · rw [List.getElem?_eq_none (by rw [inv.rootsLen]; omega), List.getElem?_eq_none (by simp; omega)]
  · intro x hx
    exact reach_fwd inv hfin (Reach.root hx)

/-- **trace_onto**: the to-space contains nothing but the images of reachable objects (in every
state of every run): `fwd` is a bijection between visited objects and to-objects. -/
theorem trace_onto (wf : WF S) (run : List Nat) (n : Id) (t : TObj)
    (ht : (exec S moves (init S) run).tobjs n = some t) :
    ∃ o, Reach S o ∧ (exec S moves (init S) run).fwd o = some n := by
  have inv : Inv S moves _ := run_inv wf run
  obtain ⟨o, ho⟩ := inv.onto n (by simp [ht])
  exact ⟨o, inv.reach o n ho, ho⟩

/-! ### the heap after the collection is the reachable part of the heap before, renamed by `fwd` -/

theorem valRef_mapRef (fwd : Id → Option Id) (x : Option Id) : valRef (mapRef fwd x) = x.bind fwd := by
  cases x with
  | none => rfl
  | some y =>
    simp only [mapRef, Option.bind_some]
    cases h : fwd y <;> simp [valRef]

/-- **trace_iso_snap**: `trace_iso` in snapshot form — `T (fwd o) = {size, hash of S o,
fields = (S o).fields.map (·.bind fwd)}` and `T.roots = S.roots.map (·.bind fwd)`. -/
theorem trace_iso_snap (wf : WF S) (run : List Nat)
    (hfin : (exec S moves (init S) run).pending = []) :
    let st := exec S moves (init S) run
    (∀ o obj, Reach S o → S.heap o = some obj →
      ∃ n, st.fwd o = some n ∧
        (toSnap st).heap n = some ⟨obj.size, obj.hash, obj.fields.map (fun x => x.bind st.fwd)⟩) ∧
    (toSnap st).roots = S.roots.map (fun x => x.bind st.fwd) := by
  intro st
  obtain ⟨h1, h2, _⟩ := trace_iso (moves := moves) wf run hfin
  refine ⟨?_, ?_⟩
  · intro o obj hr ho
    obtain ⟨n, t, a1, a2, a3, a4, _, a6, _⟩ := h1 o obj hr ho
    refine ⟨n, a1, ?_⟩
    simp only [toSnap]
    rw [a2]
    simp only [Option.map_some, Option.some.injEq, Obj.mk.injEq]
    refine ⟨a3, a4, ?_⟩
    rw [a6, List.map_map]
    apply List.map_congr_left
    intro x _
    exact valRef_mapRef _ x
  · simp only [toSnap]
    rw [h2, List.map_map]
    apply List.map_congr_left
    intro x _
    exact valRef_mapRef _ x

/-- **trace_still_reachable**: after a finished run the objects reachable from the (updated) roots
in the new heap are exactly the copies of the objects that were reachable before: every reachable
object is still reachable, and nothing else is. -/
theorem trace_still_reachable (wf : WF S) (run : List Nat)
    (hfin : (exec S moves (init S) run).pending = []) (n : Id) :
    Reach (toSnap (exec S moves (init S) run)) n ↔
      ∃ o, Reach S o ∧ (exec S moves (init S) run).fwd o = some n := by
  have inv : Inv S moves (exec S moves (init S) run) := run_inv wf run
  obtain ⟨hobj, hroots⟩ := trace_iso_snap (moves := moves) wf run hfin
  constructor
  · intro h
    induction h with
    | @root m hm =>
      rw [hroots] at hm
      obtain ⟨x, hx, hxm⟩ := List.mem_map.mp hm
      cases x with
      | none => cases hxm
      | some y => exact ⟨y, Reach.root hx, hxm⟩
    | @field i ob m _ hi hm ih =>
      obtain ⟨o, ho, hfo⟩ := ih
      obtain ⟨obj, hobj'⟩ := Option.isSome_iff_exists.mp (ho.alloc wf)
      obtain ⟨n', hn', hheap⟩ := hobj o obj ho hobj'
      rw [hfo] at hn'; injection hn' with hn'; subst hn'
      rw [hheap] at hi; injection hi with hi; subst hi
      obtain ⟨x, hx, hxm⟩ := List.mem_map.mp hm
      cases x with
      | none => cases hxm
      | some y => exact ⟨y, Reach.field ho hobj' hx, hxm⟩
  · rintro ⟨o, ho, hfo⟩
    induction ho generalizing n with
    | @root r hr =>
      apply Reach.root
      rw [hroots]
      exact List.mem_map.mpr ⟨some r, hr, hfo⟩
    | @field i ob r hi hob hr ih =>
      obtain ⟨ni, hni⟩ := reach_fwd inv hfin hi
      obtain ⟨n', hn', hheap⟩ := hobj i ob hi hob
      rw [hni] at hn'; injection hn' with hn'; subst hn'
      exact Reach.field (ih ni hni) hheap (List.mem_map.mpr ⟨some r, hr, hfo⟩)

/-- **trace_schedule_independent**: two finished runs (different schedules, e.g. the real
collector's and the reference collector's) produce the same heap up to the names of the to-objects:
every reachable object has, in both, a to-object with equal size / hash / moved flag whose fields are
the images of the same snapshot fields under the respective forwarding tables. -/
theorem trace_schedule_independent (wf : WF S) (run₁ run₂ : List Nat)
    (h₁ : (exec S moves (init S) run₁).pending = []) (h₂ : (exec S moves (init S) run₂).pending = []) :
    let st₁ := exec S moves (init S) run₁
    let st₂ := exec S moves (init S) run₂
    (∀ o, (st₁.fwd o).isSome = (st₂.fwd o).isSome) ∧
    (∀ o obj, Reach S o → S.heap o = some obj →
      ∃ n₁ t₁ n₂ t₂, st₁.fwd o = some n₁ ∧ st₁.tobjs n₁ = some t₁ ∧ st₂.fwd o = some n₂ ∧
        st₂.tobjs n₂ = some t₂ ∧ t₁.size = t₂.size ∧ t₁.hash = t₂.hash ∧ t₁.moved = t₂.moved ∧
        t₁.fields = obj.fields.map (mapRef st₁.fwd) ∧ t₂.fields = obj.fields.map (mapRef st₂.fwd)) ∧
    st₁.troots = S.roots.map (mapRef st₁.fwd) ∧ st₂.troots = S.roots.map (mapRef st₂.fwd) := by
  intro st₁ st₂
  have i₁ := trace_iso (moves := moves) wf run₁ h₁
  have i₂ := trace_iso (moves := moves) wf run₂ h₂
  refine ⟨?_, ?_, i₁.2.1, i₂.2.1⟩
  · intro o
    have e₁ := trace_reach_exact (moves := moves) wf run₁ h₁ o
    have e₂ := trace_reach_exact (moves := moves) wf run₂ h₂ o
    cases ha : (st₁.fwd o).isSome <;> cases hb : (st₂.fwd o).isSome <;> simp_all [st₁, st₂]
  · intro o obj hr ho
    obtain ⟨n₁, t₁, a1, a2, a3, a4, a5, a6, _⟩ := i₁.1 o obj hr ho
    obtain ⟨n₂, t₂, b1, b2, b3, b4, b5, b6, _⟩ := i₂.1 o obj hr ho
    exact ⟨n₁, t₁, n₂, t₂, a1, a2, b1, b2, by rw [a3, b3], by rw [a4, b4], by rw [a5, b5], a6, b6⟩

/-! ### identity of referents -/

/-- a slot of the snapshot: root slot `k`, or field `j` of object `o` -/
inductive SSlot where
  | root (k : Nat)
  | field (o : Id) (j : Nat)

/-- what a snapshot slot held (`none` = no such slot) -/
def snapRead (S : Snap) : SSlot → Option (Option Id)
  | .root k => S.roots[k]?
  | .field o j => (S.heap o).bind (fun ob => ob.fields[j]?)

/-- the slot lives in a reachable object (or is a root slot) -/
def SSlot.live (S : Snap) : SSlot → Prop
  | .root _ => True
  | .field o _ => Reach S o

/-- where the slot is after the collection -/
def image (st : State) : SSlot → Option Slot
  | .root k => some (.root k)
  | .field o j => (st.fwd o).map (fun n => Slot.field n j)

theorem live_slot_done {st : State} (inv : Inv S moves st) (hfin : st.pending = []) {s : SSlot} {x : Id}
    (hl : s.live S) (hx : snapRead S s = some (some x)) :
    ∃ sl m, image st s = some sl ∧ readSlot st sl = .new m ∧ st.fwd x = some m := by
  cases s with
  | root k =>
    obtain ⟨m, h1, h2⟩ := done_rel (sl := .root k) inv hfin hx
    exact ⟨.root k, m, rfl, h1, h2⟩
  | field o j =>
    obtain ⟨n, hn⟩ := reach_fwd inv hfin hl
    simp only [snapRead] at hx
    cases ho : S.heap o with
    | none => simp [ho] at hx
    | some ob =>
      simp only [ho, Option.bind_some] at hx
      obtain ⟨m, h1, h2⟩ := done_rel (sl := .field n j) inv hfin ⟨o, ob, hn, ho, hx⟩
      exact ⟨.field n j, m, by simp [image, hn], h1, h2⟩

/-- **trace_identity**: take any two live slots of the snapshot (root slots or fields of reachable
objects) that held references `x` and `y`.  After a finished run both slots (at their new places)
hold to-space references `m₁`, `m₂` to the copies of `x` and `y`, and `m₁ = m₂ ↔ x = y`:
two slots that referred to the same object still refer to one and the same object, and two slots
that referred to distinct objects refer to distinct objects. -/
theorem trace_identity (wf : WF S) (run : List Nat)
    (hfin : (exec S moves (init S) run).pending = []) (s₁ s₂ : SSlot) (x y : Id)
    (hl₁ : s₁.live S) (hl₂ : s₂.live S)
    (h₁ : snapRead S s₁ = some (some x)) (h₂ : snapRead S s₂ = some (some y)) :
    let st := exec S moves (init S) run
    ∃ sl₁ sl₂ m₁ m₂, image st s₁ = some sl₁ ∧ image st s₂ = some sl₂ ∧
      readSlot st sl₁ = .new m₁ ∧ readSlot st sl₂ = .new m₂ ∧
      st.fwd x = some m₁ ∧ st.fwd y = some m₂ ∧ (m₁ = m₂ ↔ x = y) := by
  intro st
  have inv : Inv S moves st := run_inv wf run
  obtain ⟨sl₁, m₁, a1, a2, a3⟩ := live_slot_done inv hfin hl₁ h₁
  obtain ⟨sl₂, m₂, b1, b2, b3⟩ := live_slot_done inv hfin hl₂ h₂
  refine ⟨sl₁, sl₂, m₁, m₂, a1, b1, a2, b2, a3, b3, ?_, ?_⟩
  · intro e; subst e; exact inv.inj x y m₁ a3 b3
  · intro e; subst e; rw [a3] at b3; exact Option.some.inj b3

/-! ## Two-phase collectors: mark, compute forwarding, update + move -/

theorem fold_keep (S : Snap) (F : Id → Id) (r : Id) (o : Obj) (ho : S.heap r = some o) (l : List Id)
    (T : Id → Option Obj) (hinj : ∀ r', r' ∈ l → F r' = F r → r' = r)
    (hT : T (F r) = some (updObj F o)) :
    (l.foldl (compactStep S F) T) (F r) = some (updObj F o) := by
  induction l generalizing T with
  | nil => exact hT
  | cons r' l ih =>
    simp only [List.foldl_cons]
    apply ih _ (fun a ha => hinj a (List.mem_cons_of_mem _ ha))
    simp only [compactStep]
    cases ho' : S.heap r' with
    | none => exact hT
    | some o' =>
      simp only
      by_cases e : F r = F r'
      · have := hinj r' List.mem_cons_self e.symm
        subst this; rw [ho] at ho'; injection ho' with ho'; subst ho'; simp
      · simp [e, hT]

theorem fold_hit (S : Snap) (F : Id → Id) (r : Id) (o : Obj) (ho : S.heap r = some o) (l : List Id)
    (T : Id → Option Obj) (hr : r ∈ l) (hinj : ∀ r', r' ∈ l → F r' = F r → r' = r) :
    (l.foldl (compactStep S F) T) (F r) = some (updObj F o) := by
  induction l generalizing T with
  | nil => cases hr
  | cons r' l ih =>
    simp only [List.foldl_cons]
    by_cases e : r' = r
    · subst e
      apply fold_keep S F r' o ho l _ (fun a ha => hinj a (List.mem_cons_of_mem _ ha))
      simp [compactStep, ho]
    · have hr' : r ∈ l := by
        rcases List.mem_cons.mp hr with h | h
        · exact absurd h.symm e
        · exact h
      exact ih _ hr' (fun a ha => hinj a (List.mem_cons_of_mem _ ha))

theorem fold_src (S : Snap) (F : Id → Id) (l : List Id) (T : Id → Option Obj) (a : Id) (t : Obj)
    (h : (l.foldl (compactStep S F) T) a = some t) :
    T a = some t ∨ ∃ r, r ∈ l ∧ F r = a ∧ ∃ o, S.heap r = some o ∧ t = updObj F o := by
  induction l generalizing T with
  | nil => exact Or.inl h
  | cons r' l ih =>
    simp only [List.foldl_cons] at h
    rcases ih _ h with h1 | ⟨r, hr, e, o, ho, ht⟩
    · simp only [compactStep] at h1
      cases ho' : S.heap r' with
      | none => simp only [ho'] at h1; exact Or.inl h1
      | some o' =>
        simp only [ho'] at h1
        by_cases e : a = F r'
        · simp only [e, if_true, Option.some.injEq] at h1
          exact Or.inr ⟨r', List.mem_cons_self, e.symm, o', ho', h1.symm⟩
        · simp only [e, if_false] at h1; exact Or.inl h1
    · exact Or.inr ⟨r, List.mem_cons_of_mem _ hr, e, o, ho, ht⟩

theorem mem_scanMarked (st : State) (B : Nat) (r : Id) :
    r ∈ scanMarked st B ↔ r < B ∧ markedBy st r = true := by
  simp [scanMarked]

/-- **twoPhase_iso** (MarkCompact, Compressor): phase 1 is the closure with `moves = false`
(nothing moves, no slot changes: the mark phase); then ANY forwarding function `F` that is injective
on the marked objects; then update-and-move over the linear scan of marked objects.  The result is
isomorphic to the reachable part of the snapshot via `F`: every reachable object sits at `F o` with
its size, hash and fields `x ↦ F x`; every root slot holds `F` of its referent; nothing else is in
the compacted heap; `F` merges no two reachable objects; the mark table is exactly reachability. -/
theorem twoPhase_iso (wf : WF S) (B : Nat) (hB : ∀ i, (S.heap i).isSome = true → i < B)
    (run : List Nat) (hfin : (exec S (fun _ => false) (init S) run).pending = [])
    (F : Id → Id)
    (hF : ∀ a b, markedBy (exec S (fun _ => false) (init S) run) a = true →
      markedBy (exec S (fun _ => false) (init S) run) b = true → F a = F b → a = b) :
    let st := exec S (fun _ => false) (init S) run
    let T' := compact S F st B
    (∀ r, markedBy st r = true ↔ Reach S r) ∧
    (∀ o obj, Reach S o → S.heap o = some obj →
      T' (F o) = some { size := obj.size, hash := obj.hash, fields := obj.fields.map (Option.map F) }) ∧
    compactRoots S F = S.roots.map (Option.map F) ∧
    (∀ a t, T' a = some t → ∃ o, Reach S o ∧ F o = a) ∧
    (∀ a b, Reach S a → Reach S b → F a = F b → a = b) ∧
    (∀ o, Reach S o → ∃ n t, st.fwd o = some n ∧ st.tobjs n = some t ∧ t.moved = false) := by
  intro st T'
  have hmark : ∀ r, markedBy st r = true ↔ Reach S r := fun r => trace_reach_exact wf run hfin r
  refine ⟨hmark, ?_, rfl, ?_, ?_, ?_⟩
  · intro o obj hreach hobj
    have hm : markedBy st o = true := (hmark o).mpr hreach
    have hoB : o < B := hB o (by simp [hobj])
    have := fold_hit S F o obj hobj (scanMarked st B) (fun _ => none)
      ((mem_scanMarked st B o).mpr ⟨hoB, hm⟩)
      (fun r' hr' e => hF r' o ((mem_scanMarked st B r').mp hr').2 hm e)
    simpa [T', compact, updObj] using this
  · intro a t h
    rcases fold_src S F (scanMarked st B) (fun _ => none) a t h with h1 | ⟨r, hr, e, _⟩
    · cases h1
    · exact ⟨r, (hmark r).mp ((mem_scanMarked st B r).mp hr).2, e⟩
  · intro a b ha hb e
    exact hF a b ((hmark a).mpr ha) ((hmark b).mpr hb) e
  · intro o hreach
    obtain ⟨obj, hobj⟩ := Option.isSome_iff_exists.mp (hreach.alloc wf)
    obtain ⟨n, t, h1, h2, _, _, h5, _⟩ := (trace_iso (moves := fun _ => false) wf run hfin).1 o obj hreach hobj
    exact ⟨n, t, h1, h2, h5⟩

/-! ## MarkCompact: the sliding forwarding is injective, non-overlapping, and slides downwards -/

theorem slideF_ge (marked : Id → Bool) (pad : LObj → Nat → Nat) (objs : List LObj) (cur : Nat) (x : Id)
    (a : Nat) (h : slideF marked pad cur objs x = some a) : cur ≤ a := by
  induction objs generalizing cur with
  | nil => cases h
  | cons o rest ih =>
    simp only [slideF] at h
    split at h
    · split at h
      · injection h with h; omega
      · have := ih _ h; omega
    · exact ih _ h

theorem slideF_mem (marked : Id → Bool) (pad : LObj → Nat → Nat) (objs : List LObj) (cur : Nat) (x : Id)
    (a : Nat) (h : slideF marked pad cur objs x = some a) :
    marked x = true ∧ ∃ o, o ∈ objs ∧ o.id = x := by
  induction objs generalizing cur with
  | nil => cases h
  | cons o rest ih =>
    simp only [slideF] at h
    split at h
    · rename_i hm
      split at h
      · rename_i hx
        exact ⟨by rw [hx]; exact hm, o, List.mem_cons_self, hx.symm⟩
      · obtain ⟨h1, o', ho', h2⟩ := ih _ h
        exact ⟨h1, o', List.mem_cons_of_mem _ ho', h2⟩
    · obtain ⟨h1, o', ho', h2⟩ := ih _ h
      exact ⟨h1, o', List.mem_cons_of_mem _ ho', h2⟩

/-- every marked object of the scanned list gets a forwarding address -/
theorem slideF_total (marked : Id → Bool) (pad : LObj → Nat → Nat) (objs : List LObj) (cur : Nat)
    (o : LObj) (ho : o ∈ objs) (hm : marked o.id = true) :
    ∃ a, slideF marked pad cur objs o.id = some a := by
  induction objs generalizing cur with
  | nil => cases ho
  | cons o' rest ih =>
    simp only [slideF]
    by_cases hm' : marked o'.id = true
    · simp only [hm', if_true]
      by_cases hx : o.id = o'.id
      · exact ⟨cur + pad o' cur, by simp [hx]⟩
      · simp only [hx, if_false]
        rcases List.mem_cons.mp ho with h | h
        · exact absurd (by rw [h]) hx
        · exact ih _ h
    · simp only [hm']
      rcases List.mem_cons.mp ho with h | h
      · rw [h] at hm; exact absurd hm hm'
      · exact ih _ h

/-- **slide_nonoverlap**: two different marked objects get non-overlapping target extents. -/
theorem slide_nonoverlap (marked : Id → Bool) (pad : LObj → Nat → Nat) (objs : List LObj) (cur : Nat)
    (hnd : (objs.map LObj.id).Nodup) (o₁ o₂ : LObj) (h₁ : o₁ ∈ objs) (h₂ : o₂ ∈ objs) (hne : o₁ ≠ o₂)
    (a b : Nat) (ha : slideF marked pad cur objs o₁.id = some a)
    (hb : slideF marked pad cur objs o₂.id = some b) :
    a + o₁.size ≤ b ∨ b + o₂.size ≤ a := by
  induction objs generalizing cur with
  | nil => cases h₁
  | cons o rest ih =>
    simp only [List.map_cons, List.nodup_cons, List.mem_map, not_exists, not_and] at hnd
    obtain ⟨hfresh, hnd'⟩ := hnd
    have id_ne : ∀ o', o' ∈ rest → o'.id ≠ o.id := fun o' ho' => hfresh o' ho'
    simp only [slideF] at ha hb
    by_cases hm : marked o.id = true
    · simp only [hm, if_true] at ha hb
      rcases List.mem_cons.mp h₁ with e₁ | e₁ <;> rcases List.mem_cons.mp h₂ with e₂ | e₂
      · exact absurd (e₁.trans e₂.symm) hne
      · subst e₁
        simp only [if_true] at ha
        simp only [id_ne o₂ e₂, if_false] at hb
        injection ha with ha
        have := slideF_ge marked pad rest _ _ _ hb
        left; omega
      · subst e₂
        simp only [if_true] at hb
        simp only [id_ne o₁ e₁, if_false] at ha
        injection hb with hb
        have := slideF_ge marked pad rest _ _ _ ha
        right; omega
      · simp only [id_ne o₁ e₁, id_ne o₂ e₂, if_false] at ha hb
        exact ih _ hnd' e₁ e₂ ha hb
    · simp only [hm] at ha hb
      have in_rest : ∀ o', o' ∈ o :: rest → ∀ c, slideF marked pad cur rest o'.id = some c → o' ∈ rest := by
        intro o' ho' c hc
        rcases List.mem_cons.mp ho' with e | e
        · obtain ⟨_, o'', ho'', hid⟩ := slideF_mem marked pad rest cur _ _ hc
          rw [e] at hid
          exact absurd hid (id_ne o'' ho'')
        · exact e
      exact ih _ hnd' (in_rest o₁ h₁ a ha) (in_rest o₂ h₂ b hb) ha hb

/-- **slide_injective** — the hypothesis of `twoPhase_iso`, discharged for the sliding forwarding:
if every marked object is in the scanned list, ids are unique and sizes positive, then
`F x = (slideF … x).getD 0` is injective on the marked objects. -/
theorem slide_injective (marked : Id → Bool) (pad : LObj → Nat → Nat) (objs : List LObj) (cur : Nat)
    (hnd : (objs.map LObj.id).Nodup) (hpos : ∀ o, o ∈ objs → 0 < o.size)
    (hall : ∀ x, marked x = true → ∃ o, o ∈ objs ∧ o.id = x)
    (x y : Id) (hx : marked x = true) (hy : marked y = true)
    (h : (slideF marked pad cur objs x).getD 0 = (slideF marked pad cur objs y).getD 0) : x = y := by
  obtain ⟨o₁, h₁, rfl⟩ := hall x hx
  obtain ⟨o₂, h₂, rfl⟩ := hall y hy
  obtain ⟨a, ha⟩ := slideF_total marked pad objs cur o₁ h₁ hx
  obtain ⟨b, hb⟩ := slideF_total marked pad objs cur o₂ h₂ hy
  rw [ha, hb] at h
  simp only [Option.getD_some] at h
  by_cases e : o₁ = o₂
  · rw [e]
  · have := slide_nonoverlap marked pad objs cur hnd o₁ o₂ h₁ h₂ e a b ha hb
    have p1 := hpos o₁ h₁
    have p2 := hpos o₂ h₂
    omega

theorem slideF_le_addr (marked : Id → Bool) (pad : LObj → Nat → Nat) (objs : List LObj) (cur : Nat)
    (hnd : (objs.map LObj.id).Nodup)
    (hsorted : objs.Pairwise (fun p q => p.addr + p.size ≤ q.addr))
    (hcur : ∀ o, o ∈ objs → cur ≤ o.addr)
    (hpad : ∀ o c, c ≤ o.addr → c + pad o c ≤ o.addr)
    (o : LObj) (ho : o ∈ objs) (a : Nat) (ha : slideF marked pad cur objs o.id = some a) :
    a ≤ o.addr := by
  induction objs generalizing cur with
  | nil => cases ho
  | cons o₀ rest ih =>
    simp only [List.map_cons, List.nodup_cons, List.mem_map, not_exists, not_and] at hnd
    obtain ⟨hfresh, hnd'⟩ := hnd
    simp only [List.pairwise_cons] at hsorted
    obtain ⟨hs1, hs2⟩ := hsorted
    simp only [slideF] at ha
    by_cases hm : marked o₀.id = true
    · simp only [hm, if_true] at ha
      rcases List.mem_cons.mp ho with e | e
      · subst e
        simp only [if_true] at ha
        injection ha with ha
        have := hpad o cur (hcur o List.mem_cons_self); omega
      · simp only [hfresh o e, if_false] at ha
        refine ih _ hnd' hs2 ?_ e ha
        intro o' ho'
        have := hpad o₀ cur (hcur o₀ List.mem_cons_self)
        have := hs1 o' ho'
        omega
    · simp only [hm] at ha
      have e : o ∈ rest := by
        rcases List.mem_cons.mp ho with e | e
        · obtain ⟨_, o'', ho'', hid⟩ := slideF_mem marked pad rest cur _ _ ha
          rw [e] at hid
          exact absurd hid (hfresh o'' ho'')
        · exact e
      exact ih _ hnd' hs2 (fun o' ho' => hcur o' (List.mem_cons_of_mem _ ho')) e ha

/-- **slide_le** (why compacting in address order never clobbers an object that has not been moved
yet): if the objects are laid out in address order without overlap, the cursor starts at or below the
first one, and aligning a cursor that is `≤` an object's (aligned) address keeps it `≤` that address,
then every object slides downwards: `F o ≤ addr o` — so `[F o, F o + size)` ends at or before the
start of every object that comes later in the scan. -/
theorem slide_le (marked : Id → Bool) (pad : LObj → Nat → Nat) (objs : List LObj) (cur : Nat)
    (hnd : (objs.map LObj.id).Nodup)
    (hsorted : objs.Pairwise (fun p q => p.addr + p.size ≤ q.addr))
    (hcur : ∀ o, o ∈ objs → cur ≤ o.addr)
    (hpad : ∀ o c, c ≤ o.addr → c + pad o c ≤ o.addr)
    (o : LObj) (ho : o ∈ objs) (a : Nat) (ha : slideF marked pad cur objs o.id = some a) :
    a ≤ o.addr ∧ ∀ o', o' ∈ objs → o.addr + o.size ≤ o'.addr → a + o.size ≤ o'.addr := by
  have h := slideF_le_addr marked pad objs cur hnd hsorted hcur hpad o ho a ha
  exact ⟨h, fun o' _ h' => by omega⟩

/-- **markCompact_iso**: `twoPhase_iso` instantiated with the sliding forwarding of MarkCompact —
no hypothesis about `F` is left. -/
theorem markCompact_iso (wf : WF S) (B : Nat) (hB : ∀ i, (S.heap i).isSome = true → i < B)
    (run : List Nat) (hfin : (exec S (fun _ => false) (init S) run).pending = [])
    (pad : LObj → Nat → Nat) (objs : List LObj) (cur : Nat)
    (hnd : (objs.map LObj.id).Nodup) (hpos : ∀ o, o ∈ objs → 0 < o.size)
    (hall : ∀ x, Reach S x → ∃ o, o ∈ objs ∧ o.id = x) :
    let st := exec S (fun _ => false) (init S) run
    let F : Id → Id := fun x => (slideF (markedBy st) pad cur objs x).getD 0
    let T' := compact S F st B
    (∀ o obj, Reach S o → S.heap o = some obj →
      T' (F o) = some { size := obj.size, hash := obj.hash, fields := obj.fields.map (Option.map F) }) ∧
    (∀ a t, T' a = some t → ∃ o, Reach S o ∧ F o = a) ∧
    (∀ a b, Reach S a → Reach S b → F a = F b → a = b) := by
  intro st F T'
  have hmark : ∀ r, markedBy st r = true ↔ Reach S r := fun r => trace_reach_exact wf run hfin r
  have hF : ∀ a b, markedBy st a = true → markedBy st b = true → F a = F b → a = b :=
    fun a b ha hb h => slide_injective (markedBy st) pad objs cur hnd hpos
      (fun x hx => hall x ((hmark x).mp hx)) a b ha hb h
  obtain ⟨_, h2, _, h4, h5, _⟩ := twoPhase_iso wf B hB run hfin F hF
  exact ⟨h2, h4, h5⟩

/-! ## Non-vacuity: a concrete cyclic heap with sharing and garbage

```
roots = [→0, →1, null, →0]
0 : {size 16, hash 100, fields [→1, →2]}      1 : {size 24, hash 101, fields [→2, null]}
2 : {size  8, hash 102, fields [→0]}          3 : {size 32, hash 103, fields [→0]}   (garbage)
```
`0 → 2 → 0` is a cycle, `2` is shared by `0` and `1`, `0` is shared by two root slots and `2`. -/

def exHeap : Id → Option Obj
  | 0 => some ⟨16, 100, [some 1, some 2]⟩
  | 1 => some ⟨24, 101, [some 2, none]⟩
  | 2 => some ⟨8, 102, [some 0]⟩
  | 3 => some ⟨32, 103, [some 0]⟩
  | _ => none

def exSnap : Snap := ⟨exHeap, [some 0, some 1, none, some 0]⟩

theorem exSnap_wf : WF exSnap := by
  constructor
  · intro r h
    simp only [exSnap, List.mem_cons, Option.some.injEq, List.mem_nil_iff, or_false] at h
    rcases h with h | h | h | h <;> (try cases h) <;> rfl
  · intro i o r ho hr
    match i with
    | 0 | 1 | 2 | 3 =>
      simp only [exSnap, exHeap, Option.some.injEq] at ho
      subst ho
      simp only [List.mem_cons, Option.some.injEq, List.mem_nil_iff, or_false] at hr
      rcases hr with h | h <;> (try cases h) <;> rfl
    | _ + 4 => simp [exSnap, exHeap] at ho

theorem exSnap_bound : ∀ i, (exSnap.heap i).isSome = true → i < 4 := by
  intro i h
  match i with
  | 0 | 1 | 2 | 3 => decide
  | _ + 4 => simp [exSnap, exHeap] at h

/-- object 1 is pinned / non-moving, the rest is copied -/
def exMoves : Id → Bool := fun r => r != 1

/-- a LIFO-ish schedule and a FIFO schedule both finish … -/
def exRunA : List Nat := [3, 0, 0, 0, 0, 0, 0, 0, 0]
def exRunB : List Nat := [0, 0, 0, 3, 2, 1, 0, 0, 0]

example : (exec exSnap exMoves (init exSnap) exRunA).pending = [] := by decide
example : (exec exSnap exMoves (init exSnap) exRunB).pending = [] := by decide

/-- … with different to-space names but the same shape: all of `0,1,2` forwarded, garbage `3` not,
the two root slots that held `0` hold the same reference, the cycle is closed. -/
example :
    let st := exec exSnap exMoves (init exSnap) exRunA
    (st.fwd 0, st.fwd 1, st.fwd 2, st.fwd 3) = (some 0, some 1, some 2, none) ∧
    st.troots = [.new 0, .new 1, .null, .new 0] ∧
    st.tobjs 0 = some ⟨16, 100, [.new 1, .new 2], true⟩ ∧
    st.tobjs 1 = some ⟨24, 101, [.new 2, .null], false⟩ ∧
    st.tobjs 2 = some ⟨8, 102, [.new 0], true⟩ ∧ st.tobjs 3 = none := by decide

example :
    let st := exec exSnap exMoves (init exSnap) exRunB
    (st.fwd 0, st.fwd 1, st.fwd 2, st.fwd 3) = (some 0, some 1, some 2, none) ∧
    st.troots = [.new 0, .new 1, .null, .new 0] := by decide

/-- the hypothesis `pending = []` is not decoration: stopped after one step, the run has forwarded
object 0 only — object 1 is reachable but not (yet) visited, and root slot 1 still holds the
from-space reference. -/
example :
    let st := exec exSnap exMoves (init exSnap) [0]
    st.pending ≠ [] ∧ st.fwd 0 = some 0 ∧ st.fwd 1 = none ∧ st.troots = [.new 0, .old 1, .null, .old 0] := by
  decide

/-- the general theorems apply to it (hypotheses are satisfiable) -/
example : Reach exSnap 2 ∧ ¬ Reach exSnap 3 := by
  have h := trace_reach_exact (moves := exMoves) exSnap_wf exRunA (by decide)
  exact ⟨(h 2).mp (by decide), fun h3 => absurd ((h 3).mpr h3) (by decide)⟩

example : (exec exSnap exMoves (init exSnap) (List.replicate (initialWork exSnap 4) 0)).pending = [] :=
  trace_completes exSnap exMoves 4 exSnap_bound

/-- two-phase on the same heap with the sliding forwarding `0 ↦ 10, 1 ↦ 11, 2 ↦ 12` -/
example :
    let st := exec exSnap (fun _ => false) (init exSnap) exRunA
    let T' := compact exSnap (· + 10) st 4
    T' 10 = some ⟨16, 100, [some 11, some 12]⟩ ∧ T' 12 = some ⟨8, 102, [some 10]⟩ ∧ T' 13 = none ∧
    compactRoots exSnap (· + 10) = [some 10, some 11, none, some 10] := by decide

/-- the sliding forwarding on the example layout `0@100(16) 3@116(32, dead) 1@148(24) 2@176(8)` -/
example :
    let objs : List LObj := [⟨0, 100, 16⟩, ⟨3, 116, 32⟩, ⟨1, 148, 24⟩, ⟨2, 176, 8⟩]
    let F := slideF (fun x => x != 3) (fun _ _ => 0) 100 objs
    (F 0, F 1, F 2, F 3) = (some 100, some 116, some 140, none) := by decide

end Mmtk.Trace
