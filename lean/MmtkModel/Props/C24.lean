import MmtkModel.Model.Layout
import MmtkModel.Generated.SpecTable
/-!
# C24 — Side-metadata tables in use by one configuration never alias

`Generated/SpecTable.lean` is **regenerated from the linked mmtk-core on every run**: for every plan ×
feature set × VM spec placement (each VM spec in the header or on the side, side specs chained with the
real `side_first` / `side_after` in every declaration order) it lists the side specs some space of that
plan maps and accesses, sorted by offset, together with the bytes reserved for side metadata.
`Mmtk.Generated.SpecTable.all_rows_ok` is the kernel-checked (`decide +kernel`) finite obligation;
the theorems here lift it to the property's statement and prove the general layout lemma.
-/
namespace Mmtk.Layout

theorem rangeSize_pos (s : Spec) : 0 < rangeSize s := Nat.two_pow_pos _

/-- Adjacent-disjointness of an offset-sorted list gives: every later table starts at or after the
end of every earlier one. -/
theorem sortedDisjoint_head (a : Spec) (l : List Spec) (h : sortedDisjoint (a :: l) = true) :
    ∀ b ∈ l, upperBoundOffset a ≤ b.offset := by
  induction l generalizing a with
  | nil => intro b hb; cases hb
  | cons c rest ih =>
    simp only [sortedDisjoint, Bool.and_eq_true, decide_eq_true_eq] at h
    intro b hb
    simp only [List.mem_cons] at hb
    rcases hb with rfl | hb
    · exact h.1
    · have := ih c h.2 b hb
      have hc : c.offset < upperBoundOffset c := by unfold upperBoundOffset; have := rangeSize_pos c; omega
      omega

theorem sortedDisjoint_tail (a : Spec) (l : List Spec) (h : sortedDisjoint (a :: l) = true) :
    sortedDisjoint l = true := by
  cases l with
  | nil => rfl
  | cons c rest => simp only [sortedDisjoint, Bool.and_eq_true] at h; exact h.2

/-- **Soundness of the row check**: in a list accepted by `sortedDisjoint`, any two entries at
different positions have non-overlapping metadata address ranges. -/
theorem sortedDisjoint_pairwise (l : List Spec) (h : sortedDisjoint l = true) :
    l.Pairwise (fun a b => ¬ Overlap a b) := by
  induction l with
  | nil => exact List.Pairwise.nil
  | cons a rest ih =>
    refine List.Pairwise.cons ?_ (ih (sortedDisjoint_tail a rest h))
    intro b hb
    have := sortedDisjoint_head a rest h b hb
    unfold Overlap upperBoundOffset at *
    omega

/-- **General layout lemma**: any list laid out by `first … offset_after` is accepted by the check,
whatever the widths and region sizes — chained declarations can never alias each other. -/
theorem layoutChain_sortedDisjoint (g : Bool) (base : Nat) (l : List (Nat × Nat × Nat)) :
    sortedDisjoint (layoutChain g base l) = true := by
  induction l generalizing base with
  | nil => rfl
  | cons x rest ih =>
    obtain ⟨n, lb, lr⟩ := x
    cases rest with
    | nil => rfl
    | cons y rest' =>
      obtain ⟨n', lb', lr'⟩ := y
      have := ih (offsetAfter { name := n, isGlobal := g, offset := base, logBits := lb, logRegion := lr })
      simp only [layoutChain, sortedDisjoint, Bool.and_eq_true, decide_eq_true_eq] at this ⊢
      exact ⟨Nat.le_refl _, this⟩

theorem chain_disjoint (g : Bool) (base : Nat) (l : List (Nat × Nat × Nat)) :
    (layoutChain g base l).Pairwise (fun a b => ¬ Overlap a b) :=
  sortedDisjoint_pairwise _ (layoutChain_sortedDisjoint g base l)

/-- What `rowOk` establishes for one configuration. -/
theorem rowOk_sound (r : Row) (h : rowOk r = true) :
    r.specs.Pairwise (fun a b => ¬ Overlap a b) ∧
    ∀ s ∈ r.specs, s.legal ∧ upperBoundOffset s ≤ r.reserved := by
  simp only [rowOk, Bool.and_eq_true, List.all_eq_true, decide_eq_true_eq] at h
  exact ⟨sortedDisjoint_pairwise _ h.1.2, fun s hs => ⟨h.1.1 s hs, h.2 s hs⟩⟩

/-- **C24** For every configuration the translator enumerated from the current source, the
metadata address ranges of all side specs that configuration uses are pairwise disjoint and lie
inside the reserved side-metadata range. -/
theorem config_tables_never_alias :
    ∀ r ∈ Mmtk.Generated.SpecTable.rows,
      r.specs.Pairwise (fun a b => ¬ Overlap a b) ∧
      ∀ s ∈ r.specs, s.legal ∧ upperBoundOffset s ≤ r.reserved := by
  intro r hr
  have h := Mmtk.Generated.SpecTable.all_rows_ok
  rw [List.all_eq_true] at h
  exact rowOk_sound r (h r hr)

/-- the table is not empty (non-vacuity is re-checked on the regenerated table). -/
theorem table_nonempty : Mmtk.Generated.SpecTable.rows ≠ [] := Mmtk.Generated.SpecTable.rows_nonempty

/-- The latent overlap the table guards against: a side `VMGlobalLogBitSpec` starts exactly where the
core *local* chain starts, so it aliases `MALLOC_MS_ACTIVE_PAGE` if a configuration ever used both. -/
example :
    let logBit : Spec := { name := 0, isGlobal := true, offset := 2199090364416, logBits := 0, logRegion := 3 }
    let activePage : Spec := { name := 1, isGlobal := false, offset := 2199090364416, logBits := 3, logRegion := 12 }
    Overlap logBit activePage := by decide

end Mmtk.Layout
