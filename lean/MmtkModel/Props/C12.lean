import MmtkModel.Model.SATB
import Mathlib.Tactic.SplitIfs
/-!
# C12 — Concurrent marking preserves the snapshot-at-the-beginning

For **every interleaving** of any number of mutators (write barrier, field by field) and concurrent
markers (scan, field by field) — with every mutator write going through the SATB pre-write
barrier — when marking has quiesced (no grey object, no scan in progress) every object that was
reachable in the snapshot taken at InitialMark is marked, and every object allocated while marking
ran is marked.  Marked objects survive the final mark pause (Immix sweeps unmarked lines only: C34).
-/
namespace Mmtk.SATB

/-- `v` is null, marked, or waiting in some queue / SATB buffer. -/
def covered (sh : Shared) : Option Nat → Prop
  | none => True
  | some y => sh.marked y = true ∨ y ∈ sh.grey

theorem covered_mono {sh sh' : Shared} (hm : ∀ y, sh.marked y = true → sh'.marked y = true)
    (hg : ∀ y, y ∈ sh.grey → y ∈ sh'.grey ∨ sh'.marked y = true) {v : Option Nat}
    (h : covered sh v) : covered sh' v := by
  cases v with
  | none => trivial
  | some y =>
    rcases h with h | h
    · exact Or.inl (hm y h)
    · rcases hg y h with h' | h'
      · exact Or.inr h'
      · exact Or.inl h'

theorem covered_push (sh : Shared) (g' : List Nat) (v w : Option Nat) (hg : g' = pushOpt sh.grey w)
    (h : covered sh v) : covered { sh with grey := g' } v := by
  refine covered_mono (sh := sh) (sh' := { sh with grey := g' }) (fun _ h => h) ?_ h
  intro y hy
  left
  show y ∈ g'
  rw [hg]
  cases w with
  | none => exact hy
  | some z => exact List.mem_cons_of_mem _ hy

theorem covered_pushed (sh : Shared) (w : Option Nat) : covered { sh with grey := pushOpt sh.grey w } w := by
  cases w with
  | none => trivial
  | some z => exact Or.inr (List.mem_cons_self ..)

theorem mem_eraseIdx_or (l : List Nat) (i y : Nat) (h : y ∈ l) : y ∈ l.eraseIdx i ∨ l[i]? = some y := by
  induction l generalizing i with
  | nil => cases h
  | cons a rest ih =>
    cases i with
    | zero =>
      simp only [List.eraseIdx_zero, List.tail_cons, List.getElem?_cons_zero]
      simp only [List.mem_cons] at h
      rcases h with rfl | h
      · exact Or.inr rfl
      · exact Or.inl h
    | succ i =>
      simp only [List.eraseIdx_cons_succ, List.getElem?_cons_succ, List.mem_cons]
      simp only [List.mem_cons] at h
      rcases h with rfl | h
      · exact Or.inl (Or.inl rfl)
      · rcases ih i h with h' | h'
        · exact Or.inl (Or.inr h')
        · exact Or.inr h'

/-- Facts about the shared state (`S` = the snapshot). -/
structure G (S : Snap) (sh : Shared) : Prop where
  clean : ∀ x, S.inS x = true → sh.dirty x = false → ∀ j, sh.cur x j = S.fld x j
  dirty : ∀ x, S.inS x = true → sh.dirty x = true → ∀ j, j < S.nf x → covered sh (S.fld x j)
  logged : ∀ x, S.inS x = true → sh.logged x = true → ∀ j, j < S.nf x → covered sh (S.fld x j)
  scanned : ∀ x, S.inS x = true → sh.scanned x = true → ∀ j, j < S.nf x → covered sh (S.fld x j)
  scanning : ∀ x j0, S.inS x = true → sh.scanPos x = some j0 → ∀ j, j < j0 → j < S.nf x → covered sh (S.fld x j)
  black : ∀ x, S.inS x = true → sh.marked x = true → sh.scanned x = true ∨ sh.scanPos x ≠ none
  roots : ∀ r, r ∈ S.roots → covered sh (some r)

/-- What a thread at `p` knows. -/
def L (S : Snap) (sh : Shared) : PC → Prop
  | .idle => True
  | .mCheck _ _ _ => True
  | .mRead src _ _ j => S.inS src = true → ∀ j', j' < j → j' < S.nf src → covered sh (S.fld src j')
  | .mLog src _ _ => S.inS src = true → ∀ j', j' < S.nf src → covered sh (S.fld src j')
  | .mStore src _ _ => S.inS src = true → ∀ j', j' < S.nf src → covered sh (S.fld src j')
  | .scanning x j => sh.marked x = true ∧ sh.scanPos x = some j

def isScanning (x : Nat) : PC → Prop
  | .scanning y _ => y = x
  | _ => False

structure Inv (S : Snap) (s : State) : Prop where
  g : G S s.sh
  l : ∀ t, L S s.sh (s.pc t)
  unique : ∀ t t' x, isScanning x (s.pc t) → isScanning x (s.pc t') → t = t'

/-- The value just read from field `j` of a snapshot object is covered once pushed; more precisely
the *snapshot* value of that field is covered afterwards, whether or not the object is dirty. -/
theorem read_covers (S : Snap) (sh : Shared) (hg : G S sh) (x j : Nat) (hx : S.inS x = true) (hj : j < S.nf x) :
    covered { sh with grey := pushOpt sh.grey (sh.cur x j) } (S.fld x j) := by
  cases hd : sh.dirty x with
  | false =>
    rw [← hg.clean x hx hd j]
    exact covered_pushed sh _
  | true => exact covered_push sh _ _ _ rfl (hg.dirty x hx hd j hj)


/-- Everything the global argument needs to know about one local step. -/
structure Cert (S : Snap) (sh : Shared) (p : PC) (sh' : Shared) (p' : PC) : Prop where
  g : G S sh'
  l : L S sh' p'
  cov : ∀ v, covered sh v → covered sh' v
  mkd : ∀ y, sh.marked y = true → sh'.marked y = true
  sp : ∀ y, sh.marked y = true → ¬ isScanning y p → sh'.scanPos y = sh.scanPos y
  enter : ∀ y, isScanning y p' → isScanning y p ∨ sh.marked y = false

theorem cert_same (S : Snap) (sh : Shared) (p p' : PC) (hg : G S sh) (hl : L S sh p')
    (he : ∀ y, isScanning y p' → isScanning y p) : Cert S sh p sh p' :=
  ⟨hg, hl, fun _ h => h, fun _ h => h, fun _ _ _ => rfl, fun y h => Or.inl (he y h)⟩

/-- rebuild `G` after a step that only made `covered` grow and left `cur`, `dirty`, `logged`,
`scanned`, `scanPos` alone -/
theorem G_of_cov (S : Snap) (sh sh' : Shared) (hg : G S sh)
    (cov : ∀ v, covered sh v → covered sh' v)
    (hcur : sh'.cur = sh.cur) (hd : sh'.dirty = sh.dirty) (hlog : sh'.logged = sh.logged)
    (hsc : sh'.scanned = sh.scanned) (hsp : sh'.scanPos = sh.scanPos)
    (hblack : ∀ x, S.inS x = true → sh'.marked x = true → sh'.scanned x = true ∨ sh'.scanPos x ≠ none) :
    G S sh' :=
  ⟨fun x hx hdx j => by rw [hcur]; exact hg.clean x hx (by rw [← hd]; exact hdx) j,
   fun x hx hdx j hj => cov _ (hg.dirty x hx (by rw [← hd]; exact hdx) j hj),
   fun x hx hlx j hj => cov _ (hg.logged x hx (by rw [← hlog]; exact hlx) j hj),
   fun x hx hsx j hj => cov _ (hg.scanned x hx (by rw [← hsc]; exact hsx) j hj),
   fun x j0 hx hpx j hj hjn => cov _ (hg.scanning x j0 hx (by rw [← hsp]; exact hpx) j hj hjn),
   hblack,
   fun r hr => cov _ (hg.roots r hr)⟩

theorem local_cert (S : Snap) (a : Act) (sh : Shared) (p : PC) (hg : G S sh) (hl : L S sh p) :
    Cert S sh p (localStep S a sh p).1 (localStep S a sh p).2 := by
  cases p with
  | idle =>
    cases a with
    | write src f v => exact cert_same S sh _ _ hg trivial (fun _ h => h)
    | step => exact cert_same S sh _ _ hg trivial (fun _ h => h)
    | allocLive y =>
      simp only [localStep]
      split_ifs with hy
      · exact cert_same S sh _ _ hg trivial (fun _ h => h)
      · have hmk : ∀ z, sh.marked z = true → (if z = y then true else sh.marked z) = true := by
          intro z hz; split_ifs <;> simp [hz]
        have cov : ∀ v, covered sh v → covered { sh with marked := fun z => if z = y then true else sh.marked z } v :=
          fun v hv => covered_mono (sh := sh) (sh' := { sh with marked := fun z => if z = y then true else sh.marked z }) hmk (fun _ h => Or.inl h) hv
        refine ⟨G_of_cov S sh _ hg cov rfl rfl rfl rfl rfl ?_, trivial, cov, hmk, fun _ _ _ => rfl, fun _ h => Or.inl h⟩
        intro x hx hmx
        have hxy : x ≠ y := by intro e; rw [e] at hx; exact hy hx
        simp only [hxy, if_false] at hmx
        exact hg.black x hx hmx
    | pop i =>
      simp only [localStep]
      cases ho : sh.grey[i]? with
      | none => exact cert_same S sh _ _ hg trivial (fun _ h => h)
      | some o =>
        simp only
        split_ifs with hmo
        · -- already marked: just dropped from the queue
          have cov : ∀ v, covered sh v → covered { sh with grey := sh.grey.eraseIdx i } v := by
            intro v hv
            refine covered_mono (sh := sh) (sh' := { sh with grey := sh.grey.eraseIdx i }) (fun _ h => h) ?_ hv
            intro y hy
            rcases mem_eraseIdx_or sh.grey i y hy with h | h
            · exact Or.inl h
            · rw [ho] at h; injection h with h; rw [← h]; exact Or.inr hmo
          exact ⟨G_of_cov S sh _ hg cov rfl rfl rfl rfl rfl hg.black, trivial, cov, fun _ h => h,
            fun _ _ _ => rfl, fun _ h => Or.inl h⟩
        · -- newly marked: the scan of `o` starts
          have hmo' : sh.marked o = false := by simpa using hmo
          have hmk : ∀ z, sh.marked z = true → (if z = o then true else sh.marked z) = true := by
            intro z hz; split_ifs <;> simp [hz]
          have cov : ∀ v, covered sh v → covered { sh with grey := sh.grey.eraseIdx i, marked := fun y => if y = o then true else sh.marked y, scanPos := fun y => if y = o then some 0 else sh.scanPos y } v := by
            intro v hv
            refine covered_mono (sh := sh) (sh' := { sh with grey := sh.grey.eraseIdx i, marked := fun y => if y = o then true else sh.marked y, scanPos := fun y => if y = o then some 0 else sh.scanPos y }) hmk ?_ hv
            intro y hy
            rcases mem_eraseIdx_or sh.grey i y hy with h | h
            · exact Or.inl h
            · rw [ho] at h; injection h with h; right; simp [h]
          refine ⟨⟨?_, ?_, ?_, ?_, ?_, ?_, ?_⟩, ⟨by simp, by simp⟩, cov, hmk, ?_, ?_⟩
          · exact hg.clean
          · exact fun x hx hd j hj => cov _ (hg.dirty x hx hd j hj)
          · exact fun x hx hd j hj => cov _ (hg.logged x hx hd j hj)
          · exact fun x hx hd j hj => cov _ (hg.scanned x hx hd j hj)
          · intro x j0 hx hp j hj hjn
            by_cases hxo : x = o
            · simp only [hxo, if_true] at hp; injection hp with hp; omega
            · simp only [hxo, if_false] at hp
              exact cov _ (hg.scanning x j0 hx hp j hj hjn)
          · intro x hx hm
            by_cases hxo : x = o
            · right; simp [hxo]
            · simp only [hxo, if_false] at hm ⊢
              exact hg.black x hx hm
          · exact fun r hr => cov _ (hg.roots r hr)
          · intro y hy _
            have : y ≠ o := by intro e; rw [e, hmo'] at hy; cases hy
            simp [this]
          · intro y hy
            right
            have : o = y := hy
            rw [← this]; exact hmo'
  | mCheck src f v =>
    cases a with
    | step =>
      simp only [localStep]
      split_ifs with hlog
      · exact cert_same S sh _ _ hg (fun hx j hj => hg.logged src hx hlog j hj) (fun _ h => h)
      · exact cert_same S sh _ _ hg (fun _ j hj _ => absurd hj (Nat.not_lt_zero j)) (fun _ h => h)
    | write _ _ _ => exact cert_same S sh _ _ hg hl (fun _ h => h)
    | pop _ => exact cert_same S sh _ _ hg hl (fun _ h => h)
    | allocLive _ => exact cert_same S sh _ _ hg hl (fun _ h => h)
  | mRead src f v j =>
    cases a with
    | step =>
      simp only [localStep]
      split_ifs with hj
      · have cov : ∀ w, covered sh w → covered { sh with grey := pushOpt sh.grey (sh.cur src j) } w :=
          fun w hw => covered_push sh _ _ _ rfl hw
        refine ⟨G_of_cov S sh _ hg cov rfl rfl rfl rfl rfl hg.black, ?_, cov, fun _ h => h, fun _ _ _ => rfl,
          fun _ h => Or.inl h⟩
        intro hx j' hj' hjn
        by_cases e : j' = j
        · rw [e]; exact read_covers S sh hg src j hx hj
        · exact cov _ (hl hx j' (by omega) hjn)
      · exact cert_same S sh _ _ hg (fun hx j' hj' => hl hx j' (by omega) hj') (fun _ h => h)
    | write _ _ _ => exact cert_same S sh _ _ hg hl (fun _ h => h)
    | pop _ => exact cert_same S sh _ _ hg hl (fun _ h => h)
    | allocLive _ => exact cert_same S sh _ _ hg hl (fun _ h => h)
  | mLog src f v =>
    cases a with
    | step =>
      simp only [localStep]
      refine ⟨⟨hg.clean, hg.dirty, ?_, hg.scanned, hg.scanning, hg.black, hg.roots⟩, hl, fun _ h => h, fun _ h => h,
        fun _ _ _ => rfl, fun _ h => Or.inl h⟩
      intro x hx hlx j hj
      by_cases e : x = src
      · rw [e] at hx hj ⊢; exact hl hx j hj
      · simp only [e, if_false] at hlx; exact hg.logged x hx hlx j hj
    | write _ _ _ => exact cert_same S sh _ _ hg hl (fun _ h => h)
    | pop _ => exact cert_same S sh _ _ hg hl (fun _ h => h)
    | allocLive _ => exact cert_same S sh _ _ hg hl (fun _ h => h)
  | mStore src f v =>
    cases a with
    | step =>
      simp only [localStep]
      refine ⟨⟨?_, ?_, hg.logged, hg.scanned, hg.scanning, hg.black, hg.roots⟩, trivial, fun _ h => h, fun _ h => h,
        fun _ _ _ => rfl, fun _ h => Or.inl h⟩
      · intro x hx hd j
        have e : x ≠ src := by intro e; simp [e] at hd
        simp only [e, if_false] at hd
        simp only [e, false_and, if_false]
        exact hg.clean x hx hd j
      · intro x hx hd j hj
        by_cases e : x = src
        · rw [e] at hx hj ⊢; exact hl hx j hj
        · simp only [e, if_false] at hd; exact hg.dirty x hx hd j hj
    | write _ _ _ => exact cert_same S sh _ _ hg hl (fun _ h => h)
    | pop _ => exact cert_same S sh _ _ hg hl (fun _ h => h)
    | allocLive _ => exact cert_same S sh _ _ hg hl (fun _ h => h)
  | scanning x j =>
    obtain ⟨hmx, hpx⟩ := hl
    cases a with
    | step =>
      simp only [localStep]
      split_ifs with hj
      · have cov : ∀ w, covered sh w → covered { sh with grey := pushOpt sh.grey (sh.cur x j), scanPos := fun y => if y = x then some (j + 1) else sh.scanPos y } w := by
          intro w hw
          exact covered_mono (sh := sh) (sh' := { sh with grey := pushOpt sh.grey (sh.cur x j), scanPos := fun y => if y = x then some (j + 1) else sh.scanPos y }) (fun _ h => h) (fun y hy => Or.inl (by
            show y ∈ pushOpt sh.grey (sh.cur x j)
            cases sh.cur x j with
            | none => exact hy
            | some z => exact List.mem_cons_of_mem _ hy)) hw
        refine ⟨⟨hg.clean, ?_, ?_, ?_, ?_, ?_, ?_⟩, ⟨hmx, by simp⟩, cov, fun _ h => h, ?_, fun _ h => Or.inl h⟩
        · exact fun y hy hd k hk => cov _ (hg.dirty y hy hd k hk)
        · exact fun y hy hd k hk => cov _ (hg.logged y hy hd k hk)
        · exact fun y hy hd k hk => cov _ (hg.scanned y hy hd k hk)
        · intro y j0 hy hp k hk hkn
          by_cases e : y = x
          · simp only [e, if_true] at hp; injection hp with hp
            rw [e] at hy hkn ⊢
            by_cases ek : k = j
            · rw [ek]
              have := read_covers S sh hg x j hy hj
              exact covered_mono (sh := { sh with grey := pushOpt sh.grey (sh.cur x j) }) (sh' := { sh with grey := pushOpt sh.grey (sh.cur x j), scanPos := fun y => if y = x then some (j + 1) else sh.scanPos y }) (fun _ h => h)
                (fun _ h => Or.inl h) this
            · exact cov _ (hg.scanning x j hy hpx k (by omega) hkn)
          · simp only [e, if_false] at hp
            exact cov _ (hg.scanning y j0 hy hp k hk hkn)
        · intro y hy hm
          by_cases e : y = x
          · right; simp [e]
          · simp only [e, if_false]; exact hg.black y hy hm
        · exact fun r hr => cov _ (hg.roots r hr)
        · intro y _ hns
          have : y ≠ x := fun e => hns e.symm
          simp [this]
      · -- scan of x complete
        refine ⟨⟨hg.clean, hg.dirty, hg.logged, ?_, ?_, ?_, hg.roots⟩, trivial, fun _ h => h, fun _ h => h, ?_,
          fun _ h => absurd h (by simp [isScanning])⟩
        · intro y hy hs k hk
          by_cases e : y = x
          · rw [e] at hy hk ⊢
            exact hg.scanning x j hy hpx k (by omega) hk
          · simp only [e, if_false] at hs; exact hg.scanned y hy hs k hk
        · intro y j0 hy hp k hk hkn
          by_cases e : y = x
          · simp [e] at hp
          · simp only [e, if_false] at hp; exact hg.scanning y j0 hy hp k hk hkn
        · intro y hy hm
          by_cases e : y = x
          · left; simp [e]
          · simp only [e, if_false]; exact hg.black y hy hm
        · intro y _ hns
          have : y ≠ x := fun e => hns e.symm
          simp [this]
    | write _ _ _ => exact cert_same S sh _ _ hg ⟨hmx, hpx⟩ (fun _ h => h)
    | pop _ => exact cert_same S sh _ _ hg ⟨hmx, hpx⟩ (fun _ h => h)
    | allocLive _ => exact cert_same S sh _ _ hg ⟨hmx, hpx⟩ (fun _ h => h)

theorem L_stable (S : Snap) (sh sh' : Shared) (p q : PC) (c : ∀ v, covered sh v → covered sh' v)
    (mk : ∀ y, sh.marked y = true → sh'.marked y = true)
    (sp : ∀ y, sh.marked y = true → ¬ isScanning y p → sh'.scanPos y = sh.scanPos y)
    (hx : ∀ y, isScanning y q → ¬ isScanning y p) (hq : L S sh q) : L S sh' q := by
  cases q with
  | idle => trivial
  | mCheck _ _ _ => trivial
  | mRead src f v j => exact fun h j' h1 h2 => c _ (hq h j' h1 h2)
  | mLog src f v => exact fun h j' h1 => c _ (hq h j' h1)
  | mStore src f v => exact fun h j' h1 => c _ (hq h j' h1)
  | scanning x j =>
    obtain ⟨h1, h2⟩ := hq
    exact ⟨mk x h1, by rw [sp x h1 (hx x rfl)]; exact h2⟩

theorem step_inv (S : Snap) (s : State) (t : Nat) (a : Act) (h : Inv S s) : Inv S (step S s t a) := by
  obtain ⟨hg, hl, hu⟩ := h
  have c := local_cert S a s.sh (s.pc t) hg (hl t)
  refine ⟨c.g, ?_, ?_⟩
  · intro x
    simp only [step]
    by_cases hx : x = t
    · simp only [hx, if_true]; exact c.l
    · simp only [hx, if_false]
      exact L_stable S s.sh _ (s.pc t) (s.pc x) c.cov c.mkd c.sp
        (fun y hy hy' => hx (hu x t y hy hy')) (hl x)
  · intro x y z hx hy
    simp only [step] at hx hy
    by_cases hxt : x = t <;> by_cases hyt : y = t
    · rw [hxt, hyt]
    · simp only [hxt, if_true] at hx
      simp only [hyt, if_false] at hy
      rcases c.enter z hx with h1 | h1
      · exact absurd (hu y t z hy h1) hyt
      · -- y is scanning z, so z is marked: contradiction
        have ly := hl y
        cases hp : s.pc y with
        | scanning w j =>
          rw [hp] at ly hy
          have : w = z := hy
          rw [this] at ly
          rw [ly.1] at h1; cases h1
        | _ => rw [hp] at hy; exact absurd hy (by simp [isScanning])
    · simp only [hyt, if_true] at hy
      simp only [hxt, if_false] at hx
      rcases c.enter z hy with h1 | h1
      · exact absurd (hu x t z hx h1) hxt
      · have lx := hl x
        cases hp : s.pc x with
        | scanning w j =>
          rw [hp] at lx hx
          have : w = z := hx
          rw [this] at lx
          rw [lx.1] at h1; cases h1
        | _ => rw [hp] at hx; exact absurd hx (by simp [isScanning])
    · simp only [hxt, hyt, if_false] at hx hy
      exact hu x y z hx hy

theorem init_inv (S : Snap) : Inv S (init S) := by
  refine ⟨⟨fun _ _ _ _ => rfl, ?_, ?_, ?_, ?_, ?_, ?_⟩, fun _ => trivial, ?_⟩
  · intro x _ hd; simp [init] at hd
  · intro x _ hd; simp [init] at hd
  · intro x _ hd; simp [init] at hd
  · intro x j0 _ hd; simp [init] at hd
  · intro x _ hd; simp [init] at hd
  · intro r hr; exact Or.inr hr
  · intro x y z hx; simp [init, isScanning] at hx

theorem exec_inv (S : Snap) (s : State) (run : List (Nat × Act)) (h : Inv S s) : Inv S (exec S s run) := by
  induction run generalizing s with
  | nil => exact h
  | cons a rest ih => obtain ⟨t, a⟩ := a; exact ih _ (step_inv S s t a h)

def Reachable (S : Snap) (s : State) : Prop := ∃ run, s = exec S (init S) run

/-- reachability in the snapshot graph -/
inductive ReachS (S : Snap) : Nat → Prop
  | root (r : Nat) : r ∈ S.roots → ReachS S r
  | field (x j y : Nat) : ReachS S x → j < S.nf x → S.fld x j = some y → ReachS S y

/-- every reference of the snapshot points to an object of the snapshot -/
structure Snap.WF (S : Snap) : Prop where
  roots : ∀ r, r ∈ S.roots → S.inS r = true
  fields : ∀ x j y, S.inS x = true → j < S.nf x → S.fld x j = some y → S.inS y = true

/-! ## The property theorems -/

/-- **C12 (1)** When marking has quiesced — no grey object left in any queue or SATB buffer, no
scan in progress — every object reachable at InitialMark is marked, whatever the mutators did to
the heap meanwhile and however their barrier steps interleaved with the markers. -/
theorem satb_complete (S : Snap) (hS : S.WF) (s : State) (h : Reachable S s)
    (hgrey : s.sh.grey = []) (hscan : ∀ x, s.sh.scanPos x = none) :
    ∀ o, ReachS S o → s.sh.marked o = true ∧ S.inS o = true := by
  obtain ⟨run, rfl⟩ := h
  have inv := exec_inv S _ run (init_inv S)
  intro o ho
  induction ho with
  | root r hr =>
    refine ⟨?_, hS.roots r hr⟩
    rcases inv.g.roots r hr with h | h
    · exact h
    · rw [hgrey] at h; cases h
  | field x j y _ hj hf ih =>
    obtain ⟨hmx, hix⟩ := ih
    refine ⟨?_, hS.fields x j y hix hj hf⟩
    rcases inv.g.black x hix hmx with hsc | hsp
    · have := inv.g.scanned x hix hsc j hj
      rw [hf] at this
      rcases this with h | h
      · exact h
      · rw [hgrey] at h; cases h
    · exact absurd (hscan x) hsp

/-- marks are never removed while marking runs … -/
theorem marked_mono (S : Snap) (s : State) (run : List (Nat × Act)) (h : Inv S s) (y : Nat)
    (hy : s.sh.marked y = true) : (exec S s run).sh.marked y = true := by
  induction run generalizing s with
  | nil => exact hy
  | cons a rest ih =>
    obtain ⟨t, a⟩ := a
    have c := local_cert S a s.sh (s.pc t) h.g (h.l t)
    exact ih _ (step_inv S s t a h) (c.mkd y hy)

/-- **C12 (2)** … so an object allocated while marking runs (allocated live) is marked at the end. -/
theorem alloc_during_marking_survives (S : Snap) (s : State) (h : Reachable S s) (t y : Nat)
    (hidle : s.pc t = .idle) (hy : S.inS y = false) (rest : List (Nat × Act)) :
    (exec S (step S s t (.allocLive y)) rest).sh.marked y = true := by
  obtain ⟨run, rfl⟩ := h
  have inv := exec_inv S _ run (init_inv S)
  apply marked_mono S _ rest (step_inv S _ t _ inv)
  simp [step, hidle, localStep, hy]

/-- **C12 (3)** the tri-colour fact behind it, for every reachable state: a snapshot field either
still holds its snapshot value or that value is marked or queued. -/
theorem satb_invariant (S : Snap) (s : State) (h : Reachable S s) (x j : Nat) (hx : S.inS x = true)
    (hj : j < S.nf x) : s.sh.cur x j = S.fld x j ∨ covered s.sh (S.fld x j) := by
  obtain ⟨run, rfl⟩ := h
  have inv := exec_inv S _ run (init_inv S)
  cases hd : (exec S (init S) run).sh.dirty x with
  | false => exact Or.inl (inv.g.clean x hx hd j)
  | true => exact Or.inr (inv.g.dirty x hx hd j hj)

/-! ## non-vacuity: the classic lost-object schedule is handled

Snapshot: root → 0, `0.f0 = 1`, `2` is another root with a null field.  A mutator moves the only
reference to `1` from `0.f0` into `2.f0` and clears `0.f0` while the marker has popped neither;
the barrier enqueues `1` before the overwrite, so it is marked at the end. -/
def demoSnap : Snap :=
  { inS := fun x => x < 3, nf := fun x => if x = 1 then 0 else 1,
    fld := fun x j => if x = 0 ∧ j = 0 then some 1 else none, roots := [0, 2] }

example :
    let s := exec demoSnap (init demoSnap)
      [(0, .write 2 0 (some 1)), (0, .step), (0, .step), (0, .step), (0, .step), (0, .step),   -- 2.f0 := 1
       (0, .write 0 0 none), (0, .step), (0, .step), (0, .step), (0, .step), (0, .step),       -- 0.f0 := null
       (1, .pop 0), (1, .step), (1, .step), (1, .pop 0), (1, .step), (1, .step),
       (1, .pop 0), (1, .step), (1, .pop 0), (1, .step), (1, .step), (1, .pop 0), (1, .pop 0)]
    s.sh.grey = [] ∧ s.sh.marked 0 = true ∧ s.sh.marked 1 = true ∧ s.sh.marked 2 = true ∧
      s.sh.cur 0 0 = none ∧ s.sh.cur 2 0 = some 1 := by
  decide

end Mmtk.SATB
