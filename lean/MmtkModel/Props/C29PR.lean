import MmtkModel.Props.C29
/-!
# C29 (page-resource layer) — `head_is_list_head` as a history invariant

Every discontiguous space has a `CommonPageResource` with its own `head_discontiguous_region`
(`PR.heads sp`); all of them share the VM map (`PR.st`).  `PG` = the oracle's bookkeeping at this level:
C29's `G` plus, per space, the list of the region starts it owns, most recently acquired first.

`PInv lo hi pg p`: C29's `Inv` for the shared map, the owned lists are exactly the non-empty lists of
`Map32`'s bookkeeping, no region is owned twice, and **the page resource's own head of every space is
the head of the list of the regions that space owns** (`head_is_list_head`).

Proved (complete proofs): `pinv_init`, `pinv_grow`, `grow_ok`, `pinv_release`, `release_isSome`,
`pinv_releaseAll`, `releaseAll_isSome`, the history layer (`POp`, `PPre`, `pstep`, `prun`, `PValid`,
`pr_history_inv`, `pr_history_no_panic`, `pr_history_inv_init`) and the user-facing corollaries
`head_is_list_head`, `pr_history_walk` (walking `get_next_contiguous_region` from the REAL head visits
exactly the regions the space owns), `pr_history_owned_regions`.

The protocol `PPre` only says: at least one chunk is requested; a space releases regions it owns;
`release_all_chunks` on a space with at most 4097 regions (the model's loops carry 4096 units of fuel).
That the head passed to `allocate_contiguous_chunks` is a list head is no longer a hypothesis: it is a
consequence of the invariant.

At the end: satisfiability examples and a `decide`-checked witness that the swapped order of
`release_discontiguous_chunks` (`PR.releaseSwapped`: free first, read the successor afterwards) loses
the list.
-/
namespace Mmtk.Map32

/-- What each space owns: its region starts, most recently acquired first (the Python oracle's
bookkeeping), on top of the bookkeeping `g` of the shared `Map32`. -/
structure PG where
  g : G := {}
  owned : Nat → List Nat := fun _ => []

/-- `grow_discontiguous_space` of space `sp` returned `c`; `head` = the space's head before the call. -/
def PG.grow (pg : PG) (sp d k head c : Nat) : PG :=
  if c = 0 then pg else
    { g := pg.g.alloc d k head c, owned := fun s => if s = sp then c :: pg.owned sp else pg.owned s }

/-- `release_discontiguous_chunks(c)`. -/
def PG.release (pg : PG) (c : Nat) : PG :=
  { g := pg.g.free c, owned := fun s => (pg.owned s).filter (· != c) }

/-- `release_all_chunks()` of space `sp`; `head` = the space's head before the call. -/
def PG.releaseAll (pg : PG) (sp head : Nat) : PG :=
  { g := pg.g.freeAll head, owned := fun s => if s = sp then [] else pg.owned s }

/-- The page-resource invariant. -/
structure PInv (lo hi : Nat) (pg : PG) (p : PR) : Prop where
  inv : Inv lo hi pg.g p.st
  owned_mem : ∀ sp, pg.owned sp ≠ [] → pg.owned sp ∈ pg.g.lists
  lists_owned : ∀ l ∈ pg.g.lists, l ≠ [] → ∃ sp, pg.owned sp = l
  owned_disj : ∀ sp sp' x, x ∈ pg.owned sp → x ∈ pg.owned sp' → sp = sp'
  head_is_list_head : ∀ sp, p.heads sp = (pg.owned sp).headD 0

/-! ## small list lemmas -/

theorem filter_notContains_of_disjoint {S l : List Nat} (h : ∀ x ∈ l, x ∉ S) :
    l.filter (fun x => !S.contains x) = l := by
  rw [List.filter_eq_self]; intro x hx; simp [h x hx]

theorem filter_notContains_self (l : List Nat) : l.filter (fun x => !l.contains x) = [] := by
  rw [List.filter_eq_nil_iff]; intro x hx; simp [hx]

theorem filter_ne_of_not_mem {l : List Nat} {c : Nat} (h : c ∉ l) : l.filter (· != c) = l := by
  rw [List.filter_eq_self]; intro x hx; simp only [bne_iff_ne, ne_eq]; rintro rfl; exact h hx

theorem mem_of_head?_some {l : List Nat} {a : Nat} (h : l.head? = some a) : a ∈ l := by
  cases l with
  | nil => cases h
  | cons b t => simp at h; subst h; exact List.mem_cons_self ..

/-- `pushList c head L` when `l0 ∈ L` is the list whose head is `head`: `l0` becomes `c :: l0`, every
other list stays. -/
theorem pushList_of_head {c head : Nat} : ∀ {L : List (List Nat)} {l0 : List Nat}, L.flatten.Nodup →
    l0 ∈ L → l0.head? = some head →
    (c :: l0) ∈ pushList c head L ∧ (∀ l ∈ L, l ≠ l0 → l ∈ pushList c head L) ∧
    (∀ l' ∈ pushList c head L, l' = c :: l0 ∨ (l' ∈ L ∧ l' ≠ l0))
  | [], _, _, h, _ => by cases h
  | l :: ls, l0, hnd, hl0, hh0 => by
    have hnd' := hnd
    rw [List.flatten_cons, List.nodup_append] at hnd'
    have hm0 := mem_of_head?_some hh0
    unfold pushList
    by_cases hh : l.head? = some head
    · rw [if_pos hh]
      have hml := mem_of_head?_some hh
      have hnot : l0 ∉ ls := fun m => hnd'.2.2 head hml head (List.mem_flatten.2 ⟨l0, m, hm0⟩) rfl
      have he : l0 = l := by
        rcases List.mem_cons.1 hl0 with e | m
        · exact e
        · exact absurd m hnot
      subst he
      refine ⟨List.mem_cons_self .., ?_, ?_⟩
      · intro l' hl' hne
        rcases List.mem_cons.1 hl' with e | m
        · exact absurd e hne
        · exact List.mem_cons_of_mem _ m
      · intro l' hl'
        rcases List.mem_cons.1 hl' with e | m
        · exact Or.inl e
        · exact Or.inr ⟨List.mem_cons_of_mem _ m, fun e => hnot (e ▸ m)⟩
    · rw [if_neg hh]
      have hne0 : l0 ≠ l := fun e => hh (e ▸ hh0)
      have hl0' : l0 ∈ ls := by
        rcases List.mem_cons.1 hl0 with e | m
        · exact absurd e hne0
        · exact m
      obtain ⟨i1, i2, i3⟩ := pushList_of_head (c := c) hnd'.2.1 hl0' hh0
      refine ⟨List.mem_cons_of_mem _ i1, ?_, ?_⟩
      · intro l' hl' hne
        rcases List.mem_cons.1 hl' with e | m
        · rw [e]; exact List.mem_cons_self ..
        · exact List.mem_cons_of_mem _ (i2 l' m hne)
      · intro l' hl'
        rcases List.mem_cons.1 hl' with e | m
        · exact Or.inr ⟨by rw [e]; exact List.mem_cons_self .., fun e' => hne0 (e'.symm.trans e)⟩
        · rcases i3 l' m with e | ⟨m', hne⟩
          · exact Or.inl e
          · exact Or.inr ⟨List.mem_cons_of_mem _ m', hne⟩

/-! ## what the page-resource operations do to the shared map and to the heads -/

theorem PR.grow_spec {debug : Bool} {p p' : PR} {sp d k c : Nat} (h : p.grow debug sp d k = (p', .val c)) :
    allocate debug p.st d k (p.heads sp) = (p'.st, .val c) ∧
    p'.heads = if c = 0 then p.heads else upd p.heads sp c := by
  unfold PR.grow at h
  split at h
  · rename_i st' c1 heq
    split at h
    · rename_i hc
      have hc0 : c1 = 0 := by simpa using hc
      simp only [Prod.mk.injEq, R.val.injEq] at h
      obtain ⟨rfl, rfl⟩ := h
      exact ⟨by rw [heq, hc0], by rw [if_pos rfl]⟩
    · rename_i hc
      have hc0 : c1 ≠ 0 := by simpa using hc
      simp only [Prod.mk.injEq, R.val.injEq] at h
      obtain ⟨rfl, rfl⟩ := h
      exact ⟨heq, by rw [if_neg hc0]⟩
  · rename_i st' r hnv heq
    simp only [Prod.mk.injEq] at h
    exact absurd h.2 (hnv c)

theorem PR.release_spec {debug : Bool} {p p' : PR} {sp c : Nat} (h : p.release debug sp c = some p') :
    ∃ n, freeNoLock debug p.st c = some (p'.st, n) ∧
      p'.heads = if c = p.heads sp then upd p.heads sp (nextRegion p.st c) else p.heads := by
  unfold PR.release at h
  dsimp only at h
  split at h
  · rename_i st' n heq
    simp only [Option.some.injEq] at h
    subst h
    refine ⟨n, heq, ?_⟩
    simp only [beq_iff_eq]
  · cases h

theorem PR.releaseAll_spec {debug : Bool} {p p' : PR} {sp : Nat} (h : p.releaseAll debug sp = some p') :
    freeAll debug p.st (p.heads sp) 4096 = some p'.st ∧ p'.heads = upd p.heads sp 0 := by
  unfold PR.releaseAll at h
  split at h
  · rename_i st' heq
    simp only [Option.some.injEq] at h
    subst h
    exact ⟨heq, rfl⟩
  · cases h

/-! ## consequences of the invariant -/

theorem PInv.owned_flat {lo hi : Nat} {pg : PG} {p : PR} (hP : PInv lo hi pg p) {sp x : Nat}
    (hx : x ∈ pg.owned sp) : x ∈ pg.g.lists.flatten :=
  List.mem_flatten.2 ⟨_, hP.owned_mem sp (List.ne_nil_of_mem hx), hx⟩

/-- The head a page resource passes to `allocate_contiguous_chunks` is `0` or the head of a list: the
protocol hypothesis of C29's `inv_allocate` is a consequence of the invariant. -/
theorem PInv.head_ok {lo hi : Nat} {pg : PG} {p : PR} (hP : PInv lo hi pg p) (sp : Nat) :
    p.heads sp = 0 ∨ ∃ l ∈ pg.g.lists, l.head? = some (p.heads sp) := by
  rw [hP.head_is_list_head sp]
  cases h : pg.owned sp with
  | nil => exact Or.inl rfl
  | cons a t =>
    have := hP.owned_mem sp (by rw [h]; exact List.cons_ne_nil _ _)
    rw [h] at this
    exact Or.inr ⟨_, this, rfl⟩

/-- The argument a page resource passes to `free_all_chunks` is `0` or a member of a list. -/
theorem PInv.releaseAll_pre {lo hi : Nat} {pg : PG} {p : PR} (hP : PInv lo hi pg p) {sp : Nat}
    (hlen : (pg.owned sp).length ≤ 4096 + 1) :
    p.heads sp = 0 ∨ ∃ l ∈ pg.g.lists, p.heads sp ∈ l ∧ l.length ≤ 4096 + 1 := by
  rw [hP.head_is_list_head sp]
  cases h : pg.owned sp with
  | nil => exact Or.inl rfl
  | cons a t =>
    have := hP.owned_mem sp (by rw [h]; exact List.cons_ne_nil _ _)
    rw [h] at this hlen
    exact Or.inr ⟨_, this, List.mem_cons_self .., hlen⟩

/-- `g.freeAll (heads sp)` frees exactly the regions `sp` owns. -/
theorem PInv.freeAll_head {lo hi : Nat} {pg : PG} {p : PR} (hP : PInv lo hi pg p) (sp : Nat) :
    pg.g.freeAll (p.heads sp) = pg.g.freeSet (pg.owned sp) := by
  rw [hP.head_is_list_head sp]
  cases h : pg.owned sp with
  | nil => rw [G.freeSet_nil]; exact G.freeAll_zero hP.inv
  | cons a t =>
    have := hP.owned_mem sp (by rw [h]; exact List.cons_ne_nil _ _)
    rw [h] at this
    exact G.freeAll_eq hP.inv this (List.mem_cons_self ..)

/-! ## the initial state -/

theorem pinv_init {M first last : Nat} (h1 : 0 < first) (h2 : first ≤ last) (h3 : last < M) :
    PInv first (last + 1) {} { st := finalize M first last } :=
  ⟨inv_init h1 h2 h3, fun _ h => absurd rfl h, fun _ hl => (by cases hl),
   fun _ _ _ hx => (by cases hx), fun _ => rfl⟩

/-! ## `grow_discontiguous_space` -/

/-- **Preservation by `grow_discontiguous_space`** (`c = 0`: exhausted, nothing changes). -/
theorem pinv_grow {lo hi : Nat} {pg : PG} {p p' : PR} {debug : Bool} {sp d k c : Nat}
    (hP : PInv lo hi pg p) (hk : 1 ≤ k) (h : p.grow debug sp d k = (p', .val c)) :
    PInv lo hi (pg.grow sp d k (p.heads sp) c) p' := by
  obtain ⟨hal, hheads⟩ := PR.grow_spec h
  have hI' := inv_allocate hP.inv hk (hP.head_ok sp) hal
  by_cases hc : c = 0
  · subst hc
    have hg : pg.grow sp d k (p.heads sp) 0 = pg := by unfold PG.grow; rw [if_pos rfl]
    have hga : pg.g.alloc d k (p.heads sp) 0 = pg.g := by unfold G.alloc; rw [if_pos rfl]
    rw [hg]
    rw [hga] at hI'
    rw [if_pos rfl] at hheads
    exact ⟨hI', hP.owned_mem, hP.lists_owned, hP.owned_disj,
      fun s => by rw [hheads]; exact hP.head_is_list_head s⟩
  · have hg : pg.grow sp d k (p.heads sp) c =
        { g := pg.g.alloc d k (p.heads sp) c,
          owned := fun s => if s = sp then c :: pg.owned sp else pg.owned s } := by
      unfold PG.grow; rw [if_neg hc]
    have hga : pg.g.alloc d k (p.heads sp) c =
        { regions := ⟨c, k, d⟩ :: pg.g.regions, lists := pushList c (p.heads sp) pg.g.lists } := by
      unfold G.alloc; rw [if_neg hc]
    rw [hg]
    rw [if_neg hc] at hheads
    have hnd := hP.inv.links_exact.1
    have hnd' : (pushList c (p.heads sp) pg.g.lists).flatten.Nodup := by
      have := hI'.links_exact.1; rw [hga] at this; exact this
    have hcnot : c ∉ pg.g.lists.flatten := by
      rw [(pushList_perm c (p.heads sp) pg.g.lists).nodup_iff, List.nodup_cons] at hnd'; exact hnd'.1
    have hcown : ∀ s, c ∉ pg.owned s := fun s m => hcnot (hP.owned_flat m)
    have hlists : (c :: pg.owned sp) ∈ pushList c (p.heads sp) pg.g.lists ∧
        (∀ l ∈ pg.g.lists, l ≠ pg.owned sp → l ∈ pushList c (p.heads sp) pg.g.lists) ∧
        (∀ l' ∈ pushList c (p.heads sp) pg.g.lists, l' ≠ [] →
          l' = c :: pg.owned sp ∨ (l' ∈ pg.g.lists ∧ l' ≠ pg.owned sp)) := by
      have hhd := hP.head_is_list_head sp
      cases hl : pg.owned sp with
      | nil =>
        rw [hl] at hhd
        have hh0 : p.heads sp = 0 := hhd
        have hno : ∀ l ∈ pg.g.lists, l.head? ≠ some (p.heads sp) := by
          intro l hl' e
          rw [hh0] at e
          exact hP.inv.zero_not_mem (List.mem_flatten.2 ⟨l, hl', mem_of_head?_some e⟩)
        rw [pushList_nohead hno]
        refine ⟨List.mem_append_right _ (List.mem_singleton.2 rfl), fun l hl' _ => List.mem_append_left _ hl', ?_⟩
        intro l' hl' hne
        rcases List.mem_append.1 hl' with m | m
        · exact Or.inr ⟨m, hne⟩
        · exact Or.inl (List.mem_singleton.1 m)
      | cons a t =>
        rw [hl] at hhd
        have hha : p.heads sp = a := hhd
        have hmem := hP.owned_mem sp (by rw [hl]; exact List.cons_ne_nil _ _)
        rw [hl] at hmem
        obtain ⟨i1, i2, i3⟩ := pushList_of_head (c := c) (head := p.heads sp) hnd hmem (by rw [hha]; rfl)
        exact ⟨i1, i2, fun l' hl' _ => i3 l' hl'⟩
    refine ⟨hI', ?_, ?_, ?_, ?_⟩
    · intro s hs
      dsimp only at hs ⊢
      rw [hga]
      by_cases hs' : s = sp
      · rw [if_pos hs']; exact hlists.1
      · rw [if_neg hs'] at hs ⊢
        refine hlists.2.1 _ (hP.owned_mem s hs) ?_
        intro e
        obtain ⟨x, hx⟩ := List.exists_mem_of_ne_nil _ hs
        exact hs' (hP.owned_disj s sp x hx (e ▸ hx))
    · intro l' hl' hne
      dsimp only at hl' ⊢
      rw [hga] at hl'
      rcases hlists.2.2 l' hl' hne with e | ⟨hl, hne2⟩
      · exact ⟨sp, by rw [if_pos rfl, e]⟩
      · obtain ⟨s, hs⟩ := hP.lists_owned l' hl hne
        refine ⟨s, ?_⟩
        rw [if_neg]
        · exact hs
        · intro e; rw [e] at hs; exact hne2 hs.symm
    · intro s s' x hx hx'
      dsimp only at hx hx'
      by_cases h1 : s = sp <;> by_cases h2 : s' = sp
      · rw [h1, h2]
      · rw [if_pos h1] at hx; rw [if_neg h2] at hx'
        rcases List.mem_cons.1 hx with e | m
        · exact absurd (e ▸ hx') (hcown s')
        · rw [h1]; exact hP.owned_disj sp s' x m hx'
      · rw [if_neg h1] at hx; rw [if_pos h2] at hx'
        rcases List.mem_cons.1 hx' with e | m
        · exact absurd (e ▸ hx) (hcown s)
        · rw [h2]; exact hP.owned_disj s sp x hx m
      · rw [if_neg h1] at hx; rw [if_neg h2] at hx'
        exact hP.owned_disj s s' x hx hx'
    · intro s
      rw [hheads]
      dsimp only
      by_cases hs : s = sp
      · rw [if_pos hs]; simp [upd, hs]
      · rw [if_neg hs]; simp only [upd, if_neg hs]; exact hP.head_is_list_head s

/-- Under the invariant `grow_discontiguous_space` (with `chunks ≥ 1`) hits no assertion. -/
theorem grow_ok {lo hi : Nat} {pg : PG} {p : PR} (hP : PInv lo hi pg p) (debug : Bool) (sp d : Nat) {k : Nat}
    (hk : 1 ≤ k) : ∃ c, (p.grow debug sp d k).2 = R.val c := by
  obtain ⟨c, hc⟩ := allocate_ok hP.inv debug d hk (hP.head_ok sp)
  unfold PR.grow
  cases hal : allocate debug p.st d k (p.heads sp) with
  | mk st' r =>
    rw [hal] at hc
    dsimp only at hc
    subst hc
    dsimp only
    by_cases hc0 : c = 0
    · exact ⟨0, by simp [hc0]⟩
    · exact ⟨c, by simp [hc0]⟩

/-! ## `release_discontiguous_chunks` -/

/-- **Preservation by `release_discontiguous_chunks(c)`** for a region `c` the space owns. -/
theorem pinv_release {lo hi : Nat} {pg : PG} {p p' : PR} {debug : Bool} {sp c : Nat}
    (hP : PInv lo hi pg p) (hc : c ∈ pg.owned sp) (h : p.release debug sp c = some p') :
    PInv lo hi (pg.release c) p' := by
  obtain ⟨n, hfree, hheads⟩ := PR.release_spec h
  have hcf := hP.owned_flat hc
  obtain ⟨r, hr, hrs⟩ := (hP.inv.links_exact.2.1 c).1 hcf
  subst hrs
  have hI' := (inv_free hP.inv hr hfree).2
  have hlists := G.free_lists pg.g r.start
  have hnd := hP.inv.links_exact.1
  have hlmem := hP.owned_mem sp (List.ne_nil_of_mem hc)
  have hndl := nodup_of_mem_flatten hnd hlmem
  have hlk := hP.inv.links_exact.2.2.1 _ hlmem
  have h0 : 0 ∉ pg.owned sp := fun m => hP.inv.zero_not_mem (hP.owned_flat m)
  have hother : ∀ s, s ≠ sp → (pg.owned s).filter (· != r.start) = pg.owned s :=
    fun s hs => filter_ne_of_not_mem (fun m => hs (hP.owned_disj s sp _ m hc))
  refine ⟨hI', ?_, ?_, ?_, ?_⟩
  · intro s hs
    show (pg.owned s).filter (· != r.start) ∈ (pg.g.free r.start).lists
    rw [hlists, List.mem_map]
    have hne : pg.owned s ≠ [] := by
      intro e
      apply hs
      show (pg.owned s).filter (· != r.start) = []
      rw [e]; rfl
    exact ⟨_, hP.owned_mem s hne, rfl⟩
  · intro l' hl' hne
    change l' ∈ (pg.g.free r.start).lists at hl'
    rw [hlists, List.mem_map] at hl'
    obtain ⟨l, hl, rfl⟩ := hl'
    have hne' : l ≠ [] := by rintro rfl; exact hne rfl
    obtain ⟨s, hs⟩ := hP.lists_owned l hl hne'
    exact ⟨s, by show (pg.owned s).filter (· != r.start) = _; rw [hs]⟩
  · intro s s' x hx hx'
    exact hP.owned_disj s s' x (List.mem_filter.1 hx).1 (List.mem_filter.1 hx').1
  · intro s
    show p'.heads s = ((pg.owned s).filter (· != r.start)).headD 0
    rw [hheads]
    by_cases hs : s = sp
    · rw [hs]
      cases hl : pg.owned sp with
      | nil => rw [hl] at hc; cases hc
      | cons a t =>
        have hha : p.heads sp = a := by rw [hP.head_is_list_head sp, hl]; rfl
        rw [hl] at hndl hlk h0
        have ha0 : a ≠ 0 := fun e => h0 (e ▸ List.mem_cons_self ..)
        have hat : a ∉ t := (List.nodup_cons.1 hndl).1
        rw [hha]
        by_cases hca : r.start = a
        · rw [if_pos hca, hca]
          have hnr : nextRegion p.st a = t.headD 0 := by
            unfold nextRegion
            rw [hlk.2.1]
            generalize t.headD 0 = v
            by_cases e : v = 0
            · subst e; simp
            · simp [ha0, e]
          simp only [upd, if_true, List.filter_cons, bne_self_eq_false, Bool.false_eq_true, if_false,
            filter_ne_of_not_mem hat, hnr]
        · rw [if_neg hca]
          have hb : (a != r.start) = true := by simpa using (fun e : a = r.start => hca e.symm)
          simp only [List.filter_cons, hb, if_true, List.headD_cons]
          exact hha
    · rw [hother s hs]
      split
      · simp only [upd, if_neg hs]; exact hP.head_is_list_head s
      · exact hP.head_is_list_head s

/-- Releasing an owned region never panics (`debug_assert!(!get_free(unit))` does not fire). -/
theorem release_isSome {lo hi : Nat} {pg : PG} {p : PR} (hP : PInv lo hi pg p) (debug : Bool) {sp c : Nat}
    (hc : c ∈ pg.owned sp) : ∃ p', p.release debug sp c = some p' := by
  obtain ⟨r, hr, hrs⟩ := (hP.inv.links_exact.2.1 c).1 (hP.owned_flat hc)
  subst hrs
  obtain ⟨st', n, hf⟩ := freeNoLock_isSome hP.inv hr debug
  unfold PR.release
  simp only [hf]
  exact ⟨_, rfl⟩

/-! ## `release_all_chunks` -/

/-- **Preservation by `release_all_chunks()`** of a space with at most 4097 regions: exactly the
regions of that space are freed, every other space's list is untouched. -/
theorem pinv_releaseAll {lo hi : Nat} {pg : PG} {p p' : PR} {debug : Bool} {sp : Nat}
    (hP : PInv lo hi pg p) (hlen : (pg.owned sp).length ≤ 4096 + 1)
    (h : p.releaseAll debug sp = some p') : PInv lo hi (pg.releaseAll sp (p.heads sp)) p' := by
  obtain ⟨hfa, hheads⟩ := PR.releaseAll_spec h
  have hI' := inv_freeAll hP.inv (hP.releaseAll_pre hlen) hfa
  have hgS := hP.freeAll_head sp
  have hlists : (pg.g.freeAll (p.heads sp)).lists =
      pg.g.lists.map (fun l => l.filter (fun x => !(pg.owned sp).contains x)) := by rw [hgS]; rfl
  have hother : ∀ s, s ≠ sp → (pg.owned s).filter (fun x => !(pg.owned sp).contains x) = pg.owned s :=
    fun s hs => filter_notContains_of_disjoint (fun x hx m => hs (hP.owned_disj s sp x hx m))
  refine ⟨hI', ?_, ?_, ?_, ?_⟩
  · intro s hs
    show (if s = sp then [] else pg.owned s) ∈ (pg.g.freeAll (p.heads sp)).lists
    change (if s = sp then [] else pg.owned s) ≠ [] at hs
    by_cases hs' : s = sp
    · rw [if_pos hs'] at hs; exact absurd rfl hs
    · rw [if_neg hs'] at hs ⊢
      rw [hlists, List.mem_map]
      exact ⟨_, hP.owned_mem s hs, hother s hs'⟩
  · intro l' hl' hne
    change l' ∈ (pg.g.freeAll (p.heads sp)).lists at hl'
    rw [hlists, List.mem_map] at hl'
    obtain ⟨l, hl, rfl⟩ := hl'
    have hne' : l ≠ [] := by rintro rfl; exact hne rfl
    obtain ⟨s, hs⟩ := hP.lists_owned l hl hne'
    have hs' : s ≠ sp := by
      intro e
      rw [e] at hs
      rw [← hs] at hne
      exact hne (filter_notContains_self _)
    refine ⟨s, ?_⟩
    show (if s = sp then [] else pg.owned s) = _
    rw [if_neg hs', ← hs, hother s hs']
  · intro s s' x hx hx'
    change x ∈ (if s = sp then [] else pg.owned s) at hx
    change x ∈ (if s' = sp then [] else pg.owned s') at hx'
    by_cases h1 : s = sp
    · rw [if_pos h1] at hx; cases hx
    · by_cases h2 : s' = sp
      · rw [if_pos h2] at hx'; cases hx'
      · rw [if_neg h1] at hx; rw [if_neg h2] at hx'
        exact hP.owned_disj s s' x hx hx'
  · intro s
    show p'.heads s = (if s = sp then [] else pg.owned s).headD 0
    rw [hheads]
    by_cases hs : s = sp
    · rw [if_pos hs]; simp [upd, hs]
    · rw [if_neg hs]; simp only [upd, if_neg hs]; exact hP.head_is_list_head s

/-- `release_all_chunks()` never panics. -/
theorem releaseAll_isSome {lo hi : Nat} {pg : PG} {p : PR} (hP : PInv lo hi pg p) (debug : Bool) {sp : Nat}
    (hlen : (pg.owned sp).length ≤ 4096 + 1) : ∃ p', p.releaseAll debug sp = some p' := by
  obtain ⟨st', hf, _⟩ := freeAll_spec hP.inv (debug := debug) (hP.releaseAll_pre hlen)
  unfold PR.releaseAll
  simp only [hf]
  exact ⟨_, rfl⟩

/-! ## Histories -/

/-- The operations of the spaces on their page resources. -/
inductive POp
  /-- `grow_discontiguous_space(descriptor, chunks)` of space `sp` -/
  | grow (sp d k : Nat)
  /-- `release_discontiguous_chunks(chunk)` of space `sp` -/
  | release (sp c : Nat)
  /-- `release_all_chunks()` of space `sp` -/
  | releaseAll (sp : Nat)
deriving Repr, DecidableEq

/-- The callers' protocol: at least one chunk is requested; a space releases a region it owns;
`release_all_chunks` on a space with at most 4097 regions (the fuel of the model's loops). -/
def PPre (pg : PG) : POp → Prop
  | .grow _ _ k => 1 ≤ k
  | .release sp c => c ∈ pg.owned sp
  | .releaseAll sp => (pg.owned sp).length ≤ 4096 + 1

/-- One operation on the model together with the bookkeeping; `none` = panic. -/
def pstep (debug : Bool) (pg : PG) (p : PR) : POp → Option (PG × PR)
  | .grow sp d k =>
    match p.grow debug sp d k with
    | (p', .val c) => some (pg.grow sp d k (p.heads sp) c, p')
    | _ => none
  | .release sp c =>
    match p.release debug sp c with
    | some p' => some (pg.release c, p')
    | none => none
  | .releaseAll sp =>
    match p.releaseAll debug sp with
    | some p' => some (pg.releaseAll sp (p.heads sp), p')
    | none => none

def prun (debug : Bool) : PG → PR → List POp → Option (PG × PR)
  | pg, p, [] => some (pg, p)
  | pg, p, op :: ops =>
    match pstep debug pg p op with
    | none => none
    | some (pg', p') => prun debug pg' p' ops

/-- Every operation of the history respects the protocol in the state it is applied to. -/
def PValid (debug : Bool) : PG → PR → List POp → Prop
  | _, _, [] => True
  | pg, p, op :: ops =>
    PPre pg op ∧ match pstep debug pg p op with
      | none => True
      | some (pg', p') => PValid debug pg' p' ops

theorem pinv_step {lo hi : Nat} {pg : PG} {p : PR} (hP : PInv lo hi pg p) {debug : Bool} {op : POp}
    (hpre : PPre pg op) {pg' : PG} {p' : PR} (h : pstep debug pg p op = some (pg', p')) :
    PInv lo hi pg' p' := by
  cases op with
  | grow sp d k =>
    simp only [pstep] at h
    split at h
    · rename_i p1 c heq
      simp only [Option.some.injEq, Prod.mk.injEq] at h
      obtain ⟨rfl, rfl⟩ := h
      exact pinv_grow hP hpre heq
    · cases h
  | release sp c =>
    simp only [pstep] at h
    split at h
    · rename_i p1 heq
      simp only [Option.some.injEq, Prod.mk.injEq] at h
      obtain ⟨rfl, rfl⟩ := h
      exact pinv_release hP hpre heq
    · cases h
  | releaseAll sp =>
    simp only [pstep] at h
    split at h
    · rename_i p1 heq
      simp only [Option.some.injEq, Prod.mk.injEq] at h
      obtain ⟨rfl, rfl⟩ := h
      exact pinv_releaseAll hP hpre heq
    · cases h

/-- Under the invariant a protocol-respecting operation does not panic, in debug and release. -/
theorem pstep_isSome {lo hi : Nat} {pg : PG} {p : PR} (hP : PInv lo hi pg p) (debug : Bool) {op : POp}
    (hpre : PPre pg op) : ∃ pg' p', pstep debug pg p op = some (pg', p') := by
  cases op with
  | grow sp d k =>
    obtain ⟨c, hc⟩ := grow_ok hP debug sp d (k := k) hpre
    simp only [pstep]
    cases hg : p.grow debug sp d k with
    | mk p1 r =>
      rw [hg] at hc
      dsimp only at hc
      subst hc
      exact ⟨_, _, rfl⟩
  | release sp c =>
    obtain ⟨p1, h⟩ := release_isSome hP debug (sp := sp) (c := c) hpre
    simp only [pstep]
    rw [h]
    exact ⟨_, _, rfl⟩
  | releaseAll sp =>
    obtain ⟨p1, h⟩ := releaseAll_isSome hP debug (sp := sp) hpre
    simp only [pstep]
    rw [h]
    exact ⟨_, _, rfl⟩

/-- **The history invariant** of the page-resource layer. -/
theorem pr_history_inv {lo hi : Nat} {debug : Bool} : ∀ (ops : List POp) {pg : PG} {p : PR}, PInv lo hi pg p →
    PValid debug pg p ops → ∀ {pg' : PG} {p' : PR}, prun debug pg p ops = some (pg', p') → PInv lo hi pg' p'
  | [], pg, p, hP, _, pg', p', h => by
    simp only [prun, Option.some.injEq, Prod.mk.injEq] at h
    obtain ⟨rfl, rfl⟩ := h
    exact hP
  | op :: ops, pg, p, hP, hv, pg', p', h => by
    obtain ⟨hpre, hrest⟩ := hv
    obtain ⟨pg1, p1, hs⟩ := pstep_isSome hP debug hpre
    rw [hs] at hrest
    rw [prun, hs] at h
    exact pr_history_inv ops (pinv_step hP hpre hs) hrest h

/-- A protocol-respecting history never panics. -/
theorem pr_history_no_panic {lo hi : Nat} {debug : Bool} : ∀ (ops : List POp) {pg : PG} {p : PR},
    PInv lo hi pg p → PValid debug pg p ops → ∃ pg' p', prun debug pg p ops = some (pg', p')
  | [], pg, p, _, _ => ⟨pg, p, rfl⟩
  | op :: ops, pg, p, hP, hv => by
    obtain ⟨hpre, hrest⟩ := hv
    obtain ⟨pg1, p1, hs⟩ := pstep_isSome hP debug hpre
    rw [hs] at hrest
    rw [prun, hs]
    exact pr_history_no_panic ops (pinv_step hP hpre hs) hrest

/-- From the finalised state. -/
theorem pr_history_inv_init {M first last : Nat} (h1 : 0 < first) (h2 : first ≤ last) (h3 : last < M)
    {debug : Bool} {ops : List POp} (hv : PValid debug {} { st := finalize M first last } ops)
    {pg : PG} {p : PR} (hr : prun debug {} { st := finalize M first last } ops = some (pg, p)) :
    PInv first (last + 1) pg p :=
  pr_history_inv ops (pinv_init h1 h2 h3) hv hr

/-- **`head_is_list_head`**: after any protocol-respecting history from the finalised state, the page
resource's own head of every space is the head of the list of the regions that space owns (`0` when it
owns none). -/
theorem head_is_list_head {M first last : Nat} (h1 : 0 < first) (h2 : first ≤ last) (h3 : last < M)
    {debug : Bool} {ops : List POp} (hv : PValid debug {} { st := finalize M first last } ops)
    {pg : PG} {p : PR} (hr : prun debug {} { st := finalize M first last } ops = some (pg, p)) :
    ∀ sp, p.heads sp = (pg.owned sp).headD 0 :=
  (pr_history_inv_init h1 h2 h3 hv hr).head_is_list_head

theorem PInv.walk {lo hi : Nat} {pg : PG} {p : PR} (hP : PInv lo hi pg p) (sp fuel : Nat)
    (hf : (pg.owned sp).length ≤ fuel) : walk p.st fuel (p.heads sp) = pg.owned sp := by
  rw [hP.head_is_list_head sp]
  refine walk_linked (pg.owned sp) 0 fuel ?_ (fun m => hP.inv.zero_not_mem (hP.owned_flat m)) hf
  cases hl : pg.owned sp with
  | nil => trivial
  | cons a t =>
    have := hP.owned_mem sp (by rw [hl]; exact List.cons_ne_nil _ _)
    rw [hl] at this
    exact hP.inv.links_exact.2.2.1 _ this

/-- Walking `get_next_contiguous_region` from the REAL head of a space visits exactly the regions the
space owns, most recent first, once. -/
theorem pr_history_walk {M first last : Nat} (h1 : 0 < first) (h2 : first ≤ last) (h3 : last < M)
    {debug : Bool} {ops : List POp} (hv : PValid debug {} { st := finalize M first last } ops)
    {pg : PG} {p : PR} (hr : prun debug {} { st := finalize M first last } ops = some (pg, p)) :
    ∀ sp fuel, (pg.owned sp).length ≤ fuel → walk p.st fuel (p.heads sp) = pg.owned sp :=
  (pr_history_inv_init h1 h2 h3 hv hr).walk

theorem PInv.owned_regions {lo hi : Nat} {pg : PG} {p : PR} (hP : PInv lo hi pg p) :
    (∀ sp c, c ∈ pg.owned sp → ∃ r ∈ pg.g.regions, r.start = c) ∧
    (∀ r ∈ pg.g.regions, ∃ sp, r.start ∈ pg.owned sp ∧ ∀ sp', r.start ∈ pg.owned sp' → sp' = sp) := by
  refine ⟨fun sp c hc => (hP.inv.links_exact.2.1 c).1 (hP.owned_flat hc), ?_⟩
  intro r hr
  obtain ⟨l, hl, hrl⟩ := List.mem_flatten.1 ((hP.inv.links_exact.2.1 r.start).2 ⟨r, hr, rfl⟩)
  obtain ⟨sp, hsp⟩ := hP.lists_owned l hl (List.ne_nil_of_mem hrl)
  exact ⟨sp, hsp ▸ hrl, fun sp' h' => hP.owned_disj sp' sp _ h' (hsp ▸ hrl)⟩

/-- Every region a space owns is an allocated region of the shared map, and every allocated region is
owned by exactly one space. -/
theorem pr_history_owned_regions {M first last : Nat} (h1 : 0 < first) (h2 : first ≤ last) (h3 : last < M)
    {debug : Bool} {ops : List POp} (hv : PValid debug {} { st := finalize M first last } ops)
    {pg : PG} {p : PR} (hr : prun debug {} { st := finalize M first last } ops = some (pg, p)) :
    (∀ sp c, c ∈ pg.owned sp → ∃ r ∈ pg.g.regions, r.start = c) ∧
    (∀ r ∈ pg.g.regions, ∃ sp, r.start ∈ pg.owned sp ∧ ∀ sp', r.start ∈ pg.owned sp' → sp' = sp) :=
  (pr_history_inv_init h1 h2 h3 hv hr).owned_regions

/-! ## The hypotheses are satisfiable: a concrete history -/

instance instDecidablePPre (pg : PG) : (op : POp) → Decidable (PPre pg op)
  | .grow _ _ k => inferInstanceAs (Decidable (1 ≤ k))
  | .release sp c => inferInstanceAs (Decidable (c ∈ pg.owned sp))
  | .releaseAll sp => inferInstanceAs (Decidable ((pg.owned sp).length ≤ 4096 + 1))

/-- Executable version of `PValid` (it computes on the concrete bookkeeping). -/
def pvalidB (debug : Bool) : PG → PR → List POp → Bool
  | _, _, [] => true
  | pg, p, op :: ops =>
    decide (PPre pg op) && match pstep debug pg p op with
      | none => true
      | some (pg', p') => pvalidB debug pg' p' ops

theorem pvalid_of_pvalidB {debug : Bool} : ∀ (ops : List POp) {pg : PG} {p : PR},
    pvalidB debug pg p ops = true → PValid debug pg p ops
  | [], _, _, _ => trivial
  | op :: ops, pg, p, h => by
    simp only [pvalidB, Bool.and_eq_true, decide_eq_true_eq] at h
    refine ⟨h.1, ?_⟩
    cases hs : pstep debug pg p op with
    | none => trivial
    | some q =>
      obtain ⟨pg', p'⟩ := q
      rw [hs] at h
      exact pvalid_of_pvalidB ops h.2

/-- A history on the range `[2, 10)` of a 12-chunk map, two spaces (0 with descriptor 4, 1 with
descriptor 8): grows of both, release of a head region, re-grow, release of a middle region,
`release_all_chunks`, an exhausted grow, `release_all_chunks` of the other space and of an empty one. -/
def exPOps : List POp :=
  [.grow 0 4 3, .grow 0 4 2, .grow 1 8 1, .grow 0 4 1, .release 0 8, .grow 0 4 1, .release 0 5,
   .grow 1 8 1, .releaseAll 0, .grow 0 4 9, .releaseAll 1, .releaseAll 0]

/-- What the examples look at: heads of spaces 0 and 1, their owned lists, the walks from the real
heads, and `Map32`'s lists. -/
structure PView where
  head0 : Nat
  head1 : Nat
  owned0 : List Nat
  owned1 : List Nat
  walk0 : List Nat
  walk1 : List Nat
  lists : List (List Nat)
deriving Repr, DecidableEq

def pview (q : Option (PG × PR)) : Option PView :=
  q.map fun (pg, p) => ⟨p.heads 0, p.heads 1, pg.owned 0, pg.owned 1, walk p.st 8 (p.heads 0),
    walk p.st 8 (p.heads 1), pg.g.lists⟩

example : PValid true {} { st := finalize 12 2 9 } exPOps := pvalid_of_pvalidB _ (by decide +kernel)
example : PValid false {} { st := finalize 12 2 9 } exPOps := pvalid_of_pvalidB _ (by decide +kernel)

/-- After the first four operations space 0 owns `8, 5, 2` (head 8), space 1 owns `7`. -/
example : pview (prun true {} { st := finalize 12 2 9 } (exPOps.take 4)) =
    some ⟨8, 7, [8, 5, 2], [7], [8, 5, 2], [7], [[8, 5, 2], [7]]⟩ := by decide +kernel

/-- Releasing the HEAD region 8 of space 0: the real head moves to its successor 5 and the walk from
the real head returns the remaining regions. -/
example : pview (prun true {} { st := finalize 12 2 9 } (exPOps.take 5)) =
    some ⟨5, 7, [5, 2], [7], [5, 2], [7], [[5, 2], [7]]⟩ := by decide +kernel
example : pview (prun false {} { st := finalize 12 2 9 } (exPOps.take 5)) =
    some ⟨5, 7, [5, 2], [7], [5, 2], [7], [[5, 2], [7]]⟩ := by decide +kernel

/-- Releasing a MIDDLE region (5 of `8, 5, 2`): the head stays, the walk skips it. -/
example : pview (prun true {} { st := finalize 12 2 9 } (exPOps.take 7)) =
    some ⟨8, 7, [8, 2], [7], [8, 2], [7], [[8, 2], [7]]⟩ := by decide +kernel

/-- `release_all_chunks` of space 0 leaves space 1 (which re-used chunk 5) untouched. -/
example : pview (prun true {} { st := finalize 12 2 9 } (exPOps.take 9)) =
    some ⟨0, 5, [], [5, 7], [], [5, 7], [[], [5, 7]]⟩ := by decide +kernel

/-- So `PInv` holds for a non-trivial state (`pr_history_inv_init` applied to a concrete history). -/
example : ∃ pg p, prun true {} { st := finalize 12 2 9 } (exPOps.take 8) = some (pg, p) ∧ PInv 2 10 pg p ∧
    pg.owned 0 = [8, 2] ∧ pg.owned 1 = [5, 7] := by
  have hv : PValid true {} { st := finalize 12 2 9 } (exPOps.take 8) := pvalid_of_pvalidB _ (by decide +kernel)
  obtain ⟨pg, p, h⟩ := pr_history_no_panic (debug := true) (exPOps.take 8)
    (pinv_init (M := 12) (first := 2) (last := 9) (by decide) (by decide) (by decide)) hv
  refine ⟨pg, p, h, pr_history_inv_init (by decide) (by decide) (by decide) hv h, ?_⟩
  have : (prun true {} { st := finalize 12 2 9 } (exPOps.take 8)).map (fun q => (q.1.owned 0, q.1.owned 1)) =
      some ([8, 2], [5, 7]) := by decide +kernel
  rw [h] at this
  simpa using this

/-! ## Witness: the swapped order of `release_discontiguous_chunks` is wrong -/

/-- The seeded regression: `free_contiguous_chunks(chunk)` FIRST, then
`if chunk == *head { *head = get_next_contiguous_region(chunk) }` — on the map after the free, where the
links of `chunk` are already zeroed. -/
def PR.releaseSwapped (debug : Bool) (p : PR) (sp chunk : Nat) : Option PR :=
  match freeNoLock debug p.st chunk with
  | some (st', _) =>
    some { st := st',
           heads := if chunk == p.heads sp then upd p.heads sp (nextRegion st' chunk) else p.heads }
  | none => none

/-- Two grows of space 0 on `finalize 12 2 9` (regions 2 then 5, head 5), then the release of the head
region 5 with both versions: (head after `releaseSwapped`, its walk, head after `release`, its walk,
what the space owns). -/
def swappedWitness : Option (Nat × List Nat × Nat × List Nat × List Nat) :=
  match prun true {} { st := finalize 12 2 9 } [.grow 0 4 3, .grow 0 4 2] with
  | some (pg, p) =>
    match p.releaseSwapped true 0 5, p.release true 0 5 with
    | some p1, some p2 =>
      some (p1.heads 0, walk p1.st 8 (p1.heads 0), p2.heads 0, walk p2.st 8 (p2.heads 0), (pg.release 5).owned 0)
    | _, _ => none
  | none => none

/-- `releaseSwapped` leaves `heads 0 = 0` although the space still owns region 2 (the list is lost:
`head_is_list_head` is violated); `release` gives the older region 2 and the walk finds it. -/
example : swappedWitness = some (0, [], 2, [2], [2]) := by decide +kernel

/-- The same statement against the invariant: the state after `releaseSwapped` does not satisfy `PInv`
for the bookkeeping of the release. -/
example : ∀ pg p p1, prun true {} { st := finalize 12 2 9 } [.grow 0 4 3, .grow 0 4 2] = some (pg, p) →
    p.releaseSwapped true 0 5 = some p1 → ¬ PInv 2 10 (pg.release 5) p1 := by
  intro pg p p1 h1 h2 hP
  have hw : swappedWitness = some (0, [], 2, [2], [2]) := by decide +kernel
  unfold swappedWitness at hw
  rw [h1] at hw
  dsimp only at hw
  rw [h2] at hw
  cases h3 : p.release true 0 5 with
  | none => rw [h3] at hw; cases hw
  | some p2 =>
    rw [h3] at hw
    simp only [Option.some.injEq, Prod.mk.injEq] at hw
    have := hP.head_is_list_head 0
    rw [hw.1, hw.2.2.2.2] at this
    cases this

end Mmtk.Map32
