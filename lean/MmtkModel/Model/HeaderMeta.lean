import MmtkModel.Model.Mem
/-!
# Model of in-header metadata accessors (C23)

Transcribed from `src/util/metadata/header_metadata.rs` (`HeaderMetadataSpec`).  A spec is
`(bit_offset : Int, num_of_bits)`.  Fields narrower than a byte live inside one byte and are accessed
by splicing into that byte; byte-or-wider fields (`u8/u16/u32/u64`) are accessed as native
little-endian words of `w = num_of_bits / 8` bytes, optionally under a mask.  Atomic and
non-atomic variants have the same sequential semantics.  `debug = true` adds the debug assertions.

`cmpxchgBits` / `cmpxchgWordMasked` are the functions as repaired by the `fix:` commits; the
pinned tree's versions are kept as `…Old` (they returned the raw byte / the unmasked word).
-/
namespace Mmtk.HeaderMeta
open Mmtk.Mem

structure Spec where
  bitOffset : Int
  numBits : Nat
deriving Repr, DecidableEq

/-- `bit_offset >> LOG_BITS_IN_BYTE` (arithmetic shift = floor division). -/
def Spec.byteOffset (s : Spec) : Int := s.bitOffset / 8
/-- `bit_offset - (byte_offset << 3)`, in `0..7`. -/
def Spec.shift (s : Spec) : Nat := (s.bitOffset % 8).toNat
/-- `header + byte_offset`. -/
def Spec.addr (s : Spec) (header : Nat) : Nat := ((header : Int) + s.byteOffset).toNat

/-- `assert_spec` for sub-byte fields: the field does not straddle a byte. -/
def Spec.bitsOk (s : Spec) : Prop := 0 < s.numBits ∧ s.numBits < 8 ∧ s.shift + s.numBits ≤ 8
instance (s : Spec) : Decidable s.bitsOk := by unfold Spec.bitsOk; exact inferInstance

/-- `assert_spec::<T>` for byte-or-wider fields with `T` of `w` bytes: offset aligned to `T`. -/
def Spec.wordOk (s : Spec) (w : Nat) : Prop :=
  8 ≤ s.numBits ∧ s.numBits ≤ 64 ∧ (w = 1 ∨ w = 2 ∨ w = 4 ∨ w = 8) ∧ s.bitOffset % (8 * w) = 0
instance (s : Spec) (w : Nat) : Decidable (s.wordOk w) := by unfold Spec.wordOk; exact inferInstance

/-! ## sub-byte fields -/

/-- `((1u8 << num_of_bits) - 1) << bit_shift` on `u8`. -/
def mask8 (s : Spec) : Nat := ((2 ^ s.numBits - 1) <<< s.shift) % 256

/-- `get_bits_from_u8`. -/
def getBits (s : Spec) (raw : Nat) : Nat := (raw &&& mask8 s) >>> s.shift

/-- `set_bits_to_u8` (without its debug assertion): `(raw & !mask) | (set_val << shift)` on `u8`. -/
def setBits (s : Spec) (raw v : Nat) : Nat := (raw &&& (255 - mask8 s)) ||| ((v <<< s.shift) % 256)

/-- `truncate_bits_in_u8`. -/
def truncBits (s : Spec) (v : Nat) : Nat := v &&& (2 ^ s.numBits - 1)

/-- result of an accessor: new memory and returned value; `none` = debug assertion / panic. -/
abbrev Res := Option (Mem × Nat)

/-- `set_bits_to_u8` with its debug assertion `set_val < (1 << num_of_bits)`. -/
def setBitsChecked (debug : Bool) (s : Spec) (raw v : Nat) : Option Nat :=
  if debug && !(v < 2 ^ s.numBits) then none else some (setBits s raw v)

def loadBits (s : Spec) (m : Mem) (h : Nat) : Res :=
  some (m, getBits s (m (s.addr h)))

def storeBits (debug : Bool) (s : Spec) (m : Mem) (h v : Nat) : Res :=
  match setBitsChecked debug s (m (s.addr h)) v with
  | none => none
  | some b => some (set m (s.addr h) b, 0)

/-- `Result<T,T>` of a compare-exchange is encoded as `2 * value + (0 = Ok | 1 = Err)` by the drivers;
here we return `(ok?, value)`. -/
abbrev CasRes := Option (Mem × Bool × Nat)

/-- `compare_exchange`, `num_of_bits < 8` (repaired: both arms return the *field* of the byte). -/
def cmpxchgBits (debug : Bool) (s : Spec) (m : Mem) (h old new : Nat) : CasRes :=
  let a := s.addr h
  let real := m a
  match setBitsChecked debug s real old with
  | none => none
  | some expOld =>
    match setBitsChecked debug s expOld new with
    | none => none
    | some expNew =>
      if real = expOld then some (set m a expNew, true, getBits s real)
      else some (m, false, getBits s real)

/-- The pinned tree's version: `.map(|x| from_u8(x))` returned the raw byte. -/
def cmpxchgBitsOld (debug : Bool) (s : Spec) (m : Mem) (h old new : Nat) : CasRes :=
  match cmpxchgBits debug s m h old new with
  | none => none
  | some (m', ok, _) => some (m', ok, m (s.addr h))

/-- `fetch_ops_on_bits` with `update`: new field = `truncate(update(old field))`. -/
def fetchOpBits (debug : Bool) (s : Spec) (m : Mem) (h : Nat) (update : Nat → Nat) : Res :=
  let a := s.addr h
  let raw := m a
  let oldF := getBits s raw
  match setBitsChecked debug s raw (truncBits s (update oldF % 256)) with
  | none => none
  | some b => some (set m a b, oldF)

def fetchAddBits (debug : Bool) (s : Spec) (m : Mem) (h v : Nat) : Res :=
  fetchOpBits debug s m h (fun x => (x + v) % 256)            -- `x.wrapping_add(val)` on u8
def fetchSubBits (debug : Bool) (s : Spec) (m : Mem) (h v : Nat) : Res :=
  fetchOpBits debug s m h (fun x => (x + 256 - v % 256) % 256)  -- `x.wrapping_sub(val)` on u8

/-- `fetch_and`: `new_val = (val << lshift) | !mask; old = fetch_and(byte, new_val)`. -/
def fetchAndBits (s : Spec) (m : Mem) (h v : Nat) : Res :=
  let a := s.addr h
  let raw := m a
  let nv := ((v <<< s.shift) % 256) ||| (255 - mask8 s)
  some (set m a (raw &&& nv), getBits s raw)

/-- `fetch_or`: `new_val = (val << lshift) & mask; old = fetch_or(byte, new_val)`. -/
def fetchOrBits (s : Spec) (m : Mem) (h v : Nat) : Res :=
  let a := s.addr h
  let raw := m a
  let nv := ((v <<< s.shift) % 256) &&& mask8 s
  some (set m a (raw ||| nv), getBits s raw)

/-- `fetch_update` with `f : old field → Option new`: `Ok(old field)` and splice, or `Err(old field)`. -/
def fetchUpdateBits (debug : Bool) (s : Spec) (m : Mem) (h : Nat) (f : Nat → Option Nat) : CasRes :=
  let a := s.addr h
  let raw := m a
  let oldF := getBits s raw
  match f oldF with
  | none => some (m, false, oldF)
  | some nv =>
    match setBitsChecked debug s raw (truncBits s (nv % 256)) with
    | none => none
    | some b => some (set m a b, true, oldF)

/-! ## byte-or-wider fields: native words of `w` bytes, optional mask -/

def wordMax (w : Nat) : Nat := 256 ^ w

def loadWord (s : Spec) (w : Nat) (m : Mem) (h : Nat) (mask : Option Nat) : Res :=
  let v := readLE m (s.addr h) w
  some (m, match mask with | some k => v &&& k | none => v)

/-- `store`: with a mask, `old & !mask | val & mask`. -/
def storeWord (s : Spec) (w : Nat) (m : Mem) (h v : Nat) (mask : Option Nat) : Res :=
  let a := s.addr h
  let nv := match mask with
    | some k => (readLE m a w &&& (wordMax w - 1 - k)) ||| (v &&& k)
    | none => v
  some (writeLE m a w nv, 0)

/-- `compare_exchange`, byte-or-wider, as repaired: with a mask the returned word is masked
(consistent with `load`); without a mask it is the whole word. -/
def cmpxchgWord (s : Spec) (w : Nat) (m : Mem) (h old new : Nat) (mask : Option Nat) : CasRes :=
  let a := s.addr h
  let cur := readLE m a w
  match mask with
  | none =>
    if cur = old then some (writeLE m a w new, true, cur) else some (m, false, cur)
  | some k =>
    let keep := cur &&& (wordMax w - 1 - k)
    let expOld := keep ||| old
    let expNew := keep ||| new
    if cur = expOld then some (writeLE m a w expNew, true, cur &&& k) else some (m, false, cur &&& k)

/-- The pinned tree's version returned the unmasked word. -/
def cmpxchgWordOld (s : Spec) (w : Nat) (m : Mem) (h old new : Nat) (mask : Option Nat) : CasRes :=
  match cmpxchgWord s w m h old new mask with
  | none => none
  | some (m', ok, _) => some (m', ok, readLE m (s.addr h) w)

def fetchOpWord (s : Spec) (w : Nat) (m : Mem) (h : Nat) (update : Nat → Nat) : Res :=
  let a := s.addr h
  let cur := readLE m a w
  some (writeLE m a w (update cur % wordMax w), cur)

def fetchAddWord (s : Spec) (w : Nat) (m : Mem) (h v : Nat) : Res := fetchOpWord s w m h (· + v)
def fetchSubWord (s : Spec) (w : Nat) (m : Mem) (h v : Nat) : Res :=
  fetchOpWord s w m h (fun x => x + wordMax w - v % wordMax w)
def fetchAndWord (s : Spec) (w : Nat) (m : Mem) (h v : Nat) : Res := fetchOpWord s w m h (· &&& v)
def fetchOrWord (s : Spec) (w : Nat) (m : Mem) (h v : Nat) : Res := fetchOpWord s w m h (· ||| v)

def fetchUpdateWord (s : Spec) (w : Nat) (m : Mem) (h : Nat) (f : Nat → Option Nat) : CasRes :=
  let a := s.addr h
  let cur := readLE m a w
  match f cur with
  | none => some (m, false, cur)
  | some nv => some (writeLE m a w (nv % wordMax w), true, cur)

end Mmtk.HeaderMeta
