import MmtkModel.Model.Heap
import MmtkModel.Model.Gen
import MmtkModel.Model.RefProc
/-!
# Decision functions of the `gcw` monitor (C05, C06) — executable glue between the shadow heap
# (`Model/Heap.lean`) and the transcribed models `Model/Gen.lean`, `Model/RefProc.lean`

Nothing here is a new model of mmtk-core: `promote` is the executable witness of the declarative
`Mmtk.Gen.NurseryGC` (proved in `Props/C05Mon.lean`), `gcStages` runs `Mmtk.RefProc.scanRefs` /
`retainSet` / `FinState.scan` in the order of `GCWorkScheduler::schedule_common_work`
(SoftRefClosure → WeakRefClosure → FinalRefClosure (+ `RescanReferences` sentinel) → PhantomRefClosure,
each after the transitive closure of what the previous stage retained) on the liveness computed by
`Mmtk.Heap.reachFrom` on the shadow heap.
-/
namespace Mmtk.WeakMon
open Mmtk Mmtk.Heap

/-! ## C05 -/

/-- What a collection leaves behind (generational plans): exactly the survivors, all promoted (mature,
unlog bit set — `unlog_traced_object` / `ProcessModBuf`), remembered sets empty. -/
def promote (h : Gen.Heap) (surv : Nat → Bool) : Gen.Heap :=
  { alloc := fun x => h.alloc x && surv x
    young := fun _ => false
    fld := h.fld
    unlogged := fun x => h.alloc x && surv x
    roots := h.roots
    modbuf := []
    rmod := [] }

/-- An empty generational heap. -/
def genEmpty : Gen.Heap :=
  { alloc := fun _ => false, young := fun _ => false, fld := fun _ _ => none, unlogged := fun _ => false,
    roots := [], modbuf := [], rmod := [] }

/-- the values `memory_region_copy` stores into `dst[df, df+n)`: `src[sf + (j - df)]` read before the copy -/
def copyVals (srcFields : List (Option Nat)) (sf df : Nat) : Nat → Option Nat :=
  fun j => (srcFields.getD (sf + (j - df)) none)

/-! ## C06 -/

/-- the referent field (field 0) of a reference object of the shadow heap -/
def referentOf (h : Heap) (r : Nat) : Option Nat :=
  match h.objs[r]? with
  | some o => if o.isRef then (o.fields.head?).join else none
  | none => none

structure WState where
  soft : List Nat := []
  weak : List Nat := []
  phantom : List Nat := []
  fin : RefProc.FinState := { candidates := [], ready := [], popped := [] }
  /-- expected argument multiset of `enqueue_references` since the last `enqueued` op -/
  enq : List Nat := []

structure GcIn where
  heap : Heap
  /-- ids the collection starts from: the root table (full-heap GC) or the root table plus every survivor
  of the previous collection (nursery GC: mature objects are not collected, their fields are
  remembered — C05) -/
  seeds : List Id
  /-- objects of never-collected spaces: `is_live` is constantly true (they are not traced unless reachable) -/
  immortal : Id → Bool
  emergency : Bool := false

structure GcOut where
  w : WState
  /-- reference objects whose referent field the collector cleared -/
  cleared : List Nat
  /-- `is_live` at the end of the pause (after finalizer resurrection): marked or never collected -/
  live : Array Bool
  /-- the marked set at the end of the pause -/
  marked : Array Bool
  /-- enqueued in this pause -/
  enqNow : List Nat

def liveOf (m : Array Bool) (imm : Id → Bool) (n : Nat) : Nat → Bool :=
  fun x => m.getD x false || (decide (x < n) && imm x)

/-- table insertion of `add_candidate` (the tables are hash sets) -/
def addCandidate (t : List Nat) (r : Nat) : List Nat := if t.contains r then t else t ++ [r]

/-- the soft table as a `RefState` over the shadow heap's referent fields -/
def softState (i : GcIn) (w : WState) : RefProc.RefState :=
  { table := w.soft, referent := referentOf i.heap, enqueued := [] }

/-- liveness after the strong closure -/
def live0 (i : GcIn) : Nat → Bool := liveOf (reachFrom i.heap i.seeds) i.immortal i.heap.objs.size

/-- SoftRefClosure: what `retain` traces (nothing in an emergency collection) -/
def retained (i : GcIn) (w : WState) : List Nat :=
  if i.emergency then [] else RefProc.retainSet (live0 i) (softState i w)

/-- liveness when the soft and weak tables are scanned, and when the finalizable candidates are examined -/
def live1 (i : GcIn) (w : WState) : Nat → Bool :=
  liveOf (reachFrom i.heap (i.seeds ++ retained i w)) i.immortal i.heap.objs.size

def soft1 (i : GcIn) (w : WState) : RefProc.RefState := RefProc.scanRefs (live1 i w) (softState i w)

def weak1 (i : GcIn) (w : WState) : RefProc.RefState :=
  RefProc.scanRefs (live1 i w) { table := w.weak, referent := (soft1 i w).referent, enqueued := [] }

def fin1 (i : GcIn) (w : WState) : RefProc.FinState := w.fin.scan (live1 i w)

/-- marked set after FinalRefClosure: `FinalizableProcessor::scan` passes every examined registration through
`keep_alive` (`trace_object`) — the ready ones (resurrected with their closure) and the live candidates too, which
matters for a candidate that is `live` without having been traced (an unreachable object of a never-collected
space: it is traced now and keeps its referents alive) -/
def marked2 (i : GcIn) (w : WState) : Array Bool :=
  reachFrom i.heap (i.seeds ++ retained i w ++ (fin1 i w).ready.map (·.2) ++ (fin1 i w).candidates.map (·.2))

def live2 (i : GcIn) (w : WState) : Nat → Bool := liveOf (marked2 i w) i.immortal i.heap.objs.size

/-- the `RescanReferences` sentinel of FinalRefClosure -/
def soft2 (i : GcIn) (w : WState) : RefProc.RefState :=
  RefProc.scanRefs (live2 i w) { soft1 i w with referent := (weak1 i w).referent }

def weak2 (i : GcIn) (w : WState) : RefProc.RefState :=
  RefProc.scanRefs (live2 i w) { weak1 i w with referent := (soft2 i w).referent }

def phantom2 (i : GcIn) (w : WState) : RefProc.RefState :=
  RefProc.scanRefs (live2 i w) { table := w.phantom, referent := (weak2 i w).referent, enqueued := [] }

/-- One stop-the-world collection as the reference / finalizable processors see it: SoftRefClosure (`retain`
unless emergency, closure, `scan`), WeakRefClosure, FinalRefClosure (finalizable scan; ready objects are kept
alive with their closure; then the rescan sentinel), PhantomRefClosure. -/
def gcStages (i : GcIn) (w : WState) : GcOut :=
  let enqNow := (soft2 i w).enqueued ++ (weak2 i w).enqueued ++ (phantom2 i w).enqueued
  { w := { soft := (soft2 i w).table, weak := (weak2 i w).table, phantom := (phantom2 i w).table, fin := fin1 i w,
           enq := w.enq ++ enqNow }
    cleared := (w.soft ++ w.weak ++ w.phantom).filter fun r =>
      (referentOf i.heap r).isSome && ((phantom2 i w).referent r).isNone
    live := (Array.range i.heap.objs.size).map (live2 i w)
    marked := marked2 i w
    enqNow := enqNow }

/-- `get_all_finalizers`: candidates and ready objects are handed out, nothing stays registered. -/
def finTakeAll (s : RefProc.FinState) : RefProc.FinState × List (Nat × Nat) :=
  ({ s with candidates := [], ready := [], popped := s.popped ++ (s.candidates ++ s.ready) }, s.candidates ++ s.ready)

/-! ## C13: the ephemeron table of the VerifVM binding (harness/src/rt.rs `process_weak_refs`)

Every call traces the values of the entries whose key is reachable and whose value has not been traced in this
pause, and answers `true` iff there was such an entry; the call that finds none drops the entries with unreachable
keys and answers `false`. This is the VM side of the protocol (not mmtk-core): the monitor needs it to predict how
many rounds a pause takes and which entries survive. -/

def markedIds (m : Array Bool) : List Nat := (List.range m.size).filter fun i => m.getD i false

/-- `(answers so far, marked set)` after the remaining rounds; `pend` = entries not traced yet -/
def ephLoop (h : Heap) (imm : Id → Bool) : Nat → Array Bool → List (Nat × Nat) → List Bool → List Bool × Array Bool
  | 0, m, _, rets => (rets, m)
  | fuel + 1, m, pend, rets =>
    -- `ObjectReference::is_reachable`: marked (also for never-collected spaces: ImmortalSpace::is_reachable tests the mark)
    let live := fun x => m.getD x false
    let now := pend.filter fun e => live e.1
    if now.isEmpty then (rets ++ [false], m)
    else ephLoop h imm fuel (reachFrom h (markedIds m ++ now.map (·.2))) (pend.filter fun e => !live e.1) (rets ++ [true])

structure EphOut where
  /-- the answers of `process_weak_refs` in this pause -/
  rets : List Bool
  marked : Array Bool
  /-- surviving entries (key reachable at the end), in table order -/
  table : List (Nat × Nat)
  dropped : List (Nat × Nat)

def ephRounds (h : Heap) (imm : Id → Bool) (marked0 : Array Bool) (table : List (Nat × Nat)) : EphOut :=
  let (rets, m) := ephLoop h imm (table.length + 1) marked0 table []
  let live := fun x => m.getD x false
  { rets := rets, marked := m, table := table.filter (fun e => live e.1), dropped := table.filter (fun e => !live e.1) }

end Mmtk.WeakMon
