import MmtkModel.Model.Heap
import MmtkModel.Model.Gen
import MmtkModel.Model.RefProc
/-!
# Decision functions of the `gcw` monitor (C05, C06) — executable glue between the shadow heap
# (`Model/Heap.lean`) and the transcribed models `Model/Gen.lean`, `Model/RefProc.lean`

Nothing here is a new model of mmtk-core: `promote` is the executable witness of the declarative
`Mmtk.Gen.NurseryGC` (proved in `Props/C05Mon.lean`), `gcStages` runs `Mmtk.RefProc.scanRefs` /
`retainSet` / `FinState.scan` in the order of `GCWorkScheduler::schedule_common_work`
(SoftRefClosure → WeakRefClosure → FinalRefClosure (+ `RescanReferences` sentinel) → PhantomRefClosure,
each after the transitive closure of what the previous stage retained) on the liveness computed by
`Mmtk.Heap.reachFrom` on the shadow heap.
-/
namespace Mmtk.WeakMon
open Mmtk Mmtk.Heap

/-! ## C05 -/

/-- What a collection leaves behind (generational plans): exactly the survivors, all promoted (mature,
unlog bit set — `unlog_traced_object` / `ProcessModBuf`), remembered sets empty. -/
def promote (h : Gen.Heap) (surv : Nat → Bool) : Gen.Heap :=
  { alloc := fun x => h.alloc x && surv x
    young := fun _ => false
    fld := h.fld
    unlogged := fun x => h.alloc x && surv x
    roots := h.roots
    modbuf := []
    rmod := [] }

/-- An empty generational heap. -/
def genEmpty : Gen.Heap :=
  { alloc := fun _ => false, young := fun _ => false, fld := fun _ _ => none, unlogged := fun _ => false,
    roots := [], modbuf := [], rmod := [] }

/-- the values `memory_region_copy` stores into `dst[df, df+n)`: `src[sf + (j - df)]` read before the copy -/
def copyVals (srcFields : List (Option Nat)) (sf df : Nat) : Nat → Option Nat :=
  fun j => (srcFields.getD (sf + (j - df)) none)

/-! ## C06 -/

/-- the referent field (field 0) of a reference object of the shadow heap -/
def referentOf (h : Heap) (r : Nat) : Option Nat :=
  match h.objs[r]? with
  | some o => if o.isRef then (o.fields.head?).join else none
  | none => none

structure WState where
  soft : List Nat := []
  weak : List Nat := []
  phantom : List Nat := []
  fin : RefProc.FinState := { candidates := [], ready := [], popped := [] }
  /-- expected argument multiset of `enqueue_references` since the last `enqueued` op -/
  enq : List Nat := []

structure GcIn where
  heap : Heap
  /-- ids the collection starts from: the root table (full-heap GC) or the root table plus every survivor
  of the previous collection (nursery GC: mature objects are not collected, their fields are
  remembered — C05) -/
  seeds : List Id
  /-- objects of never-collected spaces: `is_live` is constantly true (they are not traced unless reachable) -/
  immortal : Id → Bool
  emergency : Bool := false

structure GcOut where
  w : WState
  /-- reference objects whose referent field the collector cleared -/
  cleared : List Nat
  /-- the marked set at the end of the pause (after finalizer resurrection) -/
  live : Array Bool
  /-- enqueued in this pause -/
  enqNow : List Nat

def liveOf (m : Array Bool) (imm : Id → Bool) (n : Nat) : Nat → Bool :=
  fun x => m.getD x false || (decide (x < n) && imm x)

/-- table insertion of `add_candidate` (the tables are hash sets) -/
def addCandidate (t : List Nat) (r : Nat) : List Nat := if t.contains r then t else t ++ [r]

/-- One stop-the-world collection as the reference / finalizable processors see it. -/
def gcStages (i : GcIn) (w : WState) : GcOut :=
  let n := i.heap.objs.size
  let ref0 := referentOf i.heap
  -- strong closure
  let live0 := liveOf (reachFrom i.heap i.seeds) i.immortal n
  -- SoftRefClosure: `retain` (unless emergency), closure, `scan`
  let sS : RefProc.RefState := { table := w.soft, referent := ref0, enqueued := [] }
  let retained := if i.emergency then [] else RefProc.retainSet live0 sS
  let live1 := liveOf (reachFrom i.heap (i.seeds ++ retained)) i.immortal n
  let sS1 := RefProc.scanRefs live1 sS
  -- WeakRefClosure
  let sW1 := RefProc.scanRefs live1 { table := w.weak, referent := sS1.referent, enqueued := [] }
  -- FinalRefClosure: finalizable scan, ready objects are kept alive with their closure, then the
  -- `RescanReferences` sentinel (soft + weak once more)
  let f1 := w.fin.scan live1
  let m2 := reachFrom i.heap (i.seeds ++ retained ++ f1.ready.map (·.2))
  let live2 := liveOf m2 i.immortal n
  let sS2 := RefProc.scanRefs live2 { sS1 with referent := sW1.referent }
  let sW2 := RefProc.scanRefs live2 { sW1 with referent := sS2.referent }
  -- PhantomRefClosure
  let sP := RefProc.scanRefs live2 { table := w.phantom, referent := sW2.referent, enqueued := [] }
  let refF := sP.referent
  let enqNow := sS2.enqueued ++ sW2.enqueued ++ sP.enqueued
  { w := { soft := sS2.table, weak := sW2.table, phantom := sP.table, fin := f1, enq := w.enq ++ enqNow }
    cleared := (w.soft ++ w.weak ++ w.phantom).filter fun r => (ref0 r).isSome && (refF r).isNone
    live := (Array.range n).map live2
    enqNow := enqNow }

/-- `get_all_finalizers`: candidates and ready objects are handed out, nothing stays registered. -/
def finTakeAll (s : RefProc.FinState) : RefProc.FinState × List (Nat × Nat) :=
  ({ s with candidates := [], ready := [], popped := s.popped ++ (s.candidates ++ s.ready) }, s.candidates ++ s.ready)

end Mmtk.WeakMon
